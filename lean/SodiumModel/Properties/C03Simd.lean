import SodiumModel.Model.ChachaSimd
import SodiumModel.Proofs.ChachaSimd
import SodiumModel.Properties.C03Cores
/-
  C03 (SIMD) — the VECTORISED ChaCha20 of libsodium (crypto_stream/chacha20/dolbeau: the AVX2 file
  `chacha20_dolbeau-avx2.c` = u8.h → u4.h → u1.h → u0.h, which is the implementation this host selects,
  and the SSSE3 file `chacha20_dolbeau-ssse3.c` = u4.h → u1.h → u0.h), modelled statement by statement in
  `Model/ChachaSimd.lean`, produces exactly the bytes of the reference `chacha20_ref.c` model
  (`Model/CoresRef.lean`, proved equal to RFC 8439 in `Properties/C03Cores.lean`) for every key, nonce,
  64-bit counter and length.

  TRUSTED BASE. Part 1 of `Model/ChachaSimd.lean` is a hand-written semantics of the SSE2 / SSSE3 / AVX2
  intrinsics the code uses (`_mm_loadu_si128`, `_mm_storeu_si128`, `_mm_set_epi8`, `_mm_set1_epi32`,
  `_mm_set_epi64x`, `_mm_set1_epi64x`, `_mm_cvtsi64_si128`, `_mm_add_epi32`, `_mm_add_epi64`, `_mm_xor_si128`,
  `_mm_or_si128`, `_mm_slli_epi32`, `_mm_srli_epi32`, `_mm_shuffle_epi32`, `_mm_shuffle_epi8`,
  `_mm_unpacklo/hi_epi32`, `_mm_unpacklo/hi_epi64`, and the `_mm256_` forms `loadu_si256`, `storeu_si256`,
  `set_epi8`, `set1_epi32`, `set_epi32`, `set_epi64x`, `broadcastq_epi64`, `add_epi32`, `add_epi64`, `xor_si256`,
  `or_si256`, `slli_epi32`, `srli_epi32`, `shuffle_epi8`, `unpacklo/hi_epi32`, `unpacklo/hi_epi64`,
  `permutevar8x32_epi32`, `permute2x128_si256`), each transcribing the Intel SDM "Operation" text quoted in
  its doc-comment, on ONE canonical register representation (`V128` = four 32-bit lanes; 64-bit and byte
  views by explicit reinterpretation; little-endian memory image). Nothing in Lean ties these definitions
  to the CPU: they are validated against the real CPU by `simdcheck/run.sh` (gcc -mavx2
  `simdcheck/intrinsics_check.c` vs `simdcheck/SimdCheck.lean`). The main model keeps `m` and `c` as
  separate values; `inplace_bodies_eq` proves that the loop bodies compute the same thing when `m == c`
  (the in-place callers), with loads reading the buffer as left by the preceding stores.

  DEVIATION from the reference code (not observable through the API): after a request whose length is
  not a multiple of 64, u0.h leaves the context counter on the partial block, whereas chacha20_ref.c steps
  it past it (`counter_after_simd`, `counter_after_ref`, `counter_differs_after_partial_block`). Every caller
  wipes the context right after the call, so no output depends on it.

  IETF layout: the backend has no 32-bit counter mode. u4.h / u8.h add to the 64-bit number
  `x[12] | x[13] << 32`, u1.h carries `in12 == 0` into `in13`: past block 2^32 − 1 the carry goes into the
  first nonce word, exactly as in chacha20_ref.c (`ietf_ext_xor_ic_eq_ref` holds with no bound, and
  `ietf_boundary_bumps_nonce_word` shows the carry); the public wrapper's guard (C03.ietf_guard_iff)
  is what keeps requests below the boundary.
-/
open Sodium Sodium.Model Sodium.Model.CoresRef Sodium.Model.ChachaSimd Sodium.Spec Sodium.ChachaSimdP
namespace Sodium.C03Simd

/-! #### (1) the vector rotations and quarter rounds -/

/-- `_mm_shuffle_epi8(v, rot16)` is `rotl 16` on each of the four lanes (a byte permutation) -/
theorem shuffle_epi8_rot16 (v : V128) :
    mm_shuffle_epi8 v rot16 = ⟨ROTL32 v.e0 16, ROTL32 v.e1 16, ROTL32 v.e2 16, ROTL32 v.e3 16⟩ :=
  shuffle_rot16 v

/-- `_mm_shuffle_epi8(v, rot8)` is `rotl 8` on each lane -/
theorem shuffle_epi8_rot8 (v : V128) :
    mm_shuffle_epi8 v rot8 = ⟨ROTL32 v.e0 8, ROTL32 v.e1 8, ROTL32 v.e2 8, ROTL32 v.e3 8⟩ :=
  shuffle_rot8 v

/-- the 256-bit constants shuffle each 128-bit half the same way: `rotl 16` / `rotl 8` on all eight lanes -/
theorem shuffle256_epi8_rot16 (v : M256) (i : Nat) :
    (mm256_shuffle_epi8 v rot16_256).lane i = ROTL32 (v.lane i) 16 := by
  rw [shuffle256_rot16]
  simp only [M256.lane, V128.lane, V128.map32]
  split <;> split <;> rfl

theorem shuffle256_epi8_rot8 (v : M256) (i : Nat) :
    (mm256_shuffle_epi8 v rot8_256).lane i = ROTL32 (v.lane i) 8 := by
  rw [shuffle256_rot8]
  simp only [M256.lane, V128.lane, V128.map32]
  split <;> split <;> rfl

/-- `VEC4_ROT(A, IMM)` (shift-shift-or) is `rotl IMM` on each lane, for the two amounts used -/
theorem VEC4_ROT_12 (a : V128) : VEC4_ROT a 12 = V128.map32 (fun w => ROTL32 w 12) a := by
  simp +decide [VEC4_ROT, mm_or_si128, mm_slli_epi32, mm_srli_epi32, V128.zip32, V128.map32, ROTL32]
theorem VEC4_ROT_7 (a : V128) : VEC4_ROT a 7 = V128.map32 (fun w => ROTL32 w 7) a := by
  simp +decide [VEC4_ROT, mm_or_si128, mm_slli_epi32, mm_srli_epi32, V128.zip32, V128.map32, ROTL32]

/-- u1.h / u0.h rotate by 12 and 7 with `slli ^ srli` (XOR, not OR): still `rotl` -/
theorem row_rot_12 (a : V128) :
    mm_xor_si128 (mm_slli_epi32 a 12) (mm_srli_epi32 a 20) = V128.map32 (fun w => ROTL32 w 12) a := by
  simp +decide [mm_xor_si128, mm_slli_epi32, mm_srli_epi32, V128.zip32, V128.map32, rotl12, xor_eq_or_12]
theorem row_rot_7 (a : V128) :
    mm_xor_si128 (mm_slli_epi32 a 7) (mm_srli_epi32 a 25) = V128.map32 (fun w => ROTL32 w 7) a := by
  simp +decide [mm_xor_si128, mm_slli_epi32, mm_srli_epi32, V128.zip32, V128.map32, rotl7, xor_eq_or_7]

theorem isLane_lane (i : Nat) : IsLane (fun v => v.lane i) := by
  constructor <;> intros <;> simp only [V128.lane, V128.zip32, V128.map32] <;> split <;> rfl

theorem isLane256_lane (i : Nat) : IsLane256 (fun v => v.lane i) := by
  constructor <;> intros <;> simp only [M256.lane, V128.lane, V128.zip32, V128.map32] <;> split <;> split <;> rfl

/-- `VEC4_QUARTERROUND(A, B, C, D)`: on every lane it is the reference `QUARTERROUND` of that lane -/
theorem VEC4_QUARTERROUND_lane (a b c d : V128) (i : Nat) :
    let r := VEC4_QUARTERROUND a b c d
    (r.1.lane i, r.2.1.lane i, r.2.2.1.lane i, r.2.2.2.lane i) =
      QUARTERROUND (a.lane i) (b.lane i) (c.lane i) (d.lane i) := by
  have h := isLane_lane i
  simp only [CoresRefP.QUARTERROUND_eq]
  simp only [VEC4_QUARTERROUND, VEC4_ROT, shuffle_rot16, shuffle_rot8, mm_add_epi32, mm_xor_si128,
    mm_or_si128, mm_slli_epi32, mm_srli_epi32, h.zip, h.map, HQUARTERROUND, ROTL32]
  simp +decide

/-- one loop body of u4.h = one reference double round on each of the four lanes -/
theorem u4_doubleRound_lanes (X : X16 V128) (i : Nat) :
    laneW16 (fun v => v.lane i) (u4_doubleRound X) = chachaDoubleRound (laneW16 (fun v => v.lane i) X) :=
  u4_doubleRound_lane _ (isLane_lane i) X

/-- one loop body of u8.h (two `VEC8_ROUND`s, the four quarter rounds of each interleaved line by line)
    = one reference double round on each of the eight lanes -/
theorem u8_doubleRound_lanes (X : X16 M256) (i : Nat) :
    laneW16 (fun v => v.lane i) (u8_doubleRound X) = chachaDoubleRound (laneW16 (fun v => v.lane i) X) :=
  u8_doubleRound_lane _ (isLane256_lane i) X

/-- one loop body of u1.h / u0.h (rows, `_mm_shuffle_epi32` 0x93 / 0x4e / 0x39 diagonalisation and back)
    = one reference double round -/
theorem row_doubleRound_eq (w : W16) : row_doubleRound (rows w) = rows (chachaDoubleRound w) :=
  row_doubleRound_spec w

/-! #### (2)–(5) the four included files, one loop iteration each -/

/-- `n` consecutive passes of the reference loop body (`chacha20_block`: 64 bytes and the counter step
    `j12++; if (!j12) j13++`), on `m`, `m + 64`, … -/
def refBlocks : Nat → W16 → Bytes → Bytes × W16
  | 0, j, _ => ([], j)
  | n + 1, j, m =>
    let r := chacha20_block j m
    let s := refBlocks n r.2 (m.drop 64)
    (r.1 ++ s.1, s.2)

theorem refBlocks_eq : refBlocks = blocksN := by
  funext n j m
  induction n generalizing j m with
  | zero => rfl
  | succ n ih => simp only [refBlocks, blocksN, ih]

/-- the 64-bit counter of a context -/
def counter (j : W16) : Nat := j.x12.toNat + 2 ^ 32 * j.x13.toNat

theorem counter_withCtr (j : W16) (n : UInt64) : counter (withCtr j n) = n.toNat := by
  have := n.toNat_lt
  have e : (32 : UInt64).toNat % 64 = 32 := by decide
  simp only [counter, withCtr, UInt64.toNat_toUInt32, UInt64.toNat_shiftRight, e, Nat.shiftRight_eq_div_pow]
  omega

theorem counter_qOf (j : W16) : (qOf j).toNat = counter j := q_toNat j.x12 j.x13

/-- after `n` reference blocks the counter is `counter + n` mod 2^64 (carry from word 12 into word 13
    included) and no other word has changed -/
theorem refBlocks_counter (n : Nat) (j : W16) (m : Bytes) :
    counter (refBlocks n j m).2 = (counter j + n) % 2 ^ 64 ∧
      (refBlocks n j m).2 = { j with x12 := (refBlocks n j m).2.x12, x13 := (refBlocks n j m).2.x13 } := by
  rw [refBlocks_eq, blocksN_snd, counter_withCtr, UInt64.toNat_add, counter_qOf, UInt64.toNat_ofNat']
  exact ⟨by omega, rfl⟩

theorem refBlocks_length (n : Nat) (j : W16) (m : Bytes) : (refBlocks n j m).1.length = 64 * n := by
  rw [refBlocks_eq]; exact blocksN_length n j m

/-- u1.h, one pass of `while (bytes >= 64)`: the 64 bytes at `c` become the reference block of the
    context on `m[0..64]` (keystream XOR message), nothing else in the buffer changes, and the counter is
    stepped with the carry into word 13 exactly as in the reference -/
theorem u1_block (x : W16) (m c : Bytes) (hc : 64 ≤ c.length) :
    u1_iter x m c = ((chacha20_block x m).1 ++ c.drop 64, (chacha20_block x m).2) :=
  u1_iter_spec x m c hc

/-- the counter lanes of u4.h, for EVERY 64-bit counter value: lane `k` of `x_12` / `x_13` holds the low /
    high word of `counter + k` mod 2^64 — the carry out of the low word is the 64-bit addition -/
theorem u4_counter_lanes (in12 in13 : UInt32) (k : Nat) (hk : k < 4) :
    ((u4_counters in12 in13).1.lane k).toNat + 2 ^ 32 * ((u4_counters in12 in13).2.1.lane k).toNat =
      (in12.toNat + 2 ^ 32 * in13.toNat + k) % 2 ^ 64 := by
  have hq := q_toNat in12 in13
  have e : (32 : UInt64).toNat % 64 = 32 := by decide
  have e1 : (1 : UInt64).toNat = 1 := rfl
  have e2 : (2 : UInt64).toNat = 2 := rfl
  have e3 : (3 : UInt64).toNat = 3 := rfl
  have hlt := (in12.toUInt64 ||| (in13.toUInt64 <<< 32)).toNat_lt
  rw [u4_counters_spec]
  match k, hk with
  | 0, _ | 1, _ | 2, _ | 3, _ =>
    simp only [V128.lane, UInt64.toNat_toUInt32, UInt64.toNat_shiftRight, UInt64.toNat_add, e, e1, e2, e3,
      Nat.shiftRight_eq_div_pow, hq]
    omega

/-- the same for the eight lanes of u8.h -/
theorem u8_counter_lanes (in12 in13 : UInt32) (k : Nat) (hk : k < 8) :
    ((u8_counters in12 in13).1.lane k).toNat + 2 ^ 32 * ((u8_counters in12 in13).2.1.lane k).toNat =
      (in12.toNat + 2 ^ 32 * in13.toNat + k) % 2 ^ 64 := by
  have hq := q_toNat in12 in13
  have e : (32 : UInt64).toNat % 64 = 32 := by decide
  have e1 : (1 : UInt64).toNat = 1 := rfl
  have e2 : (2 : UInt64).toNat = 2 := rfl
  have e3 : (3 : UInt64).toNat = 3 := rfl
  have e4 : (4 : UInt64).toNat = 4 := rfl
  have e5 : (5 : UInt64).toNat = 5 := rfl
  have e6 : (6 : UInt64).toNat = 6 := rfl
  have e7 : (7 : UInt64).toNat = 7 := rfl
  have hlt := (in12.toUInt64 ||| (in13.toUInt64 <<< 32)).toNat_lt
  rw [u8_counters_spec]
  match k, hk with
  | 0, _ | 1, _ | 2, _ | 3, _ | 4, _ | 5, _ | 6, _ | 7, _ =>
    simp only [M256.lane, V128.lane, Nat.reduceMod, Nat.reduceLT, Nat.reduceSub, ↓reduceIte,
      UInt64.toNat_toUInt32, UInt64.toNat_shiftRight, UInt64.toNat_add, e, e1, e2,
      e3, e4, e5, e6, e7, Nat.shiftRight_eq_div_pow, hq]
    omega

/-- u4.h, one pass of `while (bytes >= 256)`: the 256 bytes at `c` are four consecutive reference blocks
    (block `k` at offset `64·k`: the transposition puts every word at its place), for every context —
    in particular when the low counter word wraps inside the batch, where lanes after the wrap use
    `x13 + 1` as the reference does; nothing else in the buffer changes; the context afterwards is the
    reference context after four blocks -/
theorem u4_blocks (x : W16) (m c : Bytes) (hc : 256 ≤ c.length) :
    u4_iter x m c = ((refBlocks 4 x m).1 ++ c.drop 256, (refBlocks 4 x m).2) := by
  rw [refBlocks_eq]; exact u4_iter_spec x m c hc

/-- u8.h, one pass of `while (bytes >= 512)`: eight consecutive reference blocks -/
theorem u8_blocks (x : W16) (m c : Bytes) (hc : 512 ≤ c.length) :
    u8_iter x m c = ((refBlocks 8 x m).1 ++ c.drop 512, (refBlocks 8 x m).2) := by
  rw [refBlocks_eq]; exact u8_iter_spec x m c hc

/-- u0.h: the `bytes` (< 64 … ≤ 64) remaining bytes are `m XOR` the head of the keystream block of the
    context (`chacha20_block x (zeros 64)` is that block, C03Cores.chacha20_ref_block_eq_spec) -/
theorem u0_tail (x : W16) (m c : Bytes) (hm : m.length ≤ 64) (hc : m.length ≤ c.length) :
    (u0 x m c).take m.length = xorBytes m (chacha20_block x (zeros 64)).1 := by
  rw [u0_spec x m c hm hc, CoresRefP.chacha20_block_zeros]; rfl

/-! #### (6) end to end -/

/-- AVX2 composition (u8* → u4* → u1* → u0): for every context (key, nonce, 64-bit counter), every message
    and every output buffer of at least that length, the bytes are those of the reference
    `chacha20_encrypt_bytes` -/
theorem avx2_encrypt_bytes_eq_ref (ctx : W16) (m c : Bytes) (hc : m.length ≤ c.length) :
    (chacha20_encrypt_bytes_avx2 ctx m c).1 = (chacha20_encrypt_bytes ctx m).1 := by
  rw [chacha20_encrypt_bytes_avx2_eq ctx m c hc, ref_fst_eq_simdSpec]

/-- SSSE3 composition (u4* → u1* → u0) -/
theorem ssse3_encrypt_bytes_eq_ref (ctx : W16) (m c : Bytes) (hc : m.length ≤ c.length) :
    (chacha20_encrypt_bytes_ssse3 ctx m c).1 = (chacha20_encrypt_bytes ctx m).1 := by
  rw [chacha20_encrypt_bytes_ssse3_eq ctx m c hc, ref_fst_eq_simdSpec]

/-- hence the two compositions agree with each other (and the old contents of `c` are irrelevant) -/
theorem avx2_eq_ssse3 (ctx : W16) (m c c' : Bytes) (hc : m.length ≤ c.length) (hc' : m.length ≤ c'.length) :
    chacha20_encrypt_bytes_avx2 ctx m c = chacha20_encrypt_bytes_ssse3 ctx m c' := by
  rw [chacha20_encrypt_bytes_avx2_eq ctx m c hc, chacha20_encrypt_bytes_ssse3_eq ctx m c' hc']

/-- the context after the SIMD code: only the counter words change, and the 64-bit counter has advanced by
    the number of FULL blocks, ⌊len/64⌋ (mod 2^64) -/
theorem counter_after_simd (ctx : W16) (m c : Bytes) (hc : m.length ≤ c.length) :
    (chacha20_encrypt_bytes_avx2 ctx m c).2 = (chacha20_encrypt_bytes_ssse3 ctx m c).2 ∧
    counter (chacha20_encrypt_bytes_avx2 ctx m c).2 = (counter ctx + m.length / 64) % 2 ^ 64 ∧
    (chacha20_encrypt_bytes_avx2 ctx m c).2 =
      { ctx with x12 := (chacha20_encrypt_bytes_avx2 ctx m c).2.x12,
                 x13 := (chacha20_encrypt_bytes_avx2 ctx m c).2.x13 } := by
  rw [chacha20_encrypt_bytes_avx2_eq ctx m c hc, chacha20_encrypt_bytes_ssse3_eq ctx m c hc, simdSpec_snd,
    counter_withCtr, UInt64.toNat_add, counter_qOf, UInt64.toNat_ofNat']
  exact ⟨rfl, by omega, rfl⟩

/-- the context after the reference code: the counter has advanced by the number of blocks STARTED,
    ⌈len/64⌉ -/
theorem counter_after_ref (ctx : W16) (m : Bytes) :
    counter (chacha20_encrypt_bytes ctx m).2 = (counter ctx + (m.length + 63) / 64) % 2 ^ 64 := by
  by_cases h0 : m.length = 0
  · have : m = [] := List.eq_nil_of_length_eq_zero h0
    subst this
    have := ctx.x12.toNat_lt; have := ctx.x13.toNat_lt
    simp only [chacha20_encrypt_bytes, List.length_nil, if_true, counter]; omega
  · rw [ref_encrypt_bytes_eq ctx m (by omega), counter_withCtr, UInt64.toNat_add, counter_qOf,
      UInt64.toNat_ofNat']
    omega

/-- so the SIMD code leaves the SAME context as the reference exactly when no partial block was produced … -/
theorem ctx_after_eq_ref_of_full_blocks (ctx : W16) (m c : Bytes) (hc : m.length ≤ c.length)
    (h : m.length % 64 = 0) :
    (chacha20_encrypt_bytes_avx2 ctx m c).2 = (chacha20_encrypt_bytes ctx m).2 := by
  rw [chacha20_encrypt_bytes_avx2_eq ctx m c hc, simdSpec_snd]
  by_cases h0 : m.length = 0
  · have : m = [] := List.eq_nil_of_length_eq_zero h0
    subst this
    have z : UInt64.ofNat 0 = 0 := rfl
    simp only [chacha20_encrypt_bytes, List.length_nil, if_true, Nat.zero_div, z, UInt64.add_zero, withCtr_qOf]
  · rw [ref_encrypt_bytes_eq ctx m (by omega)]
    have : (m.length + 63) / 64 = m.length / 64 := by omega
    rw [this]

/-- … DEVIATION: after a partial last block the reference has stepped the counter, u0.h has not
    (one byte, zero key: counter 1 vs 0). Not observable: all callers wipe the context. -/
theorem counter_differs_after_partial_block :
    (chacha20_encrypt_bytes_avx2 W16.zero [0] [0]).2 ≠ (chacha20_encrypt_bytes W16.zero [0]).2 ∧
    (chacha20_encrypt_bytes_ssse3 W16.zero [0] [0]).2 ≠ (chacha20_encrypt_bytes W16.zero [0]).2 := by
  decide +kernel

/-! #### the in-place callers (`m == c`) -/

/-- With `m == c` (`stream_ref` / `stream_ietf_ext_ref`: `memset(c, 0, clen)` then encrypt in place), where every
    load reads the buffer as left by the stores before it in program order, each loop body computes the same
    buffer and context as the separate-buffer body applied to the old contents: u1.h (loads first), u4.h
    (load / store interleaved inside `ONEQUAD_TRANSPOSE`; the four quads read slots the earlier quads did not
    write), u8.h (second `ONEOCTO` reads the 32-byte slots the first did not write), u0.h (byte `i` is read
    before it is written). The loops only advance `m` and `c` together past the bytes written, and the bodies
    leave everything beyond them unchanged (`u1_block`, `u4_blocks`, `u8_blocks`: `++ c.drop n`), so the theorems
    above, stated for separate `m` and `c`, cover the in-place calls. -/
theorem inplace_bodies_eq (x : W16) (c : Bytes) :
    u1_iter_inplace x c = u1_iter x c c ∧
    (256 ≤ c.length → u4_iter_inplace x c = u4_iter x c c) ∧
    (512 ≤ c.length → u8_iter_inplace x c = u8_iter x c c) ∧
    (∀ bytes pb, u0_xorloop_inplace bytes pb 0 c = u0_xorloop bytes c pb 0 c) :=
  ⟨u1_iter_inplace_eq x c, u4_iter_inplace_eq x c, u8_iter_inplace_eq x c, fun bytes pb => u0_xorloop_inplace_eq bytes pb c⟩

/-! #### the entry points of the two files -/

theorem stream_ref_eq_ref (clen : Nat) (n k : Bytes) :
    avx2.stream_ref clen n k = CoresRef.stream_ref clen n k ∧
    ssse3.stream_ref clen n k = CoresRef.stream_ref clen n k := by
  simp only [Impl.stream_ref, CoresRef.stream_ref, avx2, ssse3]
  by_cases h : clen = 0
  · simp [h]
  · simp only [if_neg h]
    exact ⟨avx2_encrypt_bytes_eq_ref _ _ _ (Nat.le_refl _), ssse3_encrypt_bytes_eq_ref _ _ _ (Nat.le_refl _)⟩

theorem stream_ietf_ext_ref_eq_ref (clen : Nat) (n k : Bytes) :
    avx2.stream_ietf_ext_ref clen n k = CoresRef.stream_ietf_ext_ref clen n k ∧
    ssse3.stream_ietf_ext_ref clen n k = CoresRef.stream_ietf_ext_ref clen n k := by
  simp only [Impl.stream_ietf_ext_ref, CoresRef.stream_ietf_ext_ref, avx2, ssse3]
  by_cases h : clen = 0
  · simp [h]
  · simp only [if_neg h]
    exact ⟨avx2_encrypt_bytes_eq_ref _ _ _ (Nat.le_refl _), ssse3_encrypt_bytes_eq_ref _ _ _ (Nat.le_refl _)⟩

theorem stream_ref_xor_ic_eq_ref (c m n : Bytes) (ic : UInt64) (k : Bytes) (hc : m.length ≤ c.length) :
    avx2.stream_ref_xor_ic c m n ic k = CoresRef.stream_ref_xor_ic m n ic k ∧
    ssse3.stream_ref_xor_ic c m n ic k = CoresRef.stream_ref_xor_ic m n ic k := by
  simp only [Impl.stream_ref_xor_ic, CoresRef.stream_ref_xor_ic, avx2, ssse3, CoresRefP.U32V_eq]
  by_cases h : m.length = 0
  · simp [h]
  · simp only [if_neg h]
    exact ⟨avx2_encrypt_bytes_eq_ref _ _ _ hc, ssse3_encrypt_bytes_eq_ref _ _ _ hc⟩

/-- IETF layout, EVERY 32-bit initial counter and length, no bound: same bytes as the reference — in
    particular the same behaviour past block 2^32 − 1 -/
theorem ietf_ext_xor_ic_eq_ref (c m n : Bytes) (ic : UInt32) (k : Bytes) (hc : m.length ≤ c.length) :
    avx2.stream_ietf_ext_ref_xor_ic c m n ic k = CoresRef.stream_ietf_ext_ref_xor_ic m n ic k ∧
    ssse3.stream_ietf_ext_ref_xor_ic c m n ic k = CoresRef.stream_ietf_ext_ref_xor_ic m n ic k := by
  simp only [Impl.stream_ietf_ext_ref_xor_ic, CoresRef.stream_ietf_ext_ref_xor_ic, avx2, ssse3]
  by_cases h : m.length = 0
  · simp [h]
  · simp only [if_neg h]
    exact ⟨avx2_encrypt_bytes_eq_ref _ _ _ hc, ssse3_encrypt_bytes_eq_ref _ _ _ hc⟩

/-! #### against the specification (RFC 8439 / original ChaCha20 keystream) -/

/-- `crypto_stream_chacha20_xor_ic` on the AVX2 (and SSSE3) backend: message XOR the specified keystream
    from byte offset 64·ic, every key, nonce, 64-bit counter (carry and wrap at 2^64 included), length -/
theorem avx2_stream_xor_ic_spec (c m n : Bytes) (ic : UInt64) (k : Bytes) (hc : m.length ≤ c.length) :
    avx2.stream_ref_xor_ic c m n ic k = xorBytes m (C03Cores.specStreamOrig k n (64 * ic.toNat) m.length) := by
  rw [(stream_ref_xor_ic_eq_ref c m n ic k hc).1, C03Cores.stream_ref_xor_ic_spec]

theorem ssse3_stream_xor_ic_spec (c m n : Bytes) (ic : UInt64) (k : Bytes) (hc : m.length ≤ c.length) :
    ssse3.stream_ref_xor_ic c m n ic k = xorBytes m (C03Cores.specStreamOrig k n (64 * ic.toNat) m.length) := by
  rw [(stream_ref_xor_ic_eq_ref c m n ic k hc).2, C03Cores.stream_ref_xor_ic_spec]

/-- `crypto_stream_chacha20`: the first `clen` keystream bytes -/
theorem avx2_stream_spec (clen : Nat) (n k : Bytes) :
    avx2.stream_ref clen n k = C03Cores.specStreamOrig k n 0 clen := by
  rw [(stream_ref_eq_ref clen n k).1, C03Cores.stream_ref_spec]

theorem ssse3_stream_spec (clen : Nat) (n k : Bytes) :
    ssse3.stream_ref clen n k = C03Cores.specStreamOrig k n 0 clen := by
  rw [(stream_ref_eq_ref clen n k).2, C03Cores.stream_ref_spec]

/-- IETF layout below the 2^32-block boundary (what the public wrapper's guard lets through): RFC 8439 keystream -/
theorem avx2_ietf_xor_ic_spec (c m n : Bytes) (ic : UInt32) (k : Bytes) (hc : m.length ≤ c.length)
    (h : ic.toNat + (m.length + 63) / 64 ≤ 2 ^ 32) :
    avx2.stream_ietf_ext_ref_xor_ic c m n ic k =
      xorBytes m (C03Cores.specStreamIetf k n (64 * ic.toNat) m.length) := by
  rw [(ietf_ext_xor_ic_eq_ref c m n ic k hc).1, C03Cores.stream_ietf_ext_ref_xor_ic_spec m n ic k h]

theorem ssse3_ietf_xor_ic_spec (c m n : Bytes) (ic : UInt32) (k : Bytes) (hc : m.length ≤ c.length)
    (h : ic.toNat + (m.length + 63) / 64 ≤ 2 ^ 32) :
    ssse3.stream_ietf_ext_ref_xor_ic c m n ic k =
      xorBytes m (C03Cores.specStreamIetf k n (64 * ic.toNat) m.length) := by
  rw [(ietf_ext_xor_ic_eq_ref c m n ic k hc).2, C03Cores.stream_ietf_ext_ref_xor_ic_spec m n ic k h]

theorem avx2_ietf_stream_spec (clen : Nat) (n k : Bytes) (h : (clen + 63) / 64 ≤ 2 ^ 32) :
    avx2.stream_ietf_ext_ref clen n k = C03Cores.specStreamIetf k n 0 clen := by
  rw [(stream_ietf_ext_ref_eq_ref clen n k).1, C03Cores.stream_ietf_ext_ref_spec clen n k h]

/-- what happens AT the boundary in this backend (as in the reference): with the 32-bit counter at
    2^32 − 1, the second block of a request uses counter word 0 and the FIRST NONCE WORD PLUS ONE.
    Stated for a u1.h-sized request (two blocks) on every key and nonce … -/
theorem ietf_boundary_bumps_nonce_word (c m n k : Bytes) (hm : m.length = 128) (hc : 128 ≤ c.length) :
    avx2.stream_ietf_ext_ref_xor_ic c m n 0xffffffff k =
      xorBytes m (Chacha.blockWords k 0xffffffff (load32_le n) (Chacha.load32le (n.drop 4)) (Chacha.load32le (n.drop 8)) ++
                  Chacha.blockWords k 0 (load32_le n + 1) (Chacha.load32le (n.drop 4)) (Chacha.load32le (n.drop 8))) := by
  rw [(ietf_ext_xor_ic_eq_ref c m n _ k (by omega)).1, CoresRefP.stream_ietf_ext_ref_xor_ic_eq,
    CoresRefP.blockfn_ietf, chacha_ietf_ext_xor_ic, hm]
  have hne : m.isEmpty = false := by
    cases m with
    | nil => simp at hm
    | cons _ _ => rfl
  have hne2 : (m.drop 64).isEmpty = false := by
    have : (m.drop 64).length = 64 := by rw [List.length_drop]; omega
    cases hd : m.drop 64 with
    | nil => rw [hd] at this; simp at this
    | cons _ _ => rfl
  have hnil : (m.drop 64).drop 64 = [] := List.drop_of_length_le (by rw [List.length_drop]; omega)
  have h1 : ((0xffffffff : UInt32) + 1 = 0) := by decide
  have hl := C03Cores.blockWords_length k 0xffffffff (load32_le n) (Chacha.load32le (n.drop 4))
    (Chacha.load32le (n.drop 8))
  have step : ∀ (B : BlockFn) (fuel : Nat) (a b : UInt32) (m : Bytes), m.isEmpty = false →
      chachaLoop B (fuel + 1) a b m =
        xorBytes (m.take 64) (B a b) ++ chachaLoop B fuel (a + 1) (if a + 1 = 0 then b + 1 else b) (m.drop 64) := by
    intro B fuel a b m h; simp [chachaLoop, h]
  rw [show (128 : Nat) = 126 + 1 + 1 from rfl, step _ _ _ _ _ hne, step _ _ _ _ _ hne2, hnil,
    CoresRefP.chachaLoop_nil, h1, if_pos rfl, xorBytes_append_right, hl, List.append_nil,
    List.take_of_length_le (show (m.drop 64).length ≤ 64 by rw [List.length_drop]; omega)]

/-- … and the same carry inside a u8.h / u4.h batch is the 64-bit lane addition (`u8_counter_lanes`); e.g. eight
    blocks from counter word 2^32 − 3 with nonce word 5: lanes 3..7 run with nonce word 6 -/
theorem ietf_boundary_inside_u8_batch : u8_counters 0xfffffffd 5 =
    (⟨⟨0xfffffffd, 0xfffffffe, 0xffffffff, 0⟩, ⟨1, 2, 3, 4⟩⟩, ⟨⟨5, 5, 5, 6⟩, ⟨6, 6, 6, 6⟩⟩, 0x5fffffffd) := by
  decide

theorem ietf_boundary_inside_u4_batch : u4_counters 0xfffffffe 5 =
    (⟨0xfffffffe, 0xffffffff, 0, 1⟩, ⟨5, 5, 6, 6⟩, 0x5fffffffe) := by
  decide

/-! #### non-vacuity -/

/-- RFC 8439 §2.4.2 (key 00..1f, nonce 00 00 00 00 00 00 00 4a 00 00 00 00, counter 1): first 16 bytes of
    the ciphertext of the 114-byte "Ladies and Gentlemen…" plaintext, through the AVX2-structured model -/
example :
    (avx2.stream_ietf_ext_ref_xor_ic (zeros 16) "Ladies and Gentl".toUTF8.toList
        [0, 0, 0, 0, 0, 0, 0, 0x4a, 0, 0, 0, 0] 1 ((List.range 32).map UInt8.ofNat)) =
      [0x6e, 0x2e, 0x35, 0x9a, 0x25, 0x68, 0xf9, 0x80, 0x41, 0xba, 0x07, 0x28, 0xdd, 0x0d, 0x69, 0x81] := by
  decide +kernel

/-- a context whose low counter word wraps after one block, and a 70-byte message -/
def exCtx : W16 :=
  { chacha_keysetup W16.zero ((List.range 32).map UInt8.ofNat) with x12 := 0xffffffff, x13 := 0xffffffff, x14 := 7, x15 := 9 }
def exMsg : Bytes := (List.range 70).map UInt8.ofNat

/-- a request through u1.h and u0.h (64 + 6 bytes) with the low counter word wrapping after the first block:
    AVX2 model = SSSE3 model = reference model. (Requests through u4.h / u8.h are evaluated by the compiled
    driver on every C03 correspondence line — `Driver/C03.lean` prints MODEL-DISAGREE otherwise — kernel
    evaluation of 256+ bytes exceeds the per-declaration budget.) -/
example : (chacha20_encrypt_bytes_avx2 exCtx exMsg exMsg).1 = (chacha20_encrypt_bytes exCtx exMsg).1 := by
  decide +kernel
example : (chacha20_encrypt_bytes_ssse3 exCtx exMsg (zeros 70)).1 = (chacha20_encrypt_bytes exCtx exMsg).1 := by
  decide +kernel

/-- hypotheses are satisfiable -/
example : (zeros 700).length ≤ (zeros 700).length ∧ (0 : UInt32).toNat + ((zeros 700).length + 63) / 64 ≤ 2 ^ 32 := by
  decide +kernel

end Sodium.C03Simd
