import SodiumModel.Model.X86Sse
import SodiumModel.Model.SalsaSimd
import SodiumModel.Proofs.X86Sse2
import SodiumModel.Proofs.X86Sse2Loop
import SodiumModel.Properties.C03SalsaSimd
import Generated.SalsaXmm6Asm
/-
  C03 / C10 — theorem (a) about the hand-written SSE2 assembly `crypto_stream/salsa20/xmm6/salsa20_xmm6-asm.S`, as the
  instruction list regenerated from the current text of the file (`Generated/SalsaXmm6Asm.lean`) and executed by the
  interpreter of `Model/X86Sse.lean`:

    for EVERY memory content (so every key and nonce), every 64-bit initial counter and every non-zero length, the
    52 instructions from the entry `stream_salsa20_xmm6_xor_ic` to the `cmp $256,%r9` that selects the path leave, in
    the frame slots 112 / 64 / 80 / 96(%rsp), the sixteen state words in the diagonal layout of the intrinsics code
    (`ctx->input[0..15]` of `Model/SalsaSimd.lean` = `salsa_ivsetup (salsa_keysetup …)`), with word 8 = the LOW and
    word 13 = the HIGH 32 bits of the initial counter, and the saved 64-bit counter in 472(%rsp).

  Scope of the statement: the stack pointer, the key pointer and the nonce pointer are the concrete addresses of the
  driver's layout (`RSP0 = 1000`, `KEY = 1024`, `NONCE = 1056`; the frame is [480, 992)); all other registers, the
  flags, the xmm registers and the WHOLE memory content are universally quantified.  `movdqa` alignment is not
  modelled (the frame base 480 is 32-byte aligned, `frame_aligned`).
-/
namespace Sodium.C03Asm2
open Sodium Sodium.Model Sodium.Model.X86Sse Sodium.Model.CoresRef Sodium.Model.SalsaSimd Sodium.X86SseP Sodium.SalsaSimdP
open Generated.SalsaXmm6Asm

/-- (a), over an arbitrary memory: the frame words after the prologue, in `ctx->input` order, are the four constants,
    the eight key words and two nonce words read from the memory at `KEY` / `NONCE`, and BOTH halves of the counter -/
theorem prologue_frame (g0 : Gprs) (x : Xmms) (cf zf : Bool) (mem : Mem) (c mp len ic : UInt64) (hlen : len ≠ 0) :
    frameCtx (run prog 52 (entryXorIc g0 x cf zf mem c mp len ic)) =
      ⟨0x61707865, 0x3320646e, 0x79622d32, 0x6b206574,
       mem.read32 (KEY.toNat + 20), mem.read32 (KEY.toNat + 0), mem.read32 (NONCE.toNat + 0), mem.read32 (KEY.toNat + 16),
       ic.toUInt32, mem.read32 (KEY.toNat + 24), mem.read32 (KEY.toNat + 4), mem.read32 (NONCE.toNat + 4),
       mem.read32 (KEY.toNat + 12), (ic >>> 32).toUInt32, mem.read32 (KEY.toNat + 28), mem.read32 (KEY.toNat + 8)⟩ :=
  (prologue_run g0 x cf zf mem c mp len ic hlen).1

/-- … and the machine is then at the `cmp $256,%r9` (index 77), not halted, with the frame at 480, the length in
    `%r9`, the message and output pointers untouched and the 64-bit counter saved in 472(%rsp) -/
theorem prologue_control (g0 : Gprs) (x : Xmms) (cf zf : Bool) (mem : Mem) (c mp len ic : UInt64) (hlen : len ≠ 0) :
    let s := run prog 52 (entryXorIc g0 x cf zf mem c mp len ic)
    s.pc = 77 ∧ prog.fetch 77 = some (Instr.cmpIR 256 .r9) ∧ s.halted = false ∧ s.fault = false ∧ s.g.rsp = 480 ∧
    s.g.r9 = len ∧ s.g.rsi = mp ∧ s.g.rdi = c ∧ s.mem.read64 (480 + 472) = ic := by
  have h := (prologue_run g0 x cf zf mem c mp len ic hlen).2
  exact ⟨h.1, fetch_77, h.2⟩

/-- (a) in the vocabulary of the intrinsics model: when the memory holds a 32-byte key at `KEY` and an 8-byte nonce at
    `NONCE`, the frame is the context `salsa_keysetup` + `salsa_ivsetup` build for the counter `ic` -/
theorem prologue_ctx_eq_setup (g0 : Gprs) (x : Xmms) (cf zf : Bool) (mem : Mem) (c mp len ic : UInt64) (hlen : len ≠ 0)
    (key nonce : Bytes) (hk : key.length = 32) (hn : nonce.length = 8)
    (hK : holdsBytes mem KEY.toNat key) (hN : holdsBytes mem NONCE.toNat nonce) (ctx : W16) :
    frameCtx (run prog 52 (entryXorIc g0 x cf zf mem c mp len ic)) =
      salsa_ivsetup (salsa_keysetup ctx key) nonce (some (toLE 8 ic.toNat)) := by
  rw [prologue_frame _ _ _ _ _ _ _ _ _ hlen, setup_eq, toLE8_words]
  simp only [read32_of_holds mem _ key hK _ (show 20 + 4 ≤ key.length by omega), read32_of_holds mem _ key hK _ (show 0 + 4 ≤ key.length by omega),
    read32_of_holds mem _ key hK _ (show 16 + 4 ≤ key.length by omega), read32_of_holds mem _ key hK _ (show 24 + 4 ≤ key.length by omega),
    read32_of_holds mem _ key hK _ (show 4 + 4 ≤ key.length by omega), read32_of_holds mem _ key hK _ (show 12 + 4 ≤ key.length by omega),
    read32_of_holds mem _ key hK _ (show 28 + 4 ≤ key.length by omega), read32_of_holds mem _ key hK _ (show 8 + 4 ≤ key.length by omega),
    read32_of_holds mem _ nonce hN _ (show 0 + 4 ≤ nonce.length by omega), read32_of_holds mem _ nonce hN _ (show 4 + 4 ≤ nonce.length by omega),
    List.drop_zero, ChachaSimdP.drop4_store, CoresRefP.load32_le_store32_le, ChachaSimdP.word_bytes]

/-- hence it is the initial state of `crypto_core_salsa(out, nonce ‖ le64(ic), key, NULL)` in the diagonal layout -/
theorem prologue_ctx_eq_spec_init (g0 : Gprs) (x : Xmms) (cf zf : Bool) (mem : Mem) (c mp len ic : UInt64) (hlen : len ≠ 0)
    (key nonce : Bytes) (hk : key.length = 32) (hn : nonce.length = 8)
    (hK : holdsBytes mem KEY.toNat key) (hN : holdsBytes mem NONCE.toNat nonce) :
    frameCtx (run prog 52 (entryXorIc g0 x cf zf mem c mp len ic)) =
      C03SalsaSimd.toDiagonal (salsaInit (nonce.take 8 ++ toLE 8 ic.toNat) key none) := by
  rw [prologue_ctx_eq_setup g0 x cf zf mem c mp len ic hlen key nonce hk hn hK hN W16.zero,
    C03SalsaSimd.setup_layout _ _ _ _ (by omega)]

/-- both counter words, for every 64-bit counter: word 8 / word 13 of the context recombine to `ic` -/
theorem prologue_counter (g0 : Gprs) (x : Xmms) (cf zf : Bool) (mem : Mem) (c mp len ic : UInt64) (hlen : len ≠ 0) :
    let w := frameCtx (run prog 52 (entryXorIc g0 x cf zf mem c mp len ic))
    w.x8 = ic.toUInt32 ∧ w.x13 = (ic >>> 32).toUInt32 ∧ C03SalsaSimd.counter w = ic.toNat := by
  simp only [prologue_frame _ _ _ _ _ _ _ _ _ hlen, C03SalsaSimd.counter, true_and]
  rw [← ChachaSimdP.q_toNat, ChachaSimdP.q_join]

/-- the frame the prologue builds is 32-byte aligned (what the `movdqa`s of the file need) -/
theorem frame_aligned : (480 : Nat) % 32 = 0 := by decide

/-- the driver's initial state is an instance of `entryXorIc` -/
theorem driver_state_is_entry (key nonce : Bytes) (ic : UInt64) (m : Bytes) :
    initXorIc entry_xor_ic key nonce ic m =
      entryXorIc zeroG zeroX false false (initMem key nonce m) (OUT m.length) MSG (UInt64.ofNat m.length) ic := rfl

/-- (a) for the state the driver cross-run starts from (`asmXorIc` of `Model/X86Sse.lean`): every 32-byte key, 8-byte
    nonce, counter and non-empty message -/
theorem driver_prologue (key nonce : Bytes) (ic : UInt64) (m : Bytes) (hk : key.length = 32) (hn : nonce.length = 8)
    (hm : m ≠ []) (hm2 : m.length < 2 ^ 64) :
    frameCtx (run prog 52 (initXorIc entry_xor_ic key nonce ic m)) =
      C03SalsaSimd.toDiagonal (salsaInit (nonce.take 8 ++ toLE 8 ic.toNat) key none) := by
  have hlen : UInt64.ofNat m.length ≠ 0 := by
    intro h
    have := congrArg UInt64.toNat h
    simp only [UInt64.toNat_ofNat', UInt64.toNat_zero] at this
    have : m.length = 0 := by omega
    exact hm (List.length_eq_zero_iff.mp this)
  rw [driver_state_is_entry]
  exact prologue_ctx_eq_spec_init _ _ _ _ _ _ _ _ _ hlen key nonce hk hn (initMem_holds_key key nonce m hk)
    (initMem_holds_nonce key nonce m hk hn)

example : frameCtx (run prog 52 (initXorIc entry_xor_ic (zeros 32) (zeros 8) 4294967296 [7])) =
    C03SalsaSimd.toDiagonal (salsaInit ((zeros 8).take 8 ++ toLE 8 4294967296) (zeros 32) none) :=
  driver_prologue _ _ _ _ rfl rfl (by simp) (by decide)

/-! ### first part of (b): the rounds loop of the 64-byte block path

  NOT yet proved: the feed-forward / XOR-with-message / store sequence after the loop (indices 803 .. 874), the 64-bit
  counter increment (875 .. 881) and hence (b) as a whole; (c), (d), (e). -/

/-- one pass of the body of `._mainloop2` (127 instructions from index 676, any register / flag / memory content) is
    `SalsaSimd.row_body` on `%xmm0..%xmm3` (diag0..diag3) and `%xmm4` (a0), with `%rcx -= 4` and the `ja` taken iff
    the old `%rcx` is above 4 (`%xmm5..%xmm7` are scratch) -/
theorem mainloop2_body_is_row_body (g : Gprs) (s : Diag) (x5 x6 x7 x8 x9 x10 x11 x12 x13 x14 x15 : ChachaSimd.V128)
    (cf zf : Bool) (mem : Mem) (k : Nat) :
    ∃ y5 y6 y7 : ChachaSimd.V128,
    run prog (127 + k) { g := g, x := ⟨s.diag0, s.diag1, s.diag2, s.diag3, s.a0, x5, x6, x7, x8, x9, x10, x11, x12, x13, x14, x15⟩,
                         cf := cf, zf := zf, mem := mem, pc := 676, halted := false, fault := false } =
    run prog k { g := { g with rcx := g.rcx - 4 },
                 x := ⟨(row_body s).diag0, (row_body s).diag1, (row_body s).diag2, (row_body s).diag3, (row_body s).a0, y5, y6, y7,
                       x8, x9, x10, x11, x12, x13, x14, x15⟩,
                 cf := decide (g.rcx < 4), zf := g.rcx == 4, mem := mem,
                 pc := if Cond.holds .a (decide (g.rcx < 4)) (g.rcx == 4) then 676 else 803, halted := false, fault := false } :=
  mainloop2_body g s x5 x6 x7 x8 x9 x10 x11 x12 x13 x14 x15 cf zf mem k

/-- index 676 is the label `._mainloop2`, and the instruction before it loads `%rcx = 20` -/
theorem mainloop2_label : labels.lookup "._mainloop2" = some 676 ∧ prog.fetch 675 = some (Instr.movIR 20 .rcx) :=
  ⟨by decide +kernel, fetch_675⟩

/-- the whole loop from `%rcx = 20`: 635 instructions, leaving at index 803 with `%xmm0..%xmm3` = the diagonals after
    `for (i = 0; i < ROUNDS; i += 4) row_body` — the loop of u1.h / u0.h, which `C03SalsaSimd.row_body_eq` proves to be
    two Salsa20 double rounds per pass -/
theorem mainloop2_is_rounds (rax rdx rbx rsp rbp rsi rdi r8 r9 r10 r11 r12 r13 r14 r15 : UInt64) (s : Diag)
    (x5 x6 x7 x8 x9 x10 x11 x12 x13 x14 x15 : ChachaSimd.V128) (cf zf : Bool) (mem : Mem) (k : Nat) :
    ∃ y4 y5 y6 y7 : ChachaSimd.V128,
    run prog (635 + k) { g := ⟨rax, 20, rdx, rbx, rsp, rbp, rsi, rdi, r8, r9, r10, r11, r12, r13, r14, r15⟩,
                         x := ⟨s.diag0, s.diag1, s.diag2, s.diag3, s.a0, x5, x6, x7, x8, x9, x10, x11, x12, x13, x14, x15⟩,
                         cf := cf, zf := zf, mem := mem, pc := 676, halted := false, fault := false } =
    run prog k { g := ⟨rax, 0, rdx, rbx, rsp, rbp, rsi, rdi, r8, r9, r10, r11, r12, r13, r14, r15⟩,
                 x := ⟨(forUpBy4 row_body ROUNDS 0 s).diag0, (forUpBy4 row_body ROUNDS 0 s).diag1,
                       (forUpBy4 row_body ROUNDS 0 s).diag2, (forUpBy4 row_body ROUNDS 0 s).diag3,
                       y4, y5, y6, y7, x8, x9, x10, x11, x12, x13, x14, x15⟩,
                 cf := false, zf := true, mem := mem, pc := 803, halted := false, fault := false } :=
  mainloop2_rounds rax rdx rbx rsp rbp rsi rdi r8 r9 r10 r11 r12 r13 r14 r15 s x5 x6 x7 x8 x9 x10 x11 x12 x13 x14 x15 cf zf mem k

end Sodium.C03Asm2
