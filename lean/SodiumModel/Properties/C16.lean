import SodiumModel.Proofs.Pad
/-
  C16 — padding round-trips for every length and block size and rejects invalid padding.
  Property theorems only (helper lemmas in Proofs/Pad.lean).
  Standing hypothesis `cap ≤ 2^56` (the `>> 56` barrier trick of sodium_pad is a 0/0xff mask only
  below 2^56; every real buffer satisfies it — DESIGN §4-O2).
-/
open Sodium Sodium.Model
namespace Sodium.C16

/-- the padded length: the next multiple of `bs` strictly above `n` -/
def padLen (n bs : Nat) : Nat := n + bs - n % bs

theorem padLen_props (n bs : Nat) (hbs : 0 < bs) :
    bs ∣ padLen n bs ∧ n < padLen n bs ∧ padLen n bs ≤ n + bs := by
  have hm := Nat.mod_lt n hbs
  have hle := Nat.mod_le n bs
  refine ⟨?_, by unfold padLen; omega, by unfold padLen; omega⟩
  have hdm := Nat.div_add_mod n bs
  have : padLen n bs = bs * (n / bs + 1) := by
    unfold padLen; rw [Nat.mul_add]; omega
  rw [this]; exact Nat.dvd_mul_right _ _

/-- Full functional specification of `sodium_pad`. -/
theorem pad_spec (buf : Bytes) (n bs cap : UInt64) (hbuf : buf.length = cap.toNat)
    (hcap : cap.toNat ≤ 2 ^ 56) :
    sodium_pad buf n bs cap =
      if bs = 0 then .err
      else if 2 ^ 64 - 1 - n.toNat ≤ bs.toNat - 1 - n.toNat % bs.toNat then .misuse
      else if cap.toNat < padLen n.toNat bs.toNat then .err
      else .ok (UInt64.ofNat (padLen n.toNat bs.toNat))
               (buf.take n.toNat ++ 0x80 :: zeros (padLen n.toNat bs.toNat - n.toNat - 1)
                  ++ buf.drop (padLen n.toNat bs.toNat)) := by
  unfold sodium_pad
  by_cases hbs : bs = 0
  · simp [hbs]
  · rw [if_neg hbs, if_neg hbs]
    have hxp := padXpadlen_toNat n bs hbs
    have hb : 0 < bs.toNat := by
      rcases Nat.eq_zero_or_pos bs.toNat with h | h
      · exact absurd (UInt64.toNat_inj.mp (by simpa using h)) hbs
      · exact h
    have hm := Nat.mod_lt n.toNat hb
    have hmle := Nat.mod_le n.toNat bs.toNat
    have hnl := n.toNat_lt
    have hmax : ((0xFFFFFFFFFFFFFFFF : UInt64) - n).toNat = 2 ^ 64 - 1 - n.toNat := by
      rw [UInt64.toNat_sub_of_le _ _ (UInt64.le_iff_toNat_le.mpr (by simp; omega))]; rfl
    have hmis : ((0xFFFFFFFFFFFFFFFF : UInt64) - n ≤ padXpadlen n bs) ↔
        2 ^ 64 - 1 - n.toNat ≤ bs.toNat - 1 - n.toNat % bs.toNat := by
      rw [UInt64.le_iff_toNat_le, hmax, hxp]
    simp only [hmis]
    by_cases hmu : 2 ^ 64 - 1 - n.toNat ≤ bs.toNat - 1 - n.toNat % bs.toNat
    · simp [hmu]
    · rw [if_neg hmu, if_neg hmu]
      have hadd : (n + padXpadlen n bs).toNat = n.toNat + (padXpadlen n bs).toNat := by
        rw [UInt64.toNat_add]; omega
      have hge : (n + padXpadlen n bs ≥ cap) ↔ cap.toNat < padLen n.toNat bs.toNat := by
        show cap ≤ n + padXpadlen n bs ↔ _
        rw [UInt64.le_iff_toNat_le, hadd, hxp]; unfold padLen; omega
      simp only [hge]
      by_cases hfit : cap.toNat < padLen n.toNat bs.toNat
      · simp [hfit]
      · rw [if_neg hfit, if_neg hfit]
        have hno : n.toNat + (padXpadlen n bs).toNat < cap.toNat := by
          rw [hxp]; unfold padLen at hfit; omega
        rw [pad_ok_buf buf n bs cap hbuf hcap hbs hno]
        have e1 : padLen n.toNat bs.toNat - n.toNat - 1 = (padXpadlen n bs).toNat := by
          rw [hxp]; unfold padLen; omega
        have e2 : padLen n.toNat bs.toNat = n.toNat + (padXpadlen n bs).toNat + 1 := by
          rw [hxp]; unfold padLen; omega
        have e3 : n + padXpadlen n bs + 1 = UInt64.ofNat (padLen n.toNat bs.toNat) := by
          rw [← UInt64.toNat_inj, UInt64.toNat_add, hadd, e2]
          simp
        rw [e1, e3, e2]

/-- the loop model equals the closed form used by the driver for large block sizes -/
theorem pad_eq_closed (buf : Bytes) (n bs cap : UInt64) (hbuf : buf.length = cap.toNat)
    (hcap : cap.toNat ≤ 2 ^ 56) : sodium_pad buf n bs cap = sodium_pad_closed buf n bs cap := by
  rw [pad_spec buf n bs cap hbuf hcap]; rfl

/-- Every buffer index the padding loop touches lies inside `[0, cap)` — in particular never
    below the start of the buffer (also part of C12). -/
theorem pad_in_bounds (n bs cap : UInt64) (hbs : bs ≠ 0)
    (hok : n.toNat + (padXpadlen n bs).toNat < cap.toNat) :
    ∀ idx ∈ padIndices n bs, idx < cap.toNat := by
  have hxp := padXpadlen_toNat n bs hbs
  have hmle := Nat.mod_le n.toNat bs.toNat
  have hadd : (n + padXpadlen n bs).toNat = n.toNat + (padXpadlen n bs).toNat := by
    rw [UInt64.toNat_add]; have := cap.toNat_lt; omega
  intro idx hidx
  simp only [padIndices, List.mem_map, List.mem_range] at hidx
  obtain ⟨i, hi, rfl⟩ := hidx
  have hil := bs.toNat_lt
  have hi' : (UInt64.ofNat i).toNat = i := by simp; omega
  rw [UInt64.toNat_sub_of_le _ _ (UInt64.le_iff_toNat_le.mpr (by rw [hi', hadd, hxp]; omega)), hadd, hi']
  omega

/-- Full functional specification of `sodium_unpad`: scanning the final block from its last
    byte, skip zeros; succeed iff the first non-zero byte is 0x80. -/
theorem unpad_spec (buf : Bytes) (bs : UInt64) (hlen : buf.length < 2 ^ 64) :
    sodium_unpad buf bs =
      if buf.length < bs.toNat ∨ bs = 0 then .err
      else
        let t := unpadBlock buf bs.toNat
        if (t.drop (leadZeros t)).head? = some 0x80
        then .done 0 (UInt64.ofNat (buf.length - 1 - leadZeros t))
        else .done (-1) (UInt64.ofNat (buf.length - 1)) := by
  have hl : (UInt64.ofNat buf.length).toNat = buf.length := by simp; omega
  have hcond : (UInt64.ofNat buf.length < bs ∨ bs = 0) ↔ (buf.length < bs.toNat ∨ bs = 0) := by
    rw [UInt64.lt_iff_toNat_lt, hl]
  unfold sodium_unpad
  simp only [hcond]
  by_cases hc : buf.length < bs.toNat ∨ bs = 0
  · simp [hc]
  · rw [if_neg hc, if_neg hc]
    have hb : bs.toNat ≤ buf.length := by omega
    have hbs0 : bs ≠ 0 := fun e => hc (Or.inr e)
    have hbpos : 0 < bs.toNat := by
      rcases Nat.eq_zero_or_pos bs.toNat with h | h
      · exact absurd (UInt64.toNat_inj.mp (by simpa using h)) hbs0
      · exact h
    have htl : (unpadBlock buf bs.toNat).length = bs.toNat := by
      simp [unpadBlock]; omega
    have hcl := unpadLoop_clean (unpadBlock buf bs.toNat) 0 (by rw [htl]; simp; have := bs.toNat_lt; omega)
    rw [hcl.1, hcl.2]
    have hlz : leadZeros (unpadBlock buf bs.toNat) ≤ bs.toNat := by
      have : ∀ t : Bytes, leadZeros t ≤ t.length := by
        intro t; induction t with
        | nil => simp [leadZeros]
        | cons c cs ih => unfold leadZeros; split <;> simp_all <;> omega
      have := this (unpadBlock buf bs.toNat); omega
    by_cases hh : ((unpadBlock buf bs.toNat).drop (leadZeros (unpadBlock buf bs.toNat))).head? = some 0x80
    · have hlt : leadZeros (unpadBlock buf bs.toNat) < bs.toNat := by
        rcases Nat.lt_or_ge (leadZeros (unpadBlock buf bs.toNat)) bs.toNat with h | h
        · exact h
        · rw [List.drop_of_length_le (by omega)] at hh; simp at hh
      rw [if_pos hh, if_pos hh, if_pos hh]
      congr 1
      rw [← UInt64.toNat_inj]
      have hbl := bs.toNat_lt
      rw [UInt64.toNat_sub_of_le, UInt64.toNat_sub_of_le]
      · simp; omega
      · rw [UInt64.le_iff_toNat_le, hl]; simp; omega
      · rw [UInt64.le_iff_toNat_le, UInt64.toNat_sub_of_le _ _ (by rw [UInt64.le_iff_toNat_le, hl]; simp; omega), hl]
        simp; omega
    · rw [if_neg hh, if_neg hh, if_neg hh]
      congr 1
      rw [← UInt64.toNat_inj]
      rw [UInt64.toNat_sub_of_le, UInt64.toNat_sub_of_le]
      · simp; omega
      · rw [UInt64.le_iff_toNat_le, hl]; simp; omega
      · rw [UInt64.le_iff_toNat_le, UInt64.toNat_sub_of_le _ _ (by rw [UInt64.le_iff_toNat_le, hl]; simp; omega), hl]
        simp

/-- `sodium_unpad` reads only the final block: two buffers of the same length that agree on
    their last `bs` bytes give the same result. -/
theorem unpad_reads_final_block (b1 b2 : Bytes) (bs : UInt64) (hl : b1.length = b2.length)
    (hagree : b1.drop (b1.length - bs.toNat) = b2.drop (b2.length - bs.toNat)) :
    sodium_unpad b1 bs = sodium_unpad b2 bs := by
  rw [hl] at hagree
  unfold sodium_unpad unpadBlock
  rw [hl, hagree]

/-- Round trip: unpadding what `sodium_pad` produced returns the original length. -/
theorem unpad_pad (buf : Bytes) (n bs cap p : UInt64) (buf' : Bytes)
    (hbuf : buf.length = cap.toNat) (hcap : cap.toNat ≤ 2 ^ 56) (hn : n.toNat ≤ buf.length)
    (h : sodium_pad buf n bs cap = .ok p buf') :
    sodium_unpad (buf'.take p.toNat) bs = .done 0 n := by
  rw [pad_spec buf n bs cap hbuf hcap] at h
  by_cases hbs : bs = 0
  · simp [hbs] at h
  · rw [if_neg hbs] at h
    split at h
    · cases h
    · split at h
      · cases h
      · rename_i hmu hfit
        injection h with hp hb'
        have hbpos : 0 < bs.toNat := by
          rcases Nat.eq_zero_or_pos bs.toNat with h | h
          · exact absurd (UInt64.toNat_inj.mp (by simpa using h)) hbs
          · exact h
        have hpl := padLen_props n.toNat bs.toNat hbpos
        have hm := Nat.mod_lt n.toNat hbpos
        have hmle := Nat.mod_le n.toNat bs.toNat
        have hcl := cap.toNat_lt
        have hpn : p.toNat = padLen n.toNat bs.toNat := by
          rw [← hp]; simp; omega
        -- the padded prefix
        have htake : buf'.take p.toNat = buf.take n.toNat ++ 0x80 :: zeros (padLen n.toNat bs.toNat - n.toNat - 1) := by
          have hlen : (buf.take n.toNat ++ (0x80 :: zeros (padLen n.toNat bs.toNat - n.toNat - 1))).length = padLen n.toNat bs.toNat := by
            simp [zeros] <;> omega
          have e : buf' = (buf.take n.toNat ++ (0x80 :: zeros (padLen n.toNat bs.toNat - n.toNat - 1))) ++ buf.drop (padLen n.toNat bs.toNat) := by
            rw [← hb']
          rw [e, hpn, List.take_left' hlen]
        have hplen : (buf'.take p.toNat).length = padLen n.toNat bs.toNat := by
          rw [htake]; simp [zeros]; omega
        rw [unpad_spec _ bs (by rw [hplen]; unfold padLen; omega)]
        have hcond : ¬ ((buf'.take p.toNat).length < bs.toNat ∨ bs = 0) := by
          intro hc
          rcases hc with hc | hc
          · rw [hplen] at hc; unfold padLen at hc; omega
          · exact hbs hc
        rw [if_neg hcond]
        -- the reversed final block starts with the zeros, then 0x80
        have hzlt : padLen n.toNat bs.toNat - n.toNat - 1 < bs.toNat := by unfold padLen; omega
        have hzle : padLen n.toNat bs.toNat - n.toNat - 1 + 1 + n.toNat = padLen n.toNat bs.toNat := by
          unfold padLen; omega
        generalize padLen n.toNat bs.toNat - n.toNat - 1 = z at htake hzlt hzle
        have hblock : ∃ rest, unpadBlock (buf'.take p.toNat) bs.toNat = zeros z ++ 0x80 :: rest := by
          unfold unpadBlock
          rw [hplen, htake]
          have hsplit : padLen n.toNat bs.toNat - bs.toNat ≤ (buf.take n.toNat).length := by
            simp; unfold padLen; omega
          rw [List.drop_append_of_le_length hsplit, List.reverse_append, List.reverse_cons]
          refine ⟨((buf.take n.toNat).drop (padLen n.toNat bs.toNat - bs.toNat)).reverse, ?_⟩
          simp [zeros]
        obtain ⟨rest, hblk⟩ := hblock
        have hlz : ∀ (k : Nat) (r : Bytes), leadZeros (zeros k ++ 0x80 :: r) = k := by
          intro k r; induction k with
          | zero => simp [zeros, leadZeros]
          | succ k ih => simp only [zeros, List.replicate_succ, List.cons_append] at ih ⊢; simp [leadZeros, ih]
        simp only [hblk, hlz]
        have hdrop : (zeros z ++ 0x80 :: rest).drop z = 0x80 :: rest := by
          rw [List.drop_left' (by simp [zeros])]
        rw [hdrop]
        simp only [List.head?_cons, if_true, hplen]
        congr 1
        rw [← UInt64.toNat_inj]
        have hnl := n.toNat_lt
        simp; omega

/-! non-vacuity and concrete behaviour (tests, labelled as such) -/
example : sodium_pad [1, 2, 3, 9, 9, 9, 9, 9, 9, 9] 3 4 10 = .ok 4 [1, 2, 3, 0x80, 9, 9, 9, 9, 9, 9] := by decide
example : sodium_pad [1, 2, 3, 4, 9, 9, 9, 9, 9, 9] 4 4 10 = .ok 8 [1, 2, 3, 4, 0x80, 0, 0, 0, 9, 9] := by decide
example : sodium_pad [1, 2, 3, 4, 9, 9, 9] 4 4 7 = .err := by decide
example : sodium_unpad [1, 2, 3, 4, 0x80, 0, 0, 0] 4 = .done 0 4 := by decide
example : sodium_unpad [1, 2, 3, 4, 0x80, 0, 1, 0] 4 = .done (-1) 7 := by decide
example : sodium_unpad [1, 2, 0x80, 0, 0, 0, 0, 0] 4 = .done (-1) 7 := by decide

end Sodium.C16
