import SodiumModel.Model.Runtime
import SodiumModel.Model.Pickers
/-
  C10 — results do not depend on CPU features, selected backend or build configuration.
  Proved here: soundness of the CPUID / XCR0 decoder (a reported feature implies the processor bit
  and, for the AVX family, the OS-enabled state), the feature chain, availability of AES-256-GCM,
  and the meaning of the Bool-valued selection-soundness check that the kernel evaluates over the
  decision lists regenerated from the source on every run (Generated/Obligations.lean).
  Byte-identical outputs across configurations rest on the correspondence runs of C01–C09, C14–C16, C18.
-/
open Sodium Sodium.Model.Runtime Sodium.Model.Pickers
namespace Sodium.C10

/-- every reported feature is backed by its CPUID bit; AVX additionally by XSAVE, OSXSAVE and the
    OS-enabled SSE/AVX state in XCR0; AVX-512F additionally by the opmask / ZMM state -/
theorem decode_sound (r : Regs) (x : Bool) :
    let f := (decode r x).2
    (f.sse2 = true → has r.edx1 CPUID_EDX_SSE2 = true) ∧
    (f.sse3 = true → has r.ecx1 CPUID_ECX_SSE3 = true) ∧
    (f.ssse3 = true → has r.ecx1 CPUID_ECX_SSSE3 = true) ∧
    (f.sse41 = true → has r.ecx1 CPUID_ECX_SSE41 = true) ∧
    (f.pclmul = true → has r.ecx1 CPUID_ECX_PCLMUL = true) ∧
    (f.aesni = true → has r.ecx1 CPUID_ECX_AESNI = true) ∧
    (f.rdrand = true → has r.ecx1 CPUID_ECX_RDRAND = true) ∧
    (f.avx = true → hasAll r.ecx1 (CPUID_ECX_AVX ||| CPUID_ECX_XSAVE ||| CPUID_ECX_OSXSAVE) = true ∧
                    hasAll r.xcr0 (XCR0_SSE ||| XCR0_AVX) = true ∧ x = true) ∧
    (f.avx2 = true → has r.ebx7 CPUID_EBX_AVX2 = true) ∧
    (f.avx512f = true → hasAll r.ebx7 CPUID_EBX_AVX512F = true ∧
                        hasAll r.xcr0 (XCR0_OPMASK ||| XCR0_ZMM_HI256 ||| XCR0_HI16_ZMM) = true) := by
  have z1 : hasAll 0 (XCR0_SSE ||| XCR0_AVX) = false := by decide
  have z2 : hasAll 0 (XCR0_OPMASK ||| XCR0_ZMM_HI256 ||| XCR0_HI16_ZMM) = false := by decide
  unfold decode
  by_cases h0 : r.eax0 = 0
  · simp [h0]
  · simp only [h0, if_false]
    generalize hasAll r.ecx1 (CPUID_ECX_AVX ||| CPUID_ECX_XSAVE ||| CPUID_ECX_OSXSAVE) = A
    cases A <;> cases x <;> simp [z1, z2] <;> intros <;> simp_all

/-- AVX-512F is reported only with AVX2, AVX2 only with AVX -/
theorem decode_chain (r : Regs) (x : Bool) :
    ((decode r x).2.avx512f = true → (decode r x).2.avx2 = true) ∧
    ((decode r x).2.avx2 = true → (decode r x).2.avx = true) := by
  unfold decode
  by_cases h0 : r.eax0 = 0
  · simp [h0]
  · simp only [h0, if_false]
    constructor <;> intro h <;> simp only [Bool.and_eq_true] at h ⊢
    · exact h.1.1
    · exact h.1

/-- without CPUID information nothing is reported and the decoder returns -1 -/
theorem decode_no_cpuid (r : Regs) (x : Bool) (h : r.eax0 = 0) : decode r x = (-1, {}) := by
  simp [decode, h]

/-- the hardware-only AES-256-GCM API is available exactly when PCLMUL, AES-NI and AVX are all reported -/
theorem gcm_available_iff (f : Features) :
    gcmAvailable f = true ↔ (f.pclmul = true ∧ f.aesni = true ∧ f.avx = true) := by
  simp [gcmAvailable, and_assoc]

/-- meaning of the kernel-evaluated check: if `allSound ps` holds then for EVERY architecturally
    closed feature set, every picker selects an implementation all of whose required ISA extensions
    are present -/
theorem allSound_spec (ps : List (String × List Stmt)) (h : allSound ps = true)
    (m : Nat) (hm : m < 1024) (hc : closed m = true) (p : String × List Stmt) (hp : p ∈ ps) :
    ∃ impl req, select p.2 m = some (impl, req) ∧ ∀ i ∈ req, hasF m i = true := by
  unfold allSound at h
  rw [List.all_eq_true] at h
  have h1 := h m (List.mem_range.mpr hm)
  simp only [hc, Bool.not_true, Bool.false_or, List.all_eq_true] at h1
  have h2 := h1 p hp
  unfold soundAt at h2
  split at h2
  · exact absurd h2 (by simp)
  · rename_i impl req heq
    exact ⟨impl, req, heq, fun i hi => (List.all_eq_true.mp h2) i hi⟩

/-- … and with no feature at all it selects code compiled without ISA extensions -/
theorem fallback_spec (ps : List (String × List Stmt)) (h : fallbackPortable ps = true)
    (p : String × List Stmt) (hp : p ∈ ps) : ∃ impl, select p.2 0 = some (impl, []) := by
  unfold fallbackPortable at h
  have h2 := (List.all_eq_true.mp h) p hp
  split at h2
  · rename_i impl heq; exact ⟨impl, heq⟩
  · exact absurd h2 (by simp)

/-! non-vacuity: a Skylake-X-like register file decodes to everything; a picker table with an unsound entry is rejected -/
example : (decode ⟨7, 0x7ffafbff, 0xbfebfbff, 0x00010020, 0xe7⟩ true).2.avx512f = true := by decide
example : (decode ⟨7, 0x7ffafbff, 0xbfebfbff, 0x00010020, 0x07⟩ true).2.avx512f = false := by decide
example : (decode ⟨7, 0x7ffafbff, 0xbfebfbff, 0x00010020, 0xe7⟩ false).2.avx = false := by decide
example : allSound [("toy", [([], "ref", false, []), ([4], "uses_avx2", true, [5])])] = false := by decide +kernel
example : allSound [("toy", [([], "ref", false, []), ([5], "uses_avx2", true, [0, 2, 3, 5])])] = true := by decide +kernel

end Sodium.C10
