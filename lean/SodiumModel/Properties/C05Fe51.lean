import SodiumModel.Properties.C05Ladder
import SodiumModel.Proofs.Fe51
/-
  C05, continued — the radix-2^51 field arithmetic behind X25519 IS GF(2^255 - 19), and the ladder of
  x25519_ref10.c over it returns the RFC 7748 result.

  `Model/Fe51.lean` transcribes `private/ed25519_ref10_fe_51.h`, `fe_51/fe.h` and `fe25519_invert`
  statement by statement: `uint64_t` limbs wrap, every `uint128_t` operation is reduced mod 2^128, every
  cast to `uint64_t` truncates.  Here:

    * the representation: `val f = f0 + f1·2^51 + f2·2^102 + f3·2^153 + f4·2^204`;
      `Tight f` = every limb < 2^52 (what `mul`, `sq`, `mul32`, `invert`, `frombytes` return),
      `Loose f` = every limb < 2^54 (what `add`/`sub` return and what `mul`/`sq`/… accept);
      2^54 is the largest power of two for which `fe25519_mul` is correct (`mul_wrong_beyond_loose`);
    * per operation: `add_spec`, `sub_spec` (no 64-bit underflow thanks to the 2p bias), `mul_spec`
      with `mul_no_overflow` (the 128-bit accumulators are the exact column sums, < 77·2^108), `sq_spec`
      (`sq_eq_mul`: `fe25519_sq f = fe25519_mul f f`), `sq2_spec`, `mul32_spec`, `neg_spec`, `cswap_spec`,
      `cmov_spec`, `frombytes_spec`, `reduce_spec` and `tobytes_spec` (canonical encoding for EVERY input,
      no bound needed), `isnegative_spec`, `iszero_spec`, `invert_spec` (the addition chain computes
      z^(2^255 - 21) = the specification's inverse);
    * `fe51_refines`: the limb arithmetic refines the specification field with tight/loose
      representatives (`RefinesTL`); no SINGLE relation can do (`fe51_no_single_relation`: `fe25519_add`
      never carries, 64 doublings of 1 wrap around), which is why `ladder_any_field` is generalised to
      `ladder_any_field_TL`;
    * `x25519_fe51_eq_rfc7748`, `x25519_fe51_clamp`, `fe51_eq_spec_ladder`: the ladder over the limb
      arithmetic returns `X25519(t, p)` of RFC 7748 for every clamped scalar and every point encoding.

  Helper lemmas: `Proofs/Fe51.lean`.
-/
open Sodium Sodium.Model Sodium.Model.Scalarmult Sodium.Model.LadderRef10 Sodium.Model.Fe51
  Sodium.ScalarmultP Sodium.LadderRef10P Sodium.Fe51P Sodium.Spec
namespace Sodium.C05Fe51

/-! ### the representation (definitions in `Proofs/Fe51.lean`, restated) -/

theorem val_def (f : Fe) : val f =
    f.l0.toNat + f.l1.toNat * 2 ^ 51 + f.l2.toNat * 2 ^ 102 + f.l3.toNat * 2 ^ 153 + f.l4.toNat * 2 ^ 204 := rfl

theorem tight_def (f : Fe) : Tight f ↔ (f.l0.toNat < 2 ^ 52 ∧ f.l1.toNat < 2 ^ 52 ∧ f.l2.toNat < 2 ^ 52 ∧
    f.l3.toNat < 2 ^ 52 ∧ f.l4.toNat < 2 ^ 52) := Iff.rfl

theorem loose_def (f : Fe) : Loose f ↔ (f.l0.toNat < 2 ^ 54 ∧ f.l1.toNat < 2 ^ 54 ∧ f.l2.toNat < 2 ^ 54 ∧
    f.l3.toNat < 2 ^ 54 ∧ f.l4.toNat < 2 ^ 54) := Iff.rfl

theorem tight_loose (f : Fe) (h : Tight f) : Loose f := h.loose

/-- `R` of the task: limb bounds and value; `RT` for tight, `RL` for loose representatives -/
theorem rel_def (f : Fe) (x : Nat) :
    (RT f x ↔ (Tight f ∧ val f % F25519.p = x)) ∧ (RL f x ↔ (Loose f ∧ val f % F25519.p = x)) :=
  ⟨Iff.rfl, Iff.rfl⟩

/-! ### per-operation correctness -/

/-- `fe25519_add`: no 64-bit overflow on tight inputs, the value is the exact sum, the result is loose
    (limbs < 2^53) -/
theorem add_spec (f g : Fe) (hf : Tight f) (hg : Tight g) :
    Loose (fe25519_add f g) ∧ val (fe25519_add f g) = val f + val g ∧
    val (fe25519_add f g) % F25519.p = F25519.add (val f) (val g) := by
  obtain ⟨h1, h2⟩ := Fe51P.add_spec f g hf hg
  exact ⟨h1, h2, by rw [h2, F25519.add]⟩

/-- `fe25519_sub`: `g` is carried, then subtracted limb-wise from `f + 2p`; for tight `f` and loose `g`
    no subtraction underflows, every limb of the result is < 2^53 and the value is `f - g` in the field -/
theorem sub_spec (f g : Fe) (hf : Tight f) (hg : Loose g) :
    Loose (fe25519_sub f g) ∧ val (fe25519_sub f g) % F25519.p = F25519.sub (val f) (val g) := by
  obtain ⟨h1, h2⟩ := Fe51P.sub_spec f g hf hg
  refine ⟨Bounded.mono (by decide) h1, ?_⟩
  rw [h2, F25519.sub, F25519.sub, Nat.mod_mod, Nat.mod_mod]

/-- the bias does not protect against a `g` with a limb ≥ 2^63 … the carry `h1 += h0 >> 51` then wraps -/
theorem sub_wrong_on_huge_g :
    let f : Fe := ⟨0, 0, 0, 0, 0⟩
    let g : Fe := ⟨0xffffffffffffffff, 0xffffffffffffffff, 0xffffffffffffffff, 0xffffffffffffffff, 0xffffffffffffffff⟩
    val (fe25519_sub f g) % F25519.p ≠ F25519.sub (val f) (val g) := by
  decide +kernel

/-- **`fe25519_mul`, no overflow**: on loose inputs the five `uint128_t` accumulators hold the exact
    column sums f0·g0 + 19·(f1·g4 + …) … (no reduction mod 2^128 happens: each is < 77·2^108 < 2^115),
    and the function is the carry chain applied to them. -/
theorem mul_no_overflow (f g : Fe) (hf : Loose f) (hg : Loose g) :
    fe25519_mul f g = carry_chain (mulCols f g).1 (mulCols f g).2.1 (mulCols f g).2.2.1
      (mulCols f g).2.2.2.1 (mulCols f g).2.2.2.2 ∧
    (mulCols f g).1 < 77 * 2 ^ 108 ∧ (mulCols f g).2.1 < 77 * 2 ^ 108 ∧ (mulCols f g).2.2.1 < 77 * 2 ^ 108 ∧
    (mulCols f g).2.2.2.1 < 77 * 2 ^ 108 ∧ (mulCols f g).2.2.2.2 < 5 * 2 ^ 108 :=
  mul_eq_cols f g hf hg

/-- the carry chain of `fe25519_mul` / `fe25519_sq` / `fe25519_sq2` on accumulators in that range:
    no carry is truncated by its `(uint64_t)` cast, `r00 += 19ULL * carry` does not wrap, and the
    weighted sum changes by a multiple of p; limbs 0, 1, 3, 4 end below 2^51 and limb 2 is ≤ 2^51 -/
theorem carry_chain_spec (r0 r1 r2 r3 r4 : Nat)
    (h0 : r0 < 77 * 2 ^ 108) (h1 : r1 < 77 * 2 ^ 108) (h2 : r2 < 77 * 2 ^ 108) (h3 : r3 < 77 * 2 ^ 108)
    (h4 : r4 < 5 * 2 ^ 108) :
    let h := carry_chain r0 r1 r2 r3 r4
    h.l0.toNat < 2 ^ 51 ∧ h.l1.toNat < 2 ^ 51 ∧ h.l2.toNat ≤ 2 ^ 51 ∧ h.l3.toNat < 2 ^ 51 ∧ h.l4.toNat < 2 ^ 51 ∧
    ∃ c, val h + c * (2 ^ 255 - 19) = r0 + r1 * 2 ^ 51 + r2 * 2 ^ 102 + r3 * 2 ^ 153 + r4 * 2 ^ 204 :=
  Fe51P.carry_chain_spec r0 r1 r2 r3 r4 h0 h1 h2 h3 h4

/-- **`fe25519_mul`**: on loose inputs the result is tight and represents the product -/
theorem mul_spec (f g : Fe) (hf : Loose f) (hg : Loose g) :
    Tight (fe25519_mul f g) ∧ val (fe25519_mul f g) % F25519.p = F25519.mul (val f) (val g) :=
  Fe51P.mul_spec f g hf hg

/-- the bound is sharp among powers of two: with every limb 2^55 - 1, `r00 += 19ULL * carry` wraps and
    the result is wrong (for `fe25519_sq` too) -/
theorem mul_wrong_beyond_loose :
    let f : Fe := ⟨0x7fffffffffffff, 0x7fffffffffffff, 0x7fffffffffffff, 0x7fffffffffffff, 0x7fffffffffffff⟩
    val (fe25519_mul f f) % F25519.p ≠ F25519.mul (val f) (val f) ∧
    val (fe25519_sq f) % F25519.p ≠ F25519.mul (val f) (val f) := by
  decide +kernel

/-- on loose inputs `fe25519_sq(h, f)` is literally `fe25519_mul(h, f, f)` -/
theorem sq_eq_mul (f : Fe) (hf : Loose f) : fe25519_sq f = fe25519_mul f f := Fe51P.sq_eq_mul f hf

/-- **`fe25519_sq`** -/
theorem sq_spec (f : Fe) (hf : Loose f) :
    Tight (fe25519_sq f) ∧ val (fe25519_sq f) % F25519.p = F25519.sqr (val f) :=
  Fe51P.sq_spec f hf

/-- `fe25519_sq2` (not used by X25519) needs one bit more of headroom: limbs < 2^53 -/
theorem sq2_spec (f : Fe) (hf : Bounded (2 ^ 53) f) :
    Tight (fe25519_sq2 f) ∧ val (fe25519_sq2 f) % F25519.p = F25519.mul 2 (F25519.sqr (val f)) := by
  obtain ⟨h1, h2⟩ := Fe51P.sq2_spec f hf
  refine ⟨h1, ?_⟩
  rw [h2, F25519.mul, F25519.sqr, Nat.mul_mod_mod]

/-- … and is wrong on a merely loose input (every limb 2^54 - 1) -/
theorem sq2_wrong_on_loose :
    let f : Fe := ⟨0x3fffffffffffff, 0x3fffffffffffff, 0x3fffffffffffff, 0x3fffffffffffff, 0x3fffffffffffff⟩
    Loose f ∧ val (fe25519_sq2 f) % F25519.p ≠ F25519.mul 2 (F25519.sqr (val f)) := by
  refine ⟨by unfold Loose Bounded; decide, ?_⟩
  decide +kernel

/-- **`fe25519_mul32`**, every `uint32_t n` -/
theorem mul32_spec (f : Fe) (n : UInt32) (hf : Loose f) :
    Tight (fe25519_mul32 f n) ∧ val (fe25519_mul32 f n) % F25519.p = F25519.mul (val f) n.toNat :=
  Fe51P.mul32_spec f n hf

/-- `fe25519_neg` -/
theorem neg_spec (f : Fe) (hf : Loose f) :
    Loose (fe25519_neg f) ∧ val (fe25519_neg f) % F25519.p = F25519.neg (val f) := by
  obtain ⟨h1, h2⟩ := Fe51P.neg_spec f hf
  exact ⟨Bounded.mono (by decide) h1, h2⟩

/-- **`fe25519_cswap`** within its contract `b ∈ {0, 1}` -/
theorem cswap_spec (f g : Fe) : fe25519_cswap f g 0 = (f, g) ∧ fe25519_cswap f g 1 = (g, f) :=
  ⟨cswap0 f g, cswap1 f g⟩

/-- outside the contract the mask `-(int64_t) b` is not all-ones: `b = 2` leaves bit 0 unswapped -/
theorem cswap_out_of_contract : fe25519_cswap fe25519_1 fe25519_0 2 = (fe25519_1, fe25519_0) := by decide

/-- `fe25519_cmov`, both branches of the `#ifdef`, within the contract; they differ outside it -/
theorem cmov_spec (f g : Fe) :
    fe25519_cmov f g 0 = f ∧ fe25519_cmov f g 1 = g ∧
    fe25519_cmov_asm f g 0 = f ∧ fe25519_cmov_asm f g 1 = g :=
  ⟨cmov0 f g, cmov1 f g, rfl, rfl⟩

theorem cmov_variants_differ_out_of_contract :
    fe25519_cmov fe25519_1 fe25519_0 2 ≠ fe25519_cmov_asm fe25519_1 fe25519_0 2 := by decide

/-- **`fe25519_frombytes`** = the specification's `decodeUCoordinate`: bit 255 is masked, the limbs are
    the five 51-bit fields (every limb < 2^51), for every byte string (bytes beyond the end read as 0) -/
theorem frombytes_spec (s : Bytes) :
    Bounded (2 ^ 51) (fe25519_frombytes s) ∧ val (fe25519_frombytes s) = le (s.take 32) % 2 ^ 255 ∧
    val (fe25519_frombytes s) % F25519.p = X25519.decodeU s := by
  obtain ⟨h1, h2⟩ := frombytes_val s
  exact ⟨h2, h1, by rw [h1, X25519.decodeU]⟩

/-- **`fe25519_reduce`** (the two carry passes, `+19`, the third pass, `+ 2^255 - 19`, the final pass)
    returns the canonical representative, fully carried — for EVERY input, no bound needed -/
theorem reduce_spec (f : Fe) :
    Bounded (2 ^ 51) (fe25519_reduce f) ∧ val (fe25519_reduce f) = val f % F25519.p :=
  Fe51P.reduce_spec f

/-- **`fe25519_tobytes`**: the canonical 32-byte little-endian encoding of `val f mod p`, for EVERY
    input (in particular for every loose one) -/
theorem tobytes_spec (f : Fe) : fe25519_tobytes f = F25519.toBytes (val f) := by
  rw [tobytes_spec_all, F25519.toBytes]

/-- `fe25519_isnegative`, `fe25519_iszero` (every input) -/
theorem isnegative_spec (f : Fe) :
    fe25519_isnegative f = if F25519.isNegative (val f) then 1 else 0 := Fe51P.isnegative_spec f

theorem iszero_spec (f : Fe) :
    fe25519_iszero f = if F25519.isZero (val f) then 1 else 0 := Fe51P.iszero_spec f

/-- **`fe25519_invert`**: the addition chain (254 squarings, 11 multiplications) computes
    z^(2^255 - 21) = z^(p - 2), which is the specification's inverse (0 ↦ 0) -/
theorem invert_spec (z : Fe) (hz : Loose z) :
    Tight (fe25519_invert z) ∧
    val (fe25519_invert z) % F25519.p = val z ^ (2 ^ 255 - 21) % F25519.p ∧
    val (fe25519_invert z) % F25519.p = F25519.inv (val z) := by
  obtain ⟨h1, h2⟩ := invert_pow z hz
  refine ⟨h2, h1.2, ?_⟩
  rw [h1.2, inv_eq]

/-- the specification's `inv` is the natural-number power -/
theorem spec_inv_eq_pow (a : Nat) : F25519.inv a = a ^ (F25519.p - 2) % F25519.p := inv_eq a

/-! ### refinement and the ladder -/

/-- **The limb arithmetic refines the specification field** with tight/loose representatives. -/
theorem fe51_refines : RefinesTL fe51Field RT RL := fe51_refinesTL

/-- … and NOT with a single relation, whatever it is: the hypothesis `Refines ops R` of
    `C05Ladder.ladder_any_field` is unsatisfiable for the real field code -/
theorem fe51_no_single_relation : ¬ ∃ R : Fe → Nat → Prop, Refines fe51Field R :=
  Fe51P.fe51_no_single_relation

/-- every single-relation refinement is a two-level one (so `ladder_any_field_TL` generalises
    `C05Ladder.ladder_any_field`) -/
theorem refines_is_TL {F : Type} (ops : FieldOps F) (R : F → Nat → Prop) (h : Refines ops R) :
    RefinesTL ops R R := Refines.toTL h

/-- the ladder over ANY `fe25519_*` implementation that refines the specification field with
    tight/loose representatives returns the RFC 7748 result on clamped scalars -/
theorem ladder_any_field_TL {F : Type} (ops : FieldOps F) (T L : F → Nat → Prop) (h : RefinesTL ops T L)
    (n p : Bytes) (hn : 32 ≤ n.length) : ladder ops (clamp n) p = X25519.x25519 n p := by
  rw [ladder_refinesTL ops T L h]; exact (C05Ladder.ref10_ladder_clamp n p hn).1

/-- the limb-level ladder and the specification-field ladder return the same bytes on every input -/
theorem x25519_fe51_eq_ref10 (t p : Bytes) : x25519_fe51 t p = x25519_ref10 t p :=
  ladder_refinesTL fe51Field RT RL fe51_refinesTL t p

/-- **The X25519 ladder over the 51-bit-limb arithmetic returns the RFC 7748 result** on every
    already clamped 32-byte scalar copy `t` and every point encoding `p`. -/
theorem x25519_fe51_eq_rfc7748 (t p : Bytes) (hl : t.length = 32) (hc : clamp t = t) :
    x25519_fe51 t p = X25519.x25519 t p := by
  rw [x25519_fe51_eq_ref10]; exact C05Ladder.ref10_ladder_eq_rfc7748 t p hl hc

/-- composed with the C clamping: for every scalar `n` of at least 32 bytes and every `p` -/
theorem x25519_fe51_clamp (n p : Bytes) (hn : 32 ≤ n.length) :
    x25519_fe51 (clamp n) p = X25519.x25519 n p ∧
    x25519_fe51 (clamp n) p = X25519.x25519 (clamp n) p := by
  rw [x25519_fe51_eq_ref10]; exact C05Ladder.ref10_ladder_clamp n p hn

/-- general form (every `t`, clamped or not, any lengths): the RFC 7748 ladder on the low 255 bits -/
theorem x25519_fe51_general (t p : Bytes) :
    x25519_fe51 t p = X25519.encodeU (X25519.ladder (le t % 2 ^ 255) (X25519.decodeU p)) := by
  rw [x25519_fe51_eq_ref10]; exact (C05Ladder.ref10_ladder_general t p).2

/-- **`crypto_scalarmult_curve25519` over ref10 with the limb-level ladder returns the
    specification's result on every input** (same statement as `C05Ladder.ref10_eq_spec_ladder`) -/
theorem fe51_eq_spec_ladder (n p : Bytes) (hn : 32 ≤ n.length) (hp : p.length = 32) :
    crypto_scalarmult_curve25519 (mult_ref10 x25519_fe51) n p =
      match X25519.scalarmult n p with
      | none => (-1, if clearTop p ∈ blocklist then none else some (zeros 32))
      | some q => (0, some q) := by
  have h : mult_ref10 x25519_fe51 n p = mult_ref10 x25519_ref10 n p := by
    simp only [mult_ref10, x25519_fe51_eq_ref10]
  have e : crypto_scalarmult_curve25519 (mult_ref10 x25519_fe51) n p =
      crypto_scalarmult_curve25519 (mult_ref10 x25519_ref10) n p := by
    simp only [crypto_scalarmult_curve25519, h]
  rw [e, C05Ladder.ref10_eq_spec_ladder n p hn hp]
  cases X25519.scalarmult n p <;> rfl

/-! ### non-vacuity -/

/-- the hypotheses are satisfiable: 1 is tight, a clamped scalar exists -/
example : Tight fe25519_1 ∧ Loose (fe25519_add fe25519_1 fe25519_1) :=
  ⟨one_tight, (Fe51P.add_spec _ _ one_tight one_tight).1⟩

set_option maxRecDepth 100000 in
/-- kernel evaluation of the limb code itself: decode the u-coordinate of RFC 7748 §5.2 vector 1,
    invert it with the addition chain, multiply back, encode: 1 -/
example :
    let z := fe25519_frombytes (toLE 32 0x4c1cabd0a603a9103b35b326ec2466727c5fb124a4c19435db3030586768dbe6)
    fe25519_tobytes (fe25519_mul z (fe25519_invert z)) = toLE 32 1 := by
  decide +kernel

end Sodium.C05Fe51
