import SodiumModel.Model.Aead
import SodiumModel.Proofs.Aead
/-
  C02 — forged or altered ciphertexts are rejected and release no plaintext.
  Proved: the decision logic (exact tag comparison, short inputs, what is written on failure,
  injectivity of the MAC-data encodings). "Any other change is rejected" is, beyond this, Poly1305
  unforgeability: stated as `_partial` theorems with the explicit hypothesis that the MAC differs.
-/
open Sodium Sodium.Model Sodium.Model.Aead
namespace Sodium.C02

structure PrimsOk (P : Prims) : Prop where
  ks_len : ∀ k n ic len, (P.ks k n ic len).length = len
  mac_len : ∀ k d, (P.mac k d).length = 16

/-- success of detached decryption ⇔ the supplied tag is exactly the Poly1305 value of the encoding -/
theorem decrypt_ok_iff_tag (P : Prims) (hP : PrimsOk P) (f : Flavor) (w : Bool) (c mac ad n k : Bytes) (hm : mac.length = 16) :
    (decryptDetached P f w c mac ad n k).rc = 0 ↔ mac = P.mac ((P.ks k n 0 64).take 32) (macData f ad c) := by
  rw [decryptDetached_rc P hP.mac_len f w c mac ad n k hm]
  split <;> simp [*]

/-- any change of the tag (any non-zero XOR mask) is rejected -/
theorem tag_change_rejected (P : Prims) (hP : PrimsOk P) (f : Flavor) (w : Bool) (m ad n k mac' : Bytes)
    (hl : mac'.length = 16) (hne : mac' ≠ (encryptDetached P f m ad n k).2) :
    (decryptDetached P f w (encryptDetached P f m ad n k).1 mac' ad n k).rc = -1 := by
  rw [decryptDetached_rc P hP.mac_len f w _ mac' ad n k hl]
  exact if_neg hne

/-- inputs shorter than the tag are always rejected, touching nothing -/
theorem short_rejected (P : Prims) (f : Flavor) (w : Bool) (cm ad n k : Bytes) (h : cm.length < 16) :
    decrypt P f w cm ad n k = ⟨-1, 0, none⟩ ∧ xDecrypt P w cm ad n k = ⟨-1, 0, none⟩ ∧
    secretboxOpenEasy P w cm n k = ⟨-1, 0, none⟩ := by
  simp [decrypt, xDecrypt, secretboxOpenEasy, h]

/-- on failure: reported length 0 and the output buffer is untouched or filled with zeros of the
    ciphertext length — a filler independent of key and data — never plaintext -/
theorem failure_output (P : Prims) (f : Flavor) (w : Bool) (c mac ad n k : Bytes)
    (h : (decryptDetached P f w c mac ad n k).rc ≠ 0) :
    (decryptDetached P f w c mac ad n k).mlen = 0 ∧
    ((decryptDetached P f w c mac ad n k).mbuf = none ∨ (decryptDetached P f w c mac ad n k).mbuf = some (zeros c.length)) :=
  decryptDetached_failure P f w c mac ad n k h

/-- secretbox verifies before decrypting: on failure nothing is written at all -/
theorem secretbox_failure_output (P : Prims) (w : Bool) (c mac n k : Bytes)
    (h : (secretboxOpenDetached P w c mac n k).rc ≠ 0) :
    secretboxOpenDetached P w c mac n k = ⟨-1, 0, none⟩ :=
  secretboxOpenDetached_failure P w c mac n k h

/-- the return code is 0 or -1, and verify-only mode (m = NULL) never writes -/
theorem rc_values (P : Prims) (hP : PrimsOk P) (f : Flavor) (w : Bool) (c mac ad n k : Bytes) (hm : mac.length = 16) :
    ((decryptDetached P f w c mac ad n k).rc = 0 ∨ (decryptDetached P f w c mac ad n k).rc = -1) ∧
    (w = false → (decryptDetached P f w c mac ad n k).mbuf = none) := by
  refine ⟨?_, fun hw => by rw [hw]; exact decryptDetached_verify_only P f c mac ad n k⟩
  rw [decryptDetached_rc P hP.mac_len f w c mac ad n k hm]
  split
  · exact Or.inl rfl
  · exact Or.inr rfl

/-- the MAC-data encodings are injective in (ad, c): an accepted modification of associated data or
    ciphertext is a genuine Poly1305 forgery, never an encoding ambiguity -/
theorem macData_injective (f : Flavor) (ad ad' c c' : Bytes)
    (hl : ad.length < 2 ^ 64 ∧ ad'.length < 2 ^ 64 ∧ c.length < 2 ^ 64 ∧ c'.length < 2 ^ 64)
    (h : macData f ad c = macData f ad' c') : ad = ad' ∧ c = c' := by
  cases f
  · exact macData_orig_inj ad ad' c c' hl.2.2.1 hl.2.2.2 h
  · exact macData_ietf_inj ad ad' c c' hl.1 hl.2.1 hl.2.2.1 hl.2.2.2 h

/-- PARTIAL (cryptographic remainder): a modified ciphertext / ad / nonce / key is rejected provided
    the Poly1305 value of the modified input differs from the supplied tag -/
theorem modification_rejected_partial (P : Prims) (hP : PrimsOk P) (f : Flavor) (w : Bool) (c mac ad n k : Bytes)
    (hm : mac.length = 16) (hdiff : P.mac ((P.ks k n 0 64).take 32) (macData f ad c) ≠ mac) :
    (decryptDetached P f w c mac ad n k).rc = -1 := by
  rw [decryptDetached_rc P hP.mac_len f w c mac ad n k hm]
  exact if_neg (fun e => hdiff e.symm)

/-! non-vacuity: a concrete `Prims` meeting `PrimsOk`, and evaluated instances -/

theorem toyPrims_ok : PrimsOk toyPrims := ⟨toyPrims_ks_len, toyPrims_mac_len⟩

/-- the genuine tag is accepted … -/
example : decryptDetached toyPrims .ietf true [199, 207, 215]
    [224, 92, 165, 105, 111, 48, 34, 200, 5, 243, 201, 178, 139, 244, 149, 220] [9] [0,1] [5] = ⟨0, 3, some [1,2,3]⟩ := by decide
/-- … one flipped tag bit is rejected and the output buffer is zero-filled … -/
example : decryptDetached toyPrims .ietf true [199, 207, 215]
    [225, 92, 165, 105, 111, 48, 34, 200, 5, 243, 201, 178, 139, 244, 149, 220] [9] [0,1] [5] = ⟨-1, 0, some [0,0,0]⟩ := by decide
/-- … a modified ciphertext or associated data is rejected (hypothesis of `modification_rejected_partial` holds here) -/
example : (decryptDetached toyPrims .ietf false [199, 207, 214]
    [224, 92, 165, 105, 111, 48, 34, 200, 5, 243, 201, 178, 139, 244, 149, 220] [9] [0,1] [5]).rc = -1 ∧
    (decryptDetached toyPrims .orig true [199, 207, 215]
    [168, 68, 247, 246, 167, 245, 68, 103, 163, 234, 68, 254, 28, 250, 144, 153] [8] [0,1] [5]) = ⟨-1, 0, some [0,0,0]⟩ := by decide
example : secretboxOpenDetached toyPrims true [23, 31, 39]
    [152, 173, 108, 75, 82, 89, 96, 103, 110, 117, 124, 131, 138, 145, 152, 159]
    [0,1,2,3,4,5,6,7,8,9,10,11,12,13,14,15,16,17,18,19,20,21,22,23] [5,6] = ⟨-1, 0, none⟩ := by decide

end Sodium.C02
