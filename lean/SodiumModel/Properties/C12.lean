import SodiumModel.Model.Limits
import SodiumModel.Proofs.Limits
import SodiumModel.Properties.C03
import SodiumModel.Properties.C04
import SodiumModel.Properties.C15
import SodiumModel.Properties.C16
/-
  C12 — memory safety.  What is proved here, about the hand-written models of the C code:

  (a) the index invariants of the streaming buffers: after ANY sequence of update calls the number of
      pending bytes is inside the fixed-size array the C code writes them to (SHA-2 `buf[r..]`, the
      BLAKE2b two-block buffer, the Poly1305 leftover buffer, the HMAC inner context);
  (b) the capacity / in-bounds / exact-size theorems of the codecs, padding, stream and KDF models,
      collected under C12 names;
  (c) the size-limit table `Limits.limits` refuses exactly the arguments outside each documented range,
      with the documented observable, and its entries are the guards of the models.
  The executed part of C12 (sweeps under ASan / guard pages, limit probes) is tools/props/c12.py.
-/
open Sodium Sodium.Model Sodium.Model.Limits
namespace Sodium.C12

/-! ### (a) streaming buffers -/

/-- SHA-2 front-end: for every sequence of update chunks the pending byte count stays below the
    block size `W`, so the copy `memcpy(&state->buf[r], in, …)` and the padding stay inside `buf[W]`.
    (`2^cbits = 8·W·q`: the bit counter wraps at a multiple of the block size — 2^64 and 2^128 do.) -/
theorem md_buf_in_bounds {σ : Type} (C : σ → Bytes → σ) (W cbits q : Nat) (hW : 0 < W) (hd : 2 ^ cbits = 8 * (W * q))
    (iv : σ) (chunks : List Bytes) :
    (chunks.foldl (mdUpdate C W cbits) (mdInit iv)).buf.length < W :=
  (LimitsP.md_buf_lt C W cbits q hW hd iv chunks).1

/-- the write index `r = (count >> 3) % W` the C code derives from the (wrapping) bit counter is
    exactly the number of pending bytes -/
theorem md_write_index {σ : Type} (C : σ → Bytes → σ) (W cbits q : Nat) (hW : 0 < W) (hd : 2 ^ cbits = 8 * (W * q))
    (iv : σ) (chunks : List Bytes) :
    ((chunks.foldl (mdUpdate C W cbits) (mdInit iv)).count / 8) % W
      = (chunks.foldl (mdUpdate C W cbits) (mdInit iv)).buf.length :=
  (LimitsP.md_buf_lt C W cbits q hW hd iv chunks).2

theorem sha256_buf_in_bounds (chunks : List Bytes) :
    (chunks.foldl (mdUpdate Spec.Sha256.compress 64 64) (mdInit Spec.Sha256.iv)).buf.length < 64 :=
  md_buf_in_bounds Spec.Sha256.compress 64 64 (2 ^ 55) (by decide) (by decide) _ chunks

theorem sha512_buf_in_bounds (chunks : List Bytes) :
    (chunks.foldl (mdUpdate Spec.Sha512.compress 128 128) (mdInit Spec.Sha512.iv)).buf.length < 128 :=
  md_buf_in_bounds Spec.Sha512.compress 128 128 (2 ^ 118) (by decide) (by decide) _ chunks

/-- BLAKE2b: `buflen ≤ 2·BLAKE2B_BLOCKBYTES` after any sequence of updates from any init (key ≤ one block) -/
theorem b2_buf_in_bounds {σ : Type} (F : σ → Bytes → Nat → Bool → σ) (paramInit : Nat → Nat → Bytes → Bytes → σ)
    (outlen : Nat) (key salt personal : Bytes) (hk : key.length ≤ 128) (chunks : List Bytes) :
    (chunks.foldl (fun s c => b2Update F (c.length + 1) s c) (b2Init F paramInit outlen key salt personal)).buf.length ≤ 256 :=
  LimitsP.b2_buf_le F paramInit outlen key salt personal hk chunks

theorem blake2b_buf_in_bounds (outlen : Nat) (key salt personal : Bytes) (hk : key.length ≤ 64) (chunks : List Bytes) :
    (chunks.foldl (fun s c => b2Update Spec.Blake2b.compress (c.length + 1) s c)
      (b2Init Spec.Blake2b.compress Spec.Blake2b.paramInit outlen key salt personal)).buf.length ≤ 256 :=
  b2_buf_in_bounds _ _ outlen key salt personal (by omega) chunks

/-- Poly1305: `leftover < 16` after any sequence of updates -/
theorem poly_buf_in_bounds {σ : Type} (blk : σ → Bytes → Bool → σ) (st0 : σ) (chunks : List Bytes) :
    (chunks.foldl (polyUpdate blk) ⟨st0, []⟩).buffer.length < 16 :=
  LimitsP.poly_buf_lt blk st0 chunks

theorem poly1305_buf_in_bounds (key : Bytes) (chunks : List Bytes) :
    (chunks.foldl (polyUpdate polyBlkNat) (polyInitNat key)).buffer.length < 16 :=
  poly_buf_in_bounds polyBlkNat _ chunks

/-- HMAC-SHA-256 / -512 (any key length): the inner context's buffer stays inside its block -/
theorem hmac_buf_in_bounds (key : Bytes) (chunks : List Bytes) :
    (chunks.foldl (hmacUpdate C04.H256) (hmacInit C04.H256 key)).ictx.buf.length < 64 ∧
    (chunks.foldl (hmacUpdate C04.H512) (hmacInit C04.H512 key)).ictx.buf.length < 128 := by
  constructor
  · rw [hmacFold]
    exact sha256_buf_in_bounds
      (xorPad 0x36 64 (if key.length > 64 then C04.H256.final (C04.H256.update C04.H256.init key) else key) :: chunks)
  · rw [hmacFold]
    exact sha512_buf_in_bounds
      (xorPad 0x36 128 (if key.length > 128 then C04.H512.final (C04.H512.update C04.H512.init key) else key) :: chunks)

/-! ### (b) capacity and in-bounds theorems of the other models, under C12 names -/

/-- every index the padding loop touches is inside the capacity -/
theorem c12_pad_in_bounds (n bs cap : UInt64) (hbs : bs ≠ 0) (hok : n.toNat + (padXpadlen n bs).toNat < cap.toNat) :
    ∀ idx ∈ padIndices n bs, idx < cap.toNat :=
  C16.pad_in_bounds n bs cap hbs hok

/-- `sodium_unpad` depends on the final block only -/
theorem c12_unpad_reads_final_block (b1 b2 : Bytes) (bs : UInt64) (hl : b1.length = b2.length)
    (hagree : b1.drop (b1.length - bs.toNat) = b2.drop (b2.length - bs.toNat)) :
    sodium_unpad b1 bs = sodium_unpad b2 bs :=
  C16.unpad_reads_final_block b1 b2 bs hl hagree

/-- `sodium_hex2bin` never writes more than `bin_maxlen` bytes, whatever the text -/
theorem c12_hex_capacity (cap : Nat) (hex : Bytes) (ign : Option Bytes) (wantEnd : Bool) :
    (sodium_hex2bin cap hex ign wantEnd).written.length ≤ cap :=
  C15.hex_capacity cap hex ign wantEnd

/-- `sodium_base642bin` never writes more than `bin_maxlen` bytes, whatever the text -/
theorem c12_b64_capacity (cap : Nat) (b64 : Bytes) (ign : Option Bytes) (wantEnd : Bool) (v : UInt32) (r : DecResult)
    (h : sodium_base642bin cap b64 ign wantEnd v = .res r) : r.written.length ≤ cap :=
  C15.b64_capacity cap b64 ign wantEnd v r h

/-- `sodium_bin2hex` either calls the misuse handler or writes exactly `2·len + 1` bytes (≤ `hex_maxlen`) -/
theorem c12_bin2hex_exact_size (hexMaxlen : UInt64) (bin : Bytes) (hlen : bin.length < 2 ^ 63 - 1) :
    sodium_bin2hex hexMaxlen bin = .misuse ∨
      ∃ out, sodium_bin2hex hexMaxlen bin = .ok out ∧ out.length = 2 * bin.length + 1 ∧ out.length ≤ hexMaxlen.toNat := by
  rw [C15.bin2hex_eq_spec hexMaxlen bin hlen]
  by_cases h : hexMaxlen.toNat ≤ 2 * bin.length
  · left; rw [if_pos h]
  · right
    rw [if_neg h]
    refine ⟨_, rfl, ?_, ?_⟩
    · rw [List.length_append, hexEncode_length]; rfl
    · rw [List.length_append, hexEncode_length]; simp; omega

/-- `sodium_bin2base64` either calls the misuse handler or writes exactly `b64_maxlen` bytes -/
theorem c12_b64_encode_exact_size (maxlen : Nat) (bin : Bytes) (v : UInt32) :
    sodium_bin2base64 maxlen bin v = .misuse ∨ ∃ out, sodium_bin2base64 maxlen bin v = .ok out ∧ out.length = maxlen := by
  rw [C15.b64_encode_eq_rfc]
  by_cases h1 : (!variantOk v) = true
  · left; rw [if_pos h1]
  · rw [if_neg h1]
    by_cases h2 : maxlen ≤ Spec.Base64.encodedLen (C15.padOf v) bin.length
    · left; rw [if_pos h2]
    · right
      rw [if_neg h2]
      refine ⟨_, rfl, ?_⟩
      rw [List.length_append, C15.encode_length]
      simp [zeros]; omega

/-- the IETF ChaCha20 guard fires exactly when the 32-bit block counter would pass 2^32 -/
theorem c12_ietf_guard (ic : UInt32) (mlen : UInt64) :
    ietfGuardFails ic mlen = true ↔ 2 ^ 32 < ic.toNat + (mlen.toNat + 63) / 64 :=
  C03.ietf_guard_iff ic mlen

theorem c12_ietf_no_wrap (Bi : BlockFn) (hB : ∀ a b, (Bi a b).length = 64) (n0 ic : UInt32) (m : Bytes) (hlen : m.length < 2 ^ 64) :
    chacha_ietf_xor_ic Bi n0 ic m =
      if 2 ^ 32 < ic.toNat + (m.length + 63) / 64 then .misuse
      else .ok (xorBytes m (Spec.Chacha.streamFrom (fun i => Bi (UInt32.ofNat i) n0) (64 * ic.toNat) m.length)) :=
  C03.ietf_no_wrap Bi hB n0 ic m hlen

/-- the stream ciphers write exactly `mlen` bytes -/
theorem c12_stream_output_length (B : BlockFn) (hB : ∀ a b, (B a b).length = 64) (S : SalsaBlockFn) (hS : ∀ c, (S c).length = 64)
    (ic : UInt64) (m : Bytes) :
    (chacha_xor_ic B ic m).length = m.length ∧ (salsa_xor_ic S ic m).length = m.length :=
  ⟨C03.chacha_xor_ic_length B hB ic m, C03.salsa_xor_ic_length S hS ic m⟩

/-- BLAKE2b front-end: an output length outside 1..64 or a key longer than 64 bytes is refused before anything is hashed -/
theorem c12_generichash_range (outlen : Nat) (msg key salt personal : Bytes) (h : outlen = 0 ∨ outlen > 64 ∨ key.length > 64) :
    generichash Spec.Blake2b.compress Spec.Blake2b.paramInit Spec.Blake2b.digest outlen msg key salt personal = .err := by
  rw [C04.generichash_spec, if_pos h]

theorem c12_kdf_range (n : Nat) (id : UInt64) (ctx key : Bytes) (hc : ctx.length = 8) (hk : key.length = 32) (h : n < 16 ∨ n > 64) :
    kdfBlake2b Spec.Blake2b.compress Spec.Blake2b.paramInit Spec.Blake2b.digest n id ctx key = .err := by
  rw [C04.kdf_blake2b_spec n id ctx key hc hk, if_pos h]

theorem c12_hkdf_range (L : Nat) (ctx prk : Bytes) :
    (L > 255 * 32 → hkdfExpand C04.H256 L ctx prk = .err) ∧ (L > 255 * 64 → hkdfExpand C04.H512 L ctx prk = .err) := by
  constructor
  · intro h; rw [C04.hkdf_sha256_expand, if_pos h]
  · intro h; rw [C04.hkdf_sha512_expand, if_pos h]

/-! ### (c) the size-limit table -/

theorem limits_keys_nodup : (limits.map (·.1)).Nodup := by decide +kernel

/-- every entry of the table: below `lo` → its `below` observable, inside → admissible, above `hi` → its `above` observable -/
theorem refusal_table_sound : ∀ e ∈ limits, ∀ n : Nat,
    (n < e.2.lo → refusal e.1 n = some e.2.below) ∧
    (e.2.lo ≤ n → n ≤ e.2.hi → refusal e.1 n = none) ∧
    (e.2.lo ≤ n → e.2.hi < n → refusal e.1 n = some e.2.above) := by
  intro e he n
  have h := LimitsP.lookup_of_mem limits limits_keys_nodup e he
  exact ⟨LimitsP.refuses_below e.1 e.2 h n, LimitsP.accepts e.1 e.2 h n, LimitsP.refuses_above e.1 e.2 h n⟩

/-- the driver answers every representable argument of every listed API -/
theorem observable_total : ∀ e ∈ limits, ∀ n : Nat, n ≤ e.2.argMax → (observable e.1 n).isSome = true := by
  intro e he n hn
  have h := LimitsP.lookup_of_mem limits limits_keys_nodup e he
  unfold observable
  rw [h]
  simp only [if_neg (Nat.not_lt.mpr hn)]
  rfl

/-! message-length maxima refused through the misuse handler -/

theorem secretbox_easy_refuses (n : Nat) (h : n > crypto_secretbox_MESSAGEBYTES_MAX) :
    refusal "crypto_secretbox_easy" n = some "misuse" ∧ refusal "crypto_secretbox_xchacha20poly1305_easy" n = some "misuse" :=
  ⟨LimitsP.refuses_above _ (msgMax crypto_secretbox_MESSAGEBYTES_MAX) (by rfl) n (Nat.zero_le _) h,
   LimitsP.refuses_above _ (msgMax crypto_secretbox_xchacha20poly1305_MESSAGEBYTES_MAX) (by rfl) n (Nat.zero_le _) h⟩
theorem secretbox_easy_accepts (n : Nat) (h : n ≤ crypto_secretbox_MESSAGEBYTES_MAX) :
    refusal "crypto_secretbox_easy" n = none ∧ refusal "crypto_secretbox_xchacha20poly1305_easy" n = none :=
  ⟨LimitsP.accepts _ (msgMax crypto_secretbox_MESSAGEBYTES_MAX) (by rfl) n (Nat.zero_le _) h,
   LimitsP.accepts _ (msgMax crypto_secretbox_xchacha20poly1305_MESSAGEBYTES_MAX) (by rfl) n (Nat.zero_le _) h⟩

theorem box_easy_refuses (n : Nat) (h : n > crypto_box_MESSAGEBYTES_MAX) :
    refusal "crypto_box_easy" n = some "misuse" ∧ refusal "crypto_box_easy_afternm" n = some "misuse" ∧ refusal "crypto_box_seal" n = some "misuse" ∧
    refusal "crypto_box_curve25519xchacha20poly1305_easy" n = some "misuse" ∧ refusal "crypto_box_curve25519xchacha20poly1305_easy_afternm" n = some "misuse" :=
  ⟨LimitsP.refuses_above _ (msgMax crypto_box_MESSAGEBYTES_MAX) (by rfl) n (Nat.zero_le _) h,
   LimitsP.refuses_above _ (msgMax crypto_box_MESSAGEBYTES_MAX) (by rfl) n (Nat.zero_le _) h,
   LimitsP.refuses_above _ (msgMax crypto_box_MESSAGEBYTES_MAX) (by rfl) n (Nat.zero_le _) h,
   LimitsP.refuses_above _ (msgMax crypto_box_curve25519xchacha20poly1305_MESSAGEBYTES_MAX) (by rfl) n (Nat.zero_le _) h,
   LimitsP.refuses_above _ (msgMax crypto_box_curve25519xchacha20poly1305_MESSAGEBYTES_MAX) (by rfl) n (Nat.zero_le _) h⟩
theorem box_easy_accepts (n : Nat) (h : n ≤ crypto_box_MESSAGEBYTES_MAX) :
    refusal "crypto_box_easy" n = none ∧ refusal "crypto_box_easy_afternm" n = none ∧ refusal "crypto_box_seal" n = none ∧
    refusal "crypto_box_curve25519xchacha20poly1305_easy" n = none ∧ refusal "crypto_box_curve25519xchacha20poly1305_easy_afternm" n = none :=
  ⟨LimitsP.accepts _ (msgMax crypto_box_MESSAGEBYTES_MAX) (by rfl) n (Nat.zero_le _) h,
   LimitsP.accepts _ (msgMax crypto_box_MESSAGEBYTES_MAX) (by rfl) n (Nat.zero_le _) h,
   LimitsP.accepts _ (msgMax crypto_box_MESSAGEBYTES_MAX) (by rfl) n (Nat.zero_le _) h,
   LimitsP.accepts _ (msgMax crypto_box_curve25519xchacha20poly1305_MESSAGEBYTES_MAX) (by rfl) n (Nat.zero_le _) h,
   LimitsP.accepts _ (msgMax crypto_box_curve25519xchacha20poly1305_MESSAGEBYTES_MAX) (by rfl) n (Nat.zero_le _) h⟩

theorem aead_ietf_encrypt_refuses (n : Nat) (h : n > crypto_aead_chacha20poly1305_ietf_MESSAGEBYTES_MAX) :
    refusal "crypto_aead_chacha20poly1305_ietf_encrypt" n = some "misuse" :=
  LimitsP.refuses_above _ (msgMax crypto_aead_chacha20poly1305_ietf_MESSAGEBYTES_MAX) (by rfl) n (Nat.zero_le _) h
theorem aead_ietf_encrypt_accepts (n : Nat) (h : n ≤ crypto_aead_chacha20poly1305_ietf_MESSAGEBYTES_MAX) :
    refusal "crypto_aead_chacha20poly1305_ietf_encrypt" n = none :=
  LimitsP.accepts _ (msgMax crypto_aead_chacha20poly1305_ietf_MESSAGEBYTES_MAX) (by rfl) n (Nat.zero_le _) h

theorem aead_xchacha_encrypt_refuses (n : Nat) (h : n > crypto_aead_xchacha20poly1305_ietf_MESSAGEBYTES_MAX) :
    refusal "crypto_aead_xchacha20poly1305_ietf_encrypt" n = some "misuse" ∧ refusal "crypto_aead_chacha20poly1305_encrypt" n = some "misuse" :=
  ⟨LimitsP.refuses_above _ (msgMax crypto_aead_xchacha20poly1305_ietf_MESSAGEBYTES_MAX) (by rfl) n (Nat.zero_le _) h,
   LimitsP.refuses_above _ (msgMax crypto_aead_chacha20poly1305_MESSAGEBYTES_MAX) (by rfl) n (Nat.zero_le _) h⟩
theorem aead_xchacha_encrypt_accepts (n : Nat) (h : n ≤ crypto_aead_xchacha20poly1305_ietf_MESSAGEBYTES_MAX) :
    refusal "crypto_aead_xchacha20poly1305_ietf_encrypt" n = none ∧ refusal "crypto_aead_chacha20poly1305_encrypt" n = none :=
  ⟨LimitsP.accepts _ (msgMax crypto_aead_xchacha20poly1305_ietf_MESSAGEBYTES_MAX) (by rfl) n (Nat.zero_le _) h,
   LimitsP.accepts _ (msgMax crypto_aead_chacha20poly1305_MESSAGEBYTES_MAX) (by rfl) n (Nat.zero_le _) h⟩

/-- AEGIS-128L: message and associated-data lengths above 2^61 - 1 → misuse; over-long ciphertexts → -1 -/
theorem aead_aegis128l_encrypt_refuses (n : Nat) (h : n > crypto_aead_aegis128l_MESSAGEBYTES_MAX) :
    refusal "crypto_aead_aegis128l_encrypt" n = some "misuse" ∧ refusal "crypto_aead_aegis128l_encrypt.adlen" n = some "misuse" ∧
    refusal "crypto_aead_aegis128l_decrypt" (n + crypto_aead_aegis128l_ABYTES) = some "rc=-1" :=
  ⟨LimitsP.refuses_above _ (msgMax crypto_aead_aegis128l_MESSAGEBYTES_MAX) (by rfl) n (Nat.zero_le _) h,
   LimitsP.refuses_above _ { hi := crypto_aead_aegis128l_MESSAGEBYTES_MAX, probes := [0, 5, 64] } (by rfl) n (Nat.zero_le _) h,
   LimitsP.refuses_above _ { lo := crypto_aead_aegis128l_ABYTES, hi := crypto_aead_aegis128l_MESSAGEBYTES_MAX + crypto_aead_aegis128l_ABYTES, above := "rc=-1", probes := [32, 33, 100] }
     (by rfl) _ (Nat.le_add_left _ _) (Nat.add_lt_add_right h _)⟩
theorem aead_aegis128l_encrypt_accepts (n : Nat) (h : n ≤ crypto_aead_aegis128l_MESSAGEBYTES_MAX) :
    refusal "crypto_aead_aegis128l_encrypt" n = none ∧ refusal "crypto_aead_aegis128l_encrypt.adlen" n = none :=
  ⟨LimitsP.accepts _ (msgMax crypto_aead_aegis128l_MESSAGEBYTES_MAX) (by rfl) n (Nat.zero_le _) h,
   LimitsP.accepts _ { hi := crypto_aead_aegis128l_MESSAGEBYTES_MAX, probes := [0, 5, 64] } (by rfl) n (Nat.zero_le _) h⟩
theorem aead_aegis256_encrypt_refuses (n : Nat) (h : n > crypto_aead_aegis256_MESSAGEBYTES_MAX) :
    refusal "crypto_aead_aegis256_encrypt" n = some "misuse" ∧ refusal "crypto_aead_aegis256_encrypt.adlen" n = some "misuse" ∧
    refusal "crypto_aead_aegis256_decrypt" (n + crypto_aead_aegis256_ABYTES) = some "rc=-1" :=
  ⟨LimitsP.refuses_above _ (msgMax crypto_aead_aegis256_MESSAGEBYTES_MAX) (by rfl) n (Nat.zero_le _) h,
   LimitsP.refuses_above _ { hi := crypto_aead_aegis256_MESSAGEBYTES_MAX, probes := [0, 5, 64] } (by rfl) n (Nat.zero_le _) h,
   LimitsP.refuses_above _ { lo := crypto_aead_aegis256_ABYTES, hi := crypto_aead_aegis256_MESSAGEBYTES_MAX + crypto_aead_aegis256_ABYTES, above := "rc=-1", probes := [32, 33, 100] }
     (by rfl) _ (Nat.le_add_left _ _) (Nat.add_lt_add_right h _)⟩
theorem aead_aegis256_encrypt_accepts (n : Nat) (h : n ≤ crypto_aead_aegis256_MESSAGEBYTES_MAX) :
    refusal "crypto_aead_aegis256_encrypt" n = none ∧ refusal "crypto_aead_aegis256_encrypt.adlen" n = none :=
  ⟨LimitsP.accepts _ (msgMax crypto_aead_aegis256_MESSAGEBYTES_MAX) (by rfl) n (Nat.zero_le _) h,
   LimitsP.accepts _ { hi := crypto_aead_aegis256_MESSAGEBYTES_MAX, probes := [0, 5, 64] } (by rfl) n (Nat.zero_le _) h⟩

/-- AES-256-GCM: more than 2^32 - 2 blocks → error return (encryption and decryption) -/
theorem aead_aes256gcm_encrypt_refuses (n : Nat) (h : n > crypto_aead_aes256gcm_MESSAGEBYTES_MAX) :
    refusal "crypto_aead_aes256gcm_encrypt" n = some "rc=-1" ∧ refusal "crypto_aead_aes256gcm_decrypt" (n + crypto_aead_aes256gcm_ABYTES) = some "rc=-1" :=
  ⟨LimitsP.refuses_above _ { hi := crypto_aead_aes256gcm_MESSAGEBYTES_MAX, above := "rc=-1", probes := [0, 1, 100], huge := true } (by rfl) n (Nat.zero_le _) h,
   LimitsP.refuses_above _ { lo := crypto_aead_aes256gcm_ABYTES, hi := crypto_aead_aes256gcm_MESSAGEBYTES_MAX + crypto_aead_aes256gcm_ABYTES, above := "rc=-1", probes := [16, 17, 100] }
     (by rfl) _ (Nat.le_add_left _ _) (Nat.add_lt_add_right h _)⟩
theorem aead_aes256gcm_encrypt_accepts (n : Nat) (h : n ≤ crypto_aead_aes256gcm_MESSAGEBYTES_MAX) :
    refusal "crypto_aead_aes256gcm_encrypt" n = none :=
  LimitsP.accepts _ { hi := crypto_aead_aes256gcm_MESSAGEBYTES_MAX, above := "rc=-1", probes := [0, 1, 100], huge := true } (by rfl) n (Nat.zero_le _) h

theorem secretstream_push_refuses (n : Nat) (h : n > crypto_secretstream_xchacha20poly1305_MESSAGEBYTES_MAX) :
    refusal "crypto_secretstream_xchacha20poly1305_push" n = some "misuse" ∧
    refusal "crypto_secretstream_xchacha20poly1305_pull" (n + crypto_secretstream_xchacha20poly1305_ABYTES) = some "misuse" :=
  ⟨LimitsP.refuses_above _ (msgMax crypto_secretstream_xchacha20poly1305_MESSAGEBYTES_MAX) (by rfl) n (Nat.zero_le _) h,
   LimitsP.refuses_above _ { lo := crypto_secretstream_xchacha20poly1305_ABYTES, hi := crypto_secretstream_xchacha20poly1305_MESSAGEBYTES_MAX + crypto_secretstream_xchacha20poly1305_ABYTES, probes := [17, 18, 100] }
     (by rfl) _ (Nat.le_add_left _ _) (Nat.add_lt_add_right h _)⟩
theorem secretstream_push_accepts (n : Nat) (h : n ≤ crypto_secretstream_xchacha20poly1305_MESSAGEBYTES_MAX) :
    refusal "crypto_secretstream_xchacha20poly1305_push" n = none :=
  LimitsP.accepts _ (msgMax crypto_secretstream_xchacha20poly1305_MESSAGEBYTES_MAX) (by rfl) n (Nat.zero_le _) h

theorem stream_ietf_refuses (n : Nat) (h : n > crypto_stream_chacha20_ietf_MESSAGEBYTES_MAX) :
    refusal "crypto_stream_chacha20_ietf" n = some "misuse" ∧ refusal "crypto_stream_chacha20_ietf_xor" n = some "misuse" ∧
    refusal "crypto_stream_chacha20_ietf_xor_ic:0" n = some "misuse" :=
  ⟨LimitsP.refuses_above _ { hi := crypto_stream_chacha20_ietf_MESSAGEBYTES_MAX, probes := [0, 1, 64, 65, 1000] } (by rfl) n (Nat.zero_le _) h,
   LimitsP.refuses_above _ { hi := crypto_stream_chacha20_ietf_MESSAGEBYTES_MAX, probes := [0, 1, 64, 65, 1000] } (by rfl) n (Nat.zero_le _) h,
   LimitsP.refuses_above _ { hi := ietfMax 0, probes := [0, 1, 64, 65, 1000] } (by rfl) n (Nat.zero_le _) h⟩
theorem stream_ietf_accepts (n : Nat) (h : n ≤ crypto_stream_chacha20_ietf_MESSAGEBYTES_MAX) :
    refusal "crypto_stream_chacha20_ietf" n = none ∧ refusal "crypto_stream_chacha20_ietf_xor" n = none ∧
    refusal "crypto_stream_chacha20_ietf_xor_ic:0" n = none :=
  ⟨LimitsP.accepts _ { hi := crypto_stream_chacha20_ietf_MESSAGEBYTES_MAX, probes := [0, 1, 64, 65, 1000] } (by rfl) n (Nat.zero_le _) h,
   LimitsP.accepts _ { hi := crypto_stream_chacha20_ietf_MESSAGEBYTES_MAX, probes := [0, 1, 64, 65, 1000] } (by rfl) n (Nat.zero_le _) h,
   LimitsP.accepts _ { hi := ietfMax 0, probes := [0, 1, 64, 65, 1000] } (by rfl) n (Nat.zero_le _) h⟩

/-- the per-counter maximum of the table is the guard of the model (C03): a length is refused for
    initial counter `ic` exactly when the model's guard fires -/
theorem ietf_xor_ic_limit_is_guard (ic : UInt32) (mlen : UInt64) :
    ietfGuardFails ic mlen = true ↔ mlen.toNat > ietfMax ic.toNat := by
  rw [C03.ietf_guard_iff]
  have := ic.toNat_lt
  unfold ietfMax
  omega

/-! the guards of the hash / KDF models are the table's ranges -/

theorem generichash_outlen_refusal_iff (n : Nat) :
    (refusal "crypto_generichash.outlen" n = none ↔ ¬ (n = 0 ∨ n > 64)) ∧
    (refusal "crypto_generichash_init.outlen" n = none ↔ ¬ (n = 0 ∨ n > 64)) ∧
    (refusal "crypto_generichash_blake2b_salt_personal.outlen" n = none ↔ ¬ (n = 0 ∨ n > 64)) := by
  refine ⟨?_, ?_, ?_⟩ <;>
  · rw [LimitsP.accepts_iff _ { lo := 1, hi := crypto_generichash_BYTES_MAX, above := "rc=-1", probes := [1, 16, 32, 64] } (by rfl)]
    show (1 ≤ n ∧ n ≤ 64) ↔ _
    omega

theorem generichash_keylen_refusal_iff (n : Nat) :
    (refusal "crypto_generichash.keylen" n = none ↔ ¬ n > 64) ∧
    (refusal "crypto_generichash_init.keylen" n = none ↔ ¬ n > 64) ∧
    (refusal "crypto_generichash_blake2b_salt_personal.keylen" n = none ↔ ¬ n > 64) := by
  refine ⟨?_, ?_, ?_⟩ <;>
  · rw [LimitsP.accepts_iff _ { hi := crypto_generichash_KEYBYTES_MAX, above := "rc=-1", probes := [0, 1, 16, 64] } (by rfl)]
    show (0 ≤ n ∧ n ≤ 64) ↔ _
    omega

/-- `crypto_kdf_derive_from_key`: the table's range is the guard of `kdfBlake2b` -/
theorem kdf_refusal_iff (n : Nat) :
    (refusal "crypto_kdf_derive_from_key" n = none ↔ ¬ (n < 16 ∨ n > 64)) ∧
    (n < 16 ∨ n > 64 → refusal "crypto_kdf_derive_from_key" n = some "rc=-1 errno=EINVAL") := by
  have hl : limits.lookup "crypto_kdf_derive_from_key" =
      some { lo := crypto_kdf_BYTES_MIN, hi := crypto_kdf_BYTES_MAX, below := pwErr "EINVAL", above := pwErr "EINVAL", probes := [16, 17, 32, 64] } := by rfl
  constructor
  · rw [LimitsP.accepts_iff _ _ hl]
    show (16 ≤ n ∧ n ≤ 64) ↔ _
    omega
  · intro h
    rcases h with h | h
    · exact LimitsP.refuses_below _ _ hl n h
    · exact LimitsP.refuses_above _ _ hl n (by show 16 ≤ n; omega) h

/-- HKDF expand: refused exactly when the model's `L > 255·HashLen` guard fires -/
theorem hkdf256_refusal_iff (n : Nat) :
    (refusal "crypto_kdf_hkdf_sha256_expand" n = none ↔ ¬ n > 255 * C04.H256.outLen) ∧
    (n > 255 * C04.H256.outLen → refusal "crypto_kdf_hkdf_sha256_expand" n = some "rc=-1 errno=EINVAL") := by
  have hl : limits.lookup "crypto_kdf_hkdf_sha256_expand" =
      some { hi := crypto_kdf_hkdf_sha256_BYTES_MAX, above := pwErr "EINVAL", probes := [0, 1, 32, 33, 8160] } := by rfl
  constructor
  · rw [LimitsP.accepts_iff _ _ hl]
    show (0 ≤ n ∧ n ≤ 255 * 32) ↔ ¬ n > 255 * 32
    omega
  · intro h
    exact LimitsP.refuses_above _ _ hl n (Nat.zero_le _) h

theorem hkdf512_refusal_iff (n : Nat) :
    (refusal "crypto_kdf_hkdf_sha512_expand" n = none ↔ ¬ n > 255 * C04.H512.outLen) ∧
    (n > 255 * C04.H512.outLen → refusal "crypto_kdf_hkdf_sha512_expand" n = some "rc=-1 errno=EINVAL") := by
  have hl : limits.lookup "crypto_kdf_hkdf_sha512_expand" =
      some { hi := crypto_kdf_hkdf_sha512_BYTES_MAX, above := pwErr "EINVAL", probes := [0, 1, 64, 65, 16320] } := by rfl
  constructor
  · rw [LimitsP.accepts_iff _ _ hl]
    show (0 ≤ n ∧ n ≤ 255 * 64) ↔ ¬ n > 255 * 64
    omega
  · intro h
    exact LimitsP.refuses_above _ _ hl n (Nat.zero_le _) h

/-! password hashing: closed forms of the refusal for the four size arguments of `crypto_pwhash` -/

theorem pwhash_outlen_refusal (n : Nat) :
    refusal "crypto_pwhash.outlen" n =
      if n < 16 then some "rc=-1 errno=EINVAL" else if n > 4294967295 then some "rc=-1 errno=EFBIG" else none :=
  LimitsP.refusal_eq _ { lo := crypto_pwhash_argon2id_BYTES_MIN, hi := crypto_pwhash_argon2id_BYTES_MAX, below := pwErr "EINVAL", above := pwErr "EFBIG", probes := [16, 17, 64], huge := true } (by rfl) n

theorem pwhash_memlimit_refusal (n : Nat) :
    refusal "crypto_pwhash.memlimit" n =
      if n < 8192 then some "rc=-1 errno=EINVAL" else if n > 4398046510080 then some "rc=-1 errno=EFBIG" else none :=
  LimitsP.refusal_eq _ { lo := crypto_pwhash_argon2id_MEMLIMIT_MIN, hi := crypto_pwhash_argon2id_MEMLIMIT_MAX, below := pwErr "EINVAL", above := pwErr "EFBIG", probes := [8192, 8193, 16384, 65536] } (by rfl) n

/-- Argon2id accepts one pass, Argon2i needs three -/
theorem pwhash_opslimit_refusal (n : Nat) :
    (refusal "crypto_pwhash.opslimit" n =
      if n < 1 then some "rc=-1 errno=EINVAL" else if n > 4294967295 then some "rc=-1 errno=EFBIG" else none) ∧
    (refusal "crypto_pwhash_argon2i.opslimit" n =
      if n < 3 then some "rc=-1 errno=EINVAL" else if n > 4294967295 then some "rc=-1 errno=EFBIG" else none) :=
  ⟨LimitsP.refusal_eq _ { lo := 1, hi := crypto_pwhash_argon2id_OPSLIMIT_MAX, below := pwErr "EINVAL", above := pwErr "EFBIG", probes := [1, 2] } (by rfl) n,
   LimitsP.refusal_eq _ { lo := 3, hi := crypto_pwhash_argon2id_OPSLIMIT_MAX, below := pwErr "EINVAL", above := pwErr "EFBIG", probes := [3, 4] } (by rfl) n⟩

theorem pwhash_passwdlen_refusal (n : Nat) :
    refusal "crypto_pwhash.passwdlen" n = if n > 4294967295 then some "rc=-1 errno=EFBIG" else none := by
  rw [LimitsP.refusal_eq _ { hi := crypto_pwhash_argon2id_PASSWD_MAX, above := pwErr "EFBIG", probes := [0, 1, 8, 100] } (by rfl) n]
  rw [if_neg (Nat.not_lt_zero n)]
  rfl

/-! codecs, padding, allocation -/

/-- the table refuses `hex_maxlen` exactly when the model (`C15.bin2hex_eq_spec`) calls the misuse handler: `hex_maxlen ≤ 2·bin_len` -/
theorem bin2hex_refusal_iff (cap : Nat) (hc : cap < 2 ^ 64) :
    (refusal "sodium_bin2hex:0" cap = some "misuse" ↔ cap ≤ 2 * 0) ∧ (refusal "sodium_bin2hex:1" cap = some "misuse" ↔ cap ≤ 2 * 1) ∧
    (refusal "sodium_bin2hex:8" cap = some "misuse" ↔ cap ≤ 2 * 8) ∧ (refusal "sodium_bin2hex:33" cap = some "misuse" ↔ cap ≤ 2 * 33) := by
  refine ⟨?_, ?_, ?_, ?_⟩
  · rw [LimitsP.refusal_eq _ { lo := 2 * 0 + 1, below := "misuse", probes := [2 * 0 + 1, 2 * 0 + 2, 2 * 0 + 40] } (by rfl)]
    show (if cap < 1 then _ else if cap > SIZE_MAX then _ else none) = _ ↔ _
    by_cases h : cap < 1 <;> simp [h] <;> first | omega | (simp only [SIZE_MAX]; omega)
  · rw [LimitsP.refusal_eq _ { lo := 2 * 1 + 1, below := "misuse", probes := [2 * 1 + 1, 2 * 1 + 2, 2 * 1 + 40] } (by rfl)]
    show (if cap < 3 then _ else if cap > SIZE_MAX then _ else none) = _ ↔ _
    by_cases h : cap < 3 <;> simp [h] <;> first | omega | (simp only [SIZE_MAX]; omega)
  · rw [LimitsP.refusal_eq _ { lo := 2 * 8 + 1, below := "misuse", probes := [2 * 8 + 1, 2 * 8 + 2, 2 * 8 + 40] } (by rfl)]
    show (if cap < 17 then _ else if cap > SIZE_MAX then _ else none) = _ ↔ _
    by_cases h : cap < 17 <;> simp [h] <;> first | omega | (simp only [SIZE_MAX]; omega)
  · rw [LimitsP.refusal_eq _ { lo := 2 * 33 + 1, below := "misuse", probes := [2 * 33 + 1, 2 * 33 + 2, 2 * 33 + 40] } (by rfl)]
    show (if cap < 67 then _ else if cap > SIZE_MAX then _ else none) = _ ↔ _
    by_cases h : cap < 67 <;> simp [h] <;> first | omega | (simp only [SIZE_MAX]; omega)

/-- Base64 encoder: every (variant, length) entry refuses `b64_maxlen` exactly below the encoded length,
    and that length is the one of the model (`C15.b64_encode_eq_rfc`: misuse iff `maxlen ≤ encodedLen`) -/
theorem bin2base64_refusal_iff : ∀ e ∈ b64Entries, ∀ cap : Nat, cap < 2 ^ 64 →
    (refusal e.1 cap = some "misuse" ↔ cap < e.2.lo) := by
  intro e he cap hc
  have hmem : e ∈ limits := by
    simp only [limits, List.mem_append]
    exact Or.inl (Or.inr he)
  have hl := LimitsP.lookup_of_mem limits limits_keys_nodup e hmem
  have hb : e.2.below = "misuse" ∧ e.2.hi = SIZE_MAX := by
    simp only [b64Entries, List.mem_flatMap, List.mem_map] at he
    obtain ⟨v, _, n, _, rfl⟩ := he
    exact ⟨rfl, rfl⟩
  rw [LimitsP.refusal_eq _ _ hl, hb.1, hb.2]
  by_cases h : cap < e.2.lo
  · simp [h]
  · have : ¬ cap > SIZE_MAX := by simp only [SIZE_MAX]; omega
    simp [h, this]

theorem b64EncodedLen_is_model (n : Nat) :
    b64EncodedLen 1 n = Spec.Base64.encodedLen (C15.padOf 1) n + 1 ∧ b64EncodedLen 3 n = Spec.Base64.encodedLen (C15.padOf 3) n + 1 ∧
    b64EncodedLen 5 n = Spec.Base64.encodedLen (C15.padOf 5) n + 1 ∧ b64EncodedLen 7 n = Spec.Base64.encodedLen (C15.padOf 7) n + 1 :=
  ⟨rfl, rfl, rfl, rfl⟩

/-- `sodium_pad`: the table's maximum is exactly the overflow condition of the model (`C16.pad_spec`):
    refused iff `2^64 - 1 - n ≤ bs - 1 - n % bs`, i.e. iff the padded length would not fit in a size_t -/
theorem pad_limit_is_overflow (n : Nat) (hn : n < 2 ^ 64) :
    (refusal "sodium_pad:16" n = some "misuse" ↔ 2 ^ 64 - 1 - n ≤ 16 - 1 - n % 16) ∧
    (refusal "sodium_pad:7" n = some "misuse" ↔ 2 ^ 64 - 1 - n ≤ 7 - 1 - n % 7) ∧
    (refusal "sodium_pad:1" n = some "misuse" ↔ 2 ^ 64 - 1 - n ≤ 1 - 1 - n % 1) ∧
    (refusal "sodium_pad:16" n = none ↔ padded n 16 < 2 ^ 64) := by
  refine ⟨?_, ?_, ?_, ?_⟩
  · rw [LimitsP.refusal_eq _ { hi := 2 ^ 64 - 17, inside := "rc=-1", probes := [64, 1000, 2 ^ 64 - 17] } (by rfl)]
    show (if n < 0 then _ else if n > 2 ^ 64 - 17 then some "misuse" else none) = _ ↔ _
    by_cases h : n > 2 ^ 64 - 17 <;> simp [h] <;> omega
  · rw [LimitsP.refusal_eq _ { hi := 2 ^ 64 - 3, inside := "rc=-1", probes := [64, 1000, 2 ^ 64 - 3] } (by rfl)]
    show (if n < 0 then _ else if n > 2 ^ 64 - 3 then some "misuse" else none) = _ ↔ _
    by_cases h : n > 2 ^ 64 - 3 <;> simp [h] <;> omega
  · rw [LimitsP.refusal_eq _ { hi := 2 ^ 64 - 2, inside := "rc=-1", probes := [64, 1000, 2 ^ 64 - 2] } (by rfl)]
    show (if n < 0 then _ else if n > 2 ^ 64 - 2 then some "misuse" else none) = _ ↔ _
    by_cases h : n > 2 ^ 64 - 2 <;> simp [h] <;> omega
  · rw [LimitsP.accepts_iff _ { hi := 2 ^ 64 - 17, inside := "rc=-1", probes := [64, 1000, 2 ^ 64 - 17] } (by rfl)]
    show (0 ≤ n ∧ n ≤ 2 ^ 64 - 17) ↔ n + 16 - n % 16 < 2 ^ 64
    omega

/-- `sodium_allocarray(count, 4096)`: a product that does not fit in a size_t is refused -/
theorem allocarray_refuses_overflow (count : Nat) :
    (count * 4096 ≥ 2 ^ 64 → refusal "sodium_allocarray:4096" count = some "null errno=ENOMEM") ∧
    (count * 4096 < 2 ^ 64 → refusal "sodium_allocarray:4096" count = none) := by
  have hl : limits.lookup "sodium_allocarray:4096" = some { hi := 2 ^ 52 - 1, above := "null errno=ENOMEM", inside := "ok", probes := [0, 1, 3] } := by rfl
  constructor
  · intro h
    exact LimitsP.refuses_above _ _ hl count (Nat.zero_le _) (by show 2 ^ 52 - 1 < count; omega)
  · intro h
    exact LimitsP.accepts _ _ hl count (Nat.zero_le _) (by show count ≤ 2 ^ 52 - 1; omega)

theorem randombytes_deterministic_refuses (n : Nat) :
    (n > 2 ^ 38 → refusal "randombytes_buf_deterministic" n = some "misuse") ∧ (n ≤ 2 ^ 38 → refusal "randombytes_buf_deterministic" n = none) := by
  have hl : limits.lookup "randombytes_buf_deterministic" = some { hi := randombytes_deterministic_MAX, probes := [0, 1, 64, 1000] } := by rfl
  exact ⟨fun h => LimitsP.refuses_above _ _ hl n (Nat.zero_le _) h, fun h => LimitsP.accepts _ _ hl n (Nat.zero_le _) h⟩

/-- inputs shorter than a tag / signature / header are refused with -1 before anything is read -/
theorem short_ciphertexts_refused (n : Nat) :
    (n < 16 → refusal "crypto_aead_chacha20poly1305_decrypt" n = some "rc=-1" ∧ refusal "crypto_aead_chacha20poly1305_ietf_decrypt" n = some "rc=-1" ∧
              refusal "crypto_aead_xchacha20poly1305_ietf_decrypt" n = some "rc=-1" ∧ refusal "crypto_aead_aes256gcm_decrypt" n = some "rc=-1" ∧
              refusal "crypto_secretbox_open_easy" n = some "rc=-1" ∧ refusal "crypto_box_open_easy" n = some "rc=-1") ∧
    (n < 32 → refusal "crypto_aead_aegis128l_decrypt" n = some "rc=-1" ∧ refusal "crypto_aead_aegis256_decrypt" n = some "rc=-1") ∧
    (n < 48 → refusal "crypto_box_seal_open" n = some "rc=-1") ∧
    (n < 64 → refusal "crypto_sign_open" n = some "rc=-1") ∧
    (n < 17 → refusal "crypto_secretstream_xchacha20poly1305_pull" n = some "rc=-1") := by
  refine ⟨fun h => ⟨?_, ?_, ?_, ?_, ?_, ?_⟩, fun h => ⟨?_, ?_⟩, fun h => ?_, fun h => ?_, fun h => ?_⟩
  · exact LimitsP.refuses_below _ (minLen crypto_aead_chacha20poly1305_ABYTES) (by rfl) n h
  · exact LimitsP.refuses_below _ (minLen 16) (by rfl) n h
  · exact LimitsP.refuses_below _ (minLen 16) (by rfl) n h
  · exact LimitsP.refuses_below _ { lo := crypto_aead_aes256gcm_ABYTES, hi := crypto_aead_aes256gcm_MESSAGEBYTES_MAX + crypto_aead_aes256gcm_ABYTES, above := "rc=-1", probes := [16, 17, 100] } (by rfl) n h
  · exact LimitsP.refuses_below _ (minLen crypto_secretbox_MACBYTES) (by rfl) n h
  · exact LimitsP.refuses_below _ (minLen crypto_box_MACBYTES) (by rfl) n h
  · exact LimitsP.refuses_below _ { lo := crypto_aead_aegis128l_ABYTES, hi := crypto_aead_aegis128l_MESSAGEBYTES_MAX + crypto_aead_aegis128l_ABYTES, above := "rc=-1", probes := [32, 33, 100] } (by rfl) n h
  · exact LimitsP.refuses_below _ { lo := crypto_aead_aegis256_ABYTES, hi := crypto_aead_aegis256_MESSAGEBYTES_MAX + crypto_aead_aegis256_ABYTES, above := "rc=-1", probes := [32, 33, 100] } (by rfl) n h
  · exact LimitsP.refuses_below _ (minLen crypto_box_SEALBYTES) (by rfl) n h
  · exact LimitsP.refuses_below _ (minLen crypto_sign_BYTES) (by rfl) n h
  · exact LimitsP.refuses_below _ { lo := crypto_secretstream_xchacha20poly1305_ABYTES, hi := crypto_secretstream_xchacha20poly1305_MESSAGEBYTES_MAX + crypto_secretstream_xchacha20poly1305_ABYTES, probes := [17, 18, 100] } (by rfl) n h

end Sodium.C12
