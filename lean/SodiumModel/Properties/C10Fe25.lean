import SodiumModel.Properties.C05Ladder
import SodiumModel.Properties.C05Fe51
import SodiumModel.Proofs.Fe25Ladder
/-
  C10 / C05, continued — the radix-2^25.5 field arithmetic (ten SIGNED 32-bit limbs; builds without 128-bit integers:
  `HAVE_TI_MODE` undefined, harness variants `noti` / `portable`) IS GF(2^255 - 19), and the ladder of x25519_ref10.c
  over it returns the RFC 7748 result.  Twin of `Properties/C05Fe51.lean`.

  `Model/Fe25Gen.lean` (GENERATED from the header by tools_c2lean_fe25.py: `fe25519_mul`, `sq`, `sq2`, `mul32`,
  `frombytes`) and `Model/Fe25.lean` (hand-transcribed: the rest) model every statement with C's types: `int32_t` =
  `Int32`, `int64_t` = `Int64` (wrapping), casts explicit.  Signed overflow is undefined behaviour in C, so "no signed
  overflow occurs under the stated limb bounds" is a THEOREM here (`mul_no_overflow`, `premul_no_overflow`,
  `add_spec` …): the fixed-width statements are shown equal, statement by statement, to the same statements over `Int`.
  (`>>` of a negative value and narrowing conversions are implementation-defined; the model uses gcc/clang's meaning:
  arithmetic shift, reduction mod 2^N.)

    * representation: `val f = Σ f_i·2^⌈25.5 i⌉ : Int`, `fval f = val f mod p : Nat`; two-sided bounds
      `Bnd Be Bo f` (|f_i| ≤ Be for even i, ≤ Bo for odd i): `Tight` = 1.1·2^25 / 1.1·2^24, `Loose` = 1.65·2^26 /
      1.65·2^25 (the pre/postconditions in the C comments), `Carried` = what the carry chain returns;
    * `add_spec`, `sub_spec`, `neg_spec` (exact value, bounds add up, no `int32_t` overflow), `mul_spec`,
      `sq_spec`, `sq2_spec`, `mul32_spec` (n ≤ 2^19; WRONG for large n: `mul32_wrong_for_large_n`),
      `frombytes_spec`, `reduce_spec` / `tobytes_spec` (canonical for loose `f` with `-p ≤ val f` or an unspoilt first
      quotient, in particular every tight `f`; WRONG for some `f` inside the documented precondition:
      `reduce_wrong_in_documented_range`), `isnegative_spec`, `iszero_spec`, `cswap_spec`, `cmov_spec`,
      `invert_spec`, `pow22523_spec`;
    * `fe25_refines`, `ladder_any_field_TT`, `x25519_fe25_eq_rfc7748`, `x25519_fe25_eq_fe51`.

  Helper lemmas: `Proofs/Fe25Base.lean`, `Proofs/Fe25Gen.lean` (generated), `Proofs/Fe25.lean`, `Proofs/Fe25Reduce.lean`,
  `Proofs/Fe25Ladder.lean`.
-/
open Sodium Sodium.Model Sodium.Model.Scalarmult Sodium.Model.LadderRef10 Sodium.Model.Fe25
  Sodium.ScalarmultP Sodium.LadderRef10P Sodium.Fe25P Sodium.Spec
namespace Sodium.C10Fe25

/-! ### the representation (definitions in `Proofs/Fe25.lean`, restated) -/

/-- `val f = Σ f_i · 2^⌈25.5 i⌉` over `Int` (the limbs are signed) -/
theorem val_def (f : Fe) : val f =
    f.l0.toInt + f.l1.toInt * 2 ^ 26 + f.l2.toInt * 2 ^ 51 + f.l3.toInt * 2 ^ 77 + f.l4.toInt * 2 ^ 102 +
      f.l5.toInt * 2 ^ 128 + f.l6.toInt * 2 ^ 153 + f.l7.toInt * 2 ^ 179 + f.l8.toInt * 2 ^ 204 +
      f.l9.toInt * 2 ^ 230 := rfl

/-- the field element: the canonical representative of `val f` modulo p = 2^255 - 19 -/
theorem fval_def (f : Fe) : fval f = (val f % (2 ^ 255 - 19)).toNat := rfl

/-- `Bnd Be Bo f`: two-sided limb bounds, alternating -/
theorem bnd_def (Be Bo : Nat) (f : Fe) : Bnd Be Bo f ↔
    (-(Be : Int) ≤ f.l0.toInt ∧ f.l0.toInt ≤ Be) ∧ (-(Bo : Int) ≤ f.l1.toInt ∧ f.l1.toInt ≤ Bo) ∧
    (-(Be : Int) ≤ f.l2.toInt ∧ f.l2.toInt ≤ Be) ∧ (-(Bo : Int) ≤ f.l3.toInt ∧ f.l3.toInt ≤ Bo) ∧
    (-(Be : Int) ≤ f.l4.toInt ∧ f.l4.toInt ≤ Be) ∧ (-(Bo : Int) ≤ f.l5.toInt ∧ f.l5.toInt ≤ Bo) ∧
    (-(Be : Int) ≤ f.l6.toInt ∧ f.l6.toInt ≤ Be) ∧ (-(Bo : Int) ≤ f.l7.toInt ∧ f.l7.toInt ≤ Bo) ∧
    (-(Be : Int) ≤ f.l8.toInt ∧ f.l8.toInt ≤ Be) ∧ (-(Bo : Int) ≤ f.l9.toInt ∧ f.l9.toInt ≤ Bo) := by
  constructor
  · rintro ⟨h0, h1, h2, h3, h4, h5, h6, h7, h8, h9⟩
    exact ⟨h0.2, h1.2, h2.2, h3.2, h4.2, h5.2, h6.2, h7.2, h8.2, h9.2⟩
  · rintro ⟨h0, h1, h2, h3, h4, h5, h6, h7, h8, h9⟩
    exact ⟨⟨rfl, h0⟩, ⟨rfl, h1⟩, ⟨rfl, h2⟩, ⟨rfl, h3⟩, ⟨rfl, h4⟩, ⟨rfl, h5⟩, ⟨rfl, h6⟩, ⟨rfl, h7⟩, ⟨rfl, h8⟩, ⟨rfl, h9⟩⟩

/-- `Tight` = |f| ≤ 1.1·2^25, 1.1·2^24, … ; `Loose` = |f| ≤ 1.65·2^26, 1.65·2^25, … (C comments);
    `Carried` = |h| ≤ 2^25, 2^24 + 1036, 2^25, 2^24, 2^25, 2^24 + 644, 2^25, 2^24, 2^25, 2^24 -/
theorem bounds_def (f : Fe) :
    (Tight f ↔ Bnd 36909875 18454937 f) ∧ (Loose f ↔ Bnd 110729625 55364812 f) ∧
    (Carried f ↔ BndN ⟨33554432, 16778252, 33554432, 16777216, 33554432, 16777860, 33554432, 16777216, 33554432, 16777216⟩ f) :=
  ⟨Iff.rfl, Iff.rfl, Iff.rfl⟩

/-- carried ⊆ (1.01·2^25, 1.01·2^24: the postcondition in the C comments) ⊆ tight ⊆ loose -/
theorem bounds_chain (f : Fe) :
    (Carried f → Bnd 33889976 16944988 f) ∧ (Bnd 33889976 16944988 f → Tight f) ∧ (Tight f → Loose f) :=
  ⟨Carried.bnd101, fun h => h.mono (by decide) (by decide), Tight.loose⟩

/-! ### fe25519_add, fe25519_sub, fe25519_neg -/

/-- **`fe25519_add`**: when the bounds add up below 2^31 no `int32_t` addition overflows; the value is the exact sum
    and the bounds add up.  (Tight + tight is within 1.1·2^26, 1.1·2^25 as in the C comment, hence loose.) -/
theorem add_spec (f g : Fe) (a b c d : Nat) (hf : Bnd a b f) (hg : Bnd c d g) (h1 : a + c < 2 ^ 31) (h2 : b + d < 2 ^ 31) :
    Bnd (a + c) (b + d) (fe25519_add f g) ∧ val (fe25519_add f g) = val f + val g ∧
    fval (fe25519_add f g) = F25519.add (fval f) (fval g) := by
  obtain ⟨k1, k2⟩ := Fe25P.add_spec hf hg h1 h2
  exact ⟨k1, k2, by rw [fval, k2, fadd_eq]; rfl⟩

/-- **`fe25519_sub`**: a plain limb-wise difference (the limbs are signed: no bias, no carry) -/
theorem sub_spec (f g : Fe) (a b c d : Nat) (hf : Bnd a b f) (hg : Bnd c d g) (h1 : a + c < 2 ^ 31) (h2 : b + d < 2 ^ 31) :
    Bnd (a + c) (b + d) (fe25519_sub f g) ∧ val (fe25519_sub f g) = val f - val g ∧
    fval (fe25519_sub f g) = F25519.sub (fval f) (fval g) := by
  obtain ⟨k1, k2⟩ := Fe25P.sub_spec hf hg h1 h2
  exact ⟨k1, k2, by rw [fval, k2, fsub_eq]; rfl⟩

/-- **`fe25519_neg`** -/
theorem neg_spec (f : Fe) (a b : Nat) (hf : Bnd a b f) (h1 : a < 2 ^ 31) (h2 : b < 2 ^ 31) :
    Bnd a b (fe25519_neg f) ∧ val (fe25519_neg f) = -val f ∧ fval (fe25519_neg f) = F25519.neg (fval f) := by
  obtain ⟨k1, k2⟩ := Fe25P.neg_spec hf h1 h2
  exact ⟨k1, k2, by rw [fval, k2, fneg_eq]; rfl⟩

/-- sums and differences of tight elements are loose (what the ladder uses) -/
theorem add_sub_tight (f g : Fe) (hf : Tight f) (hg : Tight g) :
    Loose (fe25519_add f g) ∧ Loose (fe25519_sub f g) :=
  ⟨((Fe25P.add_spec hf hg (by decide) (by decide)).1).mono (by decide) (by decide),
   ((Fe25P.sub_spec hf hg (by decide) (by decide)).1).mono (by decide) (by decide)⟩

/-- without a bound the `int32_t` addition wraps: 2^30 + 2^30 -/
theorem add_wraps_unbounded :
    val (fe25519_add ⟨1073741824, 0, 0, 0, 0, 0, 0, 0, 0, 0⟩ ⟨1073741824, 0, 0, 0, 0, 0, 0, 0, 0, 0⟩) = -2147483648 := by
  decide +kernel

/-! ### fe25519_mul -/

/-- the `int32_t` pre-multiplications `19 * g_i`, `2 * f_i` (i odd) of `fe25519_mul` do not overflow on loose inputs
    (the bound 1.65·2^26 is what makes `19 * g2` fit: 19·1.65·2^26 = 1.96·2^30) -/
theorem premul_no_overflow (g : Fe) (hg : Loose g) :
    (19 * g.l1).toInt = 19 * g.l1.toInt ∧ (19 * g.l2).toInt = 19 * g.l2.toInt ∧ (19 * g.l3).toInt = 19 * g.l3.toInt ∧
    (19 * g.l4).toInt = 19 * g.l4.toInt ∧ (19 * g.l5).toInt = 19 * g.l5.toInt ∧ (19 * g.l6).toInt = 19 * g.l6.toInt ∧
    (19 * g.l7).toInt = 19 * g.l7.toInt ∧ (19 * g.l8).toInt = 19 * g.l8.toInt ∧ (19 * g.l9).toInt = 19 * g.l9.toInt ∧
    (2 * g.l1).toInt = 2 * g.l1.toInt ∧ (2 * g.l3).toInt = 2 * g.l3.toInt ∧ (2 * g.l5).toInt = 2 * g.l5.toInt ∧
    (2 * g.l7).toInt = 2 * g.l7.toInt ∧ (2 * g.l9).toInt = 2 * g.l9.toInt ∧
    (38 * g.l5).toInt = 38 * g.l5.toInt ∧ (38 * g.l7).toInt = 38 * g.l7.toInt ∧ (38 * g.l9).toInt = 38 * g.l9.toInt :=
  ⟨(R32_mulc19 hg.l1 (by decide)).1, (R32_mulc19 hg.l2 (by decide)).1, (R32_mulc19 hg.l3 (by decide)).1,
   (R32_mulc19 hg.l4 (by decide)).1, (R32_mulc19 hg.l5 (by decide)).1, (R32_mulc19 hg.l6 (by decide)).1,
   (R32_mulc19 hg.l7 (by decide)).1, (R32_mulc19 hg.l8 (by decide)).1, (R32_mulc19 hg.l9 (by decide)).1,
   (R32_mulc2 hg.l1 (by decide)).1, (R32_mulc2 hg.l3 (by decide)).1, (R32_mulc2 hg.l5 (by decide)).1,
   (R32_mulc2 hg.l7 (by decide)).1, (R32_mulc2 hg.l9 (by decide)).1,
   (R32_mulc38 hg.l5 (by decide)).1, (R32_mulc38 hg.l7 (by decide)).1, (R32_mulc38 hg.l9 (by decide)).1⟩

/-- **`fe25519_mul`, no overflow**: on loose inputs (1) the ten `int64_t` accumulators `h0 … h9` are the images of the
    SAME STATEMENTS evaluated over `Int` (`mul_accI`: the 14 pre-multiplications, the 100 products, the ten sums), each
    bounded in absolute value by the entry of `B_mul` (|h0| ≤ 1.33·2^60 … : the C comment says 1.4·2^60), and (2) the
    limbs returned are the carry chain evaluated over `Int` (`carry_chainI`: the twelve carries with
    `(h + 2^25) >> 26` = ⌊(h + 2^25) / 2^26⌋) applied to them.  `R64 a i B` is `a.toInt = i ∧ |i| ≤ B`. -/
theorem mul_no_overflow (f g : Fe) (hf : Loose f) (hg : Loose g) :
    RA (mul_acc f g) (mul_accI (toI f) (toI g)) B_mul ∧
    toI (fe25519_mul f g) = carry_chainI (mul_accI (toI f) (toI g)) ∧
    B_mul.h0 < 2 ^ 61 ∧ B_mul.h1 < 2 ^ 60 := by
  have h1 := mul_acc_ref hf hg
  exact ⟨h1, (carry_chain_ref (h1.mono (by decide))).eq.symm, by decide, by decide⟩

/-- the ideal accumulators represent the product: 2^255 ≡ 19 (mod p) -/
theorem mul_acc_value (x y : FeI) : valA (mul_accI x y) = valI x * valI y - mulQ x y * (2 ^ 255 - 19) :=
  mul_accI_val x y

/-- the ideal carry chain changes the represented integer by a multiple of p only -/
theorem carry_chain_value (y : AccI) : ∃ c : Int, valI (carry_chainI y) = valA y - c * (2 ^ 255 - 19) :=
  carry_chainI_val y

/-- **`fe25519_mul`**: on loose inputs the result is carried (within the postcondition 1.01·2^25, 1.01·2^24 of the C
    comment, hence tight) and represents the product -/
theorem mul_spec (f g : Fe) (hf : Loose f) (hg : Loose g) :
    Carried (fe25519_mul f g) ∧ val (fe25519_mul f g) % (2 ^ 255 - 19) = (val f * val g) % (2 ^ 255 - 19) ∧
    fval (fe25519_mul f g) = F25519.mul (fval f) (fval g) := by
  obtain ⟨k1, k2⟩ := Fe25P.mul_spec hf hg
  exact ⟨k1, k2, by rw [fval, k2, fmul_eq]; rfl⟩

/-- beyond the loose bound the pre-multiplication `19 * g2` wraps in `int32_t` (g2 = 2^27 > 2^31 / 19) and the
    result is wrong -/
theorem mul_wrong_beyond_loose :
    let f : Fe := ⟨0, 0, 0, 0, 0, 0, 0, 0, 1, 0⟩
    let g : Fe := ⟨0, 0, 134217728, 0, 0, 0, 0, 0, 0, 0⟩
    (19 * g.l2).toInt ≠ 19 * g.l2.toInt ∧ fval (fe25519_mul f g) ≠ F25519.mul (fval f) (fval g) := by
  decide +kernel

/-! ### fe25519_sq, fe25519_sq2 -/

/-- **`fe25519_sq`** -/
theorem sq_spec (f : Fe) (hf : Loose f) :
    Carried (fe25519_sq f) ∧ fval (fe25519_sq f) = F25519.sqr (fval f) := by
  obtain ⟨k1, k2⟩ := Fe25P.sq_spec hf
  exact ⟨k1, by rw [fval, k2, fmul_eq]; rfl⟩

/-- the accumulators of `fe25519_sq` are, as integers, those of `fe25519_mul(f, f)`; no overflow on a loose input -/
theorem sq_no_overflow (f : Fe) (hf : Loose f) :
    RA (sq_acc f) (mul_accI (toI f) (toI f)) B_sq ∧
    toI (fe25519_sq f) = carry_chainI (mul_accI (toI f) (toI f)) := by
  have h1 := sq_acc_ref hf
  have e := sq_accI_eq (toI f)
  exact ⟨e ▸ h1, e ▸ (carry_chain_ref (h1.mono (by decide))).eq.symm⟩

/-- **`fe25519_sq2`**: same precondition as `fe25519_sq` (the doubled accumulators stay below 2^62) -/
theorem sq2_spec (f : Fe) (hf : Loose f) :
    Carried (fe25519_sq2 f) ∧ fval (fe25519_sq2 f) = F25519.mul 2 (F25519.sqr (fval f)) := by
  obtain ⟨k1, k2⟩ := Fe25P.sq2_spec hf
  refine ⟨k1, ?_⟩
  rw [fval, k2, fmul_eq, fmul_eq]; rfl

/-! ### fe25519_mul32 -/

/-- **`fe25519_mul32`** for `n ≤ 2^19` (the library passes 121666 only): no overflow, tight result -/
theorem mul32_spec (f : Fe) (n : UInt32) (hf : Loose f) (hn : n.toNat ≤ 2 ^ 19) :
    Tight (fe25519_mul32 f n) ∧ fval (fe25519_mul32 f n) = F25519.mul (fval f) n.toNat := by
  obtain ⟨k1, k2⟩ := Fe25P.mul32_spec n hf hn
  refine ⟨m32out_tight k1, ?_⟩
  rw [fval, k2, fmul_eq, fval_nat, F25519.mul, F25519.mul, Nat.mul_mod_mod]; rfl

/-- … and NOT for every `uint32_t n` (unlike the radix-2^51 `fe25519_mul32`): the carry into limb 1 is about
    `f0·n / 2^26` and must fit `int32_t` after `h[1] = (int32_t) h1`; with `n = 2^32 - 1` and a loose `f0` it does not -/
theorem mul32_wrong_for_large_n :
    let f : Fe := ⟨110729625, 0, 0, 0, 0, 0, 0, 0, 0, 0⟩
    fval (fe25519_mul32 f 4294967295) ≠ F25519.mul (fval f) 4294967295 := by
  decide +kernel

/-! ### fe25519_frombytes -/

/-- **`fe25519_frombytes`** = the specification's `decodeUCoordinate`: bit 255 is ignored, for every byte string
    (bytes beyond the end read as 0); the result is carried (hence tight).  `val` itself may be negative
    (= the 255-bit value minus p) because the carries round to nearest. -/
theorem frombytes_spec (s : Bytes) :
    Tight (fe25519_frombytes s) ∧ fval (fe25519_frombytes s) = X25519.decodeU s ∧
    fval (fe25519_frombytes s) = F25519.fromBytesMasked s := by
  obtain ⟨k1, k2⟩ := Fe25P.frombytes_spec s
  have e : fval (fe25519_frombytes s) = le (s.take 32) % 2 ^ 255 % F25519.p := by rw [fval, k2, fval_nat]
  exact ⟨fbout_tight k1, by rw [e, X25519.decodeU], by rw [e, F25519.fromBytesMasked]⟩

/-! ### fe25519_reduce, fe25519_tobytes -/

/-- the FIRST quotient estimate of `fe25519_reduce`, `q = (19 * h9 + ((uint32_t) 1L << 24)) >> 25`, is computed in
    `uint32_t` with a LOGICAL shift (the cast binds tighter than `<<`): it is ⌊(19·h9 + 2^24) / 2^25⌋ when
    `19·h9 + 2^24 ≥ 0` and 128 MORE than that when it is negative (original ref10: arithmetic shift) -/
theorem reduce_first_q (h9 : Int) (b1 : -55364812 ≤ h9) (b2 : h9 ≤ 55364812) :
    (0 ≤ 19 * h9 + 16777216 → q0I h9 = (19 * h9 + 16777216) / 33554432) ∧
    (19 * h9 + 16777216 < 0 → q0I h9 = (19 * h9 + 16777216) / 33554432 + 128) :=
  q0I_cases h9 b1 b2

/-- `fe25519_reduce` on a loose input: no `int32_t` overflow — every statement is the statement over `Int` -/
theorem reduce_no_overflow (f : Fe) (hf : Loose f) : toI (fe25519_reduce f) = reduceI (toI f) := reduce_toI hf

/-- **`fe25519_reduce`**: for a loose `f` with `-p ≤ val f`, or with `19·f9 + 2^24 ≥ 0`, the result is the canonical
    representative: fully carried non-negative limbs with value `val f mod p` -/
theorem reduce_spec (f : Fe) (hf : Loose f) (hyp : 0 ≤ 19 * f.l9.toInt + 16777216 ∨ -(2 ^ 255 - 19) ≤ val f) :
    Canon (toI (fe25519_reduce f)) ∧ val (fe25519_reduce f) = val f % (2 ^ 255 - 19) :=
  Fe25P.reduce_spec hf hyp

/-- **`fe25519_tobytes`**: under the same hypothesis, the canonical 32-byte encoding of `val f mod p` -/
theorem tobytes_spec (f : Fe) (hf : Loose f) (hyp : 0 ≤ 19 * f.l9.toInt + 16777216 ∨ -(2 ^ 255 - 19) ≤ val f) :
    fe25519_tobytes f = F25519.toBytes (fval f) :=
  Fe25P.tobytes_spec hf hyp

/-- in particular for every tight `f` (every result of `mul`, `sq`, `sq2`, `mul32`, `invert`, `frombytes`) -/
theorem tobytes_tight (f : Fe) (hf : Tight f) : fe25519_tobytes f = F25519.toBytes (fval f) :=
  Fe25P.tobytes_tight hf

/-- **Deviation.**  `fe25519_tobytes` / `fe25519_reduce` document the precondition |h| ≤ 1.1·2^26, 1.1·2^25, …
    Inside it, `f = (18, 0, …, 0, -2^25)` represents -p - 1 ≡ p - 1, but the code returns the NON-CANONICAL encoding
    ff…ff7f of 2^255 - 1 ≡ 18: the spoilt first quotient makes `q` = -1 instead of -2.  (Not reachable from
    `fe25519_mul`-style outputs or from differences of two of them, whose limb 9 lies in [-2^24, 2^24).) -/
theorem reduce_wrong_in_documented_range :
    let f : Fe := ⟨18, 0, 0, 0, 0, 0, 0, 0, 0, -33554432⟩
    Bnd 73819750 36909875 f ∧ Loose f ∧ fval f = F25519.p - 1 ∧
    fe25519_tobytes f = toLE 32 (2 ^ 255 - 1) ∧ fe25519_tobytes f ≠ F25519.toBytes (fval f) := by
  refine ⟨?_, ?_, ?_, ?_, ?_⟩
  · refine ⟨?_, ?_, ?_, ?_, ?_, ?_, ?_, ?_, ?_, ?_⟩ <;> exact ⟨rfl, by decide, by decide⟩
  · refine ⟨?_, ?_, ?_, ?_, ?_, ?_, ?_, ?_, ?_, ?_⟩ <;> exact ⟨rfl, by decide, by decide⟩
  · decide +kernel
  · decide +kernel
  · decide +kernel

/-! ### fe25519_isnegative, fe25519_iszero -/

theorem isnegative_spec (f : Fe) (hf : Loose f) (hyp : 0 ≤ 19 * f.l9.toInt + 16777216 ∨ -(2 ^ 255 - 19) ≤ val f) :
    fe25519_isnegative f = if F25519.isNegative (fval f) then 1 else 0 := Fe25P.isnegative_spec hf hyp

theorem iszero_spec (f : Fe) (hf : Loose f) (hyp : 0 ≤ 19 * f.l9.toInt + 16777216 ∨ -(2 ^ 255 - 19) ≤ val f) :
    fe25519_iszero f = if F25519.isZero (fval f) then 1 else 0 := Fe25P.iszero_spec hf hyp

/-! ### fe25519_cswap, fe25519_cmov -/

/-- **`fe25519_cswap`** within its contract `b ∈ {0, 1}` -/
theorem cswap_spec (f g : Fe) : fe25519_cswap f g 0 = (f, g) ∧ fe25519_cswap f g 1 = (g, f) :=
  ⟨cswap0 f g, cswap1 f g⟩

/-- outside the contract the mask is not all-ones: `b = 2` leaves bit 0 unswapped -/
theorem cswap_out_of_contract : fe25519_cswap fe25519_1 fe25519_0 2 = (fe25519_1, fe25519_0) := by decide

/-- **`fe25519_cmov`** within its contract -/
theorem cmov_spec (f g : Fe) : fe25519_cmov f g 0 = f ∧ fe25519_cmov f g 1 = g := ⟨cmov0 f g, cmov1 f g⟩

/-! ### fe25519_invert, fe25519_pow22523 -/

/-- **`fe25519_invert`**: the addition chain (254 squarings, 11 multiplications) computes z^(2^255 - 21) = z^(p - 2),
    the specification's inverse (0 ↦ 0); every intermediate value is carried, so no overflow anywhere -/
theorem invert_spec (z : Fe) (hz : Loose z) :
    Carried (fe25519_invert z) ∧
    val (fe25519_invert z) % (2 ^ 255 - 19) = val z ^ (2 ^ 255 - 21) % (2 ^ 255 - 19) ∧
    fval (fe25519_invert z) = F25519.inv (fval z) :=
  ⟨(invert_pow hz).2, (invert_pow hz).1.2, (Fe25P.invert_spec hz).2⟩

/-- **`fe25519_pow22523`**: z^((p - 5) / 8) = z^(2^252 - 3) -/
theorem pow22523_spec (z : Fe) (hz : Loose z) :
    Carried (fe25519_pow22523 z) ∧ fval (fe25519_pow22523 z) = F25519.pow (fval z) (2 ^ 252 - 3) := by
  obtain ⟨h1, h2⟩ := pow22523_pow hz
  refine ⟨h2, ?_⟩
  rw [fval, h1.2, fpow_eq, Fe51P.pow_eq]; rfl

/-! ### refinement and the ladder -/

/-- **The radix-2^25.5 limb arithmetic refines the specification field** with tight/loose representatives
    (`RT f x` = `Tight f ∧ fval f = x`, `RL` likewise with `Loose`).  The relation is `RefinesTT`, not
    `Fe51P.RefinesTL`: the signed `fe25519_sub` does not carry its second operand, so it needs it tight. -/
theorem fe25_refines : RefinesTT fe25Field RT RL := fe25_refinesTT

/-- `RefinesTL` cannot hold for these relations: tight − loose is not loose (|f0 − g0| can reach 1.1·2^25 + 1.65·2^26) -/
theorem sub_tight_loose_not_loose :
    let f : Fe := ⟨36909875, 0, 0, 0, 0, 0, 0, 0, 0, 0⟩
    let g : Fe := ⟨-110729625, 0, 0, 0, 0, 0, 0, 0, 0, 0⟩
    (fe25519_sub f g).l0.toInt = 147639500 ∧ ¬ Loose (fe25519_sub f g) := by
  refine ⟨by decide +kernel, fun h => ?_⟩
  have := h.l0.2.2
  revert this
  decide +kernel

/-- every `RefinesTL` instance (in particular the radix-2^51 arithmetic) is a `RefinesTT` instance -/
theorem refinesTL_is_TT {F : Type} (ops : FieldOps F) (T L : F → Nat → Prop) (h : Fe51P.RefinesTL ops T L) :
    RefinesTT ops T L := RefinesTL.toTT h

/-- the ladder over ANY `fe25519_*` implementation that refines the specification field in the `RefinesTT` sense
    returns the RFC 7748 result on clamped scalars (generalises `C05Fe51.ladder_any_field_TL`) -/
theorem ladder_any_field_TT {F : Type} (ops : FieldOps F) (T L : F → Nat → Prop) (h : RefinesTT ops T L)
    (n p : Bytes) (hn : 32 ≤ n.length) : ladder ops (clamp n) p = X25519.x25519 n p := by
  rw [ladder_refinesTT ops T L h]; exact (C05Ladder.ref10_ladder_clamp n p hn).1

/-- the limb-level ladder and the specification-field ladder return the same bytes on every input -/
theorem x25519_fe25_eq_ref10 (t p : Bytes) : x25519_fe25 t p = x25519_ref10 t p :=
  ladder_refinesTT fe25Field RT RL fe25_refinesTT t p

/-- **The X25519 ladder over the 25.5-bit signed-limb arithmetic returns the RFC 7748 result** on every already
    clamped 32-byte scalar copy `t` and every point encoding `p`. -/
theorem x25519_fe25_eq_rfc7748 (t p : Bytes) (hl : t.length = 32) (hc : clamp t = t) :
    x25519_fe25 t p = X25519.x25519 t p := by
  rw [x25519_fe25_eq_ref10]; exact C05Ladder.ref10_ladder_eq_rfc7748 t p hl hc

/-- composed with the C clamping: for every scalar `n` of at least 32 bytes and every `p` -/
theorem x25519_fe25_clamp (n p : Bytes) (hn : 32 ≤ n.length) :
    x25519_fe25 (clamp n) p = X25519.x25519 n p ∧
    x25519_fe25 (clamp n) p = X25519.x25519 (clamp n) p := by
  rw [x25519_fe25_eq_ref10]; exact C05Ladder.ref10_ladder_clamp n p hn

/-- general form (every `t`, clamped or not, any lengths): the RFC 7748 ladder on the low 255 bits -/
theorem x25519_fe25_general (t p : Bytes) :
    x25519_fe25 t p = X25519.encodeU (X25519.ladder (le t % 2 ^ 255) (X25519.decodeU p)) := by
  rw [x25519_fe25_eq_ref10]; exact (C05Ladder.ref10_ladder_general t p).2

/-- the two limb-level models (HAVE_TI_MODE and not) agree on every input: what the driver cross-checks -/
theorem x25519_fe25_eq_fe51 (t p : Bytes) : x25519_fe25 t p = Fe51.x25519_fe51 t p := by
  rw [x25519_fe25_eq_ref10, C05Fe51.x25519_fe51_eq_ref10]

/-- **`crypto_scalarmult_curve25519` over ref10 with the 25.5-bit limb-level ladder returns the specification's
    result on every input** (same statement as `C05Ladder.ref10_eq_spec_ladder`) -/
theorem fe25_eq_spec_ladder (n p : Bytes) (hn : 32 ≤ n.length) (hp : p.length = 32) :
    crypto_scalarmult_curve25519 (mult_ref10 x25519_fe25) n p =
      match X25519.scalarmult n p with
      | none => (-1, if clearTop p ∈ blocklist then none else some (zeros 32))
      | some q => (0, some q) := by
  have h : mult_ref10 x25519_fe25 n p = mult_ref10 x25519_ref10 n p := by
    simp only [mult_ref10, x25519_fe25_eq_ref10]
  have e : crypto_scalarmult_curve25519 (mult_ref10 x25519_fe25) n p =
      crypto_scalarmult_curve25519 (mult_ref10 x25519_ref10) n p := by
    simp only [crypto_scalarmult_curve25519, h]
  rw [e, C05Ladder.ref10_eq_spec_ladder n p hn hp]
  cases X25519.scalarmult n p <;> rfl

/-! ### non-vacuity -/

/-- the hypotheses are satisfiable: 1 is tight, 1 + 1 is loose, 1 - 1 is loose -/
example : Tight fe25519_1 ∧ Loose (fe25519_add fe25519_1 fe25519_1) ∧ Loose (fe25519_sub fe25519_1 fe25519_1) :=
  ⟨one_tight, (add_sub_tight _ _ one_tight one_tight).1, (add_sub_tight _ _ one_tight one_tight).2⟩

/-- a loose element with a negative value satisfying the hypothesis of `reduce_spec` / `tobytes_spec` -/
example : Loose (fe25519_neg fe25519_1) ∧ -(2 ^ 255 - 19) ≤ val (fe25519_neg fe25519_1) := by
  refine ⟨((Fe25P.neg_spec one_tight (by decide) (by decide)).1).mono (by decide) (by decide), ?_⟩
  decide +kernel

set_option maxRecDepth 100000 in
/-- kernel evaluation of the limb code itself: decode the u-coordinate of RFC 7748 §5.2 vector 1, invert it with the
    addition chain, multiply back, encode: 1 -/
example :
    let z := fe25519_frombytes (toLE 32 0x4c1cabd0a603a9103b35b326ec2466727c5fb124a4c19435db3030586768dbe6)
    fe25519_tobytes (fe25519_mul z (fe25519_invert z)) = toLE 32 1 := by
  decide +kernel

end Sodium.C10Fe25
