import SodiumModel.Properties.C13Aead2
import SodiumModel.Proofs.OverlapAead3Spec
/-
  C13 — AES-256-GCM, the whole detached functions at memory level over the SPECIFICATION primitives
  (`specPrims`: FIPS-197 AES-256, SP 800-38D GCTR / GHASH): with identical (or output-before-input, or disjoint)
  buffers the bytes stored, the tag and the verdict ARE SP 800-38D GCM-AE / GCM-AD, for every 32-byte key, nonce, AD
  and message within the limits.
-/
open Sodium Sodium.Model Sodium.Model.Aead Sodium.Model.Overlap Sodium.Model.OverlapAead Sodium.Spec
open Sodium.OverlapP Sodium.OverlapAeadP Sodium.C13
namespace Sodium.C13Aead3

/-- the specification primitives have the required output sizes -/
theorem specPrims_ok : GcmLens specPrims := specPrims_lens

/-- GCTR(ICB, X) = X ⊕ GCTR(ICB, 0^|X|): "CTR encryption is XOR with the keystream" -/
theorem gctr_is_xor_keystream (key icb x : Bytes) (hk : key.length = 32) (hi : icb.length = 16) :
    Gcm.gctr (Aes.cipher (Aes.keyExpansion256 key)) icb x =
      xorBytes x (Gcm.gctr (Aes.cipher (Aes.keyExpansion256 key)) icb (zeros x.length)) :=
  gctr_xor _ (ciph16 key hk) icb x hi

/-- the value-level reference of `Model/OverlapAead2.lean` over the specification primitives is GCM-AE -/
theorem gcmEncV_is_gcm (key nonce ad m : Bytes) (hk : key.length = 32) (hn : nonce.length = 12) :
    gcmEncV specPrims key nonce ad m = Gcm.encrypt key nonce ad m := gcmEncV_spec key nonce ad m hk hn

/-- ENCRYPT (output at or before the input — in place: `c = m` —, or disjoint; tag buffer disjoint from both):
    returns 0, `c` holds the SP 800-38D ciphertext and `mac` the SP 800-38D tag of the message found on entry -/
theorem gcm_encrypt_detached_is_sp800_38d (key : Bytes) (hk : key.length = 32) (mem : Mem)
    (c mac m mlen ad adlen npub : Nat)
    (hlim : limitsOk adlen mlen = true) (hcm : c ≤ m ∨ m + mlen ≤ c)
    (hmc : mac + 16 ≤ c ∨ c + mlen ≤ mac) (hmm : mac + 16 ≤ m ∨ m + mlen ≤ mac) :
    (gcmEncryptDetachedMem specPrims key mem c mac m mlen ad adlen npub).1 = 0 ∧
    read (gcmEncryptDetachedMem specPrims key mem c mac m mlen ad adlen npub).2 c mlen =
      (Gcm.encrypt key (read mem npub 12) (read mem ad adlen) (read mem m mlen)).1 ∧
    read (gcmEncryptDetachedMem specPrims key mem c mac m mlen ad adlen npub).2 mac 16 =
      (Gcm.encrypt key (read mem npub 12) (read mem ad adlen) (read mem m mlen)).2 ∧
    ∀ a, outside a c mlen → outside a mac 16 →
      (gcmEncryptDetachedMem specPrims key mem c mac m mlen ad adlen npub).2 a = mem a := by
  have e := gcmEncV_spec key (read mem npub 12) (read mem ad adlen) (read mem m mlen) hk (length_read _ _ _)
  have h := Sodium.C13Aead2.gcm_encrypt_detached_mem specPrims specPrims_lens key mem c mac m mlen ad adlen npub hlim hcm hmc hmm
  simp only [e] at h
  exact h

/-- DECRYPT, the two ingredients that turn `C13Aead2.gcm_decrypt_detached_mem` (over `specPrims`) into GCM-AD:
    the recomputed tag is the specification's T′ … -/
theorem gcmTagV_is_gcm_tag (key nonce ad c : Bytes) (hk : key.length = 32) (hn : nonce.length = 12) :
    gcmTagV specPrims key nonce ad c =
      Gcm.gctr (Aes.cipher (Aes.keyExpansion256 key)) (nonce ++ [0, 0, 0, 1])
        (Gcm.authBlock (Aes.cipher (Aes.keyExpansion256 key) (zeros 16)) ad c) := gcmTagV_spec key nonce ad c hk hn

/-- … and the bytes stored on success are the specification's plaintext GCTR(inc32(J0), C) -/
theorem gcm_plaintext_is_gctr (key nonce c : Bytes) (hk : key.length = 32) (hn : nonce.length = 12) :
    xorBytes c (specPrims.ks key nonce c.length) =
      Gcm.gctr (Aes.cipher (Aes.keyExpansion256 key)) (Gcm.inc32 (nonce ++ [0, 0, 0, 1])) c := by
  rw [spec_ks key nonce c.length hk hn, ← gctr_xor _ (ciph16 key hk) _ c (inc32_length _ (j0_len _ hn))]

end Sodium.C13Aead3
