import SodiumModel.Model.SalsaSimd
import SodiumModel.Proofs.SalsaSimdStream
import SodiumModel.Proofs.SalsaSimdInplace
import SodiumModel.Properties.C03
import SodiumModel.Properties.C03Cores
import SodiumModel.Properties.C03Simd
/-
  C03 / C10 (Salsa20 SIMD) — the VECTORISED Salsa20 of libsodium (crypto_stream/salsa20/xmm6int: the AVX2 file
  `salsa20_xmm6int-avx2.c` = u8.h → u4.h → u1.h → u0.h, which is the implementation this host selects, and the SSE2
  file `salsa20_xmm6int-sse2.c` = u4.h → u1.h → u0.h), modelled statement by statement in `Model/SalsaSimd.lean`,
  produces exactly the bytes of the reference stream model (`Model/Stream.lean` `salsa_xor_ic` / `salsa_stream`
  instantiated with the reference core `crypto_core_salsa … 20` of `Model/CoresRef.lean`, which is what the
  correspondence driver answers Salsa20 operations with) and of the Salsa20 specification (`Spec/Salsa.lean`), for
  every key, nonce, 64-bit block counter and length.

  TRUSTED BASE. The intrinsic semantics of `Model/ChachaSimd.lean` Part 1 plus ONE new definition,
  `_mm_cvtsi128_si32` (`Model/SalsaSimd.lean` Part 1); all are validated against the real CPU by
  `simdcheck/chacha` (extended with `_mm_cvtsi128_si32` and the shift counts / shuffle immediates only this code
  uses). The `*(uint32_t *)` accesses of u1.h / u0.h are little-endian 4-byte loads / stores.

  LAYOUT. `salsa_keysetup` / `salsa_ivsetup` store standard Salsa20 word `i` at `ctx->input[TR[i]]`, `TR` an
  involution (`TR_involution`, `layout_roundtrip`, `setup_layout`): the four 128-bit rows of the context are the four
  DIAGONALS of the Salsa20 matrix, which is what lets u1.h / u0.h run a whole round on four registers. The 64-bit block
  counter is `input[8]` (low) / `input[13]` (high).

  NO DEVIATION of the output from the specification was found. Context state (not observable through the API, every
  caller wipes the context): after a request whose length is not a multiple of 64, u0.h leaves the context counter ON
  the partial block (`counter_after_simd`, `partial_block_leaves_counter`) — the same as `salsa20_ref.c`, whose `in[]`
  counter is not stepped after its final partial block either (unlike chacha20_ref.c). The 64-bit counter wraps to 0
  after 2^64 − 1 (in the vector lanes by `_mm_add_epi64`, in u1.h by `in8++; if (in8 == 0) in9++`), as the reference's
  byte-wise increment does (`counter_wraps`).
-/
open Sodium Sodium.Model Sodium.Model.CoresRef Sodium.Model.SalsaSimd Sodium.Spec Sodium.SalsaSimdP
open Sodium.Model.ChachaSimd hiding ROUNDS row_block u1_iter u1_loop u0 u4_doubleRound u4_counters u4_ONEQUAD u4_iter
  u4_loop u8_doubleRound u8_counters u8_ONEQUAD_UNPCK u8_ONEOCTO u8_iter u8_loop u1_iter_inplace u4_ONEQUAD_inplace
  u4_iter_inplace u8_iter_inplace Impl avx2
namespace Sodium.C03SalsaSimd

/-! #### (3) the diagonal layout of the context -/

/-- `TR` is an involution on 0..15: `TR[TR[i]] = i` -/
theorem TR_involution : ∀ i, i < 16 → tr (tr i) = i := by decide

/-- the sixteen words in STANDARD Salsa20 order as the context holds them (memory word `j` = standard word `TR[j]`),
    and back: the same permutation (`SalsaSimdP.tpose`) -/
def toDiagonal (w : W16) : W16 := tpose w

/-- memory word `TR[i]` of the diagonal layout is standard word `i` -/
theorem toDiagonal_input (w : W16) : ∀ i, i < 16 → getInput (toDiagonal w) (tr i) = getInput w i := by
  intro i hi
  have : i = 0 ∨ i = 1 ∨ i = 2 ∨ i = 3 ∨ i = 4 ∨ i = 5 ∨ i = 6 ∨ i = 7 ∨ i = 8 ∨ i = 9 ∨ i = 10 ∨ i = 11 ∨
      i = 12 ∨ i = 13 ∨ i = 14 ∨ i = 15 := by omega
  rcases this with h | h | h | h | h | h | h | h | h | h | h | h | h | h | h | h <;> subst h <;> rfl

/-- the layout round-trips -/
theorem layout_roundtrip (w : W16) : toDiagonal (toDiagonal w) = w := rfl

/-- the rows of the context are the diagonals of the Salsa20 matrix: `x + 0` holds standard words 0, 5, 10, 15 (the
    main diagonal), `x + 4` holds 12, 1, 6, 11, `x + 8` holds 8, 13, 2, 7, `x + 12` holds 4, 9, 14, 3 -/
theorem rows_are_diagonals (w : W16) :
    let x := toDiagonal w
    (mm_loadu_si128 (words_mem x.x0 x.x1 x.x2 x.x3) = ⟨w.x0, w.x5, w.x10, w.x15⟩) ∧
    (mm_loadu_si128 (words_mem x.x4 x.x5 x.x6 x.x7) = ⟨w.x12, w.x1, w.x6, w.x11⟩) ∧
    (mm_loadu_si128 (words_mem x.x8 x.x9 x.x10 x.x11) = ⟨w.x8, w.x13, w.x2, w.x7⟩) ∧
    (mm_loadu_si128 (words_mem x.x12 x.x13 x.x14 x.x15) = ⟨w.x4, w.x9, w.x14, w.x3⟩) := by
  simp only [ChachaSimdP.loadu_words, toDiagonal, tpose, and_self]

/-- `salsa_keysetup` then `salsa_ivsetup` write all sixteen words (the previous contents of the context are
    irrelevant), and what they write is the initial state of `crypto_core_salsa(out, in = nonce ‖ counter, k, NULL)`
    in the diagonal layout -/
theorem setup_layout (ctx : W16) (k n ctr : Bytes) (hn : 8 ≤ n.length) :
    salsa_ivsetup (salsa_keysetup ctx k) n (some ctr) = toDiagonal (salsaInit (n.take 8 ++ ctr) k none) := by
  have e12 : (n.take 8 ++ ctr).drop 12 = ctr.drop 4 := by
    rw [show 12 = 8 + 4 from rfl, ← List.drop_drop, drop8_head _ _ hn]
  simp only [setup_eq, salsaInit, load32_le_head _ _ hn, load32_le_head4 _ _ hn, drop8_head _ _ hn, e12, toDiagonal, tpose,
    List.drop_zero]

/-- with `counter == NULL` the counter words are 0 -/
theorem setup_layout_null (ctx : W16) (k n : Bytes) (hn : 8 ≤ n.length) :
    salsa_ivsetup (salsa_keysetup ctx k) n none = toDiagonal (salsaInit (n.take 8 ++ zeros 8) k none) := by
  have e12 : (n.take 8 ++ zeros 8).drop 12 = (zeros 8).drop 4 := by
    rw [show 12 = 8 + 4 from rfl, ← List.drop_drop, drop8_head _ _ hn]
  have z1 : load32_le (zeros 8) = 0 := by decide
  have z2 : load32_le ((zeros 8).drop 4) = 0 := by decide
  simp only [setup_eq, salsaInit, load32_le_head _ _ hn, load32_le_head4 _ _ hn, drop8_head _ _ hn, e12, toDiagonal, tpose,
    List.drop_zero, z1, z2]

/-! #### (1a) the rounds -/

/-- `z ^= t << k; z ^= t >> (32 - k)` (two XORs, no OR) is `z ^= rotl32(t, k)` on every lane, for the four amounts -/
theorem xor_shifts_are_rotl (z t : V128) :
    mm_xor_si128 (mm_xor_si128 z (mm_slli_epi32 t 7)) (mm_srli_epi32 t 25) =
      V128.zip32 (fun a b => a ^^^ ROTL32 b 7) z t ∧
    mm_xor_si128 (mm_xor_si128 z (mm_slli_epi32 t 9)) (mm_srli_epi32 t 23) =
      V128.zip32 (fun a b => a ^^^ ROTL32 b 9) z t ∧
    mm_xor_si128 (mm_xor_si128 z (mm_slli_epi32 t 13)) (mm_srli_epi32 t 19) =
      V128.zip32 (fun a b => a ^^^ ROTL32 b 13) z t ∧
    mm_xor_si128 (mm_xor_si128 z (mm_slli_epi32 t 18)) (mm_srli_epi32 t 14) =
      V128.zip32 (fun a b => a ^^^ ROTL32 b 18) z t :=
  ⟨vrx7 z t, vrx9 z t, vrx13 z t, vrx18 z t⟩

/-- one loop body of u4.h (224 statements) = one reference double round (`core_salsa_ref.c` loop body) on each lane -/
theorem u4_doubleRound_lanes (X : X16 V128) (i : Nat) :
    ChachaSimdP.laneW16 (fun v => v.lane i) (SalsaSimd.u4_doubleRound X) = salsaDoubleRound (ChachaSimdP.laneW16 (fun v => v.lane i) X) :=
  u4_doubleRound_lane _ (C03Simd.isLane_lane i) X

/-- one loop body of u8.h = one reference double round on each of the eight lanes -/
theorem u8_doubleRound_lanes (X : X16 M256) (i : Nat) :
    ChachaSimdP.laneW16 (fun v => v.lane i) (SalsaSimd.u8_doubleRound X) = salsaDoubleRound (ChachaSimdP.laneW16 (fun v => v.lane i) X) :=
  u8_doubleRound_lane _ (C03Simd.isLane256_lane i) X

/-- one loop body of u1.h / u0.h (124 statements on the four diagonals, `_mm_shuffle_epi32` 0x93 / 0x4e / 0x39 between
    the quarter-round steps) = TWO reference double rounds (the loop counts `i += 4`) -/
theorem row_body_eq (w : W16) : row_body (diagOf w) = diagOf (salsaDoubleRound (salsaDoubleRound w)) :=
  row_body_spec w

/-! #### (1b) the four strides, one loop iteration each -/

/-- the sixteen words `x_i + j_i` that `crypto_core_salsa` (20 rounds) computes from the initial words held by the
    context `x` (memory order; `tpose x` is those words in standard order) -/
def refWords (x : W16) : W16 :=
  W16.zipWith (· + ·) (CoresRef.forUpBy2 salsaDoubleRound 20 0 (tpose x)) (tpose x)

/-- … and its 64 output bytes; `refCore_eq_core` identifies it with `crypto_core_salsa20` -/
def refCore (x : W16) : Bytes := W16.store (refWords x)

/-- the 64-bit counter of a context -/
def counter (x : W16) : Nat := x.x8.toNat + 2 ^ 32 * x.x13.toNat

/-- `n` consecutive passes of the reference loop body (`salsa20_ref.c`: `crypto_core_salsa20(block, in, kcopy, NULL);
    c[i] = m[i] ^ block[i]` for 64 bytes, then the counter in `in[8..15]` plus one), on `m`, `m + 64`, … -/
def refBlocks : Nat → W16 → Bytes → Bytes × W16
  | 0, x, _ => ([], x)
  | n + 1, x, m =>
    let s := refBlocks n (ctrStep x) (m.drop 64)
    (xorBytes (m.take 64) (refCore x) ++ s.1, s.2)

theorem refWords_eq (x : W16) : refWords x = ksWords (tpose x) := by
  rw [refWords, CoresRefP.forUpBy2_eq _ _ _ _ _ rfl]; rfl

theorem refCore_eq (x : W16) : refCore x = ksBytes x := by
  rw [refCore, refWords_eq]; rfl

/-- for a context made by the setup calls (any counter value put in words 8 / 13 afterwards): `refCore` is
    `crypto_core_salsa20(nonce ‖ le64(counter), key, NULL)` -/
theorem refCore_eq_core (k n : Bytes) (cnt : Option Bytes) (q : UInt64) (hn : 8 ≤ n.length) :
    refCore (withCtr (salsa_ivsetup (salsa_keysetup W16.zero k) n cnt) q) =
      crypto_core_salsa20 (n.take 8 ++ toLE 8 q.toNat) k none := by
  rw [refCore_eq, core_eq_ksBytes k n cnt q hn]; rfl

theorem refBlocks_eq (n : Nat) (x : W16) (m : Bytes) (h : 64 * n ≤ m.length) : refBlocks n x m = blocksN n x m := by
  induction n generalizing x m with
  | zero => rfl
  | succ n ih =>
    simp only [refBlocks, blocksN, ih _ _ (show 64 * n ≤ (m.drop 64).length by rw [List.length_drop]; omega),
      refCore_eq, blk_eq_xor x m (by omega)]

theorem counter_withCtr (x : W16) (n : UInt64) : counter (withCtr x n) = n.toNat := by
  have := n.toNat_lt
  have e : (32 : UInt64).toNat % 64 = 32 := by decide
  simp only [counter, withCtr, UInt64.toNat_toUInt32, UInt64.toNat_shiftRight, e, Nat.shiftRight_eq_div_pow]
  omega

theorem counter_qOf (x : W16) : (qOf x).toNat = counter x := ChachaSimdP.q_toNat x.x8 x.x13

/-- after `n` blocks the counter is `counter + n` mod 2^64 (carry from word 8 into word 13 included) and no other
    word has changed -/
theorem refBlocks_counter (n : Nat) (x : W16) (m : Bytes) (h : 64 * n ≤ m.length) :
    counter (refBlocks n x m).2 = (counter x + n) % 2 ^ 64 ∧
      (refBlocks n x m).2 = { x with x8 := (refBlocks n x m).2.x8, x13 := (refBlocks n x m).2.x13 } := by
  rw [refBlocks_eq n x m h, blocksN_snd, counter_withCtr, UInt64.toNat_add, counter_qOf, UInt64.toNat_ofNat']
  exact ⟨by omega, rfl⟩

theorem refBlocks_length (n : Nat) (x : W16) (m : Bytes) (h : 64 * n ≤ m.length) : (refBlocks n x m).1.length = 64 * n := by
  rw [refBlocks_eq n x m h]; exact blocksN_length n x m

/-- u1.h, one pass of `while (bytes >= 64)`: the 64 bytes at `c` become `m[0..64]` XOR the reference core output of the
    context (the sixteen scattered 4-byte stores 0, 12, 8, 4, 5, 1, 13, 9, … put every word at its place), nothing
    else in the buffer changes, and the counter is stepped with the carry into `x[13]` -/
theorem u1_block (x : W16) (m c : Bytes) (hm : 64 ≤ m.length) (hc : 64 ≤ c.length) :
    SalsaSimd.u1_iter x m c = ((refBlocks 1 x m).1 ++ c.drop 64, (refBlocks 1 x m).2) := by
  rw [refBlocks_eq 1 x m (by omega), blocksN_one]; exact u1_iter_spec x m c hc

/-- the same with no hypothesis on `m` (words of a message shorter than 64 bytes read past its end as 0): the words
    of the core output XOR the message words -/
theorem u1_block_any (x : W16) (m c : Bytes) (hc : 64 ≤ c.length) :
    SalsaSimd.u1_iter x m c = (W16.store (W16.zipWith XOR (refWords x) (W16.load m)) ++ c.drop 64, ctrStep x) := by
  rw [u1_iter_spec x m c hc, refWords_eq]; rfl

/-- the counter lanes of u4.h, for EVERY 64-bit counter value: lane `k` of `z8` / `z9` holds the low / high word of
    `counter + k` mod 2^64 — the carry out of the low word is the 64-bit `_mm_add_epi64` -/
theorem u4_counter_lanes (in8 in9 : UInt32) (k : Nat) (hk : k < 4) :
    ((SalsaSimd.u4_counters in8 in9).1.lane k).toNat + 2 ^ 32 * ((SalsaSimd.u4_counters in8 in9).2.1.lane k).toNat =
      (in8.toNat + 2 ^ 32 * in9.toNat + k) % 2 ^ 64 := by
  rw [u4_counters_eq]; exact C03Simd.u4_counter_lanes in8 in9 k hk

/-- the same for the eight lanes of u8.h (after `_mm256_permutevar8x32_epi32`) -/
theorem u8_counter_lanes (in8 in9 : UInt32) (k : Nat) (hk : k < 8) :
    ((SalsaSimd.u8_counters in8 in9).1.lane k).toNat + 2 ^ 32 * ((SalsaSimd.u8_counters in8 in9).2.1.lane k).toNat =
      (in8.toNat + 2 ^ 32 * in9.toNat + k) % 2 ^ 64 := by
  rw [u8_counters_eq]; exact C03Simd.u8_counter_lanes in8 in9 k hk

/-- hoisting: the fourteen registers u4.h / u8.h compute once before their `while` do not depend on the counter words
    `x[8]`, `x[13]` that the loop updates -/
theorem origs_ignore_counter (x : W16) (a b : UInt32) :
    u4_origs { x with x8 := a, x13 := b } = u4_origs x ∧ u8_origs { x with x8 := a, x13 := b } = u8_origs x := by
  constructor
  · simp only [u4_origs_spec]
  · rfl

/-- u4.h, one pass of `while (bytes >= 256)`: the 256 bytes at `c` are four consecutive reference blocks (block `k` at
    offset `64·k`), for every context — in particular when the low counter word wraps inside the batch; nothing else in
    the buffer changes; the context afterwards is the reference context after four blocks -/
theorem u4_blocks (x : W16) (m c : Bytes) (hm : 256 ≤ m.length) (hc : 256 ≤ c.length) :
    SalsaSimd.u4_iter x m c = ((refBlocks 4 x m).1 ++ c.drop 256, (refBlocks 4 x m).2) := by
  rw [refBlocks_eq 4 x m (by omega)]; exact u4_iter_spec x m c hc

/-- u8.h, one pass of `while (bytes >= 512)`: eight consecutive reference blocks -/
theorem u8_blocks (x : W16) (m c : Bytes) (hm : 512 ≤ m.length) (hc : 512 ≤ c.length) :
    SalsaSimd.u8_iter x m c = ((refBlocks 8 x m).1 ++ c.drop 512, (refBlocks 8 x m).2) := by
  rw [refBlocks_eq 8 x m (by omega)]; exact u8_iter_spec x m c hc

/-- u0.h: the `bytes` (≤ 64) remaining bytes are `m XOR` the head of the reference core output of the context -/
theorem u0_tail (x : W16) (m c : Bytes) (hm : m.length ≤ 64) (hc : m.length ≤ c.length) :
    (SalsaSimd.u0 x m c).take m.length = xorBytes m (refCore x) := by
  rw [u0_spec x m c hm hc, refCore_eq]; rfl

/-! #### (2) end to end -/

/-- the keystream block number `i` (counter `i` mod 2^64) under the key and nonce words of context `x` -/
def ctxBlock (x : W16) (i : Nat) : Bytes := refCore (withCtr x (UInt64.ofNat i))

theorem ctxBlock_eq (x : W16) : ctxBlock x = ksAt x := by
  funext i; exact refCore_eq _

/-- AVX2 composition (u8* → u4* → u1* → u0) and SSE2 composition (u4* → u1* → u0): for every context (any sixteen
    words: key, nonce, 64-bit counter, even non-standard constants), every message and every output buffer of at least
    that length, the bytes are the message XOR the keystream blocks of counters `counter`, `counter + 1`, … (mod 2^64)
    — i.e. `Spec.Chacha.streamFrom` of the per-counter reference core outputs, from byte offset 64·counter -/
theorem encrypt_bytes_eq_keystream (ctx : W16) (m c : Bytes) (hc : m.length ≤ c.length) :
    (salsa20_encrypt_bytes_avx2 ctx m c).1 =
        xorBytes m (Chacha.streamFrom (ctxBlock ctx) (64 * counter ctx) m.length) ∧
    (salsa20_encrypt_bytes_sse2 ctx m c).1 =
        xorBytes m (Chacha.streamFrom (ctxBlock ctx) (64 * counter ctx) m.length) := by
  have h := simdSpec_fst ctx (qOf ctx) m
  rw [withCtr_qOf, counter_qOf] at h
  rw [encrypt_bytes_avx2_eq ctx m c hc, encrypt_bytes_sse2_eq ctx m c hc, h, streamFrom_aligned,
    xorBytes_take_right _ _ _ (Nat.le_refl _), ctxBlock_eq]
  exact ⟨rfl, rfl⟩

/-- the two compositions agree with each other, context included (and the old contents of `c` are irrelevant) -/
theorem avx2_eq_sse2 (ctx : W16) (m c c' : Bytes) (hc : m.length ≤ c.length) (hc' : m.length ≤ c'.length) :
    salsa20_encrypt_bytes_avx2 ctx m c = salsa20_encrypt_bytes_sse2 ctx m c' := by
  rw [encrypt_bytes_avx2_eq ctx m c hc, encrypt_bytes_sse2_eq ctx m c' hc']

/-- (4) the context after the call: only the counter words change, and the 64-bit counter has advanced by the number
    of FULL blocks, ⌊len/64⌋ (mod 2^64): a final partial block is produced (u0.h) WITHOUT stepping the counter -/
theorem counter_after_simd (ctx : W16) (m c : Bytes) (hc : m.length ≤ c.length) :
    counter (salsa20_encrypt_bytes_avx2 ctx m c).2 = (counter ctx + m.length / 64) % 2 ^ 64 ∧
    (salsa20_encrypt_bytes_avx2 ctx m c).2 =
      { ctx with x8 := (salsa20_encrypt_bytes_avx2 ctx m c).2.x8,
                 x13 := (salsa20_encrypt_bytes_avx2 ctx m c).2.x13 } := by
  rw [encrypt_bytes_avx2_eq ctx m c hc, simdSpec_snd, counter_withCtr, UInt64.toNat_add, counter_qOf,
    UInt64.toNat_ofNat']
  exact ⟨by omega, rfl⟩

/-- (4) concretely: after a 1-byte request the context is UNCHANGED (its counter still names the block whose first
    byte was just used), after a 64-byte request the counter is 1. Not observable: `stream_*` wipe the context. -/
theorem partial_block_leaves_counter :
    (salsa20_encrypt_bytes_sse2 W16.zero [0] [0]).2 = W16.zero ∧
    (salsa20_encrypt_bytes_avx2 W16.zero [0] [0]).2 = W16.zero ∧
    counter (salsa20_encrypt_bytes_sse2 W16.zero (zeros 64) (zeros 64)).2 = 1 := by
  decide +kernel

/-- (4) the counter wraps from 2^64 − 1 to 0 with no carry anywhere else (u1.h: `in8++; if (in8 == 0) in9++`) -/
theorem counter_wraps (x : W16) (h : counter x = 2 ^ 64 - 1) :
    counter (ctrStep x) = 0 ∧ ctrStep x = { x with x8 := 0, x13 := 0 } := by
  have h8 := x.x8.toNat_lt; have h13 := x.x13.toNat_lt
  have e8 : x.x8 = 0xffffffff := by apply UInt32.toNat_inj.mp; simp only [counter] at h; simp; omega
  have e13 : x.x13 = 0xffffffff := by apply UInt32.toNat_inj.mp; simp only [counter] at h; simp; omega
  have a1 : (0xffffffff : UInt32) + 1 = 0 := by decide
  simp only [ctrStep, e8, e13, counter, a1, if_true]
  exact ⟨by decide, trivial⟩

/-! #### the in-place callers (`m == c`) -/

/-- With `m == c` (`stream_sse2` / `stream_avx2`: `memset(c, 0, clen)` then `salsa20_encrypt_bytes(&ctx, c, c, clen)`),
    where every load reads the buffer as left by the stores before it in program order, each loop body computes the
    same buffer and context as the separate-buffer body applied to the old contents: u1.h (each `ONEQUAD` loads four
    words then stores the same four words, and the four `ONEQUAD`s touch disjoint words), u4.h (load / store
    interleaved inside `ONEQUAD_TRANSPOSE`; the four quads read slots the earlier quads did not write), u8.h (second
    `ONEOCTO` reads the 32-byte slots the first did not write), u0.h (byte `i` is read before it is written —
    `ChachaSimd.u0_xorloop`, the same loop). The loops only advance `m` and `c` together past the bytes written, and the
    bodies leave everything beyond them unchanged (`u1_block`, `u4_blocks`, `u8_blocks`: `++ c.drop n`), so the theorems
    of this file, stated for separate `m` and `c`, cover the in-place calls. -/
theorem inplace_bodies_eq (x : W16) (c : Bytes) :
    (64 ≤ c.length → SalsaSimd.u1_iter_inplace x c = SalsaSimd.u1_iter x c c) ∧
    (256 ≤ c.length → SalsaSimd.u4_iter_inplace x c = SalsaSimd.u4_iter x c c) ∧
    (512 ≤ c.length → SalsaSimd.u8_iter_inplace x c = SalsaSimd.u8_iter x c c) ∧
    (∀ bytes pb, u0_xorloop_inplace bytes pb 0 c = u0_xorloop bytes c pb 0 c) :=
  ⟨u1_iter_inplace_eq x c, u4_iter_inplace_eq x c, u8_iter_inplace_eq x c,
   fun bytes pb => ChachaSimdP.u0_xorloop_inplace_eq bytes pb c⟩

/-! #### the entry points of the two files against the reference model and the specification -/

/-- the reference block function of the stream driver (`Driver.C03.salsaS 20`): `crypto_core_salsa(nonce ‖ ctr, key,
    NULL, 20)` of the 8 counter bytes -/
def refS (k n : Bytes) : SalsaBlockFn := Driver.C03.salsaS 20 k n

theorem refS_length (k n : Bytes) (ctr : Bytes) : (refS k n ctr).length = 64 := rfl

theorem ctxBlock_setup (k n : Bytes) (cnt : Option Bytes) (hn : 8 ≤ n.length) (i : Nat) :
    ctxBlock (salsa_ivsetup (salsa_keysetup W16.zero k) n cnt) i = refS k n (toLE 8 (i % 2 ^ 64)) := by
  rw [ctxBlock, refCore_eq, core_eq_ksBytes k n cnt _ hn, UInt64.toNat_ofNat']
  rfl

/-- `stream_sse2_xor_ic` / `stream_avx2_xor_ic` = the reference model of `crypto_stream_salsa20_xor_ic`
    (`Model/Stream.lean` on the reference core), for every message, key, 8-byte nonce, 64-bit initial counter -/
theorem stream_xor_ic_eq_ref (c m n : Bytes) (ic : UInt64) (k : Bytes) (hc : m.length ≤ c.length) (hn : 8 ≤ n.length) :
    avx2.stream_xor_ic c m n ic k = salsa_xor_ic (refS k n) ic m ∧
    sse2.stream_xor_ic c m n ic k = salsa_xor_ic (refS k n) ic m := by
  rw [C03.salsa_xor_ic_eq (refS k n) (refS_length k n)]
  simp only [Impl.stream_xor_ic, avx2, sse2]
  by_cases h : m.length = 0
  · have : m = [] := List.eq_nil_of_length_eq_zero h
    subst this; simp [xorBytes_nil_left]
  · simp only [if_neg h, setup_counter]
    have hk := encrypt_bytes_eq_keystream (withCtr (salsa_ivsetup (salsa_keysetup W16.zero k) n none) ic) m c hc
    have hb : ctxBlock (withCtr (salsa_ivsetup (salsa_keysetup W16.zero k) n none) ic) =
        fun i => refS k n (toLE 8 (i % 2 ^ 64)) := by
      funext i
      rw [ctxBlock, withCtr_withCtr]
      exact ctxBlock_setup k n none hn i
    rw [hb, counter_withCtr] at hk
    exact hk

/-- `stream_sse2` / `stream_avx2` (`memset(c, 0, clen)`, encrypt in place from counter 0) = the reference model of
    `crypto_stream_salsa20` -/
theorem stream_eq_ref (clen : Nat) (n k : Bytes) (hn : 8 ≤ n.length) :
    avx2.stream clen n k = salsa_stream (refS k n) clen ∧ sse2.stream clen n k = salsa_stream (refS k n) clen := by
  have hl : (zeros clen).length = clen := CoresRefP.zeros_length clen
  have hz : salsa_stream (refS k n) clen = salsa_xor_ic (refS k n) 0 (zeros clen) := by
    rw [salsa_stream, salsa_xor_ic, hl]; rfl
  rw [hz, C03.salsa_xor_ic_eq (refS k n) (refS_length k n)]
  simp only [Impl.stream, avx2, sse2]
  by_cases h : clen = 0
  · subst h; simp [zeros, xorBytes_nil_left]
  · simp only [if_neg h]
    have hk := encrypt_bytes_eq_keystream (salsa_ivsetup (salsa_keysetup W16.zero k) n none) (zeros clen) (zeros clen)
      (Nat.le_refl _)
    have hb : ctxBlock (salsa_ivsetup (salsa_keysetup W16.zero k) n none) = fun i => refS k n (toLE 8 (i % 2 ^ 64)) := by
      funext i; exact ctxBlock_setup k n none hn i
    have hc0 : counter (salsa_ivsetup (salsa_keysetup W16.zero k) n none) = 0 := by
      rw [setup_counter_none, counter_withCtr]; rfl
    rw [hb, hc0] at hk
    exact hk

/-- the Salsa20 specification keystream: block `i` is `Spec.Salsa.block 20 key nonce (i mod 2^64)` -/
def specStream (key nonce8 : Bytes) (start len : Nat) : Bytes :=
  Chacha.streamFrom (fun i => Salsa.block 20 key nonce8 (i % 2 ^ 64)) start len

theorem refS_spec (k n : Bytes) : (fun i => refS k n (toLE 8 (i % 2 ^ 64))) = fun i => Salsa.block 20 k n (i % 2 ^ 64) := by
  funext i; exact C03Cores.crypto_core_salsa_block 20 rfl k n _

/-- `crypto_stream_salsa20_xor_ic` on the AVX2 and on the SSE2 backend: message XOR the SPECIFIED Salsa20/20 keystream
    from byte offset 64·ic — every key, 8-byte nonce, 64-bit counter (carry into the high word and wrap at 2^64
    included) and length -/
theorem stream_xor_ic_spec (c m n : Bytes) (ic : UInt64) (k : Bytes) (hc : m.length ≤ c.length) (hn : 8 ≤ n.length) :
    avx2.stream_xor_ic c m n ic k = xorBytes m (specStream k n (64 * ic.toNat) m.length) ∧
    sse2.stream_xor_ic c m n ic k = xorBytes m (specStream k n (64 * ic.toNat) m.length) := by
  have h := stream_xor_ic_eq_ref c m n ic k hc hn
  rw [C03.salsa_xor_ic_eq (refS k n) (refS_length k n), refS_spec] at h
  exact h

/-- `crypto_stream_salsa20`: the first `clen` bytes of the specified keystream -/
theorem stream_spec (clen : Nat) (n k : Bytes) (hn : 8 ≤ n.length) :
    avx2.stream clen n k = specStream k n 0 clen ∧ sse2.stream clen n k = specStream k n 0 clen := by
  have h := stream_eq_ref clen n k hn
  rw [C03.salsa_stream_eq (refS k n) (refS_length k n), refS_spec] at h
  exact h

/-- XSalsa20 goes through the same backend with the HSalsa20 subkey (`crypto_stream_xsalsa20_xor_ic` calls
    `crypto_stream_salsa20_xor_ic(c, m, mlen, n + 16, ic, subkey)`): the specified XSalsa20 keystream -/
theorem xsalsa20_xor_ic_spec (c m n24 : Bytes) (ic : UInt64) (k : Bytes) (hc : m.length ≤ c.length)
    (hn : 24 ≤ n24.length) :
    avx2.stream_xor_ic c m (n24.drop 16) ic (crypto_core_hsalsa20 (n24.take 16) k none) =
      xorBytes m (Chacha.streamFrom (fun i => Salsa.xsalsaBlock k n24 (i % 2 ^ 64)) (64 * ic.toNat) m.length) := by
  rw [(stream_xor_ic_spec c m (n24.drop 16) ic _ hc (by rw [List.length_drop]; omega)).1,
    C03Cores.crypto_core_hsalsa20_spec]
  rfl

/-! #### non-vacuity -/

/-- ECRYPT Salsa20/20 256-bit test vector, set 1 vector 0 (key = 80 00 … 00, IV = 0): first 16 keystream bytes,
    through the AVX2- and the SSE2-structured models -/
example : avx2.stream 16 (zeros 8) (0x80 :: zeros 31) =
    [0xe3, 0xbe, 0x8f, 0xdd, 0x8b, 0xec, 0xa2, 0xe3, 0xea, 0x8e, 0xf9, 0x47, 0x5b, 0x29, 0xa6, 0xe7] := by
  decide +kernel
example : sse2.stream 16 (zeros 8) (0x80 :: zeros 31) =
    [0xe3, 0xbe, 0x8f, 0xdd, 0x8b, 0xec, 0xa2, 0xe3, 0xea, 0x8e, 0xf9, 0x47, 0x5b, 0x29, 0xa6, 0xe7] := by
  decide +kernel

/-- a 70-byte request (u1.h then u0.h) from counter 2^32 − 1 (the low word wraps after the first block): the two
    SIMD-structured models = the reference model. (Requests through u4.h / u8.h are evaluated by the compiled driver on
    every Salsa20 correspondence line — `Driver/C03.lean` prints MODEL-DISAGREE otherwise.) -/
def exKey : Bytes := (List.range 32).map UInt8.ofNat
def exMsg : Bytes := (List.range 70).map UInt8.ofNat
example : avx2.stream_xor_ic (zeros 70) exMsg [1, 2, 3, 4, 5, 6, 7, 8] 0xffffffff exKey =
    salsa_xor_ic (refS exKey [1, 2, 3, 4, 5, 6, 7, 8]) 0xffffffff exMsg := by decide +kernel
example : sse2.stream_xor_ic exMsg exMsg [1, 2, 3, 4, 5, 6, 7, 8] 0xffffffff exKey =
    salsa_xor_ic (refS exKey [1, 2, 3, 4, 5, 6, 7, 8]) 0xffffffff exMsg := by decide +kernel

/-- hypotheses are satisfiable -/
example : (zeros 700).length ≤ (zeros 700).length ∧ 8 ≤ (zeros 8).length ∧ 24 ≤ (zeros 24).length ∧
    64 * 4 ≤ (zeros 256).length := by decide +kernel
example : counter { W16.zero with x8 := 0xffffffff, x13 := 0xffffffff } = 2 ^ 64 - 1 := by decide

end Sodium.C03SalsaSimd
