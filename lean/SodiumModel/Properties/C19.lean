import SodiumModel.Model.Init
import SodiumModel.Proofs.Init
/-
  C19 — initialisation is thread-safe: for every number of threads and EVERY interleaving
  (schedule), the body runs at most once, exactly one call returns 0 and all others 1, and no call
  returns before the initialisation is complete.
  (Data-race freedom of the operations after initialisation is not a theorem about this model: it
  rests on the table of mutable globals and the ThreadSanitizer run, see DESIGN §3.19.)
-/
open Sodium Sodium.Model.Init
namespace Sodium.C19

/-- safety in every reachable state: the body starts at most once, at most one thread holds the lock
    section, and a thread that has returned implies the library is fully initialised (the body's
    writes are complete and published under the mutex) -/
theorem init_safety (n : Nat) (sched : List Nat) :
    let s := run (init n) sched
    s.bodyRuns ≤ 1 ∧ s.bodyWrites ≤ s.bodyRuns ∧
    ((rets s).filter (· == 0)).length ≤ 1 ∧
    (∀ r ∈ rets s, r = 0 ∨ r = 1) ∧
    ((rets s) ≠ [] → s.initialized = true ∧ s.bodyWrites = 1) :=
  InitP.inv_safety (InitP.inv_reach n sched)

/-- once every thread has returned: the body ran exactly once, exactly one call returned 0 and the
    other n − 1 returned 1 -/
theorem init_once (n : Nat) (hn : 0 < n) (sched : List Nat) (hd : allDone (run (init n) sched) = true) :
    let s := run (init n) sched
    s.bodyRuns = 1 ∧ ((rets s).filter (· == 0)).length = 1 ∧ ((rets s).filter (· == 1)).length = n - 1 ∧
    (rets s).length = n :=
  InitP.inv_once (InitP.inv_reach n sched) hn hd

/-- progress: the round-robin schedule repeated 4n+4 times completes every thread (so `allDone`
    is reachable for every n and the hypothesis of `init_once` is satisfiable) -/
theorem init_completes (n : Nat) :
    allDone (run (init n) ((List.replicate (4 * n + 4) (List.range n)).flatten)) = true :=
  InitP.round_robin_completes n

/-- no deadlock: in any reachable state that is not final some thread can move -/
theorem no_deadlock (n : Nat) (sched : List Nat) (h : allDone (run (init n) sched) = false) :
    ∃ t, t < n ∧ step (run (init n) sched) t ≠ run (init n) sched :=
  InitP.inv_no_deadlock (InitP.inv_reach n sched) h

/-! non-vacuity: concrete schedules (three threads, including contention, a stutter step of the
    non-existent thread 7, and steps of finished threads) -/

/-- a contended interleaving of three threads completes; thread 1 wins the lock and returns 0 -/
example : let s := run (init 3) [1, 0, 2, 1, 7, 0, 1, 2, 1, 1, 2, 0, 2, 0, 0, 2]
    allDone s = true ∧ rets s = [1, 0, 1] ∧ s.bodyRuns = 1 ∧ s.bodyWrites = 1 ∧
    s.initialized = true ∧ s.owner = none := by decide

/-- mid-run: thread 1 is inside the body, the others are blocked at `start`, nobody has returned -/
example : let s := run (init 3) [1, 0, 2, 1, 0]
    allDone s = false ∧ rets s = [] ∧ s.pcs = [.start, .body, .start] ∧ s.owner = some 1 ∧
    s.bodyRuns = 1 ∧ s.bodyWrites = 0 ∧ s.initialized = false := by decide

/-- round-robin with three threads: six passes complete (thread 0 returns 0, the others 1) … -/
example : let s := run (init 3) ((List.replicate 6 (List.range 3)).flatten)
    allDone s = true ∧ rets s = [0, 1, 1] := by decide

/-- … and five passes do not (n + 3 passes are necessary, `init_completes` uses 4n + 4) -/
example : allDone (run (init 3) ((List.replicate 5 (List.range 3)).flatten)) = false := by decide

end Sodium.C19
