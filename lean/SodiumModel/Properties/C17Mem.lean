import SodiumModel.Proofs.AllocMemFree
/-
  C17 (memory level) — guarded allocation on a byte-and-page-level model of sodium/utils.c
  (`Model/AllocMem.lean`): page → protection, address → byte, every load/store through `load`/`store`
  which fault when the page protection forbids the access.

  Hypotheses (`AllocMemP.Geo s base size`): `page_size` = 2^k with 5 ≤ k ≤ 30 (the code itself only
  demands `page_size > 16`; `_page_round` is only a rounding for powers of two), 16-byte canary,
  `size < SIZE_MAX − 5·page_size` (the ENOMEM guard), `base` = the non-NULL page-aligned address
  returned by mmap with `base + total_size < 2^64`.  Canary value, page size, size, base address and
  all prior memory contents / page protections are universally quantified.
  `permA s x` = protection of the page containing address `x`;
  `userPtr pg base size` = the pointer the C code returns; `R pg size` = `unprotected_size`.
-/
open Sodium Sodium.Model Sodium.Model.AllocMem Sodium.AllocMemP
namespace Sodium.C17Mem

/-- (1) `sodium_malloc(size)`: succeeds; the result is a live allocation (base page read-only and
    holding `unprotected_size`, guard page before the unprotected region `none`, user pages `rw`,
    guard page after `none`); the user region ends exactly at the trailing guard page; every user
    byte is 0xdb; the 16 bytes before the user pointer are the canary; nothing outside the mapping
    changes; the system calls are exactly the five of the C code. -/
theorem malloc_spec (s : State) (base size : UInt64) (g : Geo s base size) :
    ∃ s', sodium_malloc s (some base) size = .ok (s', userPtr s.pageSize base size) ∧
      Live s' base size .rw ∧ s'.pageSize = s.pageSize ∧ s'.canary = s.canary ∧
      (userPtr s.pageSize base size).toNat + size.toNat =
        base.toNat + 2 * s.pageSize.toNat + (R s.pageSize size).toNat ∧
      (∀ x, (userPtr s.pageSize base size).toNat ≤ x → x < (userPtr s.pageSize base size).toNat + size.toNat →
        s'.byte x = 0xdb ∧ permA s' x = .rw) ∧
      readBytes s' ((userPtr s.pageSize base size).toNat - 16) 16 = s.canary ∧
      (∀ x, ¬ (base.toNat ≤ x ∧ x < base.toNat + 3 * s.pageSize.toNat + (R s.pageSize size).toNat) →
        permA s' x = permA s x ∧ s'.byte x = s.byte x) ∧
      s'.log = s.log ++ [.mmap (T s.pageSize size) base,
        .mprotect (base + s.pageSize) s.pageSize .none,
        .mprotect (base + s.pageSize * 2 + R s.pageSize size) s.pageSize .none,
        .mlock (base + s.pageSize * 2) (R s.pageSize size),
        .mprotect base s.pageSize .ro] := by
  obtain ⟨s', hm, live, e1, c1, _, l1, po1, by1⟩ := malloc_ok s base size g
  obtain ⟨⟨k, hk5, hk30, hpg⟩, hcan, hb, hal, hpos, hfit⟩ := g
  obtain ⟨hlo, hhi, r0, r1, r2, h2, h3, h4, h5, h6, h7, h8, h9⟩ :=
    geo_facts s.pageSize size base k hk5 hk30 hpg hb hfit
  have hcp : (canPtr s.pageSize base size).toNat =
      base.toNat + 2 * s.pageSize.toNat + (R s.pageSize size).toNat - 16 - size.toNat := h7
  refine ⟨s', hm, live, e1, c1, by omega, ?_, ?_, ?_, l1⟩
  · intro x hx1 hx2
    refine ⟨by rw [by1 x, if_pos ⟨hx1, hx2⟩], ?_⟩
    exact live.usr x (by rw [e1]; omega) (by rw [e1]; omega)
  · rw [← hcan]
    apply readBytes_eq
    intro i hi
    rw [by1, if_neg (by omega), if_neg (by omega), if_pos (by omega)]
    congr 1; omega
  · intro x hx
    refine ⟨po1 x hx, ?_⟩
    rw [by1 x, if_neg (by omega), if_neg (by omega), if_neg (by omega)]

/-- Access semantics of a live allocation whose user pages have protection `q`: any load or store
    in the page after the user region (from `p + size` on: "faults at once") and in the page before
    the unprotected region faults; inside the user region loads succeed iff `q` is ro or rw and
    stores succeed iff `q` is rw. -/
theorem live_access (s : State) (base size : UInt64) (q : Perm) (L : Live s base size q) (a : UInt64) (v : UInt8) :
    ((userPtr s.pageSize base size).toNat + size.toNat ≤ a.toNat →
      a.toNat < (userPtr s.pageSize base size).toNat + size.toNat + s.pageSize.toNat →
      load s a = .error .fault ∧ store s a v = .error .fault) ∧
    (base.toNat + s.pageSize.toNat ≤ a.toNat → a.toNat < base.toNat + 2 * s.pageSize.toNat →
      load s a = .error .fault ∧ store s a v = .error .fault) ∧
    (base.toNat + 2 * s.pageSize.toNat ≤ a.toNat →
      a.toNat < (userPtr s.pageSize base size).toNat + size.toNat →
      (q = .none → load s a = .error .fault ∧ store s a v = .error .fault) ∧
      (q = .ro → load s a = .ok (s.byte a.toNat) ∧ store s a v = .error .fault) ∧
      (q = .rw → load s a = .ok (s.byte a.toNat) ∧
        store s a v = .ok { s with data := s.data.insert a.toNat v })) := by
  obtain ⟨⟨k, hk5, hk30, hpg⟩, hcan, hb, hal, hpos, hfit⟩ := L.geo
  obtain ⟨hlo, hhi, r0, r1, r2, h2, h3, h4, h5, h6, h7, h8, h9⟩ :=
    geo_facts s.pageSize size base k hk5 hk30 hpg hb hfit
  rw [load_eq, store_eq]
  refine ⟨fun h1 h2 => ?_, fun h1 h2 => ?_, fun h1 h2 => ⟨fun hq => ?_, fun hq => ?_, fun hq => ?_⟩⟩
  · rw [L.g2 _ (by omega) (by omega)]; simp [Readable]
  · rw [L.g1 _ h1 h2]; simp [Readable]
  · rw [L.usr _ h1 (by omega), hq]; simp [Readable]
  · rw [L.usr _ h1 (by omega), hq]; simp [Readable]
  · rw [L.usr _ h1 (by omega), hq]; simp [Readable]

/-- (3) one protection call (`sodium_mprotect_noaccess/readonly/readwrite` = `p` none/ro/rw) on a live
    allocation in ANY protection state `q`: returns 0, the user pages (the whole unprotected range)
    get protection `p`, memory contents and canary are untouched, nothing else changes, and the
    single system call is `mprotect(unprotected_ptr, unprotected_size, p)`. -/
theorem mprotect_spec (s : State) (base size : UInt64) (q : Perm) (o : Alloc.Op) (L : Live s base size q) :
    ∃ s', _sodium_mprotect s (userPtr s.pageSize base size) (Perm.ofOp o) = .ok (s', 0) ∧
      Live s' base size (Perm.ofOp o) ∧ s'.data = s.data ∧ s'.pageSize = s.pageSize ∧ s'.canary = s.canary ∧
      s'.log = s.log ++ [.mprotect (base + s.pageSize * 2) (R s.pageSize size) (Perm.ofOp o)] ∧
      (∀ x, ¬ (base.toNat + 2 * s.pageSize.toNat ≤ x ∧
               x < base.toNat + 2 * s.pageSize.toNat + (R s.pageSize size).toNat) → permA s' x = permA s x) := by
  obtain ⟨s', h, l, d, p, c, _, lg, fr⟩ := mprotect_live s base size q (Perm.ofOp o) L (by cases o <;> decide)
  exact ⟨s', h, l, d, p, c, lg, fr⟩

/-- (3) any history of the three calls, in any order: the allocation stays live (guard pages `none`,
    header read-only), the user pages have the protection of the last request, and the memory
    contents (hence user data and canary bytes) and the library canary are exactly preserved. -/
theorem history_invariant (ops : List Alloc.Op) (s : State) (base size : UInt64) (q : Perm) (L : Live s base size q) :
    ∃ s', applyOps s (userPtr s.pageSize base size) ops = .ok s' ∧
      Live s' base size ((ops.getLast?.map Perm.ofOp).getD q) ∧
      s'.data = s.data ∧ s'.pageSize = s.pageSize ∧ s'.canary = s.canary := by
  induction ops generalizing s q with
  | nil => exact ⟨s, rfl, L, rfl, rfl, rfl⟩
  | cons o os ih =>
    obtain ⟨s1, h1, L1, d1, p1, c1, _, _⟩ := mprotect_spec s base size q o L
    obtain ⟨s2, h2, L2, d2, p2, c2⟩ := ih s1 (Perm.ofOp o) L1
    refine ⟨s2, ?_, ?_, d2.trans d1, p2.trans p1, c2.trans c1⟩
    · rw [applyOps, h1]; simp only; rw [← p1]; exact h2
    · cases os with
      | nil => simpa using L2
      | cons o' os' =>
        rw [List.getLast?_cons_cons]
        rw [List.getLast?_eq_some_getLast (List.cons_ne_nil o' os')] at L2 ⊢
        simpa using L2

/-- (2) `sodium_free(p)` from ANY protection state `q`: if the 16 bytes before the user pointer differ
    from the canary in any way (every one of the 2^128−1 other values) the process is aborted
    (`_out_of_bounds`); otherwise free succeeds, the whole unprotected region was zeroed, exactly
    the pages of the mapping [base, base+total) are unmapped, nothing else changes, and the system
    calls are mprotect(base,total,rw) — which is why it works from every state —, munlock, munmap. -/
theorem free_spec (s : State) (base size : UInt64) (q : Perm) (L : Live s base size q) :
    (readBytes s ((userPtr s.pageSize base size).toNat - 16) 16 ≠ s.canary →
      sodium_free s (userPtr s.pageSize base size) = .error .abort) ∧
    (readBytes s ((userPtr s.pageSize base size).toNat - 16) 16 = s.canary →
      ∃ s', sodium_free s (userPtr s.pageSize base size) = .ok s' ∧
        (∀ x, permA s' x =
          if base.toNat ≤ x ∧ x < base.toNat + 3 * s.pageSize.toNat + (R s.pageSize size).toNat
          then .unmapped else permA s x) ∧
        (∀ x, s'.byte x =
          if base.toNat + 2 * s.pageSize.toNat ≤ x ∧
             x < base.toNat + 2 * s.pageSize.toNat + (R s.pageSize size).toNat then 0 else s.byte x) ∧
        s'.log = s.log ++ [.mprotect base (T s.pageSize size) .rw,
          .munlock (base + s.pageSize * 2) (R s.pageSize size), .munmap base (T s.pageSize size)]) := by
  obtain ⟨⟨k, hk5, hk30, hpg⟩, hcan, hb, hal, hpos, hfit⟩ := L.geo
  obtain ⟨hlo, hhi, r0, r1, r2, h2, h3, h4, h5, h6, h7, h8, h9⟩ :=
    geo_facts s.pageSize size base k hk5 hk30 hpg hb hfit
  have hcp : (canPtr s.pageSize base size).toNat = (userPtr s.pageSize base size).toNat - 16 := by
    show (base + s.pageSize * 2 + R s.pageSize size - (16 + size)).toNat = _
    rw [h7, h8]; omega
  obtain ⟨f1, f2⟩ := free_live s base size q L
  rw [hcp] at f1 f2
  refine ⟨f1, fun h => ?_⟩
  obtain ⟨s', a, b, c, _, _, _, d⟩ := f2 h
  exact ⟨s', a, b, c, d⟩

/-- `sodium_free(NULL)` is a no-op -/
theorem free_null (s : State) : sodium_free s 0 = .ok s := by
  unfold sodium_free; simp

/-- (4) `sodium_allocarray(count, size)`: what the code tests is `count > 0 && size >= SIZE_MAX / count`
    (then NULL with errno = ENOMEM and no system call), otherwise it is `sodium_malloc(count * size)`. -/
theorem allocarray_spec (s : State) (mm : Option UInt64) (count size : UInt64) :
    sodium_allocarray s mm count size =
      if count > 0 ∧ size ≥ SIZE_MAX / count then .ok ({ s with errno := ENOMEM }, 0)
      else sodium_malloc s mm (count * size) := rfl

/-- (5) `sodium_memzero(p, n)` on writable memory writes exactly `n` zero bytes and nothing else;
    it faults (changing nothing) when the first byte is not writable -/
theorem memzero_spec (s : State) (p n : UInt64) (hfit : p.toNat + n.toNat < 2 ^ 64)
    (hw : ∀ x, p.toNat ≤ x → x < p.toNat + n.toNat → permA s x = .rw) :
    ∃ s', sodium_memzero s p n = .ok s' ∧ s'.prot = s.prot ∧ s'.log = s.log ∧
      ∀ x, s'.byte x = if p.toNat ≤ x ∧ x < p.toNat + n.toNat then 0 else s.byte x := by
  unfold sodium_memzero
  rw [storeBytes_ok _ s p (by rw [List.length_replicate]; exact hw) (by rw [List.length_replicate]; exact hfit)]
  refine ⟨_, rfl, rfl, rfl, fun x => ?_⟩
  show (writeBytes _ _ _).getD x 0 = _
  rw [getD_writeBytes, List.length_replicate]
  by_cases c : p.toNat ≤ x ∧ x < p.toNat + n.toNat
  · rw [if_pos c, if_pos c, getD_replicate _ _ _ (by omega)]
  · rw [if_neg c, if_neg c]; rfl

/-- the guard is the `size_t` expression of the C code: `SIZE_MAX - x` -/
theorem guard_form (x : UInt64) : sizeMaxSub x = SIZE_MAX - x := sizeMaxSub_eq x

/-- the hypotheses are satisfiable: 4 KiB pages, a mapping at 0x10000, 100 bytes -/
example : Geo (State.init 4096 (List.replicate 16 7)) 0x10000 100 :=
  ⟨⟨12, by decide, by decide, by decide⟩, by decide, by decide, by decide, by decide, by decide⟩

end Sodium.C17Mem
