import SodiumModel.Proofs.Argon2Simd
import SodiumModel.Properties.C08Core
/-
  C08 (SIMD) — the vectorised Argon2 block-filling code of libsodium (Model/Argon2Simd.lean, transcribed from
  crypto_pwhash/argon2/{argon2-fill-block-avx2.c, blamka-round-avx2.h, argon2-fill-block-ssse3.c,
  blamka-round-ssse3.h, argon2-fill-block-avx512f.c, blamka-round-avx512f.h}) equals the reference code
  (Model/Argon2Ref.lean), which Properties/C08Core.lean proves equal to RFC 9106 — for all three backends,
  from the fBlaMka step up to `crypto_pwhash`.

  TRUSTED BASE.  The meaning of the intrinsic calls is the transcription of the Intel "Operation" pseudo-code in
  Model/Blake2bSimdIntrin.lean (existing; 128/256-bit) and Model/Argon2Simd.lean Part 1 (new: `_mm_mul_epu32`,
  `_mm256_mul_epu32`, `M512` and the `_mm512_*` intrinsics).  Nothing is proved about these definitions; they are
  validated against the CPU by simdcheck/blake2b/run.sh and simdcheck/argon2/run.sh (every intrinsic, and the
  rotation / fBlaMka / SWAP macros at the constants the code uses; AVX-512F instructions run on the host CPU).

  Property theorems only (helper lemmas: Proofs/Argon2Simd.lean, namespace `Sodium.Argon2SimdP`).
  State ↔ block index mapping (`words`): word k of the 128-word block is lane k mod l of register k / l, with
  l = 4 (`__m256i state[32]`), 2 (`__m128i state[64]`), 8 (`__m512i state[16]`); this is what `memcpy(state,
  block->v, 1024)` produces (`regs`).  One iteration of the first loop of `fill_block` processes
  2 / 1 / 4 reference rows (16i…16i+15), one iteration of the second loop 2 / 1 / 4 reference columns
  (2i, 2i+1, 2i+16, …) — `*_loop1_step`, `*_loop2_step`.
-/
open Sodium Sodium.Spec Sodium.Model Sodium.Model.Blake2bSimd Sodium.Model.Argon2Simd Sodium.Argon2SimdP
open Sodium.Model.Argon2Ref (Block forLoop fBlaMka ROTR64 BLAKE2_ROUND_NOMSG Instance Position State)
open Sodium.Argon2RefP (InstOk Rel SRel HLen CoreOk)
open Sodium.Blake2bSimdP (row)
open Sodium.Model.Pwhash hiding Instance ARGON2_SYNC_POINTS ARGON2_VERSION_NUMBER
namespace Sodium.C08Simd

/-! ### state ↔ block -/

/-- the 128 words held by `__m256i state[32]`: word k = lane k % 4 of `state[k / 4]` -/
def words256 (s : Array M256) : Block := toBlock Avx2P.R256 s
/-- the 128 words held by `__m128i state[64]`: word k = lane k % 2 of `state[k / 2]` -/
def words128 (s : Array M128) : Block := toBlock Ssse3P.R128 s
/-- the 128 words held by `__m512i state[16]`: word k = lane k % 8 of `state[k / 8]` -/
def words512 (s : Array M512) : Block := toBlock Avx512fP.R512 s
/-- `memcpy(state, block->v, 1024)` -/
def regs256 (b : Block) : Array M256 := ofBlock Avx2P.R256 b
def regs128 (b : Block) : Array M128 := ofBlock Ssse3P.R128 b
def regs512 (b : Block) : Array M512 := ofBlock Avx512fP.R512 b

theorem words256_get (s : Array M256) (k : Nat) (hk : k < 128) : (words256 s)[k]! = (s[k / 4]!).epi64 (k % 4) :=
  toBlock_get Avx2P.R256 s k hk
theorem words128_get (s : Array M128) (k : Nat) (hk : k < 128) : (words128 s)[k]! = (s[k / 2]!).epi64 (k % 2) :=
  toBlock_get Ssse3P.R128 s k hk
theorem words512_get (s : Array M512) (k : Nat) (hk : k < 128) : (words512 s)[k]! = (s[k / 8]!).epi64 (k % 8) :=
  toBlock_get Avx512fP.R512 s k hk

/-- `words` and `regs` are inverse bijections between 128-word blocks and full register files, and
    `regs` is the `memcpy` of the segment functions -/
theorem words_regs (b : Block) (hb : b.size = 128) :
    words256 (regs256 b) = b ∧ words128 (regs128 b) = b ∧ words512 (regs512 b) = b :=
  ⟨toBlock_ofBlock _ b hb, toBlock_ofBlock _ b hb, toBlock_ofBlock _ b hb⟩
theorem regs_words (s2 : Array M256) (s1 : Array M128) (s5 : Array M512) (h2 : s2.size = 32) (h1 : s1.size = 64)
    (h5 : s5.size = 16) : regs256 (words256 s2) = s2 ∧ regs128 (words128 s1) = s1 ∧ regs512 (words512 s5) = s5 :=
  ⟨ofBlock_toBlock _ s2 h2, ofBlock_toBlock _ s1 h1, ofBlock_toBlock _ s5 h5⟩
theorem memcpy_state_eq (b : Block) :
    Avx2.backend.memcpy_state b = regs256 b ∧ Ssse3.backend.memcpy_state b = regs128 b ∧
      Avx512f.backend.memcpy_state b = regs512 b :=
  ⟨memcpy_eq Avx2P.R256 _ Avx2P.opsOK.load b, memcpy_eq Ssse3P.R128 _ Ssse3P.opsOK.load b,
   memcpy_eq Avx512fP.R512 _ Avx512fP.opsOK.load b⟩

/-! ### (1) the vector fBlaMka step and the rotations, lane by lane -/

/-- AVX2: `ml = _mm256_mul_epu32(A, B); ml = ml + ml; A + (B + ml)` is `fBlaMka` in each 64-bit lane -/
theorem avx2_fBlaMka (A B : M256) (j : Nat) (hj : j < 4) :
    (_mm256_add_epi64 A (_mm256_add_epi64 B
      (_mm256_add_epi64 (_mm256_mul_epu32 A B) (_mm256_mul_epu32 A B)))).epi64 j = fBlaMka (A.epi64 j) (B.epi64 j) := by
  obtain ⟨⟨a0, a1⟩, ⟨a2, a3⟩⟩ := A
  obtain ⟨⟨b0, b1⟩, ⟨b2, b3⟩⟩ := B
  simp only [Avx2P.mul_row, Avx2P.add_row, fb_avx2]
  have : j = 0 ∨ j = 1 ∨ j = 2 ∨ j = 3 := by omega
  rcases this with rfl | rfl | rfl | rfl <;> rfl

/-- SSSE3: the inline function `fBlaMka(x, y)` of blamka-round-ssse3.h -/
theorem ssse3_fBlaMka (x y : M128) :
    Ssse3.fBlaMka x y = ⟨fBlaMka x.q0 y.q0, fBlaMka x.q1 y.q1⟩ := by
  obtain ⟨a0, a1⟩ := x
  obtain ⟨b0, b1⟩ := y
  exact Ssse3P.fBlaMka_lane a0 a1 b0 b1

/-- AVX-512F: the inline function `muladd(x, y)` of blamka-round-avx512f.h -/
theorem avx512f_muladd (x y : M512) (j : Nat) (hj : j < 8) :
    (Avx512f.muladd x y).epi64 j = fBlaMka (x.epi64 j) (y.epi64 j) := by
  obtain ⟨⟨⟨a0, a1⟩, ⟨a2, a3⟩⟩, ⟨⟨a4, a5⟩, ⟨a6, a7⟩⟩⟩ := x
  obtain ⟨⟨⟨b0, b1⟩, ⟨b2, b3⟩⟩, ⟨⟨b4, b5⟩, ⟨b6, b7⟩⟩⟩ := y
  rw [Avx512fP.muladd_r8]
  have : j = 0 ∨ j = 1 ∨ j = 2 ∨ j = 3 ∨ j = 4 ∨ j = 5 ∨ j = 6 ∨ j = 7 := by omega
  rcases this with rfl | rfl | rfl | rfl | rfl | rfl | rfl | rfl <;> rfl

/-- AVX2: `rotr32` / `rotr24` / `rotr16` / `rotr63` (a dword shuffle, two byte shuffles, `(x >> 63) ^ (x + x)`)
    are `ROTR64` by 32 / 24 / 16 / 63 in each lane -/
theorem avx2_rotations (x0 x1 x2 x3 : UInt64) :
    Avx2.rotr32 (row x0 x1 x2 x3) = row (ROTR64 x0 32) (ROTR64 x1 32) (ROTR64 x2 32) (ROTR64 x3 32) ∧
    Avx2.rotr24 (row x0 x1 x2 x3) = row (ROTR64 x0 24) (ROTR64 x1 24) (ROTR64 x2 24) (ROTR64 x3 24) ∧
    Avx2.rotr16 (row x0 x1 x2 x3) = row (ROTR64 x0 16) (ROTR64 x1 16) (ROTR64 x2 16) (ROTR64 x3 16) ∧
    Avx2.rotr63 (row x0 x1 x2 x3) = row (ROTR64 x0 63) (ROTR64 x1 63) (ROTR64 x2 63) (ROTR64 x3 63) :=
  ⟨Avx2P.rotr32_row .., Avx2P.rotr24_row .., Avx2P.rotr16_row .., Avx2P.rotr63_row ..⟩

/-- SSSE3: `_mm_roti_epi64(x, -c)` at the four constants the code uses -/
theorem ssse3_rotations (x0 x1 : UInt64) :
    Ssse3._mm_roti_epi64 ⟨x0, x1⟩ (-32) = ⟨ROTR64 x0 32, ROTR64 x1 32⟩ ∧
    Ssse3._mm_roti_epi64 ⟨x0, x1⟩ (-24) = ⟨ROTR64 x0 24, ROTR64 x1 24⟩ ∧
    Ssse3._mm_roti_epi64 ⟨x0, x1⟩ (-16) = ⟨ROTR64 x0 16, ROTR64 x1 16⟩ ∧
    Ssse3._mm_roti_epi64 ⟨x0, x1⟩ (-63) = ⟨ROTR64 x0 63, ROTR64 x1 63⟩ :=
  ⟨Blake2bSimdP.SseP.roti_32 .., Blake2bSimdP.SseP.roti_24 .., Blake2bSimdP.SseP.roti_16 ..,
   Blake2bSimdP.SseP.roti_63 ..⟩

/-- AVX-512F: `ror64(x, n)` = `_mm512_ror_epi64` at the four constants, in each of the eight lanes -/
theorem avx512f_rotations (x : M512) (j : Nat) (hj : j < 8) :
    (Avx512f.ror64 x 32).epi64 j = ROTR64 (x.epi64 j) 32 ∧ (Avx512f.ror64 x 24).epi64 j = ROTR64 (x.epi64 j) 24 ∧
    (Avx512f.ror64 x 16).epi64 j = ROTR64 (x.epi64 j) 16 ∧ (Avx512f.ror64 x 63).epi64 j = ROTR64 (x.epi64 j) 63 := by
  obtain ⟨⟨⟨a0, a1⟩, ⟨a2, a3⟩⟩, ⟨⟨a4, a5⟩, ⟨a6, a7⟩⟩⟩ := x
  rw [Avx512fP.ror32_r8, Avx512fP.ror24_r8, Avx512fP.ror16_r8, Avx512fP.ror63_r8]
  have : j = 0 ∨ j = 1 ∨ j = 2 ∨ j = 3 ∨ j = 4 ∨ j = 5 ∨ j = 6 ∨ j = 7 := by omega
  rcases this with rfl | rfl | rfl | rfl | rfl | rfl | rfl | rfl <;> exact ⟨rfl, rfl, rfl, rfl⟩

/-! ### (2) G1 ; G2 = the reference `G` in every lane; DIAGONALIZE / UNDIAGONALIZE move the right words -/

/-- AVX2: `G1_AVX2` then `G2_AVX2` applies the `G` macro to lane j of (A0, B0, C0, D0) and to lane j of
    (A1, B1, C1, D1), for each of the four lanes -/
theorem avx2_G (a0 a1 a2 a3 p0 p1 p2 p3 b0 b1 b2 b3 q0 q1 q2 q3 c0 c1 c2 c3 r0 r1 r2 r3 d0 d1 d2 d3 s0 s1 s2 s3 : UInt64) :
    Avx2.G2_AVX2 (Avx2.G1_AVX2 ⟨row a0 a1 a2 a3, row p0 p1 p2 p3, row b0 b1 b2 b3, row q0 q1 q2 q3,
        row c0 c1 c2 c3, row r0 r1 r2 r3, row d0 d1 d2 d3, row s0 s1 s2 s3⟩) =
      ⟨row (Argon2Ref.G a0 b0 c0 d0).1 (Argon2Ref.G a1 b1 c1 d1).1 (Argon2Ref.G a2 b2 c2 d2).1 (Argon2Ref.G a3 b3 c3 d3).1,
       row (Argon2Ref.G p0 q0 r0 s0).1 (Argon2Ref.G p1 q1 r1 s1).1 (Argon2Ref.G p2 q2 r2 s2).1 (Argon2Ref.G p3 q3 r3 s3).1,
       row (Argon2Ref.G a0 b0 c0 d0).2.1 (Argon2Ref.G a1 b1 c1 d1).2.1 (Argon2Ref.G a2 b2 c2 d2).2.1 (Argon2Ref.G a3 b3 c3 d3).2.1,
       row (Argon2Ref.G p0 q0 r0 s0).2.1 (Argon2Ref.G p1 q1 r1 s1).2.1 (Argon2Ref.G p2 q2 r2 s2).2.1 (Argon2Ref.G p3 q3 r3 s3).2.1,
       row (Argon2Ref.G a0 b0 c0 d0).2.2.1 (Argon2Ref.G a1 b1 c1 d1).2.2.1 (Argon2Ref.G a2 b2 c2 d2).2.2.1 (Argon2Ref.G a3 b3 c3 d3).2.2.1,
       row (Argon2Ref.G p0 q0 r0 s0).2.2.1 (Argon2Ref.G p1 q1 r1 s1).2.2.1 (Argon2Ref.G p2 q2 r2 s2).2.2.1 (Argon2Ref.G p3 q3 r3 s3).2.2.1,
       row (Argon2Ref.G a0 b0 c0 d0).2.2.2 (Argon2Ref.G a1 b1 c1 d1).2.2.2 (Argon2Ref.G a2 b2 c2 d2).2.2.2 (Argon2Ref.G a3 b3 c3 d3).2.2.2,
       row (Argon2Ref.G p0 q0 r0 s0).2.2.2 (Argon2Ref.G p1 q1 r1 s1).2.2.2 (Argon2Ref.G p2 q2 r2 s2).2.2.2 (Argon2Ref.G p3 q3 r3 s3).2.2.2⟩ :=
  Avx2P.G12_rows ..

/-- AVX2: `DIAGONALIZE_1` / `UNDIAGONALIZE_1` rotate the B, C, D registers by 1, 2, 3 lanes (and back):
    afterwards lane j of (A0, B0, C0, D0) holds (a_j, b_{j+1}, c_{j+2}, d_{j+3}) -/
theorem avx2_DIAGONALIZE_1 (a0 a1 a2 a3 p0 p1 p2 p3 b0 b1 b2 b3 q0 q1 q2 q3 c0 c1 c2 c3 r0 r1 r2 r3 d0 d1 d2 d3 s0 s1 s2 s3 : UInt64) :
    Avx2.DIAGONALIZE_1 ⟨row a0 a1 a2 a3, row p0 p1 p2 p3, row b0 b1 b2 b3, row q0 q1 q2 q3,
        row c0 c1 c2 c3, row r0 r1 r2 r3, row d0 d1 d2 d3, row s0 s1 s2 s3⟩ =
      ⟨row a0 a1 a2 a3, row p0 p1 p2 p3, row b1 b2 b3 b0, row q1 q2 q3 q0, row c2 c3 c0 c1, row r2 r3 r0 r1,
       row d3 d0 d1 d2, row s3 s0 s1 s2⟩ ∧
    Avx2.UNDIAGONALIZE_1 ⟨row a0 a1 a2 a3, row p0 p1 p2 p3, row b1 b2 b3 b0, row q1 q2 q3 q0, row c2 c3 c0 c1,
        row r2 r3 r0 r1, row d3 d0 d1 d2, row s3 s0 s1 s2⟩ =
      ⟨row a0 a1 a2 a3, row p0 p1 p2 p3, row b0 b1 b2 b3, row q0 q1 q2 q3,
        row c0 c1 c2 c3, row r0 r1 r2 r3, row d0 d1 d2 d3, row s0 s1 s2 s3⟩ := ⟨rfl, rfl⟩

/-- AVX2: `DIAGONALIZE_2` (blend 0xCC / 0x33, `permute4x64(…, _MM_SHUFFLE(2,3,0,1))`, C0 ↔ C1) on registers whose
    lanes 0–1 / 2–3 are the word pairs of two column groups, and `UNDIAGONALIZE_2` undoes it -/
theorem avx2_DIAGONALIZE_2 (a0 a1 a2 a3 p0 p1 p2 p3 b0 b1 b2 b3 q0 q1 q2 q3 c0 c1 c2 c3 r0 r1 r2 r3 d0 d1 d2 d3 s0 s1 s2 s3 : UInt64) :
    Avx2.DIAGONALIZE_2 ⟨row a0 a1 a2 a3, row p0 p1 p2 p3, row b0 b1 b2 b3, row q0 q1 q2 q3,
        row c0 c1 c2 c3, row r0 r1 r2 r3, row d0 d1 d2 d3, row s0 s1 s2 s3⟩ =
      ⟨row a0 a1 a2 a3, row p0 p1 p2 p3, row b1 q0 b3 q2, row q1 b0 q3 b2, row r0 r1 r2 r3, row c0 c1 c2 c3,
       row s1 d0 s3 d2, row d1 s0 d3 s2⟩ ∧
    Avx2.UNDIAGONALIZE_2 ⟨row a0 a1 a2 a3, row p0 p1 p2 p3, row b1 q0 b3 q2, row q1 b0 q3 b2, row r0 r1 r2 r3,
        row c0 c1 c2 c3, row s1 d0 s3 d2, row d1 s0 d3 s2⟩ =
      ⟨row a0 a1 a2 a3, row p0 p1 p2 p3, row b0 b1 b2 b3, row q0 q1 q2 q3,
        row c0 c1 c2 c3, row r0 r1 r2 r3, row d0 d1 d2 d3, row s0 s1 s2 s3⟩ :=
  ⟨Avx2P.DIAG2_rows .., Avx2P.UNDIAG2_rows ..⟩

/-! ### (3) one round macro = `BLAKE2_ROUND_NOMSG` on the right 16-word groups -/

/-- AVX2 `BLAKE2_ROUND_1`: (A0, B0, C0, D0) hold 16 consecutive words, (A1, B1, C1, D1) the next 16 -/
theorem avx2_BLAKE2_ROUND_1 (a0 a1 a2 a3 p0 p1 p2 p3 b0 b1 b2 b3 q0 q1 q2 q3 c0 c1 c2 c3 r0 r1 r2 r3 d0 d1 d2 d3 s0 s1 s2 s3 : UInt64) :
    Avx2.BLAKE2_ROUND_1 ⟨row a0 a1 a2 a3, row p0 p1 p2 p3, row b0 b1 b2 b3, row q0 q1 q2 q3,
        row c0 c1 c2 c3, row r0 r1 r2 r3, row d0 d1 d2 d3, row s0 s1 s2 s3⟩ =
      (let x := BLAKE2_ROUND_NOMSG a0 a1 a2 a3 b0 b1 b2 b3 c0 c1 c2 c3 d0 d1 d2 d3
       let y := BLAKE2_ROUND_NOMSG p0 p1 p2 p3 q0 q1 q2 q3 r0 r1 r2 r3 s0 s1 s2 s3
       ⟨row x.v0 x.v1 x.v2 x.v3, row y.v0 y.v1 y.v2 y.v3, row x.v4 x.v5 x.v6 x.v7, row y.v4 y.v5 y.v6 y.v7,
        row x.v8 x.v9 x.v10 x.v11, row y.v8 y.v9 y.v10 y.v11, row x.v12 x.v13 x.v14 x.v15,
        row y.v12 y.v13 y.v14 y.v15⟩) := Avx2P.ROUND_1_rows ..

/-- AVX2 `BLAKE2_ROUND_2`: lanes 0–1 of the eight registers are one 16-word group (v0 v1 | v2 v3 | …), lanes 2–3
    the other -/
theorem avx2_BLAKE2_ROUND_2 (a0 a1 a2 a3 p0 p1 p2 p3 b0 b1 b2 b3 q0 q1 q2 q3 c0 c1 c2 c3 r0 r1 r2 r3 d0 d1 d2 d3 s0 s1 s2 s3 : UInt64) :
    Avx2.BLAKE2_ROUND_2 ⟨row a0 a1 a2 a3, row p0 p1 p2 p3, row b0 b1 b2 b3, row q0 q1 q2 q3,
        row c0 c1 c2 c3, row r0 r1 r2 r3, row d0 d1 d2 d3, row s0 s1 s2 s3⟩ =
      (let x := BLAKE2_ROUND_NOMSG a0 a1 p0 p1 b0 b1 q0 q1 c0 c1 r0 r1 d0 d1 s0 s1
       let y := BLAKE2_ROUND_NOMSG a2 a3 p2 p3 b2 b3 q2 q3 c2 c3 r2 r3 d2 d3 s2 s3
       ⟨row x.v0 x.v1 y.v0 y.v1, row x.v2 x.v3 y.v2 y.v3, row x.v4 x.v5 y.v4 y.v5, row x.v6 x.v7 y.v6 y.v7,
        row x.v8 x.v9 y.v8 y.v9, row x.v10 x.v11 y.v10 y.v11, row x.v12 x.v13 y.v12 y.v13,
        row x.v14 x.v15 y.v14 y.v15⟩) := Avx2P.ROUND_2_rows ..

/-- SSSE3 `BLAKE2_ROUND`: the eight registers hold 16 words in order -/
theorem ssse3_BLAKE2_ROUND (a0 a1 a2 a3 b0 b1 b2 b3 c0 c1 c2 c3 d0 d1 d2 d3 : UInt64) :
    Ssse3.BLAKE2_ROUND ⟨⟨a0, a1⟩, ⟨a2, a3⟩, ⟨b0, b1⟩, ⟨b2, b3⟩, ⟨c0, c1⟩, ⟨c2, c3⟩, ⟨d0, d1⟩, ⟨d2, d3⟩⟩ =
      (let x := BLAKE2_ROUND_NOMSG a0 a1 a2 a3 b0 b1 b2 b3 c0 c1 c2 c3 d0 d1 d2 d3
       ⟨⟨x.v0, x.v1⟩, ⟨x.v2, x.v3⟩, ⟨x.v4, x.v5⟩, ⟨x.v6, x.v7⟩, ⟨x.v8, x.v9⟩, ⟨x.v10, x.v11⟩, ⟨x.v12, x.v13⟩,
        ⟨x.v14, x.v15⟩⟩) := Ssse3P.ROUND_lanes ..

/-- AVX-512F `BLAKE2_ROUND_1` / `BLAKE2_ROUND_2` (with `SWAP_HALVES` / `SWAP_QUARTERS` / `UNSWAP_QUARTERS`): word e
    of the t-th register argument afterwards, in terms of `BLAKE2_ROUND_NOMSG` on the words of the arguments
    `x 0 … x 7` (in the order of the call: `state[8i+t]`, resp. `state[2t+i]`) -/
theorem avx512f_BLAKE2_ROUND_words (x : Nat → M512) (t e : Nat) (ht : t < 8) (he : e < 8) :
    (Avx512fP.r1get (Avx512f.BLAKE2_ROUND_1
      { A0 := x 0, C0 := x 1, B0 := x 2, D0 := x 3, A1 := x 4, C1 := x 5, B1 := x 6, D1 := x 7 }) t).epi64 e =
      v16get (N16 fun c => (x (2 * (t / 2) + c / 8)).epi64 (c % 8)) (8 * (t % 2) + e) ∧
    (Avx512fP.r2get (Avx512f.BLAKE2_ROUND_2
      { A0 := x 0, A1 := x 1, B0 := x 2, B1 := x 3, C0 := x 4, C1 := x 5, D0 := x 6, D1 := x 7 }) t).epi64 e =
      v16get (N16 fun c => (x (c / 2)).epi64 (2 * (e / 2) + c % 2)) (2 * t + e % 2) :=
  ⟨Avx512fP.ROUND_1_words x t e ht he, Avx512fP.ROUND_2_words x t e ht he⟩

/-- the reference loops in the notation used below: iteration i of the first loop of `Argon2Ref.blake2_rounds` is
    `BLAKE2_ROUND_NOMSG` at the words `rowIdx i c = 16i + c`, of the second loop at `colIdx i c = 2i + 16(c/2) + c%2` -/
theorem reference_loops (b : Block) :
    Argon2Ref.blake2_rounds b =
      forLoop (fun i b => roundIdx b (colIdx i)) 8 0 (forLoop (fun i b => roundIdx b (rowIdx i)) 8 0 b) ∧
    (∀ i c, rowIdx i c = 16 * i + c) ∧ (∀ i c, colIdx i c = 2 * i + 16 * (c / 2) + c % 2) :=
  ⟨blake2_rounds_eq b, fun _ _ => rfl, fun _ _ => rfl⟩

/-- AVX2: iteration i of the first loop of `fill_block` (registers 8i … 8i+7) is iterations 2i, 2i+1 of the first
    reference loop; iteration i of the second loop (registers i, 4+i, …, 28+i) is iterations 2i, 2i+1 of the second -/
theorem avx2_loop_steps (s : Array M256) (hs : s.size = 32) (i : Nat) (hi : i < 4) :
    words256 (Avx2.round_1_at i s) = roundIdx (roundIdx (words256 s) (rowIdx (2 * i))) (rowIdx (2 * i + 1)) ∧
    words256 (Avx2.round_2_at i s) = roundIdx (roundIdx (words256 s) (colIdx (2 * i))) (colIdx (2 * i + 1)) :=
  ⟨Avx2P.sim1 s hs i hi, Avx2P.sim2 s hs i hi⟩

/-- SSSE3: iteration i of each loop is iteration i of the corresponding reference loop -/
theorem ssse3_loop_steps (s : Array M128) (hs : s.size = 64) (i : Nat) (hi : i < 8) :
    words128 (Ssse3.round_1_at i s) = roundIdx (words128 s) (rowIdx i) ∧
    words128 (Ssse3.round_2_at i s) = roundIdx (words128 s) (colIdx i) :=
  ⟨Ssse3P.sim1 s hs i hi, Ssse3P.sim2 s hs i hi⟩

/-- AVX-512F: iteration i of each loop is iterations 4i … 4i+3 of the corresponding reference loop -/
theorem avx512f_loop_steps (s : Array M512) (hs : s.size = 16) (i : Nat) (hi : i < 2) :
    words512 (Avx512f.round_1_at i s) = forLoop (fun i b => roundIdx b (rowIdx i)) 4 (4 * i) (words512 s) ∧
    words512 (Avx512f.round_2_at i s) = forLoop (fun i b => roundIdx b (colIdx i)) 4 (4 * i) (words512 s) :=
  ⟨Avx512fP.sim1 s hs i hi, Avx512fP.sim2 s hs i hi⟩

/-- the two round loops of each file = the two round loops of the reference `fill_block`, on every state -/
theorem blake2_rounds_eq_ref (s2 : Array M256) (s1 : Array M128) (s5 : Array M512) (h2 : s2.size = 32)
    (h1 : s1.size = 64) (h5 : s5.size = 16) :
    words256 (Avx2.blake2_rounds s2) = Argon2Ref.blake2_rounds (words256 s2) ∧
    words128 (Ssse3.blake2_rounds s1) = Argon2Ref.blake2_rounds (words128 s1) ∧
    words512 (Avx512f.blake2_rounds s5) = Argon2Ref.blake2_rounds (words512 s5) :=
  ⟨Avx2P.rounds_eq s2 h2, Ssse3P.rounds_eq s1 h1, Avx512fP.rounds_eq s5 h5⟩

/-! ### (4) fill_block, fill_block_with_xor -/

/-- AVX2 `fill_block(state, ref_block, next_block)`: for every state (holding the previous block) and every pair of
    blocks, `*next_block` becomes the reference `fill_block(prev, ref)`, and `state` is left holding that same new
    block (which is why the segment loop never reloads the previous block) -/
theorem avx2_fill_block (s : Array M256) (ref next : Block) (hs : s.size = 32) (hr : ref.size = 128)
    (hn : next.size = 128) :
    Avx2.fill_block s ref next =
      (regs256 (Argon2Ref.fill_block (words256 s) ref), Argon2Ref.fill_block (words256 s) ref) := by
  rw [Avx2P.fill_block_gen, gen_fill_eq Avx2P.R256 Avx2P.ops Avx2P.opsOK false s ref next hs hr hn]
  simp only [Bool.false_eq_true, if_false]; rfl

theorem avx2_fill_block_with_xor (s : Array M256) (ref next : Block) (hs : s.size = 32) (hr : ref.size = 128)
    (hn : next.size = 128) :
    Avx2.fill_block_with_xor s ref next =
      (regs256 (Argon2Ref.fill_block_with_xor (words256 s) ref next),
       Argon2Ref.fill_block_with_xor (words256 s) ref next) := by
  rw [Avx2P.fill_block_with_xor_gen, gen_fill_eq Avx2P.R256 Avx2P.ops Avx2P.opsOK true s ref next hs hr hn]
  simp only [if_true]; rfl

theorem ssse3_fill_block (s : Array M128) (ref next : Block) (hs : s.size = 64) (hr : ref.size = 128)
    (hn : next.size = 128) :
    Ssse3.fill_block s ref next =
      (regs128 (Argon2Ref.fill_block (words128 s) ref), Argon2Ref.fill_block (words128 s) ref) := by
  rw [Ssse3P.fill_block_gen, gen_fill_eq Ssse3P.R128 Ssse3P.ops Ssse3P.opsOK false s ref next hs hr hn]
  simp only [Bool.false_eq_true, if_false]; rfl

theorem ssse3_fill_block_with_xor (s : Array M128) (ref next : Block) (hs : s.size = 64) (hr : ref.size = 128)
    (hn : next.size = 128) :
    Ssse3.fill_block_with_xor s ref next =
      (regs128 (Argon2Ref.fill_block_with_xor (words128 s) ref next),
       Argon2Ref.fill_block_with_xor (words128 s) ref next) := by
  rw [Ssse3P.fill_block_with_xor_gen, gen_fill_eq Ssse3P.R128 Ssse3P.ops Ssse3P.opsOK true s ref next hs hr hn]
  simp only [if_true]; rfl

theorem avx512f_fill_block (s : Array M512) (ref next : Block) (hs : s.size = 16) (hr : ref.size = 128)
    (hn : next.size = 128) :
    Avx512f.fill_block s ref next =
      (regs512 (Argon2Ref.fill_block (words512 s) ref), Argon2Ref.fill_block (words512 s) ref) := by
  rw [Avx512fP.fill_block_gen, gen_fill_eq Avx512fP.R512 Avx512fP.ops Avx512fP.opsOK false s ref next hs hr hn]
  simp only [Bool.false_eq_true, if_false]; rfl

theorem avx512f_fill_block_with_xor (s : Array M512) (ref next : Block) (hs : s.size = 16) (hr : ref.size = 128)
    (hn : next.size = 128) :
    Avx512f.fill_block_with_xor s ref next =
      (regs512 (Argon2Ref.fill_block_with_xor (words512 s) ref next),
       Argon2Ref.fill_block_with_xor (words512 s) ref next) := by
  rw [Avx512fP.fill_block_with_xor_gen, gen_fill_eq Avx512fP.R512 Avx512fP.ops Avx512fP.opsOK true s ref next hs hr hn]
  simp only [if_true]; rfl

/-- hence (by C08Core) the vector `fill_block` writes the compression function G of RFC 9106 §3.5 -/
theorem avx2_fill_block_is_rfc9106 (prev ref next : Block) (hp : prev.size = 128) (hr : ref.size = 128)
    (hn : next.size = 128) :
    (Avx2.fill_block (regs256 prev) ref next).2 = Argon2.G prev ref ∧
    (Avx2.fill_block_with_xor (regs256 prev) ref next).2 = Argon2.xorBlock (Argon2.G prev ref) next := by
  have hs : (regs256 prev).size = 32 := size_ofBlock _ _
  rw [avx2_fill_block _ ref next hs hr hn, avx2_fill_block_with_xor _ ref next hs hr hn, (words_regs prev hp).1]
  dsimp only
  exact ⟨C08Core.fill_block_spec prev ref hp hr, C08Core.fill_block_with_xor_spec prev ref next hp hr⟩

-- the hypotheses are satisfiable, and the functions run (a zero state and zero blocks)
example : (Array.replicate 32 (⟨⟨0, 0⟩, ⟨0, 0⟩⟩ : M256)).size = 32 ∧ (Argon2Ref.init_block_value 0).size = 128 :=
  ⟨by simp, size_init_block 0⟩

/-! ### (5) generate_addresses, argon2_fill_segment_<isa> -/

/-- `generate_addresses` of each vector file (fresh `zero_block` / `zero2_block` states, two
    `fill_block_with_xor` calls) = the reference `generate_addresses`, for every instance, position and buffer -/
theorem generate_addresses_eq_ref (inst : Instance) (pos : Position) (pr : Array UInt64) :
    generate_addresses Avx2.backend inst pos pr = Argon2Ref.generate_addresses inst pos pr ∧
    generate_addresses Ssse3.backend inst pos pr = Argon2Ref.generate_addresses inst pos pr ∧
    generate_addresses Avx512f.backend inst pos pr = Argon2Ref.generate_addresses inst pos pr :=
  ⟨generate_addresses_eq Avx2P.backendOK inst pos pr, generate_addresses_eq Ssse3P.backendOK inst pos pr,
   generate_addresses_eq Avx512fP.backendOK inst pos pr⟩

/-- `argon2_fill_segment_avx2` = `argon2_fill_segment_ref` for every pass, slice, lane and memory contents of a
    well-formed instance (`InstOk`, as in C08Core.fill_segment_spec): the same walk, with the previous block carried
    in `state` instead of re-read from `memory[prev_offset]` — which is the same block because every iteration stores
    its result at `curr_offset`, the next iteration's (rotated) `prev_offset` -/
theorem fill_segment_avx2_eq_ref (inst : Instance) (pos : Position) (st : State) (mem : Array UInt64) (hI : InstOk inst)
    (hsl : pos.slice.toNat < 4) (hlane : pos.lane.toNat < inst.lanes.toNat)
    (hM : Rel st.memory mem) (hMs : st.memory.size = inst.memory_blocks.toNat)
    (hprs : st.pseudo_rands.size = inst.segment_length.toNat) :
    argon2_fill_segment_avx2 inst pos st = Argon2Ref.argon2_fill_segment_ref inst pos st :=
  fill_segment_eq Avx2P.backendOK inst pos st mem hI hsl hlane hM hMs hprs

theorem fill_segment_ssse3_eq_ref (inst : Instance) (pos : Position) (st : State) (mem : Array UInt64) (hI : InstOk inst)
    (hsl : pos.slice.toNat < 4) (hlane : pos.lane.toNat < inst.lanes.toNat)
    (hM : Rel st.memory mem) (hMs : st.memory.size = inst.memory_blocks.toNat)
    (hprs : st.pseudo_rands.size = inst.segment_length.toNat) :
    argon2_fill_segment_ssse3 inst pos st = Argon2Ref.argon2_fill_segment_ref inst pos st :=
  fill_segment_eq Ssse3P.backendOK inst pos st mem hI hsl hlane hM hMs hprs

theorem fill_segment_avx512f_eq_ref (inst : Instance) (pos : Position) (st : State) (mem : Array UInt64)
    (hI : InstOk inst) (hsl : pos.slice.toNat < 4) (hlane : pos.lane.toNat < inst.lanes.toNat)
    (hM : Rel st.memory mem) (hMs : st.memory.size = inst.memory_blocks.toNat)
    (hprs : st.pseudo_rands.size = inst.segment_length.toNat) :
    argon2_fill_segment_avx512f inst pos st = Argon2Ref.argon2_fill_segment_ref inst pos st :=
  fill_segment_eq Avx512fP.backendOK inst pos st mem hI hsl hlane hM hMs hprs

/-- hence `argon2_fill_segment_avx2` computes `Spec.Argon2.fillSegment` (RFC 9106 §3.4) on related memories -/
theorem fill_segment_avx2_spec (inst : Instance) (pos : Position) (st : State) (mem : Array UInt64) (hI : InstOk inst)
    (hsl : pos.slice.toNat < 4) (hlane : pos.lane.toNat < inst.lanes.toNat)
    (hM : Rel st.memory mem) (hMs : st.memory.size = inst.memory_blocks.toNat)
    (hprs : st.pseudo_rands.size = inst.segment_length.toNat) :
    Rel (argon2_fill_segment_avx2 inst pos st).memory
      (Argon2.fillSegment inst.type.toNat inst.passes.toNat inst.memory_blocks.toNat inst.lanes.toNat
        inst.lane_length.toNat pos.pass.toNat pos.slice.toNat pos.lane.toNat mem) := by
  rw [fill_segment_avx2_eq_ref inst pos st mem hI hsl hlane hM hMs hprs]
  exact (C08Core.fill_segment_spec inst pos st mem hI hsl hlane hM hMs hprs).1

/-- the three segment functions satisfy what the core needs of its `fill_segment` pointer -/
theorem segOK_all : SegOK argon2_fill_segment_avx2 ∧ SegOK argon2_fill_segment_ssse3 ∧ SegOK argon2_fill_segment_avx512f :=
  ⟨segOK_backend Avx2P.backendOK, segOK_backend Ssse3P.backendOK, segOK_backend Avx512fP.backendOK⟩

-- the hypotheses are those of C08Core.fill_segment_spec; an instance satisfying `InstOk` exists
example : InstOk ⟨3, 32, 8, 32, 1, 1, 2⟩ := ⟨by decide, by decide, by decide, by decide, by decide⟩

/-! ### (6) the core and `crypto_pwhash` over each backend -/

/-- `argon2_ctx` steps 2–5 with `fill_segment` = any of the three vector functions computes Argon2 of RFC 9106 -/
theorem argon2_ctx_core_simd_spec (seg : Instance → Position → State → State) (hseg : SegOK seg)
    (H : Nat → Bytes → Bytes) (hH : HLen H) (c : Context)
    (pwd salt secret ad : Bytes) (type : UInt32) (ht : type = Argon2Ref.Argon2_i ∨ type = Argon2Ref.Argon2_id)
    (hc : CoreOk c pwd salt secret ad) :
    Argon2Simd.argon2_ctx_core seg H c pwd salt secret ad type =
      Argon2.argon2 H type.toNat pwd salt secret ad c.t_cost c.m_cost c.lanes c.outlen := by
  rw [Argon2SimdP.argon2_ctx_core_eq seg hseg H hH c pwd salt secret ad type ht hc]
  exact C08Core.argon2_ctx_core_spec H hH c pwd salt secret ad type ht hc

/-- the entry used by `argon2_hash`, over a backend = the reference-structured model = RFC 9106 -/
theorem argon2_hash_model_simd_spec (seg : Instance → Position → State → State) (hseg : SegOK seg)
    (H : Nat → Bytes → Bytes) (hH : HLen H) (y : Nat) (pwd salt : Bytes)
    (t m lanes outlen : Nat) (hy : y = 1 ∨ y = 2) (ht : t < 2 ^ 32) (hm : m < 2 ^ 32)
    (hl : 1 ≤ lanes ∧ lanes ≤ 0xFFFFFF) (ho : outlen < 2 ^ 32) (hp : pwd.length < 2 ^ 32)
    (hs : salt.length < 2 ^ 32) :
    argon2_hash_model seg H y pwd salt t m lanes outlen = Argon2Ref.argon2_hash_ref_model H y pwd salt t m lanes outlen ∧
    argon2_hash_model seg H y pwd salt t m lanes outlen = Argon2.argon2 H y pwd salt [] [] t m lanes outlen := by
  have e := argon2_hash_model_eq seg hseg H hH y pwd salt t m lanes outlen hy ht hm hl ho hp hs
  exact ⟨e, e.trans (C08Core.argon2_hash_ref_model_spec H hH y pwd salt t m lanes outlen hy ht hm hl ho hp hs)⟩

/-- the primitives with the Argon2 core over a selected `fill_segment` -/
def simdPrims (seg : Instance → Position → State → State) (H : Nat → Bytes → Bytes)
    (scrypt : Bytes → Bytes → Nat → Nat → Nat → Nat → Bytes) : Prims :=
  { argon2 := argon2_hash_model seg H, scrypt := scrypt }

/-- `argon2_hash` (argon2.c) over a vector backend = `argon2_hash` over the reference core, for ALL arguments
    (out-of-range ones are rejected before the core runs) -/
theorem argon2_hash_simd_eq_ref (seg : Instance → Position → State → State) (hseg : SegOK seg)
    (H : Nat → Bytes → Bytes) (hH : HLen H)
    (sc : Bytes → Bytes → Nat → Nat → Nat → Nat → Bytes) (t_cost m_cost parallelism : Nat) (pwdNull : Bool)
    (pwd salt : Bytes) (hashlen encodedLen : Nat) (type : Argon2Type) :
    argon2_hash (simdPrims seg H sc) t_cost m_cost parallelism pwdNull pwd salt hashlen encodedLen type =
      argon2_hash (C08Core.refPrims H sc) t_cost m_cost parallelism pwdNull pwd salt hashlen encodedLen type := by
  unfold argon2_hash
  by_cases h1 : pwd.length > ARGON2_MAX_PWD_LENGTH
  · rw [if_pos h1, if_pos h1]
  rw [if_neg h1, if_neg h1]
  by_cases h2 : hashlen > ARGON2_MAX_OUTLEN
  · rw [if_pos h2, if_pos h2]
  rw [if_neg h2, if_neg h2]
  by_cases h3 : salt.length > ARGON2_MAX_SALT_LENGTH
  · rw [if_pos h3, if_pos h3]
  rw [if_neg h3, if_neg h3]
  dsimp only
  have key : ∀ c : Context, argon2_ctx (simdPrims seg H sc) c pwd salt type =
      argon2_ctx (C08Core.refPrims H sc) c pwd salt type := by
    intro c
    unfold argon2_ctx
    dsimp only
    by_cases hv : argon2_validate_inputs c ≠ ARGON2_OK
    · rw [if_pos hv, if_pos hv]
    · rw [if_neg hv, if_neg hv]
      have hok := (PwhashP.validate_ok_iff c).mp (Classical.not_not.mp hv)
      have hy : type.y = 1 ∨ type.y = 2 := by cases type <;> simp [Argon2Type.y]
      simp only [ARGON2_MAX_PWD_LENGTH, ARGON2_MAX_SALT_LENGTH, gt_iff_lt, Nat.not_lt] at h1 h3
      have := (argon2_hash_model_simd_spec seg hseg H hH type.y pwd salt c.t_cost c.m_cost c.lanes c.outlen hy
        (by have := hok.time; omega) (by have := hok.mem; omega) hok.lanes (by have := hok.outlen; omega)
        (by omega) (by omega)).1
      show (ARGON2_OK, argon2_hash_model seg H type.y pwd salt c.t_cost c.m_cost c.lanes c.outlen) = _
      rw [this]; rfl
  rw [key]

/-- every public function of the crypto_pwhash family computes the same over a vector backend as over the
    reference core (hence, by C08Core, as over the specification) -/
theorem crypto_pwhash_simd_eq_ref (seg : Instance → Position → State → State) (hseg : SegOK seg)
    (H : Nat → Bytes → Bytes) (hH : HLen H)
    (sc : Bytes → Bytes → Nat → Nat → Nat → Nat → Bytes) (outlen : Nat) (passwd salt : Bytes)
    (opslimit memlimit : Nat) (alg : Int) :
    crypto_pwhash (simdPrims seg H sc) outlen passwd salt opslimit memlimit alg =
      crypto_pwhash (C08Core.refPrims H sc) outlen passwd salt opslimit memlimit alg := by
  unfold crypto_pwhash crypto_pwhash_argon2
  simp only [argon2_hash_simd_eq_ref seg hseg H hH sc]

theorem crypto_pwhash_str_simd_eq_ref (seg : Instance → Position → State → State) (hseg : SegOK seg)
    (H : Nat → Bytes → Bytes) (hH : HLen H)
    (sc : Bytes → Bytes → Nat → Nat → Nat → Nat → Bytes) (type : Argon2Type) (passwd : Bytes)
    (opslimit memlimit : Nat) (rnd : Bytes) :
    crypto_pwhash_argon2_str (simdPrims seg H sc) type passwd opslimit memlimit rnd =
      crypto_pwhash_argon2_str (C08Core.refPrims H sc) type passwd opslimit memlimit rnd := by
  unfold crypto_pwhash_argon2_str
  simp only [argon2_hash_simd_eq_ref seg hseg H hH sc]

theorem crypto_pwhash_str_verify_simd_eq_ref (seg : Instance → Position → State → State) (hseg : SegOK seg)
    (H : Nat → Bytes → Bytes) (hH : HLen H)
    (sc : Bytes → Bytes → Nat → Nat → Nat → Nat → Bytes) (str passwd : Bytes) :
    crypto_pwhash_str_verify (simdPrims seg H sc) str passwd =
      crypto_pwhash_str_verify (C08Core.refPrims H sc) str passwd := by
  unfold crypto_pwhash_str_verify crypto_pwhash_argon2_str_verify argon2_verify
  simp only [argon2_hash_simd_eq_ref seg hseg H hH sc]

/-- the raw API end to end over each backend: `crypto_pwhash` on accepted arguments returns Argon2 (RFC 9106) of
    type `alg` with t = opslimit passes, m = memlimit / 1024 KiB, p = 1 -/
theorem crypto_pwhash_simd_is_rfc9106 (seg : Instance → Position → State → State) (hseg : SegOK seg)
    (H : Nat → Bytes → Bytes) (hH : HLen H)
    (sc : Bytes → Bytes → Nat → Nat → Nat → Nat → Bytes) (outlen : Nat) (passwd salt : Bytes)
    (opslimit memlimit : Nat) (alg : Int) (hsalt : 16 ≤ salt.length)
    (h : (crypto_pwhash (simdPrims seg H sc) outlen passwd salt opslimit memlimit alg).rc = 0) :
    (crypto_pwhash (simdPrims seg H sc) outlen passwd salt opslimit memlimit alg).out =
      Argon2.argon2 H (if alg = 1 then 1 else 2) passwd (salt.take 16) [] [] opslimit (memlimit / 1024) 1 outlen := by
  rw [crypto_pwhash_simd_eq_ref seg hseg H hH sc] at h ⊢
  exact C08Core.crypto_pwhash_is_rfc9106 H hH sc outlen passwd salt opslimit memlimit alg hsalt h

theorem crypto_pwhash_avx2_is_rfc9106 (H : Nat → Bytes → Bytes) (hH : HLen H)
    (sc : Bytes → Bytes → Nat → Nat → Nat → Nat → Bytes) (outlen : Nat) (passwd salt : Bytes)
    (opslimit memlimit : Nat) (alg : Int) (hsalt : 16 ≤ salt.length)
    (h : (crypto_pwhash (simdPrims argon2_fill_segment_avx2 H sc) outlen passwd salt opslimit memlimit alg).rc = 0) :
    (crypto_pwhash (simdPrims argon2_fill_segment_avx2 H sc) outlen passwd salt opslimit memlimit alg).out =
      Argon2.argon2 H (if alg = 1 then 1 else 2) passwd (salt.take 16) [] [] opslimit (memlimit / 1024) 1 outlen :=
  crypto_pwhash_simd_is_rfc9106 _ segOK_all.1 H hH sc outlen passwd salt opslimit memlimit alg hsalt h

theorem crypto_pwhash_ssse3_is_rfc9106 (H : Nat → Bytes → Bytes) (hH : HLen H)
    (sc : Bytes → Bytes → Nat → Nat → Nat → Nat → Bytes) (outlen : Nat) (passwd salt : Bytes)
    (opslimit memlimit : Nat) (alg : Int) (hsalt : 16 ≤ salt.length)
    (h : (crypto_pwhash (simdPrims argon2_fill_segment_ssse3 H sc) outlen passwd salt opslimit memlimit alg).rc = 0) :
    (crypto_pwhash (simdPrims argon2_fill_segment_ssse3 H sc) outlen passwd salt opslimit memlimit alg).out =
      Argon2.argon2 H (if alg = 1 then 1 else 2) passwd (salt.take 16) [] [] opslimit (memlimit / 1024) 1 outlen :=
  crypto_pwhash_simd_is_rfc9106 _ segOK_all.2.1 H hH sc outlen passwd salt opslimit memlimit alg hsalt h

theorem crypto_pwhash_avx512f_is_rfc9106 (H : Nat → Bytes → Bytes) (hH : HLen H)
    (sc : Bytes → Bytes → Nat → Nat → Nat → Nat → Bytes) (outlen : Nat) (passwd salt : Bytes)
    (opslimit memlimit : Nat) (alg : Int) (hsalt : 16 ≤ salt.length)
    (h : (crypto_pwhash (simdPrims argon2_fill_segment_avx512f H sc) outlen passwd salt opslimit memlimit alg).rc = 0) :
    (crypto_pwhash (simdPrims argon2_fill_segment_avx512f H sc) outlen passwd salt opslimit memlimit alg).out =
      Argon2.argon2 H (if alg = 1 then 1 else 2) passwd (salt.take 16) [] [] opslimit (memlimit / 1024) 1 outlen :=
  crypto_pwhash_simd_is_rfc9106 _ segOK_all.2.2 H hH sc outlen passwd salt opslimit memlimit alg hsalt h

/-- the executable driver: for `m_cost ≤ 64` its second set of primitives (`primsAvx2`, compared with `prims` line by
    line, ` MODEL-DISAGREE` on a difference) runs exactly the AVX2-structured core defined here, over RFC 7693 BLAKE2b -/
theorem driver_primsAvx2_eq :
    Driver.C08.primsAvx2.argon2 = (fun y pwd salt t m lanes outlen =>
      if m ≤ 64 then (simdPrims argon2_fill_segment_avx2 Driver.C08.blake2b Driver.C08.scryptRef).argon2 y pwd salt t m lanes outlen
      else Driver.C08.prims.argon2 y pwd salt t m lanes outlen) ∧
    Driver.C08.primsAvx2.scrypt = Driver.C08.prims.scrypt := ⟨rfl, rfl⟩

/-- … and the two sets of driver primitives agree on every validated parameter set, so the driver can never print
    ` MODEL-DISAGREE` for a tag the library computes -/
theorem driver_prims_agree (y : Nat) (pwd salt : Bytes) (t m lanes outlen : Nat) (hy : y = 1 ∨ y = 2)
    (ht : t < 2 ^ 32) (hm : m < 2 ^ 32) (hl : 1 ≤ lanes ∧ lanes ≤ 0xFFFFFF) (ho : outlen < 2 ^ 32)
    (hp : pwd.length < 2 ^ 32) (hs : salt.length < 2 ^ 32) :
    Driver.C08.primsAvx2.argon2 y pwd salt t m lanes outlen = Driver.C08.prims.argon2 y pwd salt t m lanes outlen := by
  show (if m ≤ 64 then argon2_hash_model argon2_fill_segment_avx2 Driver.C08.blake2b y pwd salt t m lanes outlen
    else Argon2Ref.argon2_hash_ref_model Driver.C08.blake2b y pwd salt t m lanes outlen) =
    Argon2Ref.argon2_hash_ref_model Driver.C08.blake2b y pwd salt t m lanes outlen
  split
  · exact (argon2_hash_model_simd_spec _ segOK_all.1 _ C08Core.blake2b_returns_outlen y pwd salt t m lanes outlen hy ht hm
      hl ho hp hs).1
  · rfl

end Sodium.C08Simd
