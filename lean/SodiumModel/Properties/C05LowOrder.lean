import SodiumModel.Properties.C05
import SodiumModel.Proofs.ScalarmultLowOrder
/-
  C05, continued — the ref10 early reject is sound for EVERY scalar.

  `Properties/C05.lean` (`blocklist_sound`) evaluates the RFC 7748 ladder on the 7 table rows for
  concrete clamped scalars.  Here the same is proved for all scalars: the ladder maps every blocklisted
  encoding to 0 whenever the scalar is a multiple of 8 below 2^255, in particular after clamping.  Hence
  the early `return -1` of `crypto_scalarmult_curve25519_ref10` never refuses a point on which the
  specification would succeed, and the ref10 and sandy2x paths return the same code on every input.

  The helper file `Proofs/ScalarmultLowOrder.lean` is the only one that imports Mathlib (`ZMod`, `ring`);
  this file is kept separate so that `Properties/C05.lean` elaborates with core Lean only.
-/
open Sodium Sodium.Model Sodium.Model.Scalarmult Sodium.ScalarmultP Sodium.Spec
namespace Sodium.C05

/-- the ladder on a table row is 0 for every multiple of 8 below 2^255 -/
theorem blocklist_ladder_all (row : Bytes) (hr : row ∈ blacklist) (k : Nat)
    (hk : k < 57896044618658097711785492504343953926634992332820282019728792003956564819968)
    (h8 : k % 8 = 0) : X25519.ladder k (X25519.decodeU row) = 0 :=
  ScalarmultLow.ladder_blocklist row hr k (by simpa using hk) h8

/-- **The early reject is sound for every scalar**: if `u` with bit 255 cleared is a table row, then
    X25519(k, u) is the all-zero string for every byte string `k`, i.e. the specification's
    `scalarmult` fails too. -/
theorem blocklist_sound_all (k u : Bytes) (hu : clearTop u ∈ blacklist) :
    X25519.x25519 k u = zeros 32 ∧ X25519.scalarmult k u = none := by
  have h := ScalarmultLow.x25519_blocklist k u hu
  exact ⟨h, by rw [spec_scalarmult_eq, if_pos h]⟩

/-- With the RFC 7748 ladder, ref10 behind the wrapper returns the specification's result on EVERY
    input: same return code, and on success the same 32 bytes.  (On a blocklisted point the output
    buffer is left unwritten instead of being zero-filled; that is the only difference.) -/
theorem ref10_eq_spec (n p : Bytes) (hp : p.length = 32) :
    crypto_scalarmult_curve25519 (mult_ref10 X25519.x25519) n p =
      match X25519.scalarmult n p with
      | none => (-1, if clearTop p ∈ blocklist then none else some (zeros 32))
      | some q => (0, some q) := by
  rw [(model_eq_spec n p).2 hp]
  by_cases h : clearTop p ∈ blocklist
  · rw [if_pos h, (blocklist_sound_all n p h).2, if_pos h]
  · rw [if_neg h]
    cases X25519.scalarmult n p with
    | none => rw [if_neg h]
    | some q => rfl

/-- ref10 and sandy2x return the same code on every input and the same bytes on success -/
theorem impl_agree_spec (n p : Bytes) (hp : p.length = 32) :
    (crypto_scalarmult_curve25519 (mult_ref10 X25519.x25519) n p).1 =
      (crypto_scalarmult_curve25519 (mult_sandy2x X25519.x25519) n p).1 ∧
    ((crypto_scalarmult_curve25519 (mult_ref10 X25519.x25519) n p).1 = 0 →
      crypto_scalarmult_curve25519 (mult_ref10 X25519.x25519) n p =
        crypto_scalarmult_curve25519 (mult_sandy2x X25519.x25519) n p) :=
  impl_rc_agree X25519.x25519 x25519_length n p hp
    (fun h => by rw [x25519_clamp]; exact (blocklist_sound_all n p h).1)

end Sodium.C05
