import SodiumModel.Model.GcmAesni
import SodiumModel.Spec.Gcm
import SodiumModel.Proofs.GcmAesniAes
import SodiumModel.Proofs.GcmAesniCtr
import SodiumModel.Proofs.GcmAesniGlue
import SodiumModel.Proofs.GcmAesniLimits
import SodiumModel.Proofs.GcmAesni

/-
  C01 / C02 for AES-256-GCM — libsodium's AES-NI + PCLMULQDQ implementation
  (`crypto_aead/aes256gcm/aesni/aead_aes256gcm_aesni.c`, the only implementation of
  `crypto_aead_aes256gcm_*` on x86), modelled to the structure of the C in `Model/GcmAesni.lean`
  (over a transcribed semantics of the intrinsics, validated against the CPU by `simdcheck/gcm/`),
  equals the specification `Spec/Gcm.lean` + `Spec/Aes.lean` (NIST SP 800-38D, FIPS 197) for every
  key, nonce, associated data and message the code accepts.
  Property theorems only; the proofs live in `Proofs/GcmAesni*.lean`:
    GcmAesniAes (key schedule, block encryption), GcmAesniBasic/Ctr (registers, counter),
    GcmAesniField (GF(2)[x] ≅ bit strings, clmul128 / gcm_reduce as polynomial identities; Mathlib),
    GcmAesniGhash (SP 800-38D Algorithm 1 = a·b·x^(-127) mod x^128+x^127+x^126+x^121+1, hx[0]),
    GcmAesniAgg / AdBlocks / Precomp (aggregated GHASH = sequential GHASH, the table of powers),
    GcmAesniSpecLink / Glue (bytes ↔ blocks, GHASH, S, T), GcmAesniEnc / Dec (the loops), GcmAesni (end to end).
-/
open Sodium Sodium.Model.GcmAesni Sodium.Spec Sodium.GcmAesniP
namespace Sodium.C01Gcm

/-! ### (1) key schedule and block encryption -/

/-- `expand256` produces the 15 round keys of the FIPS-197 key expansion (§5.2, Nk = 8) for every 32-byte key -/
theorem expand256_is_fips197 (key : Bytes) (h : key.length = 32) :
    (expand256 key).map STORE128 = Aes.keyExpansion256 key := AesK.expand256_eq key h

theorem expand256_count (key : Bytes) : (expand256 key).length = 15 := AesK.expand256_length key

/-- `encrypt(st, dst, src)` is the FIPS-197 cipher under the stored round keys … -/
theorem encrypt_is_cipher (st : State) (h : st.rkeys.length = 15) (src : Bytes) (hs : src.length = 16) :
    encrypt st src = Aes.cipher (st.rkeys.map STORE128) src := AesK.encrypt_eq st h src hs

/-- … hence AES-256 of the key after `expand256` -/
theorem encrypt_is_aes256 (key : Bytes) (h : key.length = 32) (hx : List Precomp) (src : Bytes) (hs : src.length = 16) :
    encrypt { rkeys := expand256 key, hx := hx } src = Aes.encryptBlock256 key src :=
  AesK.encrypt_expand256 key h hx src hs

/-- `encrypt_xor_block`: one CTR block, `src ⊕ E(counter)` -/
theorem encrypt_xor_block_is_ctr_block (st : State) (h : st.rkeys.length = 15) (src : Bytes) (hs : 16 ≤ src.length)
    (counter : BlockVec) :
    encrypt_xor_block st src counter
      = xorBytes (Aes.cipher (st.rkeys.map STORE128) (STORE128 counter)) (src.take 16) :=
  AesK.encrypt_xor_block_eq st h src hs counter

/-- `encrypt_xor_wide`: the interleaved 7-block pipeline is seven single blocks -/
theorem encrypt_xor_wide_is_7_blocks (st : State) (h : st.rkeys.length = 15) (src : Bytes) (hs : 112 ≤ src.length)
    (counters : List BlockVec) (hc : counters.length = 7) :
    encrypt_xor_wide st src counters
      = ((List.range 7).map fun j => encrypt_xor_block st (src.drop (16 * j)) (counters.getD j 0)).flatten :=
  AesK.encrypt_xor_wide_eq st h src hs counters hc

/-! ### (2) counter blocks -/

/-- the byte-reversed counter register after `REV128(LOAD128(npub ‖ BE32(2)))` holds `npub·2^32 + 2` -/
theorem counter_init (npub : Bytes) (h : npub.length = 12) :
    (REV128 (LOAD128 (npub.take NPUBBYTES ++ STORE32_BE 2))).toNat = be npub * 2 ^ 32 + 2 :=
  Ctr.counter_init npub h

/-- `incr_counters`: from counter value `c`, a batch of ANY size `n` (the code uses 7, 4, 2) yields exactly the blocks
    `npub ‖ BE32(c), …, npub ‖ BE32(c + n − 1)` and leaves the counter at `c + n`, for every `c` with `c + n < 2^32`:
    every carry across a byte boundary, inside a batch or between batches, is propagated -/
theorem incr_counters_exact (npub : Bytes) (h : npub.length = 12) (counter : BlockVec) (c n : Nat)
    (hc : counter.toNat = be npub * 2 ^ 32 + c) (hn : c + n < 2 ^ 32) :
    (incr_counters counter n).1.map STORE128 = (List.range n).map (fun j => Ctr.ctrBlock npub (c + j)) ∧
    (incr_counters counter n).2.toNat = be npub * 2 ^ 32 + (c + n) :=
  Ctr.incr_counters_spec npub h counter c n hc hn

/-- the single-block path: `REV128(counter)` is the block, `ADD64x2(counter, one)` the next value -/
theorem counter_step_exact (npub : Bytes) (h : npub.length = 12) (counter : BlockVec) (c : Nat)
    (hc : counter.toNat = be npub * 2 ^ 32 + c) (h1 : c + 1 < 2 ^ 32) :
    STORE128 (REV128 counter) = Ctr.ctrBlock npub c ∧
    (ADD64x2 counter ONE128).toNat = be npub * 2 ^ 32 + (c + 1) :=
  Ctr.counter_step_spec npub h counter c hc h1

/-- the i-th counter block of the specification (inc_32 iterated from inc_32(J0)) is `npub ‖ BE32(i + 2)`, i < 2^32 − 2 -/
theorem spec_counter_block (npub : Bytes) (h : npub.length = 12) (i : Nat) (hi : i < 2 ^ 32 - 2) :
    Nat.repeat Gcm.inc32 i (Gcm.inc32 (npub ++ [0, 0, 0, 1])) = Ctr.ctrBlock npub (i + 2) :=
  Ctr.ctr_block_i npub h i hi

/-- DEVIATION (unreachable): the code increments a 64-bit lane, so at counter value 2^32 − 1 it carries into the last
    four nonce bytes where inc_32 wraps.  `required_blocks` (m_blocks < 2^32 − 2) keeps every call below that. -/
theorem counter_wrap_deviation :
    STORE128 (REV128 (ADD64x2 (REV128 (LOAD128 (zeros 12 ++ [0xff, 0xff, 0xff, 0xff]))) ONE128))
      ≠ Gcm.inc32 (zeros 12 ++ [0xff, 0xff, 0xff, 0xff]) := by decide +kernel

theorem counter_wrap_unreachable (ad_len m_len : UInt64) (h : required_blocks ad_len m_len ≠ 0) :
    2 + (m_len.toNat + 15) / 16 < 2 ^ 32 := Ctr.required_blocks_counter_bound ad_len m_len h

example : (incr_counters (REV128 (LOAD128 (zeros 12 ++ STORE32_BE 254))) 7).1.map STORE128
    = (List.range 7).map (fun j => zeros 12 ++ toBE 4 (254 + j)) := by decide +kernel

/-! ### (3) multiplication in GF(2^128) -/

/-- `gcm_reduce(clmul128(a, hx[0]))`, with `hx[0]` the key shifted left one bit and reduced as `precomp_for_block_count`
    computes it, is X • Y of SP 800-38D §6.3 (Algorithm 1) for every pair of blocks: the four PCLMULQDQ partial
    products, the folding of the middle word and the two-step reduction modulo x^128 + x^7 + x^2 + x + 1 in the
    bit-reflected representation -/
theorem clmul_reduce_is_gf128_mul (a h : Bytes) (ha : a.length = 16) (hh : h.length = 16) :
    STORE128 (REV128 (gcm_reduce (clmul128 (REV128 (LOAD128 a)) (hshift (REV128 (LOAD128 h)))))) = Gcm.gmul a h :=
  GF.mont_eq_gmul a h ha hh

/-- `clsq128` is the squaring: same reduced product as `clmul128(a, a)` -/
theorem clsq_is_square (a : BlockVec) : gcm_reduce (clsq128 a) = gcm_reduce (clmul128 a a) := GF.clsq_eq_clmul a

example : Gcm.gmul (zeros 15 ++ [1]) (zeros 15 ++ [1]) ≠ zeros 16 := by decide +kernel

/-! ### (4) aggregated GHASH = sequential GHASH -/

/-- after `crypto_aead_aes256gcm_beforenm` — whatever `st->hx` held before — the round keys are the FIPS-197 ones and the
    table of precomputed powers makes every aggregated form of the file (14, 7, 4, 2, 1 blocks, the split 7+7 form of
    the main loops, `gh_ad_blocks` over any whole number of blocks) equal to the sequential GHASH with
    H = AES-256_k(0^128) -/
theorem beforenm_table_ok (k : Bytes) (hk : k.length = 32) (hx_init : List Precomp) (hl : hx_init.length = 14) :
    let st := crypto_aead_aes256gcm_beforenm k hx_init
    st.rkeys.length = 15 ∧ st.rkeys.map STORE128 = Aes.keyExpansion256 k ∧
    GhOK st (REV128 (LOAD128 (Aes.encryptBlock256 k (zeros 16)))) :=
  GF.beforenm_ok k hk hx_init hl

/-- Horner regrouping: the deferred-reduction accumulation over n ≤ 14 blocks with the powers `hx[n-1], …, hx[0]`
    equals n sequential steps Y ← (Y ⊕ X_i) • H -/
theorem aggregated_is_sequential {st : State} {h0 : BlockVec} (h : GF.HxOK st h0) (acc : BlockVec) (p : Bytes) (n : Nat)
    (h1 : 1 ≤ n) (h2 : n ≤ PC_COUNT) : gh_agg st acc p n = ghFold h0 acc p n := GF.agg_ok h acc p n h1 h2

/-- `gh_ad_blocks` over `len` bytes (a whole number of blocks) = `len / 16` sequential steps, for every `len` -/
theorem gh_ad_blocks_is_sequential {st : State} {h0 : BlockVec} (h : GF.HxOK st h0) (acc : BlockVec) (p : Bytes) (len : Nat)
    (hl : len % 16 = 0) : gh_ad_blocks st acc p len = ghFold h0 acc p (len / 16) :=
  (GF.GhOK_of_HxOK h).ad_blocks acc p len hl

/-- the sequential steps from the zero accumulator are GHASH_H (SP 800-38D §6.4, Algorithm 2) -/
theorem sequential_is_ghash (h : Bytes) (hh : h.length = 16) (data : Bytes) (n : Nat) (hd : data.length = 16 * n) :
    STORE128 (REV128 (ghFold (REV128 (LOAD128 h)) gh_init data n)) = Gcm.ghash h data :=
  GF.ghFold_eq_ghash h hh data n hd

/-! ### (5) the encryption loops are CTR mode, the hashing loops GHASH -/

/-- `aes_gcm_encrypt_generic` for EVERY message and AD length — the 2·7-block pipeline with its lagging hash, the 7-, 4-,
    2- and 1-block loops and the partial (or exactly full) last block handled through `last_blocks` — writes
    GCTR_K(npub ‖ BE32(2), src) and computes the tag E(J0) ⊕ GHASH over padded AD, padded ciphertext and the length block;
    the result does not depend on the indeterminate stack bytes `last_blocks` starts with -/
theorem encrypt_generic_is_ctr_ghash (st : State) (h0 : BlockVec) (hg : GhOK st h0) (hk : st.rkeys.length = 15)
    (npub : Bytes) (hn : npub.length = 12) (src ad : Bytes) (hlen : (src.length + 15) / 16 + 2 < 2 ^ 32)
    (had : ad.length < 2 ^ 64) (acc0 : BlockVec) (stack : Bytes) (hstack : stack.length = 32) :
    let E := Aes.cipher (st.rkeys.map STORE128)
    let ct := Gcm.gctr E (Ctr.ctrBlock npub 2) src
    let accAD := ghFold h0 acc0 (ad ++ Gcm.pad16 ad.length) ((ad.length + 15) / 16)
    let accCT := ghFold h0 accAD (ct ++ Gcm.pad16 ct.length) ((ct.length + 15) / 16)
    let accF := ghB h0 accCT (STORE128 (final_block ad.length src.length))
    aes_gcm_encrypt_generic st acc0 src ad (npub.take NPUBBYTES ++ STORE32_BE 2) stack
      = (ct, STORE128 (XOR128 (LOAD128 (E (npub ++ [0, 0, 0, 1]))) (REV128 accF))) :=
  Enc.encrypt_generic_spec st h0 hg hk npub hn src ad hlen had acc0 stack hstack

/-- `aes_gcm_decrypt_generic`: the same CTR stream, the tag computed over the INPUT -/
theorem decrypt_generic_is_ctr_ghash (st : State) (h0 : BlockVec) (hg : GhOK st h0) (hk : st.rkeys.length = 15)
    (npub : Bytes) (hn : npub.length = 12) (src ad : Bytes) (hlen : (src.length + 15) / 16 + 2 < 2 ^ 32)
    (hal : ad.length < 2 ^ 64) (acc0 : BlockVec) :
    let E := Aes.cipher (st.rkeys.map STORE128)
    let accAD := ghFold h0 acc0 (ad ++ Gcm.pad16 ad.length) ((ad.length + 15) / 16)
    let accCT := ghFold h0 accAD (src ++ Gcm.pad16 src.length) ((src.length + 15) / 16)
    let accF := ghB h0 accCT (STORE128 (final_block ad.length src.length))
    aes_gcm_decrypt_generic st acc0 src ad (npub.take NPUBBYTES ++ STORE32_BE 2)
      = (Gcm.gctr E (Ctr.ctrBlock npub 2) src, STORE128 (XOR128 (LOAD128 (E (npub ++ [0, 0, 0, 1]))) (REV128 accF))) :=
  Dec.decrypt_generic_spec st h0 hg hk npub hn src ad hlen hal acc0

/-- GCTR with the counter blocks written out: block j is XORed with CIPH(npub ‖ BE32(2 + j)) -/
theorem ctr_blocks_explicit (ciph : Bytes → Bytes) (npub : Bytes) (h : npub.length = 12) (xs : List Bytes) :
    Gcm.gctrBlocks ciph (Ctr.ctrBlock npub 2) xs
      = List.zipWith (fun x k => xorBytes x (ciph (Ctr.ctrBlock npub k))) xs (List.range' 2 xs.length) :=
  Ctr.gctrBlocks_ctrBlock ciph npub h xs 2

/-- the length block and the authenticated string S of SP 800-38D §7.1 step 5 -/
theorem final_block_is_len_block (al sl : Nat) :
    STORE128 (final_block al sl) = toBE 8 (8 * al) ++ toBE 8 (8 * sl) := GF.final_block_bytes al sl

/-! ### (6) end to end -/

/-- `crypto_aead_aes256gcm_encrypt_detached` = `Spec.Gcm.encrypt` (NIST SP 800-38D GCM-AE with AES-256, 96-bit IV,
    128-bit tag) for every key, nonce, AD (≤ SIZE_MAX − 224 bytes) and message (≤ 2^32 − 3 blocks) -/
theorem encrypt_detached_is_gcm (m ad npub k : Bytes) (hk : k.length = 32) (hn : npub.length = 12)
    (ha : ad.length ≤ 2 ^ 64 - 225) (hm : m.length ≤ 16 * (2 ^ 32 - 3)) :
    crypto_aead_aes256gcm_encrypt_detached m ad npub k
      = .done 0 (Gcm.encrypt k npub ad m).1 (Gcm.encrypt k npub ad m).2 :=
  encrypt_detached_eq m ad npub k hk hn ha hm

/-- …whatever `st->hx` and the stack buffer `last_blocks` contained before (both are read or partly kept by the C) -/
theorem encrypt_detached_indep_of_uninit (m ad npub k : Bytes) (hk : k.length = 32) (hn : npub.length = 12)
    (ha : ad.length ≤ 2 ^ 64 - 225) (hm : m.length ≤ 16 * (2 ^ 32 - 3))
    (hx_init : List Precomp) (hl : hx_init.length = 14) (stack : Bytes) (hs : stack.length = 32) :
    crypto_aead_aes256gcm_encrypt_detached_afternm (crypto_aead_aes256gcm_beforenm k hx_init) m ad npub stack
      = .done 0 (Gcm.encrypt k npub ad m).1 (Gcm.encrypt k npub ad m).2 :=
  encrypt_detached_gen m ad npub k hk hn ha hm hx_init hl stack hs

/-- combined mode -/
theorem encrypt_is_gcm (m ad npub k : Bytes) (hk : k.length = 32) (hn : npub.length = 12)
    (ha : ad.length ≤ 2 ^ 64 - 225) (hm : m.length ≤ 16 * (2 ^ 32 - 3)) :
    crypto_aead_aes256gcm_encrypt m ad npub k
      = some (0, (Gcm.encrypt k npub ad m).1 ++ (Gcm.encrypt k npub ad m).2, m.length + 16) :=
  encrypt_combined_eq m ad npub k hk hn ha hm

/-- `crypto_aead_aes256gcm_decrypt_detached` (with an output buffer, or `m == NULL` = verify only) accepts iff
    `Spec.Gcm.decrypt` does, i.e. iff the tag matches, and then returns the GCM-AD plaintext.
    QUIRK: on failure the output buffer is filled with 0xd0 (`memset(m, 0xd0, m_len)`), not zeroed. -/
theorem decrypt_detached_is_gcm (wantM : Bool) (c mac ad npub k : Bytes) (hk : k.length = 32) (hn : npub.length = 12)
    (hmac : mac.length = 16) (ha : ad.length ≤ 2 ^ 64 - 225) (hc : c.length ≤ 16 * (2 ^ 32 - 3)) :
    crypto_aead_aes256gcm_decrypt_detached wantM c mac ad npub k =
      match Gcm.decrypt k npub ad c mac with
      | some m => some (0, if wantM then some m else none)
      | none => some (-1, if wantM then some (List.replicate c.length 0xd0) else none) :=
  decrypt_detached_eq wantM c mac ad npub k hk hn hmac ha hc

theorem decrypt_is_gcm (wantM : Bool) (cm ad npub k : Bytes) (hk : k.length = 32) (hn : npub.length = 12)
    (h16 : 16 ≤ cm.length) (ha : ad.length ≤ 2 ^ 64 - 225) (hc : cm.length - 16 ≤ 16 * (2 ^ 32 - 3)) :
    crypto_aead_aes256gcm_decrypt wantM cm ad npub k =
      match Gcm.decrypt k npub ad (cm.take (cm.length - 16)) (cm.drop (cm.length - 16)) with
      | some m => some (0, if wantM then some m else none, cm.length - 16)
      | none => some (-1, if wantM then some (List.replicate (cm.length - 16) 0xd0) else none, 0) :=
  decrypt_combined_eq wantM cm ad npub k hk hn h16 ha hc

theorem decrypt_short_input (wantM : Bool) (cm ad npub k : Bytes) (h : cm.length < 16) :
    crypto_aead_aes256gcm_decrypt wantM cm ad npub k = some (-1, none, 0) :=
  decrypt_combined_short wantM cm ad npub k h

/-- beyond the limits: no `sodium_misuse`; encryption returns −1 with `c` zeroed and `mac` = 0xd0…, decryption −1 with
    `m` untouched -/
theorem encrypt_beyond_limits (m ad npub k : Bytes) (ha : ad.length < 2 ^ 64) (hm : m.length < 2 ^ 64)
    (h : ¬ (ad.length ≤ 2 ^ 64 - 225 ∧ m.length ≤ 16 * (2 ^ 32 - 3))) :
    crypto_aead_aes256gcm_encrypt_detached m ad npub k = .done (-1) (zeros m.length) (List.replicate 16 0xd0) :=
  encrypt_detached_refuses m ad npub k ha hm h

theorem decrypt_beyond_limits (wantM : Bool) (c mac ad npub k : Bytes) (ha : ad.length < 2 ^ 64) (hc : c.length < 2 ^ 64)
    (h : ¬ (ad.length ≤ 2 ^ 64 - 225 ∧ c.length ≤ 16 * (2 ^ 32 - 3))) :
    crypto_aead_aes256gcm_decrypt_detached wantM c mac ad npub k = some (-1, none) :=
  decrypt_detached_refuses wantM c mac ad npub k ha hc h

/-- non-vacuity: a concrete instance (17-byte message, 5-byte AD) -/
example : crypto_aead_aes256gcm_encrypt_detached (List.replicate 17 7) (List.replicate 5 9) (List.replicate 12 1) (List.replicate 32 2)
    = .done 0 (Gcm.encrypt (List.replicate 32 2) (List.replicate 12 1) (List.replicate 5 9) (List.replicate 17 7)).1
        (Gcm.encrypt (List.replicate 32 2) (List.replicate 12 1) (List.replicate 5 9) (List.replicate 17 7)).2 :=
  encrypt_detached_is_gcm _ _ _ _ (by decide) (by decide) (by decide) (by decide)

/-! ### limits -/

/-- `required_blocks` accepts exactly AD of at most SIZE_MAX − 224 bytes and messages of at most 2^32 − 3 blocks -/
theorem required_blocks_accepts_iff (al ml : Nat) (ha : al < 2 ^ 64) (hm : ml < 2 ^ 64) :
    required_blocks (UInt64.ofNat al) (UInt64.ofNat ml) ≠ 0 ↔ (al ≤ 2 ^ 64 - 225 ∧ ml ≤ 16 * (2 ^ 32 - 3)) :=
  required_blocks_ne_zero_iff al ml ha hm

/-- DEVIATION from the documented limit: `crypto_aead_aes256gcm_MESSAGEBYTES_MAX` = 16·(2^32 − 2) (the SP 800-38D bound
    2^39 − 256 bits), but the test `m_blocks >= (1ULL << 32) - 2` refuses the last 16 bytes of that range:
    a message of exactly MESSAGEBYTES_MAX bytes gets −1 -/
theorem messagebytes_max_refused :
    required_blocks 0 (UInt64.ofNat (16 * (2 ^ 32 - 2))) = 0 ∧ required_blocks 0 (UInt64.ofNat (16 * (2 ^ 32 - 3))) ≠ 0 := by
  decide +kernel

end Sodium.C01Gcm
