import SodiumModel.Model.Poly1305Donna
import SodiumModel.Spec.Poly1305
import SodiumModel.Proofs.Poly1305Donna
import SodiumModel.Properties.C04
/-
  C04 (Poly1305 part) — the 64-bit limb arithmetic of poly1305_donna64.h
  (Model/Poly1305Donna.lean: 44/44/42-bit limbs in UInt64, products in uint128_t modelled as
  `Nat` reduced `% 2^128` after every operation) equals RFC 8439 §2.5:

  * `init_spec`          the limbs of r are the clamped key half, pad is the other half
  * `blocks_spec`        the invariant `Inv` is preserved by a block and
                         val h' ≡ (val h + block + hibit·2^128) · r  (mod 2^130 − 5)
  * `blocks_no_overflow` under the invariants no 64-bit / 128-bit operation wraps or truncates
  * `finish_spec`        the 16 output bytes are ((val h mod p) + pad) mod 2^128: the carry passes
                         fully reduce, `g = h + 5 − 2^130` is selected iff h ≥ p
  * `donna64_eq_abstract`, `donna64_mac_eq_spec`
                         through the streaming front-end of Model/Hash.lean the donna64
                         functions give `Spec.Poly1305.mac key msg` for every key, every message
                         and every chunking.
-/
open Sodium Sodium.Model Sodium.Model.Poly1305Donna Sodium.PolyDonnaP
namespace Sodium.C04Poly

/-- 2^130 − 5 -/
abbrev p : Nat := Spec.Poly1305.p

/-! ### poly1305_init -/

/-- After `poly1305_init` the limbs r0 + r1·2^44 + r2·2^88 are the clamped first key half
    (loads of a key shorter than 32 bytes read zeros), with r0, r1 < 2^44 and r2 < 2^36;
    h = 0; pad[0] + 2^64·pad[1] is the second key half. -/
theorem init_spec (key : Bytes) :
    val (poly1305_init key).r = Spec.Poly1305.clampR (le (key.take 16)) ∧
    RInv (poly1305_init key) ∧ (poly1305_init key).h = (0, 0, 0) ∧
    padVal (poly1305_init key) = le ((key.drop 16).take 16) :=
  init_spec_aux key

/-- the state after init satisfies both invariants -/
theorem init_inv (key : Bytes) : RInv (poly1305_init key) ∧ Inv (poly1305_init key) :=
  ⟨(rel_init key).1, (rel_init key).2.1⟩

/-! ### poly1305_blocks -/

/-- One block: r and pad are untouched, `Inv` (h0 < 2^44, h1 < 2^44 + 2^6, h2 < 2^42) is
    preserved and the limb value is multiplied as in RFC 8439 modulo 2^130 − 5.
    `le (m.take 16)` is the 16 bytes the two `LOAD64_LE` read. -/
theorem blocks_spec (st : State) (m : Bytes) (hib : Bool) (hr : RInv st) (hi : Inv st) :
    (poly1305_blocks st m hib).r = st.r ∧ (poly1305_blocks st m hib).pad = st.pad ∧
    Inv (poly1305_blocks st m hib) ∧
    val (poly1305_blocks st m hib).h % p =
      ((val st.h + le (m.take 16) + (if hib then 2 ^ 128 else 0)) * val st.r) % p :=
  blocks_spec_aux st m hib hr hi

/-- No overflow: under the invariants the limbs computed with wrapping 64-bit arithmetic,
    128-bit products/sums reduced `% 2^128` and `SHR`/`LO` truncated to 64 bits are exactly those
    of the same statements over unbounded naturals (`blocksNat`: no `%` except the masks), and the
    three 128-bit accumulators d0 d1 d2 stay below 2^93. -/
theorem blocks_no_overflow (st : State) (m : Bytes) (hib : Bool) (hr : RInv st) (hi : Inv st) :
    limbsNat (poly1305_blocks st m hib).h =
      blocksNat st.r.1.toNat st.r.2.1.toNat st.r.2.2.toNat st.h.1.toNat st.h.2.1.toNat st.h.2.2.toNat
        (LOAD64_LE m 0).toNat (LOAD64_LE m 8).toNat (if hib then 2 ^ 40 else 0) ∧
    (mulR st.r (addMsg st.h m hib)).1 < 2 ^ 93 ∧ (mulR st.r (addMsg st.h m hib)).2.1 < 2 ^ 93 ∧
    (mulR st.r (addMsg st.h m hib)).2.2 < 2 ^ 93 :=
  blocks_no_overflow_aux st m hib hr hi

/-! ### poly1305_finish -/

/-- Under `Inv` the tag is the canonical residue of the limb value plus pad, modulo 2^128. -/
theorem finish_spec (st : State) (hi : Inv st) :
    poly1305_finish st = toLE 16 ((val st.h % p + padVal st) % 2 ^ 128) :=
  finish_spec_aux st hi

/-! ### the whole MAC -/

/-- The donna64 block/finish functions under the streaming front-end (`polyUpdate`, `polyFinish`)
    give the same 16 bytes as the abstract (r, s, acc) instantiation, for every chunking. -/
theorem donna64_eq_abstract (key : Bytes) (cs : List Bytes) :
    macChunks key cs
      = polyFinish polyBlkNat polyFinNat (cs.foldl (polyUpdate polyBlkNat) (polyInitNat key)) :=
  donna64_eq_abstract_aux key cs

/-- poly1305_donna64 = RFC 8439 §2.5 for every key, every message and every chunking -/
theorem donna64_mac_eq_spec (key : Bytes) (cs : List Bytes) :
    macChunks key cs = Spec.Poly1305.mac key cs.flatten := by
  rw [donna64_eq_abstract]; exact C04.poly1305_chunks key cs

/-- one-shot form -/
theorem donna64_mac_oneshot (key msg : Bytes) : mac key msg = Spec.Poly1305.mac key msg := by
  have h := donna64_mac_eq_spec key [msg]
  simpa [mac] using h

/-! ### examples (kernel-evaluated) -/

/-- RFC 8439 §2.5.2 -/
def rfcKey : Bytes :=
  [0x85, 0xd6, 0xbe, 0x78, 0x57, 0x55, 0x6d, 0x33, 0x7f, 0x44, 0x52, 0xfe, 0x42, 0xd5, 0x06, 0xa8,
   0x01, 0x03, 0x80, 0x8a, 0xfb, 0x0d, 0xb2, 0xfd, 0x4a, 0xbf, 0xf6, 0xaf, 0x41, 0x49, 0xf5, 0x1b]
/-- "Cryptographic Forum Research Group" -/
def rfcMsg : Bytes :=
  [0x43, 0x72, 0x79, 0x70, 0x74, 0x6f, 0x67, 0x72, 0x61, 0x70, 0x68, 0x69, 0x63, 0x20, 0x46, 0x6f,
   0x72, 0x75, 0x6d, 0x20, 0x52, 0x65, 0x73, 0x65, 0x61, 0x72, 0x63, 0x68, 0x20, 0x47, 0x72, 0x6f,
   0x75, 0x70]
def rfcTag : Bytes :=
  [0xa8, 0x06, 0x1d, 0xc1, 0x30, 0x51, 0x36, 0xc6, 0xc2, 0x2b, 0x8b, 0xaf, 0x0c, 0x01, 0x27, 0xa9]

example : mac rfcKey rfcMsg = rfcTag := by decide +kernel
example : Spec.Poly1305.mac rfcKey rfcMsg = rfcTag := by decide +kernel
example : macChunks rfcKey [rfcMsg.take 3, [], (rfcMsg.drop 3).take 20, rfcMsg.drop 23] = rfcTag := by
  decide +kernel
/-- r limbs of the RFC key: r = 0x806d5400e52447c036d555408bed685 -/
example : val (poly1305_init rfcKey).r = 0x806d5400e52447c036d555408bed685 := by decide +kernel

/-- The final-reduction boundary.  r = 1, pad = 0x0f0e…0100; three full blocks
    (2^128 − 6, 0, k) make the accumulator h = 3·2^128 + 2^128 − 6 + k = p − 1 + k. -/
def bKey : Bytes := (1 :: zeros 15) ++ (List.range 16).map UInt8.ofNat
def bMsg (k : Nat) : Bytes := toLE 16 (2 ^ 128 - 6) ++ zeros 16 ++ toLE 16 k

/-- before `poly1305_finish` the limbs really hold p − 1 + k (unreduced) for k ≤ 5 … -/
example : ∀ k ∈ List.range 6, val (update (init bKey) (bMsg k)).st.h = p - 1 + k := by decide +kernel
/-- … and 2^130 is already folded to 5 by the block carry -/
example : val (update (init bKey) (bMsg 6)).st.h = 5 := by decide +kernel
/-- the tag is the specification's for h = p − 1 (keep h), p … p + 4 (take g = h − p), 2^130 -/
example : ∀ k ∈ List.range 7, mac bKey (bMsg k) = Spec.Poly1305.mac bKey (bMsg k) := by decide +kernel
example : ∀ k ∈ List.range 7,
    mac bKey (bMsg k) = toLE 16 (((p - 1 + k) % p + 0x0f0e0d0c0b0a09080706050403020100) % 2 ^ 128) := by
  decide +kernel
/-- r = 1 and two blocks of 0xff…ff: h = 2·(2^129 − 1) = p + 3, tag = 3 + pad -/
example : val (update (init bKey) (List.replicate 32 0xff)).st.h = p + 3 := by decide +kernel
example : mac bKey (List.replicate 32 0xff) = toLE 16 (3 + 0x0f0e0d0c0b0a09080706050403020100) := by
  decide +kernel
example : mac bKey (List.replicate 32 0xff) = Spec.Poly1305.mac bKey (List.replicate 32 0xff) := by
  decide +kernel

/-- h1 = 2^44 (one more than 44 bits) is reachable between blocks — r = 1, three blocks of 0xff…ff —
    so the bound on h1 in `Inv` must exceed 2^44 and the first `h1 >> 44` carry of
    `poly1305_finish` is needed -/
example : (update (init bKey) (List.replicate 48 0xff)).st.h.2.1.toNat = 2 ^ 44 := by decide +kernel

/-- the hypotheses of `blocks_spec` / `finish_spec` are satisfiable (and hold along every run) -/
example : RInv (poly1305_init rfcKey) ∧ Inv (poly1305_init rfcKey) := init_inv rfcKey
example : Inv (poly1305_blocks (poly1305_init rfcKey) rfcMsg true) :=
  (blocks_spec _ _ _ (init_inv rfcKey).1 (init_inv rfcKey).2).2.2.1

end Sodium.C04Poly
