import SodiumModel.Model.AllocLang
import SodiumModel.Model.AllocScenarios
import SodiumModel.Proofs.AllocLang
import SodiumModel.Proofs.Fault
import Generated.AllocProgs
/-
  C20, Tie B — fail-closed under memory exhaustion, for the allocation skeletons REGENERATED FROM THE C SOURCE
  (`Generated/AllocProgs.lean`, produced by `tools_new/c2lean_alloc.py`; `tools_new/c20_tieb.py` regenerates and
  re-checks this file on every run).

  General results (proved once, for every program of the language):
    * `fail_closed_of_goodAll`      the decidable path check `goodAll` covers EVERY oracle `Nat → Bool` and EVERY
                                    valuation of the named boolean inputs;
    * `oracle_prefix_principle`     a program with at most n request sites consults the oracle only on 0..n-1, so a
                                    property of runs that holds for the 2^n oracle prefixes holds for every oracle.
  Instances: `goodAll Generated.<entry> = true` for each of the 28 entry points (`decide +kernel`), and from them the
  statements about the code as it is now.  Last part: the generated programs, under the "ordinary call" valuations,
  have exactly the runs of the hand-written programs of `Model/Fault.lean`, for every oracle.
-/
open Sodium Sodium.Model.Fault Sodium.Model.AllocLang Sodium.AllocLangP
open Generated.AllocProgs (entries inputNames)
namespace Sodium.C20Gen

/-! ### general results -/

/-- soundness of the decidable check, for every oracle and every valuation of the named inputs -/
theorem fail_closed_of_goodAll (k : RetKind) (p : Prog) (h : goodAll k p = true)
    (ok : Nat → Bool) (ι : Inp → Bool) : goodRun k (runWith ok ι p) = true :=
  goodAll_sound h ok ι

/-- a run consults the oracle only below `reqCount p`: checking the `2 ^ n` prefixes (n ≥ reqCount p) is checking
    every oracle -/
theorem oracle_prefix_principle (P : Run → Prop) (ι : Inp → Bool) (p : Prog) (n : Nat) (hn : reqCount p ≤ n)
    (h : ∀ l ∈ boolLists n, P (runWith (ofList l) ι p)) : ∀ ok : Nat → Bool, P (runWith ok ι p) :=
  forall_oracle_of_prefixes P ι p n hn h

/-- the request counter never exceeds the number of request sites -/
theorem requests_bounded (ok : Nat → Bool) (ι : Inp → Bool) (p : Prog) :
    (exec ok ι p env0 {}).2.2.next ≤ reqCount p := by
  simpa using (next_bounds ok ι p env0 {}).2

/-! ### instances: one per entry point of the generated file -/

theorem good_crypto_pwhash : goodAll .api Generated.AllocProgs.crypto_pwhash = true := by decide +kernel
theorem good_crypto_pwhash_str : goodAll .api Generated.AllocProgs.crypto_pwhash_str = true := by decide +kernel
theorem good_crypto_pwhash_str_alg : goodAll .api Generated.AllocProgs.crypto_pwhash_str_alg = true := by decide +kernel
theorem good_crypto_pwhash_str_verify : goodAll .api Generated.AllocProgs.crypto_pwhash_str_verify = true := by
  decide +kernel
theorem good_crypto_pwhash_str_needs_rehash :
    goodAll .api Generated.AllocProgs.crypto_pwhash_str_needs_rehash = true := by decide +kernel
theorem good_crypto_pwhash_argon2i : goodAll .api Generated.AllocProgs.crypto_pwhash_argon2i = true := by decide +kernel
theorem good_crypto_pwhash_argon2i_str : goodAll .api Generated.AllocProgs.crypto_pwhash_argon2i_str = true := by
  decide +kernel
theorem good_crypto_pwhash_argon2i_str_verify :
    goodAll .api Generated.AllocProgs.crypto_pwhash_argon2i_str_verify = true := by decide +kernel
theorem good_crypto_pwhash_argon2i_str_needs_rehash :
    goodAll .api Generated.AllocProgs.crypto_pwhash_argon2i_str_needs_rehash = true := by decide +kernel
theorem good_crypto_pwhash_argon2id : goodAll .api Generated.AllocProgs.crypto_pwhash_argon2id = true := by decide +kernel
theorem good_crypto_pwhash_argon2id_str : goodAll .api Generated.AllocProgs.crypto_pwhash_argon2id_str = true := by
  decide +kernel
theorem good_crypto_pwhash_argon2id_str_verify :
    goodAll .api Generated.AllocProgs.crypto_pwhash_argon2id_str_verify = true := by decide +kernel
theorem good_crypto_pwhash_argon2id_str_needs_rehash :
    goodAll .api Generated.AllocProgs.crypto_pwhash_argon2id_str_needs_rehash = true := by decide +kernel
theorem good_crypto_pwhash_scryptsalsa208sha256 :
    goodAll .api Generated.AllocProgs.crypto_pwhash_scryptsalsa208sha256 = true := by decide +kernel
theorem good_crypto_pwhash_scryptsalsa208sha256_ll :
    goodAll .api Generated.AllocProgs.crypto_pwhash_scryptsalsa208sha256_ll = true := by decide +kernel
theorem good_crypto_pwhash_scryptsalsa208sha256_str :
    goodAll .api Generated.AllocProgs.crypto_pwhash_scryptsalsa208sha256_str = true := by decide +kernel
theorem good_crypto_pwhash_scryptsalsa208sha256_str_verify :
    goodAll .api Generated.AllocProgs.crypto_pwhash_scryptsalsa208sha256_str_verify = true := by decide +kernel
theorem good_crypto_pwhash_scryptsalsa208sha256_str_needs_rehash :
    goodAll .api Generated.AllocProgs.crypto_pwhash_scryptsalsa208sha256_str_needs_rehash = true := by decide +kernel
theorem good_argon2_hash : goodAll .code Generated.AllocProgs.argon2_hash = true := by decide +kernel
theorem good_argon2_verify : goodAll .code Generated.AllocProgs.argon2_verify = true := by decide +kernel
theorem good_argon2i_hash_encoded : goodAll .code Generated.AllocProgs.argon2i_hash_encoded = true := by decide +kernel
theorem good_argon2i_hash_raw : goodAll .code Generated.AllocProgs.argon2i_hash_raw = true := by decide +kernel
theorem good_argon2id_hash_encoded : goodAll .code Generated.AllocProgs.argon2id_hash_encoded = true := by decide +kernel
theorem good_argon2id_hash_raw : goodAll .code Generated.AllocProgs.argon2id_hash_raw = true := by decide +kernel
theorem good_argon2i_verify : goodAll .code Generated.AllocProgs.argon2i_verify = true := by decide +kernel
theorem good_argon2id_verify : goodAll .code Generated.AllocProgs.argon2id_verify = true := by decide +kernel
theorem good_sodium_malloc : goodAll .ptr Generated.AllocProgs.sodium_malloc = true := by decide +kernel
theorem good_sodium_allocarray : goodAll .ptr Generated.AllocProgs.sodium_allocarray = true := by decide +kernel

/-- the same, for the whole table the translator emitted (so an entry point ADDED to the table is checked too) -/
theorem all_entries_good : entries.all (fun e => goodAll e.kind e.prog) = true := by decide +kernel

/-- an abort (`sodium_misuse`) is reachable only before the first request: never as a consequence of a failure -/
theorem crash_only_before_requests : entries.all (fun e => crashOnlyBeforeRequests e.prog) = true := by decide +kernel

/-! ### what this says about the code as it is now -/

theorem entry_good (e : Entry) (he : e ∈ entries) (ok : Nat → Bool) (ι : Inp → Bool) :
    goodRun e.kind (runWith ok ι e.prog) = true :=
  goodAll_sound ((List.all_eq_true.mp all_entries_good) e he) ok ι

/-- public `int` entry points (password hashing, string creation / verification, needs-rehash; Argon2i, Argon2id,
    default, scrypt): for EVERY fault schedule and EVERY value of the abstracted conditions, a failed request implies
    the return value -1, nothing stays allocated, nothing is released twice or without having been obtained -/
theorem api_fail_closed (e : Entry) (he : e ∈ entries) (hk : e.kind = .api) (ok : Nat → Bool) (ι : Inp → Bool) :
    (anyFailed (runWith ok ι e.prog).evs = true → (runWith ok ι e.prog).rc = -1) ∧
      live (runWith ok ι e.prog).evs = [] ∧ badRelease (runWith ok ι e.prog).evs = false := by
  have h := entry_good e he ok ι
  rw [hk] at h
  exact good_api h

/-- string verification (all five verification entry points) never reports a match (0) after a failed request -/
theorem verify_never_matches_on_failure (ok : Nat → Bool) (ι : Inp → Bool) (p : Prog)
    (hp : p ∈ [Generated.AllocProgs.crypto_pwhash_str_verify, Generated.AllocProgs.crypto_pwhash_argon2i_str_verify,
      Generated.AllocProgs.crypto_pwhash_argon2id_str_verify,
      Generated.AllocProgs.crypto_pwhash_scryptsalsa208sha256_str_verify, Generated.AllocProgs.argon2_verify,
      Generated.AllocProgs.argon2i_verify, Generated.AllocProgs.argon2id_verify])
    (h : anyFailed (runWith ok ι p).evs = true) : (runWith ok ι p).rc ≠ 0 := by
  simp only [List.mem_cons, List.not_mem_nil, or_false] at hp
  rcases hp with rfl | rfl | rfl | rfl | rfl | rfl | rfl
  · rw [(good_api (goodAll_sound good_crypto_pwhash_str_verify ok ι)).1 h]; decide
  · rw [(good_api (goodAll_sound good_crypto_pwhash_argon2i_str_verify ok ι)).1 h]; decide
  · rw [(good_api (goodAll_sound good_crypto_pwhash_argon2id_str_verify ok ι)).1 h]; decide
  · rw [(good_api (goodAll_sound good_crypto_pwhash_scryptsalsa208sha256_str_verify ok ι)).1 h]; decide
  · exact ((good_code (goodAll_sound good_argon2_verify ok ι)).1 h).1
  · exact ((good_code (goodAll_sound good_argon2i_verify ok ι)).1 h).1
  · exact ((good_code (goodAll_sound good_argon2id_verify ok ι)).1 h).1

/-- the internal Argon2 functions: a failed request gives a code other than ARGON2_OK (and no abort), balanced -/
theorem code_fail_closed (e : Entry) (he : e ∈ entries) (hk : e.kind = .code) (ok : Nat → Bool) (ι : Inp → Bool) :
    (anyFailed (runWith ok ι e.prog).evs = true → (runWith ok ι e.prog).rc ≠ 0 ∧ (runWith ok ι e.prog).rc ≠ crashRc) ∧
      live (runWith ok ι e.prog).evs = [] ∧ badRelease (runWith ok ι e.prog).evs = false := by
  have h := entry_good e he ok ι
  rw [hk] at h
  exact good_code h

/-- sodium_malloc / sodium_allocarray: a failed mapping gives NULL; nothing is released wrongly; the ONLY block
    live at return is the one handed to the caller (none when NULL is returned) -/
theorem guarded_alloc_fail_closed (e : Entry) (he : e ∈ entries) (hk : e.kind = .ptr) (ok : Nat → Bool)
    (ι : Inp → Bool) :
    (anyFailed (runWith ok ι e.prog).evs = true → (runWith ok ι e.prog).rc = 0) ∧
      badRelease (runWith ok ι e.prog).evs = false ∧
      live (runWith ok ι e.prog).evs =
        (match blockOf (runWith ok ι e.prog).rc with | some id => [id] | none => []) := by
  have h := entry_good e he ok ι
  rw [hk] at h
  exact good_ptr h

/-! ### the generated programs against the hand-written ones of `Model/Fault.lean` (same run for every oracle) -/

open Sodium.Model.AllocScenarios

/-- the observable part of an explicit outcome of `Proofs/Fault.lean` -/
def same (r : Run) (o : Int × St) : Prop := r.rc = o.1 ∧ r.evs = o.2.evs.reverse
instance (r : Run) (o : Int × St) : Decidable (same r o) := by unfold same; infer_instance

theorem same_run {r : Run} {p : M Int} (h : same r (p {})) : r.rc = (run p).rc ∧ r.evs = (run p).evs := h

private theorem pre4 (ok : Nat → Bool) : pre ok 4 = [ok 0, ok 1, ok 2, ok 3] := rfl
private theorem pre8 (ok : Nat → Bool) : pre ok 8 = [ok 0, ok 1, ok 2, ok 3, ok 4, ok 5, ok 6, ok 7] := rfl
private theorem pre1 (ok : Nat → Bool) : pre ok 1 = [ok 0] := rfl
private theorem pre2 (ok : Nat → Bool) : pre ok 2 = [ok 0, ok 1] := rfl

/-- raw hashing and string creation, six generated entry points = hand-written `pwhash` -/
theorem pwhash_agrees (ok : Nat → Bool) (p : Prog × List String)
    (hp : p ∈ [(Generated.AllocProgs.crypto_pwhash_argon2id, raw), (Generated.AllocProgs.crypto_pwhash_argon2i, raw),
      (Generated.AllocProgs.crypto_pwhash_argon2id_str, str), (Generated.AllocProgs.crypto_pwhash_argon2i_str, str),
      (Generated.AllocProgs.crypto_pwhash_str, str)]) :
    (runWith ok (ιOf p.2) p.1).rc = (run (pwhash ok)).rc ∧ (runWith ok (ιOf p.2) p.1).evs = (run (pwhash ok)).evs := by
  have key : ∀ q ∈ [(Generated.AllocProgs.crypto_pwhash_argon2id, raw), (Generated.AllocProgs.crypto_pwhash_argon2i, raw),
      (Generated.AllocProgs.crypto_pwhash_argon2id_str, str), (Generated.AllocProgs.crypto_pwhash_argon2i_str, str),
      (Generated.AllocProgs.crypto_pwhash_str, str)], reqCount q.1 ≤ 4 ∧
      ∀ b0 b1 b2 b3 : Bool, same (runWith (ofList [b0, b1, b2, b3]) (ιOf q.2) q.1) (FaultP.pwhashOut b0 b1 b2 b3) := by
    decide +kernel
  apply same_run
  rw [FaultP.pwhash_eq, runWith_prefix ok _ _ (key p hp).1, pre4]
  exact (key p hp).2 _ _ _ _

/-- the finite statement behind `pwhash_dispatch_agrees` (256 oracle prefixes) -/
def DispatchKey (q : Prog) (sc : List String) : Prop :=
  reqCount q ≤ 8 ∧ ∀ l ∈ boolLists 8, same (runWith (ofList l) (ιOf sc) q)
    (FaultP.pwhashOut (l.getD 0 true) (l.getD 1 true) (l.getD 2 true) (l.getD 3 true))

private theorem dk_raw : DispatchKey Generated.AllocProgs.crypto_pwhash raw := by unfold DispatchKey; decide +kernel
private theorem dk_str : DispatchKey Generated.AllocProgs.crypto_pwhash_str_alg str := by
  unfold DispatchKey; decide +kernel

/-- `crypto_pwhash` / `crypto_pwhash_str_alg` contain BOTH algorithms (8 request sites, 4 on any path): same runs -/
theorem pwhash_dispatch_agrees (ok : Nat → Bool) (p : Prog × List String)
    (hp : p ∈ [(Generated.AllocProgs.crypto_pwhash, raw), (Generated.AllocProgs.crypto_pwhash_str_alg, str)]) :
    (runWith ok (ιOf p.2) p.1).rc = (run (pwhash ok)).rc ∧ (runWith ok (ιOf p.2) p.1).evs = (run (pwhash ok)).evs := by
  have key : DispatchKey p.1 p.2 := by
    simp only [List.mem_cons, List.not_mem_nil, or_false] at hp
    rcases hp with rfl | rfl
    · exact dk_raw
    · exact dk_str
  apply same_run
  rw [FaultP.pwhash_eq, runWith_prefix ok _ _ key.1]
  have := key.2 _ (pre_mem_boolLists 8 ok)
  simpa [pre8] using this

/-- the finite statement behind `verify_agrees` for one program and one value of `decodes` (512 runs) -/
def VerifyKey (q : Prog) (d : Bool) : Prop :=
  reqCount q ≤ 8 ∧ ∀ b0 b1 b2 b3 b4 b5 b6 b7 m : Bool,
    same (runWith (ofList [b0, b1, b2, b3, b4, b5, b6, b7]) (ιOf (verify d m)) q)
      (FaultP.verifyOut b0 b1 b2 b3 b4 b5 b6 b7 d m)

private theorem vk_id_t : VerifyKey Generated.AllocProgs.crypto_pwhash_argon2id_str_verify true := by
  unfold VerifyKey; decide +kernel
private theorem vk_id_f : VerifyKey Generated.AllocProgs.crypto_pwhash_argon2id_str_verify false := by
  unfold VerifyKey; decide +kernel
private theorem vk_i_t : VerifyKey Generated.AllocProgs.crypto_pwhash_argon2i_str_verify true := by
  unfold VerifyKey; decide +kernel
private theorem vk_i_f : VerifyKey Generated.AllocProgs.crypto_pwhash_argon2i_str_verify false := by
  unfold VerifyKey; decide +kernel

/-- string verification = hand-written `argon2Verify`, for every oracle, decodable or not, matching or not -/
theorem verify_agrees (ok : Nat → Bool) (d m : Bool) (p : Prog)
    (hp : p ∈ [Generated.AllocProgs.crypto_pwhash_argon2id_str_verify,
      Generated.AllocProgs.crypto_pwhash_argon2i_str_verify]) :
    (runWith ok (ιOf (verify d m)) p).rc = (run (argon2Verify ok d m)).rc ∧
      (runWith ok (ιOf (verify d m)) p).evs = (run (argon2Verify ok d m)).evs := by
  have key : VerifyKey p d := by
    simp only [List.mem_cons, List.not_mem_nil, or_false] at hp
    rcases hp with rfl | rfl <;> cases d
    · exact vk_id_f
    · exact vk_id_t
    · exact vk_i_f
    · exact vk_i_t
  apply same_run
  rw [FaultP.argon2Verify_eq, runWith_prefix ok _ _ key.1, pre8]
  exact key.2 ..

/-- needs-rehash = hand-written `needsRehash` for the three possible answers -/
theorem needsRehash_agrees (ok : Nat → Bool) (res : Int) (hres : res ∈ [0, 1, -1]) (p : Prog)
    (hp : p ∈ [Generated.AllocProgs.crypto_pwhash_argon2id_str_needs_rehash,
      Generated.AllocProgs.crypto_pwhash_argon2i_str_needs_rehash]) :
    (runWith ok (ιOf (rehash res)) p).rc = (run (needsRehash ok res)).rc ∧
      (runWith ok (ιOf (rehash res)) p).evs = (run (needsRehash ok res)).evs := by
  have key : ∀ q ∈ [Generated.AllocProgs.crypto_pwhash_argon2id_str_needs_rehash,
      Generated.AllocProgs.crypto_pwhash_argon2i_str_needs_rehash], reqCount q ≤ 1 ∧
      ∀ r ∈ [(0 : Int), 1, -1], ∀ b0 : Bool,
        same (runWith (ofList [b0]) (ιOf (rehash r)) q) (FaultP.needsRehashOut b0 r) := by
    decide +kernel
  apply same_run
  rw [FaultP.needsRehash_eq, runWith_prefix ok _ _ (key p hp).1, pre1]
  exact (key p hp).2 res hres _

/-- scrypt (raw, low-level, string verification) = hand-written `scrypt` -/
theorem scrypt_agrees (ok : Nat → Bool) (m : Bool) (p : Prog × Bool)
    (hp : p ∈ [(Generated.AllocProgs.crypto_pwhash_scryptsalsa208sha256, true),
      (Generated.AllocProgs.crypto_pwhash_scryptsalsa208sha256_ll, true),
      (Generated.AllocProgs.crypto_pwhash_scryptsalsa208sha256_str, true),
      (Generated.AllocProgs.crypto_pwhash_scryptsalsa208sha256_str_verify, m)]) :
    (runWith ok (ιOf (Sodium.Model.AllocScenarios.scrypt p.2)) p.1).rc = (run (Sodium.Model.Fault.scrypt ok p.2)).rc ∧
      (runWith ok (ιOf (Sodium.Model.AllocScenarios.scrypt p.2)) p.1).evs = (run (Sodium.Model.Fault.scrypt ok p.2)).evs := by
  have key : ∀ m : Bool, ∀ q ∈ [(Generated.AllocProgs.crypto_pwhash_scryptsalsa208sha256, true),
      (Generated.AllocProgs.crypto_pwhash_scryptsalsa208sha256_ll, true),
      (Generated.AllocProgs.crypto_pwhash_scryptsalsa208sha256_str, true),
      (Generated.AllocProgs.crypto_pwhash_scryptsalsa208sha256_str_verify, m)], reqCount q.1 ≤ 2 ∧
      ∀ b0 b1 : Bool, same (runWith (ofList [b0, b1]) (ιOf (Sodium.Model.AllocScenarios.scrypt q.2)) q.1) (FaultP.scryptOut b0 q.2) := by
    decide +kernel
  apply same_run
  rw [FaultP.scrypt_eq, runWith_prefix ok _ _ (key m p hp).1, pre2]
  exact (key m p hp).2 _ _

/-- sodium_malloc / sodium_allocarray: same events as the hand-written `sodiumMalloc`; the hand model reports
    0 / -1 where the code returns the block / NULL -/
theorem sodiumMalloc_agrees (ok : Nat → Bool) (p : Prog)
    (hp : p ∈ [Generated.AllocProgs.sodium_malloc, Generated.AllocProgs.sodium_allocarray]) :
    (runWith ok (ιOf guarded) p).evs = (run (sodiumMalloc ok)).evs ∧
      ((runWith ok (ιOf guarded) p).rc ≠ 0 ↔ (run (sodiumMalloc ok)).rc = 0) := by
  have key : ∀ q ∈ [Generated.AllocProgs.sodium_malloc, Generated.AllocProgs.sodium_allocarray], reqCount q ≤ 1 ∧
      ∀ b0 : Bool, (runWith (ofList [b0]) (ιOf guarded) q).evs = (run (sodiumMalloc (ofList [b0]))).evs ∧
        ((runWith (ofList [b0]) (ιOf guarded) q).rc ≠ 0 ↔ (run (sodiumMalloc (ofList [b0]))).rc = 0) := by
    decide +kernel
  have hm : run (sodiumMalloc ok) = run (sodiumMalloc (ofList [ok 0])) := by
    cases h : ok 0 <;> simp [run, sodiumMalloc, request, bind, pure, StateT.bind, StateT.pure, h, ofList]
  rw [runWith_prefix ok _ _ (key p hp).1, pre1, hm]
  exact (key p hp).2 _

/-! ### non-vacuity -/

/-- an oracle failing exactly request `k` -/
def failAt (k : Nat) : Nat → Bool := fun i => i != k

-- the hypothesis "a request failed" is satisfiable and the conclusion is not vacuous: the mmap of Argon2 (request 7
-- of a verification) fails, -1 is returned and all seven earlier blocks are released
example : anyFailed (runWith (failAt 7) (ιOf (verify true true)) Generated.AllocProgs.crypto_pwhash_str_verify).evs = true ∧
    (runWith (failAt 7) (ιOf (verify true true)) Generated.AllocProgs.crypto_pwhash_str_verify).rc = -1 ∧
    (runWith (failAt 7) (ιOf (verify true true)) Generated.AllocProgs.crypto_pwhash_str_verify).evs.length = 15 := by
  decide +kernel
-- the success side is reachable
example : (runWith (fun _ => true) (ιOf (verify true true)) Generated.AllocProgs.crypto_pwhash_str_verify).rc = 0 ∧
    (runWith (fun _ => true) (ιOf (verify true false)) Generated.AllocProgs.crypto_pwhash_str_verify).rc = -1 := by
  decide +kernel
-- sodium_malloc: the returned block (request 0, value 1) is the one live block
example : (runWith (fun _ => true) (ιOf guarded) Generated.AllocProgs.sodium_malloc).rc = 1 ∧
    live (runWith (fun _ => true) (ιOf guarded) Generated.AllocProgs.sodium_malloc).evs = [0] := by decide +kernel
-- `goodAll` is not trivially true: a skeleton that forgets a block on the failure path is rejected
example : goodAll .api (blk [.req .malloc 0, .req .mmap 1, .ite (.eq 1 (-1)) (.ret (.const (-1))) .skip,
    .rel true 1, .rel false 0, .ret (.const 0)]) = false := by decide +kernel
-- … and so is one that reports success after a failure
example : goodAll .api (blk [.req .malloc 0, .ite (.eq 0 0) (.ret (.const 0)) .skip, .rel false 0,
    .ret (.const 0)]) = false := by decide +kernel

end Sodium.C20Gen
