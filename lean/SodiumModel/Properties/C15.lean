import SodiumModel.Model.Codecs
import SodiumModel.Spec.Base64
import SodiumModel.Proofs.Codecs
/-
  C15 — hex and Base64 codecs round-trip and decode strictly within capacity.
  Property theorems only; helper lemmas live in Proofs/Codecs.lean.
-/
open Sodium Sodium.Model
namespace Sodium.C15
open Sodium.Spec.Base64

/-- variant flags: v ∈ {1,3,5,7} -/
abbrev urlsafeOf (v : UInt32) : Bool := isUrlsafe v
abbrev padOf (v : UInt32) : Bool := !isNoPad v

/-! ### character maps are exactly the RFC tables (256-case kernel evaluation) -/

theorem hexPair_exact (x : UInt8) : hexPair x = [hexNibbleChar (x.toNat / 16), hexNibbleChar (x.toNat % 16)] := by
  exact hexPair_tbl x

theorem hexClassify_exact (c : UInt8) :
    hexClassify c = match hexCharVal c with
      | some n => (0xFF, UInt8.ofNat n)
      | none => (0, 0) := by
  exact hexClassify_tbl c

theorem encChar_exact (v : UInt32) (x : UInt32) (hx : x.toNat < 64) :
    encChar v x = sextetChar (isUrlsafe v) x.toNat := by
  exact encChar_tbl v x hx

theorem decChar_exact (v : UInt32) (c : UInt8) :
    decChar v c = match charSextet (isUrlsafe v) c with
      | some n => UInt32.ofNat n
      | none => 0xFF := by
  exact decChar_tbl v c

/-! ### hex -/

/-- bin2hex writes exactly the lower-case hex text and a NUL, or misuses when it does not fit -/
theorem bin2hex_eq_spec (hexMaxlen : UInt64) (bin : Bytes) (hlen : bin.length < 2 ^ 63 - 1) :
    sodium_bin2hex hexMaxlen bin =
      if hexMaxlen.toNat ≤ 2 * bin.length then .misuse else .ok (hexEncode bin ++ [0]) := by
  exact bin2hex_spec hexMaxlen bin hlen

/-- decoding the encoding returns the original bytes, full length consumed, for any ignore set
    and with or without an end pointer -/
theorem hex_roundtrip (bin : Bytes) (cap : Nat) (h : bin.length ≤ cap) (ign : Option Bytes) (wantEnd : Bool) :
    sodium_hex2bin cap (hexEncode bin) ign wantEnd = ⟨0, bin.length, 2 * bin.length, bin⟩ := by
  exact hex2bin_roundtrip bin cap h ign wantEnd

/-- reference grammar for hex text: ignorable characters only between complete digit pairs -/
inductive HexWF (ign : Option Bytes) : Bytes → Bytes → Prop where
  | nil : HexWF ign [] []
  | skip (c : UInt8) (rest out : Bytes) : hexCharVal c = none → inIgnore ign c = true →
      HexWF ign rest out → HexWF ign (c :: rest) out
  | pair (hi lo : UInt8) (a b : Nat) (rest out : Bytes) : hexCharVal hi = some a → hexCharVal lo = some b →
      HexWF ign rest out → HexWF ign (hi :: lo :: rest) (UInt8.ofNat (16 * a + b) :: out)

theorem hexWF_iff_gram (ign : Option Bytes) (hex out : Bytes) : HexWF ign hex out ↔ HexGram ign hex out := by
  constructor
  · intro h
    induction h with
    | nil => exact .nil
    | skip c rest out h1 h2 _ ih => exact .skip c rest out h1 h2 ih
    | pair hi lo a b rest out h1 h2 _ ih => exact .pair hi lo a b rest out h1 h2 ih
  · intro h
    induction h with
    | nil => exact .nil
    | skip c rest out h1 h2 _ ih => exact .skip c rest out h1 h2 ih
    | pair hi lo a b rest out h1 h2 _ ih => exact .pair hi lo a b rest out h1 h2 ih

/-- hex2bin (no end pointer) succeeds exactly on well-formed text that fits the capacity, and then
    returns the digit pairs; it fails rather than truncating -/
theorem hex_decode_spec (cap : Nat) (hex : Bytes) (ign : Option Bytes) (out : Bytes) :
    ((sodium_hex2bin cap hex ign false).rc = 0 ∧ (sodium_hex2bin cap hex ign false).written = out
        ∧ (sodium_hex2bin cap hex ign false).binLen = out.length)
      ↔ (HexWF ign hex out ∧ out.length ≤ cap) := by
  rw [hexWF_iff_gram]
  exact hex2bin_spec cap hex ign out

/-- never more than `bin_maxlen` bytes are written, whatever the input -/
theorem hex_capacity (cap : Nat) (hex : Bytes) (ign : Option Bytes) (wantEnd : Bool) :
    (sodium_hex2bin cap hex ign wantEnd).written.length ≤ cap := by
  exact hex2bin_cap cap hex ign wantEnd

/-- on failure the reported length is 0 unless the only defect is unconsumed trailing input
    without an end pointer (DESIGN §4-O6) -/
theorem hex_fail_len (cap : Nat) (hex : Bytes) (ign : Option Bytes) :
    (sodium_hex2bin cap hex ign true).rc ≠ 0 → (sodium_hex2bin cap hex ign true).binLen = 0 := by
  exact hex2bin_fail_len cap hex ign

/-! ### Base64 encoding -/

theorem b64Len_eq (v : UInt32) (n : Nat) : b64Len v n = encodedLen (padOf v) n := by
  exact b64Len_spec v n

theorem encode_length (us pad : Bool) (b : Bytes) : (encode us pad b).length = encodedLen pad b.length := by
  exact encode_len us pad b

/-- bin2base64 writes exactly the RFC 4648 text of the chosen variant followed by zero fill up
    to `b64_maxlen`; misuse for an invalid variant or a too-small buffer -/
theorem b64_encode_eq_rfc (maxlen : Nat) (bin : Bytes) (v : UInt32) :
    sodium_bin2base64 maxlen bin v =
      if !variantOk v then .misuse
      else if maxlen ≤ encodedLen (padOf v) bin.length then .misuse
      else .ok (encode (urlsafeOf v) (padOf v) bin ++ zeros (maxlen - encodedLen (padOf v) bin.length)) := by
  exact bin2base64_spec maxlen bin v

/-! ### Base64 decoding -/

/-- decoding the encoding returns the original bytes and consumes the whole text, for every
    variant, capacity ≥ length, with or without an end pointer, and every ignore set that does not
    contain '='. (If '=' is ignorable the main loop skips the padding as ignorable characters and the
    padding check then finds none: "AA==" with ignore "=" fails with -1 in the padded variants, so the
    hypothesis `hne` is necessary; alphabet characters in the ignore set are harmless.) -/
theorem b64_roundtrip (bin : Bytes) (cap : Nat) (h : bin.length ≤ cap) (ign : Option Bytes) (wantEnd : Bool)
    (v : UInt32) (hv : variantOk v = true) (hne : inIgnore ign padChar = false) :
    sodium_base642bin cap (encode (urlsafeOf v) (padOf v) bin) ign wantEnd v =
      .res ⟨0, bin.length, encodedLen (padOf v) bin.length, bin⟩ := by
  exact base642bin_roundtrip bin cap h ign wantEnd v hv hne

/-- never more than `bin_maxlen` bytes are written -/
theorem b64_capacity (cap : Nat) (b64 : Bytes) (ign : Option Bytes) (wantEnd : Bool) (v : UInt32) (r : DecResult) :
    sodium_base642bin cap b64 ign wantEnd v = .res r → r.written.length ≤ cap := by
  exact base642bin_cap cap b64 ign wantEnd v r

/-- the text with its ignorable (non-alphabet, in-ignore-set) characters removed -/
def strip (us : Bool) (ign : Option Bytes) (t : Bytes) : Bytes :=
  t.filter fun c => (charSextet us c).isSome || c == padChar || !inIgnore ign c

/-- Strictness (no end pointer), for ignore sets that contain neither alphabet characters nor '=':
    decoding succeeds with output `out` exactly when the text, with ignorable characters removed,
    is the canonical encoding of `out` (exact padding for padded variants, zero trailing bits,
    only characters of the variant's alphabet) and `out` fits the capacity. -/
theorem b64_decode_iff (cap : Nat) (b64 : Bytes) (ign : Option Bytes) (v : UInt32) (hv : variantOk v = true)
    (hdisj : ∀ c, inIgnore ign c = true → charSextet (urlsafeOf v) c = none ∧ c ≠ padChar) (out : Bytes) :
    sodium_base642bin cap b64 ign false v = .res ⟨0, out.length, b64.length, out⟩
      ↔ (strip (urlsafeOf v) ign b64 = encode (urlsafeOf v) (padOf v) out ∧ out.length ≤ cap) := by
  exact base642bin_strict cap b64 ign v hv hdisj out

/-! concrete behaviour (tests, labelled as such) -/
example : sodium_bin2base64 9 [0x01, 0xab, 0xcd, 0xef] 1 = .ok [65, 97, 118, 78, 55, 119, 61, 61, 0] := by decide
example : sodium_base642bin 4 [65, 97, 118, 78, 55, 119, 61, 61] none false 1 = .res ⟨0, 4, 8, [0x01, 0xab, 0xcd, 0xef]⟩ := by decide
example : sodium_base642bin 4 [65, 97, 118, 78, 55, 120, 61, 61] none false 1 = .res ⟨-1, 0, 6, [0x01, 0xab, 0xcd, 0xef]⟩ := by decide
example : sodium_hex2bin 4 [48, 49, 58, 97, 98] (some [58]) false = ⟨0, 2, 5, [0x01, 0xab]⟩ := by decide

end Sodium.C15
