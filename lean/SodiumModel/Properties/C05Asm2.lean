import SodiumModel.Properties.C05Asm
import SodiumModel.Proofs.X86Scalar2b
import SodiumModel.Proofs.X86Scalar2c
/-
  C05 / C10 — fe51_pack.S continued (`Properties/C05Asm.lean` has the reduce loop): the conditional subtraction of p and
  the 32 byte stores, by symbolic execution of the instruction lists regenerated from the `.S` text.

    * `pack_freeze_exact` + `pack_freeze_canonical`: the 19 instructions `mov $1,%r12` … `sub %rax,%rsi` compute `freezeU`
      on the limb registers (memory, rsp, rdi, rbx, rbp, r13–r15, `ok` untouched), and on fully carried limbs `freezeU`
      subtracts p exactly when the value is ≥ p: the result is fully carried with value `val g mod p`; the signed
      `cmovl` agrees with the unsigned comparison because both operands are below 2^63 (`slt_small`);
    * `pack_loop_freeze_spec`: loop + freeze from the state the prologue leaves (rax = REDMASK51, r10 = REDMASK51 - 18,
      r11 = 3) for EVERY limb vector below 2^63: the limb registers end up holding the canonical representative;
    * `pack_stores_exact`: the 137 store instructions write exactly the 32 bytes `packBytes g` at rdi … rdi+31
      (`storeMem`), nothing else, and leave rdi, rsp, rbx, rbp, r13–r15, `ok` alone;
    * `pack_byte_values`: every stored byte as a natural number (digit of a limb, or the sum of the two parts for the four
      bytes that straddle two limbs — the `xor` of fe51_pack.S is an addition there because the bit ranges are disjoint).
  NOT done: `packBytes g = toLE 32 (val g)` as ONE statement (the 32 digit equations are proved, their summation is not),
  the prologue loads, the restore of r11 / r12 / rsp from the stack frame; fe51_mul; fe51_nsquare (Tie A only).
-/
open Sodium Sodium.Model Sodium.Model.X86Scalar Sodium.Model.Fe51 Sodium.Fe51P Sodium.X86ScalarP Sodium.Spec
open Generated.Sandy2xAsm
namespace Sodium.C05Asm2

/-- **the freeze, executed**: 19 instructions after the loop -/
theorem pack_freeze_exact (s : State) (h : s.rax = 0x7FFFFFFFFFFFF) (h10 : s.r10 = 0x7FFFFFFFFFFED) (h11 : s.r11 = 0) :
    limbs (run (fe51_pack_b2.take 19) s) = freezeU (limbs s) ∧
    (run (fe51_pack_b2.take 19) s).mem = s.mem ∧ (run (fe51_pack_b2.take 19) s).rsp = s.rsp ∧
    (run (fe51_pack_b2.take 19) s).rdi = s.rdi ∧ (run (fe51_pack_b2.take 19) s).ok = s.ok ∧
    (run (fe51_pack_b2.take 19) s).rbx = s.rbx ∧ (run (fe51_pack_b2.take 19) s).rbp = s.rbp ∧
    (run (fe51_pack_b2.take 19) s).r13 = s.r13 ∧ (run (fe51_pack_b2.take 19) s).r14 = s.r14 ∧
    (run (fe51_pack_b2.take 19) s).r15 = s.r15 :=
  pack_freeze_exec s h h10 h11

/-- **the freeze is the canonical reduction** on fully carried limbs -/
theorem pack_freeze_canonical (g : Fe) (hb : Bounded (2 ^ 51) g) :
    Bounded (2 ^ 51) (freezeU g) ∧ val (freezeU g) = val g % F25519.p := by
  rw [p_eq]; exact freeze_spec g hb

/-- the comparison mask: `geP g = 1` iff the fully carried value is at least p -/
theorem pack_freeze_condition (g : Fe) (hb : Bounded (2 ^ 51) g) :
    geP g = if (2 ^ 51 - 19 ≤ g.l0.toNat ∧ g.l1.toNat = 2 ^ 51 - 1 ∧ g.l2.toNat = 2 ^ 51 - 1 ∧
      g.l3.toNat = 2 ^ 51 - 1 ∧ g.l4.toNat = 2 ^ 51 - 1) then 1 else 0 := geP_eq g hb

/-- **loop + freeze**: from the state the prologue leaves, for every limb vector below 2^63, the limb registers end up
    holding the canonical representative of the value mod p, fully carried -/
theorem pack_loop_freeze_spec (n : Nat) (s : State) (h : s.rax = 0x7FFFFFFFFFFFF) (h10 : s.r10 = 0x7FFFFFFFFFFED)
    (hk : s.r11 = 3) (hf : Bounded (2 ^ 63) (limbs s)) :
    ∃ s1, runBlock (n + 3) (.doWhile fe51_pack_b1 .a) s = some s1 ∧
      Bounded (2 ^ 51) (limbs (run (fe51_pack_b2.take 19) s1)) ∧
      val (limbs (run (fe51_pack_b2.take 19) s1)) = val (limbs s) % F25519.p ∧
      (run (fe51_pack_b2.take 19) s1).mem = s.mem ∧ (run (fe51_pack_b2.take 19) s1).rdi = s.rdi ∧
      (run (fe51_pack_b2.take 19) s1).rsp = s.rsp ∧ (run (fe51_pack_b2.take 19) s1).ok = s.ok := by
  obtain ⟨s1, r, hb, hv, _, hs, k⟩ := C05Asm.pack_loop_spec n s h hk hf
  obtain ⟨m1, p1, d1, a1, t1, _, _, _, _, _, o1⟩ := hs
  obtain ⟨fl, fm, fp, fd, fo, _⟩ := pack_freeze_exec s1 (by rw [a1, h]) (by rw [t1, h10]) k
  obtain ⟨cb, cv⟩ := pack_freeze_canonical _ hb
  refine ⟨s1, r, by rw [fl]; exact cb, ?_, by rw [fm, m1], by rw [fd, d1], by rw [fp, p1], by rw [fo, o1]⟩
  rw [fl, cv, hv]

/-- **the 137 store instructions write exactly `packBytes g` at rdi … rdi+31** -/
theorem pack_stores_exact (s : State) :
    (run ((fe51_pack_b2.drop 19).take 137) s).mem = storeMem s.mem s.rdi (limbs s) ∧
    (run ((fe51_pack_b2.drop 19).take 137) s).rdi = s.rdi ∧ (run ((fe51_pack_b2.drop 19).take 137) s).rsp = s.rsp ∧
    (run ((fe51_pack_b2.drop 19).take 137) s).rbx = s.rbx ∧ (run ((fe51_pack_b2.drop 19).take 137) s).rbp = s.rbp ∧
    (run ((fe51_pack_b2.drop 19).take 137) s).r13 = s.r13 ∧ (run ((fe51_pack_b2.drop 19).take 137) s).r14 = s.r14 ∧
    (run ((fe51_pack_b2.drop 19).take 137) s).r15 = s.r15 ∧ (run ((fe51_pack_b2.drop 19).take 137) s).ok = s.ok :=
  stores_exec s

/-- the block after the loop is freeze ++ stores ++ the three epilogue instructions -/
theorem pack_b2_split : fe51_pack_b2 =
    fe51_pack_b2.take 19 ++ ((fe51_pack_b2.drop 19).take 137 ++ fe51_pack_b2.drop 156) ∧
    (fe51_pack_b2.drop 156).length = 3 := ⟨by rfl, by rfl⟩

/-- **the stored bytes as numbers**: the masked bytes are base-256 digits of a limb; in the four bytes that straddle two
    limbs the `xor` is an addition (disjoint bit ranges, low limb fully carried) -/
theorem pack_byte_values (lo hi x : UInt64) (h : lo.toNat < 2 ^ 51) :
    (bA0 x).toNat = x.toNat % 256 ∧ (bA x 8).toNat = x.toNat / 2 ^ 8 % 256 ∧ (bS x 42).toNat = x.toNat / 2 ^ 42 % 256 ∧
    (bJ lo 48 hi 3 0xF8).toNat = hi.toNat % 32 * 8 + lo.toNat / 2 ^ 48 ∧
    (bJ lo 45 hi 6 0xC0).toNat = hi.toNat % 4 * 64 + lo.toNat / 2 ^ 45 ∧
    (bJ lo 50 hi 1 0xFE).toNat = hi.toNat % 128 * 2 + lo.toNat / 2 ^ 50 ∧
    (bJ lo 47 hi 4 0xF0).toNat = hi.toNat % 16 * 16 + lo.toNat / 2 ^ 47 :=
  ⟨bA0_nat x, bA_nat' x 8 8 rfl (by decide), bS_nat' x 42 42 rfl (by decide), bJ3 lo hi h, bJ6 lo hi h, bJ1 lo hi h, bJ4 lo hi h⟩

/-- general digit lemma for the masked bytes, any shift count below 64 -/
theorem pack_digit (x k : UInt64) (hk : k.toNat < 64) :
    (bA x k).toNat = x.toNat / 2 ^ k.toNat % 256 ∧ (bS x k).toNat = x.toNat / 2 ^ k.toNat % 256 :=
  ⟨bA_nat x k hk, bS_nat x k hk⟩

end Sodium.C05Asm2
