import SodiumModel.Model.CoresRef
import SodiumModel.Proofs.CoresRef
import SodiumModel.Properties.C03
import SodiumModel.Driver.C03
/-
  C03 (cores) — the REFERENCE block/core functions, modelled statement by statement in
  `Model/CoresRef.lean`, compute the specified functions for every input:

  * one pass of the `for (;;)` body of `chacha20_encrypt_bytes` (chacha20_ref.c) = the RFC 8439 block
    function (`Spec.Chacha.blockWords` / `blockOrig` / `blockIetf`), XOR form and counter step;
  * the whole `chacha20_encrypt_bytes` loop = the driver model `chachaLoop` of `Model/Stream.lean`
    instantiated with that block, so the C03 driver theorems compose: the four reference entry points
    produce `message XOR specified keystream` at every length, counter and nonce;
  * `crypto_core_salsa` (20 / 12 / 8 rounds), `crypto_core_hsalsa20`, `crypto_core_hchacha20`
    = `Spec.Salsa.core`, `Spec.Salsa.hsalsa20`, `Spec.Chacha.hchacha20`, with default or custom constants.

  These are the functions the correspondence driver (`Driver/C03.lean`) now passes as block parameters;
  `driver_*` below say that this instantiation is the specification one.

  Not a deviation in the library, but a property of the code as written: `crypto_core_salsa` runs
  `for (i = 0; i < rounds; i += 2)`, i.e. ⌈rounds/2⌉ double rounds; for an odd `rounds` this is one
  more than the ⌊rounds/2⌋ of the specification (`crypto_core_salsa_odd_rounds`). The function is
  `static` and only called with 20, 12 and 8.
-/
open Sodium Sodium.Model Sodium.Model.CoresRef Sodium.Spec Sodium.CoresRefP
namespace Sodium.C03Cores

/-! #### ChaCha20: one block -/

/-- Keystream block of chacha20_ref.c: for every key, every value of words 12..15 (counter / nonce in
    either layout) and whatever the context held before `chacha_keysetup`, the 64 bytes written for a
    zero message are the RFC 8439 §2.3 block function on those words. -/
theorem chacha20_ref_block_eq_spec (ctx : W16) (key : Bytes) (w12 w13 w14 w15 : UInt32) :
    (chacha20_block { chacha_keysetup ctx key with x12 := w12, x13 := w13, x14 := w14, x15 := w15 }
        (zeros 64)).1 = Chacha.blockWords key w12 w13 w14 w15 :=
  chacha20_block_eq_blockWords ctx key w12 w13 w14 w15

/-- original layout (`chacha_ivsetup`): 64-bit block counter `counter`, 8-byte nonce -/
theorem chacha20_ref_block_eq_blockOrig (key nonce8 : Bytes) (ctr : Option Bytes) (counter : Nat) :
    chacha20_blockfn (chacha_ivsetup (chacha_keysetup W16.zero key) nonce8 ctr)
        (UInt32.ofNat (counter % 2 ^ 32)) (UInt32.ofNat (counter / 2 ^ 32 % 2 ^ 32)) =
      Chacha.blockOrig key nonce8 counter := by
  have := blockfn_orig key nonce8 ctr
  rw [ctxOrig] at this
  rw [this]; rfl

/-- IETF layout (`chacha_ietf_ivsetup`): 32-bit block counter, 12-byte nonce whose first word sits in
    word 13 -/
theorem chacha20_ref_block_eq_blockIetf (key nonce12 : Bytes) (ctr : Option Bytes) (counter : Nat) :
    chacha20_blockfn (chacha_ietf_ivsetup (chacha_keysetup W16.zero key) nonce12 ctr)
        (UInt32.ofNat (counter % 2 ^ 32)) (load32_le nonce12) =
      Chacha.blockIetf key nonce12 counter := by
  have := blockfn_ietf key nonce12 ctr
  rw [ctxIetf] at this
  rw [this, ← load32_le_eq_chacha]; rfl

/-- XOR form of one block, any context `j` and any message with at least 64 bytes at `m`: the 64 bytes
    written are `m[0..64] XOR` the keystream block of `j` -/
theorem chacha20_ref_block_xor (j : W16) (m : Bytes) (h : 64 ≤ m.length) :
    (chacha20_block j m).1 = xorBytes (m.take 64) (chacha20_block j (zeros 64)).1 :=
  chacha20_block_xor j m h

/-- XOR form against the specification: key-setup context, words 12..15 arbitrary -/
theorem chacha20_ref_block_xor_spec (ctx : W16) (key : Bytes) (w12 w13 w14 w15 : UInt32) (m : Bytes)
    (h : 64 ≤ m.length) :
    (chacha20_block { chacha_keysetup ctx key with x12 := w12, x13 := w13, x14 := w14, x15 := w15 } m).1 =
      xorBytes (m.take 64) (Chacha.blockWords key w12 w13 w14 w15) := by
  rw [chacha20_block_xor _ m h, chacha20_ref_block_eq_spec]

/-- `j12 = PLUSONE(j12); if (!j12) { j13 = PLUSONE(j13); }` is the counter step of the driver model
    `Model.chachaLoop`; no other word of `j` changes -/
theorem chacha20_ref_counter_step (j : W16) (m : Bytes) :
    (chacha20_block j m).2 =
      { j with x12 := j.x12 + 1, x13 := if j.x12 + 1 = 0 then j.x13 + 1 else j.x13 } :=
  chacha20_block_ctr j m

/-- … and that step is +1 on the 64-bit number `j12 + 2^32·j13` (mod 2^64) -/
theorem chacha20_ref_counter_step_value (j : W16) (m : Bytes) :
    (chacha20_block j m).2.x12.toNat + 2 ^ 32 * (chacha20_block j m).2.x13.toNat =
      (j.x12.toNat + 2 ^ 32 * j.x13.toNat + 1) % 2 ^ 64 := by
  have h1 := j.x12.toNat_lt; have h2 := j.x13.toNat_lt
  rw [chacha20_block_ctr]
  exact (chacha_ctr_step j.x12 j.x13 (j.x12.toNat + 2 ^ 32 * j.x13.toNat) (by omega)).symm

theorem chacha20_ref_block_length (j : W16) (m : Bytes) : (chacha20_block j m).1.length = 64 :=
  chacha20_block_length j m

/-! #### ChaCha20: the whole `chacha20_encrypt_bytes`, and the four entry points -/

/-- The `for (;;)` loop of `chacha20_encrypt_bytes` (full blocks, the short last block through the
    zero-padded `tmp`, `bytes == 0` returning at once) is exactly the driver model `chachaLoop` with the
    reference block as its block parameter — for every context and message. -/
theorem chacha20_ref_eq_model (ctx : W16) (m : Bytes) :
    (chacha20_encrypt_bytes ctx m).1 = chachaLoop (chacha20_blockfn ctx) m.length ctx.x12 ctx.x13 m :=
  chacha20_encrypt_bytes_eq ctx m

/-- specification keystream, original layout: block number i is `blockOrig key nonce (i mod 2^64)` -/
def specStreamOrig (key nonce8 : Bytes) (start len : Nat) : Bytes :=
  Chacha.streamFrom (fun i => Chacha.blockOrig key nonce8 (i % 2 ^ 64)) start len

/-- specification keystream, IETF layout -/
def specStreamIetf (key nonce12 : Bytes) (start len : Nat) : Bytes :=
  Chacha.streamFrom (fun i => Chacha.blockIetf key nonce12 i) start len

theorem blockWords_length (key : Bytes) (a b c d : UInt32) : (Chacha.blockWords key a b c d).length = 64 := by
  rw [← chacha20_ref_block_eq_spec W16.zero]; exact chacha20_block_length _ _

/-- `stream_ref_xor_ic` (crypto_stream_chacha20_xor_ic on the reference implementation): every message
    length, every 64-bit initial counter (carry into word 13 and wrap at 2^64 included) -/
theorem stream_ref_xor_ic_spec (m n : Bytes) (ic : UInt64) (k : Bytes) :
    stream_ref_xor_ic m n ic k = xorBytes m (specStreamOrig k n (64 * ic.toNat) m.length) := by
  rw [stream_ref_xor_ic_eq, blockfn_orig, C03.chacha_xor_ic_eq _ (fun _ _ => blockWords_length ..)]
  rfl

/-- `stream_ref` (crypto_stream_chacha20): the first `clen` keystream bytes -/
theorem stream_ref_spec (clen : Nat) (n k : Bytes) :
    stream_ref clen n k = specStreamOrig k n 0 clen := by
  rw [stream_ref_eq, blockfn_orig, C03.chacha_stream_eq _ (fun _ _ => blockWords_length ..)]
  rfl

theorem ofNat_mod (i : Nat) : UInt32.ofNat (i % 2 ^ 32) = UInt32.ofNat i := by
  apply UInt32.toNat_inj.mp
  rw [UInt32.toNat_ofNat', UInt32.toNat_ofNat']; omega

/-- `stream_ietf_ext_ref_xor_ic`: as long as the request stays below block 2^32 (which the public
    `crypto_stream_chacha20_ietf_xor_ic` enforces, `C03.ietf_guard_iff`), the output is the message XOR
    the RFC 8439 keystream. (Beyond it, `if (!j12) j13++` would bump the first nonce word: see
    `Model.chacha_ietf_ext_xor_ic`.) -/
theorem stream_ietf_ext_ref_xor_ic_spec (m n : Bytes) (ic : UInt32) (k : Bytes)
    (h : ic.toNat + (m.length + 63) / 64 ≤ 2 ^ 32) :
    stream_ietf_ext_ref_xor_ic m n ic k = xorBytes m (specStreamIetf k n (64 * ic.toNat) m.length) := by
  rw [stream_ietf_ext_ref_xor_ic_eq, blockfn_ietf,
    ietf_loop_eq _ (fun _ _ => blockWords_length ..) _ _ _ h, ← load32_le_eq_chacha]
  simp only [specStreamIetf, Chacha.blockIetf, ofNat_mod]

/-- `stream_ietf_ext_ref` (crypto_stream_chacha20_ietf): up to 2^32 blocks -/
theorem stream_ietf_ext_ref_spec (clen : Nat) (n k : Bytes) (h : (clen + 63) / 64 ≤ 2 ^ 32) :
    stream_ietf_ext_ref clen n k = specStreamIetf k n 0 clen := by
  have hl := zeros_length clen
  have hs := streamFrom_length (fun i => Chacha.blockIetf k n i) (fun _ => blockWords_length ..) 0 clen
  have h0 : (0 : UInt32).toNat = 0 := rfl
  rw [stream_ietf_ext_ref_eq, blockfn_ietf,
    ietf_loop_eq _ (fun _ _ => blockWords_length ..) _ _ _ (by rw [hl, h0]; omega), ← load32_le_eq_chacha,
    hl, xorBytes_zeros_left, h0]
  simp only [Chacha.blockIetf, ofNat_mod, specStreamIetf] at hs ⊢
  exact List.take_of_length_le (by rw [Nat.mul_zero] at hs ⊢; omega)

/-! #### Salsa20 core, HSalsa20, HChaCha20 -/

/-- `crypto_core_salsa(out, in, k, c, rounds)` for every even `rounds` (20, 12, 8 in the library),
    constants from `c` or the default "expand 32-byte k" when `c == NULL` -/
theorem crypto_core_salsa_spec (inp k : Bytes) (c : Option Bytes) (rounds : Nat) (h : rounds % 2 = 0) :
    crypto_core_salsa inp k c rounds = Salsa.core rounds inp k c :=
  crypto_core_salsa_even inp k c rounds h

theorem crypto_core_salsa20_spec (inp k : Bytes) (c : Option Bytes) :
    crypto_core_salsa20 inp k c = Salsa.core 20 inp k c := crypto_core_salsa_even inp k c 20 rfl

theorem crypto_core_salsa2012_spec (inp k : Bytes) (c : Option Bytes) :
    crypto_core_salsa2012 inp k c = Salsa.core 12 inp k c := crypto_core_salsa_even inp k c 12 rfl

theorem crypto_core_salsa208_spec (inp k : Bytes) (c : Option Bytes) :
    crypto_core_salsa208 inp k c = Salsa.core 8 inp k c := crypto_core_salsa_even inp k c 8 rfl

/-- what the loop `for (i = 0; i < rounds; i += 2)` does for ANY `rounds`: ⌈rounds/2⌉ double rounds -/
theorem crypto_core_salsa_any_rounds (inp k : Bytes) (c : Option Bytes) (rounds : Nat) :
    crypto_core_salsa inp k c rounds = Salsa.core (2 * ((rounds + 1) / 2)) inp k c :=
  crypto_core_salsa_general inp k c rounds

/-- hence an odd `rounds` (never passed by the library) would not be the `rounds`-round core of the
    specification, which performs ⌊rounds/2⌋ double rounds -/
theorem crypto_core_salsa_odd_rounds :
    crypto_core_salsa (zeros 16) (zeros 32) none 1 ≠ Salsa.core 1 (zeros 16) (zeros 32) none := by
  decide +kernel

/-- the Salsa20 keystream block the stream driver asks for: input = nonce ‖ 8 counter bytes -/
theorem crypto_core_salsa_block (rounds : Nat) (h : rounds % 2 = 0) (key nonce8 : Bytes) (counter : Nat) :
    crypto_core_salsa (nonce8.take 8 ++ toLE 8 counter) key none rounds = Salsa.block rounds key nonce8 counter :=
  crypto_core_salsa_even _ key none rounds h

theorem crypto_core_hsalsa20_spec (inp k : Bytes) (c : Option Bytes) :
    crypto_core_hsalsa20 inp k c = Salsa.hsalsa20 inp k c := CoresRefP.crypto_core_hsalsa20_spec inp k c

theorem crypto_core_hchacha20_spec (inp k : Bytes) (c : Option Bytes) :
    crypto_core_hchacha20 inp k c = Chacha.hchacha20 inp k c := CoresRefP.crypto_core_hchacha20_spec inp k c

/-- XChaCha20 block from the reference pieces: HChaCha20 subkey, then the original-layout block -/
theorem xchacha20_ref_block_eq_spec (key nonce24 : Bytes) (counter : Nat) :
    chacha20_blockfn (chacha_ivsetup (chacha_keysetup W16.zero
        (crypto_core_hchacha20 (nonce24.take 16) key none)) (nonce24.drop 16) none)
        (UInt32.ofNat (counter % 2 ^ 32)) (UInt32.ofNat (counter / 2 ^ 32 % 2 ^ 32)) =
      Chacha.xchachaBlock key nonce24 counter := by
  rw [chacha20_ref_block_eq_blockOrig, crypto_core_hchacha20_spec]; rfl

/-- XSalsa20 block from the reference pieces -/
theorem xsalsa20_ref_block_eq_spec (key nonce24 : Bytes) (counter : Nat) :
    crypto_core_salsa ((nonce24.drop 16).take 8 ++ toLE 8 counter)
        (crypto_core_hsalsa20 (nonce24.take 16) key none) none 20 =
      Salsa.xsalsaBlock key nonce24 counter := by
  rw [crypto_core_salsa_block 20 rfl, crypto_core_hsalsa20_spec]; rfl

/-! #### the correspondence driver's block parameters are the specification's -/

theorem driver_chachaB (key nonce8 : Bytes) :
    Driver.C03.chachaB key nonce8 =
      fun w12 w13 => Chacha.blockWords key w12 w13 (Chacha.load32le nonce8) (Chacha.load32le (nonce8.drop 4)) :=
  blockfn_orig key nonce8 none

theorem driver_chachaBi (key nonce12 : Bytes) :
    Driver.C03.chachaBi key nonce12 =
      fun w12 w13 => Chacha.blockWords key w12 w13 (Chacha.load32le (nonce12.drop 4))
        (Chacha.load32le (nonce12.drop 8)) :=
  blockfn_ietf key nonce12 none

theorem driver_salsaS (rounds : Nat) (h : rounds % 2 = 0) (key nonce8 : Bytes) :
    Driver.C03.salsaS rounds key nonce8 = fun ctr => Salsa.core rounds (nonce8.take 8 ++ ctr) key none := by
  funext ctr; exact crypto_core_salsa_even _ key none rounds h

/-! #### non-vacuity: published test vectors evaluate through the C-structured models -/

/-- RFC 8439 §2.3.2: key 00..1f, nonce 00 00 00 09 00 00 00 4a 00 00 00 00, block counter 1 -/
example :
    (chacha20_blockfn (chacha_ietf_ivsetup (chacha_keysetup W16.zero ((List.range 32).map UInt8.ofNat))
        [0, 0, 0, 9, 0, 0, 0, 0x4a, 0, 0, 0, 0] none) 1 0x09000000).take 16 =
      [0x10, 0xf1, 0xe7, 0xe4, 0xd1, 0x3b, 0x59, 0x15, 0x50, 0x0f, 0xdd, 0x1f, 0xa3, 0x20, 0x71, 0xc4] := by
  decide +kernel

/-- draft-irtf-cfrg-xchacha §2.2.1: HChaCha20 test vector -/
example :
    crypto_core_hchacha20 [0, 0, 0, 9, 0, 0, 0, 0x4a, 0, 0, 0, 0, 0x31, 0x41, 0x59, 0x27]
        ((List.range 32).map UInt8.ofNat) none =
      [0x82, 0x41, 0x3b, 0x42, 0x27, 0xb2, 0x7b, 0xfe, 0xd3, 0x0e, 0x42, 0x50, 0x8a, 0x87, 0x7d, 0x73,
       0xa0, 0xf9, 0xe4, 0xd5, 0x8a, 0x74, 0xa8, 0x53, 0xc1, 0x2e, 0xc4, 0x13, 0x26, 0xd3, 0xec, 0xdc] := by
  decide +kernel

/-- a short (partial-block) request and a two-block request through the whole reference path -/
example : (stream_ref 70 (zeros 8) (zeros 32)).length = 70 := by decide +kernel
example : stream_ref_xor_ic [1, 2, 3] (zeros 8) 7 (zeros 32) =
    xorBytes [1, 2, 3] (Chacha.blockOrig (zeros 32) (zeros 8) 7) := by decide +kernel
/-- hypotheses are satisfiable -/
example : (20 % 2 = 0) ∧ (12 % 2 = 0) ∧ (8 % 2 = 0) := by decide
example : (0xffffffff : UInt32).toNat + ((zeros 64).length + 63) / 64 ≤ 2 ^ 32 := by decide

end Sodium.C03Cores
