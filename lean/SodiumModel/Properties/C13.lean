import SodiumModel.Model.Overlap
import SodiumModel.Proofs.Overlap
/-
  C13 — in-place and overlapping buffers.

  The pointer-level code of `Model/Overlap.lean` (flat memory, addresses below 2^64), run with the
  message and the output placed ANYWHERE relative to each other, leaves in the output region exactly
  the bytes that the value-level functions of `Model/Aead.lean` (= the calls on disjoint buffers)
  compute, for every length:

    distance_test_exact        the `uintptr_t` test of crypto_secretbox_easy.c fires iff the regions
                               overlap and the pointers differ
    detached_overlap, easy_overlap            crypto_secretbox_detached / _easy
    open_detached_overlap, open_easy_overlap  crypto_secretbox_open_detached / _open_easy
    sign_overlap, sign_open_overlap           crypto_sign_ed25519 / _open
    xor_inplace, xor_chunks_inplace           stream XOR with c == m (whole-region and chunked)
    aead_encrypt_inplace, aead_decrypt_inplace

  What the code needs besides "everything ends below 2^64" (each hypothesis is shown necessary by a
  counterexample below):
    * encrypt: the 16-byte mac region is disjoint from the ciphertext region (it may overlap the
      message), and the bytes n[16..24) are not inside the ciphertext region;
    * open: n[16..24) is not inside the message (output) region when clen > 32; the mac may be
      anywhere (also inside the output);
    * sign: sk is not inside the sm region;  sign_open: nothing.
-/
open Sodium Sodium.Model Sodium.Model.Aead Sodium.Model.Overlap Sodium.OverlapP
namespace Sodium.C13

/-- what is needed from the primitives: output lengths -/
structure PrimsLen (P : Prims) : Prop where
  ks_len : ∀ k n ic len, (P.ks k n ic len).length = len
  mac_len : ∀ k d, (P.mac k d).length = 16

theorem toyPrims_len : PrimsLen toyPrims := ⟨toyPrims_ks_len, toyPrims_mac_len⟩

/-- `a` lies outside the `len` bytes at `off` -/
def outside (a off len : Nat) : Prop := a < off ∨ off + len ≤ a

/-! ### the distance test -/

/-- the C condition (64-bit wrapping `uintptr_t` arithmetic) holds iff 0 < |c − m| < mlen -/
theorem distance_test_exact (c m mlen : Nat) (hc : c < 2 ^ 64) (hm : m < 2 ^ 64) (hl : mlen < 2 ^ 64) :
    distTest c m mlen = true ↔ (m < c ∧ c - m < mlen) ∨ (c < m ∧ m - c < mlen) :=
  distTest_eq c m mlen hc hm hl

/-- … i.e. iff the pointers differ and the two `mlen`-byte regions share an address -/
theorem distance_test_overlap (c m mlen : Nat) (hc : c < 2 ^ 64) (hm : m < 2 ^ 64) (hl : mlen < 2 ^ 64) :
    distTest c m mlen = true ↔ c ≠ m ∧ ∃ a, (c ≤ a ∧ a < c + mlen) ∧ (m ≤ a ∧ a < m + mlen) := by
  rw [distTest_eq c m mlen hc hm hl]
  constructor
  · rintro (⟨h1, h2⟩ | ⟨h1, h2⟩)
    · exact ⟨by omega, c, by omega⟩
    · exact ⟨by omega, m, by omega⟩
  · rintro ⟨h, a, h1, h2⟩
    omega

/-- identical pointers and disjoint regions do not trigger the memmove -/
theorem distance_test_false (c m mlen : Nat) (hc : c < 2 ^ 64) (hm : m < 2 ^ 64) (hl : mlen < 2 ^ 64) :
    distTest c m mlen = false ↔ c = m ∨ c + mlen ≤ m ∨ m + mlen ≤ c := by
  rw [← Bool.not_eq_true, distTest_eq c m mlen hc hm hl]
  omega

/-! ### crypto_secretbox_detached / crypto_secretbox_easy -/

/-- For every length and every placement of `m` relative to `c` (and to `mac`): the call is well
    defined (the inner stream XOR only ever sees identical or disjoint regions), the `c` region then
    holds the ciphertext and the `mac` region the tag of the value-level function applied to the
    ORIGINAL message bytes, and nothing else is written. -/
theorem detached_overlap (P : Prims) (hP : PrimsLen P) (stk : Bytes) (mem : Mem) (c mac m mlen n k : Nat)
    (hc : c + mlen < 2 ^ 64) (hm : m + mlen < 2 ^ 64)
    (hmac : mac + 16 ≤ c ∨ c + mlen ≤ mac)
    (hn : n + 24 ≤ c ∨ c + mlen ≤ n + 16) :
    ∃ mem', Overlap.secretboxDetached P stk mem c mac m mlen n k = some mem' ∧
      read mem' c mlen = (Aead.secretboxDetached P (read mem m mlen) (read mem n 24) (read mem k 32)).1 ∧
      read mem' mac 16 = (Aead.secretboxDetached P (read mem m mlen) (read mem n 24) (read mem k 32)).2 ∧
      ∀ a, outside a c mlen → outside a mac 16 → mem' a = mem a := by
  refine ⟨_, secretboxDetached_eq P hP.ks_len stk mem c mac m mlen n k hc hm hn, ?_, ?_, ?_⟩
  · have hl := secretboxDetached_snd_length hP.mac_len (read mem m mlen) (read mem n 24) (read mem k 32)
    rw [read_write_disj _ _ _ _ _ (by rw [hl]; omega), read_write_same]
    rw [secretboxDetached_core, sbCoreV_fst_length P hP.ks_len, length_read]
  · exact read_write_same _ _ _ _ (secretboxDetached_snd_length hP.mac_len _ _ _).symm
  · intro a h1 h2
    have hl := secretboxDetached_snd_length hP.mac_len (read mem m mlen) (read mem n 24) (read mem k 32)
    have hl1 : (Aead.secretboxDetached P (read mem m mlen) (read mem n 24) (read mem k 32)).1.length = mlen := by
      rw [secretboxDetached_core, sbCoreV_fst_length P hP.ks_len, length_read]
    unfold outside at h1 h2
    rw [write_outside _ _ _ _ (by rw [hl]; exact h2), write_outside _ _ _ _ (by rw [hl1]; exact h1)]

/-- the `easy` layout (tag at `c`, ciphertext at `c + 16`), `m` anywhere — before, after, inside, on
    top of the output, overlapping the tag: the `16 + mlen` bytes at `c` are `secretboxEasy` of the
    original message -/
theorem easy_overlap (P : Prims) (hP : PrimsLen P) (stk : Bytes) (mem : Mem) (c m mlen n k : Nat)
    (hc : c + 16 + mlen < 2 ^ 64) (hm : m + mlen < 2 ^ 64)
    (hn : n + 8 ≤ c ∨ c + mlen ≤ n) :
    ∃ mem', Overlap.secretboxEasy P stk mem c m mlen n k = some mem' ∧
      read mem' c (16 + mlen) = Aead.secretboxEasy P (read mem m mlen) (read mem n 24) (read mem k 32) ∧
      ∀ a, outside a c (16 + mlen) → mem' a = mem a := by
  obtain ⟨mem', h0, h1, h2, h3⟩ := detached_overlap P hP stk mem (c + 16) c m mlen n k (by omega) hm
    (by omega) (by omega)
  refine ⟨mem', ?_, ?_, ?_⟩
  · rw [Overlap.secretboxEasy, if_neg (by omega), h0]
  · rw [read_append, h1, h2]; rfl
  · intro a ha
    unfold outside at ha
    exact h3 a (by unfold outside; omega) (by unfold outside; omega)

/-! ### crypto_secretbox_open_detached / crypto_secretbox_open_easy -/

/-- For every length and every placement of the output `m` relative to `c` and `mac`: same return
    value as the value-level function on the ORIGINAL ciphertext and tag; on failure (and for
    `m == NULL`) memory is untouched; on success the `m` region holds the value-level plaintext and
    nothing else is written. -/
theorem open_detached_overlap (P : Prims) (hP : PrimsLen P) (stk : Bytes) (mem : Mem) (m c mac clen n k : Nat)
    (hc : c + clen < 2 ^ 64) (hm : m + clen < 2 ^ 64)
    (hn : clen ≤ 32 ∨ n + 24 ≤ m ∨ m + clen ≤ n + 16) :
    ∃ mem', Overlap.secretboxOpenDetached P stk mem m c mac clen n k =
        ((Aead.secretboxOpenDetached P (decide (m ≠ 0)) (read mem c clen) (read mem mac 16)
            (read mem n 24) (read mem k 32)).rc, some mem') ∧
      match (Aead.secretboxOpenDetached P (decide (m ≠ 0)) (read mem c clen) (read mem mac 16)
            (read mem n 24) (read mem k 32)).mbuf with
      | none => mem' = mem
      | some out => out.length = clen ∧ read mem' m clen = out ∧ ∀ a, outside a m clen → mem' a = mem a := by
  refine ⟨_, secretboxOpenDetached_eq P hP.ks_len stk mem m c mac clen n k hc hm hn, ?_⟩
  generalize hr : Aead.secretboxOpenDetached P (decide (m ≠ 0)) (read mem c clen) (read mem mac 16)
    (read mem n 24) (read mem k 32) = r
  have hlen : ∀ out, r.mbuf = some out → out.length = clen := by
    intro out ho
    rw [← hr] at ho
    simp only [Aead.secretboxOpenDetached, length_read] at ho
    split at ho
    · simp at ho
    · split at ho
      · simp at ho
      · simp only [Option.some.injEq] at ho
        rw [← ho]
        split <;> simp [aead_xorBytes_length, hP.ks_len] <;> omega
  cases hmb : r.mbuf with
  | none => simp
  | some out =>
    have hl := hlen out hmb
    refine ⟨hl, read_write_same _ _ _ _ hl.symm, ?_⟩
    intro a ha
    unfold outside at ha
    exact write_outside _ _ _ _ (by omega)

/-- the `easy` layout (tag at `c`, ciphertext at `c + 16`), output `m` anywhere — including on top of
    the tag -/
theorem open_easy_overlap (P : Prims) (hP : PrimsLen P) (stk : Bytes) (mem : Mem) (m c clen n k : Nat)
    (hc : c + clen < 2 ^ 64) (hm : m + clen < 2 ^ 64)
    (hn : clen ≤ 48 ∨ n + 24 ≤ m ∨ m + (clen - 16) ≤ n + 16) :
    ∃ mem', Overlap.secretboxOpenEasy P stk mem m c clen n k =
        ((Aead.secretboxOpenEasy P (decide (m ≠ 0)) (read mem c clen) (read mem n 24) (read mem k 32)).rc, some mem') ∧
      match (Aead.secretboxOpenEasy P (decide (m ≠ 0)) (read mem c clen) (read mem n 24) (read mem k 32)).mbuf with
      | none => mem' = mem
      | some out => out.length = clen - 16 ∧ read mem' m (clen - 16) = out ∧
          ∀ a, outside a m (clen - 16) → mem' a = mem a := by
  by_cases h16 : clen < 16
  · refine ⟨mem, ?_, ?_⟩ <;> simp [Overlap.secretboxOpenEasy, Aead.secretboxOpenEasy, h16]
  · have e1 : (read mem c clen).drop 16 = read mem (c + 16) (clen - 16) := drop_read _ _ _ _ (by omega)
    have e2 : (read mem c clen).take 16 = read mem c 16 := take_read _ _ _ _ (by omega)
    have := open_detached_overlap P hP stk mem m (c + 16) c (clen - 16) n k (by omega) (by omega) (by omega)
    simpa only [Overlap.secretboxOpenEasy, Aead.secretboxOpenEasy, length_read, if_neg h16, e1, e2] using this

/-! ### crypto_sign_ed25519 / crypto_sign_ed25519_open -/

/-- For every length and every placement of `m` relative to `sm` (before, after, inside, straddling
    the signature slot …): `sm` holds `sig ‖ m` for the ORIGINAL message, `smlen = mlen + 64`, nothing
    else is written. (`sk` must not lie inside the `sm` region.) -/
theorem sign_overlap (sgn : Bytes → Bytes → Bytes) (hsgn : ∀ m sk, (sgn m sk).length = 64)
    (mem : Mem) (sm m mlen sk : Nat)
    (hs : sm + 64 + mlen < 2 ^ 64)
    (hsk : sk + 64 ≤ sm ∨ sm + 64 + mlen ≤ sk) :
    read (Overlap.sign sgn mem sm m mlen sk).1 sm (64 + mlen) = signV sgn (read mem m mlen) (read mem sk 64) ∧
    (Overlap.sign sgn mem sm m mlen sk).2 = mlen + 64 ∧
    ∀ a, outside a sm (64 + mlen) → (Overlap.sign sgn mem sm m mlen sk).1 a = mem a := by
  rw [sign_eq sgn mem sm m mlen sk (by omega)]
  refine ⟨?_, ?_, ?_⟩
  · rw [read_append, read_write_same _ _ _ _ (hsgn _ _).symm,
      read_write_disj _ _ _ _ _ (by rw [hsgn]; omega), read_write_same _ _ _ _ (by simp)]
    rfl
  · simp only [Overlap.sign]; omega
  · intro a ha
    unfold outside at ha
    rw [write_outside _ _ _ _ (by rw [hsgn]; omega), write_outside _ _ _ _ (by simp; omega)]

/-- For every length and every placement of the output `m` relative to `sm`: return value and
    `*mlen_p` of the value-level function on the ORIGINAL signed message; the `m` region then holds
    the message (success) or zeros (bad signature); too-short input and `m == NULL` write nothing. -/
theorem sign_open_overlap (vfy : Bytes → Bytes → Bytes → Bool) (mem : Mem) (m sm smlen pk : Nat)
    (hs : smlen < 2 ^ 64) :
    ∃ mem', Overlap.signOpen vfy mem m sm smlen pk =
        ((signOpenV vfy (decide (m ≠ 0)) (read mem sm smlen) (read mem pk 32)).rc,
         (signOpenV vfy (decide (m ≠ 0)) (read mem sm smlen) (read mem pk 32)).mlen, mem') ∧
      match (signOpenV vfy (decide (m ≠ 0)) (read mem sm smlen) (read mem pk 32)).mbuf with
      | none => mem' = mem
      | some out => out.length = smlen - 64 ∧ read mem' m (smlen - 64) = out ∧
          ∀ a, outside a m (smlen - 64) → mem' a = mem a := by
  refine ⟨_, signOpen_eq vfy mem m sm smlen pk hs, ?_⟩
  generalize hr : signOpenV vfy (decide (m ≠ 0)) (read mem sm smlen) (read mem pk 32) = r
  have hlen : ∀ out, r.mbuf = some out → out.length = smlen - 64 := by
    intro out ho
    rw [← hr] at ho
    simp only [signOpenV, length_read] at ho
    split at ho
    · simp at ho
    · split at ho <;> split at ho <;> simp at ho <;> rw [← ho] <;> simp
  cases hmb : r.mbuf with
  | none => simp
  | some out =>
    have hl := hlen out hmb
    refine ⟨hl, read_write_same _ _ _ _ hl.symm, ?_⟩
    intro a ha
    unfold outside at ha
    exact write_outside _ _ _ _ (by omega)

/-! ### stream XOR in place -/

/-- whole-region model, input = output -/
theorem xor_inplace (mem : Mem) (c len : Nat) (ks : Bytes) (hk : len ≤ ks.length) :
    ∃ mem', streamXor mem c c len ks = some mem' ∧
      read mem' c len = xorBytes (read mem c len) ks ∧
      ∀ a, outside a c len → mem' a = mem a := by
  have hl : (xorBytes (read mem c len) ks).length = len := by simp [aead_xorBytes_length]; omega
  refine ⟨write mem c (xorBytes (read mem c len) ks), by simp [streamXor],
    read_write_same _ _ _ _ hl.symm, ?_⟩
  intro a ha
  unfold outside at ha
  exact write_outside _ _ _ _ (by omega)

/-- chunk-by-chunk processing (any sequence of chunk sizes: bytes, 64-byte blocks, SIMD batches) with
    the output at or BEFORE the input, or disjoint from it, is the whole-region XOR -/
theorem xor_chunks_forward (mem : Mem) (c m : Nat) (ks : Bytes) (sizes : List Nat)
    (h : c ≤ m ∨ m + sizes.sum ≤ c) (hk : sizes.sum ≤ ks.length) :
    xorChunks mem c m ks sizes = write mem c (xorBytes (read mem m sizes.sum) ks) :=
  xorChunks_eq sizes mem c m ks h hk

/-- … in particular in place: the `c` region ends up as the XOR of its old contents with the keystream -/
theorem xor_chunks_inplace (mem : Mem) (c : Nat) (ks : Bytes) (sizes : List Nat) (hk : sizes.sum ≤ ks.length) :
    read (xorChunks mem c c ks sizes) c sizes.sum = xorBytes (read mem c sizes.sum) ks ∧
    streamXor mem c c sizes.sum ks = some (xorChunks mem c c ks sizes) := by
  rw [xorChunks_eq sizes mem c c ks (Or.inl (Nat.le_refl _)) hk]
  refine ⟨read_write_same _ _ _ _ ?_, by simp [streamXor]⟩
  simp [aead_xorBytes_length]; omega

/-! ### AEAD (ChaCha20-Poly1305 family) detached forms, input = output (or disjoint) -/

theorem aead_encrypt_inplace (P : Prims) (hP : PrimsLen P) (f : Flavor) (mem : Mem) (c mac m mlen : Nat)
    (ad npub k : Bytes)
    (hcm : c = m ∨ c + mlen ≤ m ∨ m + mlen ≤ c)
    (hmac : mac + 16 ≤ c ∨ c + mlen ≤ mac) :
    ∃ mem', Overlap.aeadEncryptDetached P f mem c mac m mlen ad npub k = some mem' ∧
      read mem' c mlen = (Aead.encryptDetached P f (read mem m mlen) ad npub k).1 ∧
      read mem' mac 16 = (Aead.encryptDetached P f (read mem m mlen) ad npub k).2 ∧
      ∀ a, outside a c mlen → outside a mac 16 → mem' a = mem a := by
  have hl1 := encryptDetached_fst_length P hP.ks_len f (read mem m mlen) ad npub k
  have hl2 : (Aead.encryptDetached P f (read mem m mlen) ad npub k).2.length = 16 := hP.mac_len _ _
  rw [length_read] at hl1
  refine ⟨_, aeadEncryptDetached_eq P f mem c mac m mlen ad npub k hcm hP.ks_len, ?_, ?_, ?_⟩
  · rw [read_write_disj _ _ _ _ _ (by rw [hl2]; omega), read_write_same _ _ _ _ hl1.symm]
  · exact read_write_same _ _ _ _ hl2.symm
  · intro a h1 h2
    unfold outside at h1 h2
    rw [write_outside _ _ _ _ (by rw [hl2]; exact h2), write_outside _ _ _ _ (by rw [hl1]; exact h1)]

theorem aead_decrypt_inplace (P : Prims) (hP : PrimsLen P) (f : Flavor) (mem : Mem) (m c clen mac : Nat)
    (ad npub k : Bytes)
    (hcm : m = c ∨ m + clen ≤ c ∨ c + clen ≤ m) :
    ∃ mem', Overlap.aeadDecryptDetached P f mem m c clen mac ad npub k =
        ((Aead.decryptDetached P f (decide (m ≠ 0)) (read mem c clen) (read mem mac 16) ad npub k).rc, some mem') ∧
      match (Aead.decryptDetached P f (decide (m ≠ 0)) (read mem c clen) (read mem mac 16) ad npub k).mbuf with
      | none => mem' = mem
      | some out => out.length = clen ∧ read mem' m clen = out ∧ ∀ a, outside a m clen → mem' a = mem a := by
  refine ⟨_, aeadDecryptDetached_eq P f mem m c clen mac ad npub k hcm, ?_⟩
  generalize hr : Aead.decryptDetached P f (decide (m ≠ 0)) (read mem c clen) (read mem mac 16) ad npub k = r
  have hlen : ∀ out, r.mbuf = some out → out.length = clen := by
    intro out ho
    rw [← hr] at ho
    simp only [Aead.decryptDetached, length_read] at ho
    split at ho
    · simp at ho
    · split at ho <;> simp at ho <;> rw [← ho] <;> simp [aead_xorBytes_length, hP.ks_len]
  cases hmb : r.mbuf with
  | none => simp
  | some out =>
    have hl := hlen out hmb
    refine ⟨hl, read_write_same _ _ _ _ hl.symm, ?_⟩
    intro a ha
    unfold outside at ha
    exact write_outside _ _ _ _ (by omega)

/-! ### non-vacuity, concrete runs, and the placements that do NOT work -/

/-- a memory with position-dependent contents, and some stack garbage -/
def memT : Mem := fun a => UInt8.ofNat (a * 37 + 11)
def stkT : Bytes := (List.range 64).map fun i => UInt8.ofNat (200 + i)
/-- toy detached signature / verification (64 bytes depending on every input byte) -/
def sgnT (m sk : Bytes) : Bytes := toLE 64 (toyChk (sk ++ m) * 2 ^ 300 + toyChk m)
def vfyT (sig m pk : Bytes) : Bool := sig.take 32 == toLE 32 (toyChk (pk ++ m))

/-- the hypotheses of `easy_overlap` are satisfiable: message 7 bytes inside the output buffer -/
example : ∃ mem', Overlap.secretboxEasy toyPrims stkT memT 1000 1007 50 300 400 = some mem' ∧
    read mem' 1000 (16 + 50) = Aead.secretboxEasy toyPrims (read memT 1007 50) (read memT 300 24) (read memT 400 32) :=
  let ⟨mem', h0, h1, _⟩ := easy_overlap toyPrims toyPrims_len stkT memT 1000 1007 50 300 400
    (by decide) (by decide) (by decide)
  ⟨mem', h0, h1⟩

/-- … and those of `detached_overlap`, message straddling the start of the ciphertext, tag elsewhere -/
example : ∃ mem', Overlap.secretboxDetached toyPrims stkT memT 1000 2000 990 50 300 400 = some mem' ∧
    read mem' 1000 50 = (Aead.secretboxDetached toyPrims (read memT 990 50) (read memT 300 24) (read memT 400 32)).1 :=
  let ⟨mem', h0, h1, _⟩ := detached_overlap toyPrims toyPrims_len stkT memT 1000 2000 990 50 300 400
    (by decide) (by decide) (by decide) (by decide)
  ⟨mem', h0, h1⟩

/-- direct evaluation of the pointer-level model (independent of the proofs): `m = c + 3`, 40 bytes -/
example : (Overlap.secretboxEasy toyPrims stkT memT 100 103 40 300 400).map (fun mem' => read mem' 100 56)
    = some (Aead.secretboxEasy toyPrims (read memT 103 40) (read memT 300 24) (read memT 400 32)) := by
  decide +kernel

/-- the message may lie on top of the tag slot: `m = c` in the `easy` layout, 8 bytes (no memmove:
    ciphertext region `c+16..` is disjoint from `m`), and the tag is written last -/
example : (Overlap.secretboxEasy toyPrims stkT memT 100 100 8 300 400).map (fun mem' => read mem' 100 24)
    = some (Aead.secretboxEasy toyPrims (read memT 100 8) (read memT 300 24) (read memT 400 32)) := by
  decide +kernel

/-- NOT allowed (and not documented as allowed): tag region overlapping the ciphertext region.
    `mac = c`, 16 bytes: the tag is stored over the ciphertext. -/
example : (Overlap.secretboxDetached toyPrims stkT memT 100 100 200 16 300 400).map (fun mem' => read mem' 100 16)
    ≠ some (Aead.secretboxDetached toyPrims (read memT 200 16) (read memT 300 24) (read memT 400 32)).1 := by
  decide +kernel

/-- NOT allowed: the nonce inside the ciphertext region (`n[16..24)` is read again after `c[0..32)`
    has been written) -/
example : (Overlap.secretboxDetached toyPrims stkT memT 100 500 200 40 90 400).map (fun mem' => read mem' 100 40)
    ≠ some (Aead.secretboxDetached toyPrims (read memT 200 40) (read memT 90 24) (read memT 400 32)).1 := by
  decide +kernel

/-- a memory holding a valid 40-byte ciphertext at 1000, its tag at 2000, nonce at `n`, key at 400 -/
def memC (n : Nat) : Mem :=
  write (write memT 1000 (Aead.secretboxDetached toyPrims (read memT 600 40) (read memT n 24) (read memT 400 32)).1)
    2000 (Aead.secretboxDetached toyPrims (read memT 600 40) (read memT n 24) (read memT 400 32)).2

/-- opening into a buffer overlapping the ciphertext by 33 bytes (`m = c − 7`), evaluated directly -/
example : ((Overlap.secretboxOpenDetached toyPrims stkT (memC 300) 993 1000 2000 40 300 400).1,
      ((Overlap.secretboxOpenDetached toyPrims stkT (memC 300) 993 1000 2000 40 300 400).2).map (fun mem' => read mem' 993 40))
    = (0, some (read memT 600 40)) := by
  decide +kernel

/-- opening with the output on top of the tag is fine (the tag is consumed before anything is written) -/
example : ((Overlap.secretboxOpenDetached toyPrims stkT (memC 300) 1990 1000 2000 40 300 400).1,
      ((Overlap.secretboxOpenDetached toyPrims stkT (memC 300) 1990 1000 2000 40 300 400).2).map (fun mem' => read mem' 1990 40))
    = (0, some (read memT 600 40)) := by
  decide +kernel

/-- NOT allowed when `clen > 32`: the nonce inside the output region (`n = 194`, output at 200..240) -/
example : (Aead.secretboxOpenDetached toyPrims true (read (memC 194) 1000 40) (read (memC 194) 2000 16)
        (read (memC 194) 194 24) (read (memC 194) 400 32)).mbuf = some (read memT 600 40) ∧
    ((Overlap.secretboxOpenDetached toyPrims stkT (memC 194) 200 1000 2000 40 194 400).2).map (fun mem' => read mem' 200 40)
      ≠ some (read memT 600 40) := by
  decide +kernel

/-- `sign_overlap` instantiated: message starting 10 bytes before `sm` (so it straddles the signature
    slot and the message slot) -/
example : read (Overlap.sign sgnT memT 1000 990 100 3000).1 1000 (64 + 100) = signV sgnT (read memT 990 100) (read memT 3000 64) :=
  (sign_overlap sgnT (fun _ _ => toLE_length _ _) memT 1000 990 100 3000 (by decide) (by decide)).1

/-- NOT allowed: `sk` inside `sm` (the memmove of the message destroys it before it is read) -/
example : read (Overlap.sign sgnT memT 100 300 64 170).1 100 128 ≠ signV sgnT (read memT 300 64) (read memT 170 64) := by
  decide +kernel

/-- `sign_open_overlap`: output on top of the signed message (`m = sm`), a bad signature: zeros -/
example : (Overlap.signOpen vfyT memT 100 100 80 500).1 = -1 ∧
    read (Overlap.signOpen vfyT memT 100 100 80 500).2.2 100 16 = zeros 16 := by
  decide +kernel

/-- a valid (for `vfyT`) signed 20-byte message at 1000, public key at 500 -/
def memS : Mem := write memT 1000 (toLE 32 (toyChk (read memT 500 32 ++ read memT 1064 20)) ++ zeros 32)

/-- … opened into a buffer that overlaps both the signature and the message part of `sm` -/
example : (Overlap.signOpen vfyT memS 1050 1000 84 500).1 = 0 ∧ (Overlap.signOpen vfyT memS 1050 1000 84 500).2.1 = 20 ∧
    read (Overlap.signOpen vfyT memS 1050 1000 84 500).2.2 1050 20 = read memT 1064 20 := by
  decide +kernel

/-- chunked XOR with the output AFTER the input and overlapping it is NOT the whole-region XOR
    (byte-wise, `c = m + 1`: the second input byte has already been overwritten) -/
example : xorChunks memT 1 0 [1, 2] [1, 1] 2 ≠ write memT 1 (xorBytes (read memT 0 2) [1, 2]) 2 := by
  decide +kernel

/-- … which is why `streamXor` declares that placement unspecified -/
example : streamXor memT 1 0 2 [1, 2] = none := by decide

end Sodium.C13
