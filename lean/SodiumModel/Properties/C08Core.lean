import SodiumModel.Proofs.Argon2Ref
import SodiumModel.Properties.C08
import SodiumModel.Driver.C08
/-
  C08 (core) — the reference Argon2 core of libsodium (Model/Argon2Ref.lean, transcribed from
  crypto_pwhash/argon2/{argon2-core.c, argon2-core.h, argon2-fill-block-ref.c, blamka-round-ref.h,
  blake2b-long.c, argon2.c}) equals the RFC 9106 specification (Spec/Argon2.lean) for all in-range inputs
  and any number of lanes.

  Property theorems only (helper lemmas: Proofs/Argon2RefBlock.lean, Argon2RefIndex.lean, Argon2RefSeg.lean,
  Argon2Ref.lean, namespace `Sodium.Argon2RefP`).  The hash `H outlen msg` (unkeyed BLAKE2b with a variable
  output length) is a parameter of model and specification alike; the only thing assumed about it is `HLen H`
  (it returns `outlen` bytes for `outlen ≤ 64`), proved for RFC 7693 BLAKE2b in `blake2b_returns_outlen`.
  The memory of the model (an array of 128-word blocks) and of the specification (one flat word array) are
  related by `Argon2RefP.Rel`.
-/
open Sodium Sodium.Spec Sodium.Model Sodium.Model.Argon2Ref Sodium.Argon2RefP
open Sodium.Model.Pwhash hiding Instance ARGON2_SYNC_POINTS ARGON2_VERSION_NUMBER
namespace Sodium.C08Core

/-! ### (1) fBlaMka, G, BLAKE2_ROUND_NOMSG, fill_block, fill_block_with_xor -/

/-- `fBlaMka(x, y)` is the multiply-add of RFC 9106 §3.6: x + y + 2·x_L·y_L in 64-bit arithmetic -/
theorem fBlaMka_spec (x y : UInt64) : fBlaMka x y = x + y + 2 * Argon2.lo x * Argon2.lo y := fBlaMka_eq x y

/-- … as a statement about numbers: (x + y + 2·(x mod 2^32)·(y mod 2^32)) mod 2^64 -/
theorem fBlaMka_nat (x y : UInt64) :
    (fBlaMka x y).toNat = (x.toNat + y.toNat + 2 * ((x.toNat % 2 ^ 32) * (y.toNat % 2 ^ 32))) % 2 ^ 64 := by
  have hm : (4294967295 : UInt64).toNat = 2 ^ 32 - 1 := rfl
  have h2 : (2 : UInt64).toNat = 2 := rfl
  simp only [fBlaMka, UInt64.toNat_add, UInt64.toNat_mul, UInt64.toNat_and, hm, h2,
    Nat.and_two_pow_sub_one_eq_mod]
  generalize x.toNat % 2 ^ 32 * (y.toNat % 2 ^ 32) = p
  omega

/-- the `G` macro is GB of §3.6 -/
theorem G_spec (a b c d : UInt64) : G a b c d = Argon2.GB a b c d := G_eq_GB a b c d

/-- the `BLAKE2_ROUND_NOMSG` macro is the permutation P of §3.6 on sixteen words -/
theorem BLAKE2_ROUND_NOMSG_spec (a0 a1 a2 a3 a4 a5 a6 a7 a8 a9 a10 a11 a12 a13 a14 a15 : UInt64) :
    Argon2.P #[a0, a1, a2, a3, a4, a5, a6, a7, a8, a9, a10, a11, a12, a13, a14, a15] =
      let r := BLAKE2_ROUND_NOMSG a0 a1 a2 a3 a4 a5 a6 a7 a8 a9 a10 a11 a12 a13 a14 a15
      #[r.v0, r.v1, r.v2, r.v3, r.v4, r.v5, r.v6, r.v7, r.v8, r.v9, r.v10, r.v11, r.v12, r.v13, r.v14, r.v15] :=
  P_eq a0 a1 a2 a3 a4 a5 a6 a7 a8 a9 a10 a11 a12 a13 a14 a15

/-- `BLAKE2_ROUND_NOMSG(b.v[i0], …, b.v[i15])` is P applied in place at these sixteen positions (any block,
    any positions) -/
theorem round_at_spec (R : Block) (i0 i1 i2 i3 i4 i5 i6 i7 i8 i9 i10 i11 i12 i13 i14 i15 : Nat) :
    round_at R i0 i1 i2 i3 i4 i5 i6 i7 i8 i9 i10 i11 i12 i13 i14 i15 =
      Argon2.applyP R #[i0, i1, i2, i3, i4, i5, i6, i7, i8, i9, i10, i11, i12, i13, i14, i15] :=
  (applyP_eq R i0 i1 i2 i3 i4 i5 i6 i7 i8 i9 i10 i11 i12 i13 i14 i15).symm

/-- the index patterns of the two loops of `fill_block` are the rows R_{8i}…R_{8i+7} and the columns
    R_i, R_{i+8}, …, R_{i+56} of the 8×8 matrix of 16-byte registers of §3.5 -/
theorem fill_block_indices (i : Nat) :
    Argon2.rowIdx i = #[16 * i, 16 * i + 1, 16 * i + 2, 16 * i + 3, 16 * i + 4, 16 * i + 5, 16 * i + 6,
      16 * i + 7, 16 * i + 8, 16 * i + 9, 16 * i + 10, 16 * i + 11, 16 * i + 12, 16 * i + 13, 16 * i + 14,
      16 * i + 15] ∧
    Argon2.colIdx i = #[2 * i, 2 * i + 1, 2 * i + 16, 2 * i + 17, 2 * i + 32, 2 * i + 33, 2 * i + 48,
      2 * i + 49, 2 * i + 64, 2 * i + 65, 2 * i + 80, 2 * i + 81, 2 * i + 96, 2 * i + 97, 2 * i + 112,
      2 * i + 113] := ⟨rowIdx_eq i, colIdx_eq i⟩

/-- `fill_block(prev, ref, next)` writes the compression function G(prev, ref) of §3.5, for every pair of
    1024-byte blocks -/
theorem fill_block_spec (prev ref : Block) (hp : prev.size = 128) (hr : ref.size = 128) :
    fill_block prev ref = Argon2.G prev ref := fill_block_eq prev ref hp hr

/-- `fill_block_with_xor(prev, ref, next)` writes G(prev, ref) XOR next (the version 1.3 overwrite rule) -/
theorem fill_block_with_xor_spec (prev ref next : Block) (hp : prev.size = 128) (hr : ref.size = 128) :
    fill_block_with_xor prev ref next = Argon2.xorBlock (Argon2.G prev ref) next :=
  fill_block_with_xor_eq prev ref next hp hr

/-- `xor_block` on a 128-word block is the word-wise XOR -/
theorem xor_block_spec (d s : Block) (hd : d.size = 128) : xor_block d s = Argon2.xorBlock d s :=
  xor_block_eq d s hd

example : (Argon2.zeroBlock).size = 128 := size_zeroBlock
example : fBlaMka 0xFFFFFFFFFFFFFFFF 0xFFFFFFFFFFFFFFFF = 0xFFFFFFFC00000000 := by decide

/-! ### (2) index_alpha -/

/-- `index_alpha(instance, position, pseudo_rand, same_lane)` returns the column z of RFC 9106 §3.4.2
    (`Spec.Argon2.refIndex`) for every position of every pass and every 32-bit J_1, when `same_lane` says
    whether the reference lane is the current lane.  Hypotheses (`IdxOk`): `lane_length = 4·segment_length`,
    `segment_length ≥ 2`, `slice < 4`, `index < segment_length`, and in the first slice of the first pass
    `index ≥ 2` and `same_lane` (what `argon2_fill_segment_ref` guarantees).  In particular none of the
    32- and 64-bit operations (`reference_area_size - 1`, the two 64-bit products, `start_position +
    relative_position - lane_length` with its branch-free correction) loses information. -/
theorem index_alpha_spec (inst : Instance) (pos : Position) (J1 : UInt32) (J2 : Nat) (same_lane : Bool)
    (h : IdxOk inst pos same_lane)
    (hs : same_lane = decide ((Argon2.refIndex inst.lanes.toNat inst.lane_length.toNat pos.pass.toNat
      pos.lane.toNat pos.slice.toNat pos.index.toNat J1.toNat J2).1 = pos.lane.toNat)) :
    (index_alpha inst pos J1 same_lane).toNat =
      (Argon2.refIndex inst.lanes.toNat inst.lane_length.toNat pos.pass.toNat pos.lane.toNat pos.slice.toNat
        pos.index.toNat J1.toNat J2).2 := by
  rw [refIndex_eq] at hs ⊢
  dsimp only at hs ⊢
  rw [index_alpha_eq inst pos J1 same_lane h, hs]

/-- What the returned index guarantees, with S = segment_length, j = slice·S + index the current column and
    z the result: z is a column of the lane; in the same lane it is neither the current block nor the
    previous one (column j − 1, cyclically); it is never a block of the current segment at or after the
    current position (those are not written yet in this pass); in the first pass z < j: only blocks already
    written; in another lane it is never in the segment being computed, nor — when index = 0 — the block
    just before it. -/
theorem index_alpha_bounds (inst : Instance) (pos : Position) (J1 : UInt32) (same_lane : Bool)
    (h : IdxOk inst pos same_lane) :
    let S := inst.segment_length.toNat
    let j := pos.slice.toNat * S + pos.index.toNat
    let z := (index_alpha inst pos J1 same_lane).toNat
    z < inst.lane_length.toNat ∧
    (same_lane = true → z ≠ j ∧ (j = 0 → z ≠ 4 * S - 1) ∧ (j ≠ 0 → z ≠ j - 1)) ∧
    ¬ (j ≤ z ∧ z < (pos.slice.toNat + 1) * S) ∧
    (pos.pass = 0 → z < j) ∧
    (same_lane = false → ¬ (pos.slice.toNat * S ≤ z ∧ z < (pos.slice.toNat + 1) * S)) ∧
    (same_lane = false → pos.index.toNat = 0 → (j = 0 → z ≠ 4 * S - 1) ∧ (j ≠ 0 → z ≠ j - 1)) := by
  intro S j z
  have hz : z = refZ (4 * S) pos.pass.toNat pos.slice.toNat pos.index.toNat J1.toNat same_lane := by
    show (index_alpha inst pos J1 same_lane).toNat = _
    rw [index_alpha_eq inst pos J1 same_lane h, h.hll]
  have hp : pos.pass = 0 ↔ pos.pass.toNat = 0 := u32_eq_iff _ _
  have hs : pos.slice = 0 ↔ pos.slice.toNat = 0 := by rw [u8_eq_iff]; rfl
  have := refZ_props S pos.pass.toNat pos.slice.toNat pos.index.toNat J1.toNat same_lane h.hS h.hsl h.hidx
    (fun a b => h.h0 (hp.mpr a) (hs.mpr b))
  dsimp only at this
  rw [← hz] at this
  obtain ⟨a, b, c, d, e, f⟩ := this
  exact ⟨by rw [h.hll]; exact a, b, c, fun hh => d (hp.mp hh), e, f⟩

-- the hypotheses of the two theorems are satisfiable
example : IdxOk ⟨3, 32, 8, 32, 1, 1, 2⟩ ⟨1, 0, 3, 0⟩ true :=
  ⟨by decide, by decide, by decide, by decide, by decide⟩
example : index_alpha ⟨3, 32, 8, 32, 1, 1, 2⟩ ⟨1, 0, 3, 0⟩ 0 true = 22 := by decide
example : index_alpha ⟨3, 32, 8, 32, 1, 1, 2⟩ ⟨0, 0, 0, 2⟩ 0xFFFFFFFF true = 0 := by decide

/-! ### (3) generate_addresses and the address schedule -/

/-- `generate_addresses` fills `pseudo_rands[0 .. segment_length)` with the words of the address blocks of
    §3.4.1.2: entry i is word i mod 128 of G(ZERO, G(ZERO, LE64(r) ‖ LE64(l) ‖ LE64(sl) ‖ LE64(m′) ‖ LE64(t) ‖
    LE64(y) ‖ LE64(i/128 + 1) ‖ ZERO)) — the counter starts at 1 and is bumped every 128 entries -/
theorem generate_addresses_spec (inst : Instance) (pos : Position) (pr : Array UInt64)
    (hs : pr.size = inst.segment_length.toNat) :
    (generate_addresses inst pos pr).size = pr.size ∧
    ∀ i, i < inst.segment_length.toNat → (generate_addresses inst pos pr)[i]! =
      (Argon2.addressBlock pos.pass.toNat pos.lane.toNat pos.slice.toNat inst.memory_blocks.toNat
        inst.passes.toNat inst.type.toNat (i / 128 + 1))[i % 128]! :=
  Argon2RefP.generate_addresses_spec inst pos pr hs

/-- the data-independent / data-dependent switch: Argon2i always independent; Argon2id independent exactly
    in the first two slices of the first pass -/
theorem addressing_schedule (inst : Instance) (pos : Position) (ht : inst.type = Argon2_i ∨ inst.type = Argon2_id) :
    (!(inst.type == Argon2_id && (pos.pass != 0 || pos.slice.toUInt32 >= ARGON2_SYNC_POINTS / 2))) = true ↔
      (inst.type.toNat = 1 ∨ (inst.type.toNat = 2 ∧ pos.pass.toNat = 0 ∧ pos.slice.toNat < 2)) :=
  di_eq inst pos ht

/-! ### (4) argon2_fill_segment_ref, argon2_fill_memory_blocks -/

/-- `argon2_fill_segment_ref(instance, position)` = `Spec.Argon2.fillSegment` for every pass, slice and lane:
    on a model memory representing the specification memory (`Rel`), the segment filled by the C code
    (the `prev_offset`/`curr_offset` walk with its rotation at the lane start, `starting_index = 2` in the
    first segment, the addressing switch, `fill_block` in pass 0 and `fill_block_with_xor` afterwards)
    represents the segment filled by the specification.  `InstOk`: lane_length = 4·segment_length,
    segment_length ≥ 2, memory_blocks = lanes·lane_length (< 2^32), lanes ≥ 1, type ∈ {1, 2}. -/
theorem fill_segment_spec (inst : Instance) (pos : Position) (st : State) (mem : Array UInt64) (hI : InstOk inst)
    (hsl : pos.slice.toNat < 4) (hlane : pos.lane.toNat < inst.lanes.toNat)
    (hM : Rel st.memory mem) (hMs : st.memory.size = inst.memory_blocks.toNat)
    (hprs : st.pseudo_rands.size = inst.segment_length.toNat) :
    Rel (argon2_fill_segment_ref inst pos st).memory
      (Argon2.fillSegment inst.type.toNat inst.passes.toNat inst.memory_blocks.toNat inst.lanes.toNat
        inst.lane_length.toNat pos.pass.toNat pos.slice.toNat pos.lane.toNat mem) ∧
    (argon2_fill_segment_ref inst pos st).memory.size = inst.memory_blocks.toNat ∧
    (argon2_fill_segment_ref inst pos st).pseudo_rands.size = inst.segment_length.toNat :=
  have h := fill_segment_rel inst pos st mem hI hsl hlane hM hMs hprs
  ⟨h.1, h.2.1, h.2.2.1⟩

/-- memory safety of the segment loop: in every iteration of `argon2_fill_segment_ref` (for every pass, slice,
    lane, memory contents) the block indices it computes — `curr_offset`, the rotated `prev_offset`, and the
    reference block `lane_length * ref_lane + ref_index` — are below `memory_blocks`, and `pseudo_rands[i]` is
    read inside its `segment_length` entries (`StepInBounds`; the iteration's state is the loop run for k
    steps from the state `fill_segment_init` sets up) -/
theorem fill_segment_in_bounds (inst : Instance) (pos : Position) (st : State) (mem : Array UInt64) (hI : InstOk inst)
    (hsl : pos.slice.toNat < 4) (hlane : pos.lane.toNat < inst.lanes.toNat)
    (hM : Rel st.memory mem) (hMs : st.memory.size = inst.memory_blocks.toNat)
    (hprs : st.pseudo_rands.size = inst.segment_length.toNat) :
    ∀ k, k < inst.segment_length.toNat - (fill_segment_init inst pos st).starting_index.toNat →
      StepInBounds inst pos (fill_segment_init inst pos st).data_independent_addressing
        (fill_segment_init inst pos st).pseudo_rands ((fill_segment_init inst pos st).starting_index.toNat + k)
        (forLoop (fill_segment_step inst pos (fill_segment_init inst pos st).data_independent_addressing
          (fill_segment_init inst pos st).pseudo_rands) k (fill_segment_init inst pos st).starting_index.toNat
          (fill_segment_init inst pos st).state) :=
  (fill_segment_rel inst pos st mem hI hsl hlane hM hMs hprs).2.2.2

/-- `argon2_fill_memory_blocks(instance, pass)` = one pass of the specification: slices in order, the
    lanes of a slice one after another -/
theorem fill_memory_blocks_spec (inst : Instance) (pass : UInt32) (st : State) (mem : Array UInt64)
    (hI : InstOk inst) (h : SRel inst st mem) :
    SRel inst (argon2_fill_memory_blocks inst pass st)
      ((List.range' 0 4).foldl (fun mem sl =>
        (List.range' 0 inst.lanes.toNat).foldl (fun mem lane =>
          Argon2.fillSegment inst.type.toNat inst.passes.toNat inst.memory_blocks.toNat inst.lanes.toNat
            inst.lane_length.toNat pass.toNat sl lane mem) mem) mem) :=
  fill_memory_rel inst pass st mem hI h

/-- what `Rel` gives: block n of the specification memory is the n-th block of the model memory -/
theorem rel_getBlock {M : Array Block} {mem : Array UInt64} (h : Rel M mem) (n : Nat) (hn : n < M.size) :
    Argon2.getBlock mem n = M[n]! := getBlock_rel h n hn

example (n : Nat) : Rel (Array.replicate n (Array.replicate 128 (0 : UInt64))) (Array.replicate (n * 128) 0) :=
  rel_replicate n

/-! ### (5) blake2b_long, initial hash, first blocks, finalisation -/

/-- `blake2b_long` is the variable-length hash H′ of §3.3, for every output length below 2^32 -/
theorem blake2b_long_spec (H : Nat → Bytes → Bytes) (outlen : Nat) (inp : Bytes) (h : outlen < 2 ^ 32) :
    blake2b_long H outlen inp = (0, Argon2.hPrime H outlen inp) := by
  have := blake2b_long_eq H outlen inp h
  have h1 : (blake2b_long H outlen inp).1 = 0 := by
    unfold blake2b_long
    rw [if_neg (by omega)]
    split <;> rfl
  rw [← this, ← h1]

/-- `load_block` / `store_block` are the little-endian conversions of §3.5–3.6 -/
theorem load_store_block_spec (b : Bytes) (blk : Block) (hb : blk.size = 128) :
    load_block b = Argon2.blockOfBytes b ∧ store_block blk = Argon2.bytesOfBlock blk :=
  ⟨load_block_eq b, store_block_eq blk hb⟩

/-- `argon2_initial_hash` computes H_0 of §3.2 step 1 -/
theorem initial_hash_spec (H : Nat → Bytes → Bytes) (c : Context) (pwd salt secret ad : Bytes) (type : UInt32)
    (hc : CoreOk c pwd salt secret ad) :
    argon2_initial_hash H c pwd salt secret ad type =
      H 64 (Argon2.le32 c.lanes ++ Argon2.le32 c.outlen ++ Argon2.le32 c.m_cost ++ Argon2.le32 c.t_cost ++
        Argon2.le32 0x13 ++ Argon2.le32 type.toNat ++ Argon2.le32 pwd.length ++ pwd ++ Argon2.le32 salt.length ++ salt ++
        Argon2.le32 secret.length ++ secret ++ Argon2.le32 ad.length ++ ad) :=
  initial_hash_eq H c pwd salt secret ad type (by have := hc.lanes; omega) hc.outlen hc.m_cost hc.t_cost
    hc.pwd hc.salt hc.secret hc.ad

/-- `argon2_fill_first_blocks`: B[i][0] = H′^1024(H_0 ‖ LE32(0) ‖ LE32(i)), B[i][1] = H′^1024(H_0 ‖ LE32(1) ‖ LE32(i)) -/
theorem fill_first_blocks_spec (H : Nat → Bytes → Bytes) (h0 : Bytes) (hh : h0.length = 64) (inst : Instance)
    (hI : InstOk inst) (M : Array Block) (mem : Array UInt64) (hM : Rel M mem)
    (hMs : M.size = inst.memory_blocks.toNat) :
    Rel (argon2_fill_first_blocks H (h0 ++ zeros 8) inst M)
      ((List.range' 0 inst.lanes.toNat).foldl (fun mem i =>
        Argon2.setBlock (Argon2.setBlock mem (i * inst.lane_length.toNat + 0)
            (Argon2.blockOfBytes (Argon2.hPrime H 1024 (h0 ++ Argon2.le32 0 ++ Argon2.le32 i))))
          (i * inst.lane_length.toNat + 1)
          (Argon2.blockOfBytes (Argon2.hPrime H 1024 (h0 ++ Argon2.le32 1 ++ Argon2.le32 i)))) mem) :=
  (first_blocks_rel H h0 hh inst hI M mem hM hMs).1

/-- `argon2_finalize`: the tag is H′^T of the XOR of the last blocks of all lanes (§3.2 steps 7–8) -/
theorem finalize_spec (H : Nat → Bytes → Bytes) (outlen : UInt32) (inst : Instance) (st : State)
    (mem : Array UInt64) (hI : InstOk inst) (h : SRel inst st mem) :
    argon2_finalize H outlen inst st =
      Argon2.hPrime H outlen.toNat (Argon2.bytesOfBlock
        ((List.range' 0 inst.lanes.toNat).foldl (fun c i =>
          Argon2.xorBlock c (Argon2.getBlock mem (i * inst.lane_length.toNat + (inst.lane_length.toNat - 1))))
          Argon2.zeroBlock)) :=
  finalize_eq H outlen inst st mem hI h

/-- RFC 7693 BLAKE2b returns the requested number of bytes: the one assumption on `H` holds for the hash the
    library uses -/
theorem blake2b_returns_outlen : HLen (fun n m => Blake2b.hash n [] [] [] m) := blake2b_HLen

/-! ### (6) end to end -/

/-- `argon2_ctx` after its validation step (memory rounding, `argon2_initialize`, `t_cost` calls of
    `argon2_fill_memory_blocks`, `argon2_finalize`) computes Argon2 of RFC 9106 §3.2 — for type i and id,
    any number of lanes 1 … 2^24−1, any t, m, tag length below 2^32, any password / salt / secret /
    associated data shorter than 2^32 bytes.  (`m < 8·lanes` is rejected by the validation; the core would
    round it up exactly as the specification does.) -/
theorem argon2_ctx_core_spec (H : Nat → Bytes → Bytes) (hH : HLen H) (c : Context)
    (pwd salt secret ad : Bytes) (type : UInt32) (ht : type = Argon2_i ∨ type = Argon2_id)
    (hc : CoreOk c pwd salt secret ad) :
    argon2_ctx_core H c pwd salt secret ad type =
      Argon2.argon2 H type.toNat pwd salt secret ad c.t_cost c.m_cost c.lanes c.outlen :=
  argon2_ctx_core_eq H hH c pwd salt secret ad type ht hc

/-- the same for the entry used by `argon2_hash` (no secret, no associated data) -/
theorem argon2_hash_ref_model_spec (H : Nat → Bytes → Bytes) (hH : HLen H) (y : Nat) (pwd salt : Bytes)
    (t m lanes outlen : Nat) (hy : y = 1 ∨ y = 2) (ht : t < 2 ^ 32) (hm : m < 2 ^ 32)
    (hl : 1 ≤ lanes ∧ lanes ≤ 0xFFFFFF) (ho : outlen < 2 ^ 32) (hp : pwd.length < 2 ^ 32)
    (hs : salt.length < 2 ^ 32) :
    argon2_hash_ref_model H y pwd salt t m lanes outlen = Argon2.argon2 H y pwd salt [] [] t m lanes outlen := by
  unfold argon2_hash_ref_model
  have hy32 : (UInt32.ofNat y).toNat = y := by
    rcases hy with rfl | rfl <;> rfl
  have hty : UInt32.ofNat y = Argon2_i ∨ UInt32.ofNat y = Argon2_id := by
    rcases hy with rfl | rfl
    · left; rfl
    · right; rfl
  rw [argon2_ctx_core_eq H hH _ pwd salt [] [] _ hty
    ⟨hl, ho, hm, ht, by show lanes < 2 ^ 32; omega, ⟨rfl, hp, fun h => by cases h⟩, ⟨rfl, hs, fun h => by cases h⟩,
     ⟨rfl, by decide, fun _ => rfl⟩, ⟨rfl, by decide, fun _ => rfl⟩⟩, hy32]

/-- the Argon2 primitive the driver uses (the C-structured core) and the one Properties/C08.lean was
    written against (the specification) -/
def refPrims (H : Nat → Bytes → Bytes) (scrypt : Bytes → Bytes → Nat → Nat → Nat → Nat → Bytes) : Prims :=
  { argon2 := argon2_hash_ref_model H, scrypt := scrypt }
def specPrims (H : Nat → Bytes → Bytes) (scrypt : Bytes → Bytes → Nat → Nat → Nat → Nat → Bytes) : Prims :=
  { argon2 := fun y pwd salt t m lanes outlen => Argon2.argon2 H y pwd salt [] [] t m lanes outlen, scrypt := scrypt }

/-- `argon2_hash` (argon2.c) with the reference core = `argon2_hash` with the specification, for ALL
    arguments: out-of-range ones are rejected by its own checks and by `argon2_validate_inputs` before the
    core runs -/
theorem argon2_hash_spec (H : Nat → Bytes → Bytes) (hH : HLen H)
    (sc : Bytes → Bytes → Nat → Nat → Nat → Nat → Bytes) (t_cost m_cost parallelism : Nat) (pwdNull : Bool)
    (pwd salt : Bytes) (hashlen encodedLen : Nat) (type : Argon2Type) :
    argon2_hash (refPrims H sc) t_cost m_cost parallelism pwdNull pwd salt hashlen encodedLen type =
      argon2_hash (specPrims H sc) t_cost m_cost parallelism pwdNull pwd salt hashlen encodedLen type := by
  unfold argon2_hash
  by_cases h1 : pwd.length > ARGON2_MAX_PWD_LENGTH
  · rw [if_pos h1, if_pos h1]
  rw [if_neg h1, if_neg h1]
  by_cases h2 : hashlen > ARGON2_MAX_OUTLEN
  · rw [if_pos h2, if_pos h2]
  rw [if_neg h2, if_neg h2]
  by_cases h3 : salt.length > ARGON2_MAX_SALT_LENGTH
  · rw [if_pos h3, if_pos h3]
  rw [if_neg h3, if_neg h3]
  dsimp only
  have key : ∀ c : Context, argon2_ctx (refPrims H sc) c pwd salt type = argon2_ctx (specPrims H sc) c pwd salt type := by
    intro c
    unfold argon2_ctx
    dsimp only
    by_cases hv : argon2_validate_inputs c ≠ ARGON2_OK
    · rw [if_pos hv, if_pos hv]
    · rw [if_neg hv, if_neg hv]
      have hok := (PwhashP.validate_ok_iff c).mp (Classical.not_not.mp hv)
      have hy : type.y = 1 ∨ type.y = 2 := by cases type <;> simp [Argon2Type.y]
      simp only [ARGON2_MAX_PWD_LENGTH, ARGON2_MAX_SALT_LENGTH, gt_iff_lt, Nat.not_lt] at h1 h3
      have := argon2_hash_ref_model_spec H hH type.y pwd salt c.t_cost c.m_cost c.lanes c.outlen hy
        (by have := hok.time; omega) (by have := hok.mem; omega) hok.lanes (by have := hok.outlen; omega)
        (by omega) (by omega)
      show (ARGON2_OK, argon2_hash_ref_model H type.y pwd salt c.t_cost c.m_cost c.lanes c.outlen) = _
      rw [this]; rfl
  rw [key]

/-- hence every public function of the crypto_pwhash family computes the same with the reference core as
    with the specification — Properties/C08.lean (stated for an arbitrary core) applies to the driver's
    instantiation, and the raw hash is RFC 9106 Argon2 with t = opslimit, m = memlimit / 1024 KiB, one lane -/
theorem crypto_pwhash_spec (H : Nat → Bytes → Bytes) (hH : HLen H)
    (sc : Bytes → Bytes → Nat → Nat → Nat → Nat → Bytes) (outlen : Nat) (passwd salt : Bytes)
    (opslimit memlimit : Nat) (alg : Int) :
    crypto_pwhash (refPrims H sc) outlen passwd salt opslimit memlimit alg =
      crypto_pwhash (specPrims H sc) outlen passwd salt opslimit memlimit alg := by
  unfold crypto_pwhash crypto_pwhash_argon2
  simp only [argon2_hash_spec H hH sc]

theorem crypto_pwhash_str_spec (H : Nat → Bytes → Bytes) (hH : HLen H)
    (sc : Bytes → Bytes → Nat → Nat → Nat → Nat → Bytes) (type : Argon2Type) (passwd : Bytes)
    (opslimit memlimit : Nat) (rnd : Bytes) :
    crypto_pwhash_argon2_str (refPrims H sc) type passwd opslimit memlimit rnd =
      crypto_pwhash_argon2_str (specPrims H sc) type passwd opslimit memlimit rnd := by
  unfold crypto_pwhash_argon2_str
  simp only [argon2_hash_spec H hH sc]

theorem crypto_pwhash_str_verify_spec (H : Nat → Bytes → Bytes) (hH : HLen H)
    (sc : Bytes → Bytes → Nat → Nat → Nat → Nat → Bytes) (str passwd : Bytes) :
    crypto_pwhash_str_verify (refPrims H sc) str passwd = crypto_pwhash_str_verify (specPrims H sc) str passwd := by
  unfold crypto_pwhash_str_verify crypto_pwhash_argon2_str_verify argon2_verify
  simp only [argon2_hash_spec H hH sc]

/-- the raw API end to end: `crypto_pwhash` with the reference core, on accepted arguments, returns
    Argon2 (RFC 9106) of type `alg` with t = opslimit passes, m = memlimit / 1024 KiB, p = 1 -/
theorem crypto_pwhash_is_rfc9106 (H : Nat → Bytes → Bytes) (hH : HLen H)
    (sc : Bytes → Bytes → Nat → Nat → Nat → Nat → Bytes) (outlen : Nat) (passwd salt : Bytes)
    (opslimit memlimit : Nat) (alg : Int) (hsalt : 16 ≤ salt.length)
    (h : (crypto_pwhash (refPrims H sc) outlen passwd salt opslimit memlimit alg).rc = 0) :
    (crypto_pwhash (refPrims H sc) outlen passwd salt opslimit memlimit alg).out =
      Argon2.argon2 H (if alg = 1 then 1 else 2) passwd (salt.take 16) [] [] opslimit (memlimit / 1024) 1 outlen := by
  rw [crypto_pwhash_spec H hH sc] at h ⊢
  rw [C08.limits_spec (specPrims H sc) outlen passwd salt opslimit memlimit alg hsalt] at h ⊢
  by_cases c1 : alg ≠ 1 ∧ alg ≠ 2
  · rw [if_pos c1] at h; exact absurd h (by decide)
  rw [if_neg c1] at h ⊢
  by_cases c2 : outlen > 4294967295
  · rw [if_pos c2] at h; exact absurd h (by decide)
  rw [if_neg c2] at h ⊢
  by_cases c3 : outlen < 16
  · rw [if_pos c3] at h; exact absurd h (by decide)
  rw [if_neg c3] at h ⊢
  by_cases c4 : passwd.length > 4294967295 ∨ opslimit > 4294967295 ∨ memlimit > 4398046510080
  · rw [if_pos c4] at h; exact absurd h (by decide)
  rw [if_neg c4] at h ⊢
  by_cases c5 : opslimit < (if alg = 1 then 3 else 1) ∨ memlimit < 8192
  · rw [if_pos c5] at h; exact absurd h (by decide)
  rw [if_neg c5]
  rfl

/-- the executable driver (`sodium-model`, compared with the real library by tools/check.py C08) runs exactly
    these definitions: its primitives are `refPrims` over RFC 7693 BLAKE2b, which satisfies `HLen` -/
theorem driver_prims_eq :
    Driver.C08.prims = refPrims Driver.C08.blake2b Driver.C08.scryptRef ∧
    HLen Driver.C08.blake2b := ⟨rfl, blake2b_HLen⟩

-- non-vacuity: in-range parameters exist
example : CoreOk { outlen := 32, pwdlen := 2, saltlen := 16, t_cost := 3, m_cost := 1024, lanes := 1, threads := 1 }
    [112, 119] (zeros 16) [] [] :=
  ⟨by decide, by decide, by decide, by decide, by decide, ⟨rfl, by decide, fun h => by cases h⟩,
   ⟨rfl, by decide, fun h => by cases h⟩, ⟨rfl, by decide, fun _ => rfl⟩, ⟨rfl, by decide, fun _ => rfl⟩⟩

end Sodium.C08Core
