import SodiumModel.MiniC.Soundness
import SodiumModel.MiniC.SoundnessCtx
/-
  C11, Tie B ("translator tie") — negative controls and statement of what the MiniC checker guarantees.

  `MiniC.ctCheck` (SodiumModel/MiniC/CtCheck.lean) is a decidable security type checker for the deep
  embedding MiniC; `MiniC.soundness` (SodiumModel/MiniC/Soundness.lean) proves, for ALL programs and all
  inputs, that an accepted function leaves equal leakage traces on any two inputs that agree on their
  Public part.  The obligations `Sodium.Generated.MiniC.ct_<fn>` / `ni_<fn>` (Generated/MiniCObligations.lean)
  instantiate it on the functions that tools/c2minic.py translates from the CURRENT C source on every run.

  This file shows that the checker and the semantics are not vacuous: hand-written MiniC versions of the
  three classic leaky rewrites
      (1) early-exit memcmp            (2) table-indexed base64 alphabet lookup
      (3) `if (x < 26) … else if (x < 52) … ` range branches in the base64 encoder
  and a few smaller ones (secret divisor, secret shift amount, secret stored into a Public array, secret
  returned as a Public result, secret passed to a Public parameter) are each REJECTED by `ctCheck`
  (`= false`, by `decide`), and for each of them two concrete inputs that agree on the Public part yield
  DIFFERENT traces under the instrumented semantics.  Constant-time variants of the same functions are accepted.
-/
namespace Sodium.C11MiniC
open MiniC

/-! ### (1) early-exit memcmp
    `for (i = 0; i < len; i++) { if (b1[i] != b2[i]) return -1; } return 0;` -/

def fn_memcmp_early : Fun :=
  { name := "memcmp_early", params := ["len"], arrParams := ["b1", "b2"]
    body := Stmt.block [
      .assign "i" (.lit 0),
      .while (.bin .lt .i32 (.var "i") (.var "len"))
        (Stmt.block [
          .ite (.bin .ne .i32 (.cast .i32 (.load "b1" (.var "i"))) (.cast .i32 (.load "b2" (.var "i"))))
            (.ret (.un .neg .i32 (.lit 1)))
            .skip,
          .assign "i" (.bin .add .u64 (.var "i") (.lit 1))]),
      .ret (.lit 0)] }

def specs_memcmp : Ctx := [("memcmp_early", ⟨["len"], [], false⟩)]

theorem memcmp_early_rejected : ctCheck [fn_memcmp_early] "memcmp_early" specs_memcmp = false := by decide

/-- the two runs agree on the Public `len` but differ in the Secret buffers; the traces differ
    (the first run leaves the loop after one iteration) -/
theorem memcmp_early_leaks :
    (runFun [fn_memcmp_early] 100 fn_memcmp_early [2] [[1, 2], [9, 2]]).tr ≠
    (runFun [fn_memcmp_early] 100 fn_memcmp_early [2] [[1, 2], [1, 2]]).tr := by decide

example : (runFun [fn_memcmp_early] 100 fn_memcmp_early [2] [[1, 2], [9, 2]]).tr =
    [.branch true, .load "b1" 0, .load "b2" 0, .branch true] := by decide

/-- … but the verdict depends on the LABELS, not on the shape: with Public buffers the same function is fine -/
theorem memcmp_early_public_ok :
    ctCheck [fn_memcmp_early] "memcmp_early" [("memcmp_early", ⟨["len"], ["b1", "b2"], true⟩)] = true := by decide

/-! ### (2) table-indexed base64 alphabet: `return alphabet[x];` with a Secret `x` -/

def alphabet : List Int := "ABCDEFGHIJKLMNOPQRSTUVWXYZabcdefghijklmnopqrstuvwxyz0123456789+/".toList.map (fun c => Int.ofNat c.toNat)

def fn_b64_table : Fun :=
  { name := "b64_table", params := ["x"], arrParams := []
    body := Stmt.block [
      .declArr "alphabet" alphabet,
      .ret (.cast .i32 (.load "alphabet" (.var "x")))] }

theorem b64_table_rejected : ctCheck [fn_b64_table] "b64_table" [("b64_table", ⟨[], [], false⟩)] = false := by decide

theorem b64_table_leaks :
    (runFun [fn_b64_table] 10 fn_b64_table [5] []).tr ≠ (runFun [fn_b64_table] 10 fn_b64_table [40] []).tr := by decide

example : (runFun [fn_b64_table] 10 fn_b64_table [5] []).tr = [.load "alphabet" 5] := by decide
example : (runFun [fn_b64_table] 10 fn_b64_table [5] []).out = .ret 70 := by decide   -- 'F'

/-- a Public index into the same table is accepted -/
theorem b64_table_public_ok : ctCheck [fn_b64_table] "b64_table" [("b64_table", ⟨["x"], [], true⟩)] = true := by decide

/-! ### (3) range branches: `if (x < 26) return x + 'A'; if (x < 52) return x + ('a' - 26); if (x < 62) …` -/

def fn_b64_branchy : Fun :=
  { name := "b64_branchy", params := ["x"], arrParams := []
    body := Stmt.block [
      .ite (.bin .lt .i32 (.var "x") (.lit 26)) (.ret (.cast .i32 (.bin .add .u32 (.var "x") (.lit 65)))) .skip,
      .ite (.bin .lt .i32 (.var "x") (.lit 52)) (.ret (.cast .i32 (.bin .add .u32 (.var "x") (.lit 71)))) .skip,
      .ite (.bin .lt .i32 (.var "x") (.lit 62)) (.ret (.cast .i32 (.bin .sub .u32 (.var "x") (.lit 4)))) .skip,
      .ret (.cond (.bin .eq .i32 (.var "x") (.lit 62)) (.lit 43) (.lit 47))] }

theorem b64_branchy_rejected : ctCheck [fn_b64_branchy] "b64_branchy" [("b64_branchy", ⟨[], [], false⟩)] = false := by decide

theorem b64_branchy_leaks :
    (runFun [fn_b64_branchy] 20 fn_b64_branchy [5] []).tr ≠ (runFun [fn_b64_branchy] 20 fn_b64_branchy [61] []).tr := by decide

example : (runFun [fn_b64_branchy] 20 fn_b64_branchy [61] []).tr = [.branch false, .branch false, .branch true] := by decide
example : (runFun [fn_b64_branchy] 20 fn_b64_branchy [61] []).out = .ret 57 := by decide   -- '9'
example : (runFun [fn_b64_branchy] 20 fn_b64_branchy [63] []).tr = [.branch false, .branch false, .branch false, .branch false] := by decide

/-- a single `if (x < 62)` on a Secret `x` is enough -/
def fn_lt62 : Fun :=
  { name := "lt62", params := ["x"], arrParams := []
    body := .ite (.bin .lt .i32 (.var "x") (.lit 62)) (.ret (.lit 1)) (.ret (.lit 0)) }
theorem lt62_rejected : ctCheck [fn_lt62] "lt62" [("lt62", ⟨[], [], false⟩)] = false := by decide
theorem lt62_leaks : (runFun [fn_lt62] 5 fn_lt62 [61] []).tr ≠ (runFun [fn_lt62] 5 fn_lt62 [62] []).tr := by decide

/-! ### smaller controls: one for each remaining rule of the checker -/

/-- short-circuit `&&` on a Secret left operand -/
def fn_andand : Fun :=
  { name := "andand", params := ["s", "p"], arrParams := []
    body := .ret (.land (.var "s") (.var "p")) }
theorem andand_rejected : ctCheck [fn_andand] "andand" [("andand", ⟨["p"], [], false⟩)] = false := by decide
theorem andand_leaks : (runFun [fn_andand] 5 fn_andand [0, 1] []).tr ≠ (runFun [fn_andand] 5 fn_andand [1, 1] []).tr := by decide
/-- the bitwise `&` of the same operands is accepted -/
theorem and_ok : ctCheck [{ fn_andand with body := .ret (.bin .band .i32 (.var "s") (.var "p")) }] "andand" [("andand", ⟨["p"], [], false⟩)] = true := by decide

/-- division by / of a Secret, shift by a Secret amount -/
def fn_div : Fun := { name := "div", params := ["s", "p"], arrParams := [], body := .ret (.bin .div .u32 (.var "s") (.var "p")) }
theorem div_rejected : ctCheck [fn_div] "div" [("div", ⟨["p"], [], false⟩)] = false := by decide
theorem div_leaks : (runFun [fn_div] 5 fn_div [7, 3] []).tr ≠ (runFun [fn_div] 5 fn_div [8, 3] []).tr := by decide
theorem div_public_ok : ctCheck [fn_div] "div" [("div", ⟨["s", "p"], [], false⟩)] = true := by decide

def fn_shift : Fun := { name := "shift", params := ["s", "p"], arrParams := [], body := .ret (.bin .shr .u32 (.var "p") (.var "s")) }
theorem shift_rejected : ctCheck [fn_shift] "shift" [("shift", ⟨["p"], [], false⟩)] = false := by decide
theorem shift_leaks : (runFun [fn_shift] 5 fn_shift [1, 8] []).tr ≠ (runFun [fn_shift] 5 fn_shift [2, 8] []).tr := by decide
/-- a Secret value shifted by a literal or by a Public amount is accepted -/
theorem shift_ok :
    ctCheck [{ fn_shift with body := .ret (.bin .bor .u32 (.bin .shr .u32 (.var "s") (.lit 3)) (.bin .shl .u32 (.var "s") (.var "p"))) }]
      "shift" [("shift", ⟨["p"], [], false⟩)] = true := by decide

/-- a Secret stored into an array declared Public; a Secret returned as a Public result;
    a Secret copied through a local into a loop bound (the inference demotes the local) -/
def fn_store : Fun := { name := "st", params := ["s"], arrParams := ["out"], body := .store "out" (.lit 0) (.var "s") }
theorem store_rejected : ctCheck [fn_store] "st" [("st", ⟨[], ["out"], true⟩)] = false := by decide
theorem store_ok : ctCheck [fn_store] "st" [("st", ⟨[], [], true⟩)] = true := by decide

def fn_ret : Fun := { name := "r", params := ["s"], arrParams := [], body := .ret (.var "s") }
theorem ret_rejected : ctCheck [fn_ret] "r" [("r", ⟨[], [], true⟩)] = false := by decide
theorem ret_ok : ctCheck [fn_ret] "r" [("r", ⟨[], [], false⟩)] = true := by decide

def fn_flow : Fun :=
  { name := "flow", params := ["s"], arrParams := ["a"]
    body := Stmt.block [
      .assign "n" (.lit 4),
      .assign "t" (.bin .band .u32 (.var "s") (.lit 3)),
      .assign "n" (.bin .add .u32 (.var "n") (.var "t")),      -- n becomes Secret
      .assign "i" (.lit 0),
      .while (.bin .lt .i32 (.var "i") (.var "n")) (.assign "i" (.bin .add .u32 (.var "i") (.lit 1))),
      .ret (.lit 0)] }
theorem flow_rejected : ctCheck [fn_flow] "flow" [("flow", ⟨[], [], true⟩)] = false := by decide
theorem flow_leaks : (runFun [fn_flow] 100 fn_flow [0] [[]]).tr ≠ (runFun [fn_flow] 100 fn_flow [1] [[]]).tr := by decide

/-- interprocedural: a Secret argument for a parameter the callee declares Public (and branches on);
    a callee that writes a Secret into the caller's Public array -/
def fn_callee : Fun :=
  { name := "callee", params := ["n"], arrParams := ["a"]
    body := .ite (.var "n") (.store "a" (.lit 0) (.lit 1)) .skip }
def fn_caller : Fun :=
  { name := "caller", params := ["s"], arrParams := ["buf"]
    body := .call none "callee" [.var "s"] ["buf"] }
def specs_call : Ctx := [("caller", ⟨[], ["buf"], true⟩), ("callee", ⟨["n"], ["a"], true⟩)]
theorem call_rejected : ctCheck [fn_caller, fn_callee] "caller" specs_call = false := by decide
theorem call_leaks :
    (runFun [fn_caller, fn_callee] 10 fn_caller [0] [[5]]).tr ≠ (runFun [fn_caller, fn_callee] 10 fn_caller [1] [[5]]).tr := by decide
/-- with a Public argument the call is accepted, and the store through the pointer reaches the caller's array -/
theorem call_ok : ctCheck [fn_caller, fn_callee] "caller" [("caller", ⟨["s"], ["buf"], true⟩), ("callee", ⟨["n"], ["a"], true⟩)] = true := by decide
example : (runFun [fn_caller, fn_callee] 10 fn_caller [1] [[5]]).st.arrs "buf" = [1] := by decide
example : (runFun [fn_caller, fn_callee] 10 fn_caller [1] [[5]]).tr = [.branch true, .store "a" 0] := by decide

def fn_callee2 : Fun := { name := "callee2", params := ["v"], arrParams := ["a"], body := .store "a" (.lit 0) (.var "v") }
def fn_caller2 : Fun := { name := "caller2", params := ["s"], arrParams := ["buf"], body := .call none "callee2" [.var "s"] ["buf"] }
/-- the callee treats its array as Secret (it stores a Secret there), the caller claims `buf` stays Public -/
theorem call2_rejected :
    ctCheck [fn_caller2, fn_callee2] "caller2" [("caller2", ⟨[], ["buf"], true⟩), ("callee2", ⟨[], [], true⟩)] = false := by decide

/-! ### accepted counterparts: the constant-time way of writing (1) and (3) -/

def fn_memcmp_ct : Fun :=
  { name := "memcmp_ct", params := ["len"], arrParams := ["b1", "b2"]
    body := Stmt.block [
      .assign "d" (.lit 0),
      .assign "i" (.lit 0),
      .while (.bin .lt .i32 (.var "i") (.var "len"))
        (Stmt.block [
          .assign "d" (.cast .u8 (.bin .bor .i32 (.cast .i32 (.var "d"))
            (.bin .bxor .i32 (.cast .i32 (.load "b1" (.var "i"))) (.cast .i32 (.load "b2" (.var "i")))))),
          .assign "i" (.bin .add .u64 (.var "i") (.lit 1))]),
      .ret (.bin .sub .i32 (.bin .band .i32 (.lit 1) (.bin .shr .i32 (.bin .sub .i32 (.cast .i32 (.var "d")) (.lit 1)) (.lit 8))) (.lit 1))] }

theorem memcmp_ct_accepted : ctCheck [fn_memcmp_ct] "memcmp_ct" [("memcmp_ct", ⟨["len"], [], false⟩)] = true := by decide +kernel

/-- … hence non-interferent, by the soundness theorem: a satisfiable instance of its hypotheses -/
theorem memcmp_ct_ni : NonInterferent [fn_memcmp_ct] fn_memcmp_ct ⟨["len"], [], false⟩ :=
  soundness memcmp_ct_accepted (by decide) (by decide)

example : (runFun [fn_memcmp_ct] 100 fn_memcmp_ct [2] [[1, 2], [9, 2]]).tr =
    (runFun [fn_memcmp_ct] 100 fn_memcmp_ct [2] [[1, 2], [1, 2]]).tr := by decide +kernel
example : (runFun [fn_memcmp_ct] 100 fn_memcmp_ct [2] [[1, 2], [9, 2]]).out = .ret (-1) := by decide +kernel
example : (runFun [fn_memcmp_ct] 100 fn_memcmp_ct [2] [[1, 2], [1, 2]]).out = .ret 0 := by decide +kernel

/-- the soundness theorem restated in the form "two initial states that agree on every Public variable and
    on the contents of every Public array": any checked statement, any two such states, any fuel. -/
theorem soundness_states (P : Program) (C : Ctx) (hP : checkProg P C = true) (Γ : Env) (s : Stmt)
    (hs : checkS P C Γ s = true) (σ1 σ2 : State) (hσ : Agree Γ σ1 σ2) (fuel : Nat) :
    (exec P fuel s σ1).tr = (exec P fuel s σ2).tr ∧
    OutRel Γ.retPub (exec P fuel s σ1).out (exec P fuel s σ2).out :=
  let h := exec_ni P C (progOK_of_checkProg P C hP) fuel Γ s σ1 σ2 hs hσ
  ⟨h.1, h.2.1⟩

/-! ### controls for the normalisations the translator uses on the larger targets (tools/c2minic.py, "Extensions")

    No construct was added to MiniC for them: sub-array arguments, aliased arguments, struct members, `switch`
    are expressed with offsets, merged array parameters, one array per member and `if` chains.  The controls
    below show that the leaky variant of each shape is still REJECTED, that the shapes have the C meaning, and
    that a wrong SUPPLIED context (`soundness_ctx`) cannot make a leaky function pass. -/

/-- clone of `uint8_t get(const uint8_t *p) { return p[0]; }` for a call `get(a + o)`: the enclosing array is passed,
    the offset is the extra scalar parameter `p__off` -/
def fn_get_o : Fun := { name := "get__o", params := ["p__off"], arrParams := ["p"], body := .ret (.load "p" (.bin .add .u64 (.var "p__off") (.lit 0))) }
/-- `x = get(tbl + s)` with a Secret `s`: a table lookup at a Secret position -/
def fn_lookup : Fun :=
  { name := "lookup", params := ["s"], arrParams := ["tbl"], body := Stmt.block [.call (some "x") "get__o" [.cast .u64 (.var "s")] ["tbl"], .ret (.var "x")] }
def specs_lookup (sPub : Bool) : Ctx := [("lookup", ⟨if sPub then ["s"] else [], [], false⟩), ("get__o", ⟨["p__off"], [], false⟩)]
theorem subarray_secret_offset_rejected : ctCheck [fn_lookup, fn_get_o] "lookup" (specs_lookup false) = false := by decide
theorem subarray_public_offset_ok : ctCheck [fn_lookup, fn_get_o] "lookup" (specs_lookup true) = true := by decide
theorem subarray_secret_offset_leaks :
    (runFun [fn_lookup, fn_get_o] 20 fn_lookup [1] [[7, 8, 9]]).tr ≠ (runFun [fn_lookup, fn_get_o] 20 fn_lookup [2] [[7, 8, 9]]).tr := by decide
example : (runFun [fn_lookup, fn_get_o] 20 fn_lookup [2] [[7, 8, 9]]).out = .ret 9 := by decide
example : (runFun [fn_lookup, fn_get_o] 20 fn_lookup [2] [[7, 8, 9]]).tr = [.load "p" 2] := by decide
/-- declaring the offset parameter Secret in the clone does not help: it is an index there -/
theorem subarray_secret_offset_param_rejected :
    ctCheck [fn_lookup, fn_get_o] "lookup" [("lookup", ⟨[], [], false⟩), ("get__o", ⟨[], [], false⟩)] = false := by decide

/-- `void addto(uint8_t *h, const uint8_t *f) { h[0] = h[0] + f[0]; h[1] = h[1] + f[0]; }` called as `addto(x, x)`:
    by-copy passing of two copies would use the OLD `f[0]` for the second statement; the merged clone (one array
    parameter for both) computes what C computes -/
def fn_addto_merged : Fun :=
  { name := "addto__n_nm0", params := [], arrParams := ["h"]
    body := Stmt.block [.store "h" (.lit 0) (.cast .u8 (.bin .add .i32 (.load "h" (.lit 0)) (.load "h" (.lit 0)))),
                        .store "h" (.lit 1) (.cast .u8 (.bin .add .i32 (.load "h" (.lit 1)) (.load "h" (.lit 0))))] }
def fn_addto_copy : Fun :=
  { name := "addto", params := [], arrParams := ["h", "f"]
    body := Stmt.block [.store "h" (.lit 0) (.cast .u8 (.bin .add .i32 (.load "h" (.lit 0)) (.load "f" (.lit 0)))),
                        .store "h" (.lit 1) (.cast .u8 (.bin .add .i32 (.load "h" (.lit 1)) (.load "f" (.lit 0))))] }
/-- C on `x = {3, 10}`: x[0] = 6, then x[1] = 10 + 6 = 16 -/
theorem alias_merged_is_C : (runFun [fn_addto_merged] 20 fn_addto_merged [] [[3, 10]]).st.arrs "h" = [6, 16] := by decide
/-- … which the unmerged function on two copies does not compute (13 instead of 16): the reason for the clones -/
theorem alias_copy_is_not_C : (runFun [fn_addto_copy] 20 fn_addto_copy [] [[3, 10], [3, 10]]).st.arrs "h" = [6, 13] := by decide

/-- struct members are separate arrays with separate labels (`st.final` Public, `st.h` Secret):
    `hibit = st->final ? 0 : 1` is accepted, `st->h[0] ? 0 : 1` is not -/
def fn_member (m : String) : Fun := { name := "member", params := [], arrParams := ["st.h", "st.final"], body := .ret (.cond (.load m (.lit 0)) (.lit 0) (.lit 1)) }
theorem member_public_flag_ok : ctCheck [fn_member "st.final"] "member" [("member", ⟨[], ["st.final"], false⟩)] = true := by decide
theorem member_secret_rejected : ctCheck [fn_member "st.h"] "member" [("member", ⟨[], ["st.final"], false⟩)] = false := by decide
theorem member_secret_leaks :
    (runFun [fn_member "st.h"] 10 (fn_member "st.h") [] [[0], [1]]).tr ≠ (runFun [fn_member "st.h"] 10 (fn_member "st.h") [] [[5], [1]]).tr := by decide

/-- `switch (left) { case 2: b |= in[1] << 8; case 1: b |= in[0]; break; case 0: break; }` as the translator writes it -/
def fn_switch : Fun :=
  { name := "sw", params := ["left"], arrParams := ["in"]
    body := Stmt.block [
      .assign "b" (.lit 0),
      .doWhile (Stmt.block [
        .assign "sel" (.var "left"), .assign "m" (.lit 0),
        .ite (.bin .bor .i32 (.var "m") (.bin .eq .i32 (.var "sel") (.lit 2)))
          (Stmt.block [.assign "m" (.lit 1), .assign "b" (.bin .bor .u32 (.var "b") (.bin .shl .u32 (.load "in" (.lit 1)) (.lit 8)))]) .skip,
        .ite (.bin .bor .i32 (.var "m") (.bin .eq .i32 (.var "sel") (.lit 1)))
          (Stmt.block [.assign "m" (.lit 1), .assign "b" (.bin .bor .u32 (.var "b") (.load "in" (.lit 0))), .brk]) .skip,
        .ite (.bin .bor .i32 (.var "m") (.bin .eq .i32 (.var "sel") (.lit 0)))
          (Stmt.block [.assign "m" (.lit 1), .brk]) .skip]) (.lit 0),
      .ret (.var "b")] }
theorem switch_secret_selector_rejected : ctCheck [fn_switch] "sw" [("sw", ⟨[], [], false⟩)] = false := by decide
theorem switch_public_selector_ok : ctCheck [fn_switch] "sw" [("sw", ⟨["left"], [], false⟩)] = true := by decide
theorem switch_secret_selector_leaks : (runFun [fn_switch] 50 fn_switch [2] [[1, 2]]).tr ≠ (runFun [fn_switch] 50 fn_switch [0] [[1, 2]]).tr := by decide
/-- fall-through and `break` have the C meaning -/
example : (runFun [fn_switch] 50 fn_switch [2] [[1, 2]]).out = .ret 513 := by decide
example : (runFun [fn_switch] 50 fn_switch [1] [[1, 2]]).out = .ret 1 := by decide
example : (runFun [fn_switch] 50 fn_switch [0] [[1, 2]]).out = .ret 0 := by decide
example : (runFun [fn_switch] 50 fn_switch [7] [[1, 2]]).out = .ret 0 := by decide

/-- a SUPPLIED context is not trusted: claiming that the Secret-derived `x` of `lookup` is Public, or that the Secret
    parameter `s` is, makes `checkProg` / `entryOK` fail; the inferred context passes and gives non-interference -/
theorem ctx_lying_param_rejected :
    checkProg [fn_lookup, fn_get_o] [("lookup", ⟨["s"], [], false⟩), ("get__o", ⟨["p__off"], [], false⟩)] = true ∧
    entryOK fn_lookup ⟨["s"], [], false⟩ ⟨[], [], false⟩ = false := by decide
theorem ctx_lying_local_rejected :
    checkProg [fn_lookup, fn_get_o] [("lookup", ⟨["x"], [], false⟩), ("get__o", ⟨["p__off"], [], false⟩)] = false := by decide
theorem ctx_lying_callee_rejected :
    checkProg [fn_lookup, fn_get_o] [("lookup", ⟨[], [], false⟩), ("get__o", ⟨[], [], false⟩)] = false := by decide
theorem lookup_public_ni : NonInterferent [fn_lookup, fn_get_o] fn_lookup ⟨["s"], [], false⟩ :=
  soundness_ctx (f := "lookup") (C := [("lookup", ⟨["s"], [], false⟩), ("get__o", ⟨["p__off"], [], false⟩)]) (Γ := ⟨["s"], [], false⟩)
    (by decide) (by decide) (by decide) (by decide)
/-- `soundness_ctx` at the inferred context is `soundness` -/
theorem soundness_ctx_agrees : ctCheck [fn_lookup, fn_get_o] "lookup" (specs_lookup true) =
    (checkProg [fn_lookup, fn_get_o] (inferCtx [fn_lookup, fn_get_o] (specs_lookup true)) &&
      entryOK fn_lookup (inferFun [fn_lookup, fn_get_o] (specs_lookup true) fn_lookup) ⟨["s"], [], false⟩) := by decide

end Sodium.C11MiniC
