import SodiumModel.Model.X86Sse
import SodiumModel.Proofs.X86Sse3
import Generated.SalsaXmm6Asm
/-
  C03 / C10 — second part of (b) for `crypto_stream/salsa20/xmm6/salsa20_xmm6-asm.S` (regenerated instruction list,
  interpreter of `Model/X86Sse.lean`): what follows the rounds loop in one pass of the 64-byte block path.

    `block_output`      indices 803 .. 866: feed-forward addition of the frame slots, XOR with the message words, the
                        sixteen stores; for ANY state at index 803 with the frame at 480, under explicit layout hypotheses
                        (message does not wrap, output below `MEM_LIMIT`, output disjoint from the message or in place);
                        everything outside the 64 output bytes is unchanged (so the frame is, when the output is outside it).
    `counter_increment` indices 867 .. 874: the saved 64-bit counter plus one, as a 64-bit value, low half to frame word 8
                        and high half to frame word 13, for EVERY counter value (`carry_low_to_high`, `wrap_at_2p64`).

  NOT proved (time): the composition prologue (C03Asm2.prologue_frame) → loads 669 .. 675 → `mainloop2_is_rounds` →
  `block_output` → `counter_increment` into "one pass outputs m XOR the Salsa20 block of (key, nonce, counter)" (`run_add`
  in `Proofs/X86Sse3.lean` is the sequencing lemma for it); (c), (d), (e).
-/
namespace Sodium.C03Asm3
open Sodium Sodium.Model.X86Sse Sodium.Model.ChachaSimd Sodium.Model.CoresRef Sodium.X86SseP Generated.SalsaXmm6Asm

/-- feed-forward + XOR + stores (indices 803 .. 866) -/
theorem block_output (rax rcx rdx rbx rbp rsi rdi r8 r9 r10 r11 r12 r13 r14 r15 : UInt64)
    (r0 r1 r2 r3 x4 x5 x6 x7 x8 x9 x10 x11 x12 x13 x14 x15 : V128) (cf zf : Bool) (mem : Mem) (fault : Bool)
    (hM : rsi.toNat + 64 ≤ 18446744073709551616) (hC : rdi.toNat + 64 ≤ 1048576)
    (hMC : rdi.toNat + 64 ≤ rsi.toNat ∨ rsi.toNat + 64 ≤ rdi.toNat ∨ rdi.toNat = rsi.toNat) :
    let s := run prog 64 { g := ⟨rax, rcx, rdx, rbx, 480, rbp, rsi, rdi, r8, r9, r10, r11, r12, r13, r14, r15⟩,
                           x := ⟨r0, r1, r2, r3, x4, x5, x6, x7, x8, x9, x10, x11, x12, x13, x14, x15⟩, cf := cf, zf := zf,
                           mem := mem, pc := 803, halted := false, fault := fault }
    wordsAt s.mem rdi.toNat = ⟨(r0.e0 + mem.read32 592) ^^^ mem.read32 (rsi.toNat + 0),
       (r1.e1 + mem.read32 548) ^^^ mem.read32 (rsi.toNat + 4),
       (r2.e2 + mem.read32 568) ^^^ mem.read32 (rsi.toNat + 8),
       (r3.e3 + mem.read32 588) ^^^ mem.read32 (rsi.toNat + 12),
       (r3.e0 + mem.read32 576) ^^^ mem.read32 (rsi.toNat + 16),
       (r0.e1 + mem.read32 596) ^^^ mem.read32 (rsi.toNat + 20),
       (r1.e2 + mem.read32 552) ^^^ mem.read32 (rsi.toNat + 24),
       (r2.e3 + mem.read32 572) ^^^ mem.read32 (rsi.toNat + 28),
       (r2.e0 + mem.read32 560) ^^^ mem.read32 (rsi.toNat + 32),
       (r3.e1 + mem.read32 580) ^^^ mem.read32 (rsi.toNat + 36),
       (r0.e2 + mem.read32 600) ^^^ mem.read32 (rsi.toNat + 40),
       (r1.e3 + mem.read32 556) ^^^ mem.read32 (rsi.toNat + 44),
       (r1.e0 + mem.read32 544) ^^^ mem.read32 (rsi.toNat + 48),
       (r2.e1 + mem.read32 564) ^^^ mem.read32 (rsi.toNat + 52),
       (r3.e2 + mem.read32 584) ^^^ mem.read32 (rsi.toNat + 56),
       (r0.e3 + mem.read32 604) ^^^ mem.read32 (rsi.toNat + 60)⟩ ∧
    s.pc = 867 ∧ s.halted = false ∧ s.fault = fault ∧ s.g.rsp = 480 ∧ s.g.rsi = rsi ∧ s.g.rdi = rdi ∧ s.g.rdx = rdx ∧
    (∀ a, a + 4 ≤ rdi.toNat ∨ rdi.toNat + 64 ≤ a → s.mem.read32 a = mem.read32 a) :=
  block_output_run rax rcx rdx rbx rbp rsi rdi r8 r9 r10 r11 r12 r13 r14 r15 r0 r1 r2 r3 x4 x5 x6 x7 x8 x9 x10 x11 x12 x13 x14 x15
    cf zf mem fault hM hC hMC

/-- the 64-bit counter increment (indices 867 .. 874), for every saved counter value -/
theorem counter_increment (t : State) (hpc : t.pc = 867) (hh : t.halted = false) (hsp : t.g.rsp = 480) :
    let s := run prog 8 t
    let q := t.mem.read64 952 + 1
    frameCtx s = { frameCtx t with x8 := q.toUInt32, x13 := (q >>> 32).toUInt32 } ∧
    s.mem.read64 952 = q ∧ s.g.r9 = t.mem.read64 960 ∧ s.pc = 875 ∧ s.halted = false ∧ s.fault = t.fault ∧
    s.g.rsp = 480 ∧ s.g.rsi = t.g.rsi ∧ s.g.rdi = t.g.rdi ∧ s.g.rdx = t.g.rdx ∧
    (∀ a, a + 4 ≤ 560 ∨ (564 ≤ a ∧ a + 4 ≤ 580) ∨ (584 ≤ a ∧ a + 4 ≤ 952) ∨ 960 ≤ a → s.mem.read32 a = t.mem.read32 a) :=
  counter_increment_run t hpc hh hsp

/-- the carry from the low into the high counter word: 2^32 − 1 ↦ (0, 1) -/
theorem carry_low_to_high :
    ((4294967295 : UInt64) + 1).toUInt32 = 0 ∧ (((4294967295 : UInt64) + 1) >>> 32).toUInt32 = 1 := by decide

/-- the counter wraps at 2^64 (as the reference `salsaCtrInc` does): 2^64 − 1 ↦ (0, 0) -/
theorem wrap_at_2p64 :
    ((18446744073709551615 : UInt64) + 1).toUInt32 = 0 ∧ (((18446744073709551615 : UInt64) + 1) >>> 32).toUInt32 = 0 := by decide

/-- the instructions the two theorems start at and end before -/
theorem block_tail_indices :
    prog.fetch 803 = some (Instr.padddMX ⟨112, .rsp⟩ 0) ∧ prog.fetch 867 = some (Instr.movqMR ⟨480, .rsp⟩ .r9) ∧
    prog.fetch 875 = some (Instr.cmpIR 64 .r9) := ⟨fetch_803, fetch_867, fetch_875⟩

/-- the hypotheses of `block_output` are satisfiable: the driver's layout for a 64-byte message (message at 1088, output at 1216) -/
example : (1088 : UInt64).toNat + 64 ≤ 18446744073709551616 ∧ (1216 : UInt64).toNat + 64 ≤ 1048576 ∧
    ((1216 : UInt64).toNat + 64 ≤ (1088 : UInt64).toNat ∨ (1088 : UInt64).toNat + 64 ≤ (1216 : UInt64).toNat ∨
      (1216 : UInt64).toNat = (1088 : UInt64).toNat) := by decide

end Sodium.C03Asm3
