import SodiumModel.Proofs.Leak
import SodiumModel.Spec.Curve25519
import SodiumModel.Spec.Ed25519
/-
  C11 — secret data never influences branches or memory addresses.

  Leakage model: `Model/Leak.lean` instruments the models of the constant-time code with a trace of
  every branch decision and every memory-access index ("program counter + address" model).
  For each function this file states
    * `…_result` : the instrumented model computes the same result as the existing, validated
      model (sections 1–3), or its functional meaning (sections 4–6);
    * `…_ct`     : NON-INTERFERENCE — two runs on arbitrary secrets of the same public lengths
      (and equal public inputs) produce EQUAL traces;
  and negative controls showing that the model distinguishes leaky code.
  Helper lemmas (closed forms `trace = f(public lengths)`) are in `Proofs/Leak.lean`.
-/
open Sodium Sodium.Model Sodium.Model.Leak Sodium.LeakP
namespace Sodium.C11

/-! ## 1. crypto_verify_n, sodium_memcmp / is_zero / compare / increment / add / sub -/

theorem verify_n_result (x y : Bytes) : (crypto_verify_nL x y).1 = verify_n_generic x y := by
  simp [crypto_verify_nL, verify_n_generic, verifyLoopL_fst]

/-- the trace of `crypto_verify_n` is `n × (test, load x[i], load y[i])` and the final test -/
theorem verify_n_trace (x y : Bytes) (h : x.length = y.length) :
    (crypto_verify_nL x y).2 = loopTrace (fun i => [.load "x" i, .load "y" i]) x.length 0 := by
  simp [crypto_verify_nL, verifyLoopL_snd, h]

theorem verify_n_ct (x y x' y' : Bytes) (h : x.length = x'.length) (h' : y.length = y'.length) :
    (crypto_verify_nL x y).2 = (crypto_verify_nL x' y').2 := by
  simp [crypto_verify_nL, verifyLoopL_snd, h, h']

theorem verify_16_ct (x y x' y' : Bytes) (hx : x.length = 16) (hy : y.length = 16)
    (hx' : x'.length = 16) (hy' : y'.length = 16) :
    (crypto_verify_16L x y).2 = (crypto_verify_16L x' y').2 :=
  verify_n_ct x y x' y' (by omega) (by omega)

theorem verify_32_ct (x y x' y' : Bytes) (hx : x.length = 32) (hy : y.length = 32)
    (hx' : x'.length = 32) (hy' : y'.length = 32) :
    (crypto_verify_32L x y).2 = (crypto_verify_32L x' y').2 :=
  verify_n_ct x y x' y' (by omega) (by omega)

theorem verify_64_ct (x y x' y' : Bytes) (hx : x.length = 64) (hy : y.length = 64)
    (hx' : x'.length = 64) (hy' : y'.length = 64) :
    (crypto_verify_64L x y).2 = (crypto_verify_64L x' y').2 :=
  verify_n_ct x y x' y' (by omega) (by omega)

theorem memcmp_result (a b : Bytes) : (sodium_memcmpL a b).1 = sodium_memcmp a b := by
  simp [sodium_memcmpL, sodium_memcmp, memcmpLoopL_fst]

theorem memcmp_ct (a b a' b' : Bytes) (h : a.length = a'.length) (h' : b.length = b'.length) :
    (sodium_memcmpL a b).2 = (sodium_memcmpL a' b').2 := by
  simp [sodium_memcmpL, memcmpLoopL_snd, h, h']

theorem is_zero_result (n : Bytes) : (sodium_is_zeroL n).1 = sodium_is_zero n := by
  simp [sodium_is_zeroL, sodium_is_zero, isZeroLoopL_fst]

theorem is_zero_ct (n n' : Bytes) (h : n.length = n'.length) :
    (sodium_is_zeroL n).2 = (sodium_is_zeroL n').2 := by
  simp [sodium_is_zeroL, isZeroLoopL_snd, h]

theorem compare_result (a b : Bytes) : (sodium_compareL a b).1 = sodium_compare a b := by
  simp [sodium_compareL, sodium_compare, compareLoopL_fst]

theorem compare_ct (a b a' b' : Bytes) (h : a.length = a'.length) (h' : b.length = b'.length) :
    (sodium_compareL a b).2 = (sodium_compareL a' b').2 := by
  simp [sodium_compareL, compareLoopL_snd, h, h']

theorem increment_generic_result (n : Bytes) :
    (sodium_increment_genericL n).1 = sodium_increment_generic n := incLoopL_fst 1 0 n

theorem increment_generic_ct (n n' : Bytes) (h : n.length = n'.length) :
    (sodium_increment_genericL n).2 = (sodium_increment_genericL n').2 := by
  simp [sodium_increment_genericL, incLoopL_snd, h]

theorem add_generic_result (a b : Bytes) : (sodium_add_genericL a b).1 = sodium_add_generic a b :=
  addLoopL_fst 0 0 a b

theorem add_generic_ct (a b a' b' : Bytes) (h : a.length = a'.length) (h' : b.length = b'.length) :
    (sodium_add_genericL a b).2 = (sodium_add_genericL a' b').2 := by
  simp [sodium_add_genericL, addLoopL_snd, h, h']

theorem sub_generic_result (a b : Bytes) : (sodium_sub_genericL a b).1 = sodium_sub_generic a b :=
  subLoopL_fst 0 0 a b

theorem sub_generic_ct (a b a' b' : Bytes) (h : a.length = a'.length) (h' : b.length = b'.length) :
    (sodium_sub_genericL a b).2 = (sodium_sub_genericL a' b').2 := by
  simp [sodium_sub_genericL, subLoopL_snd, h, h']

/-! the functions as compiled (HAVE_AMD64_ASM): the dispatch branches are on the public length -/

theorem increment_result (n : Bytes) : (sodium_incrementL n).1 = sodium_increment_amd64 n :=
  sodium_incrementL_fst n

theorem increment_ct (n n' : Bytes) (h : n.length = n'.length) :
    (sodium_incrementL n).2 = (sodium_incrementL n').2 := by
  rw [sodium_incrementL_snd, sodium_incrementL_snd, h]

theorem add_result (a b : Bytes) : (sodium_addL a b).1 = sodium_add_amd64 a b := sodium_addL_fst a b

theorem add_ct (a b a' b' : Bytes) (h : a.length = a'.length) (h' : b.length = b'.length) :
    (sodium_addL a b).2 = (sodium_addL a' b').2 := by
  rw [sodium_addL_snd, sodium_addL_snd, h, h']

theorem sub_result (a b : Bytes) : (sodium_subL a b).1 = sodium_sub_amd64 a b := sodium_subL_fst a b

theorem sub_ct (a b a' b' : Bytes) (h : a.length = a'.length) (h' : b.length = b'.length) :
    (sodium_subL a b).2 = (sodium_subL a' b').2 := by
  rw [sodium_subL_snd, sodium_subL_snd, h, h']

/-! ## 2. sodium_unpad: buffer contents (hence the padding length) secret, the two lengths public -/

theorem unpad_result (buf : Bytes) (bs : UInt64) : (sodium_unpadL buf bs).1 = sodium_unpad buf bs :=
  sodium_unpadL_fst buf bs

theorem unpad_ct (buf buf' : Bytes) (bs : UInt64) (h : buf.length = buf'.length) :
    (sodium_unpadL buf bs).2 = (sodium_unpadL buf' bs).2 := by
  rw [sodium_unpadL_snd, sodium_unpadL_snd, h]

/-- in particular: a valid padding of any length, an invalid padding and an all-zero block of the
    same size give the same trace, although results differ -/
example : (sodium_unpadL [1, 2, 3, 0x80, 0, 0, 0, 0] 4).2 = (sodium_unpadL [1, 2, 3, 4, 5, 6, 7, 0x80] 4).2 ∧
    (sodium_unpadL [1, 2, 3, 0x80, 0, 0, 0, 0] 4).2 = (sodium_unpadL [0, 0, 0, 0, 0, 0, 0, 0] 4).2 ∧
    (sodium_unpadL [1, 2, 3, 0x80, 0, 0, 0, 0] 4).1 ≠ (sodium_unpadL [1, 2, 3, 4, 5, 6, 7, 0x80] 4).1 := by
  decide

/-! ## 3. sodium_bin2hex / sodium_bin2base64: bin contents secret; lengths and variant public -/

theorem bin2hex_result (hexMaxlen : UInt64) (bin : Bytes) :
    (sodium_bin2hexL hexMaxlen bin).1 = sodium_bin2hex hexMaxlen bin := sodium_bin2hexL_fst hexMaxlen bin

theorem bin2hex_ct (hexMaxlen : UInt64) (bin bin' : Bytes) (h : bin.length = bin'.length) :
    (sodium_bin2hexL hexMaxlen bin).2 = (sodium_bin2hexL hexMaxlen bin').2 := by
  rw [sodium_bin2hexL_snd, sodium_bin2hexL_snd, h]

theorem bin2b64_result (maxlen : Nat) (bin : Bytes) (v : UInt32) :
    (sodium_bin2base64L maxlen bin v).1 = sodium_bin2base64 maxlen bin v := sodium_bin2base64L_fst maxlen bin v

/-- all four variants (and the invalid ones, which stop at the variant check) -/
theorem bin2b64_ct (maxlen : Nat) (v : UInt32) (bin bin' : Bytes) (h : bin.length = bin'.length) :
    (sodium_bin2base64L maxlen bin v).2 = (sodium_bin2base64L maxlen bin' v).2 := by
  rw [sodium_bin2base64L_snd, sodium_bin2base64L_snd, h]

example : (sodium_bin2base64L 10 [1, 2, 3, 4] 1).1 = .ok [65, 81, 73, 68, 66, 65, 61, 61, 0, 0] := by decide

/-! ## 4. fe25519_cswap / fe25519_cmov / ge25519_cmov8 -/

/-- cswap swaps iff the secret bit is 1 -/
theorem cswap_result (pf pg : Ptr) (f g : Fe) (b : UInt32) (hb : b = 0 ∨ b = 1) :
    (fe25519_cswapL pf pg f g b).1 = if b = 1 then (g, f) else (f, g) := by
  rcases hb with rfl | rfl
  · simpa using cswap_fn0 pf pg f g
  · simpa using cswap_fn1 pf pg f g

/-- any two secret bits, any two pairs of field elements -/
theorem cswap_ct (pf pg : Ptr) (f g f' g' : Fe) (b b' : UInt32) :
    (fe25519_cswapL pf pg f g b).2 = (fe25519_cswapL pf pg f' g' b').2 := rfl

/-- cmov (either compile-time body) moves iff the secret bit is 1 -/
theorem cmov_result (asm : Bool) (pf pg : Ptr) (f g : Fe) (b : UInt32) (hb : b = 0 ∨ b = 1) :
    (fe25519_cmovL asm pf pg f g b).1 = if b = 1 then g else f := by
  rcases hb with rfl | rfl
  · simpa using cmov_fn0 asm pf pg f g
  · simpa using cmov_fn1 asm pf pg f g

theorem cmov_ct (asm : Bool) (pf pg : Ptr) (f g f' g' : Fe) (b b' : UInt32) :
    (fe25519_cmovL asm pf pg f g b).2 = (fe25519_cmovL asm pf pg f' g' b').2 := by
  rw [cmov_trace, cmov_trace]

/-- outside the precondition b ∈ {0,1} the two bodies differ (the assembly treats any non-zero
    value as true, the C body masks with `-b`): not reachable, all callers pass 0/1 -/
theorem cmov_bodies_differ_outside_precondition :
    (fe25519_cmovAsmL ⟨"f", 0⟩ ⟨"g", 0⟩ fe0 fe1 2).1 ≠ (fe25519_cmovCL ⟨"f", 0⟩ ⟨"g", 0⟩ fe0 fe1 2).1 := by
  decide

/-- cmov8 returns the neutral element for b = 0, `precomp[|b|-1]` for b > 0 and its negation
    (y+x ↔ y−x swapped, 2dxy negated) for b < 0 -/
theorem cmov8_result (asm : Bool) (neg : Fe → Fe) (negT : Trace) (pt ptab pm : Ptr)
    (tbl : Fin 8 → Precomp) (b : Int8) (h1 : -8 ≤ b) (h2 : b ≤ 8) :
    (ge25519_cmov8L asm neg negT pt ptab pm tbl b).1 =
      if b < 0 then negP neg (selP tbl b.toInt.natAbs) else selP tbl b.toInt.natAbs :=
  cmov8_fn asm neg negT pt ptab pm tbl b h1 h2

/-- ANY two digits (even out of range) and ANY two tables: same trace -/
theorem cmov8_ct (asm : Bool) (neg : Fe → Fe) (negT : Trace) (pt ptab pm : Ptr)
    (tbl tbl' : Fin 8 → Precomp) (b b' : Int8) :
    (ge25519_cmov8L asm neg negT pt ptab pm tbl b).2 = (ge25519_cmov8L asm neg negT pt ptab pm tbl' b').2 := by
  rw [cmov8_trace, cmov8_trace]

/-- every limb of every one of the 8 table entries is loaded, whatever the digit -/
theorem cmov8_loads_all (asm : Bool) (neg : Fe → Fe) (negT : Trace) (tbl : Fin 8 → Precomp) (b : Int8) :
    ∀ j : Fin 8, ∀ k : Fin 15, Ev.load "precomp" (15 * j.val + k.val) ∈
      (ge25519_cmov8L asm neg negT ⟨"t", 0⟩ ⟨"precomp", 0⟩ ⟨"minust", 0⟩ tbl b).2 := by
  rw [cmov8_trace]
  intro j k
  unfold cmov8Trace
  apply List.mem_append_left; apply List.mem_append_left
  revert j k
  cases asm <;> decide +kernel

theorem cmov8_cached_result (asm : Bool) (neg : Fe → Fe) (negT : Trace) (pt ptab pm : Ptr)
    (tbl : Fin 8 → Cached) (b : Int8) (h1 : -8 ≤ b) (h2 : b ≤ 8) :
    (ge25519_cmov8_cachedL asm neg negT pt ptab pm tbl b).1 =
      if b < 0 then negC neg (selC tbl b.toInt.natAbs) else selC tbl b.toInt.natAbs :=
  cmov8_cached_fn asm neg negT pt ptab pm tbl b h1 h2

theorem cmov8_cached_ct (asm : Bool) (neg : Fe → Fe) (negT : Trace) (pt ptab pm : Ptr)
    (tbl tbl' : Fin 8 → Cached) (b b' : Int8) :
    (ge25519_cmov8_cachedL asm neg negT pt ptab pm tbl b).2 =
      (ge25519_cmov8_cachedL asm neg negT pt ptab pm tbl' b').2 := by
  rw [cmov8_cached_trace, cmov8_cached_trace]

/-- `equal` and `negative` are exact on all 256 / 65536 inputs -/
theorem negative_exact (b : Int8) : ctNegative b = if b < 0 then 1 else 0 := ctNegative_spec b

theorem babs_exact (b : Int8) : ctBabs b = if b < 0 then (-b).toUInt8 else b.toUInt8 := ctBabs_spec b

/-! ## 5. X25519 Montgomery ladder (control skeleton; field operations with fixed traces) -/

/-- any two secret scalars of the same length (32), same public point: same trace -/
theorem ladder_ct (ops : FeOps) (n n' p : Bytes) (h : n.length = n'.length) :
    (x25519L ops n p).2 = (x25519L ops n' p).2 := by
  rw [x25519L_snd, x25519L_snd, h]

/-- the 255 loads of `t[pos / 8]` are at public indices: the ladder loop trace is a closed form -/
theorem ladder_loop_trace (ops : FeOps) (x1 : Fe) (t : Bytes) (s : LadderSt) :
    (ladderLoopL ops x1 t 255 s).2 = ladderLoopTrace ops 255 := ladderLoopL_snd ops x1 t 255 s

/-! ## 6. signed radix-16 recoding, fixed-window loops of ge25519_scalarmult(_base) -/

/-- Σ e[i]·16^i = a as integers (little-endian scalar of any length) -/
theorem recode_value (a : Bytes) : digitsVal (recodeL a).1 = (le a : Int) := recodeL_val a

theorem recode_length (a : Bytes) : (recodeL a).1.length = 2 * a.length := by
  simp [recodeL, carryLoopL_length, nibblesL_length]

/-- −8 ≤ e[i] ≤ 8 when the last byte is ≤ 127 (the documented precondition `a[31] <= 127`) -/
theorem recode_range (a : Bytes) (hl : ∀ x, a.getLast? = some x → x ≤ 127) :
    ∀ d ∈ (recodeL a).1, -8 ≤ d ∧ d ≤ 8 := recodeL_range a hl

/-- without the precondition the top digit can reach 16 (still no overflow of `signed char`, and
    `recode_value` still holds), e.g. a = ff…ff -/
theorem recode_range_needs_precondition :
    (recodeL (List.replicate 32 0xff)).1.getLast? = some 16 := by decide +kernel

theorem recode_ct (a a' : Bytes) (h : a.length = a'.length) : (recodeL a).2 = (recodeL a').2 := by
  rw [recodeL_snd, recodeL_snd, h]

section
variable {P1 P2 P3 : Type} (asm : Bool) (ops : GeOps P1 P2 P3)

/-- ge25519_scalarmult_base: any two secret scalars (any two tables): same trace -/
theorem scalarmult_base_skeleton_ct (base base' : Nat → Fin 8 → Precomp) (a a' : Bytes)
    (h : a.length = a'.length) :
    (ge25519_scalarmult_baseL asm ops base a).2 = (ge25519_scalarmult_baseL asm ops base' a').2 := by
  rw [scalarmult_baseL_snd, scalarmult_baseL_snd, h]

/-- ge25519_scalarmult: any two secret scalars, (any) public point: same trace -/
theorem scalarmult_skeleton_ct (a a' : Bytes) (p p' : P3) (h : a.length = a'.length) :
    (ge25519_scalarmultL asm ops a p).2 = (ge25519_scalarmultL asm ops a' p').2 := by
  rw [scalarmultL_snd, scalarmultL_snd, h]

end

/-! ## Negative controls: the leakage model has teeth -/

/-- an early-exit comparison leaks the position of the first difference -/
theorem early_exit_leaks : ∃ a b a' b' : Bytes,
    a.length = a'.length ∧ b.length = b'.length ∧ a.length = b.length ∧
    (memcmpEarlyL 0 a b).2 ≠ (memcmpEarlyL 0 a' b').2 :=
  ⟨[1, 2], [1, 3], [1, 2], [0, 3], by decide⟩

/-- … while the accumulate-XOR comparison gives equal traces on the same inputs -/
example : (sodium_memcmpL [1, 2] [1, 3]).2 = (sodium_memcmpL [1, 2] [0, 3]).2 := by decide

/-- a direct secret-indexed table read leaks the digit -/
theorem direct_lookup_leaks : ∃ (tbl : Fin 8 → Precomp) (b b' : Int8),
    (-8 ≤ b ∧ b ≤ 8) ∧ (-8 ≤ b' ∧ b' ≤ 8) ∧
    (lookupDirectL ⟨"precomp", 0⟩ tbl b).2 ≠ (lookupDirectL ⟨"precomp", 0⟩ tbl b').2 :=
  ⟨fun _ => precomp0, 1, 2, by decide⟩

/-- a direct lookup does NOT touch all entries (contrast with `cmov8_loads_all`) -/
theorem direct_lookup_skips_entries :
    Ev.load "precomp" 0 ∉ (lookupDirectL ⟨"precomp", 0⟩ (fun _ => precomp0) 2).2 := by decide

/-! ## Non-vacuity of the skeletons (sections 5, 6): instantiated with the SPECIFICATION field / group
    arithmetic (limbs ↔ integers mod p, empty traces for the opaque operations), the control
    skeletons compute X25519 (RFC 7748 §5.2 vector 1), a·B and a·P. -/

section Instances
open Sodium.Spec

def feToNat (f : Fe) : Nat :=
  f.l0.toNat + 2 ^ 51 * (f.l1.toNat + 2 ^ 51 * (f.l2.toNat + 2 ^ 51 * (f.l3.toNat + 2 ^ 51 * f.l4.toNat)))

def feOfNat (n : Nat) : Fe :=
  ⟨UInt64.ofNat (n % 2 ^ 51), UInt64.ofNat (n / 2 ^ 51 % 2 ^ 51), UInt64.ofNat (n / 2 ^ 102 % 2 ^ 51),
   UInt64.ofNat (n / 2 ^ 153 % 2 ^ 51), UInt64.ofNat (n / 2 ^ 204 % 2 ^ 51)⟩

def specFeOps : FeOps where
  add f g := feOfNat (F25519.add (feToNat f) (feToNat g))
  sub f g := feOfNat (F25519.sub (feToNat f) (feToNat g))
  mul f g := feOfNat (F25519.mul (feToNat f) (feToNat g))
  sq f := feOfNat (F25519.sqr (feToNat f))
  mul32 f n := feOfNat (F25519.mul (feToNat f) n.toNat)
  invert f := feOfNat (F25519.inv (feToNat f))
  frombytes b := feOfNat (F25519.fromBytesMasked b)
  tobytes f := F25519.toBytes (feToNat f)
  hasSmallOrder p := X25519.x25519 (1 :: List.replicate 31 0) p == zeros 32
  tr _ := []

def rfcScalar : Bytes := (ofHex "a546e36bf0527c9d3b16154b82465edd62144c0ac1fc5a18506a2244ba449ac4").getD []
def rfcPoint : Bytes := (ofHex "e6db6867583030db3594c1a424b15f7c726624ec26b3353b10a903a6d0ab1c4c").getD []

set_option maxRecDepth 100000 in
theorem ladder_skeleton_rfc7748_vector :
    (x25519L specFeOps rfcScalar rfcPoint).1 = some (X25519.x25519 rfcScalar rfcPoint) ∧
    (x25519L specFeOps rfcScalar rfcPoint).1 =
      ofHex "c3da55379de9c6908e94ea4df28d084f32eccf03491c71f754b4075577a28552" := by
  decide +kernel

open Ed25519 in
def precompOf (P : Point) : Precomp :=
  let (x, y) := toAffine P
  ⟨feOfNat (F25519.add y x), feOfNat (F25519.sub y x), feOfNat (F25519.mul (F25519.mul 2 d) (F25519.mul x y))⟩

open Ed25519 in
def pointOfPrecomp (t : Precomp) : Point :=
  let a := feToNat t.yplusx; let b := feToNat t.yminusx
  { X := F25519.div (F25519.sub a b) 2, Y := F25519.div (F25519.add a b) 2, Z := 1,
    T := F25519.div (feToNat t.xy2d) (F25519.mul 2 d) }

open Ed25519 in
def cachedOf (P : Point) : Cached :=
  ⟨feOfNat (F25519.add P.Y P.X), feOfNat (F25519.sub P.Y P.X), feOfNat (P.Z % F25519.p),
   feOfNat (F25519.mul (F25519.mul 2 d) P.T)⟩

open Ed25519 in
def pointOfCached (t : Cached) : Point :=
  let a := feToNat t.YplusX; let b := feToNat t.YminusX
  { X := F25519.div (F25519.sub a b) 2, Y := F25519.div (F25519.add a b) 2, Z := feToNat t.Z,
    T := F25519.div (feToNat t.T2d) (F25519.mul 2 d) }

open Ed25519 in
def specGeOps : GeOps Point Point Point where
  p3_0 := identity
  add_precomp h t := add h (pointOfPrecomp t)
  add_cached h t := add h (pointOfCached t)
  p1p1_to_p3 := id
  p1p1_to_p2 := id
  p2_dbl := double
  p3_dbl := double
  mkTable P j := cachedOf (scalarMult (j.val + 1) P)
  neg f := feOfNat (F25519.neg (feToNat f))
  tr _ := []

/-- `base[pos][j] = (j+1)·256^pos·B` -/
def specBase (pos : Nat) (j : Fin 8) : Precomp :=
  precompOf (Ed25519.scalarMult ((j.val + 1) * 256 ^ pos) Ed25519.basePoint)

def testScalar : Bytes := (ofHex "a546e36bf0527c9d3b16154b82465edd62144c0ac1fc5a18506a2244ba449a44").getD []
def testPoint : Ed25519.Point := Ed25519.scalarMult 12345 Ed25519.basePoint

set_option maxRecDepth 100000 in
theorem scalarmult_base_skeleton_vector :
    Ed25519.encode (ge25519_scalarmult_baseL true specGeOps specBase testScalar).1 =
      Ed25519.encode (Ed25519.scalarMult (le testScalar) Ed25519.basePoint) := by decide +kernel

set_option maxRecDepth 100000 in
theorem scalarmult_skeleton_vector :
    Ed25519.encode (ge25519_scalarmultL false specGeOps testScalar testPoint).1 =
      Ed25519.encode (Ed25519.scalarMult (le testScalar) testPoint) := by decide +kernel

end Instances

end Sodium.C11
