import SodiumModel.Model.AegisAesni
import SodiumModel.Proofs.AegisAesni
import SodiumModel.Properties.C01Aegis
/-
  C01 / C02 for the AES-NI build of AEGIS-128L / AEGIS-256 (aegis128l_aesni.c, aegis256_aesni.c):
  the same `aegis*_common.h` text as the portable build, over the `__m128i` macro block
  (`Model/AegisAesni.lean`; the intrinsic semantics are trusted base, validated against the CPU by
  `simdcheck/aegis/`).  The backend satisfies the conformance predicate of the generic theorems, so the
  AES-NI-structured code equals `Spec/Aegis.lean` at every length, and equals the portable code.
  Property theorems only.
-/
open Sodium Sodium.Model.AegisRef Sodium.Model.AegisAesni Sodium.Spec.Aes Sodium.Spec.Aegis Sodium.AegisRefP
  Sodium.AegisAesniP
namespace Sodium.C01AegisAesni

/-- XOR / AND / LOAD / LOAD_64x2 / STORE / AES_ENC of the AES-NI macro block act on the 16-byte image as
    xor / and / load / LE64(b)‖LE64(a) / store / one AES round -/
theorem aesni_backend_ok : BackendOk aesni := aesni_ok

/-- `_mm_aesenc_si128` (SDM order: ShiftRows, SubBytes, MixColumns, xor) is `Spec.Aes.aesRound` -/
theorem mm_aesenc_is_aes_round (a rk : M128i) :
    mm_storeu_si128 (mm_aesenc_si128 a rk) = aesRound (mm_storeu_si128 a) (mm_storeu_si128 rk) :=
  aesencBytes_eq a.bytes rk.bytes a.len

/-- AES_BLOCK_LOAD_64x2(A, B) = `_mm_set_epi64x(A, B)`: B is the low half, bytes LE64(B) ‖ LE64(A) — the
    same order as `softaes_block_load64x2` -/
theorem aesni_load64x2_order (a b : UInt64) :
    mm_storeu_si128 (aesni.LOAD_64x2 a b) = le64 b.toNat ++ le64 a.toNat := rfl

/-- the hardware round and the table-based software round agree on every block and round key -/
theorem aesenc_eq_softaes (a rk : Bytes) (ha : a.length = 16) (hr : rk.length = 16) :
    mm_storeu_si128 (mm_aesenc_si128 (mm_loadu_si128 a) (mm_loadu_si128 rk)) =
      softaes_block_store (softaes_block_encrypt (softaes_block_load a) (softaes_block_load rk)) := by
  rw [mm_aesenc_is_aes_round, Sodium.C01Aegis.softaes_block_encrypt_bytes a rk ha hr]
  simp only [mm_storeu_si128]
  rw [load_bytes a (by omega), load_bytes rk (by omega), take16_of_len ha, take16_of_len hr]

/-! ### encrypt_detached -/

theorem aegis128l_aesni_encrypt_detached_eq (maclen : Nat) (m ad npub k : Bytes) (hk : k.length = 16)
    (hn : npub.length = 16) (hm : m.length < 2 ^ 61) (ha : ad.length < 2 ^ 61) :
    encrypt_detached (A128L.variant aesni) maclen m ad npub k =
      if maclen = 16 then (0, (aegis128l_encrypt_tag16 k npub ad m).1, (aegis128l_encrypt_tag16 k npub ad m).2)
      else if maclen = 32 then (0, (aegis128l_encrypt k npub ad m).1, (aegis128l_encrypt k npub ad m).2)
      else (-1, (aegis128l_encrypt k npub ad m).1, zeros maclen) :=
  encrypt_detached_128L aesni_ok maclen m ad npub k hk hn hm ha

theorem aegis256_aesni_encrypt_detached_eq (maclen : Nat) (m ad npub k : Bytes) (hk : k.length = 32)
    (hn : npub.length = 32) (hm : m.length < 2 ^ 61) (ha : ad.length < 2 ^ 61) :
    encrypt_detached (A256.variant aesni) maclen m ad npub k =
      if maclen = 16 then (0, (aegis256_encrypt_tag16 k npub ad m).1, (aegis256_encrypt_tag16 k npub ad m).2)
      else if maclen = 32 then (0, (aegis256_encrypt k npub ad m).1, (aegis256_encrypt k npub ad m).2)
      else (-1, (aegis256_encrypt k npub ad m).1, zeros maclen) :=
  encrypt_detached_256 aesni_ok maclen m ad npub k hk hn hm ha

/-! ### decrypt_detached: verdict, failure output -/

theorem aegis128l_aesni_decrypt_detached_eq (wantM : Bool) (maclen : Nat) (hml : maclen = 16 ∨ maclen = 32)
    (c mac ad npub k : Bytes) (hk : k.length = 16) (hn : npub.length = 16) (hmac : mac.length = maclen)
    (hc : c.length < 2 ^ 61) (ha : ad.length < 2 ^ 61) :
    decrypt_detached (A128L.variant aesni) wantM c mac maclen ad npub k =
      match specDecrypt128L maclen k npub ad c mac with
      | some m => (0, if wantM then some m else none)
      | none => (-1, if wantM then some (zeros c.length) else none) := by
  rw [decrypt_detached_128L aesni_ok wantM maclen hml c mac ad npub k hk hn hmac hc ha]
  cases specDecrypt128L maclen k npub ad c mac <;> rfl

theorem aegis256_aesni_decrypt_detached_eq (wantM : Bool) (maclen : Nat) (hml : maclen = 16 ∨ maclen = 32)
    (c mac ad npub k : Bytes) (hk : k.length = 32) (hn : npub.length = 32) (hmac : mac.length = maclen)
    (hc : c.length < 2 ^ 61) (ha : ad.length < 2 ^ 61) :
    decrypt_detached (A256.variant aesni) wantM c mac maclen ad npub k =
      match specDecrypt256 maclen k npub ad c mac with
      | some m => (0, if wantM then some m else none)
      | none => (-1, if wantM then some (zeros c.length) else none) := by
  rw [decrypt_detached_256 aesni_ok wantM maclen hml c mac ad npub k hk hn hmac hc ha]
  cases specDecrypt256 maclen k npub ad c mac <;> rfl

/-- 32-byte tag of the public API: the verdict is `Spec.Aegis.aegis128l_decrypt` itself -/
theorem aegis128l_aesni_decrypt_detached_32 (wantM : Bool) (c mac ad npub k : Bytes) (hk : k.length = 16)
    (hn : npub.length = 16) (hmac : mac.length = 32) (hc : c.length < 2 ^ 61) (ha : ad.length < 2 ^ 61) :
    decrypt_detached (A128L.variant aesni) wantM c mac 32 ad npub k =
      decOutcome wantM c.length (aegis128l_decrypt k npub ad c mac) :=
  decrypt_detached_128L aesni_ok wantM 32 (Or.inr rfl) c mac ad npub k hk hn hmac hc ha

theorem aegis256_aesni_decrypt_detached_32 (wantM : Bool) (c mac ad npub k : Bytes) (hk : k.length = 32)
    (hn : npub.length = 32) (hmac : mac.length = 32) (hc : c.length < 2 ^ 61) (ha : ad.length < 2 ^ 61) :
    decrypt_detached (A256.variant aesni) wantM c mac 32 ad npub k =
      decOutcome wantM c.length (aegis256_decrypt k npub ad c mac) :=
  decrypt_detached_256 aesni_ok wantM 32 (Or.inr rfl) c mac ad npub k hk hn hmac hc ha

/-- rc is 0 or -1, and 0 exactly when the specification accepts the tag -/
theorem aegis128l_aesni_decrypt_detached_rc (wantM : Bool) (c mac ad npub k : Bytes) (hk : k.length = 16)
    (hn : npub.length = 16) (hmac : mac.length = 32) (hc : c.length < 2 ^ 61) (ha : ad.length < 2 ^ 61) :
    ((decrypt_detached (A128L.variant aesni) wantM c mac 32 ad npub k).1 = 0 ↔
      (aegis128l_decrypt k npub ad c mac).isSome) ∧
    ((decrypt_detached (A128L.variant aesni) wantM c mac 32 ad npub k).1 = 0 ∨
      (decrypt_detached (A128L.variant aesni) wantM c mac 32 ad npub k).1 = -1) := by
  rw [aegis128l_aesni_decrypt_detached_32 wantM c mac ad npub k hk hn hmac hc ha]
  cases aegis128l_decrypt k npub ad c mac <;> simp [decOutcome]

theorem aegis256_aesni_decrypt_detached_rc (wantM : Bool) (c mac ad npub k : Bytes) (hk : k.length = 32)
    (hn : npub.length = 32) (hmac : mac.length = 32) (hc : c.length < 2 ^ 61) (ha : ad.length < 2 ^ 61) :
    ((decrypt_detached (A256.variant aesni) wantM c mac 32 ad npub k).1 = 0 ↔
      (aegis256_decrypt k npub ad c mac).isSome) ∧
    ((decrypt_detached (A256.variant aesni) wantM c mac 32 ad npub k).1 = 0 ∨
      (decrypt_detached (A256.variant aesni) wantM c mac 32 ad npub k).1 = -1) := by
  rw [aegis256_aesni_decrypt_detached_32 wantM c mac ad npub k hk hn hmac hc ha]
  cases aegis256_decrypt k npub ad c mac <;> simp [decOutcome]

/-- C02 for the AES-NI build, every input: a non-zero return leaves `zeros mlen` in the caller's buffer
    (or nothing, with `m == NULL`), never the unauthenticated plaintext -/
theorem aesni_decrypt_detached_failure_output (is256 wantM : Bool) (c mac : Bytes) (maclen : Nat) (ad npub k : Bytes) :
    (¬ is256 → (decrypt_detached (A128L.variant aesni) wantM c mac maclen ad npub k).1 ≠ 0 →
      (decrypt_detached (A128L.variant aesni) wantM c mac maclen ad npub k).2 =
        if wantM then some (zeros c.length) else none) ∧
    (is256 → (decrypt_detached (A256.variant aesni) wantM c mac maclen ad npub k).1 ≠ 0 →
      (decrypt_detached (A256.variant aesni) wantM c mac maclen ad npub k).2 =
        if wantM then some (zeros c.length) else none) :=
  ⟨fun _ h => Sodium.C01Aegis.decrypt_detached_failure_output _ wantM c mac maclen ad npub k h,
   fun _ h => Sodium.C01Aegis.decrypt_detached_failure_output _ wantM c mac maclen ad npub k h⟩

/-! ### round trip -/

theorem aegis128l_aesni_roundtrip (m ad npub k : Bytes) (hk : k.length = 16) (hn : npub.length = 16)
    (hm : m.length < 2 ^ 61) (ha : ad.length < 2 ^ 61) :
    decrypt_detached (A128L.variant aesni) true (encrypt_detached (A128L.variant aesni) 32 m ad npub k).2.1
      (encrypt_detached (A128L.variant aesni) 32 m ad npub k).2.2 32 ad npub k = (0, some m) :=
  model_roundtrip_128L aesni_ok m ad npub k hk hn hm ha

theorem aegis256_aesni_roundtrip (m ad npub k : Bytes) (hk : k.length = 32) (hn : npub.length = 32)
    (hm : m.length < 2 ^ 61) (ha : ad.length < 2 ^ 61) :
    decrypt_detached (A256.variant aesni) true (encrypt_detached (A256.variant aesni) 32 m ad npub k).2.1
      (encrypt_detached (A256.variant aesni) 32 m ad npub k).2.2 32 ad npub k = (0, some m) :=
  model_roundtrip_256 aesni_ok m ad npub k hk hn hm ha

/-! ### the public wrappers over the AES-NI implementation (`implementation = &aegis*_aesni_implementation`) -/

theorem crypto_aead_aegis128l_aesni_encrypt_detached_eq (m ad npub k : Bytes) (hk : k.length = 16) (hn : npub.length = 16) :
    crypto_aead_encrypt_detached (A128L.variant aesni) m ad npub k =
      if m.length > 2 ^ 61 - 1 ∨ ad.length > 2 ^ 61 - 1 then .misuse
      else .done 0 (aegis128l_encrypt k npub ad m).1 (aegis128l_encrypt k npub ad m).2 32 :=
  wrap_encrypt_detached_128L aesni_ok m ad npub k hk hn

theorem crypto_aead_aegis256_aesni_encrypt_detached_eq (m ad npub k : Bytes) (hk : k.length = 32) (hn : npub.length = 32) :
    crypto_aead_encrypt_detached (A256.variant aesni) m ad npub k =
      if m.length > 2 ^ 61 - 1 ∨ ad.length > 2 ^ 61 - 1 then .misuse
      else .done 0 (aegis256_encrypt k npub ad m).1 (aegis256_encrypt k npub ad m).2 32 :=
  wrap_encrypt_detached_256 aesni_ok m ad npub k hk hn

theorem crypto_aead_aegis128l_aesni_decrypt_detached_eq (wantM : Bool) (c mac ad npub k : Bytes) (hk : k.length = 16)
    (hn : npub.length = 16) (hmac : mac.length = 32) :
    crypto_aead_decrypt_detached (A128L.variant aesni) wantM c mac ad npub k =
      if c.length > 2 ^ 61 - 1 ∨ ad.length > 2 ^ 61 - 1 then (-1, none)
      else decOutcome wantM c.length (aegis128l_decrypt k npub ad c mac) :=
  wrap_decrypt_detached_128L aesni_ok wantM c mac ad npub k hk hn hmac

theorem crypto_aead_aegis256_aesni_decrypt_detached_eq (wantM : Bool) (c mac ad npub k : Bytes) (hk : k.length = 32)
    (hn : npub.length = 32) (hmac : mac.length = 32) :
    crypto_aead_decrypt_detached (A256.variant aesni) wantM c mac ad npub k =
      if c.length > 2 ^ 61 - 1 ∨ ad.length > 2 ^ 61 - 1 then (-1, none)
      else decOutcome wantM c.length (aegis256_decrypt k npub ad c mac) :=
  wrap_decrypt_detached_256 aesni_ok wantM c mac ad npub k hk hn hmac

/-! ### `aesni_eq_soft`: both backends compute the same function -/

/-- the AES-NI build and the portable build return the same code, ciphertext and tag (every tag length),
    and the same verdict and output buffer on decryption (tag lengths 16 and 32; other lengths are refused
    identically by `decrypt_detached_bad_maclen`); likewise the public wrappers -/
theorem aesni_eq_soft_128L (m ad npub k : Bytes) (hk : k.length = 16) (hn : npub.length = 16)
    (hm : m.length < 2 ^ 61) (ha : ad.length < 2 ^ 61) :
    (∀ maclen, encrypt_detached (A128L.variant aesni) maclen m ad npub k =
      encrypt_detached (A128L.variant soft) maclen m ad npub k) ∧
    (∀ wantM maclen mac, mac.length = maclen →
      decrypt_detached (A128L.variant aesni) wantM m mac maclen ad npub k =
      decrypt_detached (A128L.variant soft) wantM m mac maclen ad npub k) := by
  refine ⟨fun maclen => ?_, fun wantM maclen mac hmac => ?_⟩
  · rw [encrypt_detached_128L aesni_ok maclen m ad npub k hk hn hm ha,
      encrypt_detached_128L soft_ok maclen m ad npub k hk hn hm ha]
  · by_cases hml : maclen = 16 ∨ maclen = 32
    · rw [decrypt_detached_128L aesni_ok wantM maclen hml m mac ad npub k hk hn hmac hm ha,
        decrypt_detached_128L soft_ok wantM maclen hml m mac ad npub k hk hn hmac hm ha]
    · rw [decrypt_detached_other _ wantM maclen (fun h => hml (Or.inl h)) (fun h => hml (Or.inr h)),
        decrypt_detached_other _ wantM maclen (fun h => hml (Or.inl h)) (fun h => hml (Or.inr h))]

theorem aesni_eq_soft_256 (m ad npub k : Bytes) (hk : k.length = 32) (hn : npub.length = 32)
    (hm : m.length < 2 ^ 61) (ha : ad.length < 2 ^ 61) :
    (∀ maclen, encrypt_detached (A256.variant aesni) maclen m ad npub k =
      encrypt_detached (A256.variant soft) maclen m ad npub k) ∧
    (∀ wantM maclen mac, mac.length = maclen →
      decrypt_detached (A256.variant aesni) wantM m mac maclen ad npub k =
      decrypt_detached (A256.variant soft) wantM m mac maclen ad npub k) := by
  refine ⟨fun maclen => ?_, fun wantM maclen mac hmac => ?_⟩
  · rw [encrypt_detached_256 aesni_ok maclen m ad npub k hk hn hm ha,
      encrypt_detached_256 soft_ok maclen m ad npub k hk hn hm ha]
  · by_cases hml : maclen = 16 ∨ maclen = 32
    · rw [decrypt_detached_256 aesni_ok wantM maclen hml m mac ad npub k hk hn hmac hm ha,
        decrypt_detached_256 soft_ok wantM maclen hml m mac ad npub k hk hn hmac hm ha]
    · rw [decrypt_detached_other _ wantM maclen (fun h => hml (Or.inl h)) (fun h => hml (Or.inr h)),
        decrypt_detached_other _ wantM maclen (fun h => hml (Or.inl h)) (fun h => hml (Or.inr h))]

/-- the public entry points do not depend on which implementation `_pick_best_implementation` selected
    (no length hypothesis: over-long inputs are refused before the implementation is called) -/
theorem aesni_eq_soft (m ad npub k k' npub' mac : Bytes) (wantM : Bool) (hk : k.length = 16) (hn : npub.length = 16)
    (hk' : k'.length = 32) (hn' : npub'.length = 32) (hmac : mac.length = 32) :
    crypto_aead_encrypt_detached (A128L.variant aesni) m ad npub k =
      crypto_aead_encrypt_detached (A128L.variant soft) m ad npub k ∧
    crypto_aead_encrypt (A128L.variant aesni) m ad npub k = crypto_aead_encrypt (A128L.variant soft) m ad npub k ∧
    crypto_aead_decrypt_detached (A128L.variant aesni) wantM m mac ad npub k =
      crypto_aead_decrypt_detached (A128L.variant soft) wantM m mac ad npub k ∧
    crypto_aead_encrypt_detached (A256.variant aesni) m ad npub' k' =
      crypto_aead_encrypt_detached (A256.variant soft) m ad npub' k' ∧
    crypto_aead_encrypt (A256.variant aesni) m ad npub' k' = crypto_aead_encrypt (A256.variant soft) m ad npub' k' ∧
    crypto_aead_decrypt_detached (A256.variant aesni) wantM m mac ad npub' k' =
      crypto_aead_decrypt_detached (A256.variant soft) wantM m mac ad npub' k' := by
  have e1 := (wrap_encrypt_detached_128L aesni_ok m ad npub k hk hn).trans
    (wrap_encrypt_detached_128L soft_ok m ad npub k hk hn).symm
  have e2 := (wrap_encrypt_detached_256 aesni_ok m ad npub' k' hk' hn').trans
    (wrap_encrypt_detached_256 soft_ok m ad npub' k' hk' hn').symm
  refine ⟨e1, ?_, ?_, e2, ?_, ?_⟩
  · rw [Sodium.C01Aegis.crypto_aead_encrypt_combined, Sodium.C01Aegis.crypto_aead_encrypt_combined, e1]
  · rw [wrap_decrypt_detached_128L aesni_ok wantM m mac ad npub k hk hn hmac,
      wrap_decrypt_detached_128L soft_ok wantM m mac ad npub k hk hn hmac]
  · rw [Sodium.C01Aegis.crypto_aead_encrypt_combined, Sodium.C01Aegis.crypto_aead_encrypt_combined, e2]
  · rw [wrap_decrypt_detached_256 aesni_ok wantM m mac ad npub' k' hk' hn' hmac,
      wrap_decrypt_detached_256 soft_ok wantM m mac ad npub' k' hk' hn' hmac]

/-- the combined decrypt wrapper too (every ciphertext length, including `clen < 32`) -/
theorem aesni_eq_soft_decrypt (c ad npub k k' npub' : Bytes) (wantM : Bool) (hk : k.length = 16) (hn : npub.length = 16)
    (hk' : k'.length = 32) (hn' : npub'.length = 32) :
    crypto_aead_decrypt (A128L.variant aesni) wantM c ad npub k = crypto_aead_decrypt (A128L.variant soft) wantM c ad npub k ∧
    crypto_aead_decrypt (A256.variant aesni) wantM c ad npub' k' = crypto_aead_decrypt (A256.variant soft) wantM c ad npub' k' := by
  by_cases h : c.length < 32
  · simp only [Sodium.C01Aegis.crypto_aead_decrypt_short _ wantM c ad _ _ h, and_self]
  · have h32 : 32 ≤ c.length := by omega
    have hmac : (c.drop (c.length - 32)).length = 32 := by simp; omega
    constructor
    · rw [Sodium.C01Aegis.crypto_aead_decrypt_combined _ wantM c ad npub k h32,
        Sodium.C01Aegis.crypto_aead_decrypt_combined _ wantM c ad npub k h32,
        wrap_decrypt_detached_128L aesni_ok wantM _ _ ad npub k hk hn hmac,
        wrap_decrypt_detached_128L soft_ok wantM _ _ ad npub k hk hn hmac]
    · rw [Sodium.C01Aegis.crypto_aead_decrypt_combined _ wantM c ad npub' k' h32,
        Sodium.C01Aegis.crypto_aead_decrypt_combined _ wantM c ad npub' k' h32,
        wrap_decrypt_detached_256 aesni_ok wantM _ _ ad npub' k' hk' hn' hmac,
        wrap_decrypt_detached_256 soft_ok wantM _ _ ad npub' k' hk' hn' hmac]

/-! ### non-vacuity -/

example : BackendOk aesni := aesni_ok
/-- FIPS 197 Appendix B, round 1, through the register model (kernel evaluation) -/
example : mm_storeu_si128 (mm_aesenc_si128
      (mm_loadu_si128 [0x19, 0x3d, 0xe3, 0xbe, 0xa0, 0xf4, 0xe2, 0x2b, 0x9a, 0xc6, 0x8d, 0x2a, 0xe9, 0xf8, 0x48, 0x08])
      (mm_loadu_si128 [0xa0, 0xfa, 0xfe, 0x17, 0x88, 0x54, 0x2c, 0xb1, 0x23, 0xa3, 0x39, 0x39, 0x2a, 0x6c, 0x76, 0x05])) =
    [0xa4, 0x9c, 0x7f, 0xf2, 0x68, 0x9f, 0x35, 0x2b, 0x6b, 0x5b, 0xea, 0x43, 0x02, 0x6a, 0x50, 0x49] := by
  decide +kernel

end Sodium.C01AegisAesni
