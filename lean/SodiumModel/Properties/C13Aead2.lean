import SodiumModel.Properties.C13Aead
import SodiumModel.Proofs.OverlapAead2Enc
import SodiumModel.Proofs.OverlapAead2Dec
import SodiumModel.Proofs.OverlapAead2Exit
import SodiumModel.Proofs.OverlapAead2Full
/-
  C13 — AES-256-GCM in place, message part, for EVERY message length (the "below 1024" bound of
  `Properties/C13Aead.lean` removed): the transcribed loop schedules of aes_gcm_encrypt_generic /
  aes_gcm_decrypt_generic pass `encCheck` / `decCheck` for all `n`, by induction over the loop structure
  (`Proofs/OverlapAead2Sched.lean`: one generic loop lemma; `…2Enc.lean` / `…2Dec.lean`: the 2×7-block pipeline with the
  lagged invariant "stored up to i, hashed up to i − 112", the 7-block loop, the 4 / 2 / 1-block loops).
-/
open Sodium Sodium.Model Sodium.Model.Aead Sodium.Model.Overlap Sodium.Model.OverlapAead
open Sodium.OverlapP Sodium.OverlapAeadP Sodium.C13
namespace Sodium.C13Aead2

/-- every GHASH load of the encrypt loops comes after the store of those bytes, and the stores tile the message in
    order — for EVERY message length -/
theorem gcm_enc_schedule_ok (n : Nat) : encCheck n (encBulk n).2 (0, 0) = some ((encBulk n).1, (encBulk n).1) :=
  encBulk_ok n

/-- every GHASH load of ciphertext bytes in the decrypt loops comes BEFORE the store that overwrites them when `m == c`
    — for EVERY message length -/
theorem gcm_dec_schedule_ok (n : Nat) : decCheck n (decBulk n).2 (0, 0) = some ((decBulk n).1, (decBulk n).1) :=
  decBulk_ok n

/-- regression: the kernel-evaluated bounded statement of `C13Aead.lean` is an instance -/
example : ∀ n, n < 1024 → Sodium.C13Aead.schedulesOk n := fun n _ => ⟨gcm_enc_schedule_ok n, gcm_dec_schedule_ok n⟩

/-- encrypt, every length, every keystream and memory, output at or before the input (in place: `dst = src`) or disjoint:
    the bytes stored are the whole-message XOR; GHASH absorbed exactly that ciphertext and the zero padding of the tail -/
theorem gcm_encrypt_mem_all (ks : Bytes) (mem : Mem) (dst src n : Nat) (h : dst ≤ src ∨ src + n ≤ dst) (hks : n ≤ ks.length) :
    gcmEncryptMem ks mem dst src n =
      (write mem dst (xorBytes (read mem src n) ks),
       xorBytes (read mem src n) ks ++ (if n - (encBulk n).1 ≠ 0 then zeros (16 - (n - (encBulk n).1)) else [])) :=
  Sodium.C13Aead.gcm_encrypt_mem ks mem dst src n (encBulk_ok n) h hks

/-- decrypt, every length: the bytes stored are the whole-message XOR; GHASH absorbed the ciphertext found ON ENTRY -/
theorem gcm_decrypt_mem_all (ks : Bytes) (mem : Mem) (dst src n : Nat) (h : dst ≤ src ∨ src + n ≤ dst) (hks : n ≤ ks.length) :
    gcmDecryptMem ks mem dst src n =
      (write mem dst (xorBytes (read mem src n) ks),
       read mem src n ++ (if n - (decBulk n).1 ≠ 0 then zeros (16 - (n - (decBulk n).1)) else [])) :=
  Sodium.C13Aead.gcm_decrypt_mem ks mem dst src n (decBulk_ok n) h hks

/-- IN PLACE, unconditional -/
theorem gcm_encrypt_inplace (ks : Bytes) (mem : Mem) (c n : Nat) (hks : n ≤ ks.length) :
    (gcmEncryptMem ks mem c c n).1 = write mem c (xorBytes (read mem c n) ks) ∧
    (gcmEncryptMem ks mem c c n).2.take n = xorBytes (read mem c n) ks := by
  rw [gcm_encrypt_mem_all ks mem c c n (Or.inl (Nat.le_refl _)) hks]
  refine ⟨rfl, ?_⟩
  rw [List.take_left']
  simp [aead_xorBytes_length]; omega

theorem gcm_decrypt_inplace (ks : Bytes) (mem : Mem) (c n : Nat) (hks : n ≤ ks.length) :
    (gcmDecryptMem ks mem c c n).1 = write mem c (xorBytes (read mem c n) ks) ∧
    (gcmDecryptMem ks mem c c n).2.take n = read mem c n := by
  rw [gcm_decrypt_mem_all ks mem c c n (Or.inl (Nat.le_refl _)) hks]
  refine ⟨rfl, ?_⟩
  rw [List.take_left']
  simp

/-- in place = disjoint buffers: same bytes stored, same GHASH input -/
theorem gcm_encrypt_inplace_eq_disjoint (ks : Bytes) (mem mem₂ : Mem) (c n dst₂ src₂ : Nat) (hks : n ≤ ks.length)
    (hdisj : dst₂ + n ≤ src₂ ∨ src₂ + n ≤ dst₂) (hm : read mem₂ src₂ n = read mem c n) :
    read (gcmEncryptMem ks mem c c n).1 c n = read (gcmEncryptMem ks mem₂ dst₂ src₂ n).1 dst₂ n ∧
    (gcmEncryptMem ks mem c c n).2 = (gcmEncryptMem ks mem₂ dst₂ src₂ n).2 := by
  rw [gcm_encrypt_mem_all ks mem c c n (Or.inl (Nat.le_refl _)) hks, gcm_encrypt_mem_all ks mem₂ dst₂ src₂ n (by omega) hks, hm]
  refine ⟨?_, rfl⟩
  have hl : (xorBytes (read mem c n) ks).length = n := by simp [aead_xorBytes_length]; omega
  rw [read_write_same _ _ _ _ hl.symm, read_write_same _ _ _ _ hl.symm]

theorem gcm_decrypt_inplace_eq_disjoint (ks : Bytes) (mem mem₂ : Mem) (c n dst₂ src₂ : Nat) (hks : n ≤ ks.length)
    (hdisj : dst₂ + n ≤ src₂ ∨ src₂ + n ≤ dst₂) (hm : read mem₂ src₂ n = read mem c n) :
    read (gcmDecryptMem ks mem c c n).1 c n = read (gcmDecryptMem ks mem₂ dst₂ src₂ n).1 dst₂ n ∧
    (gcmDecryptMem ks mem c c n).2 = (gcmDecryptMem ks mem₂ dst₂ src₂ n).2 := by
  rw [gcm_decrypt_mem_all ks mem c c n (Or.inl (Nat.le_refl _)) hks, gcm_decrypt_mem_all ks mem₂ dst₂ src₂ n (by omega) hks, hm]
  refine ⟨?_, rfl⟩
  have hl : (xorBytes (read mem c n) ks).length = n := by simp [aead_xorBytes_length]; omega
  rw [read_write_same _ _ _ _ hl.symm, read_write_same _ _ _ _ hl.symm]

/-! ### where the loops stop, and the GHASH input in the specification's form -/

/-- the block loops stop at a multiple of 16 with at most 16 bytes left (0 only when 16 ∣ n) -/
theorem gcm_loops_exit (n : Nat) :
    (16 ∣ (encBulk n).1 ∧ (encBulk n).1 ≤ n ∧ n ≤ (encBulk n).1 + 16) ∧
    (16 ∣ (decBulk n).1 ∧ (decBulk n).1 ≤ n ∧ n ≤ (decBulk n).1 + 16) := ⟨encBulk_exit n, decBulk_exit n⟩

/-- message part of GHASH, encrypt: `C ‖ 0^u` exactly as in SP 800-38D, whatever the placement -/
theorem gcm_encrypt_ghash_input (ks : Bytes) (mem : Mem) (dst src n : Nat) (h : dst ≤ src ∨ src + n ≤ dst) (hks : n ≤ ks.length) :
    (gcmEncryptMem ks mem dst src n).2 = xorBytes (read mem src n) ks ++ gpad n := by
  rw [gcm_encrypt_mem_all ks mem dst src n h hks, tail_pad n _ (encBulk_exit n)]; rfl

theorem gcm_decrypt_ghash_input (ks : Bytes) (mem : Mem) (dst src n : Nat) (h : dst ≤ src ∨ src + n ≤ dst) (hks : n ≤ ks.length) :
    (gcmDecryptMem ks mem dst src n).2 = read mem src n ++ gpad n := by
  rw [gcm_decrypt_mem_all ks mem dst src n h hks, tail_pad n _ (decBulk_exit n)]; rfl

/-! ### the whole detached functions (AD, tag built in the caller's `mac` buffer, limits path, `0xd0` fill) -/

/-- encrypt_detached_afternm within the limits, output at or before the input (in place: `c = m`) or disjoint, tag buffer
    disjoint from BOTH the ciphertext and the message region (E_K(J0) is stored in it before the tail of `m` is loaded):
    returns 0, `c` holds the value-level ciphertext, `mac` the value-level tag, nothing else is written -/
theorem gcm_encrypt_detached_mem (G : GcmPrims) (hG : GcmLens G) (st : Bytes) (mem : Mem) (c mac m mlen ad adlen npub : Nat)
    (hlim : limitsOk adlen mlen = true) (hcm : c ≤ m ∨ m + mlen ≤ c)
    (hmc : mac + 16 ≤ c ∨ c + mlen ≤ mac) (hmm : mac + 16 ≤ m ∨ m + mlen ≤ mac) :
    let r := gcmEncV G st (read mem npub 12) (read mem ad adlen) (read mem m mlen)
    let res := gcmEncryptDetachedMem G st mem c mac m mlen ad adlen npub
    res.1 = 0 ∧ read res.2 c mlen = r.1 ∧ read res.2 mac 16 = r.2 ∧
      ∀ a, outside a c mlen → outside a mac 16 → res.2 a = mem a := by
  intro r res
  have e : res = (0, write (write mem c r.1) mac r.2) :=
    gcmEncryptDetachedMem_eq G hG st mem c mac m mlen ad adlen npub hlim hcm hmc hmm
  have hl1 : r.1.length = mlen := by simp [r, gcmEncV, aead_xorBytes_length, hG.ks_len]
  have hl2 : r.2.length = 16 := by simp [r, gcmEncV, aead_xorBytes_length, hG.ej0_len, hG.ghash_len]
  rw [e]
  refine ⟨rfl, ?_, read_write_same _ _ _ _ hl2.symm, ?_⟩
  · show read (write (write mem c r.1) mac r.2) c mlen = r.1
    rw [read_write_disj _ _ _ _ _ (by rw [hl2]; omega), read_write_same _ _ _ _ hl1.symm]
  · intro a h1 h2
    unfold outside at h1 h2
    show write (write mem c r.1) mac r.2 a = mem a
    rw [write_outside _ _ _ _ (by rw [hl2]; exact h2), write_outside _ _ _ _ (by rw [hl1]; exact h1)]

/-- beyond the limits (`required_blocks == 0`): −1, the tag buffer filled with 0xd0, the ciphertext buffer ZEROED —
    in place that destroys the message -/
theorem gcm_encrypt_limits_path (G : GcmPrims) (st : Bytes) (mem : Mem) (c mac m mlen ad adlen npub : Nat)
    (hlim : limitsOk adlen mlen = false) :
    gcmEncryptDetachedMem G st mem c mac m mlen ad adlen npub = (-1, memset (memset mem mac 0xd0 16) c 0 mlen) := by
  simp [gcmEncryptDetachedMem, hlim]

/-- decrypt_detached_afternm (`m != NULL`) within the limits, output at or before the input (in place: `m = c`) or
    disjoint, tag OUTSIDE the output region (it is loaded after the plaintext stores): the verdict is the value-level tag
    comparison on the ciphertext / tag found on entry; on success the output region holds the plaintext, on failure it
    is filled with 0xd0 (NOT zeros — unlike the ChaCha20-Poly1305 and AEGIS functions); nothing else is written -/
theorem gcm_decrypt_detached_mem (G : GcmPrims) (hG : GcmLens G) (st : Bytes) (mem : Mem) (m c clen mac ad adlen npub : Nat)
    (hlim : limitsOk adlen clen = true) (hcm : m ≤ c ∨ c + clen ≤ m) (hmac : mac + 16 ≤ m ∨ m + clen ≤ mac) :
    let ok := Sodium.Model.verify_n_sse2 1 (read mem mac 16)
      (gcmTagV G st (read mem npub 12) (read mem ad adlen) (read mem c clen)) = 0
    let res := gcmDecryptDetachedMem G st mem m c clen mac ad adlen npub
    (ok → res.1 = 0 ∧ read res.2 m clen = xorBytes (read mem c clen) (G.ks st (read mem npub 12) clen)) ∧
    (¬ ok → res.1 = -1 ∧ read res.2 m clen = List.replicate clen 0xd0) ∧
    ∀ a, outside a m clen → res.2 a = mem a := by
  intro ok res
  have e := gcmDecryptDetachedMem_eq G hG st mem m c clen mac ad adlen npub hlim hcm hmac
  have hl : (xorBytes (read mem c clen) (G.ks st (read mem npub 12) clen)).length = clen := by
    simp [aead_xorBytes_length, hG.ks_len]
  by_cases hok : ok
  · have e' : res = (0, write mem m (xorBytes (read mem c clen) (G.ks st (read mem npub 12) clen))) := by
      rw [show res = _ from e, if_neg (by simpa [ok] using hok)]
    rw [e']
    refine ⟨fun _ => ⟨rfl, read_write_same _ _ _ _ hl.symm⟩, fun h => absurd hok h, ?_⟩
    intro a ha; unfold outside at ha
    exact write_outside _ _ _ _ (by rw [hl]; exact ha)
  · have e' : res = (-1, write mem m (List.replicate clen 0xd0)) := by
      rw [show res = _ from e, if_pos (by simpa [ok] using hok)]
    rw [e']
    refine ⟨fun h => absurd h hok, fun _ => ⟨rfl, read_write_same _ _ _ _ (by simp)⟩, ?_⟩
    intro a ha; unfold outside at ha
    exact write_outside _ _ _ _ (by simp; exact ha)

/-! ### non-vacuity and boundary, with toy primitives -/

def toyG : GcmPrims where
  ks := fun st n len => (List.range len).map fun j => UInt8.ofNat (toyChk (st ++ n) + 7 * j + 1)
  ej0 := fun st n => toLE 16 (toyChk (n ++ st) + 5)
  ghash := fun st d => toLE 16 (toyChk (st ++ d))

theorem toyG_lens : GcmLens toyG := ⟨fun _ _ _ => by simp [toyG], fun _ _ => toLE_length _ _, fun _ _ => toLE_length _ _⟩

/-- in place, 40 bytes, direct evaluation (independent of the proofs) -/
example : read (gcmEncryptDetachedMem toyG [1, 2, 3] memT 1000 2000 1000 40 500 13 300).2 1000 40
    = (gcmEncV toyG [1, 2, 3] (read memT 300 12) (read memT 500 13) (read memT 1000 40)).1 := by
  decide +kernel

/-- a memory with a valid 40-byte ciphertext at 1000 and its tag at 2000 -/
def memG : Mem :=
  let r := gcmEncV toyG [1, 2, 3] (read memT 300 12) (read memT 500 13) (read memT 600 40)
  write (write memT 1000 r.1) 2000 r.2

example : (gcmDecryptDetachedMem toyG [1, 2, 3] memG 1000 1000 40 2000 500 13 300).1 = 0 ∧
    read (gcmDecryptDetachedMem toyG [1, 2, 3] memG 1000 1000 40 2000 500 13 300).2 1000 40 = read memT 600 40 := by
  decide +kernel

/-- failed in-place decryption (tag taken from 2100): −1 and the buffer is 0xd0 -/
example : (gcmDecryptDetachedMem toyG [1, 2, 3] memG 1000 1000 40 2100 500 13 300).1 = -1 ∧
    read (gcmDecryptDetachedMem toyG [1, 2, 3] memG 1000 1000 40 2100 500 13 300).2 1000 40 = List.replicate 40 0xd0 := by
  decide +kernel

/-- BOUNDARY (confirmed on the library): the tag inside the output region makes a VALID ciphertext fail -/
theorem gcm_tag_inside_output_differs :
    Sodium.Model.verify_n_sse2 1 (read memG 2000 16)
      (gcmTagV toyG [1, 2, 3] (read memG 300 12) (read memG 500 13) (read memG 1000 40)) = 0 ∧
    (gcmDecryptDetachedMem toyG [1, 2, 3] memG 1990 1000 40 2000 500 13 300).1 = -1 := by
  decide +kernel

/-- BOUNDARY, encrypt: the tag buffer overlapping the TAIL of the message (disjoint from the ciphertext buffer!) corrupts
    the ciphertext, because E_K(J0) is stored into `mac` before the last partial block of `m` is loaded -/
theorem gcm_mac_over_message_tail_differs :
    read (gcmEncryptDetachedMem toyG [1, 2, 3] memT 3000 1035 1000 40 500 13 300).2 3000 40
    ≠ (gcmEncV toyG [1, 2, 3] (read memT 300 12) (read memT 500 13) (read memT 1000 40)).1 := by
  decide +kernel

end Sodium.C13Aead2
