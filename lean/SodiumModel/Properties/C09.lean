import SodiumModel.Model.Secretstream
import SodiumModel.Proofs.Secretstream
/-
  C09 — secretstream delivers exactly the pushed sequence of messages.
  Primitives (ChaCha20-IETF keystream, Poly1305, HChaCha20) are parameters with only length facts
  assumed; everything about the chunk format, state chaining, counters, rekeying and the behaviour on
  rejection is proved for every state, message, associated data, tag and every history.
-/
open Sodium Sodium.Model Sodium.Model.SS
namespace Sodium.C09

structure PrimsOk (P : Prims) : Prop where
  ks_len : ∀ k n ic len, (P.ks k n ic len).length = len
  mac_len : ∀ k d, (P.mac k d).length = 16

structure StateOk (s : State) : Prop where
  k_len : s.k.length = 32
  nonce_len : s.nonce.length = 12

/-- push and pull preserve the state shape -/
theorem push_state_ok (P : Prims) (hP : PrimsOk P) (s : State) (hs : StateOk s) (m ad : Bytes) (tag : UInt8) :
    StateOk (push P s m ad tag).1 := by
  have h := SSP.push_shape P hP.ks_len hP.mac_len s hs.k_len hs.nonce_len m ad tag
  exact ⟨h.1, h.2⟩

/-- a pushed chunk is `tag-byte ‖ ciphertext ‖ mac`, 17 bytes longer than the message -/
theorem push_chunk_layout (P : Prims) (hP : PrimsOk P) (s : State) (m ad : Bytes) (tag : UInt8) :
    (push P s m ad tag).2.length = m.length + 17 ∧
    ((push P s m ad tag).2.drop 1).take m.length = xorBytes m (P.ks s.k s.nonce 2 m.length) := by
  have hk1 : 1 ≤ (P.ks s.k s.nonce 1 64).length := by rw [hP.ks_len]; omega
  have hb := block_take1_length tag (zeros 63) _ hk1
  have hc : (xorBytes m (P.ks s.k s.nonce 2 m.length)).length = m.length := by
    simp [ss_xorBytes_length, hP.ks_len]
  have h := split3 _ _ (P.mac ((P.ks s.k s.nonce 0 64).take 32)
    (macInput ad (xorBytes (tag :: zeros 63) (P.ks s.k s.nonce 1 64))
      (xorBytes m (P.ks s.k s.nonce 2 m.length)))) m.length hb hc
  refine ⟨?_, h.2.1⟩
  simp only [push, List.length_append, hb, hc, hP.mac_len]; omega

/-- Synchronisation, one step: pulling what was pushed from the same state returns the message, the
    tag, and exactly the sender's next state — for every state (any counter value, including
    ff ff ff ff), message, associated data and tag (REKEY-tagged chunks included). -/
theorem pull_push (P : Prims) (hP : PrimsOk P) (s : State) (hs : StateOk s) (m ad : Bytes) (tag : UInt8) :
    pull P s (push P s m ad tag).2 ad = .ok (push P s m ad tag).1 m tag := by
  have _ := hs  -- the shape hypothesis is not needed for this direction
  exact SSP.pull_push P hP.ks_len hP.mac_len s m ad tag

/-- operations of a sender -/
inductive Op where
  | push (m ad : Bytes) (tag : UInt8)
  | rekey

/-- what travels to the receiver: a chunk with its associated data, or the agreement to rekey -/
inductive Wire where
  | chunk (c ad : Bytes)
  | rekey

def sender (P : Prims) : State → List Op → State × List Wire
  | s, [] => (s, [])
  | s, .push m ad tag :: ops =>
    let r := SS.push P s m ad tag
    let t := sender P r.1 ops
    (t.1, .chunk r.2 ad :: t.2)
  | s, .rekey :: ops =>
    let t := sender P (SS.rekey P s) ops
    (t.1, .rekey :: t.2)

def receiver (P : Prims) : State → List Wire → Option (State × List (Bytes × UInt8))
  | s, [] => some (s, [])
  | s, .chunk c ad :: w =>
    match SS.pull P s c ad with
    | .fail => none
    | .ok s' m tag => (receiver P s' w).map fun t => (t.1, (m, tag) :: t.2)
  | s, .rekey :: w => receiver P (SS.rekey P s) w

def pushed : List Op → List (Bytes × UInt8)
  | [] => []
  | .push m _ tag :: ops => (m, tag) :: pushed ops
  | .rekey :: ops => pushed ops

/-- rekey preserves the state shape -/
theorem rekey_state_ok (P : Prims) (hP : PrimsOk P) (s : State) (hs : StateOk s) : StateOk (SS.rekey P s) := by
  have h := SSP.rekey_shape P hP.ks_len s hs.k_len hs.nonce_len
  exact ⟨h.1, h.2⟩

/-- Synchronisation over every history: for any sequence of pushes (any tags, lengths, associated
    data) and explicit rekeys, a receiver starting from the same state recovers exactly the pushed
    messages and tags in order and ends in the sender's state (automatic rekeys at counter wrap and
    on REKEY-tagged chunks included, since they are part of `push`/`pull`). -/
theorem sync_history (P : Prims) (hP : PrimsOk P) (s : State) (hs : StateOk s) (ops : List Op) :
    receiver P s (sender P s ops).2 = some ((sender P s ops).1, pushed ops) := by
  induction ops generalizing s with
  | nil => rfl
  | cons op ops ih =>
    cases op with
    | push m ad tag =>
      simp only [sender, receiver, pushed, pull_push P hP s hs m ad tag,
        ih _ (push_state_ok P hP s hs m ad tag), Option.map_some]
    | rekey =>
      simp only [sender, receiver, pushed, ih _ (rekey_state_ok P hP s hs)]

/-- inputs shorter than the 17-byte overhead are always rejected -/
theorem short_rejected (P : Prims) (s : State) (inp ad : Bytes) (h : inp.length < 17) :
    pull P s inp ad = .fail := by
  simp [pull, h]

/-- acceptance implies that the stored MAC is the Poly1305 tag, under the key derived from the
    *current* state, of the chunk's encoding — so a dropped / replayed / reordered / modified chunk or
    changed associated data is accepted only if it carries a valid MAC under a state it was not
    produced for. -/
theorem pull_accept_mac (P : Prims) (hP : PrimsOk P) (s s' : State) (inp ad m : Bytes) (tag : UInt8)
    (h : pull P s inp ad = .ok s' m tag) :
    17 ≤ inp.length ∧
    inp.drop (inp.length - 16) =
      P.mac ((P.ks s.k s.nonce 0 64).take 32)
        (macInput ad (inp.take 1 ++ (xorBytes (inp.take 1 ++ zeros 63) (P.ks s.k s.nonce 1 64)).drop 1)
          ((inp.drop 1).take (inp.length - 17))) :=
  SSP.pull_accept_mac P hP.mac_len s s' inp ad m tag h

/-- the MAC input encodes (ad, block, ciphertext) injectively (despite the documented mis-padding),
    so an accepted modification is a genuine MAC forgery, never an encoding ambiguity -/
theorem macInput_injective (ad ad' b b' c c' : Bytes) (hb : b.length = 64) (hb' : b'.length = 64)
    (hl : ad.length < 2 ^ 64 ∧ ad'.length < 2 ^ 64 ∧ c.length < 2 ^ 64 - 64 ∧ c'.length < 2 ^ 64 - 64)
    (h : macInput ad b c = macInput ad' b' c') : ad = ad' ∧ b = b' ∧ c = c' :=
  SSP.macInput_injective ad ad' b b' c c' hb hb' hl h

/-- the state after a chunk: inonce is chained with the chunk's MAC, the counter is incremented, and a
    rekey happens exactly on a REKEY-tagged chunk or when the counter wraps to zero -/
theorem advance_eq (P : Prims) (s : State) (hs : StateOk s) (mac : Bytes) (hm : mac.length = 16) (tag : UInt8) :
    advance P s mac tag =
      let s1 : State := ⟨s.k, toLE 4 ((le (counter s) + 1) % 2 ^ 32) ++ xorBytes (inonce s) (mac.take 8)⟩
      if (tag &&& 0x02) ≠ 0 ∨ (le (counter s) + 1) % 2 ^ 32 = 0 then SS.rekey P s1 else s1 := by
  have _ := hm  -- only `hs` is needed
  exact SSP.advance_eq P s hs.nonce_len mac tag

/-- in particular the 32-bit chunk counter never silently repeats: from ff ff ff ff the next state is a rekeyed one -/
theorem counter_wrap_rekeys (P : Prims) (hP : PrimsOk P) (s : State) (hs : StateOk s) (mac : Bytes) (hm : mac.length = 16)
    (tag : UInt8) (hc : counter s = [0xff, 0xff, 0xff, 0xff]) :
    advance P s mac tag = SS.rekey P ⟨s.k, zeros 4 ++ xorBytes (inonce s) (mac.take 8)⟩ ∧
    counter (advance P s mac tag) = [1, 0, 0, 0] := by
  have _ := hP; have _ := hm  -- only `hs` and `hc` are needed
  have h := SSP.counter_wrap P s hs.nonce_len mac tag hc
  exact ⟨h, by rw [h]; rfl⟩

/-! ### non-vacuity: toy primitives meeting `PrimsOk`, a concrete `StateOk` state, and evaluated
    push / pull / history runs -/

/-- toy primitives: the keystream depends on key, nonce and block counter; the MAC on key, length and contents -/
def toyPrims : Prims :=
  { ks := fun k n ic len => List.replicate len (k.headD 0 + n.foldl (· + ·) 0 + UInt8.ofNat ic),
    mac := fun k d => List.replicate 16 (k.headD 0 + UInt8.ofNat d.length + d.foldl (· ^^^ ·) 0),
    hchacha := fun _ k => k }

example : PrimsOk toyPrims := ⟨fun _ _ _ _ => by simp [toyPrims], fun _ _ => by simp [toyPrims]⟩

/-- a state whose counter is about to wrap -/
def toyState : State := ⟨List.replicate 32 7, [0xff, 0xff, 0xff, 0xff, 1, 2, 3, 4, 5, 6, 7, 8]⟩

example : StateOk toyState := ⟨by decide, by decide⟩
example : StateOk (SS.init toyPrims (List.replicate 24 9) (List.replicate 32 7)) := ⟨by decide, by decide⟩

example : (push toyPrims toyState [1, 2, 3] [9] 0).2.length = 20 := by decide

set_option maxRecDepth 20000 in
example : pull toyPrims toyState (push toyPrims toyState [1, 2, 3] [9] 0).2 [9]
    = .ok (push toyPrims toyState [1, 2, 3] [9] 0).1 [1, 2, 3] 0 := by decide

set_option maxRecDepth 20000 in
/-- changed associated data, and a flipped ciphertext bit, are rejected by the toy MAC -/
example : pull toyPrims toyState (push toyPrims toyState [1, 2, 3] [9] 0).2 [8] = .fail ∧
    pull toyPrims toyState ((push toyPrims toyState [1, 2, 3] [9] 0).2.set 2 0) [9] = .fail := by decide

set_option maxRecDepth 20000 in
/-- the wrapping counter triggered a rekey: the counter is reset and the key changed -/
example : counter (push toyPrims toyState [1, 2, 3] [9] 0).1 = [1, 0, 0, 0] ∧
    (push toyPrims toyState [1, 2, 3] [9] 0).1.k ≠ toyState.k := by decide

set_option maxRecDepth 20000 in
/-- a history with an explicit rekey, a REKEY-tagged chunk and a FINAL chunk -/
example : receiver toyPrims toyState
    (sender toyPrims toyState [.push [1, 2] [] 0, .rekey, .push [] [5] 2, .push [3] [] 3]).2
    = some ((sender toyPrims toyState [.push [1, 2] [] 0, .rekey, .push [] [5] 2, .push [3] [] 3]).1,
        [([1, 2], 0), ([], 2), ([3], 3)]) := by decide

set_option maxRecDepth 20000 in
example : macInput [1] (zeros 64) [2, 3] ≠ macInput [1, 0] (zeros 64) [2, 3] := by decide

end Sodium.C09
