import SodiumModel.Model.Globals
import SodiumModel.Proofs.Globals
import SodiumModel.Proofs.GlobalsInit
import Generated.Globals
/-
  C19 (thread safety after initialisation), Tie B: the table of shared objects / accesses / call graph
  extracted from the C sources (`Generated.Globals.table`) passes the decidable check
  `raceFreeAfterInit`, and the check is sound for EVERY table: in every interleaving of any number of
  threads, each running any sequence of exported API calls after initialisation, two accesses of
  different threads to the same object never conflict unless both are made with the library lock held,
  or the object is thread-local / the mutex / a named exception (`Sodium.Model.Globals.policy`).
-/
open Sodium Sodium.Model.Globals Sodium.Model.Init
namespace Sodium.C19Globals

/-! ### the general theorem (any table, any policy) -/

/-- soundness of the check: conflicting accesses of an interleaving are both lock-protected (or the
    object is exempt) -/
theorem race_free_of_check (pol : Policy) (tbl : Table) (h : raceFreeWith pol tbl = true)
    (progs : List (List Nat)) (trace : List Event) (hx : Interleaving tbl pol progs trace)
    (e1 e2 : Event) (h1 : e1 ∈ trace) (h2 : e2 ∈ trace) (_hne : e1.tid ≠ e2.tid)
    (hobj : e1.eff.obj = e2.eff.obj) (hw : e1.eff.write = true ∨ e2.eff.write = true) :
    objExempt pol tbl e1.eff.obj = true ∨ (e1.eff.locked = true ∧ e2.eff.locked = true) :=
  GlobalsP.no_conflict h hx h1 h2 hobj hw

/-- … i.e. no interleaving contains a data race -/
theorem no_race_of_check (pol : Policy) (tbl : Table) (h : raceFreeWith pol tbl = true)
    (progs : List (List Nat)) (trace : List Event) (hx : Interleaving tbl pol progs trace) :
    ∀ e1 ∈ trace, ∀ e2 ∈ trace, ¬ Race pol tbl e1 e2 := by
  intro e1 h1 e2 h2 ⟨hne, hobj, hw, hex, hnl⟩
  rcases race_free_of_check pol tbl h progs trace hx e1 e2 h1 h2 hne hobj hw with h' | h'
  · rw [h'] at hex; cases hex
  · exact hnl h'

/-- the default policy -/
theorem race_free_after_init (tbl : Table) (h : raceFreeAfterInit tbl = true)
    (progs : List (List Nat)) (trace : List Event) (hx : Interleaving tbl policy progs trace) :
    ∀ e1 ∈ trace, ∀ e2 ∈ trace, ¬ Race policy tbl e1 e2 :=
  no_race_of_check policy tbl h progs trace hx

/-- an object without exemption that is written after initialisation is only ever accessed under the lock -/
theorem written_object_locked (pol : Policy) (tbl : Table) (h : raceFreeWith pol tbl = true)
    (progs : List (List Nat)) (trace : List Event) (hx : Interleaving tbl pol progs trace)
    (w : Event) (hw : w ∈ trace) (hww : w.eff.write = true) (hne : objExempt pol tbl w.eff.obj = false) :
    ∀ e ∈ trace, e.eff.obj = w.eff.obj → e.eff.locked = true := by
  intro e he hobj
  rcases GlobalsP.no_conflict h hx he hw hobj (Or.inr hww) with h' | h'
  · rw [hobj, hne] at h'; cases h'
  · exact h'.1

/-! ### the instance: the table generated from the libsodium sources -/

/-- Tie B: the extracted table passes the check -/
theorem table_race_free : raceFreeAfterInit Generated.Globals.table = true := by decide +kernel

/-- hence: no data race on the shared objects of libsodium in any post-init interleaving of API calls -/
theorem libsodium_race_free (progs : List (List Nat)) (trace : List Event)
    (hx : Interleaving Generated.Globals.table policy progs trace) :
    ∀ e1 ∈ trace, ∀ e2 ∈ trace, ¬ Race policy Generated.Globals.table e1 e2 :=
  race_free_after_init _ table_race_free progs trace hx

/-! ### the exceptions are real: without each of them the check fails (deviations of the code from
    "every post-init access is protected") -/

def without (pol : Policy) (name : String) : Policy :=
  ⟨pol.allowObjs.filter (·.1 != name), pol.exemptFns.filter (·.1 != name)⟩

/-- `sodium_misuse` calls `sodium_crit_leave` without owning the lock: unprotected read / write of `locked` -/
theorem needs_exempt_sodium_misuse :
    offenders (without policy "sodium_misuse") Generated.Globals.table = ["sodium/core.c:locked"] := by decide +kernel

/-- `randombytes_set_implementation` / `randombytes_init_if_needed` store to `implementation` without the lock -/
theorem needs_allow_randombytes_implementation :
    offenders (without policy "randombytes/randombytes.c:implementation") Generated.Globals.table =
      ["randombytes/randombytes.c:implementation"] := by decide +kernel

/-- the internal generator's process-wide `global` struct is (re)written on the first use in every thread -/
theorem needs_allow_internal_global :
    offenders (without policy "randombytes/internal/randombytes_internal_random.c:global") Generated.Globals.table =
      ["randombytes/internal/randombytes_internal_random.c:global"] := by decide +kernel

/-- the sysrandom `stream` state is written by stir / close without the lock -/
theorem needs_allow_sysrandom_stream :
    offenders (without policy "randombytes/sysrandom/randombytes_sysrandom.c:stream") Generated.Globals.table =
      ["randombytes/sysrandom/randombytes_sysrandom.c:stream"] := by decide +kernel

/-- with no exception at all, exactly these six objects fail -/
theorem offenders_without_policy :
    offenders ⟨[], []⟩ Generated.Globals.table =
      ["randombytes/internal/randombytes_internal_random.c:global",
       "randombytes/internal/randombytes_internal_random.c:randombytes_internal_random_random_dev_open:devices",
       "randombytes/randombytes.c:implementation",
       "randombytes/sysrandom/randombytes_sysrandom.c:stream",
       "randombytes/sysrandom/randombytes_sysrandom.c:randombytes_sysrandom_random_dev_open:devices",
       "sodium/core.c:locked"] := by decide +kernel

/-! ### connection with the initialisation protocol (Model/Init.lean, Properties/C19.lean) -/

/-- In a combined execution (steps of the `sodium_init` protocol interleaved with API events, an API
    event of thread `t` being enabled only after `t` has returned from `sodium_init`), at the moment of
    every API event: `initialized = 1` has been published, the initialisation body has run exactly once
    and completely, no thread is inside it, and it never runs again — every init-phase write
    happens-before (body → `initialized := 1` → unlock → lock by `t` / return) every API access.
    This is what justifies `Performs` ignoring the `initOnly` accesses and calls. -/
theorem api_event_after_init (n : Nat) (a b : List Act) (t : Nat) (e : Eff) (s' : State)
    (h : runC (init n) (a ++ Act.api t e :: b) = some s') :
    let s := run (init n) (schedOf a)
    hasReturned s t = true ∧ s.initialized = true ∧ s.bodyWrites = 1 ∧ s.bodyRuns = 1 ∧
    s.pcs.count .body + s.pcs.count .bodyDone = 0 ∧
    s'.bodyWrites = 1 ∧ s'.bodyRuns = 1 ∧ s'.initialized = true := by
  obtain ⟨s1, h1, hr, h2⟩ := GlobalsP.runC_split h
  have e1 := GlobalsP.runC_eq h1
  have e2 := GlobalsP.runC_eq h2
  subst e1
  have hi := InitP.inv_reach n (schedOf a)
  have hb := GlobalsP.no_body_of_returned hi hr
  have hi' : InitP.Inv n s' := by rw [e2]; exact InitP.inv_run hi _
  have hs' := InitP.inv_safety hi'
  have hm : (run (init n) (schedOf a)).bodyWrites ≤ s'.bodyWrites := by rw [e2]; exact GlobalsP.bodyWrites_run_le _ _
  have hle1 := hs'.1
  have hle2 := hs'.2.1
  have hb1 := hb.2.1
  have hw' : s'.bodyWrites = 1 := by omega
  have hr' : s'.bodyRuns = 1 := by omega
  refine ⟨hr, hb.1, hb.2.1, hb.2.2.1, hb.2.2.2, hw', hr', ?_⟩
  rw [e2]; exact GlobalsP.initialized_run _ _ hb.1

/-- end to end: protocol + API calls.  Every API event happens after the complete initialisation, and
    the API events are free of data races. -/
theorem init_then_race_free (n : Nat) (acts : List Act) (s' : State) (h : runC (init n) acts = some s')
    (progs : List (List Nat)) (hx : Interleaving Generated.Globals.table policy progs (apiEvents acts)) :
    (∀ a b t e, acts = a ++ Act.api t e :: b →
        (run (init n) (schedOf a)).initialized = true ∧ (run (init n) (schedOf a)).bodyWrites = 1 ∧ s'.bodyWrites = 1) ∧
    (∀ e1 ∈ apiEvents acts, ∀ e2 ∈ apiEvents acts, ¬ Race policy Generated.Globals.table e1 e2) := by
  refine ⟨?_, libsodium_race_free progs _ hx⟩
  intro a b t e hacts
  subst hacts
  have := api_event_after_init n a b t e s' h
  exact ⟨this.2.1, this.2.2.1, this.2.2.2.2.2.1⟩

/-- an API event of a thread that has not returned from `sodium_init` is not an execution of the model -/
theorem api_before_init_disabled (n : Nat) (t : Nat) (e : Eff) : runC (init n) [Act.api t e] = none := by
  have : hasReturned (init n) t = false := by
    unfold hasReturned init
    simp only [List.getElem?_replicate]
    split <;> simp_all
  simp [runC, stepC, this]

/-! ### non-vacuity -/

/-- a toy table: object 0 plain, object 1 thread-local; f0 (API) writes 0 under the lock and calls f1
    with the lock held; f1 reads 0 (inherit) and writes 1; f2 (API) reads 0 under the lock -/
def toy : Table :=
  ⟨[⟨"a", "x.c", false, false, false⟩, ⟨"b", "x.c", true, false, false⟩],
   [⟨"f0", true, [⟨0, true, .held, false⟩], [⟨1, .held, false⟩]⟩,
    ⟨"f1", false, [⟨0, false, .inherit, false⟩, ⟨1, true, .inherit, false⟩], []⟩,
    ⟨"f2", true, [⟨0, false, .held, false⟩], []⟩], 0⟩

/-- the same with f2 reading object 0 WITHOUT the lock -/
def toyBad : Table :=
  { toy with fns := toy.fns.set 2 ⟨"f2", true, [⟨0, false, .inherit, false⟩], []⟩ }

example : raceFreeWith ⟨[], []⟩ toy = true := by decide
example : raceFreeWith ⟨[], []⟩ toyBad = false := by decide
example : offenders ⟨[], []⟩ toyBad = ["a"] := by decide

/-- the hypothesis of the general theorem is satisfiable: thread 0 calls f0 (write under the lock, then
    f1's read with the lock inherited), thread 1 calls f2 -/
example : Interleaving toy ⟨[], []⟩ [[0], [2]]
    [⟨0, ⟨0, true, true⟩⟩, ⟨1, ⟨0, false, true⟩⟩, ⟨0, ⟨0, false, true⟩⟩] := by
  intro t
  match t with
  | 0 =>
    have : ThreadRun toy ⟨[], []⟩ [0] ([⟨0, true, true⟩, ⟨0, false, true⟩] ++ []) :=
      .call ⟨_, rfl, rfl, rfl⟩
        (by
          intro e he
          simp only [List.mem_cons, List.not_mem_nil, or_false] at he
          rcases he with rfl | rfl
          · exact Performs.here (fn := toy.fns[0]) (a := ⟨0, true, .held, false⟩) rfl (by decide) rfl
          · exact Performs.call (fn := toy.fns[0]) (c := ⟨1, .held, false⟩) rfl (by decide) rfl rfl
              (Performs.here (fn := toy.fns[1]) (a := ⟨0, false, .inherit, false⟩) rfl (by decide) rfl))
        .nil
    exact this
  | 1 =>
    have : ThreadRun toy ⟨[], []⟩ [2] ([⟨0, false, true⟩] ++ []) :=
      .call ⟨_, rfl, rfl, rfl⟩
        (by
          intro e he
          simp only [List.mem_cons, List.not_mem_nil, or_false] at he
          subst he
          exact Performs.here (fn := toy.fns[2]) (a := ⟨0, false, .held, false⟩) rfl (by decide) rfl)
        .nil
    exact this
  | t + 2 => exact .nil

/-- and the check is not vacuous the other way: in `toyBad` the same two threads DO race
    (f0's locked write against f2's unprotected read) -/
example : Race ⟨[], []⟩ toyBad ⟨0, ⟨0, true, true⟩⟩ ⟨1, ⟨0, false, false⟩⟩ := by
  refine ⟨by decide, rfl, Or.inl rfl, by decide, by decide⟩

/-- the generated table contains the initialiser and the generators as API roots, and `initialized` is the phase flag -/
example : (Generated.Globals.table.fns.filter (·.api)).length ≥ 200 ∧
    Generated.Globals.table.fns.any (fun f => f.key == "sodium_init" && f.api) = true ∧
    Generated.Globals.table.fns.any (fun f => f.key == "randombytes_buf" && f.api) = true ∧
    Generated.Globals.table.fns.any (fun f => f.key == "sodium_malloc" && f.api) = true ∧
    (Generated.Globals.table.objs[Generated.Globals.table.initFlag]?.map (·.key)) = some "sodium/core.c:initialized" := by
  decide +kernel

/-- what a post-init call of `sodium_init` may touch: the mutex, `locked` and `initialized`, all under the
    lock except the mutex itself (the body and `initialized := 1` are `initOnly`) -/
example : apiAccesses policy Generated.Globals.table "sodium_init" =
    [("sodium/core.c:initialized", false, true), ("sodium/core.c:_sodium_lock", false, false),
     ("sodium/core.c:locked", false, true), ("sodium/core.c:locked", true, true),
     ("sodium/core.c:_sodium_lock", false, true)] := by decide +kernel

/-- a combined execution: two threads initialise (thread 1 wins), then both use the API -/
example : (runC (init 2) [.init 1, .init 0, .init 1, .init 1, .init 1, .api 1 ⟨0, false, false⟩,
    .init 0, .init 0, .api 0 ⟨0, false, false⟩]).isSome = true := by decide

end Sodium.C19Globals
