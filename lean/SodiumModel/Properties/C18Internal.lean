import SodiumModel.Model.RandomInternal
import SodiumModel.Proofs.RandomInternal
/-
  C18 / C19 / C12 — the default generator `randombytes_internal_random.c` and the dispatch layer `randombytes.c`,
  modelled in `Model/RandomInternal.lean` (configured build: HAVE_GETENTROPY, HAVE_GETPID, LP64 little endian).
  Everything the code reads from outside (getentropy / gettimeofday / getpid / RDRAND / device open) is the explicit
  script `Env`; the model functions are total functions of (Env, state), so every output of every history is a
  function of those scripts and the call history only.  The theorems hold for every `Env`, every state satisfying the
  bookkeeping invariant (which the initial state does and every call preserves) and every history of calls.
-/
open Sodium Sodium.Model Sodium.Model.RngInt Sodium.RngP
namespace Sodium.C18Internal

/-! ### (1) bookkeeping invariant, indices in bounds -/

/-- the static initialisers satisfy the invariant -/
theorem inv_init : Inv St.init := RngP.inv_init

/-- every successful call (stir / buf / random / close) preserves: `rnd32_outleft ≤ 480 ≤ sizeof rnd32`, multiple of 4,
    `key` 32 bytes, `rnd32` 512 bytes, and every pool byte at or above the watermark is zero -/
theorem inv_step (C : Cipher) (hC : CipherWF C) (E : Env) (c : Call) (st : St) (r : Out × St)
    (h : step C E c st = .ok r) (hi : Inv st) : Inv r.2 := RngP.inv_step C hC E c st r h hi

/-- … hence after every history of calls that did not abort, from the initial state in particular -/
theorem inv_run (C : Cipher) (hC : CipherWF C) (E : Env) (cs : List Call) (st' : St)
    (h : (run C E cs St.init).2 = .ok st') : Inv st' := RngP.inv_run C hC E cs St.init st' h RngP.inv_init

/-- the real ChaCha20 satisfies the cipher hypothesis -/
theorem chacha20_wf : CipherWF chacha20 := RngP.chacha20_wf

/-- `randombytes_internal_random()`: the 4 bytes read are `rnd32[o .. o+4)` with `o + 4 ≤ 480` (inside the array, below
    the key-material area), and they are zero afterwards -/
theorem random_in_bounds (C : Cipher) (hC : CipherWF C) (E : Env) (st : St) (r : UInt32 × St)
    (h : random C E st = .ok r) (hi : Inv st) :
    r.2.s.outleft.toNat + 4 ≤ 480 ∧ r.2.s.rnd32.length = 512 ∧
      (r.2.s.rnd32.drop r.2.s.outleft.toNat).take 4 = zeros 4 := by
  have i2 := RngP.inv_random C hC E st r h hi
  have hlt : r.2.s.outleft.toNat + 4 ≤ 480 := by
    unfold random at h
    split at h
    · obtain ⟨st1, h1, h2⟩ := bind_eq_ok _ _ _ h
      cases h2
      have i1 := inv_stirIfNeeded E st st1 h1 hi
      have hf := (refill_facts C hC E st1 i1.key_len).1
      show ((refillCore C E st1).s.outleft - 4).toNat + 4 ≤ 480
      rw [hf]; decide
    · rename_i hne
      cases h
      have h0 : st.s.outleft.toNat ≠ 0 := fun h0 => hne ((outleft_le_zero _).mpr (UInt64.toNat_inj.mp h0))
      have := hi.out_le; have := hi.out_mod
      have h4 : (4 : UInt64) ≤ st.s.outleft := by rw [UInt64.le_iff_toNat_le]; show 4 ≤ _; omega
      show (st.s.outleft - 4).toNat + 4 ≤ 480
      rw [UInt64.toNat_sub_of_le _ _ h4]; show st.s.outleft.toNat - 4 + 4 ≤ 480; omega
  refine ⟨hlt, i2.pool_len, ?_⟩
  rw [i2.zero_above]
  simp only [zeros, List.take_replicate]
  congr 1; omega

/-- with words left in the pool `random()` is just the pop: no outside call at all (in particular no `getpid`),
    value = the 4 little-endian bytes below the watermark, which moves down by 4 -/
theorem random_pop_eq (C : Cipher) (E : Env) (st : St) (h : st.s.outleft ≠ 0) :
    random C E st = .ok (le32 (st.s.rnd32.drop (st.s.outleft - 4).toNat),
      { st with s := { st.s with outleft := st.s.outleft - 4,
                                 rnd32 := setRange st.s.rnd32 (st.s.outleft - 4).toNat (zeros 4) } }) := by
  unfold random
  rw [if_neg (fun h0 => h ((outleft_le_zero _).mp h0))]
  rfl

/-- every pool word is handed out once: the bytes at and above the new watermark are zero after the pop, and the
    next pop reads strictly below it -/
theorem pool_words_once (C : Cipher) (hC : CipherWF C) (E : Env) (st : St) (r : UInt32 × St)
    (h : random C E st = .ok r) (hi : Inv st) :
    r.2.s.rnd32.drop r.2.s.outleft.toNat = zeros (512 - r.2.s.outleft.toNat) :=
  (RngP.inv_random C hC E st r h hi).zero_above

/-! ### (2) buf: keystream, then fast key erasure -/

/-- `randombytes_internal_random_buf(buf, n)` on an initialised stream in the same process:
    output = `crypto_stream_chacha20(n, nonce, key)`; then `key ^= LE64(n)` on its first 8 bytes, RDRAND mixed into
    `key[28..32)` if available, `nonce + 1`, and `key = key XOR keystream(32, nonce + 1, key)` -/
theorem buf_eq (C : Cipher) (E : Env) (n : Nat) (st : St) (hin : st.s.initialized = true)
    (hpid : st.g.pid = E.getpid st.c.pid) :
    buf C E n st =
      let st1 := { st with c := { st.c with pid := st.c.pid + 1 } }
      let st2 := xorhwrand E { st1 with s := { st1.s with key := xorsize n st.s.key } }
      .ok (C.stream n (nonceBytes st.s.nonce) st.s.key,
           { st2 with s := { st2.s with nonce := st2.s.nonce + 1,
                                        key := C.xor st2.s.key (nonceBytes (st2.s.nonce + 1)) st2.s.key } }) := by
  simp only [buf, stirIfNeeded, hin, Bool.not_true, Bool.false_eq_true, if_false, hpid, ne_eq, not_true_eq_false,
    bind_ok, bufCore]

/-- … with the real cipher: the output is the first n bytes of the ChaCha20 keystream (RFC/DJB specification, original
    64-bit nonce layout, block counter 0) under (key, LE64(nonce)); without RDRAND the new key is
    `k' XOR keystream(k', LE64(nonce + 1))[0..32)` with `k' = key ^ LE64(n)`.  No output byte is ever reused as key:
    the erasure keystream is taken under the next nonce (`erase_nonce_fresh`). -/
theorem buf_chacha20_spec (E : Env) (n : Nat) (st : St) (hin : st.s.initialized = true)
    (hpid : st.g.pid = E.getpid st.c.pid) (hrd : st.g.rdrandAvail = false) (hk : st.s.key.length = 32) :
    buf chacha20 E n st = .ok (C03Cores.specStreamOrig st.s.key (nonceBytes st.s.nonce) 0 n,
      { st with c := { st.c with pid := st.c.pid + 1 },
                s := { st.s with nonce := st.s.nonce + 1,
                                 key := xorBytes (xorsize n st.s.key)
                                   (C03Cores.specStreamOrig (xorsize n st.s.key) (nonceBytes (st.s.nonce + 1)) 0 32) } }) := by
  have h0 : (0 : UInt64).toNat = 0 := rfl
  rw [buf_eq chacha20 E n st hin hpid]
  simp only [xorhwrand, hrd, Bool.not_false, if_true, chacha20, C03Cores.stream_ref_spec,
    C03Cores.stream_ref_xor_ic_spec, h0, Nat.mul_zero, xorsize_length n _ hk]

/-- the nonce used for the key erasure differs from the nonce used for the output (also across the 2^64 wrap) -/
theorem erase_nonce_fresh (n : UInt64) : nonceBytes (n + 1) ≠ nonceBytes n :=
  fun h => add_one_ne n (nonceBytes_inj _ _ h)

/-- pool refill (first `random()` on an empty pool, after `stir_if_needed`): 512 keystream bytes; the first 480 become
    the pool, the last 32 are XORed into the key (after the RDRAND mix) and erased; watermark 480 -/
theorem random_refill_eq (C : Cipher) (hC : CipherWF C) (E : Env) (st : St) (hk : st.s.key.length = 32) :
    (refillCore C E st).s.rnd32 = (C.stream 512 (nonceBytes st.s.nonce) st.s.key).take 480 ++ zeros 32 ∧
    (refillCore C E st).s.outleft = 480 ∧
    (refillCore C E st).s.nonce = st.s.nonce + 1 ∧
    (st.g.rdrandAvail = false →
      (refillCore C E st).s.key = xorBytes st.s.key ((C.stream 512 (nonceBytes st.s.nonce) st.s.key).drop 480)) := by
  obtain ⟨a, _, c⟩ := refill_facts C hC E st hk
  refine ⟨c, a, ?_, ?_⟩
  · simp only [refillCore, xorkey]
    have := (xorhwrand_s E { st with s := { st.s with rnd32 := C.stream 512 (nonceBytes st.s.nonce) st.s.key, outleft := 480 } } hk).2.2.2.1
    exact congrArg (· + 1) this
  · intro hrd
    have hl := hC.stream_len 512 (nonceBytes st.s.nonce) st.s.key
    have h480 : (480 : UInt64).toNat = 480 := by decide
    simp only [refillCore, xorkey, xorhwrand, hrd, Bool.not_false, if_true, h480]
    rw [List.take_of_length_le (by simp [hl])]

/-! ### (3) determinism -/

/-- the output of `buf` does not depend on the `random()` pool (`rnd32`, `rnd32_outleft`): two streams with equal
    key / nonce / initialised flag (and the same process-wide state and outside world) give equal bytes -/
theorem buf_ignores_pool (C : Cipher) (E : Env) (n : Nat) (st : St) (pool : Bytes) (o : UInt64)
    (hin : st.s.initialized = true) :
    (buf C E n { st with s := { st.s with rnd32 := pool, outleft := o } }).bind (fun r => Res.ok r.1) =
      (buf C E n st).bind (fun r => Res.ok r.1) := by
  simp only [buf, stirIfNeeded, hin, Bool.not_true, Bool.false_eq_true, if_false]
  split <;> rfl

/-- `close` erases the whole stream state and leaves `global` alone (HAVE_GETENTROPY: not even `initialized` is reset);
    return value 0 iff getentropy was found available -/
theorem close_resets (st : St) :
    (close st).2.s = Stream.zero ∧ (close st).2.g = st.g ∧ (close st).1 = if st.g.getentropyAvail then 0 else -1 :=
  ⟨rfl, rfl, rfl⟩

/-- after `close`, the next `buf` (likewise `random`) starts with a full `stir`: fresh time stamp, fresh seed request -/
theorem close_then_buf_reseeds (C : Cipher) (E : Env) (n : Nat) (st : St) :
    buf C E n (close st).2 = ((stir E (close st).2).bind fun st1 => .ok (bufCore C E n st1)) ∧
    random C E (close st).2 = ((stir E (close st).2).bind fun st1 => .ok (popCore (refillCore C E st1))) :=
  ⟨rfl, rfl⟩

/-! ### (4) stir and the entropy source -/

/-- `stir` once `global` is initialised with getentropy available: exactly one request of exactly 32 bytes; the key IS
    those bytes (no mixing with the old key), nonce = `tv_sec·10^6 + tv_usec`, pool erased, `global.pid` refreshed -/
theorem stir_requests_32 (E : Env) (st : St) (t : UInt64) (b : Bytes)
    (hg : st.g.initialized = true) (ha : st.g.getentropyAvail = true)
    (ht : hrtime E st = .ok (t, { st with c := { st.c with time := st.c.time + 1 } })) (hne : t ≠ 0)
    (he : E.getentropy st.c.ent.length 32 = some b) :
    match stir E st with
    | .ok st' => st'.c.ent = st.c.ent ++ [32] ∧ st'.s.key = fit 32 b ∧ st'.s.nonce = t ∧ st'.s.outleft = 0 ∧
        st'.s.rnd32 = zeros 512 ∧ st'.s.initialized = true ∧ st'.g.pid = E.getpid st.c.pid
    | _ => False := by
  rw [stir_unfold E st _ t ht hne]
  simp only [stirInit, stirReset, hg, if_true, bind_ok]
  rw [stirSeed_avail E _ (by exact ha)]
  simp only [stirPid, he, bind_ok]
  refine ⟨trivial, trivial, trivial, trivial, trivial, trivial, ?_⟩
  show (if st.g.pid ≠ E.getpid st.c.pid then E.getpid st.c.pid else st.g.pid) = _
  split
  · rfl
  · rename_i h; exact Classical.not_not.mp h

/-- the very first `stir` of the process: `init` probes getentropy with 16 bytes first, so the requests are 16 then 32 -/
theorem stir_first_requests_16_32 (E : Env) (st : St) (t : UInt64) (f b : Bytes)
    (hg : st.g.initialized = false)
    (ht : hrtime E st = .ok (t, { st with c := { st.c with time := st.c.time + 1 } })) (hne : t ≠ 0)
    (hf : E.getentropy st.c.ent.length 16 = some f)
    (he : E.getentropy (st.c.ent.length + 1) 32 = some b) :
    match stir E st with
    | .ok st' => st'.c.ent = st.c.ent ++ [16, 32] ∧ st'.s.key = fit 32 b ∧ st'.s.nonce = t ∧
        st'.g.initialized = true ∧ st'.g.getentropyAvail = true
    | _ => False := by
  rw [stir_unfold E st _ t ht hne]
  simp only [stirInit, stirReset, hg, Bool.false_eq_true, if_false, init_eq, hf, bind_ok]
  rw [stirSeed_avail E _ rfl]
  simp only [stirPid, List.length_append, List.length_singleton, he, bind_ok]
  simp

/-- if the 32-byte request fails, `stir` ends in `sodium_misuse()` (never continues with a partial key) -/
theorem stir_entropy_failure_is_misuse (E : Env) (st : St) (t : UInt64)
    (hg : st.g.initialized = true) (ha : st.g.getentropyAvail = true)
    (ht : hrtime E st = .ok (t, { st with c := { st.c with time := st.c.time + 1 } })) (hne : t ≠ 0)
    (he : E.getentropy st.c.ent.length 32 = none) :
    stir E st = .misuse { st.c with ent := st.c.ent ++ [32], time := st.c.time + 1, pid := st.c.pid + 1 } := by
  rw [stir_unfold E st _ t ht hne]
  simp only [stirInit, stirReset, hg, if_true, bind_ok]
  rw [stirSeed_avail E _ (by exact ha)]
  simp only [stirPid, he, bind_misuse]

/-- DEVIATION (QUIRK OF THE CODE): built with HAVE_GETENTROPY, when the probe in `init` fails at run time but the random
    device can be opened, `stir` SUCCEEDS WITHOUT READING ANY SEED: the `if (global.getentropy_available != 0)` block
    has no else branch (the `/dev/urandom` read is in an `#elif` that is not compiled).  The key keeps its previous
    value (all zero for a fresh or closed stream): the generator's output is then a function of the clock alone. -/
theorem stir_unseeded_when_getentropy_unavailable (E : Env) (st : St) (t : UInt64) (fd : Int)
    (hg : st.g.initialized = false)
    (ht : hrtime E st = .ok (t, { st with c := { st.c with time := st.c.time + 1 } })) (hne : t ≠ 0)
    (hf : E.getentropy st.c.ent.length 16 = none) (hd : E.devOpen st.c.opn = some fd) :
    match stir E st with
    | .ok st' => st'.s.key = st.s.key ∧ st'.c.ent = st.c.ent ++ [16] ∧ st'.s.initialized = true ∧
        st'.s.nonce = t ∧ st'.g.getentropyAvail = false ∧ st'.g.fd = fd
    | _ => False := by
  rw [stir_unfold E st _ t ht hne]
  simp only [stirInit, stirReset, hg, Bool.false_eq_true, if_false, init_eq, hf, hd, bind_ok]
  rw [stirSeed_unavail E _ rfl]
  simp [stirPid]

/-! ### (5) fork detection -/

/-- DEVIATION from "a changed pid forces a re-stir": in this code a changed pid seen by `stir_if_needed` is a
    `sodium_misuse()` (abort) — for `buf` always, for `random()` only when the pool is empty -/
theorem fork_is_misuse_not_restir (C : Cipher) (E : Env) (n : Nat) (st : St) (hin : st.s.initialized = true)
    (hpid : st.g.pid ≠ E.getpid st.c.pid) :
    buf C E n st = .misuse { st.c with pid := st.c.pid + 1 } ∧
    (st.s.outleft = 0 → random C E st = .misuse { st.c with pid := st.c.pid + 1 }) := by
  refine ⟨?_, fun h0 => ?_⟩
  · simp [buf, stirIfNeeded, hin, hpid]
  · simp [random, h0, stirIfNeeded, hin, hpid]

/-- DEVIATION: while words are left in the pool, `random()` does not look at the pid at all — a forked child (and its
    parent) keep popping the SAME up to 119 remaining words: the result is the same for every pid script -/
theorem random_no_fork_check_with_pool (C : Cipher) (E E' : Env) (st : St) (h : st.s.outleft ≠ 0) :
    random C E st = random C E' st := by
  rw [random_pop_eq C E st h, random_pop_eq C E' st h]

/-- the clock value: `hrtime` = `tv_sec * 1000000 + tv_usec` in uint64_t arithmetic (the `t` of the stir theorems);
    an explicit `stir` in a forked child is `stir_requests_32`: new seed, `global.pid` := the child's pid -/
theorem hrtime_value (E : Env) (st : St) (sec usec : UInt64) (ht : E.gettimeofday st.c.time = some (sec, usec)) :
    hrtime E st = .ok (sec * 1000000 + usec, { st with c := { st.c with time := st.c.time + 1 } }) :=
  RngP.hrtime_value E st sec usec ht

/-! ### (6) the dispatch layer randombytes.c -/
section Dispatch
variable {σ : Type}

/-- `randombytes_buf(buf, n)`, n > 0, implementation installed: exactly one call `implementation->buf(buf, n)` with the same n
    (no chunking, no limit) -/
theorem dispatch_buf_forwards (dflt i : Impl σ) (w : σ) (n : Nat) (hn : 0 < n) :
    Dispatch.randombytes_buf dflt n { impl := some i, w := w } =
      (i.buf n w).bind fun r => .ok (some r.1, { impl := some i, w := r.2 }) := by
  simp only [Dispatch.randombytes_buf, Dispatch.initIfNeeded, bind_ok, hn, if_true, gt_iff_lt]

/-- size 0: the implementation is not called and the buffer is not touched -/
theorem dispatch_buf_zero (dflt i : Impl σ) (w : σ) :
    Dispatch.randombytes_buf dflt 0 { impl := some i, w := w } = .ok (none, { impl := some i, w := w }) := rfl

/-- `randombytes(buf, len)`: on this 64-bit build there is NO size limit (the only check is `assert(len <= SIZE_MAX)`,
    never false for an `unsigned long long`): it is `randombytes_buf` with the same length -/
theorem dispatch_randombytes_no_limit (dflt : Impl σ) (d : DSt σ) (n : Nat) (hn : n < 2 ^ 64) :
    Dispatch.randombytes dflt n d = Dispatch.randombytes_buf dflt n d := by
  unfold Dispatch.randombytes
  rw [if_neg (by omega)]

/-- an implementation that supplies its own `uniform` is called with the bound, whatever the bound (also 0 and 1) -/
theorem dispatch_uniform_own (dflt i : Impl σ) (u : UInt32 → σ → Res (UInt32 × σ)) (hu : i.uniform = some u)
    (w : σ) (fuel : Nat) (n : UInt32) :
    Dispatch.randombytes_uniform dflt fuel n { impl := some i, w := w } =
      (u n w).bind fun r => .ok (some r.1, { impl := some i, w := r.2 }) := by
  simp only [Dispatch.randombytes_uniform, Dispatch.initIfNeeded, bind_ok, hu]

/-- without its own `uniform`: bounds below 2 give 0 without drawing; otherwise the rejection loop with the threshold
    `(1 + ~n) % n` of `Model/Random.lean` (`C18.uniformMin_eq`: = 2^32 mod n), one `randombytes_random()` per draw -/
theorem dispatch_uniform_rejection (dflt i : Impl σ) (hu : i.uniform = none) (w : σ) (fuel : Nat) (n : UInt32) :
    Dispatch.randombytes_uniform dflt fuel n { impl := some i, w := w } =
      if n < 2 then .ok (some 0, { impl := some i, w := w })
      else Dispatch.uniformLoop dflt n (uniformMin n) fuel { impl := some i, w := w } := by
  simp only [Dispatch.randombytes_uniform, Dispatch.initIfNeeded, bind_ok, hu]

/-- one iteration of that loop: a draw below the threshold is rejected (another draw follows), any other draw `r` ends
    the loop with `r % n` -/
theorem dispatch_uniform_step (dflt i : Impl σ) (w w' : σ) (fuel : Nat) (n min r : UInt32)
    (hr : i.random w = .ok (r, w')) :
    Dispatch.uniformLoop dflt n min (fuel + 1) { impl := some i, w := w } =
      if r < min then Dispatch.uniformLoop dflt n min fuel { impl := some i, w := w' }
      else .ok (some (r % n), { impl := some i, w := w' }) := by
  simp only [Dispatch.uniformLoop, Dispatch.randombytes_random, Dispatch.initIfNeeded, bind_ok, hr]

/-- QUIRK: the first `randombytes_stir()` of a process (no implementation installed yet) stirs the default
    implementation TWICE: once inside `randombytes_init_if_needed`, once by the call itself -/
theorem dispatch_first_stir_twice (dflt : Impl σ) (f : σ → Res σ) (hf : dflt.stir = some f) (w : σ) :
    Dispatch.randombytes_stir dflt { impl := none, w := w } =
      (f w).bind fun w1 => (f w1).bind fun w2 => .ok { impl := some dflt, w := w2 } := by
  simp only [Dispatch.randombytes_stir, Dispatch.initIfNeeded, Dispatch.stirSet, hf]
  cases f w with
  | ok a => simp only [bind_ok, hf]
  | misuse c => rfl
  | assertFail c => rfl

/-- `randombytes_close()` calls the implementation's `close` and leaves the implementation installed;
    `randombytes_set_implementation` only stores the pointer -/
theorem dispatch_close_keeps_impl (i : Impl σ) (f : σ → Res (Int × σ)) (hf : i.close = some f) (w : σ) :
    Dispatch.randombytes_close { impl := some i, w := w } =
      (f w).bind fun r => .ok (r.1, { impl := some i, w := r.2 }) := by
  simp only [Dispatch.randombytes_close, hf]

end Dispatch

/-! ### non-vacuity -/

/-- a concrete outside world: getentropy always succeeds with 0x07 bytes, the clock says 5 s + 7 µs, pid 100 -/
def exEnv : Env where
  getentropy := fun _ n => some (List.replicate n 7)
  gettimeofday := fun _ => some (5, 7)
  getpid := fun _ => 100
  rdrand := fun _ => 0
  hasRdrand := false
  devOpen := fun _ => some 3

example : (stir exEnv St.init).bind (fun st => .ok (st.c.ent, st.s.nonce, st.s.key.length)) = .ok ([16, 32], 5000007, 32) := by
  decide +kernel

example : ∃ st, stir exEnv St.init = .ok st ∧ st.s.initialized = true ∧ st.g.pid = exEnv.getpid st.c.pid ∧
    st.g.rdrandAvail = false ∧ st.s.key.length = 32 := by
  refine ⟨_, rfl, ?_, ?_, ?_, ?_⟩ <;> decide +kernel

end Sodium.C18Internal
