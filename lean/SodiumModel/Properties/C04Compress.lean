import SodiumModel.Model.CompressRef
import SodiumModel.Proofs.CompressRef
import SodiumModel.Driver.C04Ref
import SodiumModel.Properties.C04
/-
  C04 (compression functions) — the C code of the reference compression functions, modelled
  statement by statement in `Model/CompressRef.lean`, equals the executable specifications
  `Spec.Sha256.compress`, `Spec.Sha512.compress`, `Spec.Blake2b.compress` for every chaining value
  and every block; hence the streaming models instantiated with the modelled C code
  (`Driver/C04Ref.lean`, what the driver runs) equal the specification hashes for every input and
  every chunking (via `Properties/C04.lean`).
-/
open Sodium Sodium.Model Sodium.Model.CompressRef Sodium.CompressRefP
namespace Sodium.C04Compress

/-! ### SHA-256: `SHA256_Transform` (hash_sha256_cp.c) -/

/-- the round-constant table transcribed from the C source is FIPS 180-4 §4.2.2 -/
theorem sha256_Krnd_eq_spec : Sha256.Krnd = Spec.Sha256.K := S256.Krnd_eq

/-- one `RNDr(S, W, i, ii)` (which renames the roles of `S[(64 - i) % 8] …` instead of moving the
    variables) is one round of the specification on the rotated view of `S` -/
theorem sha256_RNDr_eq_spec_round (S W w : Array UInt32) (i ii : Nat) (hS : S.size = 8) (hi : i < 16)
    (hW : W.getD (i + ii) 0 = w.getD (i + ii) 0) :
    S256.view (Sha256.RNDr S W i ii) (i + 1) = Spec.Sha256.round w (S256.view S i) (i + ii) :=
  S256.RNDr_view S W w i ii hS hi hW

/-- `MSCH(W, ii, i)` extends the agreement of `W` with the specification's message schedule by
    one word (the schedule is computed on the fly, 16 words ahead of the rounds) -/
theorem sha256_MSCH_eq_spec_schedule (block : Bytes) (W : Array UInt32) (i ii : Nat)
    (h : S256.Wagree block W (i + ii + 16)) (hb : i + ii + 16 < 64) :
    S256.Wagree block (Sha256.MSCH W ii i) (i + ii + 16 + 1) :=
  S256.MSCH_agree block W i ii h hb

/-- `SHA256_Transform(state, block, W, S)` = FIPS 180-4 §6.2.2, for every chaining value, every
    block (bytes past a short block read as 0 on both sides; the C always passes 64) and ANY prior
    contents of the scratch buffers `W[64]`, `S[8]` (uninitialised stack memory in the C). -/
theorem sha256_transform_eq_spec (state : Array UInt32) (block : Bytes) (W S : Array UInt32)
    (hst : state.size = 8) (hW : W.size = 64) (hS : S.size = 8) :
    (Sha256.SHA256_Transform state block.toArray W S).1 = Spec.Sha256.compress state block :=
  S256.transform_eq state block W S hst hW hS

/-- the function the driver runs -/
theorem sha256_compress_fn_eq_spec (state : Array UInt32) (block : Bytes) (hst : state.size = 8) :
    Driver.C04Ref.sha256C state block = Spec.Sha256.compress state block :=
  S256.transform_eq state block _ _ hst (by simp) (by simp)

/-! ### SHA-512: `SHA512_Transform` (hash_sha512_cp.c) -/

theorem sha512_Krnd_eq_spec : Sha512.Krnd = Spec.Sha512.K := S512.Krnd_eq

theorem sha512_RNDr_eq_spec_round (S W w : Array UInt64) (i ii : Nat) (hS : S.size = 8) (hi : i < 16)
    (hW : W.getD (i + ii) 0 = w.getD (i + ii) 0) :
    S512.view (Sha512.RNDr S W i ii) (i + 1) = Spec.Sha512.round w (S512.view S i) (i + ii) :=
  S512.RNDr_view S W w i ii hS hi hW

theorem sha512_MSCH_eq_spec_schedule (block : Bytes) (W : Array UInt64) (i ii : Nat)
    (h : S512.Wagree block W (i + ii + 16)) (hb : i + ii + 16 < 80) :
    S512.Wagree block (Sha512.MSCH W ii i) (i + ii + 16 + 1) :=
  S512.MSCH_agree block W i ii h hb

/-- `SHA512_Transform(state, block, W, S)` = FIPS 180-4 §6.4.2 (80 rounds, `W[80]`) -/
theorem sha512_transform_eq_spec (state : Array UInt64) (block : Bytes) (W S : Array UInt64)
    (hst : state.size = 8) (hW : W.size = 80) (hS : S.size = 8) :
    (Sha512.SHA512_Transform state block.toArray W S).1 = Spec.Sha512.compress state block :=
  S512.transform_eq state block W S hst hW hS

theorem sha512_compress_fn_eq_spec (state : Array UInt64) (block : Bytes) (hst : state.size = 8) :
    Driver.C04Ref.sha512C state block = Spec.Sha512.compress state block :=
  S512.transform_eq state block _ _ hst (by simp) (by simp)

/-! ### BLAKE2b: `blake2b_compress_ref` (blake2b-compress-ref.c) -/

theorem blake2b_IV_eq_spec : Blake2b.blake2b_IV = Spec.Blake2b.ivWords := B2.IV_eq

/-- the 12-row table `blake2b_sigma[12][16]` is SIGMA[r mod 10] of RFC 7693 §2.7 -/
theorem blake2b_sigma_eq_spec : ∀ r, r < 12 → ∀ k, k < 16 →
    Blake2b.sigmaAt r k = ((Spec.Blake2b.sigma.getD (r % 10) #[]).getD k 0) := B2.sigma_eq

/-- the macro `G(r, i, a, b, c, d)` on four distinct lvalues `v[a], v[b], v[c], v[d]` -/
theorem blake2b_G_eq_spec (m v : Array UInt64) (r i a b c d : Nat) (hv : v.size = 16)
    (ha : a < 16) (hb : b < 16) (hc : c < 16) (hd : d < 16)
    (hab : a ≠ b) (hac : a ≠ c) (had : a ≠ d) (hbc : b ≠ c) (hbd : b ≠ d) (hcd : c ≠ d) :
    Blake2b.G m v r i a b c d
      = Spec.Blake2b.G v a b c d (m.getD (Blake2b.sigmaAt r (2 * i + 0)) 0)
          (m.getD (Blake2b.sigmaAt r (2 * i + 1)) 0) :=
  B2.G_eq m v r i a b c d hv ha hb hc hd hab hac had hbc hbd hcd

theorem blake2b_ROUND_eq_spec (m v : Array UInt64) (r : Nat) (hr : r < 12) (hv : v.size = 16) :
    Blake2b.ROUND m v r = Spec.Blake2b.round m v r := B2.ROUND_eq m v r hr hv

/-- `blake2b_compress_ref(S, block)` = F of RFC 7693 §3.2, where the state fields map to the
    arguments of the specification (and of `Model/Hash.lean`'s `F h block t last`) as
    `S->t[0] = t mod 2^64`, `S->t[1] = (t / 2^64) mod 2^64`, `S->f[0] = last ? ~0 : 0`, `S->f[1] = 0`. -/
theorem blake2b_compress_ref_eq_spec (h : Array UInt64) (block : Bytes) (t : Nat) (last : Bool)
    (hh : h.size = 8) :
    Blake2b.blake2b_compress_ref h (Blake2b.tWords t) (Blake2b.fWords last) block.toArray
      = Spec.Blake2b.compress h block t last :=
  B2.compress_eq h block t last hh

theorem blake2b_compress_fn_eq_spec (h : Array UInt64) (block : Bytes) (t : Nat) (last : Bool)
    (hh : h.size = 8) : Driver.C04Ref.blake2bF h block t last = Spec.Blake2b.compress h block t last :=
  B2.compress_eq h block t last hh

/-- `blake2b_increment_counter` (portable branch) keeps `t[0], t[1]` equal to the words of the
    128-bit byte count that `Model/Hash.lean` keeps as a natural number -/
theorem blake2b_increment_counter_eq (T : Nat) (inc : UInt64) :
    Blake2b.blake2b_increment_counter (Blake2b.tWords T) inc = Blake2b.tWords (T + inc.toNat) :=
  B2.increment_counter_eq T inc

/-- … and so does the `HAVE_TI_MODE` branch -/
theorem blake2b_increment_counter_ti_eq (T : Nat) (inc : UInt64) :
    Blake2b.blake2b_increment_counter_ti (Blake2b.tWords T) inc = Blake2b.tWords (T + inc.toNat) :=
  B2.increment_counter_ti_eq T inc

/-- `blake2b_set_lastblock` with `last_node = 0`: `f[0] = ~0`, `f[1]` untouched -/
theorem blake2b_set_lastblock_eq : Blake2b.blake2b_set_lastblock #[0, 0] 0 = #[0xFFFFFFFFFFFFFFFF, 0] := by
  decide

/-! ### SipHash-2-4: `crypto_shorthash_siphash24` / `crypto_shorthash_siphashx24` (whole functions:
    key setup, the `in != end` word loop, the fall-through `switch (left)` for the last word,
    finalisation, STORE64_LE) -/

/-- the `SIPROUND` macro (statements in the C order) is SipRound of the specification -/
theorem siphash_SIPROUND_eq_spec (s : SipHash.V) :
    Sip.toSpec (SipHash.SIPROUND s) = Spec.SipHash.sipRound (Sip.toSpec s) := Sip.SIPROUND_eq s

/-- the fall-through `switch (left)` builds the last word: the `left` remaining bytes, zero
    padding, and `inlen mod 256` in the top byte -/
theorem siphash_tail_eq_spec (msg : Bytes) (off left len : Nat) (hr : (msg.drop off).length = left)
    (hl : left < 8) :
    SipHash.tail msg.toArray off left (UInt64.ofNat len <<< 56)
      = Spec.SipHash.load64le (msg.drop off ++ zeros (7 - left) ++ [UInt8.ofNat (len % 256)]) :=
  Sip.tail_eq msg off left len hr hl

/-- `crypto_shorthash_siphash24` = SipHash-2-4 for every key and every message whose length fits
    `unsigned long long` (a key shorter than 16 bytes reads as zero-extended on both sides) -/
theorem siphash24_eq_spec (msg key : Bytes) (hlen : msg.length < 2 ^ 64) :
    (SipHash.crypto_shorthash_siphash24 msg.toArray (UInt64.ofNat msg.length) key.toArray).toList
      = Spec.SipHash.siphash24 key msg := Sip.siphash24_eq msg key hlen

/-- `crypto_shorthash_siphashx24` = the 128-bit-output variant -/
theorem siphashx24_eq_spec (msg key : Bytes) (hlen : msg.length < 2 ^ 64) :
    (SipHash.crypto_shorthash_siphashx24 msg.toArray (UInt64.ofNat msg.length) key.toArray).toList
      = Spec.SipHash.siphashx24 key msg := Sip.siphashx24_eq msg key hlen

theorem siphash24_fn_eq_spec (key msg : Bytes) (hlen : msg.length < 2 ^ 64) :
    Driver.C04Ref.siphash24 key msg = Spec.SipHash.siphash24 key msg := Sip.siphash24_eq msg key hlen
theorem siphashx24_fn_eq_spec (key msg : Bytes) (hlen : msg.length < 2 ^ 64) :
    Driver.C04Ref.siphashx24 key msg = Spec.SipHash.siphashx24 key msg := Sip.siphashx24_eq msg key hlen

/-! ### end to end: the streaming models instantiated with the modelled C compression functions
    (what the driver runs) equal the specification hashes for every input and every chunking -/

theorem sha256_hC : ∀ (s : Array UInt32) b, s.size = 8 →
    Driver.C04Ref.sha256C s b = Spec.Sha256.compress s b := fun s b h => sha256_compress_fn_eq_spec s b h
theorem sha256_hP : ∀ (s : Array UInt32) b, s.size = 8 → (Spec.Sha256.compress s b).size = 8 := by
  intro s b _; simp [Spec.Sha256.compress]
theorem sha512_hC : ∀ (s : Array UInt64) b, s.size = 8 →
    Driver.C04Ref.sha512C s b = Spec.Sha512.compress s b := fun s b h => sha512_compress_fn_eq_spec s b h
theorem sha512_hP : ∀ (s : Array UInt64) b, s.size = 8 → (Spec.Sha512.compress s b).size = 8 := by
  intro s b _; simp [Spec.Sha512.compress]

/-- the chunk law (final after any sequence of updates = hash of the concatenation) for the
    `HashOps` the driver uses; it is the hypothesis of the generic HMAC / HKDF theorems of
    `Properties/C04.lean` -/
theorem chunkLaw_sha256_ref : C04.ChunkLaw Driver.C04Ref.H256 Spec.Sha256.hash := by
  intro cs
  have u := mdUpdates_congr (fun s : Array UInt32 => s.size = 8) _ _ sha256_hC sha256_hP 64 64 cs
    (mdInit Spec.Sha256.iv) (by decide)
  show Spec.Sha256.digest (mdPadFinal Driver.C04Ref.sha256C 64 64
    (cs.foldl (mdUpdate Driver.C04Ref.sha256C 64 64) (mdInit Spec.Sha256.iv))) = _
  rw [u.1, mdPadFinal_congr (fun s : Array UInt32 => s.size = 8) _ _ sha256_hC sha256_hP 64 64 _ u.2]
  exact C04.chunkLaw_sha256 cs

theorem chunkLaw_sha512_ref : C04.ChunkLaw Driver.C04Ref.H512 Spec.Sha512.hash := by
  intro cs
  have u := mdUpdates_congr (fun s : Array UInt64 => s.size = 8) _ _ sha512_hC sha512_hP 128 128 cs
    (mdInit Spec.Sha512.iv) (by decide)
  show Spec.Sha512.digest (mdPadFinal Driver.C04Ref.sha512C 128 128
    (cs.foldl (mdUpdate Driver.C04Ref.sha512C 128 128) (mdInit Spec.Sha512.iv))) = _
  rw [u.1, mdPadFinal_congr (fun s : Array UInt64 => s.size = 8) _ _ sha512_hC sha512_hP 128 128 _ u.2]
  exact C04.chunkLaw_sha512 cs

/-- crypto_hash_sha256 init / update* / final over `SHA256_Transform` = FIPS 180-4 SHA-256 -/
theorem sha256_ref_chunks (cs : List Bytes) (hfit : cs.flatten.length < 2 ^ 61) :
    Driver.C04Ref.H256.final (cs.foldl Driver.C04Ref.H256.update Driver.C04Ref.H256.init)
      = Spec.Sha256.hash cs.flatten := by
  have _ := hfit
  exact chunkLaw_sha256_ref cs

/-- crypto_hash_sha512 init / update* / final over `SHA512_Transform` = FIPS 180-4 SHA-512 -/
theorem sha512_ref_chunks (cs : List Bytes) (hfit : cs.flatten.length < 2 ^ 125) :
    Driver.C04Ref.H512.final (cs.foldl Driver.C04Ref.H512.update Driver.C04Ref.H512.init)
      = Spec.Sha512.hash cs.flatten := by
  have _ := hfit
  exact chunkLaw_sha512_ref cs

theorem b2_hF : ∀ (s : Array UInt64) b t l, s.size = 8 →
    Driver.C04Ref.blake2bF s b t l = Spec.Blake2b.compress s b t l :=
  fun s b t l h => blake2b_compress_fn_eq_spec s b t l h
theorem b2_hP : ∀ (s : Array UInt64) b t l, s.size = 8 → (Spec.Blake2b.compress s b t l).size = 8 := by
  intro s b t l _; simp [Spec.Blake2b.compress]
theorem b2_hI : ∀ a b c d, (Spec.Blake2b.paramInit a b c d).size = 8 := by
  intro a b c d; simp [Spec.Blake2b.paramInit]

theorem blake2b_ref_chunks (outlen : Nat) (key salt personal : Bytes) (cs : List Bytes)
    (ho : 1 ≤ outlen ∧ outlen ≤ 64) (hk : key.length ≤ 64) :
    b2Final Driver.C04Ref.blake2bF Spec.Blake2b.digest
        (cs.foldl (fun s c => b2Update Driver.C04Ref.blake2bF (c.length + 1) s c)
          (b2Init Driver.C04Ref.blake2bF Spec.Blake2b.paramInit outlen key salt personal)) outlen
      = .ok (Spec.Blake2b.hash outlen key salt personal cs.flatten) := by
  have i := b2Init_congr (fun s : Array UInt64 => s.size = 8) _ _ b2_hF b2_hP _ b2_hI outlen key salt personal
  have u := b2Updates_congr (fun s : Array UInt64 => s.size = 8) _ _ b2_hF b2_hP cs _ i.2
  rw [i.1, u.1, b2Final_congr (fun s : Array UInt64 => s.size = 8) _ _ b2_hF b2_hP _ _ outlen u.2]
  exact C04.blake2b_chunks outlen key salt personal cs ho hk

theorem generichash_ref_spec (outlen : Nat) (msg key salt personal : Bytes) :
    generichash Driver.C04Ref.blake2bF Spec.Blake2b.paramInit Spec.Blake2b.digest outlen msg key salt personal =
      if outlen = 0 ∨ outlen > 64 ∨ key.length > 64 then .err
      else .ok (Spec.Blake2b.hash outlen key salt personal msg) := by
  rw [generichash_congr (fun s : Array UInt64 => s.size = 8) _ _ b2_hF b2_hP _ b2_hI]
  exact C04.generichash_spec outlen msg key salt personal

theorem kdf_blake2b_ref_spec (n : Nat) (id : UInt64) (ctx key : Bytes) (hc : ctx.length = 8)
    (hk : key.length = 32) :
    kdfBlake2b Driver.C04Ref.blake2bF Spec.Blake2b.paramInit Spec.Blake2b.digest n id ctx key =
      if n < 16 ∨ n > 64 then .err
      else .ok (Spec.Blake2b.hash n key (toLE 8 id.toNat ++ zeros 8) (ctx ++ zeros 8) []) := by
  rw [← C04.kdf_blake2b_spec n id ctx key hc hk]
  unfold kdfBlake2b
  split
  · rfl
  · exact generichash_congr (fun s : Array UInt64 => s.size = 8) _ _ b2_hF b2_hP _ b2_hI ..

/-- HMAC-SHA-256 / -512 over the modelled C compression functions, any chunking = RFC 2104 -/
theorem hmacsha256_ref_chunks (key : Bytes) (cs : List Bytes) :
    hmacFinal Driver.C04Ref.H256 (cs.foldl (hmacUpdate Driver.C04Ref.H256) (hmacInit Driver.C04Ref.H256 key))
      = C04.hmacSpec Spec.Sha256.hash 64 key cs.flatten :=
  C04.hmac_chunks Driver.C04Ref.H256 Spec.Sha256.hash chunkLaw_sha256_ref key cs

theorem hmacsha512_ref_chunks (key : Bytes) (cs : List Bytes) :
    hmacFinal Driver.C04Ref.H512 (cs.foldl (hmacUpdate Driver.C04Ref.H512) (hmacInit Driver.C04Ref.H512 key))
      = C04.hmacSpec Spec.Sha512.hash 128 key cs.flatten :=
  C04.hmac_chunks Driver.C04Ref.H512 Spec.Sha512.hash chunkLaw_sha512_ref key cs

/-- crypto_kdf_hkdf_sha256_expand / _sha512_expand over the modelled C compression functions
    = RFC 5869 §2.3 -/
theorem hkdf_sha256_ref_expand (L : Nat) (ctx prk : Bytes) :
    hkdfExpand Driver.C04Ref.H256 L ctx prk =
      if L > 255 * 32 then .err
      else .ok ((C04.hkdfOkm Spec.Sha256.hash 64 prk ctx ((L + 32 - 1) / 32)).take L) :=
  C04.hkdf_expand_eq_rfc Driver.C04Ref.H256 Spec.Sha256.hash chunkLaw_sha256_ref
    (fun _ => sha256_digest_length _) (by decide) L ctx prk

theorem hkdf_sha512_ref_expand (L : Nat) (ctx prk : Bytes) :
    hkdfExpand Driver.C04Ref.H512 L ctx prk =
      if L > 255 * 64 then .err
      else .ok ((C04.hkdfOkm Spec.Sha512.hash 128 prk ctx ((L + 64 - 1) / 64)).take L) :=
  C04.hkdf_expand_eq_rfc Driver.C04Ref.H512 Spec.Sha512.hash chunkLaw_sha512_ref
    (fun _ => sha512_digest_length _) (by decide) L ctx prk

/-! ### non-vacuity: the hypotheses are satisfiable, and the C-shaped functions compute the
    published test vectors -/

example : Spec.Sha256.iv.size = 8 ∧ (Array.replicate 64 (0 : UInt32)).size = 64
    ∧ (Array.replicate 8 (7 : UInt32)).size = 8 := by decide
example : Spec.Sha512.iv.size = 8 ∧ (Array.replicate 80 (0 : UInt64)).size = 80 := by decide
example : (Spec.Blake2b.paramInit 64 0 [] []).size = 8 := b2_hI ..
/-- "abc" padded to one block: FIPS 180-4 example digest, computed by the model of the C code
    started from garbage scratch buffers -/
example : Spec.Sha256.digest (Sha256.SHA256_Transform Spec.Sha256.iv
      ([0x61, 0x62, 0x63, 0x80] ++ zeros 59 ++ [0x18]).toArray (Array.replicate 64 0xdeadbeef)
      (Array.replicate 8 0x55555555)).1
    = [0xba, 0x78, 0x16, 0xbf, 0x8f, 0x01, 0xcf, 0xea, 0x41, 0x41, 0x40, 0xde, 0x5d, 0xae, 0x22, 0x23,
       0xb0, 0x03, 0x61, 0xa3, 0x96, 0x17, 0x7a, 0x9c, 0xb4, 0x10, 0xff, 0x61, 0xf2, 0x00, 0x15, 0xad] := by
  decide +kernel
example : ([1, 2, 3, 4, 5, 6, 7, 8, 9, 10, 11] : Bytes).length < 2 ^ 64 := by decide
/-- the counter carry: 2^64 - 1 + 1 -/
example : Blake2b.blake2b_increment_counter #[0xFFFFFFFFFFFFFFFF, 0] 1 = #[0, 1] := by decide

end Sodium.C04Compress
