import SodiumModel.Proofs.Ge25519Ref10
import SodiumModel.Proofs.Ge25519Slide
import SodiumModel.Proofs.Ge25519TablesOK
import SodiumModel.Proofs.Ge25519Chains
/-
  C06 (group operations) — the edwards25519 group code of ed25519_ref10.c, modelled statement by statement in
  `Model/Ge25519Ref10.lean`, is correct.  Property theorems only; lemmas live in
  `Proofs/Ge25519Ref10.lean` (formulas in `ZMod p`, the curve-group hypothesis), `Proofs/Ge25519Recode.lean`
  (recoding, table lookups), `Proofs/Ge25519Group.lean` (scalar multiplications over an abstract group) and
  `Proofs/Ge25519Slide.lean` (`slide_vartime`).

  A. the point formulas are the RFC 8032 formulas (ring identities, no hypothesis but the representation);
  B. the signed radix-16 recoding and `slide_vartime` are digit expansions of the scalar;
  C. the constant-time table lookups select ±table[|b|-1];
  D. the three scalar multiplications compute n·P, n·B, a·A + b·B in ANY commutative group the formulas
     implement — and, given the group law of the curve as an explicit hypothesis (`CurveGroup`: a property
     of edwards25519, not of libsodium), so does the model over the specification field.
-/
open Sodium Sodium.Spec Sodium.Spec.F25519 Sodium.Model.Ge25519 Sodium.Ge25519P
namespace Sodium.C06Ge

/-! ## A. the formulas -/

/-- `q` is the cached form (Y+X, Y−X, Z, 2dT) of the extended point `Q` (entries compared mod p) -/
def IsCached (q : Cached Nat) (Q : Ed25519.Point) : Prop :=
  q.YplusX % p = F25519.add Q.Y Q.X ∧ q.YminusX % p = F25519.sub Q.Y Q.X ∧ q.Z % p = Q.Z % p ∧
  q.T2d % p = F25519.mul (F25519.mul 2 Ed25519.d) Q.T

/-- `q` is the precomputed form (y+x, y−x, 2dxy) of the point `Q` with Z = 1 (T = xy) -/
def IsPrecomp (q : Precomp Nat) (Q : Ed25519.Point) : Prop :=
  q.yplusx % p = F25519.add Q.Y Q.X ∧ q.yminusx % p = F25519.sub Q.Y Q.X ∧
  q.xy2d % p = F25519.mul (F25519.mul 2 Ed25519.d) Q.T ∧ Q.Z % p = 1

/-- same projective point, cross-multiplied: X₁Z₂ = X₂Z₁, Y₁Z₂ = Y₂Z₁ (this is `Ed25519.pointEq`) -/
def ProjEq (P Q : Ed25519.Point) : Prop :=
  F25519.mul P.X Q.Z = F25519.mul Q.X P.Z ∧ F25519.mul P.Y Q.Z = F25519.mul Q.Y P.Z

/-- same extended point: additionally T₁Z₂ = T₂Z₁ -/
def ExtEq (P Q : Ed25519.Point) : Prop := ProjEq P Q ∧ F25519.mul P.T Q.Z = F25519.mul Q.T P.Z

/-- a consistent extended point: T·Z = X·Y -/
def ExtOK (P : Ed25519.Point) : Prop := F25519.mul P.T P.Z = F25519.mul P.X P.Y

theorem isCached_sc {q : Cached Nat} {Q : Ed25519.Point} (h : IsCached q Q) : ScC 1 Q q := by
  obtain ⟨h1, h2, h3, h4⟩ := h
  have e1 := congrArg (Nat.cast : Nat → K) h1
  have e2 := congrArg (Nat.cast : Nat → K) h2
  have e3 := congrArg (Nat.cast : Nat → K) h3
  have e4 := congrArg (Nat.cast : Nat → K) h4
  simp only [c_mod, ScalarmultLow.c_add, ScalarmultLow.c_sub, ScalarmultLow.c_mul, cast_d, Nat.cast_ofNat] at e1 e2 e3 e4
  exact ⟨by rw [e1]; ring, by rw [e2]; ring, by rw [e3]; ring, by rw [e4]; ring⟩

theorem isPrecomp_sc {q : Precomp Nat} {Q : Ed25519.Point} (h : IsPrecomp q Q) : ScP Q q := by
  obtain ⟨h1, h2, h3, h4⟩ := h
  have e1 := congrArg (Nat.cast : Nat → K) h1
  have e2 := congrArg (Nat.cast : Nat → K) h2
  have e3 := congrArg (Nat.cast : Nat → K) h3
  have e4 := congrArg (Nat.cast : Nat → K) h4
  simp only [c_mod, ScalarmultLow.c_add, ScalarmultLow.c_sub, ScalarmultLow.c_mul, cast_d, Nat.cast_ofNat, Nat.cast_one] at e1 e2 e3 e4
  exact ⟨e1, e2, e3, e4⟩

theorem extEq_of_sc {l : K} {P : Ed25519.Point} {p : P3 Nat} (h : Sc l P p) : ExtEq (toPoint p) P :=
  let ⟨a, b, c⟩ := sc_cross h; ⟨⟨a, b⟩, c⟩

/-- every `ge25519_p1p1_to_p3` output is a consistent extended point (T·Z = X·Y), whatever the input -/
theorem p1p1_to_p3_extended (r : P1p1 Nat) : ExtOK (toPoint (ge25519_p1p1_to_p3 specGe r)) := by
  simp only [ExtOK, toPoint, ge25519_p1p1_to_p3, mul_eq_iff, s_mul]; ring

/-- `ge25519_p1p1_to_p2` computes the X, Y, Z of `ge25519_p1p1_to_p3` -/
theorem p1p1_to_p2_eq (r : P1p1 Nat) :
    ge25519_p1p1_to_p2 specGe r = ge25519_p3_to_p2 (ge25519_p1p1_to_p3 specGe r) := rfl

/-- `ge25519_p3_to_cached` produces the cached form of its argument -/
theorem p3_to_cached_correct (pt : P3 Nat) : IsCached (ge25519_p3_to_cached specGe pt) (toPoint pt) := by
  have h := scC_of_sc (sc_self pt)
  obtain ⟨h1, h2, h3, h4⟩ := h
  have hp : 0 < p := by decide
  refine ⟨?_, ?_, rfl, ?_⟩
  · show _ % p = (_ + _) % p; rw [modEq_iff]; push_cast; simpa using h1
  · rw [← Nat.mod_eq_of_lt (show F25519.sub (toPoint pt).Y (toPoint pt).X < p from Nat.mod_lt _ hp), modEq_iff,
      ScalarmultLow.c_sub]; simpa using h2
  · rw [← Nat.mod_eq_of_lt (show F25519.mul (F25519.mul 2 Ed25519.d) (toPoint pt).T < p from Nat.mod_lt _ hp),
      modEq_iff, ScalarmultLow.c_mul, ScalarmultLow.c_mul, cast_d, Nat.cast_ofNat]; simpa using h4

/-- `ge25519_add_cached` followed by the conversion is the RFC 8032 addition of the represented points -/
theorem add_cached_correct (p : P3 Nat) (q : Cached Nat) (Q : Ed25519.Point) (hq : IsCached q Q) :
    ExtEq (toPoint (ge25519_p1p1_to_p3 specGe (ge25519_add_cached specGe p q))) (Ed25519.add (toPoint p) Q) :=
  extEq_of_sc (sc_add_cached (sc_self p) (isCached_sc hq))

/-- `ge25519_sub_cached` followed by the conversion is the RFC 8032 subtraction -/
theorem sub_cached_correct (p : P3 Nat) (q : Cached Nat) (Q : Ed25519.Point) (hq : IsCached q Q) :
    ExtEq (toPoint (ge25519_p1p1_to_p3 specGe (ge25519_sub_cached specGe p q))) (Ed25519.sub (toPoint p) Q) :=
  extEq_of_sc (sc_sub_cached (sc_self p) (isCached_sc hq))

/-- `ge25519_add_precomp` ("madd") is the RFC 8032 addition of a point with Z = 1 -/
theorem madd_correct (p : P3 Nat) (q : Precomp Nat) (Q : Ed25519.Point) (hq : IsPrecomp q Q) :
    ExtEq (toPoint (ge25519_p1p1_to_p3 specGe (ge25519_add_precomp specGe p q))) (Ed25519.add (toPoint p) Q) :=
  extEq_of_sc (sc_add_precomp (sc_self p) (isPrecomp_sc hq))

/-- `ge25519_sub_precomp` ("msub") -/
theorem msub_correct (p : P3 Nat) (q : Precomp Nat) (Q : Ed25519.Point) (hq : IsPrecomp q Q) :
    ExtEq (toPoint (ge25519_p1p1_to_p3 specGe (ge25519_sub_precomp specGe p q))) (Ed25519.sub (toPoint p) Q) :=
  extEq_of_sc (sc_sub_precomp (sc_self p) (isPrecomp_sc hq))

/-- `ge25519_p2_dbl` followed by the conversion is the RFC 8032 doubling (which does not read T) -/
theorem p2_dbl_correct (p : P2 Nat) :
    ExtEq (toPoint (ge25519_p1p1_to_p3 specGe (ge25519_p2_dbl specGe p))) (Ed25519.double (p2Point p)) :=
  extEq_of_sc (sc_p2_dbl (sc2_self p))

theorem p3_dbl_correct (p : P3 Nat) :
    ExtEq (toPoint (ge25519_p1p1_to_p3 specGe (ge25519_p3_dbl specGe p))) (Ed25519.double (toPoint p)) :=
  extEq_of_sc (sc_p3_dbl (sc_self p))

/-- the code's doubling is, coordinate by coordinate, MINUS the RFC formulas (the same projective point):
    a sign that `ExtEq` hides.  All other formulas agree with the RFC coordinate by coordinate. -/
theorem p2_dbl_negated (p : P2 Nat) :
    Sc (-1) (Ed25519.double (p2Point p)) (ge25519_p1p1_to_p3 specGe (ge25519_p2_dbl specGe p)) := by
  have := sc_p2_dbl (sc2_self p); simpa [Sc11] using this

theorem add_cached_coordinatewise (p : P3 Nat) (q : Cached Nat) (Q : Ed25519.Point) (hq : IsCached q Q) :
    Sc 1 (Ed25519.add (toPoint p) Q) (ge25519_p1p1_to_p3 specGe (ge25519_add_cached specGe p q)) := by
  have := sc_add_cached (sc_self p) (isCached_sc hq); simpa [Sc11] using this

theorem p3_add_correct (p q : P3 Nat) :
    ExtEq (toPoint (ge25519_p3_add specGe p q)) (Ed25519.add (toPoint p) (toPoint q)) :=
  extEq_of_sc (sc_p3_add (sc_self p) (sc_self q))

theorem p3_sub_correct (p q : P3 Nat) :
    ExtEq (toPoint (ge25519_p3_sub specGe p q)) (Ed25519.sub (toPoint p) (toPoint q)) :=
  extEq_of_sc (sc_p3_sub (sc_self p) (sc_self q))

/-- the neutral elements are the identity (0, 1) in each representation -/
theorem neutral_elements :
    toPoint (ge25519_p3_0 specGe) = ⟨0, 1, 1, 0⟩ ∧ p2Point (ge25519_p2_0 specGe) = ⟨0, 1, 1, 0⟩ ∧
    IsCached (ge25519_cached_0 specGe) Ed25519.identity ∧ IsPrecomp (ge25519_precomp_0 specGe) Ed25519.identity := by
  refine ⟨rfl, rfl, ?_, ?_⟩
  · unfold IsCached; decide +kernel
  · unfold IsPrecomp; decide +kernel

/-- non-vacuity of the representation hypotheses: the base point in cached form -/
example : IsCached (ge25519_p3_to_cached specGe ⟨Ed25519.basePoint.X, Ed25519.basePoint.Y, 1, Ed25519.basePoint.T⟩)
    Ed25519.basePoint := p3_to_cached_correct _

/-! ## B. recoding -/

/-- The signed radix-16 recoding of `ge25519_scalarmult` / `ge25519_scalarmult_base`: 64 digits with
    Σ e[i]·16^i = a; e[0..62] ∈ [-8, 7]; the TOP digit is e[63] = (a[31] >> 4) + carry with carry ∈ {0, 1},
    i.e. it lies in [0, 16] and is NOT reduced. -/
theorem recode_correct (a : Bytes) (ha : a.length = 32) :
    (recode a).length = 64 ∧ digitsVal 16 (recode a) = le a ∧
    (∀ i, i < 63 → -8 ≤ ((recode a).getD i 0).toInt ∧ ((recode a).getD i 0).toInt ≤ 7) ∧
    (∃ c : Int, (c = 0 ∨ c = 1) ∧ ((recode a).getD 63 0).toInt = ((a.getD 31 0).toNat / 16 : Nat) + c) :=
  recode_spec a ha

/-- under the documented precondition `a[31] <= 127` every digit is in [-8, 8] ("each e[i] is between -8 and 8") -/
theorem recode_digits_in_range (a : Bytes) (ha : a.length = 32) (h31 : (a.getD 31 0).toNat ≤ 127) :
    ∀ i, i < 64 → -8 ≤ ((recode a).getD i 0).toInt ∧ ((recode a).getD i 0).toInt ≤ 8 := by
  obtain ⟨_, _, h3, c, hc, h4⟩ := recode_spec a ha
  intro i hi
  by_cases h : i < 63
  · have := h3 i h; omega
  · have : i = 63 := by omega
    subst this; rw [h4]; omega

/-- DEVIATION outside the precondition: with bit 255 set the top digit can exceed 8 … -/
theorem recode_top_digit_out_of_range :
    ((recode (List.replicate 31 0 ++ [0x90])).getD 63 0).toInt = 9 ∧
    ((recode (List.replicate 32 0xff)).getD 63 0).toInt = 16 := by decide +kernel

/-- … and such a digit is silently DROPPED by the table lookup (`eff b = 0` for |b| > 8, see C and D): for the
    scalar 2^255 + 2^252 the model of `ge25519_scalarmult` returns the neutral element, whereas [n]B ≠ 0.
    (Every caller in libsodium clears bit 255 first, so the library's API is not affected.) -/
theorem scalarmult_drops_top_digit :
    ge25519_p3_tobytes specGe (ge25519_scalarmult specGe (List.replicate 31 0 ++ [0x90])
      ⟨Ed25519.basePoint.X, Ed25519.basePoint.Y, Ed25519.basePoint.Z, Ed25519.basePoint.T⟩) = 1 :: List.replicate 31 0 ∧
    Ed25519.encode (Ed25519.scalarMult (le (List.replicate 31 0 ++ [0x90])) Ed25519.basePoint) ≠ 1 :: List.replicate 31 0 := by
  decide +kernel

/-- `slide_vartime`: 256 digits, each zero or odd with |digit| ≤ 15, and Σ r[i]·2^i = a − 2^256·t, where t is the
    number of carries that ran off the end of the array (in particular Σ r[i]·2^i ≡ a mod 2^256) -/
theorem slide_vartime_correct (a : Bytes) (ha : a.length = 32) :
    (slide_vartime a).length = 256 ∧ (∀ j, SlideDigit ((slide_vartime a).getD j 0)) ∧
    ∃ t : Nat, slideVal (slide_vartime a) + 2 ^ 256 * t = le a :=
  slide_vartime_spec a ha

/-- DEVIATION: for scalars close to 2^256 a carry IS lost: the digits of 2^256 − 2^251 (bits 251..255 set) are
    r[251] = −1 and zeros, of value −2^251 (t = 1).  (The verifier only passes scalars below the group order
    L < 2^253; exhaustive search over the top 16 bits finds no loss below 2^255.) -/
theorem slide_vartime_loses_carry :
    slide_vartime (List.replicate 31 0 ++ [0xf8]) = List.replicate 251 0 ++ [-1, 0, 0, 0, 0] := by decide +kernel

/-! ## C. table lookups -/

/-- `ge25519_cmov8_cached(t, cached, b)` for EVERY `signed char b`: the entry `cached[|b| - 1]` (the neutral element
    for b = 0, and ALSO for |b| > 8), with (Y+X, Y−X) swapped and 2dT negated iff b < 0.  Only needs
    `fe25519_cmov(f, g, 0) = f` and `fe25519_cmov(f, g, 1) = g`. -/
theorem cmov8_cached_lookup {F : Type} (ops : GeFieldOps F) (hc : CmovOK ops) (tbl : List (Cached F)) (b : Int8) :
    ge25519_cmov8_cached ops tbl b =
      if b < 0 then negC ops (selC ops tbl b.toInt.natAbs) else selC ops tbl b.toInt.natAbs :=
  cmov8_cached_eq hc tbl b

/-- `ge25519_cmov8` (and `ge25519_cmov8_base`, which applies it to row `pos` of the base table) -/
theorem cmov8_lookup {F : Type} (ops : GeFieldOps F) (hc : CmovOK ops) (tbl : List (Precomp F)) (b : Int8) :
    ge25519_cmov8 ops tbl b =
      if b < 0 then negP ops (selP ops tbl b.toInt.natAbs) else selP ops tbl b.toInt.natAbs :=
  cmov8_eq hc tbl b

/-- in a group: given `table[i] = (i+1)·P`, the lookup returns `b·P` for every b ∈ [-8, 8] … -/
theorem cmov8_cached_multiple {F G : Type} [AddCommGroup G] {ops : GeFieldOps F} (I : GeImpl ops G)
    {tbl : List (Cached F)} {g : G} (ht : CachedTable I tbl g) (b : Int8) (hb : -8 ≤ b.toInt ∧ b.toInt ≤ 8) :
    I.Rc (ge25519_cmov8_cached ops tbl b) (b.toInt • g) := by
  have := cmov8_cached_group I ht b
  rwa [show eff b = b.toInt by unfold eff; rw [if_pos (by omega)]] at this

/-- … and the neutral element for every other b (no error, no wrap-around: the digit is ignored) -/
theorem cmov8_cached_out_of_range {F G : Type} [AddCommGroup G] {ops : GeFieldOps F} (I : GeImpl ops G)
    {tbl : List (Cached F)} {g : G} (ht : CachedTable I tbl g) (b : Int8) (hb : 8 < b.toInt.natAbs) :
    I.Rc (ge25519_cmov8_cached ops tbl b) 0 := by
  have := cmov8_cached_group I ht b
  rwa [show eff b = 0 by unfold eff; rw [if_neg (by omega)], zero_smul] at this

theorem cmov8_multiple {F G : Type} [AddCommGroup G] {ops : GeFieldOps F} (I : GeImpl ops G)
    {tbl : List (Precomp F)} {g : G} (ht : PrecompTable I tbl g) (b : Int8) (hb : -8 ≤ b.toInt ∧ b.toInt ≤ 8) :
    I.Rp (ge25519_cmov8 ops tbl b) (b.toInt • g) := by
  have := cmov8_group I ht b
  rwa [show eff b = b.toInt by unfold eff; rw [if_pos (by omega)]] at this

/-- the specification field satisfies the `cmov` contract -/
example : CmovOK specGe := ⟨fun _ _ => rfl, fun _ _ => rfl⟩

/-! ## D. scalar multiplication over an abstract commutative group -/

/-- the sum the code really computes equals the scalar when all digits are in [-8, 8] -/
theorem eff_sum_eq (a : Bytes) (ha : a.length = 32) (h31 : (a.getD 31 0).toNat ≤ 127) :
    sumTo (fun j => eff ((recode a).getD j 0)) 16 64 = le a := by
  obtain ⟨hlen, hval, _⟩ := recode_spec a ha
  rw [← hval, digitsVal_eq_sumTo, hlen]
  apply sumTo_congr
  intro j hj
  have := recode_digits_in_range a ha h31 j hj
  unfold eff; rw [if_pos (by omega)]

/-- `ge25519_scalarmult(h, a, p)`: if the formulas implement a commutative group `G` (`GeImpl`), `p` represents
    `g` and `a[31] ≤ 127`, the result represents `a·g` -/
theorem scalarmult_abstract {F G : Type} [AddCommGroup G] {ops : GeFieldOps F} (I : GeImpl ops G)
    {p : P3 F} {g : G} (hp : I.R3 p g) (a : Bytes) (ha : a.length = 32) (h31 : (a.getD 31 0).toNat ≤ 127) :
    I.R3 (ge25519_scalarmult ops a p) ((le a : Int) • g) := by
  have := scalarmult_group I hp a
  rwa [eff_sum_eq a ha h31] at this

/-- … and for EVERY 32-byte string what it computes is Σ eff(e[i])·16^i: digits outside [-8, 8] count as 0 -/
theorem scalarmult_abstract_general {F G : Type} [AddCommGroup G] {ops : GeFieldOps F} (I : GeImpl ops G)
    {p : P3 F} {g : G} (hp : I.R3 p g) (a : Bytes) :
    I.R3 (ge25519_scalarmult ops a p) (sumTo (fun j => eff ((recode a).getD j 0)) 16 64 • g) :=
  scalarmult_group I hp a

/-- `ge25519_scalarmult_base(h, a)`: given that row `pos` of the base table holds (j+1)·256^pos·B (`BaseTable`) -/
theorem scalarmult_base_abstract {F G : Type} [AddCommGroup G] {ops : GeFieldOps F} (I : GeImpl ops G)
    {B : G} (hB : BaseTable I B) (a : Bytes) (ha : a.length = 32) (h31 : (a.getD 31 0).toNat ≤ 127) :
    I.R3 (ge25519_scalarmult_base ops a) ((le a : Int) • B) := by
  have := scalarmult_base_group I hB a
  rwa [eff_sum_eq a ha h31] at this

/-- `ge25519_double_scalarmult_vartime(r, a, A, b)`: given that `Bi[j]` holds (2j+1)·B, the result represents
    slideVal(a)·A + slideVal(b)·B, for ALL byte strings a, b … -/
theorem double_scalarmult_abstract {F G : Type} [AddCommGroup G] {ops : GeFieldOps F} (I : GeImpl ops G)
    {A : P3 F} {gA gB : G} (hA : I.R3 A gA) (hBi : OddPrecompTable I (Bi ops) gB) (a b : Bytes) :
    I.R2 (ge25519_double_scalarmult_vartime ops a A b)
      (slideVal (slide_vartime a) • gA + slideVal (slide_vartime b) • gB) :=
  double_scalarmult_group I hA hBi a b (slide_vartime_digits a) (slide_vartime_digits b)

/-- … hence a·A + b·B whenever no carry is lost in `slide_vartime` (see `slide_vartime_correct`: slideVal = a − 2^256·t) -/
theorem double_scalarmult_abstract_exact {F G : Type} [AddCommGroup G] {ops : GeFieldOps F} (I : GeImpl ops G)
    {A : P3 F} {gA gB : G} (hA : I.R3 A gA) (hBi : OddPrecompTable I (Bi ops) gB) (a b : Bytes)
    (ha : slideVal (slide_vartime a) = le a) (hb : slideVal (slide_vartime b) = le b) :
    I.R2 (ge25519_double_scalarmult_vartime ops a A b) ((le a : Int) • gA + (le b : Int) • gB) := by
  have := double_scalarmult_abstract I hA hBi a b
  rwa [ha, hb] at this

/-! ### end to end over the specification field, given the group law of the curve -/

/-- `ge25519_scalarmult` over the specification field computes [a]P, GIVEN the curve hypothesis `CurveGroup`
    (the RFC 8032 formulas compute a commutative group law on representatives: a property of edwards25519) -/
theorem scalarmult_spec {G : Type} [AddCommGroup G] (C : CurveGroup G) {p : P3 Nat} {g : G}
    (hp : C.Rep (toPoint p) g) (a : Bytes) (ha : a.length = 32) (h31 : (a.getD 31 0).toNat ≤ 127) :
    C.Rep (toPoint (ge25519_scalarmult specGe a p)) ((le a : Int) • g) :=
  rep_of_R3 C (scalarmult_abstract (specImpl C) (R3_of_rep C hp) a ha h31)

/-- `ge25519_scalarmult_base` over the specification field computes [a]B, given `CurveGroup` and that the
    generated base table represents the multiples (j+1)·256^pos·B -/
theorem scalarmult_base_spec {G : Type} [AddCommGroup G] (C : CurveGroup G) {B : G}
    (hB : BaseTable (specImpl C) B) (a : Bytes) (ha : a.length = 32) (h31 : (a.getD 31 0).toNat ≤ 127) :
    C.Rep (toPoint (ge25519_scalarmult_base specGe a)) ((le a : Int) • B) :=
  rep_of_R3 C (scalarmult_base_abstract (specImpl C) hB a ha h31)

/-- `ge25519_double_scalarmult_vartime` over the specification field: some representative of
    slideVal(a)·A + slideVal(b)·B, up to a unit factor on (X, Y, Z) -/
theorem double_scalarmult_spec {G : Type} [AddCommGroup G] (C : CurveGroup G) {A : P3 Nat} {gA gB : G}
    (hA : C.Rep (toPoint A) gA) (hBi : OddPrecompTable (specImpl C) (Bi specGe) gB) (a b : Bytes) :
    ∃ (P : Ed25519.Point) (l : K), IsUnit l ∧
      C.Rep P (slideVal (slide_vartime a) • gA + slideVal (slide_vartime b) • gB) ∧
      Sc2 l P (ge25519_double_scalarmult_vartime specGe a A b) :=
  double_scalarmult_abstract (specImpl C) (R3_of_rep C hA) hBi a b

/-- The GENERATED tables are right: under `CurveGroup` with `B` the element represented by the RFC 8032 base point,
    `base[pos][j]` represents (j+1)·256^pos·B and `Bi[j]` represents (2j+1)·B.  (Each of the 264 entries is
    recomputed with the RFC formulas, normalised and compared numerically by the kernel.) -/
theorem base_tables_correct {G : Type} [AddCommGroup G] (C : CurveGroup G) {B : G} (hB : C.Rep Ed25519.basePoint B) :
    BaseTable (specImpl C) B ∧ OddPrecompTable (specImpl C) (Bi specGe) B :=
  ⟨baseTable_ok C hB, biTable_ok C hB⟩

/-- `ge25519_scalarmult_base` over the specification field and the generated table computes [a]B — the only
    hypothesis left is the group law of the curve -/
theorem scalarmult_base_correct {G : Type} [AddCommGroup G] (C : CurveGroup G) {B : G}
    (hB : C.Rep Ed25519.basePoint B) (a : Bytes) (ha : a.length = 32) (h31 : (a.getD 31 0).toNat ≤ 127) :
    C.Rep (toPoint (ge25519_scalarmult_base specGe a)) ((le a : Int) • B) :=
  scalarmult_base_spec C (baseTable_ok C hB) a ha h31

/-- `ge25519_double_scalarmult_vartime` over the specification field and the generated table `Bi` -/
theorem double_scalarmult_correct {G : Type} [AddCommGroup G] (C : CurveGroup G) {A : P3 Nat} {gA B : G}
    (hA : C.Rep (toPoint A) gA) (hB : C.Rep Ed25519.basePoint B) (a b : Bytes) :
    ∃ (P : Ed25519.Point) (l : K), IsUnit l ∧
      C.Rep P (slideVal (slide_vartime a) • gA + slideVal (slide_vartime b) • B) ∧
      Sc2 l P (ge25519_double_scalarmult_vartime specGe a A b) :=
  double_scalarmult_spec C hA (biTable_ok C hB) a b

/-- `ge25519_mul_l` multiplies by the group order L in any group the formulas implement … -/
theorem mul_l_abstract {F G : Type} [AddCommGroup G] {ops : GeFieldOps F} (I : GeImpl ops G)
    {p : P3 F} {g : G} (hp : I.R3 p g) : I.R3 (ge25519_mul_l ops p) ((Ed25519.L : Int) • g) :=
  mul_l_group I hp

/-- … so `ge25519_is_on_main_subgroup(p)` tests whether the X coordinate of (a representative of) L·P vanishes -/
theorem is_on_main_subgroup_spec {G : Type} [AddCommGroup G] (C : CurveGroup G) {q : P3 Nat} {g : G}
    (hq : C.Rep (toPoint q) g) :
    C.Rep (toPoint (ge25519_mul_l specGe q)) ((Ed25519.L : Int) • g) ∧
    ge25519_is_on_main_subgroup specGe q = if F25519.isZero (ge25519_mul_l specGe q).X then 1 else 0 :=
  ⟨rep_of_R3 C (mul_l_abstract (specImpl C) (R3_of_rep C hq)), by unfold ge25519_is_on_main_subgroup; exact sg_iszero _⟩

/-! ## E. field chains and predicates -/

/-- the addition chain of `fe25519_invert` over the specification field is the specification's inverse z^(p-2) -/
theorem fe25519_invert_correct (z : Nat) : fe25519_invert specGe z = F25519.inv z := invert_eq z

/-- the addition chain of `fe25519_pow22523` is z^((p-5)/8) = z^(2^252 - 3) -/
theorem fe25519_pow22523_correct (z : Nat) : fe25519_pow22523 specGe z = F25519.pow z ((p - 5) / 8) := pow22523_eq z

/-- `ge25519_has_small_order` is the formula `hasSmallOrderC` of the sign/verify specification (`Model/SignOps.lean`),
    including its quirk (the last disjunct uses the PROJECTIVE −X, not −x) -/
theorem has_small_order_correct (q : P3 Nat) :
    ge25519_has_small_order specGe q = Model.Sign.hasSmallOrderC (toPoint q) := has_small_order_eq q

/-- `ge25519_is_on_curve` tests exactly (−X² + Y²)·Z² = Z⁴ + d·X²·Y² (mod p) … -/
theorem is_on_curve_correct (q : P3 Nat) :
    ge25519_is_on_curve specGe q =
      if F25519.mul (F25519.sub (sqr q.Y) (sqr q.X)) (sqr q.Z) ==
         F25519.add (F25519.mul (F25519.mul (sqr q.X) (sqr q.Y)) Ed25519.d) (sqr (sqr q.Z)) then 1 else 0 :=
  is_on_curve_eq q

/-- … which is WEAKER than `Spec.Ed25519.isOnCurve` (no T·Z = X·Y test, no Z ≠ 0 test): the all-zero quadruple
    passes.  (libsodium only calls it on the output of `ge25519_frombytes`, where Z = 1 and T = X·Y.) -/
theorem is_on_curve_weaker_than_spec :
    ge25519_is_on_curve specGe ⟨0, 0, 0, 0⟩ = 1 ∧ Ed25519.isOnCurve ⟨0, 0, 0, 0⟩ = false := by decide +kernel

/-- the hypothesis structures are consistent (degenerate instance: the trivial group; the intended instance is
    the group of points of edwards25519) -/
example : CurveGroup PUnit where
  Rep := fun _ _ => True
  rep_identity := trivial
  rep_add := fun _ _ => trivial
  rep_double := fun _ => trivial
  rep_neg := fun _ => trivial
  rep_scale := fun _ _ _ _ _ => trivial

end Sodium.C06Ge
