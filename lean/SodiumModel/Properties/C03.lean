import SodiumModel.Model.Stream
import SodiumModel.Spec.Chacha
import SodiumModel.Proofs.Stream
/-
  C03 — stream ciphers generate the specified keystream at every length and offset.
  The 64-byte block functions are parameters (their equality with RFC 8439 / the Salsa20
  specification is checked by the correspondence run against Spec/Chacha.lean, Spec/Salsa.lean);
  everything about counters, offsets, carries, tails and the IETF guard is proved here.

  FINDING (fixed in the C code, see `ietf_guard_prefix_needed`): the guard of
  `crypto_stream_chacha20_ietf_xor_ic` used to be only
  `ic > 2^32 - (mlen+63)/64` in wrapping 64-bit arithmetic, so for mlen > 2^38 = 64·2^32
  (`crypto_stream_chacha20_ietf_MESSAGEBYTES_MAX`) the subtraction underflowed and the guard never
  fired; with the added `mlen > MESSAGEBYTES_MAX ||` disjunct `ietf_guard_iff` / `ietf_no_wrap` hold
  for every 64-bit length.
-/
open Sodium Sodium.Model
namespace Sodium.C03

/-- the two 32-bit counter words of block number `c` (taken mod 2^64) -/
def ctrWords (c : Nat) : UInt32 × UInt32 :=
  (UInt32.ofNat (c % 2 ^ 32), UInt32.ofNat (c / 2 ^ 32 % 2 ^ 32))

/-- specification keystream of a ChaCha-style block function: block number i uses counter i mod 2^64 -/
def chachaBlockAt (B : BlockFn) (i : Nat) : Bytes := B (ctrWords (i % 2 ^ 64)).1 (ctrWords (i % 2 ^ 64)).2

def keystream (B : BlockFn) (start len : Nat) : Bytes :=
  Spec.Chacha.streamFrom (chachaBlockAt B) start len

theorem chachaBlockAt_length (B : BlockFn) (hB : ∀ a b, (B a b).length = 64) (i : Nat) :
    (chachaBlockAt B i).length = 64 := hB _ _

/-- XOR form, any message length, any initial 64-bit block counter (including across the 2^32
    carry into the high word and the wrap at 2^64): output = message XOR keystream at byte offset 64·ic -/
theorem chacha_xor_ic_eq (B : BlockFn) (hB : ∀ a b, (B a b).length = 64) (ic : UInt64) (m : Bytes) :
    chacha_xor_ic B ic m = xorBytes m (keystream B (64 * ic.toNat) m.length) := by
  have hic := ic.toNat_lt
  have hc : ic.toNat % 2 ^ 64 = ic.toUInt32.toNat + 2 ^ 32 * (ic >>> 32).toUInt32.toNat := by
    simp only [UInt64.toNat_toUInt32, UInt64.toNat_shiftRight, Nat.shiftRight_eq_div_pow]
    have : (32 : UInt64).toNat % 64 = 32 := by decide
    rw [this]; omega
  rw [chacha_xor_ic, chachaLoop_eq_specLoop B (chachaBlockAt B) (fun _ => rfl) _ _ _ ic.toNat m hc,
    specLoop_eq_stream (chachaBlockAt B) (chachaBlockAt_length B hB) _ _ _ (by omega)]
  rfl

/-- the keystream function is the XOR form applied to zeros, from counter 0 -/
theorem chacha_stream_eq (B : BlockFn) (hB : ∀ a b, (B a b).length = 64) (n : Nat) :
    chacha_stream B n = keystream B 0 n := by
  have hl : (zeros n).length = n := by simp [zeros]
  have hs := streamFrom_length (chachaBlockAt B) (chachaBlockAt_length B hB) 0 n
  rw [chacha_stream, chachaLoop_eq_specLoop B (chachaBlockAt B) (fun _ => rfl) _ _ _ 0 _ (by decide),
    specLoop_eq_stream (chachaBlockAt B) (chachaBlockAt_length B hB) _ _ _ (by rw [hl]; omega), hl, xorBytes_zeros_left,
    keystream, List.take_of_length_le (by rw [Nat.mul_zero] at hs ⊢; omega)]

/-- starting at block counter `ic` yields the same bytes as skipping 64·ic bytes from counter 0 -/
theorem chacha_offset_law (B : BlockFn) (hB : ∀ a b, (B a b).length = 64) (ic : Nat) (hic : ic < 2 ^ 64)
    (m : Bytes) :
    chacha_xor_ic B (UInt64.ofNat ic) m = (chacha_xor_ic B 0 (zeros (64 * ic) ++ m)).drop (64 * ic) := by
  have hl : (zeros (64 * ic)).length = 64 * ic := by simp [zeros]
  have h0 : (UInt64.ofNat ic).toNat = ic := by
    rw [UInt64.toNat_ofNat']; exact Nat.mod_eq_of_lt hic
  have hz : (0 : UInt64).toNat = 0 := rfl
  rw [chacha_xor_ic_eq B hB, chacha_xor_ic_eq B hB, h0, hz, xorBytes_drop, List.length_append, hl,
    Nat.mul_zero, keystream, keystream, streamFrom_drop (chachaBlockAt B) (chachaBlockAt_length B hB),
    List.drop_left' hl]

/-! #### the IETF guard -/

/-- the IETF guard, in the 64-bit arithmetic of the C expression, is exactly "the request would run
    past block 2^32" — for every counter and every 64-bit message length -/
theorem ietf_guard_iff (ic : UInt32) (mlen : UInt64) :
    ietfGuardFails ic mlen = true ↔ 2 ^ 32 < ic.toNat + (mlen.toNat + 63) / 64 :=
  ietfGuardFails_spec ic mlen

/-- when the guard passes, every block uses counter ic + i < 2^32 with the nonce word untouched:
    the 32-bit counter never wraps silently -/
theorem ietf_no_wrap (Bi : BlockFn) (hB : ∀ a b, (Bi a b).length = 64) (n0 ic : UInt32) (m : Bytes)
    (hlen : m.length < 2 ^ 64) :
    chacha_ietf_xor_ic Bi n0 ic m =
      if 2 ^ 32 < ic.toNat + (m.length + 63) / 64 then .misuse
      else .ok (xorBytes m (Spec.Chacha.streamFrom (fun i => Bi (UInt32.ofNat i) n0) (64 * ic.toNat) m.length)) := by
  have hml : (UInt64.ofNat m.length).toNat = m.length := by
    rw [UInt64.toNat_ofNat']; exact Nat.mod_eq_of_lt hlen
  have hg := ietf_guard_iff ic (UInt64.ofNat m.length)
  rw [hml] at hg
  rw [chacha_ietf_xor_ic]
  by_cases hw : 2 ^ 32 < ic.toNat + (m.length + 63) / 64
  · rw [if_pos (hg.mpr hw), if_pos hw]
  · have hgf : ¬ ietfGuardFails ic (UInt64.ofNat m.length) = true := fun e => hw (hg.mp e)
    rw [if_neg hgf, if_neg hw]
    congr 1
    exact ietf_loop_eq Bi hB n0 ic m (by omega)

/-- the guard expression as it was before the C03 fix (no `mlen > MESSAGEBYTES_MAX` disjunct) -/
def ietfGuardOld (ic : UInt32) (mlen : UInt64) : Bool :=
  ic.toUInt64 > ((64 : UInt64) * ((1 : UInt64) <<< 32)) / 64 - (mlen + 63) / 64

/-- why the first disjunct of the guard is needed: with `ic = 0`, `mlen = 2^38 + 1` the request needs
    2^32 + 1 blocks, but `2^32 − (mlen + 63)/64` underflows in `unsigned long long` and the old
    expression does not fire -/
theorem ietf_guard_prefix_needed : ietfGuardOld 0 (2 ^ 38 + 1) = false := by decide

/-! #### Salsa20 -/

/-- the byte-wise Salsa20 counter increment is +1 modulo 2^64 -/
theorem salsa_ctr_inc (ctr : Bytes) (h : ctr.length = 8) :
    (salsaCtrInc 1 ctr).length = 8 ∧ le (salsaCtrInc 1 ctr) = (le ctr + 1) % 2 ^ 64 :=
  ⟨by rw [salsaCtrInc_length, h], salsaCtrInc_one_le ctr h⟩

/-- Salsa20 XOR form: block number i (from ic, mod 2^64) is `S` of the little-endian counter bytes -/
theorem salsa_xor_ic_eq (S : SalsaBlockFn) (hS : ∀ c, (S c).length = 64) (ic : UInt64) (m : Bytes) :
    salsa_xor_ic S ic m =
      xorBytes m (Spec.Chacha.streamFrom (fun i => S (toLE 8 (i % 2 ^ 64))) (64 * ic.toNat) m.length) := by
  have hic : ic.toNat = ic.toNat % 2 ^ 64 := (Nat.mod_eq_of_lt ic.toNat_lt).symm
  rw [salsa_xor_ic, salsaCtrInit, hic, salsaLoop_eq_specLoop, ← hic,
    specLoop_eq_stream _ (fun _ => hS _) _ _ _ (by omega)]

theorem salsa_stream_eq (S : SalsaBlockFn) (hS : ∀ c, (S c).length = 64) (n : Nat) :
    salsa_stream S n = Spec.Chacha.streamFrom (fun i => S (toLE 8 (i % 2 ^ 64))) 0 n := by
  have hl : (zeros n).length = n := by simp [zeros]
  have hs := streamFrom_length (fun i => S (toLE 8 (i % 2 ^ 64))) (fun _ => hS _) 0 n
  rw [salsa_stream, zeros8_eq, salsaLoop_eq_specLoop,
    specLoop_eq_stream _ (fun _ => hS _) _ _ _ (by rw [hl]; omega), hl, xorBytes_zeros_left,
    List.take_of_length_le (by rw [Nat.mul_zero] at hs ⊢; omega)]

/-- output length equals message length in every form -/
theorem chacha_xor_ic_length (B : BlockFn) (hB : ∀ a b, (B a b).length = 64) (ic : UInt64) (m : Bytes) :
    (chacha_xor_ic B ic m).length = m.length := by
  rw [chacha_xor_ic_eq B hB, xorBytes_length, keystream, streamFrom_length (chachaBlockAt B) (chachaBlockAt_length B hB)]
  omega

theorem salsa_xor_ic_length (S : SalsaBlockFn) (hS : ∀ c, (S c).length = 64) (ic : UInt64) (m : Bytes) :
    (salsa_xor_ic S ic m).length = m.length := by
  rw [salsa_xor_ic_eq S hS, xorBytes_length, streamFrom_length _ (fun _ => hS _)]
  omega

/-! #### non-vacuity: concrete toy block functions satisfy the hypotheses, and the models evaluate -/

/-- toy ChaCha-style block (examples only): 64 copies of `w12 + 3·w13` -/
def toyBlock : BlockFn := fun a b => List.replicate 64 (a.toUInt8 + 3 * b.toUInt8)
/-- toy Salsa-style block (examples only): 64 copies of `counter mod 251` -/
def toySalsa : SalsaBlockFn := fun c => List.replicate 64 (UInt8.ofNat (le c % 251))

example : ∀ a b, (toyBlock a b).length = 64 := fun _ _ => List.length_replicate
example : ∀ c, (toySalsa c).length = 64 := fun _ => List.length_replicate

/-- across the carry into the high counter word: blocks (2^32−1, 0), (0, 1), (1, 1) -/
example : chacha_xor_ic toyBlock 4294967295 (zeros 130) =
    List.replicate 64 255 ++ List.replicate 64 3 ++ List.replicate 2 4 := by decide +kernel
example : keystream toyBlock (64 * 4294967295) 130 =
    List.replicate 64 255 ++ List.replicate 64 3 ++ List.replicate 2 4 := by decide
/-- across the wrap at 2^64: blocks (2^32−1, 2^32−1), (0, 0) -/
example : chacha_xor_ic toyBlock 18446744073709551615 (zeros 66) =
    List.replicate 64 252 ++ List.replicate 2 0 := by decide
/-- IETF: the last admissible block, and one byte more -/
example : chacha_ietf_xor_ic toyBlock 7 4294967295 (zeros 64) = .ok (List.replicate 64 20) := by decide
example : chacha_ietf_xor_ic toyBlock 7 4294967295 (zeros 65) = .misuse := by decide
example : salsa_xor_ic toySalsa 255 (zeros 66) = List.replicate 64 4 ++ List.replicate 2 5 := by decide
example : salsaCtrInc 1 (toLE 8 (2 ^ 64 - 1)) = zeros 8 := by decide

end Sodium.C03
