import SodiumModel.Proofs.ScryptRef
import SodiumModel.Properties.C04
/-
  C08 (scrypt core) — the REFERENCE scrypt code of libsodium (Model/ScryptRef.lean, transcribed from
  nosse/pwhash_scryptsalsa208sha256_nosse.c and pbkdf2-sha256.c) against RFC 7914 / RFC 8018
  (Spec/Scrypt.lean). Property theorems only; helper lemmas are in Proofs/ScryptRef.lean.
-/
open Sodium Sodium.Model Sodium.Model.ScryptRef Sodium.Spec Sodium.ScryptRefP
namespace Sodium.C08Scrypt

/-! ### (1) salsa20_8 -/

/-- `salsa20_8(B)` (copy to `x`, `for (i = 0; i < 8; i += 2)` with the 32 `x[a] ^= R(x[b]+x[c], k)` statements,
    `B[i] += x[i]`) is the Salsa20/8 core of RFC 7914 §3 on every 64-byte block -/
theorem salsa20_8_eq_spec (B : Array UInt32) (hB : B.size = 16) : salsa20_8 B = Scrypt.salsa20_8 B :=
  salsa20_8_eq B hB

/-! ### (2) blockmix_salsa8 -/

/-- `blockmix_salsa8(Bin, Bout, X, r)` writes scryptBlockMix_r(Bin) (RFC 7914 §4, including the even / odd output
    shuffle) to `Bout`, for every `r ≥ 1` whose index arithmetic `32 * r` fits a `size_t`; the previous contents of
    `Bout` and `X` are irrelevant -/
theorem blockmix_salsa8_eq_spec (Bin Bout X : Array UInt32) (r : UInt64) (hr : 1 ≤ r.toNat) (hr2 : 32 * r.toNat < 2 ^ 64)
    (hBin : Bin.size = 32 * r.toNat) (hBout : Bout.size = 32 * r.toNat) (hX : X.size = 16) :
    (blockmix_salsa8 Bin Bout X r).1 = Scrypt.blockMix r.toNat Bin :=
  (blockmix_spec Bin Bout X r hr hr2 hBin hBout hX).1

/-- the scratch block `X` keeps its size (64 bytes) -/
theorem blockmix_salsa8_scratch (Bin Bout X : Array UInt32) (r : UInt64) (hr : 1 ≤ r.toNat) (hr2 : 32 * r.toNat < 2 ^ 64)
    (hBin : Bin.size = 32 * r.toNat) (hBout : Bout.size = 32 * r.toNat) (hX : X.size = 16) :
    (blockmix_salsa8 Bin Bout X r).2.size = 16 :=
  (blockmix_spec Bin Bout X r hr hr2 hBin hBout hX).2

/-! ### (3) integerify, smix -/

/-- `j = integerify(X, r) & (N - 1)` is `Integerify(X) mod N` of RFC 7914 §5 for every power of two `N = 2^n`, `n < 64`
    (the C code reads only the low 64 bits of the 512-bit little-endian integer B[2r-1]) -/
theorem integerify_eq_spec (X : Array UInt32) (r N : UInt64) (n : Nat) (hr : 1 ≤ r.toNat) (hr2 : 32 * r.toNat < 2 ^ 64)
    (hX : X.size = 32 * r.toNat) (hN : N.toNat = 2 ^ n) (hn : n < 64) :
    (integerify X r &&& (N - 1)).toNat = Scrypt.integerify r.toNat X % N.toNat :=
  integerify_spec X r N n hr hr2 hX hN hn

/-- the two `for (i = 0; i < N; i += 2)` loops of `smix` (V filled two rows per iteration, `X` / `Y` alternating,
    `j = integerify & (N-1)`, `blkxor` with row `j` of the flat `V`) compute scryptROMix_r(X0, N) (RFC 7914 §5) for every
    `r ≥ 1` and every power of two `N = 2^n ≥ 2` with `128 * r * N` (the byte size of `V`) below 2^64 -/
theorem smix_loops_eq_spec (r N : UInt64) (n : Nat) (X0 V Y Z : Array UInt32) (hr : 1 ≤ r.toNat)
    (hr2 : 128 * r.toNat * N.toNat < 2 ^ 64) (hN : N.toNat = 2 ^ n) (hn1 : 1 ≤ n) (hn : n < 64)
    (hX : X0.size = 32 * r.toNat) (hV : V.size = 32 * r.toNat * N.toNat) (hY : Y.size = 32 * r.toNat) (hZ : Z.size = 16) :
    (smix_loop2 r N (smix_loop1 r N V X0 Y Z).1 (smix_loop1 r N V X0 Y Z).2.1 (smix_loop1 r N V X0 Y Z).2.2.1
      (smix_loop1 r N V X0 Y Z).2.2.2).1 = Scrypt.roMix r.toNat N.toNat X0 :=
  (smix_loops_spec r N n X0 V Y Z hr hr2 hN hn1 hn hX hV hY hZ).1

/-! ### (4) escrypt_PBKDF2_SHA256 -/

/-- over any streaming hash `H` satisfying the chunk law for a 32-byte hash function `Hf`:
    `escrypt_PBKDF2_SHA256` (HMAC state `PShctx` reused for every block, `be32enc` block counter, the `c - 1` XOR
    iterations, the `clen` tail) calls `sodium_misuse()` exactly for `dkLen > 0x1fffffffe0` and otherwise writes
    PBKDF2-HMAC(P, S, c, dkLen) of RFC 8018 §5.2, for every password, salt, dkLen and every `c < 2^64 - 1`
    (`c = 0` behaves as `c = 1`; for `c = 2^64 - 1` the C loop `for (j = 2; j <= c; j++)` does not terminate) -/
theorem pbkdf2_eq_spec {σ : Type} (H : HashOps σ) (Hf : Bytes → Bytes) (hH : C04.ChunkLaw H Hf)
    (hout : ∀ m, (Hf m).length = 32) (passwd salt : Bytes) (c dkLen : UInt64) (buf : Array UInt8)
    (hc : c.toNat < 2 ^ 64 - 1) (hbuf : buf.size = dkLen.toNat) :
    escrypt_PBKDF2_SHA256 H passwd salt c buf dkLen =
      if dkLen > 0x1fffffffe0 then none
      else some (Scrypt.pbkdf2HmacSha256 (C04.hmacSpec Hf H.W) passwd salt c.toNat dkLen.toNat).toArray := by
  apply pbkdf2_spec H (C04.hmacSpec Hf H.W) passwd salt c dkLen buf
  · intro U
    have := C04.hmac_chunks H Hf hH passwd [U]
    simpa using this
  · intro iv
    have := C04.hmac_chunks H Hf hH passwd [salt, iv]
    simpa using this
  · intro k m; exact hout _
  · exact hc
  · exact hbuf

/-- the instance used by libsodium: HMAC-SHA-256 (crypto_auth_hmacsha256 over the SHA-256 front-end of
    Model/Hash.lean, proved equal to FIPS 180-4 / RFC 2104 in Properties/C04.lean) -/
theorem pbkdf2_sha256_eq_spec (passwd salt : Bytes) (c dkLen : UInt64) (buf : Array UInt8)
    (hc : c.toNat < 2 ^ 64 - 1) (hbuf : buf.size = dkLen.toNat) :
    escrypt_PBKDF2_SHA256 C04.H256 passwd salt c buf dkLen =
      if dkLen > 0x1fffffffe0 then none
      else some (Scrypt.pbkdf2HmacSha256 (C04.hmacSpec Spec.Sha256.hash 64) passwd salt c.toNat dkLen.toNat).toArray :=
  pbkdf2_eq_spec C04.H256 Spec.Sha256.hash C04.chunkLaw_sha256 (fun _ => sha256_digest_length _) passwd salt c dkLen buf hc hbuf

/-! ### (5) escrypt_kdf_nosse: parameter checks and what they guarantee -/

/-- if one of the six parameter tests of `escrypt_kdf_nosse` fires, the function returns -1 -/
theorem kdf_nosse_rejects {σ : Type} (H : HashOps σ) (allocOk : UInt64 → Bool) (passwd salt : Bytes) (N : UInt64)
    (r p : UInt32) (buflen : UInt64) (h : ¬ KdfChecksPass N r p buflen) :
    (escrypt_kdf_nosse H allocOk passwd salt N r p buflen).rc = -1 := by
  unfold escrypt_kdf_nosse
  simp only []
  split; · rfl
  split; · rfl
  split; · rfl
  split; · rfl
  split; · rfl
  split; · rfl
  exfalso; exact h ⟨‹_›, ‹_›, ‹_›, ‹_›, ‹_›, ‹_›⟩

/-- what the six tests guarantee (64-bit `size_t`): `buflen ≤ 32·(2^32−1)` (so PBKDF2 never calls `sodium_misuse`),
    `r, p ≥ 1`, `r·p < 2^30`, `N = 2^n` with `1 ≤ n ≤ 31`, and the byte sizes `128·r·p` of `B` and `128·r·N` of `V` do
    not wrap — exactly the hypotheses of `blockmix_salsa8_eq_spec` / `smix_loops_eq_spec` -/
theorem kdf_guards (N : UInt64) (r p : UInt32) (buflen : UInt64) (h : KdfChecksPass N r p buflen) :
    buflen.toNat ≤ 0x1fffffffe0 ∧ 1 ≤ r.toNat ∧ 1 ≤ p.toNat ∧ r.toNat * p.toNat < 2 ^ 30 ∧
    (∃ n, N.toNat = 2 ^ n ∧ 1 ≤ n ∧ n ≤ 31) ∧
    128 * r.toNat * p.toNat < 2 ^ 64 ∧ 128 * r.toNat * N.toNat < 2 ^ 64 :=
  kdf_guards_aux N r p buflen h

/-- `N & (N - 1) == 0`, `N ≥ 1` ⇒ `N` is a power of two -/
theorem power_of_two_test (N : Nat) (h1 : 1 ≤ N) (h : N &&& (N - 1) = 0) : ∃ n, N = 2 ^ n := pow2_of_and_pred N h1 h

/-- the hypotheses are satisfiable (RFC 7914 vector 2: N = 1024, r = 8, p = 16) -/
example : KdfChecksPass 1024 8 16 64 := by unfold KdfChecksPass; decide

/-- the `need < V_size` wrap test after the six tests is reachable on a 64-bit `size_t`:
    N = 2^27, r = 2^30 − 1, p = 1 passes the six tests, `B_size + V_size` wraps, and the code returns -1 / ENOMEM
    before allocating. (`Model/Pwhash.lean`'s `escrypt_kdf` omits the two wrap tests: there the same input reaches the
    core; on the real library the outcome is -1 either way, the allocation of 2^64 bytes being impossible.) -/
example : KdfChecksPass 134217728 1073741823 1 32 := by unfold KdfChecksPass; decide
example : escrypt_kdf_nosse C04.H256 (fun _ => true) [] [] 134217728 1073741823 1 32 = { rc := -1, errno := Pwhash.ENOMEM } := by
  decide +kernel
example : (Pwhash.escrypt_kdf { argon2 := fun _ _ _ _ _ _ n => zeros n, scrypt := fun _ _ _ _ _ n => zeros n }
    [] [] 134217728 1073741823 1 32).rc = 0 := by decide +kernel

end Sodium.C08Scrypt
