import SodiumModel.Properties.C05LowOrder
import SodiumModel.Proofs.LadderRef10
/-
  C05, continued — the ref10 Montgomery ladder IS the RFC 7748 ladder.

  `Properties/C05.lean` proves the wrapper, `has_small_order` and the clamping of
  `crypto_scalarmult_curve25519_ref10` with the ladder as a parameter `X`.  Here `X` is the model of the
  C ladder itself (`Model/LadderRef10.lean`: x25519_ref10.c lines 91–134 in statement order, over an
  abstract field), instantiated with the specification field:

    * `ref10_ladder_eq_rfc7748`: on every clamped 32-byte scalar copy `t` and every point encoding `p`
      (any length), the ref10 ladder returns exactly `X25519(t, p)` of RFC 7748 §5;
      `ref10_ladder_clamp`: composed with the C clamping, for every scalar `n` of ≥ 32 bytes;
    * `ref10_ladder_general`: on EVERY `t` (clamped or not, any length) it is the RFC 7748 ladder on the
      low 255 bits of the little-endian value of `t` — the ladder function itself does not clamp, so on
      an unclamped `t` it differs from `X25519(t, p)`, which clamps (`ref10_ladder_unclamped_differs`);
      in the C code `t` is always clamped before the ladder, so this is not a deviation of the library;
    * `ref10_mult_eq`, `ref10_eq_spec_ladder`: hence every C05 theorem stated for `X = X25519.x25519`
      holds for the C-structured ladder: behind the wrapper the result is the specification's;
    * `cswap_in_contract`: `fe25519_cswap` is only ever called with `b ∈ {0, 1}`;
    * `ladder_any_field`: the same bytes come out over ANY implementation of the `fe25519_*` operations
      that refines the specification field (non-vacuous: a lazily reduced representation);
    * `edwards_to_montgomery_exact`, `ref10_base_eq_rfc7748_partial`: the base-point function is
      `(Z+Y)/(Z−Y)` of the Edwards point returned by `ge25519_scalarmult_base`; it equals `X25519(n, 9)`
      GIVEN that this point is `[n]B` of RFC 8032 and GIVEN the birational-map identity
      u([k]B) = X25519-ladder(k, 9) for that scalar (needs the group laws; not proved).

  Helper lemmas: `Proofs/LadderRef10.lean` (imports Mathlib's `ZMod` and `ring` for one identity).
-/
open Sodium Sodium.Model Sodium.Model.Scalarmult Sodium.Model.LadderRef10 Sodium.ScalarmultP
  Sodium.LadderRef10P Sodium.Spec
namespace Sodium.C05Ladder

/-! ### the ladder -/

/-- **General form.**  For every scalar copy `t` and point encoding `p` (no hypotheses, any lengths;
    bytes beyond the end read as 0), the ref10 ladder over the specification field is the RFC 7748
    ladder on the little-endian value of `t`, of which only the low 255 bits matter. -/
theorem ref10_ladder_general (t p : Bytes) :
    x25519_ref10 t p = X25519.encodeU (X25519.ladder (le t) (X25519.decodeU p)) ∧
    x25519_ref10 t p = X25519.encodeU (X25519.ladder (le t % 2 ^ 255) (X25519.decodeU p)) := by
  rw [ladder_mod]; exact ⟨ladder_eq_spec_le t p, ladder_eq_spec_le t p⟩

/-- **The ref10 ladder returns the RFC 7748 result** on every already clamped 32-byte scalar copy `t`
    (`clamp t = t`, which is what `crypto_scalarmult_curve25519_ref10` passes) and every `p`. -/
theorem ref10_ladder_eq_rfc7748 (t p : Bytes) (hl : t.length = 32) (hc : clamp t = t) :
    x25519_ref10 t p = X25519.x25519 t p := by
  have h := le_clamp t (by omega)
  rw [hc] at h
  rw [ladder_eq_spec_le, X25519.x25519, h]

/-- composed with the C clamping: for every scalar `n` of at least 32 bytes and every `p`,
    the ladder on the clamped copy is `X25519(n, p)` (= `X25519(clamp n, p)`) -/
theorem ref10_ladder_clamp (n p : Bytes) (hn : 32 ≤ n.length) :
    x25519_ref10 (clamp n) p = X25519.x25519 n p ∧
    x25519_ref10 (clamp n) p = X25519.x25519 (clamp n) p := by
  rw [x25519_clamp, ladder_eq_spec_le, X25519.x25519, le_clamp n hn]
  exact ⟨rfl, rfl⟩

/-- the hypothesis `clamp t = t` of `ref10_ladder_eq_rfc7748` holds for every clamped copy -/
theorem clamp_clamp (n : Bytes) (hn : 32 ≤ n.length) :
    (clamp n).length = 32 ∧ clamp (clamp n) = clamp n := by
  have hl := clamp_length n hn
  refine ⟨hl, ?_⟩
  apply le_inj _ _ (by rw [clamp_length _ (by omega), hl])
  rw [le_clamp _ (by omega), decodeScalar_clamp, le_clamp n hn]

/-- The ladder function by itself does NOT clamp: on an unclamped `t` it differs from RFC 7748
    `X25519(t, p)`, which clamps its scalar.  (Not a deviation of the library: the C code clamps `t`
    before the ladder.)  Here `t = 0…0`: the ladder computes [0]P = ∞ ↦ 0, `X25519` computes [2^254]P. -/
theorem ref10_ladder_unclamped_differs :
    x25519_ref10 (zeros 32) (toLE 32 9) = zeros 32 ∧
    X25519.x25519 (zeros 32) (toLE 32 9) ≠ zeros 32 := by
  constructor <;> decide +kernel

/-- the output is always 32 bytes (hypothesis `hX` of the C05 theorems) -/
theorem ref10_ladder_length (t p : Bytes) : (x25519_ref10 t p).length = 32 :=
  x25519_ref10_length t p

/-- `fe25519_cswap` is called within its contract: at every iteration (after any number `k` of
    iterations from the initial state) the argument `swap ^ bit` is 0 or 1, and so is the `swap`
    of the two final calls. -/
theorem cswap_in_contract (x1 : Nat) (t : Bytes) (k pos : Nat) :
    let s := loop specField x1 t k { x2 := 1, z2 := 0, x3 := x1, z3 := 1, swap := 0 }
    (s.swap = 0 ∨ s.swap = 1) ∧
    (s.swap ^^^ scalarBit t pos = 0 ∨ s.swap ^^^ scalarBit t pos = 1) := by
  intro s
  have h := swap_le_one x1 t k { x2 := 1, z2 := 0, x3 := x1, z3 := 1, swap := 0 } (Or.inl rfl)
  exact ⟨h, xor01' _ _ h (scalarBit01 t pos)⟩

/-! ### behind `has_small_order`, the clamping and the wrapper -/

/-- `crypto_scalarmult_curve25519_ref10` with the C-structured ladder = with the RFC 7748 function -/
theorem ref10_mult_eq (n p : Bytes) (hn : 32 ≤ n.length) :
    mult_ref10 x25519_ref10 n p = mult_ref10 X25519.x25519 n p := by
  simp only [mult_ref10, (ref10_ladder_clamp n p hn).2]

/-- **`crypto_scalarmult_curve25519` over the ref10 implementation, ladder included, returns the
    specification's result on every input**: same return code and on success the same 32 bytes
    (on a blocklisted point the output buffer is left unwritten instead of zero-filled). -/
theorem ref10_eq_spec_ladder (n p : Bytes) (hn : 32 ≤ n.length) (hp : p.length = 32) :
    crypto_scalarmult_curve25519 (mult_ref10 x25519_ref10) n p =
      match X25519.scalarmult n p with
      | none => (-1, if clearTop p ∈ blocklist then none else some (zeros 32))
      | some q => (0, some q) := by
  have h : mult_ref10 x25519_ref10 n p = mult_ref10 X25519.x25519 n p := ref10_mult_eq n p hn
  have e : crypto_scalarmult_curve25519 (mult_ref10 x25519_ref10) n p =
      crypto_scalarmult_curve25519 (mult_ref10 X25519.x25519) n p := by
    simp only [crypto_scalarmult_curve25519, h]
  rw [e, C05.ref10_eq_spec n p hp]
  cases X25519.scalarmult n p <;> rfl

/-! ### any implementation of the field -/

/-- The ladder over ANY `fe25519_*` implementation that refines the specification field through a
    representation relation `R` returns the RFC 7748 result on clamped scalars.  (This is the
    remaining obligation for a limb-level model of `ed25519_ref10_fe_51.h`: per-operation
    correctness.) -/
theorem ladder_any_field {F : Type} (ops : FieldOps F) (R : F → Nat → Prop) (h : Refines ops R)
    (n p : Bytes) (hn : 32 ≤ n.length) : ladder ops (clamp n) p = X25519.x25519 n p := by
  rw [ladder_refines ops R h]; exact (ref10_ladder_clamp n p hn).1

/-- non-vacuity: a representation that is not kept reduced by `add`, `sub`, `mul32` -/
example (n p : Bytes) (hn : 32 ≤ n.length) : ladder lazyField (clamp n) p = X25519.x25519 n p :=
  ladder_any_field lazyField _ lazy_refines n p hn

/-! ### the base-point function -/

/-- `edwards_to_montgomery` over the specification field is `(Z + Y) / (Z − Y)` (with x/0 = 0) -/
theorem edwards_to_montgomery_exact (Y Z : Nat) :
    edwards_to_montgomery specField Y Z = F25519.div (F25519.add Z Y) (F25519.sub Z Y) := by
  simp only [edwards_to_montgomery, specField, F25519.div]

/-- the Montgomery u-coordinate of an Edwards point in projective coordinates, u = (Z+Y)/(Z−Y)
    (= (1+y)/(1−y) for y = Y/Z; RFC 7748 §4.1) -/
def montU (P : Ed25519.Point) : Nat := F25519.div (F25519.add P.Z P.Y) (F25519.sub P.Z P.Y)

/-- `crypto_scalarmult_curve25519_ref10_base` is the encoding of `(Z+Y)/(Z−Y)` of the point returned
    by `ge25519_scalarmult_base` on the clamped scalar (every `n`, every `scalarmult_base`) -/
theorem ref10_base_exact (sb : Bytes → P3 Nat) (n : Bytes) :
    base specField sb n =
      X25519.encodeU (F25519.div (F25519.add (sb (clamp n)).Z (sb (clamp n)).Y)
        (F25519.sub (sb (clamp n)).Z (sb (clamp n)).Y)) := by
  simp only [base, edwards_to_montgomery_exact, clamp]
  simp only [specField, F25519.toBytes, X25519.encodeU]

theorem specScalarmultBase_YZ (t : Bytes) :
    (specScalarmultBase t).Y = (Ed25519.scalarMult (le t) Ed25519.basePoint).Y ∧
    (specScalarmultBase t).Z = (Ed25519.scalarMult (le t) Ed25519.basePoint).Z := by
  simp only [specScalarmultBase, and_self]

/-- **Base-point multiplication, partial.**  GIVEN `hsb`: `ge25519_scalarmult_base` returns the
    RFC 8032 point `[t]B` for the clamped copy `t`, and GIVEN `hbirat`: for this scalar the birational
    map sends `[k]B` to the X25519 ladder value on u = 9 (true for every k, but its proof needs the
    group laws of both curve models — not proved here), the ref10 base function returns
    `X25519(n, 9)`. -/
theorem ref10_base_eq_rfc7748_partial (sb : Bytes → P3 Nat) (n : Bytes) (hn : 32 ≤ n.length)
    (hsb : sb (clamp n) = specScalarmultBase (clamp n))
    (hbirat : montU (Ed25519.scalarMult (X25519.decodeScalar n) Ed25519.basePoint) =
      X25519.ladder (X25519.decodeScalar n) 9) :
    base specField sb n = X25519.x25519Base n := by
  rw [ref10_base_exact, hsb, X25519.x25519Base, ← hbirat, (specScalarmultBase_YZ _).1,
    (specScalarmultBase_YZ _).2, le_clamp n hn, montU]

/-- the hypotheses are satisfiable: RFC 7748 §6.1 Alice's private key (kernel evaluation of both the
    Edwards and the Montgomery route), and the conclusion is the RFC's public key -/
example : montU (Ed25519.scalarMult (X25519.decodeScalar
      (toLE 32 0x2a2cb91da5fb77b12a99c0eb872f4cdf4566b25172c1163c7da518730a6d0777)) Ed25519.basePoint) =
    X25519.ladder (X25519.decodeScalar
      (toLE 32 0x2a2cb91da5fb77b12a99c0eb872f4cdf4566b25172c1163c7da518730a6d0777)) 9 := by
  decide +kernel

example : x25519_ref10_base (toLE 32 0x2a2cb91da5fb77b12a99c0eb872f4cdf4566b25172c1163c7da518730a6d0777) =
    toLE 32 0x6a4e9baa8ea9a4ebf41a38260d3abf0d5af73eb4dc7d8b7454a7308909f02085 := by
  decide +kernel

/-- RFC 7748 §5.2 test vector 1 through the C-structured ladder (clamping included) -/
example : x25519_ref10
    (clamp (toLE 32 0xc49a44ba44226a50185afcc10a4c1462dd5e46824b15163b9d7c52f06be346a5))
    (toLE 32 0x4c1cabd0a603a9103b35b326ec2466727c5fb124a4c19435db3030586768dbe6) =
    toLE 32 0x5285a2775507b454f7711c4903cfec324f088df24dea948e90c6e99d3755dac3 := by
  decide +kernel

end Sodium.C05Ladder
