import SodiumModel.Proofs.Sign
import SodiumModel.Model.SignOps
/-
  C06 — Ed25519 verification accepts exactly the strict triples; combined mode and detached mode agree.
  Property theorems only; helper lemmas live in `Proofs/Sign.lean`.

  The group / hash primitives are abstract (`Model.Sign.Ops`): the theorems fix the byte-level
  canonicity tests and the decision logic of the C code for EVERY instantiation of the primitives.
  That the concrete ref10 primitives implement the edwards25519 group is translation-validated
  (driver + harness), not proved here.
-/
open Sodium Sodium.Model.Sign Sodium.SignP
namespace Sodium.C06

/-- the group order L and the field prime p of RFC 8032 -/
abbrev L : Nat := Spec.Ed25519.L
abbrev p : Nat := Spec.F25519.p

/-- `sc25519_is_canonical` returns 1 iff the 32-byte little-endian scalar is < L (and 0 otherwise). -/
theorem sc_is_canonical_iff (s : Bytes) (h : s.length = 32) :
    (sc25519_is_canonical s = 1 ↔ le s < L) ∧ (sc25519_is_canonical s = 0 ↔ L ≤ le s) := by
  rw [sc_is_canonical_spec s h]
  by_cases hlt : le s < L
  · have : ¬ L ≤ le s := by omega
    simp [hlt, this]
  · have : L ≤ le s := by omega
    simp [hlt, this]

/-- `ge25519_is_canonical` returns 1 iff the 255-bit y field (the sign bit is ignored) is < p. -/
theorem ge_is_canonical_iff (s : Bytes) (h : s.length = 32) :
    (ge25519_is_canonical s = 1 ↔ le s % 2 ^ 255 < p) ∧ (ge25519_is_canonical s = 0 ↔ p ≤ le s % 2 ^ 255) := by
  rw [ge_is_canonical_spec s h]
  by_cases hlt : le s % 2 ^ 255 < p
  · have : ¬ p ≤ le s % 2 ^ 255 := by omega
    simp [hlt, this]
  · have : p ≤ le s % 2 ^ 255 := by omega
    simp [hlt, this]

/-- the first test of the verifier, as written in open.c, on the 64-byte signature -/
def firstTestRejects (sig : Bytes) : Prop :=
  (u8i (sig.getD 63 0) &&& 240) ≠ 0 ∧ sc25519_is_canonical ((sig.drop 32).take 32) = 0

/-- The shortcut `(sig[63] & 240) != 0 && …` is exact: clear top bits force S < 2^252 ≤ L, so the
    first test of the verifier rejects iff S is not a canonical scalar. -/
theorem high_bits_imply_canonical_test :
    (∀ s : Bytes, s.length = 32 → (u8i (s.getD 31 0) &&& 240) = 0 → le s < 2 ^ 252 ∧ 2 ^ 252 ≤ L) ∧
    (∀ sig : Bytes, sig.length = 64 → (firstTestRejects sig ↔ L ≤ le (sig.drop 32))) := by
  refine ⟨fun s h hb => ⟨le_lt_of_hi_nibble s h hb, L_gt⟩, fun sig h => ?_⟩
  have hS : (sig.drop 32).length = 32 := by simp [h]
  have htake : (sig.drop 32).take 32 = sig.drop 32 := List.take_of_length_le (by omega)
  have hget : (sig.drop 32).getD 31 0 = sig.getD 63 0 := by simp [List.getD_eq_getElem?_getD]
  rw [firstTestRejects, htake, (sc_is_canonical_iff _ hS).2]
  constructor
  · exact fun h => h.2
  · intro hL
    refine ⟨fun hb => ?_, hL⟩
    have := le_lt_of_hi_nibble (sig.drop 32) hS (by rw [hget]; exact hb)
    have hL : 2 ^ 252 ≤ L := L_gt
    omega

/-! ### the decision of `_crypto_sign_ed25519_verify_detached` -/

section
variable {P3 P2 : Type} (G : Ops P3 P2)

/-- the point handed to the last `ge25519_has_small_order`:
    `R - p2_to_p3(h·(-A) + S·B)` with h = reduce(SHA-512(dom ‖ R ‖ pk ‖ m)), computed by the primitives -/
def checkPoint (sig m pk : Bytes) (prehashed : Bool) : P3 :=
  let A := (G.frombytesNegateVartime pk).2
  let R := (G.frombytes (sig.take 32)).2
  let h := G.scReduce (G.sha512 (hinit prehashed ++ sig.take 32 ++ pk ++ m))
  G.p3Sub R (G.p2ToP3 (G.doubleScalarmultVartime h A (sig.drop 32)))

/-- the conjunction of all the checks of the strict verifier -/
def Accepts (sig m pk : Bytes) (prehashed : Bool) : Prop :=
  le (sig.drop 32) < L ∧                                                   -- S is a canonical scalar
  le pk % 2 ^ 255 < p ∧                                                    -- pk is a canonical encoding
  (G.frombytesNegateVartime pk).1 = 0 ∧                                    -- pk decodes to a point A …
  G.hasSmallOrder (G.frombytesNegateVartime pk).2 = 0 ∧                    -- … which is not of small order
  (G.frombytes (sig.take 32)).1 = 0 ∧                                      -- R decodes …
  G.hasSmallOrder (G.frombytes (sig.take 32)).2 = 0 ∧                      -- … and is not of small order
  G.hasSmallOrder (checkPoint G sig m pk prehashed) = 1                    -- R - (S·B - h·A) passes the small-order test

/-- The verifier returns 0 iff S is canonical, the public key is canonical, decodes and is not of small
    order, R decodes and is not of small order, and the final small-order test on R - (S·B - h·A)
    succeeds; when `ge25519_has_small_order` is 0/1-valued, every other outcome is -1. -/
theorem verify_decision (sig m pk : Bytes) (prehashed : Bool) (hs : sig.length = 64) (hp : pk.length = 32) :
    (verify_detached G sig m pk prehashed = 0 ↔ Accepts G sig m pk prehashed) ∧
    ((∀ P, G.hasSmallOrder P = 0 ∨ G.hasSmallOrder P = 1) →
      ¬ Accepts G sig m pk prehashed → verify_detached G sig m pk prehashed = -1) := by
  have hpk : pk.take 32 = pk := List.take_of_length_le (by omega)
  have hS : (sig.drop 32).take 32 = sig.drop 32 := List.take_of_length_le (by simp [hs])
  have h1 := (high_bits_imply_canonical_test.2 sig hs)
  have h2 := (ge_is_canonical_iff pk hp).2
  rw [firstTestRejects, hS] at h1
  have key : verify_detached G sig m pk prehashed =
      if L ≤ le (sig.drop 32) then -1 else
      if p ≤ le pk % 2 ^ 255 then -1 else
      if (G.frombytesNegateVartime pk).1 ≠ 0 ∨ G.hasSmallOrder (G.frombytesNegateVartime pk).2 ≠ 0 then -1 else
      if (G.frombytes (sig.take 32)).1 ≠ 0 ∨ G.hasSmallOrder (G.frombytes (sig.take 32)).2 ≠ 0 then -1 else
      G.hasSmallOrder (checkPoint G sig m pk prehashed) - 1 := by
    simp only [verify_detached, hpk, hS, h1, h2, checkPoint]
  rw [key]
  have hneg : (-1 : Int32) ≠ 0 := by decide
  constructor
  · unfold Accepts
    split
    · simp only [hneg, false_iff]; omega
    split
    · simp only [hneg, false_iff]; omega
    split
    · rename_i h; simp only [hneg, false_iff]; rintro ⟨_, _, ha, hb, _⟩; rcases h with h | h <;> contradiction
    split
    · rename_i h; simp only [hneg, false_iff]; rintro ⟨_, _, _, _, ha, hb, _⟩; rcases h with h | h <;> contradiction
    rename_i ha hb hc hd
    simp only [not_or, Decidable.not_not] at hc hd
    rw [int32_sub_one_eq_zero]
    constructor
    · intro h; exact ⟨by omega, by omega, hc.1, hc.2, hd.1, hd.2, h⟩
    · intro h; exact h.2.2.2.2.2.2
  · intro h01 hna
    split; · rfl
    split; · rfl
    split; · rfl
    split; · rfl
    rename_i ha hb hc hd
    simp only [not_or, Decidable.not_not] at hc hd
    rcases h01 (checkPoint G sig m pk prehashed) with h | h
    · rw [h]; rfl
    · exact absurd ⟨by omega, by omega, hc.1, hc.2, hd.1, hd.2, h⟩ hna

/-! ### combined mode -/

/-- `crypto_sign_open`:
    (1) fewer than 64 bytes: -1, length 0, the output buffer is not touched;
    (2) verification fails: -1, length 0, the first `smlen - 64` bytes of the output buffer are zero
        (the rest of the buffer is unchanged);
    (3) verification succeeds: 0, length `smlen - 64`, the output buffer starts with the message;
    (4) `crypto_sign` produces `sig ‖ m` with the detached signature, and `crypto_sign_open` of that,
        whenever detached verification of (sig, m, pk) accepts, returns exactly `m`. -/
theorem open_forms (m0 : Bytes) (sm pk : Bytes) :
    (sm.length < 64 → crypto_sign_open G (some m0) sm pk = ⟨-1, 0, some m0⟩) ∧
    (64 ≤ sm.length → sm.length - 64 ≤ MESSAGEBYTES_MAX → sm.length - 64 ≤ m0.length →
      verify_detached G (sm.take 64) (sm.drop 64) pk false ≠ 0 →
      ∃ out, crypto_sign_open G (some m0) sm pk = ⟨-1, 0, some out⟩ ∧ out.length = m0.length ∧
        out.take (sm.length - 64) = zeros (sm.length - 64) ∧
        out.drop (sm.length - 64) = m0.drop (sm.length - 64)) ∧
    (64 ≤ sm.length → sm.length - 64 ≤ MESSAGEBYTES_MAX → sm.length - 64 ≤ m0.length →
      verify_detached G (sm.take 64) (sm.drop 64) pk false = 0 →
      ∃ out, crypto_sign_open G (some m0) sm pk = ⟨0, sm.length - 64, some out⟩ ∧ out.length = m0.length ∧
        out.take (sm.length - 64) = sm.drop 64 ∧
        out.drop (sm.length - 64) = m0.drop (sm.length - 64)) ∧
    (∀ m sk : Bytes, m.length ≤ MESSAGEBYTES_MAX → m.length ≤ m0.length →
      let sig := (crypto_sign_detached G m sk).sig
      crypto_sign G m sk = ⟨0, m.length + 64, sig ++ m⟩ ∧ sig.length = 64 ∧
      (crypto_sign_verify_detached G sig m pk = 0 →
        ∃ out, crypto_sign_open G (some m0) (crypto_sign G m sk).sm pk = ⟨0, m.length, some out⟩ ∧
          out.take m.length = m)) := by
  refine ⟨?_, ?_, ?_, ?_⟩
  · intro h; simp [crypto_sign_open, h]
  · intro h1 h2 h3 hv
    have hc : ¬ (sm.length < 64 ∨ sm.length - 64 > MESSAGEBYTES_MAX) := by omega
    rw [← verify_detached_take] at hv
    refine ⟨zeros (sm.length - 64) ++ m0.drop (sm.length - 64),
      by simp only [crypto_sign_open, hc, if_false, crypto_sign_verify_detached, hv, ne_eq,
        not_false_eq_true, if_true, Option.map_some], ?_, ?_, ?_⟩
    · simp [zeros]; omega
    · rw [List.take_left' (by simp [zeros])]
    · rw [List.drop_left' (by simp [zeros])]
  · intro h1 h2 h3 hv
    have hc : ¬ (sm.length < 64 ∨ sm.length - 64 > MESSAGEBYTES_MAX) := by omega
    rw [← verify_detached_take] at hv
    refine ⟨sm.drop 64 ++ m0.drop (sm.length - 64),
      by simp only [crypto_sign_open, hc, if_false, crypto_sign_verify_detached, hv, ne_eq,
        not_true_eq_false, Option.map_some], ?_, ?_, ?_⟩
    · simp; omega
    · rw [List.take_left' (by simp)]
    · rw [List.drop_left' (by simp)]
  · intro m sk hm1 hm2
    have hlen : (crypto_sign_detached G m sk).sig.length = 64 := by
      simp [crypto_sign_detached, sign_detached, fit, zeros]
    have hsign : crypto_sign G m sk = ⟨0, m.length + 64, (crypto_sign_detached G m sk).sig ++ m⟩ := by
      simp [crypto_sign, crypto_sign_detached, sign_detached]
    refine ⟨hsign, hlen, fun hv => ?_⟩
    rw [hsign]
    have hl : ((crypto_sign_detached G m sk).sig ++ m).length = m.length + 64 := by simp [hlen]; omega
    have hc : ¬ (m.length + 64 < 64 ∨ m.length > MESSAGEBYTES_MAX) := by omega
    have hd : ((crypto_sign_detached G m sk).sig ++ m).drop 64 = m := List.drop_left' hlen
    have ht : ((crypto_sign_detached G m sk).sig ++ m).take 64 = (crypto_sign_detached G m sk).sig :=
      List.take_left' hlen
    have hv' : crypto_sign_verify_detached G ((crypto_sign_detached G m sk).sig ++ m) m pk = 0 := by
      rw [crypto_sign_verify_detached, verify_detached_take, ht]; exact hv
    refine ⟨m ++ m0.drop m.length,
      by simp only [crypto_sign_open, hl, Nat.add_sub_cancel, hc, if_false, hd, hv', ne_eq,
        not_true_eq_false, Option.map_some], ?_⟩
    rw [List.take_left' rfl]

end

/-! ### completeness, algebraically -/

/-- A group `Gp` (written additively) with an action of a scalar structure `Sc` that has an addition
    and a multiplication.  Exactly the laws used below are required (commutativity of `Gp` is not
    needed for this direction, so the statement covers every commutative group in particular). -/
structure ScalarAction (Gp Sc : Type) where
  add : Gp → Gp → Gp
  zero : Gp
  neg : Gp → Gp
  sadd : Sc → Sc → Sc
  smul : Sc → Sc → Sc
  act : Sc → Gp → Gp
  add_assoc : ∀ a b c, add (add a b) c = add a (add b c)
  add_zero : ∀ a, add a zero = a
  add_neg : ∀ a, add a (neg a) = zero
  act_sadd : ∀ s t P, act (sadd s t) P = add (act s P) (act t P)
  act_smul : ∀ s t P, act (smul s t) P = act s (act t P)

def ScalarAction.sub {Gp Sc : Type} (M : ScalarAction Gp Sc) (a b : Gp) : Gp := M.add a (M.neg b)

/-- An honestly generated signature satisfies the verification equation exactly:
    if A = a·B, R = r·B and S = r + h·a then S·B − h·A = R, so the point handed to the final
    small-order test, R − (S·B − h·A), is the identity. -/
theorem completeness_abstract {Gp Sc : Type} (M : ScalarAction Gp Sc) (B A R : Gp) (a r h S : Sc)
    (hA : A = M.act a B) (hR : R = M.act r B) (hS : S = M.sadd r (M.smul h a)) :
    M.sub (M.act S B) (M.act h A) = R ∧ M.sub R (M.sub (M.act S B) (M.act h A)) = M.zero := by
  have h1 : M.sub (M.act S B) (M.act h A) = R := by
    rw [hS, M.act_sadd, M.act_smul, ← hA, ← hR, ScalarAction.sub, M.add_assoc, M.add_neg, M.add_zero]
  exact ⟨h1, by rw [h1, ScalarAction.sub, M.add_neg]⟩

/-! ### deviation: the final test is stricter than "8·(S·B − R − h·A) = 0"

  With the primitives instantiated by the executable RFC 8032 specification at the granularity of
  the C calls (`specOps`: `p2ToP3` sets T := X·Y and keeps Z, exactly as `ge25519_p2_to_p3` does),
  a signature whose difference R − (S·B − h·A) is a point of order 8 is REJECTED, although
  `ge25519_has_small_order(&check)` is meant to accept every point of order dividing 8 and the
  cofactored RFC 8032 equation holds.  (Same outcome in the compiled library; see
  `Spec.Ed25519.libsodiumCheckAccepts`.)  The property only demands soundness ("accepts only if"),
  so this is not a violation of C06, but the code does not compute what it says.

  The triple: seed 00 01 … 1f, message "abc", R = 12345·B + T₈ (T₈ the order-8 point c7176a70…7a),
  S = 12345 + h·a mod L. -/

def devPk : Bytes :=
  [0x03,0xa1,0x07,0xbf,0xf3,0xce,0x10,0xbe,0x1d,0x70,0xdd,0x18,0xe7,0x4b,0xc0,0x99,
   0x67,0xe4,0xd6,0x30,0x9b,0xa5,0x0d,0x5f,0x1d,0xdc,0x86,0x64,0x12,0x55,0x31,0xb8]
def devSig : Bytes :=
  [0x40,0xa4,0xcf,0x5c,0x61,0x1d,0x73,0x7a,0x2f,0x1c,0x6f,0xcc,0xa8,0x4d,0x9c,0xab,
   0xfe,0xd8,0x09,0x87,0xf1,0x86,0xa5,0xa6,0xc5,0x7e,0x62,0x9b,0xff,0x1a,0xf2,0x7f,
   0x66,0x69,0x6f,0x25,0x68,0xc0,0x8d,0xc6,0x03,0x2e,0x93,0xc3,0x3e,0x31,0x75,0x71,
   0x6c,0xd2,0x5a,0x4c,0x16,0xd6,0xa9,0x20,0xc1,0x09,0x4a,0x80,0xd9,0xce,0xb8,0x0a]
def devMsg : Bytes := [0x61, 0x62, 0x63]

/-- the model of the verifier (= the compiled library) rejects the triple … -/
theorem order8_difference_rejected : verify_detached specOps devSig devMsg devPk false = -1 := by
  decide +kernel

/-- … which passes RFC 8032 §5.1.7 cofactored verification, and every check before the last one -/
theorem order8_difference_rfc_valid :
    Spec.Ed25519.verifyRfc Spec.Sha512.hash devSig devMsg devPk = true ∧
    le (devSig.drop 32) < L ∧ le devPk % 2 ^ 255 < p ∧
    (specOps.frombytesNegateVartime devPk).1 = 0 ∧
    specOps.hasSmallOrder (specOps.frombytesNegateVartime devPk).2 = 0 ∧
    (specOps.frombytes (devSig.take 32)).1 = 0 ∧
    specOps.hasSmallOrder (specOps.frombytes (devSig.take 32)).2 = 0 := by
  decide +kernel

/-- the same triple with the torsion component of order 4 (R = 12345·B + 2·T₈) is accepted -/
theorem order4_difference_accepted :
    verify_detached specOps
      ([0xaf,0x6e,0x8e,0x63,0xf8,0x57,0xd9,0x0b,0xf1,0xaf,0xb0,0xd2,0xcd,0x87,0x53,0xa1,
        0x5e,0xfe,0xd2,0x96,0x4a,0xdc,0x82,0x3c,0x24,0xf8,0x50,0x82,0x20,0x7e,0x07,0x3e,
        0x45,0x15,0xc1,0x46,0x5e,0xc2,0x57,0x5f,0x92,0x0b,0x97,0xa2,0xb6,0x58,0x3d,0xce,
        0x14,0x8e,0xf5,0x2d,0xf5,0xd3,0x26,0x75,0x79,0x8e,0x6e,0xed,0x3d,0xea,0x54,0x0f])
      devMsg devPk false = 0 := by
  decide +kernel

/-! ### non-vacuity -/

/-- the integers acting on themselves satisfy the laws -/
example : ScalarAction Int Int where
  add := (· + ·); zero := 0; neg := (- ·); sadd := (· + ·); smul := (· * ·); act := (· * ·)
  add_assoc := Int.add_assoc
  add_zero := Int.add_zero
  add_neg := Int.add_right_neg
  act_sadd := fun s t P => Int.add_mul s t P
  act_smul := fun s t P => Int.mul_assoc s t P

/-- a toy instance of the primitives (the group is ℤ/L with base point 1, "hash" = the constant 2):
    hypotheses of the theorems above are satisfiable, and both outcomes of the verifier occur -/
def toyOps : Ops Nat Nat where
  sha512 := fun _ => [2]
  scReduce := fun b => b.take 32
  scMuladd := fun a b c => toLE 32 ((le a * le b + le c) % L)
  frombytesNegateVartime := fun b => (0, (L - le b % L) % L)
  frombytes := fun b => (0, le b % L)
  hasSmallOrder := fun P => if P % L = 0 then 1 else 0
  doubleScalarmultVartime := fun a A b => (le a * A + le b) % L
  p2ToP3 := id
  p3Sub := fun x y => (x + (L - y % L)) % L
  scalarmultBase := fun a => le a % L
  p3Tobytes := fun P => toLE 32 P

/-- pk = 3·B, R = 5·B, h = 2, S = 5 + 2·3 = 11 is accepted; S = 12 is rejected -/
example : verify_detached toyOps (toLE 32 5 ++ toLE 32 11) [] (toLE 32 3) false = 0 ∧
    verify_detached toyOps (toLE 32 5 ++ toLE 32 12) [] (toLE 32 3) false = -1 := by decide +kernel

example : sc25519_is_canonical (toLE 32 (L - 1)) = 1 ∧ sc25519_is_canonical (toLE 32 L) = 0 ∧
    ge25519_is_canonical (toLE 32 (p - 1)) = 1 ∧ ge25519_is_canonical (toLE 32 p) = 0 ∧
    ge25519_is_canonical (toLE 32 (p - 1 + 2 ^ 255)) = 1 ∧ ge25519_is_canonical (toLE 32 (p + 2 ^ 255)) = 0 := by
  decide +kernel

/-- round trip through the combined form with the toy primitives -/
example :
    let kp := seed_keypair toyOps (zeros 32)
    crypto_sign_open toyOps (some [9, 9, 9, 9]) (crypto_sign toyOps [1, 2, 3] kp.2).sm kp.1
      = ⟨0, 3, some [1, 2, 3, 9]⟩ ∧
    crypto_sign_open toyOps (some [9, 9, 9, 9]) ((crypto_sign toyOps [1, 2, 3] kp.2).sm.set 32 7) kp.1
      = ⟨-1, 0, some [0, 0, 0, 9]⟩ := by decide +kernel

end Sodium.C06
