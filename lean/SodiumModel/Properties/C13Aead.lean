import SodiumModel.Properties.C13
import SodiumModel.Proofs.OverlapAead
import SodiumModel.Proofs.OverlapAeadAegis
import SodiumModel.Proofs.OverlapAeadGcm
/-
  C13 — AEAD encrypt / decrypt with identical input and output pointers, at MEMORY level and in
  STATEMENT ORDER (`Model/OverlapAead.lean`).

  Part 1, ChaCha20-Poly1305 (original, IETF, XChaCha), for every length, AD, key, nonce, prior memory and
  every chunking of the stream XOR:
    chacha_encrypt_mem / chacha_decrypt_mem        output AT OR BEFORE the input (c ≤ m: in place is the
                                                   case c = m) or disjoint from it: the bytes stored and the
                                                   tag / verdict are those of the value-level functions of
                                                   `Model/Aead.lean` on the bytes found on entry
    chacha_encrypt_inplace_eq_disjoint, chacha_decrypt_inplace_eq_disjoint
                                                   in place = the run with disjoint buffers
    chacha_decrypt_failure_zeroed                  failed decryption: the OUTPUT region is zeroed — in place
                                                   that is the ciphertext itself
    chacha_decrypt_verify_only                     m == NULL: nothing is stored
    xchacha_encrypt_mem / xchacha_decrypt_mem      the XChaCha wrappers (HChaCha20 subkey, stack nonce)
  Boundary: `chacha_partial_overlap_differs` (c = m + 1: NOT the disjoint answer), `seeded_C13_6_*`
  (the seeded statement order rejects a valid ciphertext in place, and only in place).
-/
open Sodium Sodium.Model Sodium.Model.Aead Sodium.Model.Overlap Sodium.Model.OverlapAead
open Sodium.OverlapP Sodium.OverlapAeadP Sodium.C13
namespace Sodium.C13Aead

/-! ## Part 1: ChaCha20-Poly1305 family -/

/-- encrypt_detached, statement order, output at or before the input (`c = m`: in place) or disjoint:
    afterwards `c` holds the value-level ciphertext of the message found at `m` ON ENTRY, `mac` its tag,
    nothing else is written.  AD, nonce and key may lie anywhere (they are consumed before the first store
    … except that the tag must not land inside the ciphertext). -/
theorem chacha_encrypt_mem (P : Prims) (hP : PrimsLen P) (f : Flavor) (sizes : List Nat) (ldN ldK : Loader)
    (mem : Mem) (c mac m mlen ad adlen : Nat)
    (hs : sizes.sum = mlen) (hcm : c ≤ m ∨ m + mlen ≤ c) (hmac : mac + 16 ≤ c ∨ c + mlen ≤ mac) :
    let r := Aead.encryptDetached P f (read mem m mlen) (read mem ad adlen) (ldN mem) (ldK mem)
    let mem' := (encryptDetachedMem P f sizes ldN ldK mem c mac m mlen ad adlen).2
    read mem' c mlen = r.1 ∧ read mem' mac 16 = r.2 ∧
      ∀ a, outside a c mlen → outside a mac 16 → mem' a = mem a := by
  intro r mem'
  have hl1 : r.1.length = mlen := by
    have := encryptDetached_fst_length P hP.ks_len f (read mem m mlen) (read mem ad adlen) (ldN mem) (ldK mem)
    rwa [length_read] at this
  have hl2 : r.2.length = 16 := hP.mac_len _ _
  have e : mem' = write (write mem c r.1) mac r.2 :=
    congrArg Prod.snd (encryptDetachedMem_eq P hP.ks_len f sizes ldN ldK mem c mac m mlen ad adlen hs hcm)
  rw [e]
  refine ⟨?_, read_write_same _ _ _ _ hl2.symm, ?_⟩
  · rw [read_write_disj _ _ _ _ _ (by rw [hl2]; omega), read_write_same _ _ _ _ hl1.symm]
  · intro a h1 h2
    unfold outside at h1 h2
    rw [write_outside _ _ _ _ (by rw [hl2]; exact h2), write_outside _ _ _ _ (by rw [hl1]; exact h1)]

/-- in place (`c == m`) the ciphertext and the tag are those of a run with DISJOINT buffers
    (any other memory `mem₂`, any placement with `c₂`, `m₂` disjoint) on the same inputs -/
theorem chacha_encrypt_inplace_eq_disjoint (P : Prims) (hP : PrimsLen P) (f : Flavor) (sizes sizes₂ : List Nat)
    (ldN ldK ldN₂ ldK₂ : Loader) (mem mem₂ : Mem) (c mac mlen ad adlen c₂ mac₂ m₂ ad₂ : Nat)
    (hs : sizes.sum = mlen) (hs₂ : sizes₂.sum = mlen)
    (hmac : mac + 16 ≤ c ∨ c + mlen ≤ mac) (hmac₂ : mac₂ + 16 ≤ c₂ ∨ c₂ + mlen ≤ mac₂)
    (hdisj : c₂ + mlen ≤ m₂ ∨ m₂ + mlen ≤ c₂)
    (hm : read mem₂ m₂ mlen = read mem c mlen) (had : read mem₂ ad₂ adlen = read mem ad adlen)
    (hn : ldN₂ mem₂ = ldN mem) (hk : ldK₂ mem₂ = ldK mem) :
    read (encryptDetachedMem P f sizes ldN ldK mem c mac c mlen ad adlen).2 c mlen =
      read (encryptDetachedMem P f sizes₂ ldN₂ ldK₂ mem₂ c₂ mac₂ m₂ mlen ad₂ adlen).2 c₂ mlen ∧
    read (encryptDetachedMem P f sizes ldN ldK mem c mac c mlen ad adlen).2 mac 16 =
      read (encryptDetachedMem P f sizes₂ ldN₂ ldK₂ mem₂ c₂ mac₂ m₂ mlen ad₂ adlen).2 mac₂ 16 := by
  obtain ⟨a1, a2, _⟩ := chacha_encrypt_mem P hP f sizes ldN ldK mem c mac c mlen ad adlen hs (Or.inl (Nat.le_refl _)) hmac
  obtain ⟨b1, b2, _⟩ := chacha_encrypt_mem P hP f sizes₂ ldN₂ ldK₂ mem₂ c₂ mac₂ m₂ mlen ad₂ adlen hs₂ (by omega) hmac₂
  rw [a1, a2, b1, b2, hm, had, hn, hk]
  exact ⟨rfl, rfl⟩

/-- decrypt_detached, statement order, output at or before the input (`m = c`: in place) or disjoint:
    the return value is that of the value-level function on the ciphertext / tag found ON ENTRY (the tag
    may lie anywhere, also inside the output); the output region then holds what the value-level
    function writes (plaintext, or zeros after a bad tag), or memory is untouched (`m == NULL`). -/
theorem chacha_decrypt_mem (P : Prims) (hP : PrimsLen P) (f : Flavor) (sizes : List Nat) (ldN ldK : Loader)
    (mem : Mem) (m c clen mac ad adlen : Nat)
    (hs : sizes.sum = clen) (hcm : m ≤ c ∨ c + clen ≤ m) :
    let r := Aead.decryptDetached P f (decide (m ≠ 0)) (read mem c clen) (read mem mac 16) (read mem ad adlen)
      (ldN mem) (ldK mem)
    let res := decryptDetachedMem P f sizes ldN ldK mem m c clen mac ad adlen
    res.1 = r.rc ∧
    match r.mbuf with
    | none => res.2 = mem
    | some out => out.length = clen ∧ read res.2 m clen = out ∧ ∀ a, outside a m clen → res.2 a = mem a := by
  intro r res
  have e : res = _ := decryptDetachedMem_eq P hP.ks_len f sizes ldN ldK mem m c clen mac ad adlen hs hcm
  rw [e]
  refine ⟨rfl, ?_⟩
  cases hmb : r.mbuf with
  | none => simp only [r] at hmb; simp [hmb]
  | some out =>
    have hl : out.length = clen := by
      have := decryptDetached_mbuf_length P hP.ks_len f _ _ _ _ _ _ out hmb
      rwa [length_read] at this
    simp only [r] at hmb
    simp only [hmb]
    refine ⟨hl, read_write_same _ _ _ _ hl.symm, ?_⟩
    intro a ha
    unfold outside at ha
    exact write_outside _ _ _ _ (by omega)

/-- in place (`m == c`) verdict and plaintext are those of a run with DISJOINT buffers on the same inputs -/
theorem chacha_decrypt_inplace_eq_disjoint (P : Prims) (hP : PrimsLen P) (f : Flavor) (sizes sizes₂ : List Nat)
    (ldN ldK ldN₂ ldK₂ : Loader) (mem mem₂ : Mem) (c clen mac ad adlen m₂ c₂ mac₂ ad₂ : Nat)
    (hs : sizes.sum = clen) (hs₂ : sizes₂.sum = clen) (hc0 : c ≠ 0) (hm0 : m₂ ≠ 0)
    (hdisj : m₂ + clen ≤ c₂ ∨ c₂ + clen ≤ m₂)
    (hc : read mem₂ c₂ clen = read mem c clen) (hmac : read mem₂ mac₂ 16 = read mem mac 16)
    (had : read mem₂ ad₂ adlen = read mem ad adlen)
    (hn : ldN₂ mem₂ = ldN mem) (hk : ldK₂ mem₂ = ldK mem) :
    (decryptDetachedMem P f sizes ldN ldK mem c c clen mac ad adlen).1 =
      (decryptDetachedMem P f sizes₂ ldN₂ ldK₂ mem₂ m₂ c₂ clen mac₂ ad₂ adlen).1 ∧
    read (decryptDetachedMem P f sizes ldN ldK mem c c clen mac ad adlen).2 c clen =
      read (decryptDetachedMem P f sizes₂ ldN₂ ldK₂ mem₂ m₂ c₂ clen mac₂ ad₂ adlen).2 m₂ clen := by
  have A := chacha_decrypt_mem P hP f sizes ldN ldK mem c c clen mac ad adlen hs (Or.inl (Nat.le_refl _))
  have B := chacha_decrypt_mem P hP f sizes₂ ldN₂ ldK₂ mem₂ m₂ c₂ clen mac₂ ad₂ adlen hs₂ (by omega)
  simp only [hc, hmac, had, hn, hk, hm0, hc0, ne_eq, not_false_eq_true, decide_true] at A B
  obtain ⟨a1, a2⟩ := A
  obtain ⟨b1, b2⟩ := B
  refine ⟨a1.trans b1.symm, ?_⟩
  cases hmb : (Aead.decryptDetached P f true (read mem c clen) (read mem mac 16) (read mem ad adlen) (ldN mem) (ldK mem)).mbuf with
  | none =>
    have := decryptDetached_mbuf_none_false P f (read mem c clen) (read mem mac 16) (read mem ad adlen) (ldN mem) (ldK mem)
    exact absurd hmb this
  | some out =>
    rw [hmb] at a2 b2
    rw [a2.2.1, b2.2.1]

/-- a failed decryption with an output pointer returns −1 and leaves the OUTPUT region zeroed
    (`memset(m, 0, mlen)`): in place, the ciphertext is destroyed -/
theorem chacha_decrypt_failure_zeroed (P : Prims) (hP : PrimsLen P) (f : Flavor) (sizes : List Nat) (ldN ldK : Loader)
    (mem : Mem) (m c clen mac ad adlen : Nat)
    (hs : sizes.sum = clen) (hcm : m ≤ c ∨ c + clen ≤ m) (hm : m ≠ 0)
    (hfail : (decryptDetachedMem P f sizes ldN ldK mem m c clen mac ad adlen).1 ≠ 0) :
    (decryptDetachedMem P f sizes ldN ldK mem m c clen mac ad adlen).1 = -1 ∧
    read (decryptDetachedMem P f sizes ldN ldK mem m c clen mac ad adlen).2 m clen = zeros clen ∧
    ∀ a, outside a m clen → (decryptDetachedMem P f sizes ldN ldK mem m c clen mac ad adlen).2 a = mem a := by
  have A := chacha_decrypt_mem P hP f sizes ldN ldK mem m c clen mac ad adlen hs hcm
  simp only [hm, ne_eq, not_false_eq_true, decide_true] at A
  obtain ⟨a1, a2⟩ := A
  rw [a1] at hfail ⊢
  have F := decryptDetached_failure P f true _ _ _ _ _ hfail
  have R : (Aead.decryptDetached P f true (read mem c clen) (read mem mac 16) (read mem ad adlen) (ldN mem) (ldK mem)).rc = -1 := by
    rw [decryptDetached_eq] at hfail ⊢
    simp only [decFinish, Bool.not_true, Bool.false_eq_true, if_false] at hfail ⊢
    split
    · rfl
    · rename_i h; simp [h] at hfail
  refine ⟨R, ?_⟩
  rcases F.2 with h | h
  · exact absurd h (decryptDetached_mbuf_none_false P f _ _ _ _ _)
  · rw [h, length_read] at a2
    exact ⟨a2.2.1, a2.2.2⟩

/-- `m == NULL` (verify only): nothing is stored, the return value is the verdict -/
theorem chacha_decrypt_verify_only (P : Prims) (f : Flavor) (sizes : List Nat) (ldN ldK : Loader)
    (mem : Mem) (c clen mac ad adlen : Nat) :
    (decryptDetachedMem P f sizes ldN ldK mem 0 c clen mac ad adlen).2 = mem ∧
    (decryptDetachedMem P f sizes ldN ldK mem 0 c clen mac ad adlen).1 =
      (Aead.decryptDetached P f false (read mem c clen) (read mem mac 16) (read mem ad adlen) (ldN mem) (ldK mem)).rc := by
  cases f <;> simp [decryptDetachedMem, origDecryptDetached, ietfDecryptDetached, Aead.decryptDetached,
    Poly.init, Poly.update, Poly.final, macData]

/-- XChaCha20-Poly1305-IETF encrypt_detached (HChaCha20 subkey and nonce tail copied to the stack first):
    the value-level `xEncryptDetached` of the message / AD / 24-byte nonce / key found on entry -/
theorem xchacha_encrypt_mem (P : Prims) (hP : PrimsLen P) (sizes : List Nat)
    (mem : Mem) (c mac m mlen ad adlen npub k : Nat)
    (hs : sizes.sum = mlen) (hcm : c ≤ m ∨ m + mlen ≤ c) (hmac : mac + 16 ≤ c ∨ c + mlen ≤ mac) :
    let r := Aead.xEncryptDetached P (read mem m mlen) (read mem ad adlen) (read mem npub 24) (read mem k 32)
    let mem' := (xEncryptDetachedMem P sizes mem c mac m mlen ad adlen npub k).2
    read mem' c mlen = r.1 ∧ read mem' mac 16 = r.2 ∧
      ∀ a, outside a c mlen → outside a mac 16 → mem' a = mem a := by
  simp only [Aead.xEncryptDetached, xNonce_read, xSubkey_read]
  exact chacha_encrypt_mem P hP .ietf sizes _ _ mem c mac m mlen ad adlen hs hcm hmac

/-- XChaCha20-Poly1305-IETF decrypt_detached -/
theorem xchacha_decrypt_mem (P : Prims) (hP : PrimsLen P) (sizes : List Nat)
    (mem : Mem) (m c clen mac ad adlen npub k : Nat)
    (hs : sizes.sum = clen) (hcm : m ≤ c ∨ c + clen ≤ m) :
    let r := Aead.xDecryptDetached P (decide (m ≠ 0)) (read mem c clen) (read mem mac 16) (read mem ad adlen)
      (read mem npub 24) (read mem k 32)
    let res := xDecryptDetachedMem P sizes mem m c clen mac ad adlen npub k
    res.1 = r.rc ∧
    match r.mbuf with
    | none => res.2 = mem
    | some out => out.length = clen ∧ read res.2 m clen = out ∧ ∀ a, outside a m clen → res.2 a = mem a := by
  simp only [Aead.xDecryptDetached, xNonce_read, xSubkey_read]
  exact chacha_decrypt_mem P hP .ietf sizes _ _ mem m c clen mac ad adlen hs hcm

/-- the chunk list used by the driver is a chunking of `len` -/
theorem blocks64_sum (len : Nat) : (blocks64 len).sum = len := by
  unfold blocks64
  split <;> simp <;> omega

/-! ### non-vacuity and the boundary of the guarantee -/

/-- arena: 40 message bytes at 1000, AD 13 bytes at 500, nonce at 300, key at 400, tag slot at 2000 -/
example : read (encryptDetachedMem toyPrims .ietf (blocks64 40) (ptr 300 12) (ptr 400 32) memT 1000 2000 1000 40 500 13).2 1000 40
    = (Aead.encryptDetached toyPrims .ietf (read memT 1000 40) (read memT 500 13) (read memT 300 12) (read memT 400 32)).1 :=
  (chacha_encrypt_mem toyPrims toyPrims_len .ietf (blocks64 40) (ptr 300 12) (ptr 400 32) memT 1000 2000 1000 40 500 13
    (by decide) (by decide) (by decide)).1

/-- direct evaluation, independent of the proofs: in place, byte-wise chunks, original construction -/
example : read (encryptDetachedMem toyPrims .orig (List.replicate 40 1) (ptr 300 8) (ptr 400 32) memT 1000 2000 1000 40 500 13).2 1000 40
    = (Aead.encryptDetached toyPrims .orig (read memT 1000 40) (read memT 500 13) (read memT 300 8) (read memT 400 32)).1 := by
  decide +kernel

/-- PARTIAL overlap is outside the guarantee (and outside the documented API): output one byte AFTER the
    input, byte-wise stream XOR — the ciphertext is NOT the one of the disjoint call -/
theorem chacha_partial_overlap_differs :
    read (encryptDetachedMem toyPrims .ietf (List.replicate 8 1) (ptr 300 12) (ptr 400 32) memT 1001 2000 1000 8 500 13).2 1001 8
    ≠ (Aead.encryptDetached toyPrims .ietf (read memT 1000 8) (read memT 500 13) (read memT 300 12) (read memT 400 32)).1 := by
  decide +kernel

/-- … whereas output BEFORE the input (`c = m − 1`) happens to work with every chunking (not documented) -/
example : read (encryptDetachedMem toyPrims .ietf (List.replicate 8 1) (ptr 300 12) (ptr 400 32) memT 999 2000 1000 8 500 13).2 999 8
    = (Aead.encryptDetached toyPrims .ietf (read memT 1000 8) (read memT 500 13) (read memT 300 12) (read memT 400 32)).1 := by
  decide +kernel

/-- the tag inside the ciphertext region is NOT allowed (hypothesis `hmac` is needed) -/
example : read (encryptDetachedMem toyPrims .ietf (blocks64 40) (ptr 300 12) (ptr 400 32) memT 1000 1010 1000 40 500 13).2 1000 40
    ≠ (Aead.encryptDetached toyPrims .ietf (read memT 1000 40) (read memT 500 13) (read memT 300 12) (read memT 400 32)).1 := by
  decide +kernel

/-- a memory holding a valid IETF ciphertext (24 bytes) at 1000 and its tag at 2000 (AD at 500, nonce 300, key 400) -/
def memV : Mem :=
  let r := Aead.encryptDetached toyPrims .ietf (read memT 600 24) (read memT 500 13) (read memT 300 12) (read memT 400 32)
  write (write memT 1000 r.1) 2000 r.2

/-- the code as it is, in place: accepted, plaintext recovered -/
theorem real_order_accepts_inplace :
    (ietfDecryptDetached toyPrims (blocks64 24) (ptr 300 12) (ptr 400 32) memV 1000 1000 24 2000 500 13).1 = 0 ∧
    read (ietfDecryptDetached toyPrims (blocks64 24) (ptr 300 12) (ptr 400 32) memV 1000 1000 24 2000 500 13).2 1000 24
      = read memT 600 24 := by
  decide +kernel

/-- NEGATIVE CONTROL (seeded change C13-6, keystream XORed into `m` before Poly1305 runs over `c`):
    in place the SAME valid ciphertext is rejected (and the buffer zeroed) … -/
theorem seeded_C13_6_rejects_inplace :
    (ietfDecryptDetachedSeeded toyPrims (blocks64 24) (ptr 300 12) (ptr 400 32) memV 1000 1000 24 2000 500 13).1 = -1 ∧
    read (ietfDecryptDetachedSeeded toyPrims (blocks64 24) (ptr 300 12) (ptr 400 32) memV 1000 1000 24 2000 500 13).2 1000 24
      = zeros 24 := by
  decide +kernel

/-- … while with disjoint buffers the seeded code is indistinguishable from the real one -/
theorem seeded_C13_6_accepts_disjoint :
    (ietfDecryptDetachedSeeded toyPrims (blocks64 24) (ptr 300 12) (ptr 400 32) memV 3000 1000 24 2000 500 13).1 = 0 ∧
    read (ietfDecryptDetachedSeeded toyPrims (blocks64 24) (ptr 300 12) (ptr 400 32) memV 3000 1000 24 2000 500 13).2 3000 24
      = read memT 600 24 := by
  decide +kernel

/-- failed decryption in place: −1 and the ciphertext region is zero (tag at 2000 replaced by the one at 2100) -/
example : (ietfDecryptDetached toyPrims (blocks64 24) (ptr 300 12) (ptr 400 32) memV 1000 1000 24 2100 500 13).1 = -1 ∧
    read (ietfDecryptDetached toyPrims (blocks64 24) (ptr 300 12) (ptr 400 32) memV 1000 1000 24 2100 500 13).2 1000 24 = zeros 24 := by
  decide +kernel

/-! ## Part 2: AEGIS-128L / AEGIS-256 block loops (aegis*_common.h), generic over the variant -/

section Aegis
open Sodium.Model.AegisRef
variable {τ : Type} (V : Variant τ)

/-- encrypt_detached on memory, output at or before the input (`c = m`: in place) or disjoint: return value,
    ciphertext and tag of the list-level `AegisRef.encrypt_detached` on the bytes found ON ENTRY; nothing else is
    written.  (The tag must not land inside the ciphertext; AD, nonce, key may lie anywhere.) -/
theorem aegis_encrypt_mem (hB : BlockLens V) (klen nlen : Nat) (mem : Mem) (c mac maclen m mlen ad adlen npub k : Nat)
    (hcm : c ≤ m ∨ m + mlen ≤ c) (hmac : mac + maclen ≤ c ∨ c + mlen ≤ mac) :
    let r := AegisRef.encrypt_detached V maclen (read mem m mlen) (read mem ad adlen) (read mem npub nlen) (read mem k klen)
    let res := aegisEncryptDetached V klen nlen mem c mac maclen m mlen ad adlen npub k
    res.1 = r.1 ∧ read res.2 c mlen = r.2.1 ∧ read res.2 mac maclen = r.2.2 ∧
      ∀ a, outside a c mlen → outside a mac maclen → res.2 a = mem a := by
  intro r res
  obtain ⟨e, hl1⟩ := aegisEncryptDetached_eq V hB klen nlen mem c mac maclen m mlen ad adlen npub k hcm
  have hl2 : r.2.2.length = maclen := aegis_enc_mac_len V hB _ _ _ _ _
  have e' : res = (r.1, write (write mem c r.2.1) mac r.2.2) := e
  rw [e']
  refine ⟨rfl, ?_, read_write_same _ _ _ _ hl2.symm, ?_⟩
  · show read (write (write mem c r.2.1) mac r.2.2) c mlen = r.2.1
    rw [read_write_disj _ _ _ _ _ (by rw [hl2]; omega), read_write_same _ _ _ _ hl1.symm]
  · intro a h1 h2
    unfold outside at h1 h2
    show write (write mem c r.2.1) mac r.2.2 a = mem a
    rw [write_outside _ _ _ _ (by rw [hl2]; exact h2), write_outside _ _ _ _ (by rw [hl1]; exact h1)]

/-- decrypt_detached on memory, output at or before the input (`m = c`: in place) or disjoint, and the tag
    OUTSIDE the output region (it is loaded by crypto_verify AFTER the plaintext stores): return value of the
    list-level function on the ciphertext / tag found on entry; the output region holds what it writes
    (plaintext, or zeros after a bad tag); `m == NULL`: memory untouched. -/
theorem aegis_decrypt_mem (hB : BlockLens V) (klen nlen : Nat) (mem : Mem) (m c clen mac maclen ad adlen npub k : Nat)
    (hcm : m ≤ c ∨ c + clen ≤ m) (hmac : m = 0 ∨ mac + maclen ≤ m ∨ m + clen ≤ mac) :
    let r := AegisRef.decrypt_detached V (decide (m ≠ 0)) (read mem c clen) (read mem mac maclen) maclen (read mem ad adlen)
      (read mem npub nlen) (read mem k klen)
    let res := aegisDecryptDetached V klen nlen mem m c clen mac maclen ad adlen npub k
    res.1 = r.1 ∧
    match r.2 with
    | none => res.2 = mem
    | some out => out.length = clen ∧ read res.2 m clen = out ∧ ∀ a, outside a m clen → res.2 a = mem a := by
  intro r res
  obtain ⟨e, hl⟩ := aegisDecryptDetached_eq V hB klen nlen mem m c clen mac maclen ad adlen npub k hcm hmac
  have e' : res = (r.1, match r.2 with | none => mem | some out => write mem m out) := e
  rw [e']
  refine ⟨rfl, ?_⟩
  cases hmb : r.2 with
  | none => rfl
  | some out =>
    have hlo : out.length = clen := hl out hmb
    refine ⟨hlo, read_write_same _ _ _ _ hlo.symm, ?_⟩
    intro a ha
    unfold outside at ha
    exact write_outside _ _ _ _ (by omega)

/-- failed decryption with an output pointer: the OUTPUT region is zeroed (in place: the ciphertext is gone) -/
theorem aegis_decrypt_failure_zeroed (hB : BlockLens V) (klen nlen : Nat) (mem : Mem) (m c clen mac maclen ad adlen npub k : Nat)
    (hcm : m ≤ c ∨ c + clen ≤ m) (hm : m ≠ 0) (hmac : mac + maclen ≤ m ∨ m + clen ≤ mac)
    (hfail : (aegisDecryptDetached V klen nlen mem m c clen mac maclen ad adlen npub k).1 ≠ 0) :
    read (aegisDecryptDetached V klen nlen mem m c clen mac maclen ad adlen npub k).2 m clen = zeros clen := by
  have A := aegis_decrypt_mem V hB klen nlen mem m c clen mac maclen ad adlen npub k hcm (Or.inr hmac)
  simp only [hm, ne_eq, not_false_eq_true, decide_true] at A
  obtain ⟨a1, a2⟩ := A
  rw [a1] at hfail
  have F := aegis_dec_failure V _ _ _ _ _ _ hfail
  rw [F, length_read] at a2
  exact a2.2.1

/-- `m == NULL`: nothing is stored -/
theorem aegis_decrypt_verify_only (hB : BlockLens V) (klen nlen : Nat) (mem : Mem) (c clen mac maclen ad adlen npub k : Nat) :
    (aegisDecryptDetached V klen nlen mem 0 c clen mac maclen ad adlen npub k).2 = mem := by
  have A := aegis_decrypt_mem V hB klen nlen mem 0 c clen mac maclen ad adlen npub k (Or.inl (Nat.zero_le _)) (Or.inl rfl)
  simp only [ne_eq, not_true_eq_false, decide_false] at A
  rw [aegis_dec_verify_only] at A
  exact A.2

/-- in place (`c == m`) = the run with DISJOINT buffers on the same inputs: same return value, ciphertext, tag -/
theorem aegis_encrypt_inplace_eq_disjoint (hB : BlockLens V) (klen nlen : Nat) (mem mem₂ : Mem)
    (c mac maclen mlen ad adlen npub k c₂ mac₂ m₂ ad₂ npub₂ k₂ : Nat)
    (hmac : mac + maclen ≤ c ∨ c + mlen ≤ mac) (hmac₂ : mac₂ + maclen ≤ c₂ ∨ c₂ + mlen ≤ mac₂)
    (hdisj : c₂ + mlen ≤ m₂ ∨ m₂ + mlen ≤ c₂)
    (hm : read mem₂ m₂ mlen = read mem c mlen) (had : read mem₂ ad₂ adlen = read mem ad adlen)
    (hn : read mem₂ npub₂ nlen = read mem npub nlen) (hk : read mem₂ k₂ klen = read mem k klen) :
    (aegisEncryptDetached V klen nlen mem c mac maclen c mlen ad adlen npub k).1 =
      (aegisEncryptDetached V klen nlen mem₂ c₂ mac₂ maclen m₂ mlen ad₂ adlen npub₂ k₂).1 ∧
    read (aegisEncryptDetached V klen nlen mem c mac maclen c mlen ad adlen npub k).2 c mlen =
      read (aegisEncryptDetached V klen nlen mem₂ c₂ mac₂ maclen m₂ mlen ad₂ adlen npub₂ k₂).2 c₂ mlen ∧
    read (aegisEncryptDetached V klen nlen mem c mac maclen c mlen ad adlen npub k).2 mac maclen =
      read (aegisEncryptDetached V klen nlen mem₂ c₂ mac₂ maclen m₂ mlen ad₂ adlen npub₂ k₂).2 mac₂ maclen := by
  obtain ⟨a0, a1, a2, _⟩ := aegis_encrypt_mem V hB klen nlen mem c mac maclen c mlen ad adlen npub k (Or.inl (Nat.le_refl _)) hmac
  obtain ⟨b0, b1, b2, _⟩ := aegis_encrypt_mem V hB klen nlen mem₂ c₂ mac₂ maclen m₂ mlen ad₂ adlen npub₂ k₂ (by omega) hmac₂
  rw [a0, a1, a2, b0, b1, b2, hm, had, hn, hk]
  exact ⟨rfl, rfl, rfl⟩

/-- in place (`m == c`) decryption = the run with DISJOINT buffers on the same inputs: same verdict and output -/
theorem aegis_decrypt_inplace_eq_disjoint (hB : BlockLens V) (klen nlen : Nat) (mem mem₂ : Mem)
    (c clen mac maclen ad adlen npub k m₂ c₂ mac₂ ad₂ npub₂ k₂ : Nat) (hc0 : c ≠ 0) (hm0 : m₂ ≠ 0)
    (hmac : mac + maclen ≤ c ∨ c + clen ≤ mac) (hmac₂ : mac₂ + maclen ≤ m₂ ∨ m₂ + clen ≤ mac₂)
    (hdisj : m₂ + clen ≤ c₂ ∨ c₂ + clen ≤ m₂)
    (hc : read mem₂ c₂ clen = read mem c clen) (hmc : read mem₂ mac₂ maclen = read mem mac maclen)
    (had : read mem₂ ad₂ adlen = read mem ad adlen)
    (hn : read mem₂ npub₂ nlen = read mem npub nlen) (hk : read mem₂ k₂ klen = read mem k klen) :
    (aegisDecryptDetached V klen nlen mem c c clen mac maclen ad adlen npub k).1 =
      (aegisDecryptDetached V klen nlen mem₂ m₂ c₂ clen mac₂ maclen ad₂ adlen npub₂ k₂).1 ∧
    read (aegisDecryptDetached V klen nlen mem c c clen mac maclen ad adlen npub k).2 c clen =
      read (aegisDecryptDetached V klen nlen mem₂ m₂ c₂ clen mac₂ maclen ad₂ adlen npub₂ k₂).2 m₂ clen := by
  have A := aegis_decrypt_mem V hB klen nlen mem c c clen mac maclen ad adlen npub k (Or.inl (Nat.le_refl _)) (Or.inr hmac)
  have B := aegis_decrypt_mem V hB klen nlen mem₂ m₂ c₂ clen mac₂ maclen ad₂ adlen npub₂ k₂ (by omega) (Or.inr hmac₂)
  simp only [hc, hmc, had, hn, hk, hm0, hc0, ne_eq, not_false_eq_true, decide_true] at A B
  obtain ⟨a1, a2⟩ := A
  obtain ⟨b1, b2⟩ := B
  refine ⟨a1.trans b1.symm, ?_⟩
  cases hmb : (AegisRef.decrypt_detached V true (read mem c clen) (read mem mac maclen) maclen (read mem ad adlen)
      (read mem npub nlen) (read mem k klen)).2 with
  | none => exact absurd hmb (aegis_dec_wantM V _ _ _ _ _ _)
  | some out =>
    rw [hmb] at a2 b2
    rw [a2.2.1, b2.2.1]

end Aegis

/-- the hypotheses on the variant hold for both algorithms over every correct AES backend (software AES:
    `AegisRefP.soft_ok`), so the theorems above apply to AEGIS-128L (RATE 32) and AEGIS-256 (RATE 16) as compiled -/
theorem aegis128l_blockLens : BlockLens (Sodium.Model.AegisRef.A128L.variant Sodium.Model.AegisRef.soft) :=
  blockLens128L Sodium.AegisRefP.soft_ok
theorem aegis256_blockLens : BlockLens (Sodium.Model.AegisRef.A256.variant Sodium.Model.AegisRef.soft) :=
  blockLens256 Sodium.AegisRefP.soft_ok

/-! ### AEGIS: non-vacuity and boundary (toy variant: the loop structure is what is exercised) -/

/-- a toy variant (RATE 2, one-byte state that depends on every byte absorbed) -/
def toyV : AegisRef.Variant UInt8 where
  RATE := 2
  init := fun k n => UInt8.ofNat (toyChk (k ++ n))
  absorb := fun p st => st * 3 + p.getD 0 0 + 2 * p.getD 1 0 + 1
  absorb2 := fun p st => (st * 3 + p.getD 0 0 + 2 * p.getD 1 0 + 1) * 3 + p.getD 2 0 + 2 * p.getD 3 0 + 1
  enc := fun p st => ([p.getD 0 0 ^^^ st, p.getD 1 0 ^^^ (st + 1)], st * 5 + p.getD 0 0 + 3 * p.getD 1 0 + 7)
  dec := fun p st => ([p.getD 0 0 ^^^ st, p.getD 1 0 ^^^ (st + 1)],
    st * 5 + (p.getD 0 0 ^^^ st) + 3 * (p.getD 1 0 ^^^ (st + 1)) + 7)
  declast := fun p len st => ([p.getD 0 0 ^^^ st].take len, st * 5 + (p.getD 0 0 ^^^ st) + 7)
  mac := fun maclen a b st => (0, toLE maclen (st.toNat + 256 * a.toNat + 65536 * b.toNat + 1))

theorem toyV_blockLens : BlockLens toyV where
  rpos := by decide
  enc_len := fun _ _ => rfl
  dec_len := fun _ _ => rfl
  declast_len := by
    intro p len st h1 h2 h3
    have h2' : len < 2 := h2
    have : len = 1 := by omega
    subst this; rfl
  mac_len := fun _ _ _ _ => toLE_length _ _

example : read (aegisEncryptDetached toyV 16 16 memT 1000 2000 16 1000 7 500 5 300 400).2 1000 7
    = (AegisRef.encrypt_detached toyV 16 (read memT 1000 7) (read memT 500 5) (read memT 300 16) (read memT 400 16)).2.1 :=
  (aegis_encrypt_mem toyV toyV_blockLens 16 16 memT 1000 2000 16 1000 7 500 5 300 400 (by decide) (by decide)).2.1

example : read (aegisEncryptDetached toyV 16 16 memT 1000 2000 16 1000 7 500 5 300 400).2 1000 7
    = (AegisRef.encrypt_detached toyV 16 (read memT 1000 7) (read memT 500 5) (read memT 300 16) (read memT 400 16)).2.1 := by
  decide +kernel

theorem aegis_partial_overlap_differs :
    read (aegisEncryptDetached toyV 16 16 memT 1001 2000 16 1000 7 500 5 300 400).2 1001 7
    ≠ (AegisRef.encrypt_detached toyV 16 (read memT 1000 7) (read memT 500 5) (read memT 300 16) (read memT 400 16)).2.1 := by
  decide +kernel

def memA : Mem :=
  let r := AegisRef.encrypt_detached toyV 16 (read memT 600 7) (read memT 500 5) (read memT 300 16) (read memT 400 16)
  write (write memT 1000 r.2.1) 2000 r.2.2

/-- in place: a valid ciphertext is accepted and the plaintext recovered -/
example : (aegisDecryptDetached toyV 16 16 memA 1000 1000 7 2000 16 500 5 300 400).1 = 0 ∧
    read (aegisDecryptDetached toyV 16 16 memA 1000 1000 7 2000 16 500 5 300 400).2 1000 7 = read memT 600 7 := by
  decide +kernel

/-- BOUNDARY (differs from the ChaCha20-Poly1305 functions, which consume the tag before the first store): the tag
    is loaded AFTER the plaintext stores, so a tag lying inside the output region makes a VALID ciphertext fail.
    Hypothesis `hmac` of `aegis_decrypt_mem` is needed. (Not reachable through the combined-mode API, where the tag
    follows the ciphertext; the detached API does not document it.) -/
theorem aegis_tag_inside_output_differs :
    (AegisRef.decrypt_detached toyV true (read memA 1000 7) (read memA 2000 16) 16 (read memA 500 5) (read memA 300 16) (read memA 400 16)).1 = 0 ∧
    (aegisDecryptDetached toyV 16 16 memA 1996 1000 7 2000 16 500 5 300 400).1 ≠ 0 := by
  decide +kernel

/-! ## Part 3: AES-256-GCM block schedules (aead_aes256gcm_aesni.c), message part -/

/-- encrypt: if the transcribed loop schedule for length `n` passes `encCheck` (every GHASH load comes after the store
    of those bytes, stores tile the message in order), then with the output at or before the input (`dst = src`:
    in place) or disjoint the bytes stored are the whole-message XOR with the keystream, and GHASH absorbed exactly
    that ciphertext (zero-padded to a block) — nothing depends on the placement. -/
theorem gcm_encrypt_mem (ks : Bytes) (mem : Mem) (dst src n : Nat)
    (hchk : encCheck n (encBulk n).2 (0, 0) = some ((encBulk n).1, (encBulk n).1))
    (h : dst ≤ src ∨ src + n ≤ dst) (hks : n ≤ ks.length) :
    gcmEncryptMem ks mem dst src n =
      (write mem dst (xorBytes (read mem src n) ks),
       xorBytes (read mem src n) ks ++ (if n - (encBulk n).1 ≠ 0 then zeros (16 - (n - (encBulk n).1)) else [])) := by
  obtain ⟨e, _, hi⟩ := gRun_enc ks mem dst src n h hks _ 0 0 _ _ hchk (Nat.le_refl _) (Nat.zero_le _)
  simp only [List.take_zero, write_nil] at e
  have hCT : (xorBytes (read mem src n) ks).length = n := by simp [aead_xorBytes_length]; omega
  have hL : ((xorBytes (read mem src n) ks).take (encBulk n).1).length = (encBulk n).1 := by
    rw [List.length_take, hCT]; omega
  simp only [gcmEncryptMem, e]
  by_cases hl : n - (encBulk n).1 = 0
  · have : (encBulk n).1 = n := by omega
    simp only [hl, ne_eq, not_true_eq_false, if_false, List.append_nil]
    rw [this, List.take_of_length_le (by omega)]
  · simp only [hl, ne_eq, not_false_eq_true, if_true]
    rw [read_write_disj _ _ _ _ _ (by rw [hL]; omega), xor_slice mem src n _ _ ks (by omega),
      write_write_adj' _ _ _ _ _ hL, take_take_drop]
    have : (encBulk n).1 + (n - (encBulk n).1) = n := by omega
    rw [this, List.take_of_length_le (by omega)]

/-- decrypt: if the schedule passes `decCheck` (every GHASH load of ciphertext bytes comes BEFORE the store that
    overwrites them when `m == c`), the bytes stored are the whole-message XOR and GHASH absorbed the ciphertext found
    ON ENTRY (zero-padded) — so the tag comparison and the plaintext are those of the disjoint-buffer run. -/
theorem gcm_decrypt_mem (ks : Bytes) (mem : Mem) (dst src n : Nat)
    (hchk : decCheck n (decBulk n).2 (0, 0) = some ((decBulk n).1, (decBulk n).1))
    (h : dst ≤ src ∨ src + n ≤ dst) (hks : n ≤ ks.length) :
    gcmDecryptMem ks mem dst src n =
      (write mem dst (xorBytes (read mem src n) ks),
       read mem src n ++ (if n - (decBulk n).1 ≠ 0 then zeros (16 - (n - (decBulk n).1)) else [])) := by
  obtain ⟨e, hi, _⟩ := gRun_dec ks mem dst src n h hks _ 0 0 _ _ hchk (Nat.zero_le _) (Nat.zero_le _)
  simp only [List.take_zero, write_nil] at e
  have hCT : (xorBytes (read mem src n) ks).length = n := by simp [aead_xorBytes_length]; omega
  have hL : ((xorBytes (read mem src n) ks).take (decBulk n).1).length = (decBulk n).1 := by
    rw [List.length_take, hCT]; omega
  simp only [gcmDecryptMem, e]
  by_cases hl : n - (decBulk n).1 = 0
  · have : (decBulk n).1 = n := by omega
    simp only [hl, ne_eq, not_true_eq_false, if_false, List.append_nil]
    rw [this, List.take_of_length_le (by omega), List.take_of_length_le (by simp)]
  · simp only [hl, ne_eq, not_false_eq_true, if_true]
    have e2 : read mem (src + (decBulk n).1) (n - (decBulk n).1) = ((read mem src n).drop (decBulk n).1).take (n - (decBulk n).1) := by
      rw [drop_read _ _ _ _ (by omega), take_read _ _ _ _ (by omega)]
    rw [read_write_disj _ _ _ _ _ (by rw [hL]; omega), xor_slice mem src n _ _ ks (by omega),
      write_write_adj' _ _ _ _ _ hL, take_take_drop, e2, take_take_drop]
    have : (decBulk n).1 + (n - (decBulk n).1) = n := by omega
    rw [this, List.take_of_length_le (by omega), List.take_of_length_le (by simp)]

/-- both checks for one length -/
def schedulesOk (n : Nat) : Prop :=
  encCheck n (encBulk n).2 (0, 0) = some ((encBulk n).1, (encBulk n).1) ∧
  decCheck n (decBulk n).2 (0, 0) = some ((decBulk n).1, (decBulk n).1)

instance (n : Nat) : Decidable (schedulesOk n) := by unfold schedulesOk; infer_instance

theorem gcm_schedules_ok_a : ∀ n, n < 512 → schedulesOk n := by decide +kernel
theorem gcm_schedules_ok_b : ∀ n, n < 288 → schedulesOk (n + 512) := by decide +kernel
theorem gcm_schedules_ok_c : ∀ n, n < 224 → schedulesOk (n + 800) := by decide +kernel

/-- the transcribed schedules pass the checks for EVERY message length below 1024 bytes (all loop shapes: the 2×7-block
    pipeline with several iterations, the 7-, 4-, 2-, 1-block loops, every tail length).  (For arbitrary `n` this is an
    induction over the five loops that has NOT been done: `gcm_encrypt_mem` / `gcm_decrypt_mem` carry the check as a
    hypothesis.) -/
theorem gcm_schedules_ok_below_1024 : ∀ n, n < 1024 →
    encCheck n (encBulk n).2 (0, 0) = some ((encBulk n).1, (encBulk n).1) ∧
    decCheck n (decBulk n).2 (0, 0) = some ((decBulk n).1, (decBulk n).1) := by
  intro n hn
  by_cases h1 : n < 512
  · exact gcm_schedules_ok_a n h1
  · by_cases h2 : n < 800
    · have := gcm_schedules_ok_b (n - 512) (by omega)
      rwa [show n - 512 + 512 = n by omega] at this
    · have := gcm_schedules_ok_c (n - 800) (by omega)
      rwa [show n - 800 + 800 = n by omega] at this

/-- in place, every length below 1024, every keystream, every prior memory: ciphertext and GHASH input of the
    disjoint run -/
theorem gcm_encrypt_inplace_below_1024 (ks : Bytes) (mem : Mem) (c n : Nat) (hn : n < 1024) (hks : n ≤ ks.length) :
    (gcmEncryptMem ks mem c c n).1 = write mem c (xorBytes (read mem c n) ks) ∧
    (gcmEncryptMem ks mem c c n).2.take n = xorBytes (read mem c n) ks := by
  rw [gcm_encrypt_mem ks mem c c n (gcm_schedules_ok_below_1024 n hn).1 (Or.inl (Nat.le_refl _)) hks]
  refine ⟨rfl, ?_⟩
  rw [List.take_left']
  simp [aead_xorBytes_length]; omega

theorem gcm_decrypt_inplace_below_1024 (ks : Bytes) (mem : Mem) (c n : Nat) (hn : n < 1024) (hks : n ≤ ks.length) :
    (gcmDecryptMem ks mem c c n).1 = write mem c (xorBytes (read mem c n) ks) ∧
    (gcmDecryptMem ks mem c c n).2.take n = read mem c n := by
  rw [gcm_decrypt_mem ks mem c c n (gcm_schedules_ok_below_1024 n hn).2 (Or.inl (Nat.le_refl _)) hks]
  refine ⟨rfl, ?_⟩
  rw [List.take_left']
  simp

/-- BOUNDARY: a decrypt schedule that stores before it hashes (what the ENCRYPT loop order would do) fails the check … -/
example : decCheck 32 [.xor 0 16, .gh 0 16, .xor 16 16, .gh 16 16] (0, 0) = none := by decide

/-- … and, run in place, feeds GHASH the PLAINTEXT instead of the ciphertext -/
theorem gcm_store_before_hash_differs :
    (gRun ((List.range 32).map fun i => UInt8.ofNat (i + 1)) 1000 1000 1000 [.xor 0 16, .gh 0 16, .xor 16 16, .gh 16 16] (memT, [])).2
    ≠ read memT 1000 32 := by
  decide +kernel

/-- PARTIAL overlap (`dst = src + 16`, 48 bytes: the first store destroys the second block before it is loaded) -/
theorem gcm_partial_overlap_differs :
    read (gcmEncryptMem ((List.range 48).map fun i => UInt8.ofNat (i + 1)) memT 1016 1000 48).1 1016 48
    ≠ xorBytes (read memT 1000 48) ((List.range 48).map fun i => UInt8.ofNat (i + 1)) := by
  decide +kernel

end Sodium.C13Aead
