import SodiumModel.Model.X86Sse
import SodiumModel.Proofs.X86Sse
import Generated.SalsaXmm6Asm
/-
  C03 / C10 — the hand-written SSE2 assembly `crypto_stream/salsa20/xmm6/salsa20_xmm6-asm.S`, as the instruction list
  that `tools_new/asm2lean_salsa.py` regenerates from the current text of the file (`Generated/SalsaXmm6Asm.lean`),
  executed by the interpreter of `Model/X86Sse.lean`.

  STATUS: the general theorems (a)-(e) of the plan (prologue, 64-byte block, 4-block path, tail, end to end) are NOT
  proved. What is kernel-checked here: the regenerated program is well formed (every jump goes where the label table
  says, nothing else jumps; entry points are the labels) and the memory of the interpreter behaves as a memory
  (read after write, byte and 32-bit word), which is what a symbolic execution of the prologue needs.
  The regenerated instruction list is tied to the library by the driver cross-run (`Driver/C03.lean`, `MODEL-DISAGREE`).
-/
namespace Sodium.C03Asm
open Sodium Sodium.Model.X86Sse Generated.SalsaXmm6Asm

/-- every jump of the regenerated program targets the index of the label it names; no other instruction is a jump -/
theorem program_jumps_resolved :
    (jumps.all fun (i, l) => ((prog.fetch i).bind targetOf) == labels.lookup l && (labels.lookup l).isSome) = true ∧
    ((List.range (prog.size * 32)).all fun i => ((prog.fetch i).bind targetOf).isSome == (jumps.lookup i).isSome) = true := by
  decide +kernel

/-- the two entry points are the two global labels -/
theorem entries_are_labels :
    labels.lookup "stream_salsa20_xmm6" = some entry_stream ∧ labels.lookup "stream_salsa20_xmm6_xor_ic" = some entry_xor_ic := by
  decide +kernel

/-- a 32-bit store is read back by a 32-bit load at the same address (below `MEM_LIMIT`) -/
theorem load_after_store (m : Mem) (a : Nat) (v : UInt32) (h : a + 3 < MEM_LIMIT) : (m.write32 a v).read32 a = v :=
  X86SseP.read32_write32_same m a v h

/-- and does not change any disjoint 32-bit word -/
theorem load_after_disjoint_store (m : Mem) (a b : Nat) (v : UInt32) (h : a + 4 ≤ b ∨ b + 4 ≤ a) :
    (m.write32 a v).read32 b = m.read32 b :=
  X86SseP.read32_write32_disj m a b v h

example : (Mem.write32 #[] 544 0xdeadbeef).read32 544 = 0xdeadbeef := load_after_store _ _ _ (by decide)

end Sodium.C03Asm
