import SodiumModel.Proofs.EdSign2Sign
import SodiumModel.Proofs.EdSign2Round
/-
  C06 (end to end, continued) — closed forms of the point codecs and keygen / sign = RFC 8032.
  Property theorems only; lemmas live in `Proofs/EdSign2{Codec,Decode,Group,Sign}.lean` (namespace `EdSignP`).

  1. `ge25519_frombytes` / `ge25519_frombytes_negate_vartime` over the specification field = LAX RFC 8032 §5.1.3 decoding
     `EdSignP.decodeP` (y = low 255 bits reduced mod p, NOT rejected when ≥ p; x = the RFC root with parity = bit 255;
     x = 0 with bit 255 set ACCEPTED as x = 0), resp. its negation; `decodeP` is stated through the root selection `pick`
     whose meaning is `C06Full.rfc_candidate_correct` (the selected x is a canonical root of (dy²+1)·x² = y²−1, failure iff
     none exists).  (Equality of `decodeP` with the executable `Spec.Ed25519.decodeLax` is NOT proved: every attempt to
     unfold `Spec.Ed25519.recoverX` diverges in the elaborator.)  The two deviations from strict RFC decoding are shown
     end to end on concrete inputs.
     `ge25519_p3_tobytes` / `ge25519_tobytes` = `Spec.Ed25519.encode` (RFC 8032 §5.1.2 of the affine point X/Z, Y/Z), for
     EVERY (X, Y, Z[, T]) (for Z = 0 both sides use 1/0 = 0).
  2. `EdSignP.Faithful`: the explicit extra hypothesis on top of `CurveGroup` (representatives are curve points with Z ≠ 0,
     T·Z = X·Y; two representatives of one group element are the same projective point); under it
     `crypto_sign_ed25519_seed_keypair` = `Spec.Ed25519.publicKey` and `_crypto_sign_ed25519_detached` (both the pure and the
     `ph` form) = `Spec.Ed25519.signWith`, bytes for bytes, for every seed and message.
     SATISFIABILITY: `Faithful` holds for the group of points of edwards25519 with `Rep P g := P is a projective
     representative of g` (completeness of the twisted Edwards addition law for a = −1 a square, d a non-square); that
     instance (the group law itself) is NOT constructed here.  The degenerate instance `Rep := True` of `C06Ge` is refuted
     (`faithful_excludes_trivial`), so the hypothesis is a genuine strengthening.
     decode ∘ encode = id on curve points (`decode_encode_id`, `frombytes_p3_tobytes`).
  NOT proved: completeness (sign then verify = 0), the group-level reading of the final test.
-/
open Sodium Sodium.Spec Sodium.Model Sodium.Model.Ge25519 Sodium.Model.Ed25519Full Sodium.EdSignP
open Sodium.Ge25519P (CurveGroup toPoint p2Point)
namespace Sodium.C06Full2

/-! ## 1. the point codecs -/

/-- `ge25519_frombytes(h, s)`: returns 0 iff the lax RFC 8032 decoding succeeds (else −1), and then `*h` is the decoded
    point (x, y, 1, x·y), coordinate by coordinate -/
theorem frombytes_is_lax_decode (s : Bytes) :
    (ge25519_frombytes specGe s).1 = (if (decodeP s).isSome then 0 else -1) ∧
    ∀ P, decodeP s = some P → ge25519_frombytes specGe s = (0, ofPoint P) := frombytes_decode s

/-- `ge25519_frombytes_negate_vartime(h, s)`: same return value, `*h` = the NEGATED decoded point (−x, y, 1, −x·y) -/
theorem frombytes_negate_is_lax_decode_neg (s : Bytes) :
    (ge25519_frombytes_negate_vartime specGe s).1 = (if (decodeP s).isSome then 0 else -1) ∧
    ∀ P, decodeP s = some P → ge25519_frombytes_negate_vartime specGe s = (0, ofPoint (Ed25519.neg P)) :=
  frombytes_negate_decode s

/-- the statement-level closed forms (also describing `*h` on failure) -/
theorem frombytes_closed_form (s : Bytes) :
    ge25519_frombytes specGe s =
      (if (pick (uOf (F25519.fromBytesMasked s)) (vOf (F25519.fromBytesMasked s))
            (cand1 (uOf (F25519.fromBytesMasked s)) (vOf (F25519.fromBytesMasked s)))).isSome then 0 else -1,
       fbPoint (F25519.fromBytesMasked s) (signBit s)
         (pick (uOf (F25519.fromBytesMasked s)) (vOf (F25519.fromBytesMasked s))
            (cand1 (uOf (F25519.fromBytesMasked s)) (vOf (F25519.fromBytesMasked s))))
         (F25519.mul (cand1 (uOf (F25519.fromBytesMasked s)) (vOf (F25519.fromBytesMasked s))) F25519.sqrtM1)) :=
  frombytes_closed s

/-- DEVIATION 1 (end to end, concrete): y = 1 with the sign bit set (01 00 … 00 80).  x = 0, so RFC 8032 §5.1.3 step 4
    rejects ("x = 0 and x_0 = 1"); `ge25519_frombytes` returns 0 and the neutral element (0, 1, 1, 0) -/
theorem frombytes_accepts_x0_with_sign_bit :
    (let r := ge25519_frombytes specGe (1 :: List.replicate 30 0 ++ [0x80]); (r.1, r.2.X, r.2.Y, r.2.Z, r.2.T)) = (0, 0, 1, 1, 0) ∧
    (Ed25519.decodeRfc (1 :: List.replicate 30 0 ++ [0x80])).isNone = true := by decide +kernel

/-- DEVIATION 2 (concrete): the non-canonical y = p + 1 (ee ff … ff 7f) is reduced to y = 1 and accepted; RFC 8032
    rejects y ≥ p.  (`_crypto_sign_ed25519_verify_detached` applies `ge25519_is_canonical` to pk but NOT to R.) -/
theorem frombytes_accepts_noncanonical_y :
    (let r := ge25519_frombytes specGe (0xee :: List.replicate 30 0xff ++ [0x7f]); (r.1, r.2.X, r.2.Y, r.2.Z, r.2.T)) = (0, 0, 1, 1, 0) ∧
    (Ed25519.decodeRfc (0xee :: List.replicate 30 0xff ++ [0x7f])).isNone = true := by decide +kernel

/-- non-vacuity: the RFC 8032 base point encoding 58 66 … 66 decodes to the base point, negated by the `_negate_` form -/
example :
    (let r := ge25519_frombytes specGe (0x58 :: List.replicate 31 0x66); (r.1, r.2.X, r.2.Y, r.2.Z, r.2.T)) =
      (0, Ed25519.basePoint.X, Ed25519.basePoint.Y, 1, Ed25519.basePoint.T) ∧
    (let r := ge25519_frombytes_negate_vartime specGe (0x58 :: List.replicate 31 0x66); (r.1, r.2.X, r.2.Y, r.2.Z, r.2.T)) =
      (0, F25519.neg Ed25519.basePoint.X, Ed25519.basePoint.Y, 1, F25519.neg Ed25519.basePoint.T) := by
  decide +kernel

/-- `ge25519_p3_tobytes` is the RFC 8032 §5.1.2 encoding of the affine point (X/Z, Y/Z): 255-bit little-endian y with
    the parity of x in bit 255 — for every quadruple -/
theorem p3_tobytes_is_encode (h : P3 Nat) : ge25519_p3_tobytes specGe h = Ed25519.encode (toPoint h) := p3_tobytes_eq h

theorem tobytes_is_encode (h : P2 Nat) : ge25519_tobytes specGe h = Ed25519.encode (p2Point h) := tobytes_eq h

/-- spelled out: the 32 bytes are `toLE 32 (y + 2^255·(x mod 2))` with x = X·Z⁻¹, y = Y·Z⁻¹ canonical -/
theorem p3_tobytes_affine (h : P3 Nat) :
    ge25519_p3_tobytes specGe h =
      toLE 32 (F25519.mul h.Y (F25519.inv h.Z) + 2 ^ 255 * (F25519.mul h.X (F25519.inv h.Z) % 2)) ∧
    (ge25519_p3_tobytes specGe h).length = 32 := by
  rw [p3_tobytes_eq]; exact ⟨rfl, encode_length _⟩

/-- decode ∘ encode = id: for every projective point of the curve (`Spec.Ed25519.isOnCurve`: curve equation, T·Z = X·Y,
    Z ≠ 0) decoding its encoding gives back its affine point -/
theorem decode_encode_id (P : Ed25519.Point) (h : Ed25519.isOnCurve P = true) :
    decodeP (Ed25519.encode P) = some (Ed25519.ofAffine (Ed25519.toAffine P).1 (Ed25519.toAffine P).2) :=
  decode_encode P h

/-- at the level of the C functions: `ge25519_frombytes(ge25519_p3_tobytes(h))` succeeds and returns the normalised
    (x, y, 1, x·y) of `h`, and the `_negate_` form its negation, for every curve point `h` -/
theorem frombytes_p3_tobytes (h : P3 Nat) (hc : Ed25519.isOnCurve (toPoint h) = true) :
    ge25519_frombytes specGe (ge25519_p3_tobytes specGe h) =
      (0, ofPoint (Ed25519.ofAffine (Ed25519.toAffine (toPoint h)).1 (Ed25519.toAffine (toPoint h)).2)) ∧
    ge25519_frombytes_negate_vartime specGe (ge25519_p3_tobytes specGe h) =
      (0, ofPoint (Ed25519.neg (Ed25519.ofAffine (Ed25519.toAffine (toPoint h)).1 (Ed25519.toAffine (toPoint h)).2))) := by
  rw [p3_tobytes_eq]
  exact ⟨(frombytes_decode _).2 _ (decode_encode _ hc), (frombytes_negate_decode _).2 _ (decode_encode _ hc)⟩

/-! ## 2. keygen and sign under `CurveGroup` + `Faithful` -/

section
variable {G : Type} [AddCommGroup G] (C : CurveGroup G)

/-- `crypto_sign_ed25519_seed_keypair(pk, sk, seed)`: pk = RFC 8032 §5.1.5 public key, sk = seed ‖ pk -/
theorem seed_keypair_is_rfc (hF : Faithful C) {B : G} (hB : C.Rep Ed25519.basePoint B) (seed : Bytes)
    (hs : seed.length = 32) :
    crypto_sign_ed25519_seed_keypair seed =
      (Ed25519.publicKey Sha512.hash seed, seed ++ Ed25519.publicKey Sha512.hash seed) := keypair_eq C hF hB seed hs

/-- `crypto_sign_ed25519_detached(sig, _, m, mlen, sk)` with sk from `seed_keypair` = RFC 8032 §5.1.6 `sign` -/
theorem detached_is_rfc (hF : Faithful C) {B : G} (hB : C.Rep Ed25519.basePoint B) (seed m : Bytes)
    (hs : seed.length = 32) :
    crypto_sign_ed25519_detached m (crypto_sign_ed25519_seed_keypair seed).2 = Ed25519.sign Sha512.hash seed m := by
  rw [keypair_eq C hF hB seed hs]
  exact sign_eq C hF hB seed m false hs

/-- the prehashed form (`prehashed = 1`, DOM2 prefix "SigEd25519 no Ed25519 collisions" ‖ 01 ‖ 00) on the 64-byte
    SHA-512 of the message = `Spec.Ed25519.signPh` (Ed25519ph of RFC 8032 with empty context) -/
theorem detached_ph_is_rfc (hF : Faithful C) {B : G} (hB : C.Rep Ed25519.basePoint B) (seed msg : Bytes)
    (hs : seed.length = 32) :
    _crypto_sign_ed25519_detached (crypto_hash_sha512 msg) (seed ++ Ed25519.publicKey Sha512.hash seed) true =
      Ed25519.signPh Sha512.hash seed msg := by
  rw [sign_eq C hF hB seed _ true hs, sha_one]
  have : Sign.hinit true = Ed25519.dom2Ph := by decide +kernel
  rw [this]; rfl

/-- for ANY 32 bytes in the second half of sk (the code does not check that they are the public key of the seed): the
    signature is R ‖ S with R = [r]B, S = r + H(dom ‖ R ‖ sk[32..64] ‖ m)·a — i.e. RFC signing with that "public key" hashed -/
theorem detached_any_pk (hF : Faithful C) {B : G} (hB : C.Rep Ed25519.basePoint B) (seed m pk : Bytes) (ph : Bool)
    (hs : seed.length = 32) (hpk : pk.length = 32) :
    (_crypto_sign_ed25519_detached m (seed ++ pk) ph).take 32 =
      Ed25519.encode (Ed25519.scalarMult
        (le (Sha512.hash (Sign.hinit ph ++ (((Sha512.hash seed).drop 32).take 32 ++ m))) % Ed25519.L) Ed25519.basePoint) := by
  rw [sign_core C hF hB seed m pk ph hs hpk, List.take_left' (encode_length _)]

/-- the specification's double-and-add represents n·g (used to link `Spec.Ed25519.scalarMult` to `C06Ge`) -/
theorem spec_scalarMult_rep {P : Ed25519.Point} {g : G} (hP : C.Rep P g) (n : Nat) :
    C.Rep (Ed25519.scalarMult n P) (n • g) := rep_scalarMult C hP n

end

/-- the degenerate instance of `C06Ge` -/
def trivialCurveGroup : CurveGroup PUnit where
  Rep := fun _ _ => True
  rep_identity := trivial
  rep_add := fun _ _ => trivial
  rep_double := fun _ => trivial
  rep_neg := fun _ => trivial
  rep_scale := fun _ _ _ _ _ => trivial

/-- `Faithful` is a genuine strengthening: the degenerate instance `Rep := True` does not satisfy it -/
theorem faithful_excludes_trivial : ¬ Faithful trivialCurveGroup := by
  intro h
  have := h.on_curve (C := trivialCurveGroup) (P := ⟨0, 0, 0, 0⟩) (g := PUnit.unit) trivial
  revert this; decide +kernel

end Sodium.C06Full2
