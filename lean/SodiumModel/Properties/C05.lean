import SodiumModel.Proofs.Scalarmult
import SodiumModel.Spec.Blake2b
/-
  C05 — X25519 follows RFC 7748 and all key-agreement APIs derive matching secrets.
  Property theorems only; helper lemmas live in `Proofs/Scalarmult.lean`, the model of the C code in
  `Model/Scalarmult.lean`.

  What is proved here, about the model of the C code:
    * the all-zero check of `crypto_scalarmult_curve25519` is exact (`scalarmult_rc_exact`);
    * ref10's `has_small_order` accepts exactly the 7 table rows, bit 255 ignored
      (`has_small_order_exact`); every row is a low-order u-coordinate for the RFC 7748 ladder
      (`blocklist_sound`, kernel evaluation for concrete clamped scalars; for ALL scalars see
      `blocklist_sound_all` / `ref10_eq_spec` in `Properties/C05LowOrder.lean`);
    * the C clamping computes RFC 7748 `decodeScalar25519` (`clamp_exact`, `clamp_idempotent`), and
      `decodeUCoordinate` ignores bit 255 (`top_bit_ignored`);
    * crypto_kx session keys are the halves of BLAKE2b-512(q ‖ client_pk ‖ server_pk) and cross-equal
      (`kx_keys_spec`, `kx_cross`), failure propagates (`kx_fail`), the NULL-pointer forms behave as
      the code does (`kx_null_alias`) — which DEVIATES from the two-key form (`kx_single_key_deviation`);
    * seeded key pairs and box precomputation equal their documented derivations.

  Not proved (needs the group law of Curve25519): that the ladder `X` is scalar multiplication and
  hence that `X csk spk = X ssk cpk` for honest key pairs; this is the hypothesis `hDH`.
-/
open Sodium Sodium.Model Sodium.Model.Scalarmult Sodium.ScalarmultP Sodium.Spec
namespace Sodium.C05

/-! ### `crypto_scalarmult_curve25519`: the all-zero check -/

/-- If the selected implementation's `mult` returned 0 with the 32 bytes `q`, the wrapper returns
    -1 iff all 32 output bytes are zero and 0 otherwise, and `q` is exactly the ladder output. -/
theorem scalarmult_rc_exact (mult : Bytes → Bytes → Option Bytes) (n p q : Bytes)
    (hm : mult n p = some q) (hq : q.length = 32) :
    crypto_scalarmult_curve25519 mult n p = (if q = zeros 32 then -1 else 0, some q) :=
  scalarmult_some mult n p q hm hq

/-- a failing `mult` (ref10's early reject) propagates as -1 with `q` untouched -/
theorem scalarmult_rc_fail (mult : Bytes → Bytes → Option Bytes) (n p : Bytes) (hm : mult n p = none) :
    crypto_scalarmult_curve25519 mult n p = (-1, none) :=
  scalarmult_none mult n p hm

/-- ref10 behind the wrapper: early reject, else all-zero check of the ladder output on the clamped scalar -/
theorem scalarmult_ref10_exact (X : Bytes → Bytes → Bytes) (hX : ∀ t p, (X t p).length = 32)
    (n p : Bytes) (hp : p.length = 32) :
    crypto_scalarmult_curve25519 (mult_ref10 X) n p =
      if clearTop p ∈ blocklist then (-1, none)
      else (if X (clamp n) p = zeros 32 then -1 else 0, some (X (clamp n) p)) := by
  by_cases h : clearTop p ∈ blocklist
  · rw [if_pos h]
    apply scalarmult_none
    simp [mult_ref10, has_small_order_spec p hp, h]
  · rw [if_neg h]
    apply scalarmult_some _ _ _ _ _ (hX _ _)
    simp [mult_ref10, has_small_order_spec p hp, h]

/-- sandy2x behind the wrapper: no early reject -/
theorem scalarmult_sandy2x_exact (X : Bytes → Bytes → Bytes) (hX : ∀ t p, (X t p).length = 32)
    (n p : Bytes) :
    crypto_scalarmult_curve25519 (mult_sandy2x X) n p =
      (if X (clamp n) p = zeros 32 then -1 else 0, some (X (clamp n) p)) :=
  scalarmult_some _ _ _ _ rfl (hX _ _)

/-- The two implementations return the same code (and, on success, the same bytes) provided the ladder
    maps every blocklisted encoding to the all-zero output — which is what `blocklist_sound` checks. -/
theorem impl_rc_agree (X : Bytes → Bytes → Bytes) (hX : ∀ t p, (X t p).length = 32)
    (n p : Bytes) (hp : p.length = 32)
    (hlow : clearTop p ∈ blocklist → X (clamp n) p = zeros 32) :
    (crypto_scalarmult_curve25519 (mult_ref10 X) n p).1 =
      (crypto_scalarmult_curve25519 (mult_sandy2x X) n p).1 ∧
    ((crypto_scalarmult_curve25519 (mult_ref10 X) n p).1 = 0 →
      crypto_scalarmult_curve25519 (mult_ref10 X) n p = crypto_scalarmult_curve25519 (mult_sandy2x X) n p) := by
  rw [scalarmult_ref10_exact X hX n p hp, scalarmult_sandy2x_exact X hX]
  by_cases h : clearTop p ∈ blocklist
  · simp [h, hlow h]
  · simp [h]

/-! ### ref10 `has_small_order` -/

/-- `has_small_order(s)` is 1 iff `s` with bit 255 cleared is one of the 7 table rows, else 0. -/
theorem has_small_order_exact (s : Bytes) (hs : s.length = 32) :
    has_small_order s = if clearTop s ∈ blacklist then 1 else 0 :=
  has_small_order_spec s hs

theorem has_small_order_iff (s : Bytes) (hs : s.length = 32) :
    has_small_order s = 1 ↔ clearTop s ∈ blacklist := by
  rw [has_small_order_exact s hs]; split <;> simp [*]

/-- Every table row is a low-order u-coordinate of the specification: the RFC 7748 ladder maps it
    to 0 for the cofactor 8, for the smallest / largest clamped scalars 2^254 and 2^255 - 8 and for a
    clamped scalar with mixed bits, and `X25519(k, row)` is all-zero for the corresponding byte strings
    — so the early reject only refuses points on which the wrapper's all-zero check fires.
    The same for EVERY scalar is `blocklist_sound_all` in `Properties/C05LowOrder.lean`
    (projective-class argument; its helper file is the only one importing Mathlib). -/
theorem blocklist_sound :
    (∀ u ∈ blacklist, X25519.ladder 8 (X25519.decodeU u) = 0) ∧
    (∀ u ∈ blacklist, X25519.ladder (2 ^ 254) (X25519.decodeU u) = 0) ∧
    (∀ u ∈ blacklist, X25519.ladder (2 ^ 255 - 8) (X25519.decodeU u) = 0) ∧
    (∀ u ∈ blacklist, X25519.ladder
        (X25519.decodeScalar (toLE 32 0x0123456789abcdef0fedcba9876543210123456789abcdef0fedcba987654321))
        (X25519.decodeU u) = 0) ∧
    (∀ u ∈ blacklist, X25519.x25519 (zeros 32) u = zeros 32) ∧
    (∀ u ∈ blacklist, X25519.x25519 (List.replicate 32 0xff) u = zeros 32) ∧
    (∀ u ∈ blacklist, X25519.scalarmult (toLE 32 0x0123456789abcdef0fedcba9876543210123456789abcdef0fedcba987654321) u = none) := by
  refine ⟨?_, ?_, ?_, ?_, ?_, ?_, ?_⟩ <;> decide +kernel

/-- the table rows decode to exactly the five low-order u values 0, 1, p-1 and the two order-8 values -/
theorem blocklist_values :
    blacklist.map X25519.decodeU =
      [0, 1, 325606250916557431795983626356110631294008115727848805560023387167927233504,
       39382357235489614581723060781553021112529911719440698176882885853963445705823,
       F25519.p - 1, 0, 1] := by decide +kernel

/-- non-canonical rows: `p` and `p+1` are in the table, and so are they with bit 255 set (via `clearTop`) -/
example : has_small_order (toLE 32 (F25519.p + 2 ^ 255)) = 1 := by decide +kernel
example : has_small_order (toLE 32 9) = 0 := by decide +kernel
example : has_small_order (toLE 32 (F25519.p + 2)) = 0 := by decide +kernel

/-! ### clamping and the top bit -/

/-- The C clamping (`t[0] &= 248; t[31] &= 127; t[31] |= 64` on a copy of the first 32 bytes) yields,
    as a little-endian integer, exactly RFC 7748 `decodeScalar25519`. -/
theorem clamp_exact (k : Bytes) (hk : 32 ≤ k.length) : le (clamp k) = X25519.decodeScalar k :=
  le_clamp k hk

/-- `decodeScalar` depends on the scalar only through its clamped value (all byte strings). -/
theorem clamp_idempotent (k : Bytes) : X25519.decodeScalar (clamp k) = X25519.decodeScalar k :=
  decodeScalar_clamp k

/-- hence two scalars with the same clamped value give the same X25519 result on every point -/
theorem clamp_determines (k k' u : Bytes) (h : clamp k = clamp k') :
    X25519.x25519 k u = X25519.x25519 k' u := by
  rw [← x25519_clamp k, ← x25519_clamp k', h]

/-- `decodeUCoordinate` ignores bit 255 (all byte strings). -/
theorem top_bit_ignored (u : Bytes) : X25519.decodeU (clearTop u) = X25519.decodeU u :=
  decodeU_clearTop u

/-- flipping bit 255 of a 32-byte encoding changes neither `decodeU` nor the X25519 result -/
theorem top_bit_flip (k m : Bytes) (y : UInt8) (hm : m.length = 31) :
    X25519.decodeU (m ++ [y ^^^ 0x80]) = X25519.decodeU (m ++ [y]) ∧
    X25519.x25519 k (m ++ [y ^^^ 0x80]) = X25519.x25519 k (m ++ [y]) := by
  have h := clearTop_flip m y hm
  constructor
  · rw [← top_bit_ignored, h, top_bit_ignored]
  · rw [← x25519_clearTop, h, x25519_clearTop]

/-- non-canonical coordinates are reduced: `u` and `u + p` (both below 2^255) decode alike -/
theorem noncanonical_reduced (u : Nat) (h : u + F25519.p < 2 ^ 255) :
    X25519.decodeU (toLE 32 (u + F25519.p)) = X25519.decodeU (toLE 32 u) := by
  have h1 : (toLE 32 (u + F25519.p)).take 32 = toLE 32 (u + F25519.p) :=
    List.take_of_length_le (by rw [toLE_length]; omega)
  have h2 : (toLE 32 u).take 32 = toLE 32 u := List.take_of_length_le (by rw [toLE_length]; omega)
  simp only [X25519.decodeU, h1, h2, le_toLE]
  simp only [F25519.p, Nat.reducePow] at h ⊢
  omega

/-! ### the model instantiated with the RFC 7748 specification -/

/-- With `X = Spec.X25519.x25519` the sandy2x path is the specification's `scalarmult` on every input;
    the ref10 path is too whenever it does not reject early, and rejects exactly the table rows. -/
theorem model_eq_spec (n p : Bytes) :
    crypto_scalarmult_curve25519 (mult_sandy2x X25519.x25519) n p =
      (match X25519.scalarmult n p with
       | none => (-1, some (zeros 32))
       | some q => (0, some q)) ∧
    (p.length = 32 → crypto_scalarmult_curve25519 (mult_ref10 X25519.x25519) n p =
      if clearTop p ∈ blocklist then ((-1 : Int32), none)
      else match X25519.scalarmult n p with
       | none => (-1, some (zeros 32))
       | some q => (0, some q)) := by
  have key : ((if X25519.x25519 n p = zeros 32 then (-1 : Int32) else 0), some (X25519.x25519 n p)) =
      (match X25519.scalarmult n p with
       | none => (-1, some (zeros 32))
       | some q => (0, some q)) := by
    rw [spec_scalarmult_eq]
    by_cases h : X25519.x25519 n p = zeros 32
    · rw [if_pos h, if_pos h, h]
    · rw [if_neg h, if_neg h]
  constructor
  · rw [scalarmult_sandy2x_exact _ x25519_length, x25519_clamp, key]
  · intro hp
    rw [scalarmult_ref10_exact _ x25519_length n p hp, x25519_clamp, key]

/-! ### crypto_kx -/

/-- the 64 bytes hashed into the two session keys -/
def kxKeys (H : Bytes → Bytes) (q client_pk server_pk : Bytes) : Bytes := H (q ++ client_pk ++ server_pk)

/-- Both pointers given: on a non-failing scalar multiplication with shared point `q`, the client gets
    rx = keys[0..32), tx = keys[32..64) and the server gets tx = keys[0..32), rx = keys[32..64) where
    keys = H(q ‖ client_pk ‖ server_pk). -/
theorem kx_keys_spec (mult : Bytes → Bytes → Option Bytes) (H : Bytes → Bytes)
    (cpk csk spk ssk q : Bytes) (hq : q.length = 32) (hc : cpk.length = 32) (hs : spk.length = 32)
    (hH : (kxKeys H q cpk spk).length = 64) :
    (crypto_scalarmult_curve25519 mult csk spk = (0, some q) →
      kxClient mult H true true cpk csk spk =
        some ⟨0, some ((kxKeys H q cpk spk).take 32), some ((kxKeys H q cpk spk).drop 32)⟩) ∧
    (crypto_scalarmult_curve25519 mult ssk cpk = (0, some q) →
      kxServer mult H true true spk ssk cpk =
        some ⟨0, some ((kxKeys H q cpk spk).drop 32), some ((kxKeys H q cpk spk).take 32)⟩) := by
  have ht : q.take 32 ++ cpk.take 32 ++ spk.take 32 = q ++ cpk ++ spk := by
    rw [List.take_of_length_le (Nat.le_of_eq hq), List.take_of_length_le (Nat.le_of_eq hc),
      List.take_of_length_le (Nat.le_of_eq hs)]
  have hk : kxKeys H q cpk spk = H (q ++ cpk ++ spk) := rfl
  have hd : ((kxKeys H q cpk spk).drop 32).take 32 = (kxKeys H q cpk spk).drop 32 :=
    List.take_of_length_le (by simp [hH])
  have f0 := fill_all (kxKeys H q cpk spk) (zeros 32) 0 (by simp [zeros]) (by omega)
  have f32 := fill_all (kxKeys H q cpk spk) (zeros 32) 32 (by simp [zeros]) (by omega)
  rw [hd] at f32
  simp only [List.drop_zero] at f0
  constructor
  · intro h
    simp only [kxClient, crypto_kx_client_session_keys, if_true]
    rw [kxBody_ok mult H false _ _ .A .B mem0 cpk spk csk spk q rfl h, ht]
    simp only [Bool.false_eq_true, if_false, storeLoop_AB, mem0, kxView, if_true]
    rw [← hk, f0, f32]
  · intro h
    simp only [kxServer, crypto_kx_server_session_keys, if_true]
    rw [kxBody_ok mult H true _ _ .A .B mem0 cpk spk ssk cpk q rfl h, ht]
    simp only [if_true, storeLoop_BA, mem0, kxView]
    rw [← hk, f0, f32]

/-- Cross-equality over any implementation's `mult`: if both sides' scalar multiplications succeed with
    the same shared point, client.rx = server.tx and client.tx = server.rx (all four present). -/
theorem kx_cross_mult (mult : Bytes → Bytes → Option Bytes) (H : Bytes → Bytes)
    (cpk csk spk ssk q : Bytes) (hq : q.length = 32) (hc : cpk.length = 32) (hs : spk.length = 32)
    (hH : (kxKeys H q cpk spk).length = 64)
    (h1 : crypto_scalarmult_curve25519 mult csk spk = (0, some q))
    (h2 : crypto_scalarmult_curve25519 mult ssk cpk = (0, some q)) :
    ∃ c s k1 k2, kxClient mult H true true cpk csk spk = some c ∧
      kxServer mult H true true spk ssk cpk = some s ∧
      c.rc = 0 ∧ s.rc = 0 ∧ c.rx = some k1 ∧ s.tx = some k1 ∧ c.tx = some k2 ∧ s.rx = some k2 ∧
      k1 ++ k2 = kxKeys H q cpk spk := by
  have h := kx_keys_spec mult H cpk csk spk ssk q hq hc hs hH
  exact ⟨_, _, _, _, h.1 h1, h.2 h2, rfl, rfl, rfl, rfl, rfl, rfl, List.take_append_drop _ _⟩

/-- the implementation selected at run time -/
inductive Impl | ref10 | sandy2x

def multOf (X : Bytes → Bytes → Bytes) : Impl → Bytes → Bytes → Option Bytes
  | .ref10 => mult_ref10 X
  | .sandy2x => mult_sandy2x X

theorem scalarmult_ok (impl : Impl) (X : Bytes → Bytes → Bytes) (n p : Bytes)
    (h : (crypto_scalarmult_curve25519 (multOf X impl) n p).1 = 0) :
    crypto_scalarmult_curve25519 (multOf X impl) n p = (0, some (X (clamp n) p)) := by
  obtain ⟨q, hm, hq⟩ := scalarmult_rc0 _ n p h
  rw [hq]
  cases impl with
  | ref10 =>
    simp only [multOf, mult_ref10] at hm
    split at hm
    · simp at hm
    · simp only [Option.some.injEq] at hm; rw [hm]
  | sandy2x =>
    simp only [multOf, mult_sandy2x, Option.some.injEq] at hm; rw [hm]

/-- **Session keys are cross-equal.**  `X` is the ladder of the selected implementation (ref10 or
    sandy2x).  GIVEN `hDH` — both sides reach the same shared point — and that neither scalar
    multiplication fails, client.rx = server.tx and client.tx = server.rx, and together they are
    BLAKE2b-512(q ‖ client_pk ‖ server_pk). -/
theorem kx_cross (impl : Impl) (X : Bytes → Bytes → Bytes) (H : Bytes → Bytes)
    (hX : ∀ t p, (X t p).length = 32) (hH : ∀ x, (H x).length = 64)
    (cpk csk spk ssk : Bytes) (hc : cpk.length = 32) (hs : spk.length = 32)
    (hDH : X (clamp csk) spk = X (clamp ssk) cpk)
    (hokc : (crypto_scalarmult_curve25519 (multOf X impl) csk spk).1 = 0)
    (hoks : (crypto_scalarmult_curve25519 (multOf X impl) ssk cpk).1 = 0) :
    ∃ c s k1 k2, kxClient (multOf X impl) H true true cpk csk spk = some c ∧
      kxServer (multOf X impl) H true true spk ssk cpk = some s ∧
      c.rc = 0 ∧ s.rc = 0 ∧ c.rx = some k1 ∧ s.tx = some k1 ∧ c.tx = some k2 ∧ s.rx = some k2 ∧
      k1 ++ k2 = H (X (clamp csk) spk ++ cpk ++ spk) :=
  kx_cross_mult (multOf X impl) H cpk csk spk ssk _ (hX _ _) hc hs (hH _)
    (scalarmult_ok impl X csk spk hokc) (by rw [hDH]; exact scalarmult_ok impl X ssk cpk hoks)

/-- `kx_cross` instantiated with the primitives the driver uses: the RFC 7748 ladder and BLAKE2b-512 -/
theorem kx_cross_spec (impl : Impl) (cpk csk spk ssk : Bytes) (hc : cpk.length = 32) (hs : spk.length = 32)
    (hDH : X25519.x25519 csk spk = X25519.x25519 ssk cpk)
    (hokc : (crypto_scalarmult_curve25519 (multOf X25519.x25519 impl) csk spk).1 = 0)
    (hoks : (crypto_scalarmult_curve25519 (multOf X25519.x25519 impl) ssk cpk).1 = 0) :
    ∃ c s k1 k2,
      kxClient (multOf X25519.x25519 impl) (Blake2b.hash 64 [] [] []) true true cpk csk spk = some c ∧
      kxServer (multOf X25519.x25519 impl) (Blake2b.hash 64 [] [] []) true true spk ssk cpk = some s ∧
      c.rc = 0 ∧ s.rc = 0 ∧ c.rx = some k1 ∧ s.tx = some k1 ∧ c.tx = some k2 ∧ s.rx = some k2 ∧
      k1 ++ k2 = Blake2b.hash 64 [] [] [] (X25519.x25519 csk spk ++ cpk ++ spk) := by
  have h := kx_cross impl X25519.x25519 (Blake2b.hash 64 [] [] []) x25519_length
    (fun x => blake2b_length 64 (by decide) [] [] [] x) cpk csk spk ssk hc hs
    (by rw [x25519_clamp, x25519_clamp]; exact hDH) hokc hoks
  rw [x25519_clamp] at h
  exact h

/-- Failure of the scalar multiplication propagates as -1 and leaves the output buffers untouched
    (any call form with at least one non-NULL pointer; client and server). -/
theorem kx_fail (mult : Bytes → Bytes → Option Bytes) (H : Bytes → Bytes) (wantRx wantTx : Bool)
    (hw : wantRx = true ∨ wantTx = true) (cpk csk spk ssk : Bytes) :
    ((crypto_scalarmult_curve25519 mult csk spk).1 ≠ 0 →
      kxClient mult H wantRx wantTx cpk csk spk =
        some ⟨-1, if wantRx then some (zeros 32) else none, if wantTx then some (zeros 32) else none⟩) ∧
    ((crypto_scalarmult_curve25519 mult ssk cpk).1 ≠ 0 →
      kxServer mult H wantRx wantTx spk ssk cpk =
        some ⟨-1, if wantRx then some (zeros 32) else none, if wantTx then some (zeros 32) else none⟩) := by
  have ha : ∃ rxp txp, aliasPtrs (if wantRx then some Buf.A else none) (if wantTx then some Buf.B else none)
      = (some rxp, some txp) := by
    cases wantRx <;> cases wantTx <;> simp [aliasPtrs] at hw ⊢
  obtain ⟨rxp, txp, ha⟩ := ha
  constructor
  · intro h
    simp only [kxClient, crypto_kx_client_session_keys]
    rw [kxBody_fail mult H false _ _ rxp txp mem0 cpk spk csk spk ha h]; rfl
  · intro h
    simp only [kxServer, crypto_kx_server_session_keys]
    rw [kxBody_fail mult H true _ _ rxp txp mem0 cpk spk ssk cpk ha h]; rfl

/-- both pointers NULL: `sodium_misuse()` -/
theorem kx_both_null (mult : Bytes → Bytes → Option Bytes) (H : Bytes → Bytes) (a b c : Bytes) :
    kxClient mult H false false a b c = none ∧ kxServer mult H false false a b c = none :=
  ⟨rfl, rfl⟩

/-- **NULL-pointer forms, exactly as the code behaves.**  With one pointer NULL both pointers alias the
    single buffer and the second store of every loop iteration wins, so the single key delivered is
    ALWAYS keys[32..64) — in all four forms (client/server × rx-only/tx-only). -/
theorem kx_null_alias (mult : Bytes → Bytes → Option Bytes) (H : Bytes → Bytes)
    (cpk csk spk ssk q : Bytes) (hq : q.length = 32) (hc : cpk.length = 32) (hs : spk.length = 32)
    (hH : (kxKeys H q cpk spk).length = 64) :
    (crypto_scalarmult_curve25519 mult csk spk = (0, some q) →
      kxClient mult H true false cpk csk spk = some ⟨0, some ((kxKeys H q cpk spk).drop 32), none⟩ ∧
      kxClient mult H false true cpk csk spk = some ⟨0, none, some ((kxKeys H q cpk spk).drop 32)⟩) ∧
    (crypto_scalarmult_curve25519 mult ssk cpk = (0, some q) →
      kxServer mult H true false spk ssk cpk = some ⟨0, some ((kxKeys H q cpk spk).drop 32), none⟩ ∧
      kxServer mult H false true spk ssk cpk = some ⟨0, none, some ((kxKeys H q cpk spk).drop 32)⟩) := by
  have ht : q.take 32 ++ cpk.take 32 ++ spk.take 32 = q ++ cpk ++ spk := by
    rw [List.take_of_length_le (Nat.le_of_eq hq), List.take_of_length_le (Nat.le_of_eq hc),
      List.take_of_length_le (Nat.le_of_eq hs)]
  have hk : kxKeys H q cpk spk = H (q ++ cpk ++ spk) := rfl
  have hd : ((kxKeys H q cpk spk).drop 32).take 32 = (kxKeys H q cpk spk).drop 32 :=
    List.take_of_length_le (by simp [hH])
  have f32 := fill_all (kxKeys H q cpk spk) (zeros 32) 32 (by simp [zeros]) (by omega)
  rw [hd] at f32
  refine ⟨fun h => ⟨?_, ?_⟩, fun h => ⟨?_, ?_⟩⟩
  · simp only [kxClient, crypto_kx_client_session_keys]
    rw [kxBody_ok mult H false _ _ .A .A mem0 cpk spk csk spk q rfl h, ht]
    simp only [Bool.false_eq_true, if_false, storeLoop_AA, mem0, kxView, if_true]
    rw [← hk, f32]
  · simp only [kxClient, crypto_kx_client_session_keys]
    rw [kxBody_ok mult H false _ _ .B .B mem0 cpk spk csk spk q rfl h, ht]
    simp only [Bool.false_eq_true, if_false, storeLoop_BB, mem0, kxView, if_true]
    rw [← hk, f32]
  · simp only [kxServer, crypto_kx_server_session_keys]
    rw [kxBody_ok mult H true _ _ .A .A mem0 cpk spk ssk cpk q rfl h, ht]
    simp only [Bool.false_eq_true, if_false, storeLoop_AA, mem0, kxView, if_true]
    rw [← hk, f32]
  · simp only [kxServer, crypto_kx_server_session_keys]
    rw [kxBody_ok mult H true _ _ .B .B mem0 cpk spk ssk cpk q rfl h, ht]
    simp only [Bool.false_eq_true, if_false, storeLoop_BB, mem0, kxView, if_true]
    rw [← hk, f32]

/-- **Deviation of the code from "either rx or tx can be NULL if only one key is required".**
    The key obtained from a one-pointer call is the two-pointer call's key for the SAME direction only
    for client/tx-only and server/rx-only.  A client asking for rx only receives the two-pointer call's
    tx key, and a server asking for tx only receives the two-pointer call's rx key. -/
theorem kx_single_key_deviation (mult : Bytes → Bytes → Option Bytes) (H : Bytes → Bytes)
    (cpk csk spk ssk q : Bytes) (hq : q.length = 32) (hc : cpk.length = 32) (hs : spk.length = 32)
    (hH : (kxKeys H q cpk spk).length = 64)
    (h1 : crypto_scalarmult_curve25519 mult csk spk = (0, some q))
    (h2 : crypto_scalarmult_curve25519 mult ssk cpk = (0, some q)) :
    (kxClient mult H true false cpk csk spk).map (·.rx) = (kxClient mult H true true cpk csk spk).map (·.tx) ∧
    (kxClient mult H false true cpk csk spk).map (·.tx) = (kxClient mult H true true cpk csk spk).map (·.tx) ∧
    (kxServer mult H true false spk ssk cpk).map (·.rx) = (kxServer mult H true true spk ssk cpk).map (·.rx) ∧
    (kxServer mult H false true spk ssk cpk).map (·.tx) = (kxServer mult H true true spk ssk cpk).map (·.rx) := by
  have a := kx_null_alias mult H cpk csk spk ssk q hq hc hs hH
  have b := kx_keys_spec mult H cpk csk spk ssk q hq hc hs hH
  rw [(a.1 h1).1, (a.1 h1).2, (a.2 h2).1, (a.2 h2).2, b.1 h1, b.2 h2]
  exact ⟨rfl, rfl, rfl, rfl⟩

/-- concrete witness of the deviation: a successful exchange in which the client's rx-only key differs
    from its two-pointer rx key, and the server's tx-only key differs from the client's rx key -/
def devMult : Bytes → Bytes → Option Bytes := fun _ _ => some (List.replicate 32 1)
def devH : Bytes → Bytes := fun _ => (List.range 64).map UInt8.ofNat

theorem kx_single_key_deviation_witness :
    (kxClient devMult devH true false (zeros 32) (zeros 32) (zeros 32)).map (·.rx) ≠
      (kxClient devMult devH true true (zeros 32) (zeros 32) (zeros 32)).map (·.rx) ∧
    (kxServer devMult devH false true (zeros 32) (zeros 32) (zeros 32)).map (·.tx) ≠
      (kxClient devMult devH true true (zeros 32) (zeros 32) (zeros 32)).map (·.rx) ∧
    (kxServer devMult devH false true (zeros 32) (zeros 32) (zeros 32)).map (·.tx) ≠
      (kxServer devMult devH true true (zeros 32) (zeros 32) (zeros 32)).map (·.tx) := by
  decide +kernel

/-- raw pointer semantics beyond the documented forms: the caller may even pass the SAME buffer twice;
    the result is again keys[32..64) in that buffer -/
theorem kx_same_buffer (mult : Bytes → Bytes → Option Bytes) (H : Bytes → Bytes)
    (cpk csk spk q : Bytes) (m : Mem) (hm : m.A.length = 32)
    (hH : 64 ≤ (H (q.take 32 ++ cpk.take 32 ++ spk.take 32)).length)
    (h : crypto_scalarmult_curve25519 mult csk spk = (0, some q)) :
    crypto_kx_client_session_keys mult H (some .A) (some .A) m cpk csk spk =
      .ret 0 ⟨((H (q.take 32 ++ cpk.take 32 ++ spk.take 32)).drop 32).take 32, m.B⟩ := by
  simp only [crypto_kx_client_session_keys]
  rw [kxBody_ok mult H false _ _ .A .A m cpk spk csk spk q rfl h]
  simp only [Bool.false_eq_true, if_false, storeLoop_AA]
  rw [fill_all _ _ 32 hm (by omega)]

/-! ### seeded key pairs and box precomputation -/

/-- `crypto_kx_seed_keypair`: sk = BLAKE2b-256(seed), pk = X25519(sk, 9) -/
theorem kx_seed_keypair_spec (H32 base : Bytes → Bytes) (seed : Bytes) (h : seed.length = 32) :
    crypto_kx_seed_keypair H32 base seed = (0, base (H32 seed), H32 seed) := by
  simp [crypto_kx_seed_keypair, List.take_of_length_le (Nat.le_of_eq h)]

/-- `crypto_box_seed_keypair` (both cipher variants): sk = SHA-512(seed)[0..32), pk = X25519(sk, 9) -/
theorem box_seed_keypair_spec (sha512 base : Bytes → Bytes) (seed : Bytes) (h : seed.length = 32) :
    crypto_box_seed_keypair sha512 base seed = (0, base ((sha512 seed).take 32), (sha512 seed).take 32) := by
  simp [crypto_box_seed_keypair, List.take_of_length_le (Nat.le_of_eq h)]

/-- `crypto_box_beforenm`: k = HSalsa20 / HChaCha20(key = shared point, input = 16 zero bytes);
    a failing scalar multiplication (all-zero shared point or early reject) gives -1 and no key. -/
theorem beforenm_spec (mult : Bytes → Bytes → Option Bytes) (hcore : Bytes → Bytes → Bytes)
    (pk sk : Bytes) :
    (∀ q, crypto_scalarmult_curve25519 mult sk pk = (0, some q) →
      crypto_box_beforenm mult hcore pk sk = (0, some (hcore (zeros 16) q))) ∧
    ((crypto_scalarmult_curve25519 mult sk pk).1 ≠ 0 →
      crypto_box_beforenm mult hcore pk sk = (-1, none)) := by
  constructor
  · intro q h; simp [crypto_box_beforenm, h]
  · intro h
    unfold crypto_box_beforenm
    simp only []
    rw [if_pos (by simpa using h)]

/-- both sides of a box compute the same precomputed key, GIVEN the shared point is the same -/
theorem beforenm_cross (impl : Impl) (X : Bytes → Bytes → Bytes) (hcore : Bytes → Bytes → Bytes)
    (pkA skA pkB skB : Bytes)
    (hDH : X (clamp skA) pkB = X (clamp skB) pkA)
    (hokA : (crypto_scalarmult_curve25519 (multOf X impl) skA pkB).1 = 0)
    (hokB : (crypto_scalarmult_curve25519 (multOf X impl) skB pkA).1 = 0) :
    crypto_box_beforenm (multOf X impl) hcore pkB skA = crypto_box_beforenm (multOf X impl) hcore pkA skB ∧
    crypto_box_beforenm (multOf X impl) hcore pkB skA = (0, some (hcore (zeros 16) (X (clamp skA) pkB))) := by
  have a := (beforenm_spec (multOf X impl) hcore pkB skA).1 _ (scalarmult_ok impl X skA pkB hokA)
  have b := (beforenm_spec (multOf X impl) hcore pkA skB).1 _ (scalarmult_ok impl X skB pkA hokB)
  rw [a, b, hDH]; exact ⟨rfl, rfl⟩

/-! ### non-vacuity -/

/-- the hypotheses of `kx_cross` are satisfiable with the RFC 7748 ladder and BLAKE2b-512:
    RFC 7748 §6.1 test vector (Alice / Bob), both implementations -/
def alicePriv : Bytes := toLE 32 0x2a2cb91da727fb6b2c4a4e1fb9fd73bd1c1f9c8d2b0f2c5d9d5a8a2a0b2d0777
def bobPriv : Bytes := toLE 32 0xeb2d0e1c4b3ae16f6ee1bdd8fdd6180a274e79b7d21c4ae06f7a3cc1e2ab5d5d
def alicePub : Bytes := X25519.x25519Base alicePriv
def bobPub : Bytes := X25519.x25519Base bobPriv

example : X25519.x25519 (clamp alicePriv) bobPub = X25519.x25519 (clamp bobPriv) alicePub := by
  decide +kernel
example : (crypto_scalarmult_curve25519 (multOf X25519.x25519 .ref10) alicePriv bobPub).1 = 0 ∧
    (crypto_scalarmult_curve25519 (multOf X25519.x25519 .ref10) bobPriv alicePub).1 = 0 ∧
    (crypto_scalarmult_curve25519 (multOf X25519.x25519 .sandy2x) alicePriv bobPub).1 = 0 := by
  decide +kernel
example : ∀ t p, (X25519.x25519 t p).length = 32 := x25519_length

/-- the failure hypotheses are satisfiable too: a low-order public key -/
example : (crypto_scalarmult_curve25519 (mult_ref10 X25519.x25519) alicePriv (zeros 32)).1 ≠ 0 ∧
    (crypto_scalarmult_curve25519 (mult_sandy2x X25519.x25519) alicePriv (zeros 32)) = (-1, some (zeros 32)) := by
  decide +kernel

end Sodium.C05
