import SodiumModel.Model.Fault
import SodiumModel.Proofs.Fault
/-
  C20 — memory exhaustion makes password hashing and guarded allocation fail closed.
  For EVERY oracle `ok : Nat → Bool` (i.e. every fault schedule, not only single faults): a failed
  request implies an error return, string verification never reports a match, every block obtained
  is released exactly once and nothing is released twice.
-/
open Sodium Sodium.Model.Fault
namespace Sodium.C20

/-- the modelled entry points -/
inductive Api where
  | pwhash                                   -- crypto_pwhash / crypto_pwhash_str (Argon2i, Argon2id)
  | verify (decodes «matches» : Bool)         -- crypto_pwhash_str_verify
  | needsRehash (res : Int)                  -- crypto_pwhash_str_needs_rehash (res = answer when memory is available)
  | scrypt («matches» : Bool)                 -- scrypt raw / str / str_verify

def prog (ok : Nat → Bool) : Api → M Int
  | .pwhash => Sodium.Model.Fault.pwhash ok
  | .verify d m => argon2Verify ok d m
  | .needsRehash r => Sodium.Model.Fault.needsRehash ok r
  | .scrypt m => Sodium.Model.Fault.scrypt ok m

/-- every run satisfies the three fail-closed properties at once -/
theorem run_good (ok : Nat → Bool) (a : Api) :
    FaultP.Good (run (prog ok a)).rc (run (prog ok a)).evs := by
  cases a with
  | pwhash => exact FaultP.run_pwhash_good ok
  | verify d m => exact FaultP.run_verify_good ok d m
  | needsRehash r => exact FaultP.run_needsRehash_good ok r
  | scrypt m => exact FaultP.run_scrypt_good ok m

/-- if any consulted allocation request failed, the call returns an error, never success -/
theorem any_failure_imp_error (ok : Nat → Bool) (a : Api)
    (h : anyFailed (run (prog ok a)).evs = true) :
    (run (prog ok a)).rc = -1 :=
  (run_good ok a).1 h

/-- every successful request is released exactly once, none twice, nothing stays allocated -/
theorem balanced (ok : Nat → Bool) (a : Api) :
    live (run (prog ok a)).evs = [] ∧ badRelease (run (prog ok a)).evs = false :=
  (run_good ok a).2

/-- string verification never reports a match when memory ran out, whatever the password -/
theorem verify_never_matches_on_failure (ok : Nat → Bool) (d m : Bool)
    (h : anyFailed (run (argon2Verify ok d m)).evs = true) :
    (run (argon2Verify ok d m)).rc ≠ 0 := by
  rw [(FaultP.run_verify_good ok d m).1 h]; decide

/-- with memory available the outcome is the functional one; success needs every request to succeed -/
theorem success_iff_no_failure (ok : Nat → Bool) :
    ((run (Sodium.Model.Fault.pwhash ok)).rc = 0 ↔ (ok 0 ∧ ok 1 ∧ ok 2 ∧ ok 3)) ∧
    (∀ d m, (run (argon2Verify ok d m)).rc = 0 ↔ (d = true ∧ m = true ∧ ∀ i, i < 8 → ok i = true)) ∧
    (∀ m, (run (Sodium.Model.Fault.scrypt ok m)).rc = 0 ↔ (ok 0 = true ∧ m = true)) ∧
    ((run (sodiumMalloc ok)).rc = 0 ↔ ok 0 = true) :=
  ⟨FaultP.run_pwhash_rc ok, FaultP.run_verify_rc ok, FaultP.run_scrypt_rc ok, FaultP.sodiumMalloc_rc ok⟩

/-! ### non-vacuity: concrete fault schedules -/

/-- an oracle failing exactly request `k` -/
def failAt (k : Nat) : Nat → Bool := fun i => i != k

-- the hypothesis of `any_failure_imp_error` / `verify_never_matches_on_failure` is satisfiable …
example : anyFailed (run (argon2Verify (failAt 2) true true)).evs = true := by decide
example : (run (argon2Verify (failAt 2) true true)).rc = -1 := by decide
-- … the blocks obtained before the failure (requests 0 and 1) are released again …
example : (run (argon2Verify (failAt 2) true true)).evs =
    [.alloc .malloc 0, .alloc .malloc 1, .failed .malloc 2, .release .malloc 0, .release .malloc 1] := by
  decide
-- … a failure deep inside argon2_ctx (the mmap, request 7) unwinds all seven earlier blocks …
example : (run (argon2Verify (failAt 7) true true)).rc = -1 ∧
    (run (argon2Verify (failAt 7) true true)).evs.length = 15 := by decide
-- … and the success side is reachable: no failure, correct password ⇒ 0 with 8 allocs + 8 releases
example : (run (argon2Verify (fun _ => true) true true)).rc = 0 ∧
    anyFailed (run (argon2Verify (fun _ => true) true true)).evs = false ∧
    (run (argon2Verify (fun _ => true) true true)).evs.length = 16 := by decide
example : (run (prog (failAt 3) .pwhash)).rc = -1 ∧ (run (prog (fun _ => true) .pwhash)).rc = 0 := by decide
-- `live` / `badRelease` are not trivially empty / false: they do detect a leak and a double free
example : live [.alloc .malloc 0, .alloc .malloc 1, .release .malloc 0] = [1] := by decide
example : badRelease [.alloc .malloc 0, .release .malloc 0, .release .malloc 0] = true := by decide
-- sodium_malloc hands its block to the caller, so it is (intentionally) outside `balanced`
example : live (run (sodiumMalloc (fun _ => true))).evs = [0] := by decide

end Sodium.C20
