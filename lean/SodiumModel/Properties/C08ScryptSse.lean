import SodiumModel.Proofs.ScryptSseKdf
import SodiumModel.Properties.C08Scrypt
import SodiumModel.Properties.C08
/-
  C08 (scrypt, SSE2 code) — the SSE2 scrypt core of libsodium (Model/ScryptSse.lean, transcribed from
  sse/pwhash_scryptsalsa208sha256_sse.c) against the reference core (Model/ScryptRef.lean) and RFC 7914
  (Spec/Scrypt.lean). Property theorems only; helper lemmas are in Proofs/ScryptSse*.lean.

  Layout. The SSE2 code keeps every 64-byte Salsa20 block permuted: memory word `t` of the block holds word `5 t mod 16`
  (the permutation `smix` applies when it loads `B`: `X32[k*16 + i] = LOAD32_LE(&B[(k*16 + (i*5 % 16)) * 4])`).
  `shuf A` is `A` in that layout; `RowS M p A` says that the `A.size` words of the memory `M` at word offset `p` are `shuf A`.
-/
open Sodium Sodium.Model Sodium.Spec Sodium.ScryptRefP Sodium.ScryptSseP
open Sodium.Model.ChachaSimd (V128)
namespace Sodium.C08ScryptSse

/-- `A` (a sequence of 16-word blocks) in the layout of the SSE2 code: word `t` is word `5 (t mod 16) mod 16` of its block -/
def shuf (A : Array UInt32) : Array UInt32 := Array.ofFn (n := A.size) fun t => A.getD (16 * (t.val / 16) + t.val % 16 * 5 % 16) 0

theorem shuf_getD (A : Array UInt32) (t : Nat) (ht : t < A.size) :
    (shuf A).getD t 0 = A.getD (16 * (t / 16) + t % 16 * 5 % 16) 0 := by
  unfold shuf
  rw [Array.getD_eq_getD_getElem?, Array.getElem?_eq_getElem (by rw [Array.size_ofFn]; exact ht), Array.getElem_ofFn]
  rfl

theorem rowS_iff_shuf (M : Array UInt32) (p : Nat) (A : Array UInt32) :
    RowS M p A ↔ ∀ t, t < A.size → M.getD (p + t) 0 = (shuf A).getD t 0 := by
  unfold RowS
  constructor
  · intro h t ht; rw [h t ht, shuf_getD A t ht]
  · intro h t ht; rw [h t ht, shuf_getD A t ht]

/-! ### (1) salsa20_8 on `__m128i` -/

/-- one `SALSA20_2ROUNDS` (four `ARX` on columns, three `_mm_shuffle_epi32`, four `ARX` on rows, three shuffles) is one double round
    of RFC 7914 §3 on the block that `X0..X3` hold in the permuted layout, for all register contents -/
theorem sse_two_rounds_eq_spec (x : ScryptSse.Regs) : diag (ScryptSse.SALSA20_2ROUNDS x) = Scrypt.doubleRound (diag x) :=
  two_rounds x

/-- the Salsa20/8 core of `SALSA20_8_XOR` (`Y = X`, four `SALSA20_2ROUNDS`, `X += Y`) = RFC 7914 Salsa20/8 = the reference
    `salsa20_8`, under the layout permutation, for every 64-byte block -/
theorem sse_salsa20_8_eq_spec (x : ScryptSse.Regs) : diag (salsaX x) = Scrypt.salsa20_8 (diag x) := diag_salsaX x

theorem sse_salsa20_8_eq_ref (x : ScryptSse.Regs) : diag (salsaX x) = ScryptRef.salsa20_8 (diag x) := by
  rw [diag_salsaX, salsa20_8_eq _ (diag_size x)]

/-- the layout permutation: memory word `k` of `X0..X3` (`X0` lane 0 first) is word `(k * 5) % 16` of the Salsa20 block `diag x`
    they hold, and word `j` of the block is memory word `(j * 13) % 16` -/
theorem sse_layout (x : ScryptSse.Regs) (k : Nat) (hk : k < 16) : (toWords x).getD k 0 = (diag x).getD (k * 5 % 16) 0 :=
  toWords_getD x k hk
theorem sse_layout_inv (x : ScryptSse.Regs) (j : Nat) (hj : j < 16) : (diag x).getD j 0 = (toWords x).getD (j * 13 % 16) 0 :=
  diag_getD x j hj

/-- reading a 64-byte block of a row that holds `A` in the SSE2 layout into `X0..X3` gives block `i` of `A` -/
theorem sse_load_block (M : Array UInt32) (p : Nat) (A : Array UInt32) (R : Nat) (hA : A.size = 32 * R) (h : RowS M p A)
    (i : Nat) (hi : i < 2 * R) : diag (ld4 M (p + 16 * i)) = blk A i := diag_ld4_row M p A R hA h i hi

/-- `SALSA20_8_XOR(in, out)`: `X = Salsa20/8(X xor in[0..3])`, stored to `out[0..3]` (the macro as a function) -/
theorem SALSA20_8_XOR_spec (M : Array UInt32) (x : ScryptSse.Regs) (inp out : Nat) :
    ScryptSse.SALSA20_8_XOR M x inp out = (st4 M out (salsaX (xorR x (ld4 M inp))), salsaX (xorR x (ld4 M inp))) :=
  SALSA20_8_XOR_eq M x inp out

/-! ### (2) blockmix_salsa8, blockmix_salsa8_xor, integerify -/

/-- `blockmix_salsa8(Bin, Bout, r)` (block 0, then the `for (i = 0; i < r;)` loop with its `i++` in the middle, then the last block;
    outputs to `Bout[i*4]` / `Bout[(r+i)*4+4]`): if the row at `Bin` holds `A` in the SSE2 layout, and the rows at `Bin` and `Bout`
    are inside the memory and do not overlap, then afterwards the row at `Bout` holds scryptBlockMix_r(A) (RFC 7914 §4) in the
    SSE2 layout and no other word of the memory has changed; for every `r ≥ 1` with `32 r < 2^64` -/
theorem sse_blockmix_salsa8_eq_spec (M : Array UInt32) (Bin Bout : Nat) (r : UInt64) (A : Array UInt32) (hr : 1 ≤ r.toNat)
    (hr2 : 32 * r.toNat < 2 ^ 64) (hA : A.size = 32 * r.toNat) (hin : Bin + 32 * r.toNat ≤ M.size)
    (hout : Bout + 32 * r.toNat ≤ M.size) (hdisj : Bin + 32 * r.toNat ≤ Bout ∨ Bout + 32 * r.toNat ≤ Bin)
    (hrow : RowS M Bin A) :
    (ScryptSse.blockmix_salsa8 M Bin Bout r).size = M.size ∧
      RowS (ScryptSse.blockmix_salsa8 M Bin Bout r) Bout (Scrypt.blockMix r.toNat A) ∧
      (∀ t, ¬ (Bout ≤ t ∧ t < Bout + 32 * r.toNat) → (ScryptSse.blockmix_salsa8 M Bin Bout r).getD t 0 = M.getD t 0) :=
  blockmix_sse_spec M Bin Bout r A hr hr2 hA hin hout hdisj hrow

/-- … and that is what the reference `blockmix_salsa8` writes to its `Bout` (on the unpermuted block) -/
theorem sse_blockmix_salsa8_eq_ref (M : Array UInt32) (Bin Bout : Nat) (r : UInt64) (A Bo X : Array UInt32) (hr : 1 ≤ r.toNat)
    (hr2 : 32 * r.toNat < 2 ^ 64) (hA : A.size = 32 * r.toNat) (hin : Bin + 32 * r.toNat ≤ M.size)
    (hout : Bout + 32 * r.toNat ≤ M.size) (hdisj : Bin + 32 * r.toNat ≤ Bout ∨ Bout + 32 * r.toNat ≤ Bin)
    (hrow : RowS M Bin A) (hBo : Bo.size = 32 * r.toNat) (hX : X.size = 16) :
    RowS (ScryptSse.blockmix_salsa8 M Bin Bout r) Bout (ScryptRef.blockmix_salsa8 A Bo X r).1 := by
  rw [(blockmix_spec A Bo X r hr hr2 hA hBo hX).1]
  exact (blockmix_sse_spec M Bin Bout r A hr hr2 hA hin hout hdisj hrow).2.1

/-- `blockmix_salsa8_xor(Bin1, Bin2, Bout, r)`: the row at `Bout` receives scryptBlockMix_r(A1 xor A2), the return value
    `_mm_cvtsi128_si32(X0)` is word 0 of the last 64-byte block of the result (the LOW 32 bits of Integerify), nothing else changes -/
theorem sse_blockmix_salsa8_xor_eq_spec (M : Array UInt32) (Bin1 Bin2 Bout : Nat) (r : UInt64) (A1 A2 : Array UInt32)
    (hr : 1 ≤ r.toNat) (hr2 : 32 * r.toNat < 2 ^ 64) (hA1 : A1.size = 32 * r.toNat) (hA2 : A2.size = 32 * r.toNat)
    (hin1 : Bin1 + 32 * r.toNat ≤ M.size) (hin2 : Bin2 + 32 * r.toNat ≤ M.size)
    (hout : Bout + 32 * r.toNat ≤ M.size) (hdisj1 : Bin1 + 32 * r.toNat ≤ Bout ∨ Bout + 32 * r.toNat ≤ Bin1)
    (hdisj2 : Bin2 + 32 * r.toNat ≤ Bout ∨ Bout + 32 * r.toNat ≤ Bin2)
    (hrow1 : RowS M Bin1 A1) (hrow2 : RowS M Bin2 A2) :
    (ScryptSse.blockmix_salsa8_xor M Bin1 Bin2 Bout r).1.size = M.size ∧
      RowS (ScryptSse.blockmix_salsa8_xor M Bin1 Bin2 Bout r).1 Bout (Scrypt.blockMix r.toNat (Scrypt.xorWords A1 A2)) ∧
      (∀ t, ¬ (Bout ≤ t ∧ t < Bout + 32 * r.toNat) → (ScryptSse.blockmix_salsa8_xor M Bin1 Bin2 Bout r).1.getD t 0 = M.getD t 0) ∧
      (ScryptSse.blockmix_salsa8_xor M Bin1 Bin2 Bout r).2 =
        (Scrypt.blockMix r.toNat (Scrypt.xorWords A1 A2)).getD (16 * (2 * r.toNat - 1)) 0 :=
  blockmix_xor_sse_spec M Bin1 Bin2 Bout r A1 A2 hr hr2 hA1 hA2 hin1 hin2 hout hdisj1 hdisj2 hrow1 hrow2

/-- `integerify(B, r)` of the SSE2 file (`X[0]` lane 0 and `X[3]` lane 1, i.e. memory words 0 and 13 of the last block, which hold
    words 0 and 1 of the unpermuted block) = the reference `integerify` on the unpermuted row; masked with `N - 1` it is
    Integerify mod N of RFC 7914 §5 for every N = 2^n, n < 64 -/
theorem sse_integerify_eq_ref (M : Array UInt32) (p : Nat) (r : UInt64) (A : Array UInt32) (hr : 1 ≤ r.toNat)
    (hr2 : 32 * r.toNat < 2 ^ 64) (hA : A.size = 32 * r.toNat) (h : RowS M p A) :
    ScryptSse.integerify M p r = ScryptRef.integerify A r := integerify_sse_eq M p r A hr hr2 hA h

theorem sse_integerify_eq_spec (M : Array UInt32) (p : Nat) (r N : UInt64) (n : Nat) (A : Array UInt32) (hr : 1 ≤ r.toNat)
    (hr2 : 32 * r.toNat < 2 ^ 64) (hA : A.size = 32 * r.toNat) (h : RowS M p A) (hN : N.toNat = 2 ^ n) (hn : n < 64) :
    (ScryptSse.integerify M p r &&& (N - 1)).toNat = Scrypt.integerify r.toNat A % N.toNat := by
  rw [integerify_sse_eq M p r A hr hr2 hA h]; exact integerify_spec A r N n hr hr2 hA hN hn

/-- the masked 32-bit return value of `blockmix_salsa8_xor` is Integerify mod N as long as N = 2^n ≤ 2^32
    (`escrypt_kdf_sse` rejects N > UINT32_MAX before `smix` runs) -/
theorem sse_xor_return_is_integerify (A : Array UInt32) (r N : UInt64) (n : Nat) (hr : 1 ≤ r.toNat) (hr2 : 32 * r.toNat < 2 ^ 64)
    (hA : A.size = 32 * r.toNat) (hN : N.toNat = 2 ^ n) (hn : n ≤ 32) :
    ((A.getD (16 * (2 * r.toNat - 1)) 0).toUInt64 &&& (N - 1)).toNat = Scrypt.integerify r.toNat A % N.toNat :=
  ret_integerify A r N n hr hr2 hA hN hn

/-! ### (3) smix: the two main loops -/

/-- steps 2–9 of the SSE2 `smix` (`for (i = 1; i < N - 1; i += 2)` filling `V` two rows per pass with `X` / `Y` walking through `V`, the
    two `blockmix_salsa8` after it, `j = integerify & (N-1)`, `for (i = 0; i < N; i += 2)` with two `blockmix_salsa8_xor` per pass
    and `j` taken from their 32-bit return values): if row 0 of `V` holds `B0` in the SSE2 layout (what step 1 stores), `V` (N rows)
    lies below `XY` (2 rows) inside the memory, then afterwards `XY` holds scryptROMix_r(B0, N) (RFC 7914 §5) in the SSE2 layout
    (what step 10 reads); for every `r ≥ 1` and every power of two `N = 2^n`, `1 ≤ n ≤ 32`, with `128 r N < 2^64`.
    The previous contents of the memory are irrelevant. -/
theorem sse_smix_loops_eq_spec (r N : UInt64) (M : Array UInt32) (V XY n : Nat) (B0 : Array UInt32) (hr : 1 ≤ r.toNat)
    (h128 : 128 * r.toNat * N.toNat < 2 ^ 64) (hN : N.toNat = 2 ^ n) (hn1 : 1 ≤ n) (hn : n ≤ 32) (hB0 : B0.size = 32 * r.toNat)
    (hV : V + 32 * r.toNat * N.toNat ≤ XY) (hXY : XY + 64 * r.toNat ≤ M.size) (hrow : RowS M V B0) :
    (smix_mid r N M V XY).size = M.size ∧ RowS (smix_mid r N M V XY) XY (Scrypt.roMix r.toNat N.toNat B0) :=
  smix_mid_spec r N M V XY n B0 hr h128 hN hn1 hn hB0 hV hXY hrow

/-- `smix` is: the shuffling load, those steps, the shuffling store (definitional) -/
theorem sse_smix_parts (B : Array UInt8) (boff : Nat) (r N : UInt64) (M : Array UInt32) (V XY : Nat) :
    ScryptSse.smix B boff r N M V XY =
      (smix_store B boff r (smix_mid r N (smix_load B boff r M V) V XY) XY, smix_mid r N (smix_load B boff r M V) V XY) :=
  smix_parts B boff r N M V XY

/-- … and what the reference loops leave in their `X` is the same block (unpermuted): SSE2 `smix` loops = reference `smix` loops -/
theorem sse_smix_loops_eq_ref (r N : UInt64) (M : Array UInt32) (V XY n : Nat) (B0 Vr Y Z : Array UInt32) (hr : 1 ≤ r.toNat)
    (h128 : 128 * r.toNat * N.toNat < 2 ^ 64) (hN : N.toNat = 2 ^ n) (hn1 : 1 ≤ n) (hn : n ≤ 32) (hB0 : B0.size = 32 * r.toNat)
    (hV : V + 32 * r.toNat * N.toNat ≤ XY) (hXY : XY + 64 * r.toNat ≤ M.size) (hrow : RowS M V B0)
    (hVr : Vr.size = 32 * r.toNat * N.toNat) (hY : Y.size = 32 * r.toNat) (hZ : Z.size = 16) :
    RowS (smix_mid r N M V XY) XY
      (ScryptRef.smix_loop2 r N (ScryptRef.smix_loop1 r N Vr B0 Y Z).1 (ScryptRef.smix_loop1 r N Vr B0 Y Z).2.1
        (ScryptRef.smix_loop1 r N Vr B0 Y Z).2.2.1 (ScryptRef.smix_loop1 r N Vr B0 Y Z).2.2.2).1 := by
  rw [(smix_loops_spec r N n B0 Vr Y Z hr h128 hN hn1 (by omega) hB0 hVr hY hZ).1]
  exact (smix_mid_spec r N M V XY n B0 hr h128 hN hn1 hn hB0 hV hXY hrow).2

/-- step 1 of `smix` (`X32[k*16 + i] = LOAD32_LE(&B[(k*16 + (i*5 % 16)) * 4])`, two nested loops) stores the `32 r` little-endian
    words of `B` (the block the reference `smix` loads with `X[k] = LOAD32_LE(&B[4*k])`) into row 0 of `V` in the SSE2 layout -/
theorem sse_smix_load_eq_spec (B : Array UInt8) (boff : Nat) (r : UInt64) (M : Array UInt32) (V : Nat)
    (hr4 : 128 * r.toNat < 2 ^ 64) (hfit : V + 32 * r.toNat ≤ M.size) :
    (smix_load B boff r M V).size = M.size ∧ RowS (smix_load B boff r M V) V (wordsLE B boff (32 * r.toNat)) :=
  smix_load_spec B boff r M V hr4 hfit

/-- steps 1–9 of the SSE2 `smix(B, r, N, V, XY)`: whatever the memory held, `XY` ends up holding
    scryptROMix_r(the 128 r bytes at `B` as little-endian words, N) in the SSE2 layout; step 10 then stores word `k*16 + i` of `XY` to
    byte offset `(k*16 + (i*5 % 16)) * 4` of `B`, i.e. un-permutes. (The byte-level statement of step 10 and the `escrypt_kdf_*` glue
    are NOT proved here: see the report.) -/
theorem sse_smix_steps_1_to_9 (B : Array UInt8) (boff : Nat) (r N : UInt64) (M : Array UInt32) (V XY n : Nat) (hr : 1 ≤ r.toNat)
    (h128 : 128 * r.toNat * N.toNat < 2 ^ 64) (hN : N.toNat = 2 ^ n) (hn1 : 1 ≤ n) (hn : n ≤ 32)
    (hV : V + 32 * r.toNat * N.toNat ≤ XY) (hXY : XY + 64 * r.toNat ≤ M.size) :
    RowS (ScryptSse.smix B boff r N M V XY).2 XY (Scrypt.roMix r.toNat N.toNat (wordsLE B boff (32 * r.toNat))) := by
  have hpos : 1 ≤ N.toNat := by rw [hN]; exact Nat.pow_pos (by decide)
  have h1 := Nat.mul_le_mul_left (128 * r.toNat) hpos
  have h2 := Nat.mul_le_mul_left (32 * r.toNat) hpos
  have ld := smix_load_spec B boff r M V (by omega) (by omega)
  rw [smix_parts]
  exact (smix_mid_spec r N _ V XY n _ hr h128 hN hn1 hn (by unfold wordsLE; rw [Array.size_ofFn]) hV (by rw [ld.1]; exact hXY) ld.2).2

/-! ### (3, complete) both `smix` functions on the bytes of `B` -/

/-- what `Stored B' B boff A` says in terms of the specification's `bytesOfWords`: the `4 * A.size` bytes at `boff` are
    `bytesOfWords A`, every other byte (and the size) is unchanged -/
theorem stored_spec (B' B : Array UInt8) (boff : Nat) (A : Array UInt32) (h : Stored B' B boff A) :
    B'.size = B.size ∧ (∀ v, v < 4 * A.size → B'.getD (boff + v) 0 = (Scrypt.bytesOfWords A).getD v 0) ∧
      (∀ u, ¬ (boff ≤ u ∧ u < boff + 4 * A.size) → B'.getD u 0 = B.getD u 0) := by
  refine ⟨h.1, fun v hv => ?_, fun u hu => by rw [h.2 u, if_neg hu]⟩
  rw [h.2 (boff + v), if_pos ⟨by omega, by omega⟩, Nat.add_sub_cancel_left, bytesOfWords_getD A v hv]

/-- the little-endian words the two `smix` functions load are the specification's `wordsOfBytes` -/
theorem wordsLE_eq_spec (B : Array UInt8) (boff n : Nat) : wordsLE B boff n = (Scrypt.wordsOfBytes n (B.toList.drop boff)).toArray :=
  (wordsOfBytes_toArray B n boff).symm

/-- the SSE2 `smix(B, r, N, V, XY)` as a whole (shuffling load, the two loops, un-shuffling store): the `128 r` bytes at `B` are replaced
    by `bytesOfWords (scryptROMix_r (wordsOfBytes B, N))` (RFC 7914 §5 on bytes), nothing else of `B` changes, the scratch memory keeps its
    size and its previous contents are irrelevant; for every `r ≥ 1`, `N = 2^n` with `1 ≤ n ≤ 32`, `128 r N < 2^64`, `V` (N rows) below `XY`
    (2 rows) inside the memory -/
theorem sse_smix_eq_spec (B : Array UInt8) (boff : Nat) (r N : UInt64) (M : Array UInt32) (V XY n : Nat) (hr : 1 ≤ r.toNat)
    (h128 : 128 * r.toNat * N.toNat < 2 ^ 64) (hN : N.toNat = 2 ^ n) (hn1 : 1 ≤ n) (hn : n ≤ 32)
    (hV : V + 32 * r.toNat * N.toNat ≤ XY) (hXY : XY + 64 * r.toNat ≤ M.size) (hfit : boff + 128 * r.toNat ≤ B.size) :
    Stored (ScryptSse.smix B boff r N M V XY).1 B boff
        (Scrypt.roMix r.toNat N.toNat (Scrypt.wordsOfBytes (32 * r.toNat) (B.toList.drop boff)).toArray) ∧
      (ScryptSse.smix B boff r N M V XY).2.size = M.size := by
  rw [← wordsLE_eq_spec]; exact smix_sse_bytes B boff r N M V XY n hr h128 hN hn1 hn hV hXY hfit

/-- the reference `smix` as a whole (le32dec loop, the two loops, le32enc loop): the same bytes; `V`, `X`, `Y`, `Z` keep their sizes -/
theorem ref_smix_eq_spec (m : ScryptRef.Mem) (boff : Nat) (r N : UInt64) (n : Nat) (hr : 1 ≤ r.toNat)
    (h128 : 128 * r.toNat * N.toNat < 2 ^ 64) (hN : N.toNat = 2 ^ n) (hn1 : 1 ≤ n) (hn : n < 64) (hm : MemOK r N m)
    (hfit : boff + 128 * r.toNat ≤ m.B.size) :
    Stored (ScryptRef.smix m boff r N).B m.B boff
        (Scrypt.roMix r.toNat N.toNat (Scrypt.wordsOfBytes (32 * r.toNat) (m.B.toList.drop boff)).toArray) ∧
      MemOK r N (ScryptRef.smix m boff r N) := by
  rw [← wordsLE_eq_spec]; exact smix_ref_bytes m boff r N n hr h128 hN hn1 hn hm hfit

/-- SSE2 `smix` = reference `smix` on the bytes of `B` (same `B`, same offset; any scratch memories of the right sizes) -/
theorem sse_smix_eq_ref (m : ScryptRef.Mem) (boff : Nat) (r N : UInt64) (M : Array UInt32) (V XY n : Nat) (hr : 1 ≤ r.toNat)
    (h128 : 128 * r.toNat * N.toNat < 2 ^ 64) (hN : N.toNat = 2 ^ n) (hn1 : 1 ≤ n) (hn : n ≤ 32) (hm : MemOK r N m)
    (hV : V + 32 * r.toNat * N.toNat ≤ XY) (hXY : XY + 64 * r.toNat ≤ M.size) (hfit : boff + 128 * r.toNat ≤ m.B.size) :
    (ScryptSse.smix m.B boff r N M V XY).1 = (ScryptRef.smix m boff r N).B := by
  have a := (smix_sse_bytes m.B boff r N M V XY n hr h128 hN hn1 hn hV hXY hfit).1
  have b := (smix_ref_bytes m boff r N n hr h128 hN hn1 (by omega) hm hfit).1
  apply Array.ext_getElem?
  intro u
  have := a.2 u
  rw [← b.2 u] at this
  have hs : (ScryptSse.smix m.B boff r N M V XY).1.size = (ScryptRef.smix m boff r N).B.size := by rw [a.1, b.1]
  by_cases hu : u < (ScryptSse.smix m.B boff r N M V XY).1.size
  · rw [Array.getElem?_eq_getElem hu, Array.getElem?_eq_getElem (by omega)]
    simp only [Array.getD_eq_getD_getElem?, Array.getElem?_eq_getElem hu, Array.getElem?_eq_getElem (show u < _ by omega : u < (ScryptRef.smix m boff r N).B.size), Option.getD_some] at this
    rw [this]
  · rw [Array.getElem?_eq_none (by omega), Array.getElem?_eq_none (by omega)]

/-! ### (4) escrypt_kdf_sse, escrypt_kdf_nosse -/

/-- what both `escrypt_kdf_*` functions compute, as a total function of their (C-typed) arguments: every error return in the order of
    the C text — EFBIG for `buflen > 32 (2^32 - 1)`, EFBIG for `r p ≥ 2^30`, EFBIG for `N > UINT32_MAX`, EINVAL for `N` not a power of two or
    `N < 2`, EINVAL for `r = 0` or `p = 0`, ENOMEM for `r > SIZE_MAX / 128 / p` or `N > SIZE_MAX / 128 / r`, ENOMEM when `B_size + V_size` or
    `… + XY_size` wraps, ENOMEM (-1) when the allocation of `need` bytes fails — and otherwise `scrypt(passwd, salt, N, r, p, buflen)` -/
def kdfSpec (allocOk : UInt64 → Bool) (scrypt : Bytes → Bytes → Nat → Nat → Nat → Nat → Bytes) (passwd salt : Bytes)
    (N : UInt64) (_r _p : UInt32) (buflen : UInt64) : Pwhash.Result :=
  if buflen > (((1 : UInt64) <<< 32) - 1) * 32 then { rc := -1, errno := Pwhash.EFBIG }
  else if _r.toUInt64 * _p.toUInt64 ≥ (1 : UInt64) <<< 30 then { rc := -1, errno := Pwhash.EFBIG }
  else if N > 0xffffffff then { rc := -1, errno := Pwhash.EFBIG }
  else if (N &&& (N - 1)) ≠ 0 ∨ N < 2 then { rc := -1, errno := Pwhash.EINVAL }
  else if _r.toUInt64 = 0 ∨ _p.toUInt64 = 0 then { rc := -1, errno := Pwhash.EINVAL }
  else if _r.toUInt64 > 0xffffffffffffffff / 128 / _p.toUInt64 ∨ N > 0xffffffffffffffff / 128 / _r.toUInt64 then
    { rc := -1, errno := Pwhash.ENOMEM }
  else if 128 * _r.toUInt64 * _p.toUInt64 + 128 * _r.toUInt64 * N < 128 * _r.toUInt64 * N then { rc := -1, errno := Pwhash.ENOMEM }
  else if 128 * _r.toUInt64 * _p.toUInt64 + 128 * _r.toUInt64 * N + (256 * _r.toUInt64 + 64) < 256 * _r.toUInt64 + 64 then
    { rc := -1, errno := Pwhash.ENOMEM }
  else if !allocOk (128 * _r.toUInt64 * _p.toUInt64 + 128 * _r.toUInt64 * N + (256 * _r.toUInt64 + 64)) then
    { rc := -1, errno := Pwhash.ENOMEM }
  else { rc := 0, out := scrypt passwd salt N.toNat _r.toNat _p.toNat buflen.toNat }

theorem hmac_laws {σ : Type} (H : HashOps σ) (Hf : Bytes → Bytes) (hH : C04.ChunkLaw H Hf) (pw : Bytes) :
    (∀ U, hmacFinal H (hmacUpdate H (hmacInit H pw) U) = C04.hmacSpec Hf H.W pw U) ∧
    (∀ salt iv, hmacFinal H (hmacUpdate H (hmacUpdate H (hmacInit H pw) salt) iv) = C04.hmacSpec Hf H.W pw (salt ++ iv)) := by
  constructor
  · intro U; have := C04.hmac_chunks H Hf hH pw [U]; simpa using this
  · intro salt iv; have := C04.hmac_chunks H Hf hH pw [salt, iv]; simpa using this

/-- `escrypt_kdf_sse` (parameter checks, region layout `B ‖ V ‖ XY`, PBKDF2, the p-loop over the SSE2 `smix`, PBKDF2) = RFC 7914 scrypt
    over HMAC of the hash function `Hf`, for EVERY argument: all error returns exactly as `kdfSpec`, and in every other case the output is
    `Spec.Scrypt.scrypt (HMAC) passwd salt N r p buflen` -/
theorem escrypt_kdf_sse_eq_spec {σ : Type} (H : HashOps σ) (Hf : Bytes → Bytes) (hH : C04.ChunkLaw H Hf)
    (hout : ∀ m, (Hf m).length = 32) (allocOk : UInt64 → Bool) (passwd salt : Bytes) (N : UInt64) (_r _p : UInt32) (buflen : UInt64) :
    ScryptSse.escrypt_kdf_sse H allocOk passwd salt N _r _p buflen =
      kdfSpec allocOk (Scrypt.scrypt (C04.hmacSpec Hf H.W)) passwd salt N _r _p buflen := by
  by_cases c1 : buflen > (((1 : UInt64) <<< 32) - 1) * 32
  · simp only [ScryptSse.escrypt_kdf_sse, kdfSpec, if_pos c1]
  by_cases c2 : _r.toUInt64 * _p.toUInt64 ≥ (1 : UInt64) <<< 30
  · simp only [ScryptSse.escrypt_kdf_sse, kdfSpec, if_neg c1, if_pos c2]
  by_cases c3 : N > 0xffffffff
  · simp only [ScryptSse.escrypt_kdf_sse, kdfSpec, if_neg c1, if_neg c2, if_pos c3]
  by_cases c4 : (N &&& (N - 1)) ≠ 0 ∨ N < 2
  · simp only [ScryptSse.escrypt_kdf_sse, kdfSpec, if_neg c1, if_neg c2, if_neg c3, if_pos c4]
  by_cases c5 : _r.toUInt64 = 0 ∨ _p.toUInt64 = 0
  · simp only [ScryptSse.escrypt_kdf_sse, kdfSpec, if_neg c1, if_neg c2, if_neg c3, if_neg c4, if_pos c5]
  by_cases c6 : _r.toUInt64 > 0xffffffffffffffff / 128 / _p.toUInt64 ∨ N > 0xffffffffffffffff / 128 / _r.toUInt64
  · simp only [ScryptSse.escrypt_kdf_sse, kdfSpec, if_neg c1, if_neg c2, if_neg c3, if_neg c4, if_neg c5, if_pos c6]
  by_cases w1 : 128 * _r.toUInt64 * _p.toUInt64 + 128 * _r.toUInt64 * N < 128 * _r.toUInt64 * N
  · simp only [ScryptSse.escrypt_kdf_sse, kdfSpec, if_neg c1, if_neg c2, if_neg c3, if_neg c4, if_neg c5, if_neg c6, if_pos w1]
  by_cases w2 : 128 * _r.toUInt64 * _p.toUInt64 + 128 * _r.toUInt64 * N + (256 * _r.toUInt64 + 64) < 256 * _r.toUInt64 + 64
  · simp only [ScryptSse.escrypt_kdf_sse, kdfSpec, if_neg c1, if_neg c2, if_neg c3, if_neg c4, if_neg c5, if_neg c6, if_neg w1, if_pos w2]
  cases hal : allocOk (128 * _r.toUInt64 * _p.toUInt64 + 128 * _r.toUInt64 * N + (256 * _r.toUInt64 + 64))
  · simp only [ScryptSse.escrypt_kdf_sse, kdfSpec, if_neg c1, if_neg c2, if_neg c3, if_neg c4, if_neg c5, if_neg c6, if_neg w1, if_neg w2,
      hal, Bool.not_false, if_true]
  · have laws := hmac_laws H Hf hH passwd
    rw [kdf_sse_ok H (C04.hmacSpec Hf H.W) passwd salt laws.1 laws.2 (fun k m => hout _) allocOk N _r _p buflen
      ⟨c1, c2, c3, c4, c5, c6⟩ w1 w2 hal]
    simp only [kdfSpec, if_neg c1, if_neg c2, if_neg c3, if_neg c4, if_neg c5, if_neg c6, if_neg w1, if_neg w2, hal, Bool.not_true,
      Bool.false_eq_true, if_false]

/-- `escrypt_kdf_nosse` (the le32dec / le32enc loops of the reference `smix`, the p-loop, the size checks, the PBKDF2 calls) = RFC 7914
    scrypt, for EVERY argument, with the same error returns -/
theorem escrypt_kdf_nosse_eq_spec {σ : Type} (H : HashOps σ) (Hf : Bytes → Bytes) (hH : C04.ChunkLaw H Hf)
    (hout : ∀ m, (Hf m).length = 32) (allocOk : UInt64 → Bool) (passwd salt : Bytes) (N : UInt64) (_r _p : UInt32) (buflen : UInt64) :
    ScryptRef.escrypt_kdf_nosse H allocOk passwd salt N _r _p buflen =
      kdfSpec allocOk (Scrypt.scrypt (C04.hmacSpec Hf H.W)) passwd salt N _r _p buflen := by
  by_cases c1 : buflen > (((1 : UInt64) <<< 32) - 1) * 32
  · simp only [ScryptRef.escrypt_kdf_nosse, kdfSpec, if_pos c1]
  by_cases c2 : _r.toUInt64 * _p.toUInt64 ≥ (1 : UInt64) <<< 30
  · simp only [ScryptRef.escrypt_kdf_nosse, kdfSpec, if_neg c1, if_pos c2]
  by_cases c3 : N > 0xffffffff
  · simp only [ScryptRef.escrypt_kdf_nosse, kdfSpec, if_neg c1, if_neg c2, if_pos c3]
  by_cases c4 : (N &&& (N - 1)) ≠ 0 ∨ N < 2
  · simp only [ScryptRef.escrypt_kdf_nosse, kdfSpec, if_neg c1, if_neg c2, if_neg c3, if_pos c4]
  by_cases c5 : _r.toUInt64 = 0 ∨ _p.toUInt64 = 0
  · simp only [ScryptRef.escrypt_kdf_nosse, kdfSpec, if_neg c1, if_neg c2, if_neg c3, if_neg c4, if_pos c5]
  by_cases c6 : _r.toUInt64 > 0xffffffffffffffff / 128 / _p.toUInt64 ∨ N > 0xffffffffffffffff / 128 / _r.toUInt64
  · simp only [ScryptRef.escrypt_kdf_nosse, kdfSpec, if_neg c1, if_neg c2, if_neg c3, if_neg c4, if_neg c5, if_pos c6]
  by_cases w1 : 128 * _r.toUInt64 * _p.toUInt64 + 128 * _r.toUInt64 * N < 128 * _r.toUInt64 * N
  · simp only [ScryptRef.escrypt_kdf_nosse, kdfSpec, if_neg c1, if_neg c2, if_neg c3, if_neg c4, if_neg c5, if_neg c6, if_pos w1]
  by_cases w2 : 128 * _r.toUInt64 * _p.toUInt64 + 128 * _r.toUInt64 * N + (256 * _r.toUInt64 + 64) < 256 * _r.toUInt64 + 64
  · simp only [ScryptRef.escrypt_kdf_nosse, kdfSpec, if_neg c1, if_neg c2, if_neg c3, if_neg c4, if_neg c5, if_neg c6, if_neg w1, if_pos w2]
  cases hal : allocOk (128 * _r.toUInt64 * _p.toUInt64 + 128 * _r.toUInt64 * N + (256 * _r.toUInt64 + 64))
  · simp only [ScryptRef.escrypt_kdf_nosse, kdfSpec, if_neg c1, if_neg c2, if_neg c3, if_neg c4, if_neg c5, if_neg c6, if_neg w1, if_neg w2,
      hal, Bool.not_false, if_true]
  · have laws := hmac_laws H Hf hH passwd
    rw [kdf_nosse_ok H (C04.hmacSpec Hf H.W) passwd salt laws.1 laws.2 (fun k m => hout _) allocOk N _r _p buflen
      ⟨c1, c2, c3, c4, c5, c6⟩ w1 w2 hal]
    simp only [kdfSpec, if_neg c1, if_neg c2, if_neg c3, if_neg c4, if_neg c5, if_neg c6, if_neg w1, if_neg w2, hal, Bool.not_true,
      Bool.false_eq_true, if_false]

/-- hence the two implementations agree on every input (what `crypto_pwhash_scryptsalsa208sha256_ll` selects at run time does not matter) -/
theorem escrypt_kdf_sse_eq_nosse {σ : Type} (H : HashOps σ) (Hf : Bytes → Bytes) (hH : C04.ChunkLaw H Hf)
    (hout : ∀ m, (Hf m).length = 32) (allocOk : UInt64 → Bool) (passwd salt : Bytes) (N : UInt64) (_r _p : UInt32) (buflen : UInt64) :
    ScryptSse.escrypt_kdf_sse H allocOk passwd salt N _r _p buflen = ScryptRef.escrypt_kdf_nosse H allocOk passwd salt N _r _p buflen := by
  rw [escrypt_kdf_sse_eq_spec H Hf hH hout, escrypt_kdf_nosse_eq_spec H Hf hH hout]

/-- the instance used by libsodium: HMAC-SHA-256 -/
theorem escrypt_kdf_sse_sha256 (allocOk : UInt64 → Bool) (passwd salt : Bytes) (N : UInt64) (_r _p : UInt32) (buflen : UInt64) :
    ScryptSse.escrypt_kdf_sse C04.H256 allocOk passwd salt N _r _p buflen =
      kdfSpec allocOk (Scrypt.scrypt (C04.hmacSpec Spec.Sha256.hash 64)) passwd salt N _r _p buflen :=
  escrypt_kdf_sse_eq_spec C04.H256 Spec.Sha256.hash C04.chunkLaw_sha256 (fun _ => sha256_digest_length _) allocOk passwd salt N _r _p buflen

theorem escrypt_kdf_nosse_sha256 (allocOk : UInt64 → Bool) (passwd salt : Bytes) (N : UInt64) (_r _p : UInt32) (buflen : UInt64) :
    ScryptRef.escrypt_kdf_nosse C04.H256 allocOk passwd salt N _r _p buflen =
      kdfSpec allocOk (Scrypt.scrypt (C04.hmacSpec Spec.Sha256.hash 64)) passwd salt N _r _p buflen :=
  escrypt_kdf_nosse_eq_spec C04.H256 Spec.Sha256.hash C04.chunkLaw_sha256 (fun _ => sha256_digest_length _) allocOk passwd salt N _r _p buflen

/-- the success case is reachable (RFC 7914 vector 2: N = 1024, r = 8, p = 16, dkLen = 64 passes every test) -/
example : (kdfSpec (fun _ => true) (fun _ _ _ _ _ n => zeros n) [] [] 1024 8 16 64).rc = 0 := by decide

/-! ### (5) crypto_pwhash_scryptsalsa208sha256 -/

/-- the scrypt core the driver plugs into `Pwhash.Prims` (`Driver.C08.scryptSse`): `escrypt_kdf_sse` on the arguments converted to the C types,
    allocation succeeding -/
def sseCore {σ : Type} (H : HashOps σ) (pwd salt : Bytes) (N r p dkLen : Nat) : Bytes :=
  (ScryptSse.escrypt_kdf_sse H (fun _ => true) pwd salt (UInt64.ofNat N) (UInt32.ofNat r) (UInt32.ofNat p) (UInt64.ofNat dkLen)).out

theorem pow2_and : ∀ k, k < 32 → (UInt64.ofNat (2 ^ k) &&& (UInt64.ofNat (2 ^ k) - 1)) = 0 := by decide +kernel

theorem kdfSpec_pick (scrypt : Bytes → Bytes → Nat → Nat → Nat → Nat → Bytes) (pw salt : Bytes) (k p outlen : Nat)
    (hk1 : 1 ≤ k) (hk : k ≤ 31) (hp1 : 1 ≤ p) (hp : 8 * p < 2 ^ 30) (ho : outlen ≤ 0x1fffffffe0) :
    kdfSpec (fun _ => true) scrypt pw salt (UInt64.ofNat (2 ^ k)) (UInt32.ofNat 8) (UInt32.ofNat p) (UInt64.ofNat outlen) =
      { rc := 0, out := scrypt pw salt (2 ^ k) 8 p outlen } := by
  have hN2 : 2 ≤ 2 ^ k := by
    have := Nat.pow_le_pow_right (show 0 < 2 by decide) hk1; simpa using this
  have hN31 : 2 ^ k ≤ 2 ^ 31 := Nat.pow_le_pow_right (by decide) hk
  have eN : (UInt64.ofNat (2 ^ k)).toNat = 2 ^ k := by rw [UInt64.toNat_ofNat']; exact Nat.mod_eq_of_lt (by omega)
  have er : (UInt32.ofNat 8).toUInt64 = 8 := by decide
  have ep : (UInt32.ofNat p).toUInt64.toNat = p := by
    rw [UInt32.toNat_toUInt64, UInt32.toNat_ofNat']; exact Nat.mod_eq_of_lt (by omega)
  have ep' : (UInt32.ofNat p).toNat = p := by rw [UInt32.toNat_ofNat']; exact Nat.mod_eq_of_lt (by omega)
  have eo : (UInt64.ofNat outlen).toNat = outlen := by rw [UInt64.toNat_ofNat']; exact Nat.mod_eq_of_lt (by omega)
  have e1 : (((1 : UInt64) <<< 32) - 1) * 32 = (0x1fffffffe0 : UInt64) := by decide
  have e2 : ((1 : UInt64) <<< 30) = (0x40000000 : UInt64) := by decide
  have e3 : (0xffffffffffffffff : UInt64) / 128 / 8 = (18014398509481983 : UInt64) := by decide
  have e4 : (0xffffffffffffffff : UInt64) / 128 = (144115188075855871 : UInt64) := by decide
  generalize hP : (UInt32.ofNat p).toUInt64 = P at ep
  generalize hNN : UInt64.ofNat (2 ^ k) = N at eN
  generalize hO : UInt64.ofNat outlen = O at eo
  have c1 : ¬ O > (((1 : UInt64) <<< 32) - 1) * 32 := by
    rw [e1, gt_iff_lt, UInt64.lt_iff_toNat_lt, eo]; simp only [UInt64.toNat_ofNat, Nat.reducePow, Nat.reduceMod]; omega
  have c2 : ¬ (8 : UInt64) * P ≥ (1 : UInt64) <<< 30 := by
    rw [e2, ge_iff_le, UInt64.le_iff_toNat_le, UInt64.toNat_mul, ep]; simp only [UInt64.toNat_ofNat, Nat.reducePow, Nat.reduceMod]; omega
  have c3 : ¬ N > 0xffffffff := by
    rw [gt_iff_lt, UInt64.lt_iff_toNat_lt, eN]; simp only [UInt64.toNat_ofNat, Nat.reducePow, Nat.reduceMod]; omega
  have c4 : ¬ ((N &&& (N - 1)) ≠ 0 ∨ N < 2) := by
    intro h; rcases h with h | h
    · exact h (by rw [← hNN]; exact pow2_and k (by omega))
    · rw [UInt64.lt_iff_toNat_lt, eN] at h
      simp only [UInt64.toNat_ofNat, Nat.reducePow, Nat.reduceMod] at h; omega
  have c5 : ¬ ((8 : UInt64) = 0 ∨ P = 0) := by
    intro h; rcases h with h | h
    · exact absurd h (by decide)
    · rw [h] at ep; simp at ep; omega
  have c6 : ¬ ((8 : UInt64) > 0xffffffffffffffff / 128 / P ∨ N > 0xffffffffffffffff / 128 / 8) := by
    rw [e3, e4, gt_iff_lt, gt_iff_lt, UInt64.lt_iff_toNat_lt, UInt64.lt_iff_toNat_lt, UInt64.toNat_div, ep, eN]
    simp only [UInt64.toNat_ofNat, Nat.reducePow, Nat.reduceMod]
    have : 8 ≤ 144115188075855871 / p := (Nat.le_div_iff_mul_le (by omega)).mpr (by omega)
    omega
  have hB : ((128 : UInt64) * 8 * P).toNat = 1024 * p := by
    rw [UInt64.toNat_mul, ep]; simp only [UInt64.toNat_mul, UInt64.toNat_ofNat, Nat.reducePow, Nat.reduceMod, Nat.reduceMul]; omega
  have hV : ((128 : UInt64) * 8 * N).toNat = 1024 * 2 ^ k := by
    rw [UInt64.toNat_mul, eN]; simp only [UInt64.toNat_mul, UInt64.toNat_ofNat, Nat.reducePow, Nat.reduceMod, Nat.reduceMul]; omega
  have hXY : ((256 : UInt64) * 8 + 64).toNat = 2112 := by decide
  have w1 : ¬ (128 : UInt64) * 8 * P + 128 * 8 * N < 128 * 8 * N := by
    rw [UInt64.lt_iff_toNat_lt, UInt64.toNat_add, hB, hV]; omega
  have w2 : ¬ (128 : UInt64) * 8 * P + 128 * 8 * N + (256 * 8 + 64) < 256 * 8 + 64 := by
    rw [UInt64.lt_iff_toNat_lt, UInt64.toNat_add, UInt64.toNat_add, hB, hV, hXY]; omega
  have e8 : (UInt32.ofNat 8).toNat = 8 := by decide
  unfold kdfSpec
  rw [er, hP]
  simp only [if_neg c1, if_neg c2, if_neg c3, if_neg c4, if_neg c5, if_neg c6, if_neg w1, if_neg w2, Bool.not_true, Bool.false_eq_true,
    if_false, eN, eo, e8]
  rw [ep']

/-- (5) `crypto_pwhash_scryptsalsa208sha256` over the SSE2 core (any `Prims` whose scrypt core is `escrypt_kdf_sse` on the converted
    arguments, as in the driver) = RFC 7914 scrypt with pickparams' (N, r, p): EFBIG for `outlen > 0x1fffffffe0`, EINVAL for
    `outlen < 16`, EFBIG when the picked `N = 2^N_log2` exceeds UINT32_MAX, EINVAL for `p = 0`, otherwise exactly
    `scrypt(passwd, salt[0..32), 2^N_log2, 8, p, outlen)` over HMAC of `Hf` -/
theorem crypto_pwhash_scrypt_sse_eq_spec {σ : Type} (H : HashOps σ) (Hf : Bytes → Bytes) (hH : C04.ChunkLaw H Hf)
    (hout : ∀ m, (Hf m).length = 32) (P : Pwhash.Prims) (hP : P.scrypt = sseCore H) (outlen : Nat) (passwd salt : Bytes)
    (opslimit memlimit : Nat) (hpw : passwd.length < 2 ^ 64) :
    Pwhash.crypto_pwhash_scrypt P outlen passwd salt opslimit memlimit =
      if outlen > 0x1fffffffe0 then { rc := -1, errno := Pwhash.EFBIG }
      else if outlen < 16 then { rc := -1, errno := Pwhash.EINVAL }
      else if (Pwhash.pickparams opslimit memlimit).N_log2 ≥ 32 then { rc := -1, errno := Pwhash.EFBIG }
      else if (Pwhash.pickparams opslimit memlimit).p = 0 then { rc := -1, errno := Pwhash.EINVAL }
      else { rc := 0, out := Scrypt.scrypt (C04.hmacSpec Hf H.W) passwd (salt.take 32)
                               (2 ^ (Pwhash.pickparams opslimit memlimit).N_log2) 8 (Pwhash.pickparams opslimit memlimit).p outlen } := by
  rw [C08.scrypt_limits_spec P outlen passwd salt opslimit memlimit hpw]
  have pp := C08.pickparams_spec opslimit memlimit
  simp only [] at pp
  obtain ⟨_, pk1, _, _, _, _, pp8⟩ := pp
  split; · rfl
  split; · rfl
  split; · rfl
  split; · rfl
  rename_i h1 h2 h3 h4
  congr 1
  rw [hP]
  unfold sseCore
  rw [escrypt_kdf_sse_eq_spec H Hf hH hout, kdfSpec_pick _ _ _ _ _ _ pk1 (by omega) (by omega) pp8 (by omega)]

/-- the same for the reference core `escrypt_kdf_nosse` -/
def refCore {σ : Type} (H : HashOps σ) (pwd salt : Bytes) (N r p dkLen : Nat) : Bytes :=
  (ScryptRef.escrypt_kdf_nosse H (fun _ => true) pwd salt (UInt64.ofNat N) (UInt32.ofNat r) (UInt32.ofNat p) (UInt64.ofNat dkLen)).out

theorem crypto_pwhash_scrypt_ref_eq_spec {σ : Type} (H : HashOps σ) (Hf : Bytes → Bytes) (hH : C04.ChunkLaw H Hf)
    (hout : ∀ m, (Hf m).length = 32) (P : Pwhash.Prims) (hP : P.scrypt = refCore H) (outlen : Nat) (passwd salt : Bytes)
    (opslimit memlimit : Nat) (hpw : passwd.length < 2 ^ 64) :
    Pwhash.crypto_pwhash_scrypt P outlen passwd salt opslimit memlimit =
      if outlen > 0x1fffffffe0 then { rc := -1, errno := Pwhash.EFBIG }
      else if outlen < 16 then { rc := -1, errno := Pwhash.EINVAL }
      else if (Pwhash.pickparams opslimit memlimit).N_log2 ≥ 32 then { rc := -1, errno := Pwhash.EFBIG }
      else if (Pwhash.pickparams opslimit memlimit).p = 0 then { rc := -1, errno := Pwhash.EINVAL }
      else { rc := 0, out := Scrypt.scrypt (C04.hmacSpec Hf H.W) passwd (salt.take 32)
                               (2 ^ (Pwhash.pickparams opslimit memlimit).N_log2) 8 (Pwhash.pickparams opslimit memlimit).p outlen } := by
  rw [C08.scrypt_limits_spec P outlen passwd salt opslimit memlimit hpw]
  have pp := C08.pickparams_spec opslimit memlimit
  simp only [] at pp
  obtain ⟨_, pk1, _, _, _, _, pp8⟩ := pp
  split; · rfl
  split; · rfl
  split; · rfl
  split; · rfl
  rename_i h1 h2 h3 h4
  congr 1
  rw [hP]
  unfold refCore
  rw [escrypt_kdf_nosse_eq_spec H Hf hH hout, kdfSpec_pick _ _ _ _ _ _ pk1 (by omega) (by omega) pp8 (by omega)]

/-! ### non-vacuity -/

/-- the hypotheses of `sse_smix_loops_eq_spec` are satisfiable: r = 1, N = 2, V = 64 words at 0, XY = 64 words at 64, row 0 zero -/
example : RowS (Array.replicate 128 (0 : UInt32)) 0 (Array.replicate 32 0) := by
  intro t ht
  have z : ∀ n k, (Array.replicate n (0 : UInt32)).getD k 0 = 0 := by
    intro n k
    simp only [Array.getD_eq_getD_getElem?, Array.getElem?_replicate]
    split <;> rfl
  rw [z, z]

example : (128 * (1 : UInt64).toNat * (2 : UInt64).toNat < 2 ^ 64) ∧ (2 : UInt64).toNat = 2 ^ 1 := by decide

end Sodium.C08ScryptSse
