import SodiumModel.Model.Blake2bSimd
import SodiumModel.Proofs.Blake2bSimd
import SodiumModel.Proofs.Blake2bSimdSse
import SodiumModel.Driver.C04
import SodiumModel.Properties.C04Compress
/-
  C04 (SIMD BLAKE2b) — the AVX2, SSSE3 and SSE4.1 compression functions of libsodium
  (`blake2b_compress_avx2`, `blake2b_compress_ssse3`, `blake2b_compress_sse41`), modelled macro by
  macro in `Model/Blake2bSimd.lean` (+ the generated `Model/Blake2bSimdLoad.lean` for the 3 × 48
  message-load macros), equal `Spec.Blake2b.compress` (F of RFC 7693 §3.2) for EVERY chaining value
  `h[0..7]`, block, counter `t` and last-block flag — the same specification function and the same
  statement shape as `C04Compress.blake2b_compress_ref_eq_spec`.

  What the functions read from `blake2b_state *S`: `h[0..7]`, `t[0..1]`, `f[0..1]`; what they write:
  `h[0..7]`.  The state fields map to the specification's arguments as in `C04Compress`:
  `t[0] = t mod 2^64`, `t[1] = t / 2^64 mod 2^64`, `f[0] = last ? ~0 : 0`, `f[1] = 0`.

  TRUSTED BASE (in addition to the specification): the intrinsic semantics of
  `Model/Blake2bSimdIntrin.lean` — transcriptions of the Intel SDM / Intrinsics Guide "Operation"
  pseudo-code of `_mm_loadu_si128, _mm_storeu_si128, _mm_set_epi64x, _mm_setr_epi8, _mm_add_epi64,
  _mm_xor_si128, _mm_srli_epi64, _mm_slli_epi64, _mm_shuffle_epi32, _mm_unpacklo_epi64,
  _mm_unpackhi_epi64, _mm_shuffle_epi8, _mm_alignr_epi8, _mm_blend_epi16, _mm256_loadu_si256,
  _mm256_load_si256, _mm256_storeu_si256, _mm256_broadcastsi128_si256, _mm256_set_epi64x,
  _mm256_setr_epi8, _mm256_add_epi64, _mm256_xor_si256, _mm256_or_si256, _mm256_srli_epi64,
  _mm256_shuffle_epi32, _mm256_shuffle_epi8, _mm256_alignr_epi8, _mm256_unpacklo_epi64,
  _mm256_unpackhi_epi64, _mm256_blend_epi32, _mm256_permute4x64_epi64, _MM_SHUFFLE`, over one canonical
  register representation (2 × / 4 × 64-bit lanes, little-endian views) — and the reading of
  `&S->h[i]`, `&S->t[0]`, `&S->f[0]`, `&blake2b_IV[i]` as loads of consecutive `uint64_t` lanes and of
  `((const uint64_t *) block)[i]` as a little-endian 8-byte load (x86).  Each intrinsic is validated
  against the real CPU by `simdcheck/run.sh` (C program + `lean --run` comparison).

  No deviation of the C code from the specification was found.
-/
open Sodium Sodium.Model Sodium.Model.Blake2bSimd Sodium.Blake2bSimdP
open Sodium.Model.CompressRef (rotr64)
open Sodium.Model.CompressRef.Blake2b (tWords fWords)
namespace Sodium.C04Simd

/-- `SIGMA[r mod 10][j]` of RFC 7693 §2.7 -/
def SIGMA (r j : Nat) : Nat := (Spec.Blake2b.sigma.getD (r % 10) #[]).getD j 0

/-! ### the rotation idioms are rotations (on every 64-bit lane) -/

/-- `ROT32(x) = _mm256_shuffle_epi32(x, _MM_SHUFFLE(2, 3, 0, 1))` -/
theorem avx2_ROT32_eq_rotr (x0 x1 x2 x3 : UInt64) :
    Avx2.ROT32 (row x0 x1 x2 x3) = row (rotr64 x0 32) (rotr64 x1 32) (rotr64 x2 32) (rotr64 x3 32) :=
  Avx2P.ROT32_row x0 x1 x2 x3
/-- `ROT24(x) = _mm256_shuffle_epi8(x, ROTATE24)` -/
theorem avx2_ROT24_eq_rotr (x0 x1 x2 x3 : UInt64) :
    Avx2.ROT24 (row x0 x1 x2 x3) = row (rotr64 x0 24) (rotr64 x1 24) (rotr64 x2 24) (rotr64 x3 24) :=
  Avx2P.ROT24_row x0 x1 x2 x3
/-- `ROT16(x) = _mm256_shuffle_epi8(x, ROTATE16)` -/
theorem avx2_ROT16_eq_rotr (x0 x1 x2 x3 : UInt64) :
    Avx2.ROT16 (row x0 x1 x2 x3) = row (rotr64 x0 16) (rotr64 x1 16) (rotr64 x2 16) (rotr64 x3 16) :=
  Avx2P.ROT16_row x0 x1 x2 x3
/-- `ROT63(x) = _mm256_or_si256(_mm256_srli_epi64(x, 63), ADD(x, x))` -/
theorem avx2_ROT63_eq_rotr (x0 x1 x2 x3 : UInt64) :
    Avx2.ROT63 (row x0 x1 x2 x3) = row (rotr64 x0 63) (rotr64 x1 63) (rotr64 x2 63) (rotr64 x3 63) :=
  Avx2P.ROT63_row x0 x1 x2 x3

/-- the macro `_mm_roti_epi64(x, c)` of the SSSE3 / SSE4.1 headers at the four constants the code
    uses (`-32`: dword swap, `-24` / `-16`: byte shuffles `r24` / `r16`, `-63`: `(x >> 63) ^ (x + x)`) -/
theorem sse_roti_eq_rotr (x0 x1 : UInt64) :
    Sse._mm_roti_epi64 ⟨x0, x1⟩ (-32) = ⟨rotr64 x0 32, rotr64 x1 32⟩ ∧
    Sse._mm_roti_epi64 ⟨x0, x1⟩ (-24) = ⟨rotr64 x0 24, rotr64 x1 24⟩ ∧
    Sse._mm_roti_epi64 ⟨x0, x1⟩ (-16) = ⟨rotr64 x0 16, rotr64 x1 16⟩ ∧
    Sse._mm_roti_epi64 ⟨x0, x1⟩ (-63) = ⟨rotr64 x0 63, rotr64 x1 63⟩ :=
  ⟨SseP.roti_32 x0 x1, SseP.roti_24 x0 x1, SseP.roti_16 x0 x1, SseP.roti_63 x0 x1⟩

/-! ### (1) the message-load macros: all 3 × 48, on sixteen symbolic (hence distinguishable) words -/

/-- blake2b-load-avx2.h: with `m0 … m7` declared from the words `w 0 … w 15`
    (`mI = broadcast(w 2I, w 2I+1)`), `BLAKE2B_LOAD_MSG_r_k` is exactly the vector of message words
    `m[SIGMA[r][…]]` that round `r` of the specification consumes in the lanes of this code:
    `_1`/`_2` = first/second word of the column G's `0 1 2 3`; `_3`/`_4` = first/second word of the
    diagonal G's in lane order `7 4 5 6` (BLAKE2B_DIAG_V1 keeps row `b` in place). -/
theorem avx2_load_msg_eq_sigma (w : Nat → UInt64) (r : Nat) (hr : r < 12) :
    Avx2.BLAKE2B_LOAD_MSG r 1 (Avx2P.msg256 w)
      = row (w (SIGMA r 0)) (w (SIGMA r 2)) (w (SIGMA r 4)) (w (SIGMA r 6)) ∧
    Avx2.BLAKE2B_LOAD_MSG r 2 (Avx2P.msg256 w)
      = row (w (SIGMA r 1)) (w (SIGMA r 3)) (w (SIGMA r 5)) (w (SIGMA r 7)) ∧
    Avx2.BLAKE2B_LOAD_MSG r 3 (Avx2P.msg256 w)
      = row (w (SIGMA r 14)) (w (SIGMA r 8)) (w (SIGMA r 10)) (w (SIGMA r 12)) ∧
    Avx2.BLAKE2B_LOAD_MSG r 4 (Avx2P.msg256 w)
      = row (w (SIGMA r 15)) (w (SIGMA r 9)) (w (SIGMA r 11)) (w (SIGMA r 13)) :=
  Avx2P.load_ok w r hr

/-- blake2b-load-sse2.h (used by the SSSE3 function; `m0 … m15` = the words): standard lane order -/
theorem ssse3_load_msg_eq_sigma (w : Nat → UInt64) (r : Nat) (hr : r < 12) :
    Sse2.LOAD_MSG r 1 (SseP.msg64 w) = (⟨w (SIGMA r 0), w (SIGMA r 2)⟩, ⟨w (SIGMA r 4), w (SIGMA r 6)⟩) ∧
    Sse2.LOAD_MSG r 2 (SseP.msg64 w) = (⟨w (SIGMA r 1), w (SIGMA r 3)⟩, ⟨w (SIGMA r 5), w (SIGMA r 7)⟩) ∧
    Sse2.LOAD_MSG r 3 (SseP.msg64 w) = (⟨w (SIGMA r 8), w (SIGMA r 10)⟩, ⟨w (SIGMA r 12), w (SIGMA r 14)⟩) ∧
    Sse2.LOAD_MSG r 4 (SseP.msg64 w) = (⟨w (SIGMA r 9), w (SIGMA r 11)⟩, ⟨w (SIGMA r 13), w (SIGMA r 15)⟩) :=
  SseP.load2_ok w r hr

/-- blake2b-load-sse41.h (`mI = (w 2I, w 2I+1)`): the same words by unpack / alignr / blend / shuffle -/
theorem sse41_load_msg_eq_sigma (w : Nat → UInt64) (r : Nat) (hr : r < 12) :
    Sse41.LOAD_MSG r 1 (SseP.msg128 w) = (⟨w (SIGMA r 0), w (SIGMA r 2)⟩, ⟨w (SIGMA r 4), w (SIGMA r 6)⟩) ∧
    Sse41.LOAD_MSG r 2 (SseP.msg128 w) = (⟨w (SIGMA r 1), w (SIGMA r 3)⟩, ⟨w (SIGMA r 5), w (SIGMA r 7)⟩) ∧
    Sse41.LOAD_MSG r 3 (SseP.msg128 w) = (⟨w (SIGMA r 8), w (SIGMA r 10)⟩, ⟨w (SIGMA r 12), w (SIGMA r 14)⟩) ∧
    Sse41.LOAD_MSG r 4 (SseP.msg128 w) = (⟨w (SIGMA r 9), w (SIGMA r 11)⟩, ⟨w (SIGMA r 13), w (SIGMA r 15)⟩) :=
  SseP.load41_ok w r hr

/-- `DECLARE_MESSAGE_WORDS(block)` (AVX2), the `uint64_t` loads (SSSE3) and the `LOADU(block + 16 I)`
    (SSE4.1) declare exactly the specification's little-endian message words `m[0..15]` -/
theorem message_words_eq_spec (block : Array UInt8) :
    Avx2.DECLARE_MESSAGE_WORDS block = Avx2P.msg256 (fun j => (specM block).getD j 0) ∧
    Ssse3.messageWords block = SseP.msg64 (fun j => (specM block).getD j 0) ∧
    Sse41.messageWords block = SseP.msg128 (fun j => (specM block).getD j 0) :=
  ⟨Avx2P.declare_eq block, SseP.messageWords_ssse3_eq block, SseP.messageWords_sse41_eq block⟩

/-! ### (2) G1 + G2 on row vectors = four parallel G; with DIAGONALIZE / UNDIAGONALIZE = the diagonal step -/

/-- AVX2 column step: `BLAKE2B_G1_V1` then `BLAKE2B_G2_V1` with message vectors `x`, `y` = the
    specification's `G(v, j, j+4, j+8, j+12, x[j], y[j])` for the four columns -/
theorem avx2_G1_G2_eq_spec_column (s : Avx2.Rows) (x0 x1 x2 x3 y0 y1 y2 y3 : UInt64) :
    Avx2P.toV (Avx2.BLAKE2B_G2_V1 (Avx2.BLAKE2B_G1_V1 s (row x0 x1 x2 x3)) (row y0 y1 y2 y3)) =
      Spec.Blake2b.G (Spec.Blake2b.G (Spec.Blake2b.G (Spec.Blake2b.G (Avx2P.toV s)
        0 4 8 12 x0 y0) 1 5 9 13 x1 y1) 2 6 10 14 x2 y2) 3 7 11 15 x3 y3 :=
  Avx2P.column_eq s x0 x1 x2 x3 y0 y1 y2 y3

/-- AVX2 diagonal step: DIAG, G1, G2, UNDIAG = the four diagonal G; lane 0 carries the diagonal
    `(3, 4, 9, 14)`, lanes 1..3 the diagonals `(0, 5, 10, 15)`, `(1, 6, 11, 12)`, `(2, 7, 8, 13)` -/
theorem avx2_diag_G1_G2_undiag_eq_spec_diagonal (s : Avx2.Rows) (x0 x1 x2 x3 y0 y1 y2 y3 : UInt64) :
    Avx2P.toV (Avx2.BLAKE2B_UNDIAG_V1 (Avx2.BLAKE2B_G2_V1 (Avx2.BLAKE2B_G1_V1 (Avx2.BLAKE2B_DIAG_V1 s)
        (row x0 x1 x2 x3)) (row y0 y1 y2 y3))) =
      Spec.Blake2b.G (Spec.Blake2b.G (Spec.Blake2b.G (Spec.Blake2b.G (Avx2P.toV s)
        0 5 10 15 x1 y1) 1 6 11 12 x2 y2) 2 7 8 13 x3 y3) 3 4 9 14 x0 y0 :=
  Avx2P.diagonal_eq s x0 x1 x2 x3 y0 y1 y2 y3

/-- SSSE3 / SSE4.1 column step (two lanes per register: `b0 = (x0, x1)`, `b1 = (x2, x3)`) -/
theorem sse_G1_G2_eq_spec_column (s : Sse.Rows) (x0 x1 x2 x3 y0 y1 y2 y3 : UInt64) :
    SseP.toV (Sse.G2 (Sse.G1 s ⟨x0, x1⟩ ⟨x2, x3⟩) ⟨y0, y1⟩ ⟨y2, y3⟩) =
      Spec.Blake2b.G (Spec.Blake2b.G (Spec.Blake2b.G (Spec.Blake2b.G (SseP.toV s)
        0 4 8 12 x0 y0) 1 5 9 13 x1 y1) 2 6 10 14 x2 y2) 3 7 11 15 x3 y3 :=
  SseP.column_eq s x0 x1 x2 x3 y0 y1 y2 y3

/-- SSSE3 / SSE4.1 diagonal step (standard lane order) -/
theorem sse_diag_G1_G2_undiag_eq_spec_diagonal (s : Sse.Rows) (x0 x1 x2 x3 y0 y1 y2 y3 : UInt64) :
    SseP.toV (Sse.UNDIAGONALIZE (Sse.G2 (Sse.G1 (Sse.DIAGONALIZE s) ⟨x0, x1⟩ ⟨x2, x3⟩) ⟨y0, y1⟩ ⟨y2, y3⟩)) =
      Spec.Blake2b.G (Spec.Blake2b.G (Spec.Blake2b.G (Spec.Blake2b.G (SseP.toV s)
        0 5 10 15 x0 y0) 1 6 11 12 x1 y1) 2 7 8 13 x2 y2) 3 4 9 14 x3 y3 :=
  SseP.diagonal_eq s x0 x1 x2 x3 y0 y1 y2 y3

/-! ### (3) one ROUND = the specification's round; the whole function = F -/

/-- `BLAKE2B_ROUND_V1(a, b, c, d, r, m)` with the message variables of any block whose words are `m` -/
theorem avx2_ROUND_eq_spec_round (s : Avx2.Rows) (m : Array UInt64) (r : Nat) (hr : r < 12) :
    Avx2P.toV (Avx2.BLAKE2B_ROUND_V1 s r (Avx2P.msg256 (fun j => m.getD j 0)))
      = Spec.Blake2b.round m (Avx2P.toV s) r :=
  Avx2P.ROUND_eq s m r hr

/-- `blake2b_compress_avx2(S, block)` = F of RFC 7693 §3.2 for every state, block, counter and flag -/
theorem blake2b_compress_avx2_eq_spec (h : Array UInt64) (block : Bytes) (t : Nat) (last : Bool)
    (hh : h.size = 8) :
    Avx2.blake2b_compress_avx2 h (tWords t) (fWords last) block.toArray
      = Spec.Blake2b.compress h block t last :=
  Avx2P.compress_avx2_eq h block t last hh

/-! ### (4) the same for SSSE3 and SSE4.1 -/

/-- `ROUND(r)` of blake2b-compress-ssse3.h (with blake2b-load-sse2.h) -/
theorem ssse3_ROUND_eq_spec_round (s : Sse.Rows) (m : Array UInt64) (r : Nat) (hr : r < 12) :
    SseP.toV (Sse.ROUND (fun r k => Sse2.LOAD_MSG r k (SseP.msg64 (fun j => m.getD j 0))) s r)
      = Spec.Blake2b.round m (SseP.toV s) r :=
  SseP.ROUND_eq _ s m r (SseP.load2_ok _ r hr)

/-- `ROUND(r)` of blake2b-compress-sse41.h (with blake2b-load-sse41.h) -/
theorem sse41_ROUND_eq_spec_round (s : Sse.Rows) (m : Array UInt64) (r : Nat) (hr : r < 12) :
    SseP.toV (Sse.ROUND (fun r k => Sse41.LOAD_MSG r k (SseP.msg128 (fun j => m.getD j 0))) s r)
      = Spec.Blake2b.round m (SseP.toV s) r :=
  SseP.ROUND_eq _ s m r (SseP.load41_ok _ r hr)

theorem blake2b_compress_ssse3_eq_spec (h : Array UInt64) (block : Bytes) (t : Nat) (last : Bool)
    (hh : h.size = 8) :
    Ssse3.blake2b_compress_ssse3 h (tWords t) (fWords last) block.toArray
      = Spec.Blake2b.compress h block t last :=
  SseP.compress_ssse3_eq h block t last hh

theorem blake2b_compress_sse41_eq_spec (h : Array UInt64) (block : Bytes) (t : Nat) (last : Bool)
    (hh : h.size = 8) :
    Sse41.blake2b_compress_sse41 h (tWords t) (fWords last) block.toArray
      = Spec.Blake2b.compress h block t last :=
  SseP.compress_sse41_eq h block t last hh

/-- all four modelled implementations (ref, SSSE3, SSE4.1, AVX2) are the same function: whichever
    one `blake2b_pick_best_implementation` selects, the result is the specification's -/
theorem blake2b_compress_backends_agree (h : Array UInt64) (block : Bytes) (t : Nat) (last : Bool)
    (hh : h.size = 8) :
    Driver.C04Ref.blake2bF_avx2 h block t last = Driver.C04Ref.blake2bF h block t last ∧
    Driver.C04Ref.blake2bF_ssse3 h block t last = Driver.C04Ref.blake2bF h block t last ∧
    Driver.C04Ref.blake2bF_sse41 h block t last = Driver.C04Ref.blake2bF h block t last := by
  rw [C04Compress.blake2b_compress_fn_eq_spec h block t last hh]
  exact ⟨blake2b_compress_avx2_eq_spec h block t last hh, blake2b_compress_ssse3_eq_spec h block t last hh,
    blake2b_compress_sse41_eq_spec h block t last hh⟩

/-! ### (5) end to end: generichash / kdf over the SIMD compression functions, any chunking -/

/-- the functions the driver runs -/
theorem avx2_hF : ∀ (s : Array UInt64) b t l, s.size = 8 →
    Driver.C04Ref.blake2bF_avx2 s b t l = Spec.Blake2b.compress s b t l :=
  fun s b t l h => blake2b_compress_avx2_eq_spec s b t l h
theorem ssse3_hF : ∀ (s : Array UInt64) b t l, s.size = 8 →
    Driver.C04Ref.blake2bF_ssse3 s b t l = Spec.Blake2b.compress s b t l :=
  fun s b t l h => blake2b_compress_ssse3_eq_spec s b t l h
theorem sse41_hF : ∀ (s : Array UInt64) b t l, s.size = 8 →
    Driver.C04Ref.blake2bF_sse41 s b t l = Spec.Blake2b.compress s b t l :=
  fun s b t l h => blake2b_compress_sse41_eq_spec s b t l h

/-- init / update* / final over ANY compression function that agrees with the specification on
    8-word states = RFC 7693 BLAKE2b of the concatenation (via `C04.blake2b_chunks`) -/
theorem blake2b_chunks_of_compress_eq (F : Array UInt64 → Bytes → Nat → Bool → Array UInt64)
    (hF : ∀ (s : Array UInt64) b t l, s.size = 8 → F s b t l = Spec.Blake2b.compress s b t l)
    (outlen : Nat) (key salt personal : Bytes) (cs : List Bytes)
    (ho : 1 ≤ outlen ∧ outlen ≤ 64) (hk : key.length ≤ 64) :
    b2Final F Spec.Blake2b.digest
        (cs.foldl (fun s c => b2Update F (c.length + 1) s c)
          (b2Init F Spec.Blake2b.paramInit outlen key salt personal)) outlen
      = .ok (Spec.Blake2b.hash outlen key salt personal cs.flatten) := by
  have i := CompressRefP.b2Init_congr (fun s : Array UInt64 => s.size = 8) _ _ hF C04Compress.b2_hP _
    C04Compress.b2_hI outlen key salt personal
  have u := CompressRefP.b2Updates_congr (fun s : Array UInt64 => s.size = 8) _ _ hF C04Compress.b2_hP cs _ i.2
  rw [i.1, u.1, CompressRefP.b2Final_congr (fun s : Array UInt64 => s.size = 8) _ _ hF C04Compress.b2_hP _ _
    outlen u.2]
  exact C04.blake2b_chunks outlen key salt personal cs ho hk

theorem generichash_of_compress_eq (F : Array UInt64 → Bytes → Nat → Bool → Array UInt64)
    (hF : ∀ (s : Array UInt64) b t l, s.size = 8 → F s b t l = Spec.Blake2b.compress s b t l)
    (outlen : Nat) (msg key salt personal : Bytes) :
    generichash F Spec.Blake2b.paramInit Spec.Blake2b.digest outlen msg key salt personal =
      if outlen = 0 ∨ outlen > 64 ∨ key.length > 64 then .err
      else .ok (Spec.Blake2b.hash outlen key salt personal msg) := by
  rw [CompressRefP.generichash_congr (fun s : Array UInt64 => s.size = 8) _ _ hF C04Compress.b2_hP _
    C04Compress.b2_hI]
  exact C04.generichash_spec outlen msg key salt personal

theorem kdf_blake2b_of_compress_eq (F : Array UInt64 → Bytes → Nat → Bool → Array UInt64)
    (hF : ∀ (s : Array UInt64) b t l, s.size = 8 → F s b t l = Spec.Blake2b.compress s b t l)
    (n : Nat) (id : UInt64) (ctx key : Bytes) (hc : ctx.length = 8) (hk : key.length = 32) :
    kdfBlake2b F Spec.Blake2b.paramInit Spec.Blake2b.digest n id ctx key =
      if n < 16 ∨ n > 64 then .err
      else .ok (Spec.Blake2b.hash n key (toLE 8 id.toNat ++ zeros 8) (ctx ++ zeros 8) []) := by
  rw [← C04.kdf_blake2b_spec n id ctx key hc hk]
  unfold kdfBlake2b
  split
  · rfl
  · exact CompressRefP.generichash_congr (fun s : Array UInt64 => s.size = 8) _ _ hF C04Compress.b2_hP _
      C04Compress.b2_hI ..

/-- crypto_generichash_blake2b init / update* / final over `blake2b_compress_avx2` -/
theorem blake2b_avx2_chunks (outlen : Nat) (key salt personal : Bytes) (cs : List Bytes)
    (ho : 1 ≤ outlen ∧ outlen ≤ 64) (hk : key.length ≤ 64) :
    b2Final Driver.C04Ref.blake2bF_avx2 Spec.Blake2b.digest
        (cs.foldl (fun s c => b2Update Driver.C04Ref.blake2bF_avx2 (c.length + 1) s c)
          (b2Init Driver.C04Ref.blake2bF_avx2 Spec.Blake2b.paramInit outlen key salt personal)) outlen
      = .ok (Spec.Blake2b.hash outlen key salt personal cs.flatten) :=
  blake2b_chunks_of_compress_eq _ avx2_hF outlen key salt personal cs ho hk

theorem blake2b_ssse3_chunks (outlen : Nat) (key salt personal : Bytes) (cs : List Bytes)
    (ho : 1 ≤ outlen ∧ outlen ≤ 64) (hk : key.length ≤ 64) :
    b2Final Driver.C04Ref.blake2bF_ssse3 Spec.Blake2b.digest
        (cs.foldl (fun s c => b2Update Driver.C04Ref.blake2bF_ssse3 (c.length + 1) s c)
          (b2Init Driver.C04Ref.blake2bF_ssse3 Spec.Blake2b.paramInit outlen key salt personal)) outlen
      = .ok (Spec.Blake2b.hash outlen key salt personal cs.flatten) :=
  blake2b_chunks_of_compress_eq _ ssse3_hF outlen key salt personal cs ho hk

theorem blake2b_sse41_chunks (outlen : Nat) (key salt personal : Bytes) (cs : List Bytes)
    (ho : 1 ≤ outlen ∧ outlen ≤ 64) (hk : key.length ≤ 64) :
    b2Final Driver.C04Ref.blake2bF_sse41 Spec.Blake2b.digest
        (cs.foldl (fun s c => b2Update Driver.C04Ref.blake2bF_sse41 (c.length + 1) s c)
          (b2Init Driver.C04Ref.blake2bF_sse41 Spec.Blake2b.paramInit outlen key salt personal)) outlen
      = .ok (Spec.Blake2b.hash outlen key salt personal cs.flatten) :=
  blake2b_chunks_of_compress_eq _ sse41_hF outlen key salt personal cs ho hk

theorem generichash_avx2_spec (outlen : Nat) (msg key salt personal : Bytes) :
    generichash Driver.C04Ref.blake2bF_avx2 Spec.Blake2b.paramInit Spec.Blake2b.digest outlen msg key salt personal =
      if outlen = 0 ∨ outlen > 64 ∨ key.length > 64 then .err
      else .ok (Spec.Blake2b.hash outlen key salt personal msg) :=
  generichash_of_compress_eq _ avx2_hF outlen msg key salt personal

theorem generichash_ssse3_spec (outlen : Nat) (msg key salt personal : Bytes) :
    generichash Driver.C04Ref.blake2bF_ssse3 Spec.Blake2b.paramInit Spec.Blake2b.digest outlen msg key salt personal =
      if outlen = 0 ∨ outlen > 64 ∨ key.length > 64 then .err
      else .ok (Spec.Blake2b.hash outlen key salt personal msg) :=
  generichash_of_compress_eq _ ssse3_hF outlen msg key salt personal

theorem generichash_sse41_spec (outlen : Nat) (msg key salt personal : Bytes) :
    generichash Driver.C04Ref.blake2bF_sse41 Spec.Blake2b.paramInit Spec.Blake2b.digest outlen msg key salt personal =
      if outlen = 0 ∨ outlen > 64 ∨ key.length > 64 then .err
      else .ok (Spec.Blake2b.hash outlen key salt personal msg) :=
  generichash_of_compress_eq _ sse41_hF outlen msg key salt personal

theorem kdf_blake2b_avx2_spec (n : Nat) (id : UInt64) (ctx key : Bytes) (hc : ctx.length = 8)
    (hk : key.length = 32) :
    kdfBlake2b Driver.C04Ref.blake2bF_avx2 Spec.Blake2b.paramInit Spec.Blake2b.digest n id ctx key =
      if n < 16 ∨ n > 64 then .err
      else .ok (Spec.Blake2b.hash n key (toLE 8 id.toNat ++ zeros 8) (ctx ++ zeros 8) []) :=
  kdf_blake2b_of_compress_eq _ avx2_hF n id ctx key hc hk

/-- the driver's self-cross-check cannot fire: on every `generichash` operation line the four
    modelled implementations print the same result, so `b2Chunks` is the line of any one of them -/
theorem driver_b2Chunks_no_disagree (outlen : Nat) (key salt personal : Bytes) (cs : List Bytes) :
    Driver.C04.b2Chunks outlen key salt personal cs
      = Driver.C04.b2ChunksWith Spec.Blake2b.compress outlen key salt personal cs := by
  have hw : ∀ F : Array UInt64 → Bytes → Nat → Bool → Array UInt64,
      (∀ (s : Array UInt64) b t l, s.size = 8 → F s b t l = Spec.Blake2b.compress s b t l) →
      Driver.C04.b2ChunksWith F outlen key salt personal cs
        = Driver.C04.b2ChunksWith Spec.Blake2b.compress outlen key salt personal cs := by
    intro F hF
    unfold Driver.C04.b2ChunksWith
    split
    · rfl
    · have i := CompressRefP.b2Init_congr (fun s : Array UInt64 => s.size = 8) _ _ hF C04Compress.b2_hP _
        C04Compress.b2_hI outlen key salt personal
      have u := CompressRefP.b2Updates_congr (fun s : Array UInt64 => s.size = 8) _ _ hF C04Compress.b2_hP cs _ i.2
      simp only []
      rw [i.1, u.1, CompressRefP.b2Final_congr (fun s : Array UInt64 => s.size = 8) _ _ hF C04Compress.b2_hP _ _
        outlen u.2]
  unfold Driver.C04.b2Chunks Driver.C04.crossCheck
  rw [hw _ C04Compress.b2_hF, hw _ avx2_hF, hw _ ssse3_hF, hw _ sse41_hF]
  split <;> simp

/-! ### non-vacuity -/

example : (Spec.Blake2b.paramInit 64 0 [] []).size = 8 := C04Compress.b2_hI ..
example : (12 : Nat) > 11 ∧ SIGMA 11 0 = 14 ∧ SIGMA 3 15 = 8 := by decide
/-- the message variables are distinguishable: sixteen different words give sixteen different lanes -/
example : (Avx2P.msg256 (fun j => UInt64.ofNat j)).m5 = row 10 11 10 11 := rfl
/-- BLAKE2b-512("abc") (RFC 7693 appendix A), computed by each of the three SIMD-structured models
    from the initial state with the single final block -/
example : Spec.Blake2b.digest (compressF_avx2 (Spec.Blake2b.paramInit 64 0 [] []) [0x61, 0x62, 0x63] 3 true) 8
    = [0xba, 0x80, 0xa5, 0x3f, 0x98, 0x1c, 0x4d, 0x0d] := by decide +kernel
example : Spec.Blake2b.digest (compressF_ssse3 (Spec.Blake2b.paramInit 64 0 [] []) [0x61, 0x62, 0x63] 3 true) 8
    = [0xba, 0x80, 0xa5, 0x3f, 0x98, 0x1c, 0x4d, 0x0d] := by decide +kernel
example : Spec.Blake2b.digest (compressF_sse41 (Spec.Blake2b.paramInit 64 0 [] []) [0x61, 0x62, 0x63] 3 true) 8
    = [0xba, 0x80, 0xa5, 0x3f, 0x98, 0x1c, 0x4d, 0x0d] := by decide +kernel

end Sodium.C04Simd
