import SodiumModel.Model.Poly1305Donna32
import SodiumModel.Model.LoadStoreShift
import SodiumModel.Spec.SipHash
import SodiumModel.Spec.Chacha
import SodiumModel.Spec.Poly1305
import SodiumModel.Proofs.Poly1305Donna32
import SodiumModel.Properties.C04
import SodiumModel.Properties.C04Poly
/-
  C10 (build without 128-bit integers, Poly1305 part) — the 32-bit limb arithmetic of
  poly1305_donna32.h (Model/Poly1305Donna32.lean: five 26-bit limbs in `unsigned long`, products in
  64-bit `unsigned long long`, the `h − p` select, the repacking into four 32-bit words and the
  64-bit `f` carry chain that adds the pad) equals RFC 8439 §2.5, hence equals the donna64 code
  the default build uses.

  `unsigned long` is modelled as `BitVec w`; every theorem below is stated for both widths
  `WOK w : w = 32 ∨ w = 64`:  w = 64 is what the compiler uses on this LP64 host (the model the driver
  runs and the correspondence check compares with the `noti` / `portable` builds), w = 32 is the
  code's design assumption (ILP32 / LLP64).  ALL results survive for w = 32.

  * `init_spec32`          the limbs of r are the clamped key half, pad is the other half
  * `blocks_spec32`        the invariant `Inv` is preserved by a block and
                           val h' ≡ (val h + block + hibit·2^128) · r  (mod 2^130 − 5)
  * `blocks_no_overflow32` under the invariants no `unsigned long` / 64-bit operation wraps or
                           truncates: the limbs are those of the same statements over unbounded naturals
  * `finish_spec32`        the 16 output bytes are ((val h mod p) + pad) mod 2^128
  * `donna32_eq_abstract`, `donna32_mac_eq_spec`, `donna32_mac_oneshot`
                           the donna32 functions under the streaming front-end give
                           `Spec.Poly1305.mac key msg` for every key, message and chunking
  * `donna32_eq_donna64`   … and therefore the same bytes as the donna64 model (C10 for Poly1305)
  * `donna32_lp64_eq_ilp32` the width of `unsigned long` does not change the result

  Second part (the `portable` build, no `NATIVE_LITTLE_ENDIAN`): the byte-shift `#else` bodies of the
  eight load/store helpers of private/common.h (Model/LoadStoreShift.lean) equal the memcpy forms
  all C-structured models use:
  * `load64_le_shift_eq store64_le_shift_eq load32_le_shift_eq store32_le_shift_eq` (every input)
  * `store64_be_shift_eq store32_be_shift_eq` (every input), `load64_be_shift_eq load32_be_shift_eq`
    (inputs of at least 8 / 4 bytes — the C contract `src[8]` / `src[4]`)
  * corollaries: the loads/stores of the Poly1305 donna32 / donna64, SipHash and ChaCha models
    are the shift forms.
-/
open Sodium Sodium.Model Sodium.Model.Poly1305Donna32 Sodium.Poly1305Donna32P
namespace Sodium.C10Donna32

/-- 2^130 − 5 -/
abbrev p : Nat := Spec.Poly1305.p

/-- both supported widths of `unsigned long` are instances -/
theorem wok64 : WOK 64 := Or.inr rfl
theorem wok32 : WOK 32 := Or.inl rfl

/-! ### poly1305_init -/

/-- After `poly1305_init` the limbs r0 + r1·2^26 + … + r4·2^104 are the clamped first key half
    (loads of a key shorter than 32 bytes read zeros), with r0..r3 < 2^26, r4 < 2^20 and the four pad
    words < 2^32 (`RInv`); h = 0; pad[0] + 2^32·pad[1] + 2^64·pad[2] + 2^96·pad[3] is the second
    key half. -/
theorem init_spec32 {w : Nat} (hw : WOK w) (key : Bytes) :
    val (poly1305_init w key).r = Spec.Poly1305.clampR (le (key.take 16)) ∧
    RInv (poly1305_init w key) ∧ (poly1305_init w key).h = (0, 0, 0, 0, 0) ∧
    padVal (poly1305_init w key) = le ((key.drop 16).take 16) :=
  init_spec_aux hw key

/-- the state after init satisfies both invariants -/
theorem init_inv32 {w : Nat} (hw : WOK w) (key : Bytes) :
    RInv (poly1305_init w key) ∧ Inv (poly1305_init w key) :=
  ⟨(rel_init hw key).1, (rel_init hw key).2.1⟩

/-! ### poly1305_blocks -/

/-- One block: r and pad are untouched, `Inv` (h0, h2, h3, h4 < 2^26, h1 < 2^26 + 2^6) is preserved
    and the limb value is multiplied as in RFC 8439 modulo 2^130 − 5.
    `le (m.take 16)` is the 16 bytes the five overlapping `LOAD32_LE` read. -/
theorem blocks_spec32 {w : Nat} (hw : WOK w) (st : State w) (m : Bytes) (hib : Bool)
    (hr : RInv st) (hi : Inv st) :
    (poly1305_blocks st m hib).r = st.r ∧ (poly1305_blocks st m hib).pad = st.pad ∧
    Inv (poly1305_blocks st m hib) ∧
    val (poly1305_blocks st m hib).h % p =
      ((val st.h + le (m.take 16) + (if hib then 2 ^ 128 else 0)) * val st.r) % p :=
  blocks_spec_aux hw st m hib hr hi

/-- No overflow: under the invariants the limbs computed with wrapping `unsigned long` arithmetic
    (32 or 64 bits), wrapping 64-bit products/sums and the truncating casts `(unsigned long)(d >> 26)`,
    `(unsigned long) d` are exactly those of the same statements over unbounded naturals
    (`blocksNat`: no `%` except the 26-bit masks); d0..d3 stay below 2^57 + 2^50 and d4 below
    2^55 + 2^48, so every carry `d >> 26` fits 32 bits and `c * 5` does not wrap even when
    `unsigned long` has 32 bits. -/
theorem blocks_no_overflow32 {w : Nat} (hw : WOK w) (st : State w) (m : Bytes) (hib : Bool)
    (hr : RInv st) (hi : Inv st) :
    limbsNat (poly1305_blocks st m hib).h =
      blocksNat st.r.1.toNat st.r.2.1.toNat st.r.2.2.1.toNat st.r.2.2.2.1.toNat st.r.2.2.2.2.toNat
        st.h.1.toNat st.h.2.1.toNat st.h.2.2.1.toNat st.h.2.2.2.1.toNat st.h.2.2.2.2.toNat
        (le (m.take 16)) (if hib then 2 ^ 24 else 0) ∧
    (mulR st.r (addMsg st.h m hib)).1.toNat < 2 ^ 57 + 2 ^ 50 ∧
    (mulR st.r (addMsg st.h m hib)).2.1.toNat < 2 ^ 57 + 2 ^ 50 ∧
    (mulR st.r (addMsg st.h m hib)).2.2.1.toNat < 2 ^ 57 + 2 ^ 50 ∧
    (mulR st.r (addMsg st.h m hib)).2.2.2.1.toNat < 2 ^ 57 + 2 ^ 50 ∧
    (mulR st.r (addMsg st.h m hib)).2.2.2.2.toNat < 2 ^ 55 + 2 ^ 48 :=
  blocks_no_overflow_aux hw st m hib hr hi

/-- the block function does not depend on the width of `unsigned long`: the limbs of the 32-bit
    and of the 64-bit instance are the same numbers whenever the input states are -/
theorem blocks_width_indep (s32 : State 32) (s64 : State 64) (m : Bytes) (hib : Bool)
    (hr32 : RInv s32) (hi32 : Inv s32) (hr64 : RInv s64) (hi64 : Inv s64)
    (er : limbsNat s32.r = limbsNat s64.r) (eh : limbsNat s32.h = limbsNat s64.h) :
    limbsNat (poly1305_blocks s32 m hib).h = limbsNat (poly1305_blocks s64 m hib).h := by
  rw [(blocks_no_overflow32 wok32 s32 m hib hr32 hi32).1, (blocks_no_overflow32 wok64 s64 m hib hr64 hi64).1]
  simp only [limbsNat, Prod.mk.injEq] at er eh
  obtain ⟨r0, r1, r2, r3, r4⟩ := er
  obtain ⟨h0, h1, h2, h3, h4⟩ := eh
  rw [r0, r1, r2, r3, r4, h0, h1, h2, h3, h4]

/-! ### poly1305_finish -/

/-- Under the invariants the tag is the canonical residue of the limb value plus pad, modulo 2^128:
    the carry pass fully reduces, `g = h + 5 − 2^130` is selected iff h ≥ p (the mask is computed
    from bit `w − 1` of `g4 = h4 + c − 2^26`, which wraps in w bits), the repacking
    `(h_i >> a) | (h_{i+1} << b)) & 0xffffffff` and the 64-bit `f` chain add the pad. -/
theorem finish_spec32 {w : Nat} (hw : WOK w) (st : State w) (hr : RInv st) (hi : Inv st) :
    poly1305_finish st = toLE 16 ((val st.h % p + padVal st) % 2 ^ 128) :=
  finish_spec_aux hw st hr hi

/-! ### the whole MAC -/

/-- The donna32 block/finish functions under the streaming front-end (`polyUpdate`, `polyFinish`)
    give the same 16 bytes as the abstract (r, s, acc) instantiation, for every chunking. -/
theorem donna32_eq_abstract {w : Nat} (hw : WOK w) (key : Bytes) (cs : List Bytes) :
    macChunksW w key cs
      = polyFinish polyBlkNat polyFinNat (cs.foldl (polyUpdate polyBlkNat) (polyInitNat key)) :=
  donna32_eq_abstract_aux hw key cs

/-- poly1305_donna32 = RFC 8439 §2.5 for every key, every message and every chunking, whether
    `unsigned long` has 32 or 64 bits -/
theorem donna32_mac_eq_specW {w : Nat} (hw : WOK w) (key : Bytes) (cs : List Bytes) :
    macChunksW w key cs = Spec.Poly1305.mac key cs.flatten := by
  rw [donna32_eq_abstract hw]; exact C04.poly1305_chunks key cs

/-- the code as compiled on this host (LP64) -/
theorem donna32_mac_eq_spec (key : Bytes) (cs : List Bytes) :
    macChunks key cs = Spec.Poly1305.mac key cs.flatten :=
  donna32_mac_eq_specW wok64 key cs

/-- one-shot form -/
theorem donna32_mac_oneshot (key msg : Bytes) : mac key msg = Spec.Poly1305.mac key msg := by
  have h := donna32_mac_eq_spec key [msg]
  simpa [mac, macW, macChunks] using h

/-- the code as compiled where `unsigned long` has 32 bits (the design assumption of the header) -/
theorem donna32_ilp32_mac_eq_spec (key : Bytes) (cs : List Bytes) :
    macChunksILP32 key cs = Spec.Poly1305.mac key cs.flatten :=
  donna32_mac_eq_specW wok32 key cs

/-- the width of `unsigned long` is not observable -/
theorem donna32_lp64_eq_ilp32 (key : Bytes) (cs : List Bytes) :
    macChunks key cs = macChunksILP32 key cs := by
  rw [donna32_mac_eq_spec, donna32_ilp32_mac_eq_spec]

/-- C10 for Poly1305: the build without 128-bit integers (donna32) and the default build (donna64)
    compute the same tag for every key, message and chunking -/
theorem donna32_eq_donna64 (key : Bytes) (cs : List Bytes) :
    macChunks key cs = Poly1305Donna.macChunks key cs := by
  rw [donna32_mac_eq_spec, C04Poly.donna64_mac_eq_spec]

/-! ### examples (kernel-evaluated) -/

open Sodium.C04Poly (rfcKey rfcMsg rfcTag bKey bMsg)

/-- RFC 8439 §2.5.2 -/
example : mac rfcKey rfcMsg = rfcTag := by decide +kernel
example : macChunksILP32 rfcKey [rfcMsg] = rfcTag := by decide +kernel
example : macChunks rfcKey [rfcMsg.take 3, [], (rfcMsg.drop 3).take 20, rfcMsg.drop 23] = rfcTag := by
  decide +kernel
/-- r limbs of the RFC key: r = 0x806d5400e52447c036d555408bed685 -/
example : val (poly1305_init 64 rfcKey).r = 0x806d5400e52447c036d555408bed685 := by decide +kernel
example : val (poly1305_init 32 rfcKey).r = 0x806d5400e52447c036d555408bed685 := by decide +kernel

/-- The final-reduction boundary (r = 1; h = p − 1 + k before `poly1305_finish`, k ≤ 5; 2^130 folds
    to 5): keep h for p − 1, take g = h − p for p … p + 4 — in both widths. -/
example : ∀ k ∈ List.range 6, val (update (init 64 bKey) (bMsg k)).st.h = p - 1 + k := by decide +kernel
example : ∀ k ∈ List.range 6, val (update (init 32 bKey) (bMsg k)).st.h = p - 1 + k := by decide +kernel
example : val (update (init 64 bKey) (bMsg 6)).st.h = 5 := by decide +kernel
example : ∀ k ∈ List.range 7, mac bKey (bMsg k) = Spec.Poly1305.mac bKey (bMsg k) := by decide +kernel
example : ∀ k ∈ List.range 7, macChunksILP32 bKey [bMsg k] = Spec.Poly1305.mac bKey (bMsg k) := by
  decide +kernel
/-- r = 1 and two blocks of 0xff…ff: h = p + 3, tag = 3 + pad -/
example : val (update (init 64 bKey) (List.replicate 32 0xff)).st.h = p + 3 := by decide +kernel
example : mac bKey (List.replicate 32 0xff) = toLE 16 (3 + 0x0f0e0d0c0b0a09080706050403020100) := by
  decide +kernel

/-- h1 = 2^26 (one more than 26 bits) is reachable between blocks — r = 1, three blocks of 0xff…ff —
    so the bound on h1 in `Inv` must exceed 2^26 and the first `h1 >> 26` carry of
    `poly1305_finish` is needed -/
example : (update (init 64 bKey) (List.replicate 48 0xff)).st.h.2.1.toNat = 2 ^ 26 := by decide +kernel
example : (update (init 32 bKey) (List.replicate 48 0xff)).st.h.2.1.toNat = 2 ^ 26 := by decide +kernel

/-- Where the width of `unsigned long` is visible inside `poly1305_finish` (and why it does not reach
    the output): with 64 bits `h0 = (unsigned long) f` keeps the carry bit 32 of `f` and only the
    `(uint32_t) h0` of the store drops it; with 32 bits the cast itself drops it.  Likewise
    `h1 << 26` keeps up to 52 bits before `& 0xffffffff` with 64 bits and is cut by the shift with 32. -/
example : (ulOf64 64 0x1_0000_0005).toNat = 0x1_0000_0005 ∧ (ulOf64 32 0x1_0000_0005).toNat = 5 ∧
    u32Of (ulOf64 64 0x1_0000_0005) = u32Of (ulOf64 32 0x1_0000_0005) := by decide
example : ((0x3ffffff : ULong 64) <<< 26).toNat = 0x3ffffff * 2 ^ 26 ∧
    ((0x3ffffff : ULong 32) <<< 26).toNat = 0x3f * 2 ^ 26 := by decide

/-- the hypotheses of `blocks_spec32` / `finish_spec32` are satisfiable (and hold along every run) -/
example : RInv (poly1305_init 64 rfcKey) ∧ Inv (poly1305_init 64 rfcKey) := init_inv32 wok64 rfcKey
example : RInv (poly1305_init 32 rfcKey) ∧ Inv (poly1305_init 32 rfcKey) := init_inv32 wok32 rfcKey
example : Inv (poly1305_blocks (poly1305_init 64 rfcKey) rfcMsg true) :=
  (blocks_spec32 wok64 _ _ _ (init_inv32 wok64 rfcKey).1 (init_inv32 wok64 rfcKey).2).2.2.1

/-! ### private/common.h: the byte-shift fallbacks of the `portable` build = the memcpy forms -/

open Sodium.Model.LoadStoreShift

/-- `load64_le`, `#else` branch = `memcpy` on a little-endian host, for every byte list (bytes past
    the end read as 0 in both) -/
theorem load64_le_shift_eq (src : Bytes) : load64_le_shift src = load64_le_native src :=
  Poly1305Donna32P.load64_le_shift_eq src
/-- `store64_le`, `#else` branch (`dst[i] = (uint8_t) w; w >>= 8`) = `memcpy` -/
theorem store64_le_shift_eq (w : UInt64) : store64_le_shift w = store64_le_native w :=
  Poly1305Donna32P.store64_le_shift_eq w
theorem load32_le_shift_eq (src : Bytes) : load32_le_shift src = load32_le_native src :=
  Poly1305Donna32P.load32_le_shift_eq src
theorem store32_le_shift_eq (w : UInt32) : store32_le_shift w = store32_le_native w :=
  Poly1305Donna32P.store32_le_shift_eq w
/-- `store64_be` / `store32_be`, `#else` branch = `memcpy` on a big-endian host = `toBE` -/
theorem store64_be_shift_eq (w : UInt64) : store64_be_shift w = store64_be_native w :=
  Poly1305Donna32P.store64_be_shift_eq w
theorem store32_be_shift_eq (w : UInt32) : store32_be_shift w = store32_be_native w :=
  Poly1305Donna32P.store32_be_shift_eq w
/-- `load64_be` / `load32_be`, `#else` branch = the big-endian value of the 8 / 4 bytes the C
    contract (`const uint8_t src[8]`, `src[4]`) requires to be present -/
theorem load64_be_shift_eq (src : Bytes) (h : 8 ≤ src.length) :
    load64_be_shift src = load64_be_native src :=
  Poly1305Donna32P.load64_be_shift_eq src h
theorem load32_be_shift_eq (src : Bytes) (h : 4 ≤ src.length) :
    load32_be_shift src = load32_be_native src :=
  Poly1305Donna32P.load32_be_shift_eq src h

/-- the length hypothesis of the big-endian loads cannot be dropped (out-of-contract input: `be` of a
    short list is not the zero-padded value) — a property of the list model, not of the C -/
theorem load32_be_short_differs : load32_be_shift [1] ≠ load32_be_native [1] := by decide

/-- the results in the forms the other models use -/
theorem load64_le_shift_val (src : Bytes) : (load64_le_shift src).toNat = le (src.take 8) := by
  rw [load64_le_shift_eq]; exact load64_toNat src
theorem load32_le_shift_val (src : Bytes) : (load32_le_shift src).toNat = le (src.take 4) := by
  rw [load32_le_shift_eq]; exact load32_toNat src
theorem load64_be_shift_val (src : Bytes) (h : 8 ≤ src.length) :
    (load64_be_shift src).toNat = be (src.take 8) := by
  have h1 := le_lt (src.take 8).reverse
  have h2 : 256 ^ (src.take 8).reverse.length ≤ 256 ^ 8 := Nat.pow_le_pow_right (by decide) (by simp; omega)
  rw [load64_be_shift_eq src h, load64_be_native, UInt64.toNat_ofNat']
  exact Nat.mod_eq_of_lt (Nat.lt_of_lt_of_le h1 h2)
theorem load32_be_shift_val (src : Bytes) (h : 4 ≤ src.length) :
    (load32_be_shift src).toNat = be (src.take 4) := by
  have h1 := le_lt (src.take 4).reverse
  have h2 : 256 ^ (src.take 4).reverse.length ≤ 256 ^ 4 := Nat.pow_le_pow_right (by decide) (by simp; omega)
  rw [load32_be_shift_eq src h, load32_be_native, UInt32.toNat_ofNat']
  exact Nat.mod_eq_of_lt (Nat.lt_of_lt_of_le h1 h2)
theorem store64_le_shift_val (w : UInt64) : store64_le_shift w = toLE 8 w.toNat := store64_le_shift_eq w
theorem store32_le_shift_val (w : UInt32) : store32_le_shift w = toLE 4 w.toNat := store32_le_shift_eq w
theorem store64_be_shift_val (w : UInt64) : store64_be_shift w = toBE 8 w.toNat := store64_be_shift_eq w
theorem store32_be_shift_val (w : UInt32) : store32_be_shift w = toBE 4 w.toNat := store32_be_shift_eq w

/-- round trips, for every word -/
theorem load64_le_store64_le (w : UInt64) : load64_le_shift (store64_le_shift w) = w := by
  apply UInt64.toNat_inj.mp
  have := w.toNat_lt
  rw [load64_le_shift_val, store64_le_shift_val, List.take_of_length_le (by simp [toLE_length]), le_toLE]
  omega
theorem load32_be_store32_be (w : UInt32) : load32_be_shift (store32_be_shift w) = w := by
  apply UInt32.toNat_inj.mp
  have := w.toNat_lt
  rw [load32_be_shift_val _ (by rw [store32_be_shift_val]; simp [toBE, toLE_length]), store32_be_shift_val,
    List.take_of_length_le (by simp [toBE, toLE_length]), be, toBE, List.reverse_reverse, le_toLE]
  omega

/-- the loads and stores of the C-structured Poly1305 models, of SipHash and of ChaCha20/Salsa20 are
    the shift forms: those models describe the `portable` build as well -/
theorem donna32_LOAD32_LE_shift (b : Bytes) (off : Nat) :
    Poly1305Donna32.LOAD32_LE b off = load32_le_shift (b.drop off) := (load32_le_shift_eq _).symm
theorem donna64_LOAD64_LE_shift (b : Bytes) (off : Nat) :
    Poly1305Donna.LOAD64_LE b off = load64_le_shift (b.drop off) := (load64_le_shift_eq _).symm
theorem store32_shift (w : UInt32) : store32 w = store32_le_shift w := (store32_le_shift_eq w).symm
theorem store64_shift (w : UInt64) : store64 w = store64_le_shift w := (store64_le_shift_eq w).symm
theorem siphash_load64le_shift (b : Bytes) : Spec.SipHash.load64le b = load64_le_shift b :=
  (load64_le_shift_eq b).symm
theorem chacha_load32le_shift (b : Bytes) : Spec.Chacha.load32le b = load32_le_shift b :=
  (load32_le_shift_eq b).symm
theorem chacha_store32le_shift (w : UInt32) : Spec.Chacha.store32le w = store32_le_shift w :=
  (store32_le_shift_eq w).symm

example : load32_le_shift [0x78, 0x56, 0x34, 0x12] = 0x12345678 := by decide
example : load32_be_shift [0x12, 0x34, 0x56, 0x78] = 0x12345678 := by decide
example : store64_be_shift 0x0102030405060708 = [1, 2, 3, 4, 5, 6, 7, 8] := by decide
example : load64_le_shift [1, 2, 3] = 0x030201 := by decide

end Sodium.C10Donna32
