import SodiumModel.Proofs.ScReduce
import SodiumModel.Properties.C07
/-
  C07 (continued) — "scalar arithmetic is exact modulo l" for the REAL limb code of
  crypto_core/ed25519/ref10/ed25519_ref10.c: `sc25519_reduce`, `sc25519_mul`, `sc25519_muladd`,
  `sc25519_sq`, `sc25519_sqmul`, `sc25519_invert`, transcribed statement by statement over `Int64` in
  `Model/ScReduce.lean` (21-bit signed limbs in `int64_t`, `load_3`/`load_4`, the six fold constants,
  rounding and floor carries, byte packing).

  What is proved, for ALL inputs:
   1. `load_spec`               the 24 loaded limbs represent the 64-byte integer, each in [0, 2^21) (top: [0, 2^29));
   2. `fold_step_spec`, `fold_blocks_spec`, `carry_blocks_spec`
                                every fold block preserves the represented integer modulo l (the six constants are
                                the signed radix-2^21 digits of 2^252 − l ≡ 2^252), every carry block preserves it exactly;
   3. `no_overflow`             no `int64_t` operation of the common tail wraps, for every machine state within the
                                entry bounds |s_i| ≤ 2^27, |s23| ≤ 2^30 (interval bounds after every block: `BT1 … BT20`);
                                `mul_no_overflow`: the same for the products and first carries of sc25519_mul/_muladd;
   4. `sc25519_reduce_spec`     the output is `toLE 32 (le s % l)`: always the CANONICAL representative (no deviation);
                                `sc25519_mul_spec`, `sc25519_muladd_spec`, `sc25519_invert_spec` likewise;
   5. `scalar_*_real_spec`      the hypotheses `hReduce` / `hMul` of `Properties/C07.lean` are discharged for the real
                                code: the `crypto_core_ed25519_scalar_*` wrappers instantiated with the limb code.
  Property theorems only; the proofs are in `Proofs/ScReduce{Base,Gen,}.lean`.
-/
open Sodium Sodium.Model Sodium.Model.Scalar Sodium.Model.ScReduce
open Sodium.Spec.Scalar (L)
open Sodium.ScReduceP
namespace Sodium.C07Reduce

/-- the integer represented by 24 signed 21-bit limbs: Σ s_i · 2^(21 i) -/
def value (x : Limbs) : Int :=
  x.s0.toInt + x.s1.toInt * 2 ^ 21 + x.s2.toInt * 2 ^ 42 + x.s3.toInt * 2 ^ 63 + x.s4.toInt * 2 ^ 84 + x.s5.toInt * 2 ^ 105 + x.s6.toInt * 2 ^ 126 + x.s7.toInt * 2 ^ 147 + x.s8.toInt * 2 ^ 168 + x.s9.toInt * 2 ^ 189 + x.s10.toInt * 2 ^ 210 + x.s11.toInt * 2 ^ 231 + x.s12.toInt * 2 ^ 252 + x.s13.toInt * 2 ^ 273 + x.s14.toInt * 2 ^ 294 + x.s15.toInt * 2 ^ 315 + x.s16.toInt * 2 ^ 336 + x.s17.toInt * 2 ^ 357 + x.s18.toInt * 2 ^ 378 + x.s19.toInt * 2 ^ 399 + x.s20.toInt * 2 ^ 420 + x.s21.toInt * 2 ^ 441 + x.s22.toInt * 2 ^ 462 + x.s23.toInt * 2 ^ 483

set_option exponentiation.threshold 600 in
theorem value_eq (x : Limbs) : value x = val24 (toI x) := by
  simp only [value, val24, toI]
  rfl

/-! ### 1. the loads -/

/-- `load_spec`: for every 64-byte input the 24 limbs loaded by `sc25519_reduce` satisfy
    Σ s_i · 2^(21 i) = le s, with 0 ≤ s_i < 2^21 (and 0 ≤ s23 < 2^29 for the unmasked top limb) -/
theorem load_spec (s : Bytes) (hs : s.length = 64) :
    value (sc_load64 s) = (le s : Int) ∧
    (0 ≤ (sc_load64 s).s0.toInt ∧ (sc_load64 s).s0.toInt < 2 ^ 21) ∧
    (0 ≤ (sc_load64 s).s1.toInt ∧ (sc_load64 s).s1.toInt < 2 ^ 21) ∧
    (0 ≤ (sc_load64 s).s2.toInt ∧ (sc_load64 s).s2.toInt < 2 ^ 21) ∧
    (0 ≤ (sc_load64 s).s3.toInt ∧ (sc_load64 s).s3.toInt < 2 ^ 21) ∧
    (0 ≤ (sc_load64 s).s4.toInt ∧ (sc_load64 s).s4.toInt < 2 ^ 21) ∧
    (0 ≤ (sc_load64 s).s5.toInt ∧ (sc_load64 s).s5.toInt < 2 ^ 21) ∧
    (0 ≤ (sc_load64 s).s6.toInt ∧ (sc_load64 s).s6.toInt < 2 ^ 21) ∧
    (0 ≤ (sc_load64 s).s7.toInt ∧ (sc_load64 s).s7.toInt < 2 ^ 21) ∧
    (0 ≤ (sc_load64 s).s8.toInt ∧ (sc_load64 s).s8.toInt < 2 ^ 21) ∧
    (0 ≤ (sc_load64 s).s9.toInt ∧ (sc_load64 s).s9.toInt < 2 ^ 21) ∧
    (0 ≤ (sc_load64 s).s10.toInt ∧ (sc_load64 s).s10.toInt < 2 ^ 21) ∧
    (0 ≤ (sc_load64 s).s11.toInt ∧ (sc_load64 s).s11.toInt < 2 ^ 21) ∧
    (0 ≤ (sc_load64 s).s12.toInt ∧ (sc_load64 s).s12.toInt < 2 ^ 21) ∧
    (0 ≤ (sc_load64 s).s13.toInt ∧ (sc_load64 s).s13.toInt < 2 ^ 21) ∧
    (0 ≤ (sc_load64 s).s14.toInt ∧ (sc_load64 s).s14.toInt < 2 ^ 21) ∧
    (0 ≤ (sc_load64 s).s15.toInt ∧ (sc_load64 s).s15.toInt < 2 ^ 21) ∧
    (0 ≤ (sc_load64 s).s16.toInt ∧ (sc_load64 s).s16.toInt < 2 ^ 21) ∧
    (0 ≤ (sc_load64 s).s17.toInt ∧ (sc_load64 s).s17.toInt < 2 ^ 21) ∧
    (0 ≤ (sc_load64 s).s18.toInt ∧ (sc_load64 s).s18.toInt < 2 ^ 21) ∧
    (0 ≤ (sc_load64 s).s19.toInt ∧ (sc_load64 s).s19.toInt < 2 ^ 21) ∧
    (0 ≤ (sc_load64 s).s20.toInt ∧ (sc_load64 s).s20.toInt < 2 ^ 21) ∧
    (0 ≤ (sc_load64 s).s21.toInt ∧ (sc_load64 s).s21.toInt < 2 ^ 21) ∧
    (0 ≤ (sc_load64 s).s22.toInt ∧ (sc_load64 s).s22.toInt < 2 ^ 21) ∧
    (0 ≤ (sc_load64 s).s23.toInt ∧ (sc_load64 s).s23.toInt < 2 ^ 29) := by
  have hr := sc_load64_ref s
  have hI : toI (sc_load64 s) = sc_load64I s := by
    simp only [toI, hr.s0.1, hr.s1.1, hr.s2.1, hr.s3.1, hr.s4.1, hr.s5.1, hr.s6.1, hr.s7.1, hr.s8.1, hr.s9.1, hr.s10.1, hr.s11.1, hr.s12.1, hr.s13.1, hr.s14.1, hr.s15.1, hr.s16.1, hr.s17.1, hr.s18.1, hr.s19.1, hr.s20.1, hr.s21.1, hr.s22.1, hr.s23.1]
  rw [value_eq, hI, sc_load64_val s hs]
  refine ⟨rfl, ?_⟩
  rw [hr.s0.1, hr.s1.1, hr.s2.1, hr.s3.1, hr.s4.1, hr.s5.1, hr.s6.1, hr.s7.1, hr.s8.1, hr.s9.1, hr.s10.1, hr.s11.1, hr.s12.1, hr.s13.1, hr.s14.1, hr.s15.1, hr.s16.1, hr.s17.1, hr.s18.1, hr.s19.1, hr.s20.1, hr.s21.1, hr.s22.1, hr.s23.1]
  exact sc_load64_range s

/-! ### 2. fold and carry steps -/

/-- `fold_step_spec`: the six statements `a0 += x·666643; a1 += x·470296; a2 += x·654183; a3 -= x·997805;
    a4 += x·136657; a5 -= x·683901` replace `x·2^252` by `x·(2^252 − l)`: the represented integer
    changes by the multiple `x·l` of l (here at limb offset 0; the code applies it at offsets 0 … 11) -/
theorem fold_step_spec (a0 a1 a2 a3 a4 a5 x : Int) :
    (a0 + x * 666643) + (a1 + x * 470296) * 2 ^ 21 + (a2 + x * 654183) * 2 ^ 42 + (a3 - x * 997805) * 2 ^ 63
      + (a4 + x * 136657) * 2 ^ 84 + (a5 - x * 683901) * 2 ^ 105
    = (a0 + a1 * 2 ^ 21 + a2 * 2 ^ 42 + a3 * 2 ^ 63 + a4 * 2 ^ 84 + a5 * 2 ^ 105 + x * 2 ^ 252) - x * (L : Int) := by
  rw [ScalarP.L_val]; omega

/-- the six constants are the signed radix-2^21 digits of 2^252 − l = −27742317777372353535851937790883648493 -/
theorem fold_constants :
    (666643 + 470296 * 2 ^ 21 + 654183 * 2 ^ 42 - 997805 * 2 ^ 63 + 136657 * 2 ^ 84 - 683901 * 2 ^ 105 : Int)
      = 2 ^ 252 - (L : Int) ∧
    (2 ^ 252 - (L : Int)) = -27742317777372353535851937790883648493 := by
  rw [ScalarP.L_val]; omega

/-- `fold_blocks_spec`: each of the 15 fold blocks of the code (ideal semantics; `valN` = the integer represented
    by the low N limbs) preserves the represented integer modulo l; the folded limb leaves the representation -/
theorem fold_blocks_spec (y : LimbsI) :
    val23 (fold_s23I y) % (L : Int) = val24 y % (L : Int) ∧
    val22 (fold_s22I y) % (L : Int) = val23 y % (L : Int) ∧
    val21 (fold_s21I y) % (L : Int) = val22 y % (L : Int) ∧
    val20 (fold_s20I y) % (L : Int) = val21 y % (L : Int) ∧
    val19 (fold_s19I y) % (L : Int) = val20 y % (L : Int) ∧
    val18 (fold_s18I y) % (L : Int) = val19 y % (L : Int) ∧
    val17 (fold_s17I y) % (L : Int) = val18 y % (L : Int) ∧
    val16 (fold_s16I y) % (L : Int) = val17 y % (L : Int) ∧
    val15 (fold_s15I y) % (L : Int) = val16 y % (L : Int) ∧
    val14 (fold_s14I y) % (L : Int) = val15 y % (L : Int) ∧
    val13 (fold_s13I y) % (L : Int) = val14 y % (L : Int) ∧
    val13 (fold_s12_aI y) % (L : Int) = val13 y % (L : Int) ∧
    val13 (fold_s12_bI y) % (L : Int) = val13 y % (L : Int) ∧
    val12 (fold_s12_cI y) % (L : Int) = val13 y % (L : Int) :=
  ⟨by rw [← Lz_eq]; exact emod_of_sub_mul (fold_s23_val y),
   by rw [← Lz_eq]; exact emod_of_sub_mul (fold_s22_val y),
   by rw [← Lz_eq]; exact emod_of_sub_mul (fold_s21_val y),
   by rw [← Lz_eq]; exact emod_of_sub_mul (fold_s20_val y),
   by rw [← Lz_eq]; exact emod_of_sub_mul (fold_s19_val y),
   by rw [← Lz_eq]; exact emod_of_sub_mul (fold_s18_val y),
   by rw [← Lz_eq]; exact emod_of_sub_mul (fold_s17_val y),
   by rw [← Lz_eq]; exact emod_of_sub_mul (fold_s16_val y),
   by rw [← Lz_eq]; exact emod_of_sub_mul (fold_s15_val y),
   by rw [← Lz_eq]; exact emod_of_sub_mul (fold_s14_val y),
   by rw [← Lz_eq]; exact emod_of_sub_mul (fold_s13_val y),
   by rw [← Lz_eq]; exact emod_of_sub_mul (fold_s12_a_val y),
   by rw [← Lz_eq]; exact emod_of_sub_mul (fold_s12_b_val y),
   by rw [← Lz_eq]; exact emod_of_sub_mul (fold_s12_c_val y)⟩

/-- `carry_blocks_spec`: each of the 5 carry blocks (rounding carries `(s + 2^20) >> 21` and floor carries
    `s >> 21`) preserves the represented integer exactly -/
theorem carry_blocks_spec (y : LimbsI) :
    val18 (carry_6_16I y) = val18 y ∧
    val18 (carry_7_15I y) = val18 y ∧
    val13 (carry_0_10I y) = val13 y ∧
    val13 (carry_1_11I y) = val13 y ∧
    val13 (carryF_0_11I y) = val13 y ∧
    val12 (carryF_0_10I y) = val12 y :=
  ⟨carry_6_16_val y, carry_7_15_val y, carry_0_10_val y, carry_1_11_val y, carryF_0_11_val y, carryF_0_10_val y⟩

/-! ### 3. no `int64_t` overflow -/

/-- `no_overflow`: for EVERY machine state within the entry bounds (`InBounds x BT0`: |s_i| ≤ 2^27 for i < 23,
    |s23| ≤ 2^30 — satisfied by the loads of sc25519_reduce and by the product stage of sc25519_mul / _muladd)
    the machine state after the 20 blocks of the common tail is limb by limb the `Int64` image of the ideal
    (unbounded `Int`) computation, within the bounds `BT20`; the intermediate states are covered by
    `ScReduceP.tail_ref_1 … tail_ref_20` with bounds `BT1 … BT20`, all below 2^51 (`bounds_small`) -/
theorem no_overflow (x : Limbs) (h : InBounds x BT0) :
    toI (tailM x) = tailI (toI x) ∧ InBounds (tailM x) BT20 := by
  have hr := tail_ref (RL_toI h)
  refine ⟨?_, ⟨by rw [hr.s0.1]; exact hr.s0.2.1, by rw [hr.s0.1]; exact hr.s0.2.2⟩, ⟨by rw [hr.s1.1]; exact hr.s1.2.1, by rw [hr.s1.1]; exact hr.s1.2.2⟩, ⟨by rw [hr.s2.1]; exact hr.s2.2.1, by rw [hr.s2.1]; exact hr.s2.2.2⟩, ⟨by rw [hr.s3.1]; exact hr.s3.2.1, by rw [hr.s3.1]; exact hr.s3.2.2⟩, ⟨by rw [hr.s4.1]; exact hr.s4.2.1, by rw [hr.s4.1]; exact hr.s4.2.2⟩, ⟨by rw [hr.s5.1]; exact hr.s5.2.1, by rw [hr.s5.1]; exact hr.s5.2.2⟩, ⟨by rw [hr.s6.1]; exact hr.s6.2.1, by rw [hr.s6.1]; exact hr.s6.2.2⟩, ⟨by rw [hr.s7.1]; exact hr.s7.2.1, by rw [hr.s7.1]; exact hr.s7.2.2⟩, ⟨by rw [hr.s8.1]; exact hr.s8.2.1, by rw [hr.s8.1]; exact hr.s8.2.2⟩, ⟨by rw [hr.s9.1]; exact hr.s9.2.1, by rw [hr.s9.1]; exact hr.s9.2.2⟩, ⟨by rw [hr.s10.1]; exact hr.s10.2.1, by rw [hr.s10.1]; exact hr.s10.2.2⟩, ⟨by rw [hr.s11.1]; exact hr.s11.2.1, by rw [hr.s11.1]; exact hr.s11.2.2⟩, ⟨by rw [hr.s12.1]; exact hr.s12.2.1, by rw [hr.s12.1]; exact hr.s12.2.2⟩, ⟨by rw [hr.s13.1]; exact hr.s13.2.1, by rw [hr.s13.1]; exact hr.s13.2.2⟩, ⟨by rw [hr.s14.1]; exact hr.s14.2.1, by rw [hr.s14.1]; exact hr.s14.2.2⟩, ⟨by rw [hr.s15.1]; exact hr.s15.2.1, by rw [hr.s15.1]; exact hr.s15.2.2⟩, ⟨by rw [hr.s16.1]; exact hr.s16.2.1, by rw [hr.s16.1]; exact hr.s16.2.2⟩, ⟨by rw [hr.s17.1]; exact hr.s17.2.1, by rw [hr.s17.1]; exact hr.s17.2.2⟩, ⟨by rw [hr.s18.1]; exact hr.s18.2.1, by rw [hr.s18.1]; exact hr.s18.2.2⟩, ⟨by rw [hr.s19.1]; exact hr.s19.2.1, by rw [hr.s19.1]; exact hr.s19.2.2⟩, ⟨by rw [hr.s20.1]; exact hr.s20.2.1, by rw [hr.s20.1]; exact hr.s20.2.2⟩, ⟨by rw [hr.s21.1]; exact hr.s21.2.1, by rw [hr.s21.1]; exact hr.s21.2.2⟩, ⟨by rw [hr.s22.1]; exact hr.s22.2.1, by rw [hr.s22.1]; exact hr.s22.2.2⟩, ⟨by rw [hr.s23.1]; exact hr.s23.2.1, by rw [hr.s23.1]; exact hr.s23.2.2⟩⟩
  simp only [toI, hr.s0.1, hr.s1.1, hr.s2.1, hr.s3.1, hr.s4.1, hr.s5.1, hr.s6.1, hr.s7.1, hr.s8.1, hr.s9.1, hr.s10.1, hr.s11.1, hr.s12.1, hr.s13.1, hr.s14.1, hr.s15.1, hr.s16.1, hr.s17.1, hr.s18.1, hr.s19.1, hr.s20.1, hr.s21.1, hr.s22.1, hr.s23.1]

/-- the products and first carries of `sc25519_mul` do not overflow either, and deliver a state within the
    entry bounds of the tail, representing `le a · le b` -/
theorem mul_no_overflow (a b : Bytes) (ha : a.length = 32) (hb : b.length = 32) :
    let x := mul_carry_1_21 (mul_carry_0_22 (mul_products (sc_load32 a) (sc_load32 b)))
    InBounds x BT0 ∧ value x = (le a : Int) * (le b : Int) := by
  intro x
  have hr := RL_mono (mul_carry_1_21_ref (mul_carry_0_22_ref (mul_products_ref (sc_load32_ref a) (sc_load32_ref b))))
    (B' := BT0) (by decide) (by decide) (by decide) (by decide) (by decide) (by decide) (by decide) (by decide) (by decide) (by decide) (by decide) (by decide) (by decide) (by decide) (by decide) (by decide) (by decide) (by decide) (by decide) (by decide) (by decide) (by decide) (by decide) (by decide)
  have hI : toI x = mul_carry_1_21I (mul_carry_0_22I (mul_productsI (sc_load32I a) (sc_load32I b))) := by
    simp only [toI, x, hr.s0.1, hr.s1.1, hr.s2.1, hr.s3.1, hr.s4.1, hr.s5.1, hr.s6.1, hr.s7.1, hr.s8.1, hr.s9.1, hr.s10.1, hr.s11.1, hr.s12.1, hr.s13.1, hr.s14.1, hr.s15.1, hr.s16.1, hr.s17.1, hr.s18.1, hr.s19.1, hr.s20.1, hr.s21.1, hr.s22.1, hr.s23.1]
  refine ⟨⟨⟨by rw [hr.s0.1]; exact hr.s0.2.1, by rw [hr.s0.1]; exact hr.s0.2.2⟩, ⟨by rw [hr.s1.1]; exact hr.s1.2.1, by rw [hr.s1.1]; exact hr.s1.2.2⟩, ⟨by rw [hr.s2.1]; exact hr.s2.2.1, by rw [hr.s2.1]; exact hr.s2.2.2⟩, ⟨by rw [hr.s3.1]; exact hr.s3.2.1, by rw [hr.s3.1]; exact hr.s3.2.2⟩, ⟨by rw [hr.s4.1]; exact hr.s4.2.1, by rw [hr.s4.1]; exact hr.s4.2.2⟩, ⟨by rw [hr.s5.1]; exact hr.s5.2.1, by rw [hr.s5.1]; exact hr.s5.2.2⟩, ⟨by rw [hr.s6.1]; exact hr.s6.2.1, by rw [hr.s6.1]; exact hr.s6.2.2⟩, ⟨by rw [hr.s7.1]; exact hr.s7.2.1, by rw [hr.s7.1]; exact hr.s7.2.2⟩, ⟨by rw [hr.s8.1]; exact hr.s8.2.1, by rw [hr.s8.1]; exact hr.s8.2.2⟩, ⟨by rw [hr.s9.1]; exact hr.s9.2.1, by rw [hr.s9.1]; exact hr.s9.2.2⟩, ⟨by rw [hr.s10.1]; exact hr.s10.2.1, by rw [hr.s10.1]; exact hr.s10.2.2⟩, ⟨by rw [hr.s11.1]; exact hr.s11.2.1, by rw [hr.s11.1]; exact hr.s11.2.2⟩, ⟨by rw [hr.s12.1]; exact hr.s12.2.1, by rw [hr.s12.1]; exact hr.s12.2.2⟩, ⟨by rw [hr.s13.1]; exact hr.s13.2.1, by rw [hr.s13.1]; exact hr.s13.2.2⟩, ⟨by rw [hr.s14.1]; exact hr.s14.2.1, by rw [hr.s14.1]; exact hr.s14.2.2⟩, ⟨by rw [hr.s15.1]; exact hr.s15.2.1, by rw [hr.s15.1]; exact hr.s15.2.2⟩, ⟨by rw [hr.s16.1]; exact hr.s16.2.1, by rw [hr.s16.1]; exact hr.s16.2.2⟩, ⟨by rw [hr.s17.1]; exact hr.s17.2.1, by rw [hr.s17.1]; exact hr.s17.2.2⟩, ⟨by rw [hr.s18.1]; exact hr.s18.2.1, by rw [hr.s18.1]; exact hr.s18.2.2⟩, ⟨by rw [hr.s19.1]; exact hr.s19.2.1, by rw [hr.s19.1]; exact hr.s19.2.2⟩, ⟨by rw [hr.s20.1]; exact hr.s20.2.1, by rw [hr.s20.1]; exact hr.s20.2.2⟩, ⟨by rw [hr.s21.1]; exact hr.s21.2.1, by rw [hr.s21.1]; exact hr.s21.2.2⟩, ⟨by rw [hr.s22.1]; exact hr.s22.2.1, by rw [hr.s22.1]; exact hr.s22.2.2⟩, ⟨by rw [hr.s23.1]; exact hr.s23.2.1, by rw [hr.s23.1]; exact hr.s23.2.2⟩⟩, ?_⟩
  rw [value_eq, hI, mul_carry_1_21_val, mul_carry_0_22_val, mul_products_val, sc_load32_val a ha, sc_load32_val b hb]

/-- the interval bounds are far from the `int64_t` limits: every limb of every intermediate state of the tail
    (`BT0 … BT20`) and of the product stage (`BM0 … BM2`) is below 2^51 in absolute value -/
theorem bounds_small : ∀ b ∈ allBounds, b.max < 2 ^ 51 := allBounds_lt

/-! ### 4. the functions -/

/-- the common tail (from `s11 += s23 * 666643` to the byte packing), for every machine state within the
    entry bounds: the 32 output bytes are the canonical encoding of the represented integer modulo l -/
theorem reduce_tail_spec (x : Limbs) (h : InBounds x BT0) :
    reduce_tail x = toLE 32 (value x % (L : Int)).toNat := by
  rw [value_eq]; exact reduce_tail_machine_spec x h

/-- `sc25519_reduce_spec`: for EVERY 64-byte input the 32 output bytes are `toLE 32 (le s mod l)` -/
theorem sc25519_reduce_spec (s : Bytes) (hs : s.length = 64) :
    sc25519_reduce s = toLE 32 (le s % L) :=
  sc25519_reduce_eq s hs

/-- … in particular the output is always canonical (below l), also for inputs in [l·k, l·k + 2^252) for every k -/
theorem sc25519_reduce_canonical (s : Bytes) (hs : s.length = 64) :
    le (sc25519_reduce s) < L ∧ (sc25519_reduce s).length = 32 := by
  rw [sc25519_reduce_eq s hs]
  exact ⟨by rw [ScalarP.le_toLE32_of_lt _ (Nat.mod_lt _ L_pos)]; exact Nat.mod_lt _ L_pos, toLE_length _ _⟩

/-- `sc25519_mul`: `a·b mod l`, canonical, for EVERY pair of 32-byte strings (no reduction assumption) -/
theorem sc25519_mul_spec (a b : Bytes) (ha : a.length = 32) (hb : b.length = 32) :
    sc25519_mul a b = toLE 32 (le a * le b % L) :=
  sc25519_mul_eq a b ha hb

/-- `sc25519_muladd`: `(a·b + c) mod l`, canonical, for EVERY triple of 32-byte strings -/
theorem sc25519_muladd_spec (a b c : Bytes) (ha : a.length = 32) (hb : b.length = 32) (hc : c.length = 32) :
    sc25519_muladd a b c = toLE 32 ((le a * le b + le c) % L) :=
  sc25519_muladd_eq a b c ha hb hc

/-- `sc25519_invert`: the addition chain computes `s^(l−2) mod l` = `Spec.Scalar.invert s` for EVERY 32-byte `s` -/
theorem sc25519_invert_spec (s : Bytes) (hs : s.length = 32) :
    sc25519_invert s = toLE 32 (le s ^ (L - 2) % L) ∧ sc25519_invert s = Spec.Scalar.invert s :=
  ⟨sc25519_invert_eq s hs, sc25519_invert_eq_spec s hs⟩

/-- on its domain the limb code IS the executable specification -/
theorem sc25519_reduce_eq_spec (s : Bytes) (hs : s.length = 64) : sc25519_reduce s = Spec.Scalar.reduce64 s := by
  rw [sc25519_reduce_eq s hs, C07.reduce64_spec s hs]

theorem sc25519_mul_eq_spec (a b : Bytes) (ha : a.length = 32) (hb : b.length = 32) :
    sc25519_mul a b = Spec.Scalar.mul a b := by
  rw [sc25519_mul_eq a b ha hb]
  simp [Spec.Scalar.mul, Spec.Scalar.encode, List.take_of_length_le, ha, hb]

/-! ### 5. the `crypto_core_ed25519_scalar_*` wrappers over the real limb code
    (`hReduce`, `hMul` of `Properties/C07.lean` discharged) -/

theorem scalar_reduce_real_spec (s : Bytes) (hs : s.length = 64) :
    scalar_reduce sc25519_reduce s = toLE 32 (le s % L) :=
  C07.scalar_reduce_eq _ sc25519_reduce_eq s hs

theorem scalar_negate_real_spec (s : Bytes) (hs : s.length = 32) :
    scalar_negate sc25519_reduce s = toLE 32 ((L - le s % L) % L) :=
  C07.scalar_negate_eq _ sc25519_reduce_eq s hs

theorem scalar_complement_real_spec (s : Bytes) (hs : s.length = 32) :
    scalar_complement sc25519_reduce s = toLE 32 ((1 + L - le s % L) % L) :=
  C07.scalar_complement_eq _ sc25519_reduce_eq s hs

theorem scalar_add_real_general (x y : Bytes) (hx : x.length = 32) (hy : y.length = 32) :
    scalar_add sc25519_reduce x y = toLE 32 (((le x + le y) % 2 ^ 256) % L) :=
  C07.scalar_add_general _ sc25519_reduce_eq x y hx hy

theorem scalar_add_real_spec (x y : Bytes) (hx : x.length = 32) (hy : y.length = 32) (hxL : le x < L) (hyL : le y < L) :
    scalar_add sc25519_reduce x y = toLE 32 ((le x + le y) % L) :=
  C07.scalar_add_eq _ sc25519_reduce_eq x y hx hy hxL hyL

theorem scalar_sub_real_general (x y : Bytes) (hx : x.length = 32) (hy : y.length = 32) :
    scalar_sub sc25519_reduce x y = toLE 32 (((le x + (L - le y % L) % L) % 2 ^ 256) % L) :=
  C07.scalar_sub_general _ sc25519_reduce_eq x y hx hy

theorem scalar_sub_real_spec (x y : Bytes) (hx : x.length = 32) (hy : y.length = 32) (hxL : le x < L) (hyL : le y < L) :
    scalar_sub sc25519_reduce x y = toLE 32 ((le x + (L - le y)) % L) ∧
    (((le x + (L - le y)) % L : Nat) : Int) = ((le x : Int) - (le y : Int)) % (L : Int) :=
  C07.scalar_sub_eq _ sc25519_reduce_eq x y hx hy hxL hyL

theorem scalar_mul_real_spec (x y : Bytes) (hx : x.length = 32) (hy : y.length = 32) :
    scalar_mul sc25519_mul x y = toLE 32 (le x * le y % L) :=
  C07.scalar_mul_eq _ sc25519_mul_eq x y hx hy

/-- `crypto_core_ed25519_scalar_invert` over the real code: return code −1 iff the 32 bytes are all zero; the output
    is `s^(l−2) mod l`, i.e. the inverse of `s` when `s` is not a multiple of l -/
theorem scalar_invert_real_spec (s : Bytes) (hs : s.length = 32) :
    (scalar_invert sc25519_invert s).1 = (if s = zeros 32 then -1 else 0) ∧
    (scalar_invert sc25519_invert s).2 = toLE 32 (le s ^ (L - 2) % L) := by
  have h := C07.scalar_invert_rc sc25519_invert s hs
  exact ⟨h.1, by rw [h.2, sc25519_invert_eq s hs]⟩

/-- the deviations of `scalar_add` / `scalar_sub` for NON-reduced operands (`C07.scalar_add_deviation`) are those of the
    wrapper (the 32-byte `sodium_add`), not of the limb code: with the real `sc25519_reduce`, x = y = 2^255 still gives 0 -/
theorem scalar_add_real_deviation :
    scalar_add sc25519_reduce (zeros 31 ++ [0x80]) (zeros 31 ++ [0x80]) = toLE 32 0 ∧
    toLE 32 ((le (zeros 31 ++ [0x80]) + le (zeros 31 ++ [0x80])) % L) ≠ toLE 32 0 := by
  refine ⟨?_, by decide +kernel⟩
  rw [scalar_add_real_general _ _ (by decide) (by decide)]
  decide +kernel

/-! ### non-vacuity: concrete evaluations of the limb model (kernel-checked) -/

example : sc25519_reduce (toLE 64 (L + 1)) = toLE 32 1 := by decide +kernel
example : sc25519_reduce (toLE 64 (2 ^ 512 - 1)) = toLE 32 ((2 ^ 512 - 1) % L) := by decide +kernel
example : sc25519_mul (toLE 32 (L - 1)) (toLE 32 (L - 1)) = toLE 32 1 := by decide +kernel
example : InBounds (sc_load64 (toLE 64 (2 ^ 512 - 1))) BT0 := by decide +kernel

end Sodium.C07Reduce
