import SodiumModel.Proofs.Pwhash
/-
  C08 — password hashing (crypto_pwhash: Argon2i / Argon2id v1.3 front-end, hash strings).

  Property theorems only (helper lemmas in Proofs/Pwhash.lean). The memory-hard cores are the
  parameters `P : Prims` of the model (the driver instantiates them with `Spec.Argon2.argon2` and
  `Spec.Scrypt.scrypt`); everything proved here is about the code AROUND the cores: limit ladder,
  memory rounding, string encoder/decoder, verification and needs-rehash, prefix dispatch.
-/
open Sodium Sodium.Model Sodium.Model.Pwhash Sodium.Spec.Base64 Sodium.PwhashP
namespace Sodium.C08

/-! ### the byte literals of the model are the C string literals -/

def ascii (s : String) : Bytes := s.toUTF8.toList

example : lit_argon2i = ascii "$argon2i" ∧ lit_argon2id = ascii "$argon2id" ∧ lit_v = ascii "$v=" ∧
    lit_m = ascii "$m=" ∧ lit_t = ascii ",t=" ∧ lit_p = ascii ",p=" ∧ lit_dollar = ascii "$" ∧
    argon2id_STRPREFIX = ascii "$argon2id$" ∧ argon2i_STRPREFIX = ascii "$argon2i$" ∧
    itoa64 = ascii "./0123456789ABCDEFGHIJKLMNOPQRSTUVWXYZabcdefghijklmnopqrstuvwxyz" := by decide +kernel

/-! ### decode_decimal -/

/-- `decode_decimal` (and the `DECIMAL` macro) as a total function: with `ds` the maximal prefix of
    ASCII digits of the input, it succeeds exactly when `ds` is non-empty, has no superfluous leading
    zero (`"0"` itself is accepted, `"00"`, `"08"` are not) and its value fits in an `unsigned long`;
    it then returns that value and the rest of the string. -/
theorem decode_decimal_spec (s : Bytes) :
    decode_decimal s =
      if s.takeWhile isDigit ≠ [] ∧ (s.head? = some 48 → (s.takeWhile isDigit).length = 1) ∧
          digitsVal (s.takeWhile isDigit) < 2 ^ 64
      then some (digitsVal (s.takeWhile isDigit), s.dropWhile isDigit) else none :=
  decode_decimal_eq s

/-- the `DECIMAL_U32` macro: the same with the bound 2^32 -/
theorem decimal_u32_spec (s : Bytes) :
    decimalU32 s =
      if s.takeWhile isDigit ≠ [] ∧ (s.head? = some 48 → (s.takeWhile isDigit).length = 1) ∧
          digitsVal (s.takeWhile isDigit) < 2 ^ 32
      then some (digitsVal (s.takeWhile isDigit), s.dropWhile isDigit) else none :=
  decimalU32_eq s

/-- `DECIMAL_U32` accepts EXACTLY the minimal decimal representations (`decStr v`: no leading zero except
    "0" itself) of the numbers below 2^32, followed by a non-digit or the end of the string, and returns the
    number and the rest -/
theorem decimal_u32_exact (s : Bytes) (v : Nat) (rest : Bytes) :
    decimalU32 s = some (v, rest) ↔
      (s = decStr v ++ rest ∧ v < 2 ^ 32 ∧ ∀ c r, rest = c :: r → isDigit c = false) :=
  decimalU32_iff s v rest

/-- `u32_to_string` writes the minimal decimal representation -/
theorem u32_to_string_minimal (x : UInt32) : u32_to_string x = decStr x.toNat := u32_to_string_spec x

/-- the minimal decimal representation of any n < 2^32, followed by a non-digit (or the end), is
    accepted and yields n -/
theorem decimal_u32_accepts_minimal (n : Nat) (hn : n < 2 ^ 32) (rest : Bytes)
    (hr : ∀ c r, rest = c :: r → isDigit c = false) :
    decimalU32 (decStr n ++ rest) = some (n, rest) :=
  decimalU32_decStr n hn rest hr

example : decimalU32 (ascii "123$") = some (123, ascii "$") := by decide +kernel
example : decimalU32 (ascii "0,") = some (0, ascii ",") := by decide +kernel
example : decimalU32 (ascii "08,") = none := by decide +kernel
example : decimalU32 (ascii ",") = none := by decide +kernel
example : decimalU32 (ascii "4294967295,") = some (4294967295, ascii ",") := by decide +kernel
example : decimalU32 (ascii "4294967296,") = none := by decide +kernel
example : decode_decimal (ascii "18446744073709551615") = some (18446744073709551615, []) := by decide +kernel
example : decode_decimal (ascii "18446744073709551616") = none := by decide +kernel
example : decStr 4294967295 = ascii "4294967295" ∧ decStr 0 = ascii "0" ∧ decStr 19 = ascii "19" := by decide +kernel

/-! ### encoder / decoder -/

/-- the encoder output, when it succeeds, is the documented format
    `$argon2<T>$v=19$m=<m>,t=<t>,p=<p>$<Base64(salt)>$<Base64(hash)>` (decimal numbers minimal, Base64
    with the original alphabet and no padding), the context passed validation, and the string fits the
    buffer -/
theorem encode_format {dstLen : Nat} {c : Context} {salt out : Bytes} {type : Argon2Type} {s : Bytes}
    (h : argon2_encode_string dstLen c salt out type = .ok s)
    (hm : c.m_cost < 2 ^ 32) (ht : c.t_cost < 2 ^ 32) (hl : c.lanes < 2 ^ 32) :
    s = type.tag ++ lit_v ++ decStr 19 ++ lit_m ++ decStr c.m_cost ++ lit_t ++ decStr c.t_cost ++ lit_p ++
          decStr c.lanes ++ lit_dollar ++ encode false false salt ++ lit_dollar ++ encode false false out ∧
      argon2_validate_inputs c = ARGON2_OK ∧ s.length ≤ dstLen :=
  encode_ok h hm ht hl

/-- Round trip: decoding the string the encoder produced for a context (m, t, p, salt, hash) returns
    exactly these five values — for any decoder-side context `c0` whose buffers are large enough and whose
    remaining fields (password / secret / associated-data lengths) pass `argon2_validate_inputs` together
    with the decoded ones. -/
theorem encode_decode_roundtrip {dstLen : Nat} {c : Context} {salt out : Bytes} {type : Argon2Type} {s : Bytes}
    (h : argon2_encode_string dstLen c salt out type = .ok s)
    (hm : c.m_cost < 2 ^ 32) (ht : c.t_cost < 2 ^ 32) (hl : c.lanes < 2 ^ 32)
    (c0 : Context) (hcs : salt.length ≤ c0.saltlen) (hco : out.length ≤ c0.outlen)
    (hls : salt.length ≤ 4294967295) (hlo : out.length ≤ 4294967295)
    (hv : argon2_validate_inputs
            { c0 with saltlen := salt.length, outlen := out.length, m_cost := c.m_cost, t_cost := c.t_cost,
                      lanes := c.lanes, threads := c.lanes } = ARGON2_OK) :
    argon2_decode_string c0 s type = (ARGON2_OK, some ⟨c.m_cost, c.t_cost, c.lanes, salt, out⟩) := by
  obtain ⟨es, _, _⟩ := encode_ok h hm ht hl
  rw [es, decode_encStr c0 type _ _ _ salt out hm ht hl hcs hco hls hlo]
  dsimp only
  rw [if_neg (by rw [hv]; decide)]

/-- the same for the two decoder contexts that exist in the library (`argon2_verify` and `_needs_rehash`),
    where the validation hypothesis follows from the encoder's own validation: the string API round-trips -/
theorem str_decode_roundtrip (P : Prims) (hP : TagLen P) (type : Argon2Type) (passwd rnd : Bytes)
    (opslimit memlimit : Nat) (r : Result)
    (h : crypto_pwhash_argon2_str P type passwd opslimit memlimit rnd = r) (hrc : r.rc = 0) :
    needs_rehash r.out opslimit memlimit type = { rc := 0 } := by
  obtain ⟨h1, h2, h3, h4, h5, h6, h7, h8⟩ := str_ok h hrc
  have hops : 1 ≤ opslimit := by
    have : 1 ≤ type.opsMin := by cases type <;> decide
    omega
  have htl := hP type.y passwd (rnd.take 16) opslimit (memlimit / 1024) 1 32
  have hc : cstr r.out = encStr type (memlimit / 1024) opslimit 1 (rnd.take 16)
      (P.argon2 type.y passwd (rnd.take 16) opslimit (memlimit / 1024) 1 32) := by
    rw [h7]; exact cstr_append_zeros _ (encStr_ne_zero _ _ _ _ _ _) _
  -- `needs_rehash` looks at `cstr r.out` only
  have e : needs_rehash r.out opslimit memlimit type = needs_rehash (cstr r.out) opslimit memlimit type := by
    unfold needs_rehash
    have : cstr (cstr r.out) = cstr r.out := by
      rw [hc]
      have := cstr_append_zeros _ (encStr_ne_zero type (memlimit / 1024) opslimit 1 (rnd.take 16)
        (P.argon2 type.y passwd (rnd.take 16) opslimit (memlimit / 1024) 1 32)) 0
      simpa [zeros] using this
    rw [this]
  rw [e, hc]
  -- length < 128: the encoder needs room for the terminating NUL
  by_cases hlt : (encStr type (memlimit / 1024) opslimit 1 (rnd.take 16)
      (P.argon2 type.y passwd (rnd.take 16) opslimit (memlimit / 1024) 1 32)).length < 128
  · rw [needs_rehash_encStr type _ _ 1 _ _ opslimit memlimit ⟨hops, by omega⟩ ⟨by omega, by omega⟩
      ⟨by omega, by omega⟩ h6 (by rw [htl]; omega) hlt h3 (by omega)]
    rw [if_pos ⟨rfl, rfl⟩]
  · -- impossible: the longest such string has 111 characters; shown from the encoder's accounting
    exfalso
    have hs : (rnd.take 16).length ≤ 16 := by simp; omega
    have l1 : (encode false false (rnd.take 16)).length ≤ 22 := by
      rw [encode_len]; unfold encodedLen; simp only [Bool.false_eq_true, if_false]; omega
    have l2 : (encode false false (P.argon2 type.y passwd (rnd.take 16) opslimit (memlimit / 1024) 1 32)).length = 43 := by
      rw [encode_len, htl]; rfl
    have l3 : ∀ n, n < 2 ^ 32 → (decStr n).length ≤ 10 := fun n hn => decStr_len_le n hn
    have a := l3 (memlimit / 1024) (by omega)
    have b := l3 opslimit (by omega)
    have t9 : type.tag.length ≤ 9 := by cases type <;> decide
    apply hlt
    unfold encStr
    simp only [List.length_append]
    have : lit_v.length = 3 ∧ lit_m.length = 3 ∧ lit_t.length = 3 ∧ lit_p.length = 3 ∧ lit_dollar.length = 1 ∧
        (decStr 19).length = 2 ∧ (decStr 1).length = 1 := by decide +kernel
    omega

/-! ### needs_rehash -/

/-- `crypto_pwhash_argon2{i,id}_str_needs_rehash` as a total function. With `s` = the C string in `str`:
    -1 (EINVAL) if `opslimit > UINT32_MAX`, `memlimit / 1024 > UINT32_MAX` or `strlen(s) ≥ 128`;
    otherwise -1 (EINVAL) if `s` does not decode (with buffers of `strlen(s)` bytes); otherwise 0 if the
    decoded (t, m) equal (opslimit, memlimit / 1024) and 1 if not. Nothing else is compared: not `p`, not
    the salt or hash lengths. -/
theorem needs_rehash_spec (str : Bytes) (opslimit memlimit : Nat) (type : Argon2Type) :
    needs_rehash str opslimit memlimit type =
      if opslimit > 4294967295 ∨ memlimit / 1024 > 4294967295 ∨ (cstr str).length ≥ 128 then { rc := -1, errno := EINVAL }
      else match (argon2_decode_string (rehashCtx (cstr str).length) (cstr str) type).2 with
        | none => { rc := -1, errno := EINVAL }
        | some d => if d.t_cost = opslimit ∧ d.m_cost = memlimit / 1024 then { rc := 0 } else { rc := 1 } :=
  needs_rehash_eq str opslimit memlimit type

/-- on every well-formed string (any valid m, t, p, salt of ≥ 8 bytes, hash of ≥ 16 bytes, fewer than 128
    characters): 0 iff (t, m) = (opslimit, memlimit / 1024), else 1 -/
theorem needs_rehash_wellformed (type : Argon2Type) (m t p : Nat) (salt out : Bytes) (opslimit memlimit : Nat)
    (ht : 1 ≤ t ∧ t < 2 ^ 32) (hp : 1 ≤ p ∧ p ≤ 0xFFFFFF) (hm : 8 * p ≤ m ∧ m < 2 ^ 32)
    (hs : 8 ≤ salt.length) (ho : 16 ≤ out.length)
    (hl : (encStr type m t p salt out).length < 128)
    (hops : opslimit ≤ 4294967295) (hmem : memlimit / 1024 ≤ 4294967295) :
    needs_rehash (encStr type m t p salt out) opslimit memlimit type =
      if t = opslimit ∧ m = memlimit / 1024 then { rc := 0 } else { rc := 1 } :=
  needs_rehash_encStr type m t p salt out opslimit memlimit ht hp hm hs ho hl hops hmem

/-- DEVIATION from "returns 0 exactly when the string's parameters equal the requested ones": the
    parallelism is not compared. A (foreign) `p=2` string with matching (t, m) needs no rehash although
    libsodium itself would always produce `p=1`. -/
theorem needs_rehash_ignores_lanes :
    (needs_rehash (ascii "$argon2id$v=19$m=16,t=1,p=2$AAAAAAAAAAA$AAAAAAAAAAAAAAAAAAAAAA") 1 16384 .id).rc = 0 := by
  decide +kernel

/-- … and `memlimit` is compared in KiB: every `memlimit` in the same KiB is "equal" -/
theorem needs_rehash_memlimit_granularity :
    (needs_rehash (ascii "$argon2id$v=19$m=16,t=1,p=1$AAAAAAAAAAA$AAAAAAAAAAAAAAAAAAAAAA") 1 17407 .id).rc = 0 ∧
    (needs_rehash (ascii "$argon2id$v=19$m=16,t=1,p=1$AAAAAAAAAAA$AAAAAAAAAAAAAAAAAAAAAA") 1 17408 .id).rc = 1 := by
  decide +kernel

example : (needs_rehash (ascii "$argon2id$v=19$m=16,t=1,p=1$AAAAAAAAAAA$AAAAAAAAAAAAAAAAAAAAAA") 2 16384 .id).rc = 1 := by
  decide +kernel
example : (needs_rehash (ascii "$argon2id$v=16$m=16,t=1,p=1$AAAAAAAAAAA$AAAAAAAAAAAAAAAAAAAAAA") 1 16384 .id).rc = -1 := by
  decide +kernel
example : (needs_rehash (ascii "$argon2id$m=16,t=1,p=1$AAAAAAAAAAA$AAAAAAAAAAAAAAAAAAAAAA") 1 16384 .id).rc = -1 := by
  decide +kernel
example : (needs_rehash (ascii "$argon2id$v=19$m=016,t=1,p=1$AAAAAAAAAAA$AAAAAAAAAAAAAAAAAAAAAA") 1 16384 .id).rc = -1 := by
  decide +kernel
example : (needs_rehash (ascii "$argon2id$v=19$m=16,t=1,p=1$AAAAAAAAAAA=$AAAAAAAAAAAAAAAAAAAAAA") 1 16384 .id).rc = -1 := by
  decide +kernel
example : (needs_rehash (ascii "$argon2id$v=19$m=16,t=1,p=1$AAAAAAAAAAA$AAAAAAAAAAAAAAAAAAAAAA$") 1 16384 .id).rc = -1 := by
  decide +kernel

/-! ### limits of the raw API -/

/-- `crypto_pwhash` as a total function of its arguments (`salt` = the 16-byte salt buffer): which
    argument tuples give which error, and that in all other cases the result is exactly the Argon2 core
    (type by `alg`, t = opslimit, m = memlimit / 1024 KiB, one lane, tag length `outlen`) — the internal
    failure path of `argon2_hash` is dead. Order matters: e.g. a too-short `outlen` wins (EINVAL) over a
    too-large `opslimit` (EFBIG). -/
theorem limits_spec (P : Prims) (outlen : Nat) (passwd salt : Bytes) (opslimit memlimit : Nat) (alg : Int)
    (hsalt : 16 ≤ salt.length) :
    crypto_pwhash P outlen passwd salt opslimit memlimit alg =
      if alg ≠ 1 ∧ alg ≠ 2 then { rc := -1, errno := EINVAL }
      else if outlen > 4294967295 then { rc := -1, errno := EFBIG }
      else if outlen < 16 then { rc := -1, errno := EINVAL }
      else if passwd.length > 4294967295 ∨ opslimit > 4294967295 ∨ memlimit > 4398046510080 then
        { rc := -1, errno := EFBIG }
      else if opslimit < (if alg = 1 then 3 else 1) ∨ memlimit < 8192 then { rc := -1, errno := EINVAL }
      else { rc := 0,
             out := P.argon2 (if alg = 1 then 1 else 2) passwd (salt.take 16) opslimit (memlimit / 1024) 1 outlen } := by
  unfold crypto_pwhash
  by_cases h1 : alg = ALG_ARGON2I13
  · have h1' : alg = 1 := h1
    rw [if_pos h1, crypto_pwhash_argon2_eq P .i outlen passwd salt opslimit memlimit alg hsalt]
    rw [if_neg (show ¬ (alg ≠ 1 ∧ alg ≠ 2) from fun h => h.1 h1')]
    simp only [h1', if_true, Argon2Type.opsMin, argon2i_OPSLIMIT_MIN, Argon2Type.alg, ALG_ARGON2I13, Argon2Type.y,
      ne_eq, not_true_eq_false, if_false]
  · rw [if_neg h1]
    have h1' : ¬ alg = 1 := h1
    by_cases h2 : alg = ALG_ARGON2ID13
    · have h2' : alg = 2 := h2
      rw [if_pos h2, crypto_pwhash_argon2_eq P .id outlen passwd salt opslimit memlimit alg hsalt]
      rw [if_neg (show ¬ (alg ≠ 1 ∧ alg ≠ 2) from fun h => h.2 h2')]
      simp only [h2', Argon2Type.opsMin, argon2id_OPSLIMIT_MIN, Argon2Type.alg, ALG_ARGON2ID13, Argon2Type.y,
        ne_eq, not_true_eq_false, if_false]
      simp
    · have h2' : ¬ alg = 2 := h2
      rw [if_neg h2, if_pos ⟨h1', h2'⟩]

/-- the algorithm-specific entry points, same statement with their own `alg` check last -/
theorem limits_spec_specific (P : Prims) (type : Argon2Type) (outlen : Nat) (passwd salt : Bytes)
    (opslimit memlimit : Nat) (alg : Int) (hsalt : 16 ≤ salt.length) :
    crypto_pwhash_argon2 P type outlen passwd salt opslimit memlimit alg =
      if outlen > 4294967295 then { rc := -1, errno := EFBIG }
      else if outlen < 16 then { rc := -1, errno := EINVAL }
      else if passwd.length > 4294967295 ∨ opslimit > 4294967295 ∨ memlimit > 4398046510080 then
        { rc := -1, errno := EFBIG }
      else if opslimit < type.opsMin ∨ memlimit < 8192 then { rc := -1, errno := EINVAL }
      else if alg ≠ type.alg then { rc := -1, errno := EINVAL }
      else { rc := 0, out := P.argon2 type.y passwd (salt.take 16) opslimit (memlimit / 1024) 1 outlen } :=
  crypto_pwhash_argon2_eq P type outlen passwd salt opslimit memlimit alg hsalt

/-- `argon2_validate_inputs` accepts exactly the contexts within the Argon2 limits -/
theorem validate_inputs_spec (c : Context) : argon2_validate_inputs c = ARGON2_OK ↔ CtxOk c :=
  validate_ok_iff c

/-- memory rounding of `argon2_ctx` (in `uint32_t`, no overflow for any valid lane count): the number of
    blocks used is a multiple of 4·lanes, at least 8·lanes, and — when the request is at least 8·lanes, as
    `argon2_validate_inputs` demands — at most the request and less than 4·lanes below it. It is the m′ of
    RFC 9106 §3.2 (`Spec.Argon2.argon2` computes `q = ⌊max(m, 8p)/(4p)⌋·4` columns in `p` lanes). -/
theorem memory_rounding (t m lanes threads : UInt32) (h1 : 1 ≤ lanes.toNat) (h2 : lanes.toNat ≤ 0xFFFFFF) :
    let I := argon2_instance t m lanes threads
    (4 * lanes.toNat) ∣ I.memory_blocks.toNat ∧ 8 * lanes.toNat ≤ I.memory_blocks.toNat ∧
      (8 * lanes.toNat ≤ m.toNat → I.memory_blocks.toNat ≤ m.toNat ∧ m.toNat - I.memory_blocks.toNat < 4 * lanes.toNat) ∧
      I.memory_blocks.toNat = (max m.toNat (8 * lanes.toNat) / (4 * lanes.toNat) * 4) * lanes.toNat ∧
      I.lane_length.toNat = max m.toNat (8 * lanes.toNat) / (4 * lanes.toNat) * 4 ∧
      I.segment_length.toNat * 4 = I.lane_length.toNat := by
  obtain ⟨e1, e2, e3⟩ := instance_eq t m lanes threads h1 h2
  obtain ⟨r1, r2, r3, r4⟩ := rounding_props m.toNat lanes.toNat h1
  dsimp only
  rw [e1, e2, e3]
  refine ⟨r1, r2, ?_, ?_, by omega, by omega⟩
  · intro hge
    rw [Nat.max_eq_left hge] at r3 r4 ⊢
    exact ⟨r3, r4⟩
  · rw [Nat.mul_assoc]

/-! ### prefix dispatch -/

/-- `crypto_pwhash_str_verify` / `crypto_pwhash_str_needs_rehash` call the Argon2id code iff the string
    starts with `$argon2id$`, the Argon2i code iff it starts with `$argon2i$`, else fail with EINVAL -/
theorem verify_dispatch (P : Prims) (str passwd : Bytes) (opslimit memlimit : Nat) :
    crypto_pwhash_str_verify P str passwd =
      (if argon2id_STRPREFIX.isPrefixOf (cstr str) then crypto_pwhash_argon2_str_verify P .id str passwd
       else if argon2i_STRPREFIX.isPrefixOf (cstr str) then crypto_pwhash_argon2_str_verify P .i str passwd
       else { rc := -1, errno := EINVAL }) ∧
    crypto_pwhash_str_needs_rehash str opslimit memlimit =
      (if argon2id_STRPREFIX.isPrefixOf (cstr str) then needs_rehash str opslimit memlimit .id
       else if argon2i_STRPREFIX.isPrefixOf (cstr str) then needs_rehash str opslimit memlimit .i
       else { rc := -1, errno := EINVAL }) :=
  ⟨rfl, rfl⟩

/-- the two prefixes exclude each other -/
theorem prefixes_disjoint (s : Bytes) :
    ¬ (argon2id_STRPREFIX.isPrefixOf s = true ∧ argon2i_STRPREFIX.isPrefixOf s = true) := by
  rintro ⟨h1, h2⟩
  obtain ⟨a, ha⟩ := List.isPrefixOf_iff_prefix.mp h1
  obtain ⟨b, hb⟩ := List.isPrefixOf_iff_prefix.mp h2
  rw [← ha] at hb
  simp [argon2id_STRPREFIX, argon2i_STRPREFIX] at hb

/-- the dispatch loses nothing: a string that a type-specific decoder accepts carries that type's prefix
    (so the generic functions reach the only decoder that can succeed) -/
theorem decodable_has_prefix {c0 : Context} {s : Bytes} {type : Argon2Type} {rc : Int} {d : Decoded}
    (h : argon2_decode_string c0 s type = (rc, some d)) :
    argon2id_STRPREFIX.isPrefixOf s = (type == .id) ∧ argon2i_STRPREFIX.isPrefixOf s = (type == .i) := by
  obtain ⟨r, hr⟩ := decode_some_prefix h
  rw [hr]
  exact prefix_of_tag_v type r

/-! ### string API round trip -/

/-- (conditional on the Argon2 core being a function that returns a tag of the requested length) a string
    produced by `crypto_pwhash_argon2{i,id}_str` — in particular by `crypto_pwhash_str` — for
    (passwd, salt, opslimit, memlimit) verifies with the same password, through the type-specific and
    through the generic verifier. -/
theorem str_verify_roundtrip_partial (P : Prims) (hP : TagLen P) (type : Argon2Type) (passwd rnd : Bytes)
    (opslimit memlimit : Nat) (r : Result)
    (h : crypto_pwhash_argon2_str P type passwd opslimit memlimit rnd = r) (hrc : r.rc = 0) :
    crypto_pwhash_argon2_str_verify P type r.out passwd = { rc := 0 } ∧
      crypto_pwhash_str_verify P r.out passwd = { rc := 0 } :=
  str_verify_roundtrip P hP type passwd rnd opslimit memlimit r h hrc

/-- Verification of ANY string (`s` = the C string in `str`, at most 2^32-1 characters; password at most
    2^32-1 bytes): `crypto_pwhash_argon2{i,id}_str_verify` returns 0 exactly when `s` decodes (grammar +
    `argon2_validate_inputs`, buffers of `strlen(s)` bytes) and the tag recomputed for the presented password
    with the decoded (t, m, p, salt, tag length) equals the decoded tag. In particular another password, or
    any corruption of the string, is accepted only if it leads to a matching recomputed tag (a collision
    of the Argon2 core), and strings that do not decode are always rejected. -/
theorem verify_spec (P : Prims) (type : Argon2Type) (str passwd : Bytes)
    (hpw : passwd.length ≤ 4294967295) (hlen : (cstr str).length ≤ 4294967295) :
    (crypto_pwhash_argon2_str_verify P type str passwd).rc = 0 ↔
      ∃ d, (argon2_decode_string (verifyCtx (cstr str).length) (cstr str) type).2 = some d ∧
        P.argon2 type.y passwd d.salt d.t_cost d.m_cost d.lanes d.out.length = d.out :=
  str_verify_iff P type str passwd hpw hlen

/-- on a well-formed string (any valid m, t, p — also foreign `p ≠ 1` —, salt ≥ 8 bytes, stored tag ≥ 16
    bytes) the verifier returns 0 if the recomputed tag equals the stored one, else -1 with EINVAL -/
theorem verify_wellformed (P : Prims) (type : Argon2Type) (passwd salt out : Bytes) (t m p : Nat)
    (hpw : passwd.length ≤ 4294967295) (hs : 8 ≤ salt.length) (ho : 16 ≤ out.length)
    (ht : 1 ≤ t ∧ t ≤ 4294967295) (hp : 1 ≤ p ∧ p ≤ 0xFFFFFF) (hm : 8 * p ≤ m ∧ m ≤ 4294967295)
    (hl : (encStr type m t p salt out).length ≤ 4294967295) :
    crypto_pwhash_argon2_str_verify P type (encStr type m t p salt out) passwd =
      if P.argon2 type.y passwd salt t m p out.length = out then { rc := 0 } else { rc := -1, errno := EINVAL } :=
  str_verify_encStr P type passwd salt out t m p hpw hs ho ht hp hm hl

/-- a string that does not decode never verifies, whatever the password -/
theorem verify_malformed (P : Prims) (type : Argon2Type) (str passwd : Bytes)
    (h : (argon2_decode_string (verifyCtx (cstr str).length) (cstr str) type).2 = none) :
    (crypto_pwhash_argon2_str_verify P type str passwd).rc = -1 :=
  str_verify_malformed P type str passwd h

/-- whenever the decoder returns no context, it returns an error code; whenever it returns one, the code
    is ARGON2_OK and the decoded values passed `argon2_validate_inputs` -/
theorem decode_result_consistent {c0 : Context} {s : Bytes} {type : Argon2Type} {rc : Int} :
    (argon2_decode_string c0 s type = (rc, none) → rc ≠ ARGON2_OK) ∧
    (∀ d, argon2_decode_string c0 s type = (rc, some d) → rc = ARGON2_OK ∧
      argon2_validate_inputs { c0 with saltlen := d.salt.length, outlen := d.out.length, m_cost := d.m_cost,
                                       t_cost := d.t_cost, lanes := d.lanes, threads := d.lanes } = ARGON2_OK) :=
  ⟨decode_none_rc, fun _ h => decode_some_valid h⟩

/-- what `_str` returns when it succeeds: the documented string for (memlimit / 1024, opslimit, p = 1,
    the 16 random bytes, the 32-byte tag), NUL-padded to 128 bytes -/
theorem str_format (P : Prims) (type : Argon2Type) (passwd rnd : Bytes) (opslimit memlimit : Nat) (r : Result)
    (h : crypto_pwhash_argon2_str P type passwd opslimit memlimit rnd = r) (hrc : r.rc = 0) :
    r.out = encStr type (memlimit / 1024) opslimit 1 (rnd.take 16)
                (P.argon2 type.y passwd (rnd.take 16) opslimit (memlimit / 1024) 1 32) ++
            zeros (128 - (encStr type (memlimit / 1024) opslimit 1 (rnd.take 16)
                (P.argon2 type.y passwd (rnd.take 16) opslimit (memlimit / 1024) 1 32)).length) :=
  (str_ok h hrc).2.2.2.2.2.2.1

/-- the limit ladder of `_str` -/
theorem str_limits (P : Prims) (type : Argon2Type) (passwd rnd : Bytes) (opslimit memlimit : Nat) :
    (passwd.length > 4294967295 ∨ opslimit > 4294967295 ∨ memlimit > 4398046510080 →
      crypto_pwhash_argon2_str P type passwd opslimit memlimit rnd = { rc := -1, errno := EFBIG }) ∧
    (¬ (passwd.length > 4294967295 ∨ opslimit > 4294967295 ∨ memlimit > 4398046510080) →
      (opslimit < type.opsMin ∨ memlimit < 8192) →
      crypto_pwhash_argon2_str P type passwd opslimit memlimit rnd = { rc := -1, errno := EINVAL }) := by
  constructor
  · intro h
    unfold crypto_pwhash_argon2_str
    rw [if_pos (show passwd.length > PASSWD_MAX ∨ opslimit > OPSLIMIT_MAX ∨ memlimit > MEMLIMIT_MAX from h)]
  · intro h1 h2
    unfold crypto_pwhash_argon2_str
    rw [if_neg (show ¬ (passwd.length > PASSWD_MAX ∨ opslimit > OPSLIMIT_MAX ∨ memlimit > MEMLIMIT_MAX) from h1),
      if_pos (show passwd.length < PASSWD_MIN ∨ opslimit < type.opsMin ∨ memlimit < MEMLIMIT_MIN from Or.inr h2)]

/-! ### scrypt -/

/-- `pickparams`: r = 8; N_log2 is the least k in 1..62 with 2^k > maxN / 2 (63 if there is none), where
    maxN = max(opslimit, 32768) / 32 if max(opslimit, 32768) < memlimit / 32 (then p = 1) and
    maxN = memlimit / 1024 otherwise (then p = min(max(opslimit, 32768) / 4 / 2^N_log2, 0x3fffffff) / 8) -/
theorem pickparams_spec (opslimit memlimit : Nat) :
    let ops := if opslimit < 32768 then 32768 else opslimit
    let maxN := if ops < memlimit / 32 then ops / 32 else memlimit / 1024
    let pp := pickparams opslimit memlimit
    pp.r = 8 ∧ 1 ≤ pp.N_log2 ∧ pp.N_log2 ≤ 63 ∧ (pp.N_log2 < 63 → 2 ^ pp.N_log2 > maxN / 2) ∧
      (∀ j, 1 ≤ j → j < pp.N_log2 → 2 ^ j ≤ maxN / 2) ∧
      pp.p = (if ops < memlimit / 32 then 1 else (min (ops / 4 / 2 ^ pp.N_log2) 0x3fffffff) / 8) ∧ 8 * pp.p < 2 ^ 30 := by
  dsimp only
  obtain ⟨h1, h2, h3, h4⟩ := pickparams_props opslimit memlimit
  refine ⟨h1, h2, h3, ?_, ?_, ?_, h4⟩
  all_goals unfold pickparams
  all_goals dsimp only
  all_goals generalize (if opslimit < 32768 then 32768 else opslimit) = ops
  all_goals by_cases hb : ops < memlimit / 32
  · rw [if_pos hb, if_pos hb]
    have := (pickNLoop_spec (ops / (8 * 4)) 62 1).2.2.1
    intro h; exact this (by dsimp only at h; omega)
  · rw [if_neg hb, if_neg hb]
    have := (pickNLoop_spec (memlimit / (8 * 128)) 62 1).2.2.1
    intro h; exact this (by dsimp only at h; omega)
  · rw [if_pos hb, if_pos hb]
    exact (pickNLoop_spec (ops / (8 * 4)) 62 1).2.2.2
  · rw [if_neg hb, if_neg hb]
    exact (pickNLoop_spec (memlimit / (8 * 128)) 62 1).2.2.2
  · rw [if_pos hb, if_pos hb]
  · rw [if_neg hb, if_neg hb]
    dsimp only
    generalize ops / 4 / 2 ^ pickNLoop (memlimit / (8 * 128)) 62 1 = x
    have e : (if x > 0x3fffffff then 0x3fffffff else x) = min x 0x3fffffff := by
      split <;> omega
    rw [e, u32_id (by omega)]

/-- `crypto_pwhash_scryptsalsa208sha256` as a total function of its arguments: EFBIG for
    `outlen > 0x1fffffffe0`, EINVAL for `outlen < 16`, EFBIG when the picked N = 2^N_log2 exceeds
    `UINT32_MAX`, EINVAL for p = 0, otherwise exactly scrypt(passwd, salt[0..32), N, r = 8, p, outlen).
    No `opslimit` / `memlimit` is rejected as such (the documented minima are not enforced: smaller values
    are clamped by `pickparams`). -/
theorem scrypt_limits_spec (P : Prims) (outlen : Nat) (passwd salt : Bytes) (opslimit memlimit : Nat)
    (hpw : passwd.length < 2 ^ 64) :
    crypto_pwhash_scrypt P outlen passwd salt opslimit memlimit =
      if outlen > 0x1fffffffe0 then { rc := -1, errno := EFBIG }
      else if outlen < 16 then { rc := -1, errno := EINVAL }
      else if (pickparams opslimit memlimit).N_log2 ≥ 32 then { rc := -1, errno := EFBIG }
      else if (pickparams opslimit memlimit).p = 0 then { rc := -1, errno := EINVAL }
      else { rc := 0, out := P.scrypt passwd (salt.take 32) (2 ^ (pickparams opslimit memlimit).N_log2) 8
                               (pickparams opslimit memlimit).p outlen } :=
  crypto_pwhash_scrypt_eq P outlen passwd salt opslimit memlimit hpw

example : pickparams 524288 16777216 = ⟨14, 1, 8⟩ := by decide +kernel          -- OPSLIMIT/MEMLIMIT_INTERACTIVE
example : pickparams 33554432 1073741824 = ⟨20, 1, 8⟩ := by decide +kernel      -- _SENSITIVE
example : pickparams 0 0 = ⟨1, 512, 8⟩ := by decide +kernel                     -- below the documented minima: accepted
example : (pickparams (2 ^ 63) (2 ^ 64 - 1)).N_log2 = 53 := by decide +kernel   -- → EFBIG

/-! ### non-vacuity: the hypotheses are satisfiable, shown on a trivial core -/

/-- a trivial core (all-zero tags of the requested length) -/
def P0 : Prims := { argon2 := fun _ _ _ _ _ _ n => zeros n, scrypt := fun _ _ _ _ _ n => zeros n }

example : TagLen P0 := by
  intro y pwd salt t m l n; simp [P0, zeros]

example : (crypto_pwhash_argon2_str P0 .id [112, 119] 1 8192 (zeros 16)).rc = 0 := by decide +kernel
example : (crypto_pwhash_argon2_str P0 .i [112, 119] 3 1048576 (zeros 16)).rc = 0 := by decide +kernel
example : cstr (crypto_pwhash_argon2_str P0 .id [112, 119] 1 8192 (zeros 16)).out =
    ascii "$argon2id$v=19$m=8,t=1,p=1$AAAAAAAAAAAAAAAAAAAAAA$AAAAAAAAAAAAAAAAAAAAAAAAAAAAAAAAAAAAAAAAAAA" := by
  decide +kernel
example : (crypto_pwhash_str_verify P0 (crypto_pwhash_argon2_str P0 .id [112, 119] 1 8192 (zeros 16)).out [112, 119]).rc = 0 := by
  decide +kernel
example : (crypto_pwhash P0 16 [] (zeros 16) 1 8192 2).rc = 0 ∧ (crypto_pwhash P0 15 [] (zeros 16) (2 ^ 32) 8192 2).errno = EINVAL ∧
    (crypto_pwhash P0 16 [] (zeros 16) (2 ^ 32) 8191 2).errno = EFBIG ∧ (crypto_pwhash P0 16 [] (zeros 16) 2 8192 1).errno = EINVAL ∧
    (crypto_pwhash P0 16 [] (zeros 16) 1 8192 3).errno = EINVAL := by decide +kernel

/-- scrypt string API on the trivial core (the general round-trip theorem for the `$7$` strings is NOT
    proved; these are instances): the produced string has the `$7$` format, verifies, and needs no rehash -/
example : cstr (crypto_pwhash_scrypt_str P0 [112, 119] 32768 16384 (zeros 32)).out =
    ascii "$7$26...../..............................................$..........................................." := by
  decide +kernel
example : crypto_pwhash_scrypt_str_verify P0 (crypto_pwhash_scrypt_str P0 [112, 119] 32768 16384 (zeros 32)).out [112, 119] [] = 0 := by
  decide +kernel
example : (crypto_pwhash_scrypt_str_needs_rehash (crypto_pwhash_scrypt_str P0 [112, 119] 32768 16384 (zeros 32)).out 32768 16384).rc = 0 ∧
    (crypto_pwhash_scrypt_str_needs_rehash (crypto_pwhash_scrypt_str P0 [112, 119] 32768 16384 (zeros 32)).out 65536 16384).rc = 1 := by
  decide +kernel

end Sodium.C08
