import SodiumModel.Properties.C05Asm2
import SodiumModel.Proofs.X86Scalar3b
/-
  C05 / C10 — fe51_pack.S, continued (`C05Asm.lean`: the reduce loop; `C05Asm2.lean`: the freeze and the stores, executed):

    * `pack_digit_sum`: the 32 bytes that the store instructions write for fully carried limb registers `g` are the
      little-endian encoding of the limb value, `packBytes g = toLE 32 (val g)`;
    * `pack_loop_freeze_stores_spec`: from the state the prologue leaves (rax = REDMASK51, r10 = REDMASK51 - 18, r11 = 3,
      the five limbs in rdx rcx r8 r9 rsi, every limb below 2^63) to the state before the three epilogue instructions:
      the loop terminates, and the 32 bytes at rdi … rdi+31 are the canonical little-endian encoding of the limb value
      mod 2^255 - 19 = `fe25519_tobytes` of the limb model; every other byte of memory is unchanged; rdi, rsp, rbx, rbp,
      r13, r14, r15 and `ok` are unchanged.
  What remains for a `pack_spec` about the whole function: the 14 prologue instructions (frame allocation, the two saves,
  the five loads from (%rsi) under a memory-layout hypothesis) and the 3 epilogue instructions (r11, r12 reloaded from the
  frame through the 32 byte stores, rsp restored).
-/
open Sodium Sodium.Model Sodium.Model.X86Scalar Sodium.Model.Fe51 Sodium.Fe51P Sodium.X86ScalarP Sodium.Spec
open Generated.Sandy2xAsm
namespace Sodium.C05Asm3

/-- **the digit sum**: on fully carried limbs the 32 stored bytes are the little-endian encoding of the value -/
theorem pack_digit_sum (g : Fe) (hb : Bounded (2 ^ 51) g) : packBytes g = toLE 32 (val g) := packBytes_spec g hb

/-- the stores, read back: the 32 bytes at `a`; every address at distance ≥ 32 from `a` (modulo 2^64) is untouched -/
theorem pack_stores_readback (m : Mem) (a : UInt64) (g : Fe) :
    loadBytes (storeMem m a g) a 32 = packBytes g ∧
    ∀ x : UInt64, 32 ≤ (x - a).toNat → storeMem m a g x = m x :=
  ⟨loadBytes_storeMem m a g, fun x h => storeMem_far m a g x h⟩

/-- the instructions between the loop and the epilogue: freeze (19) then stores (137) -/
theorem pack_mid_split : fe51_pack_b2.take 156 = fe51_pack_b2.take 19 ++ (fe51_pack_b2.drop 19).take 137 := by rfl

/-- **loop, freeze and stores**: from the post-prologue state to the pre-epilogue state, for every limb vector below 2^63 -/
theorem pack_loop_freeze_stores_spec (n : Nat) (s : State) (h : s.rax = 0x7FFFFFFFFFFFF) (h10 : s.r10 = 0x7FFFFFFFFFFED)
    (hk : s.r11 = 3) (hf : Bounded (2 ^ 63) (limbs s)) :
    ∃ s1, runBlock (n + 3) (.doWhile fe51_pack_b1 .a) s = some s1 ∧
      loadBytes (run (fe51_pack_b2.take 156) s1).mem s.rdi 32 = toLE 32 (val (limbs s) % F25519.p) ∧
      loadBytes (run (fe51_pack_b2.take 156) s1).mem s.rdi 32 = fe25519_tobytes (limbs s) ∧
      (∀ x : UInt64, 32 ≤ (x - s.rdi).toNat → (run (fe51_pack_b2.take 156) s1).mem x = s.mem x) ∧
      (run (fe51_pack_b2.take 156) s1).rdi = s.rdi ∧ (run (fe51_pack_b2.take 156) s1).rsp = s.rsp ∧
      (run (fe51_pack_b2.take 156) s1).rbx = s.rbx ∧ (run (fe51_pack_b2.take 156) s1).rbp = s.rbp ∧
      (run (fe51_pack_b2.take 156) s1).r13 = s.r13 ∧ (run (fe51_pack_b2.take 156) s1).r14 = s.r14 ∧
      (run (fe51_pack_b2.take 156) s1).r15 = s.r15 ∧ (run (fe51_pack_b2.take 156) s1).ok = s.ok := by
  obtain ⟨s1, r, hb, hv, _, hs, k⟩ := C05Asm.pack_loop_spec n s h hk hf
  obtain ⟨m1, p1, d1, a1, t1, x1, q1, y1, z1, w1, o1⟩ := hs
  obtain ⟨fl, fm, fp, fd, fo, fx, fq, fy, fz, fw⟩ := pack_freeze_exec s1 (by rw [a1, h]) (by rw [t1, h10]) k
  obtain ⟨cb, cv⟩ := C05Asm2.pack_freeze_canonical _ hb
  obtain ⟨sm, sd, sp, sx, sq, sy, sz, sw, so⟩ := stores_exec (run (fe51_pack_b2.take 19) s1)
  have hmem : (run (fe51_pack_b2.take 156) s1).mem = storeMem s.mem s.rdi (freezeU (limbs s1)) := by
    rw [pack_mid_split, run_append, sm, fm, fd, fl, m1, d1]
  have hbytes : loadBytes (run (fe51_pack_b2.take 156) s1).mem s.rdi 32 = toLE 32 (val (limbs s) % F25519.p) := by
    rw [hmem, loadBytes_storeMem, packBytes_spec _ cb, cv, hv]
  refine ⟨s1, r, hbytes, ?_, ?_, ?_, ?_, ?_, ?_, ?_, ?_, ?_, ?_⟩
  · rw [hbytes, tobytes_spec_all]
  · intro x hx; rw [hmem]; exact storeMem_far _ _ _ x hx
  · rw [pack_mid_split, run_append, sd, fd, d1]
  · rw [pack_mid_split, run_append, sp, fp, p1]
  · rw [pack_mid_split, run_append, sx, fx, x1]
  · rw [pack_mid_split, run_append, sq, fq, q1]
  · rw [pack_mid_split, run_append, sy, fy, y1]
  · rw [pack_mid_split, run_append, sz, fz, z1]
  · rw [pack_mid_split, run_append, sw, fw, w1]
  · rw [pack_mid_split, run_append, so, fo, o1]

end Sodium.C05Asm3
