import SodiumModel.Model.Hash
import SodiumModel.Spec.Sha256
import SodiumModel.Spec.Sha512
import SodiumModel.Spec.Blake2b
import SodiumModel.Spec.Poly1305
import SodiumModel.Proofs.Hash
/-
  C04 — hashes, MACs and KDFs match their specifications for any input and chunking.
  Compression functions are parameters / the executable Spec functions; what is proved here is
  everything the streaming front-ends add: buffering, counters, padding, last-block handling,
  key blocks, inner/outer HMAC contexts, HKDF counter chaining, range checks — for every list of
  update chunks (empty chunks included).
-/
open Sodium Sodium.Model
namespace Sodium.C04

/-! ### SHA-2 -/

/-- FIPS 180-4 §5.1 padding for block size W and a `lenBytes`-byte big-endian bit length -/
def mdPad (W lenBytes n : Nat) : Bytes :=
  0x80 :: zeros ((2 * W - 1 - lenBytes - n % W) % W) ++ toBE lenBytes (8 * n)

/-- reference: pad, split into W-byte blocks, fold the compression function -/
def mdSpec {σ : Type} (C : σ → Bytes → σ) (W lenBytes : Nat) (iv : σ) (m : Bytes) : σ :=
  (Spec.Sha256.blocks W (m ++ mdPad W lenBytes m.length)).foldl C iv

/-- generic chunking theorem: any split of the message into update calls (including empty ones)
    followed by the two-branch padding equals the one-shot specification, for W = 64 / cbits = 64
    and W = 128 / cbits = 128 (any W with 8·lenBytes = cbits, lenBytes < W), as long as the bit
    length fits the counter. -/
theorem md_chunks {σ : Type} (C : σ → Bytes → σ) (W cbits : Nat) (hW : 0 < W) (hc : cbits % 8 = 0)
    (hl : cbits / 8 < W) (iv : σ) (cs : List Bytes) (hfit : 8 * cs.flatten.length < 2 ^ cbits) :
    mdPadFinal C W cbits (cs.foldl (mdUpdate C W cbits) (mdInit iv)) = mdSpec C W (cbits / 8) iv cs.flatten := by
  have _ := hc
  exact md_chunks_aux C W cbits hW hl iv cs hfit

theorem sha256_chunks (cs : List Bytes) (hfit : cs.flatten.length < 2 ^ 61) :
    Spec.Sha256.digest (mdPadFinal Spec.Sha256.compress 64 64
        (cs.foldl (mdUpdate Spec.Sha256.compress 64 64) (mdInit Spec.Sha256.iv)))
      = Spec.Sha256.hash cs.flatten := by
  have _ := hfit
  exact sha256_chunks_all cs

theorem sha512_chunks (cs : List Bytes) (hfit : cs.flatten.length < 2 ^ 125) :
    Spec.Sha512.digest (mdPadFinal Spec.Sha512.compress 128 128
        (cs.foldl (mdUpdate Spec.Sha512.compress 128 128) (mdInit Spec.Sha512.iv)))
      = Spec.Sha512.hash cs.flatten := by
  have _ := hfit
  exact sha512_chunks_all cs

/-! ### BLAKE2b -/

/-- any chunking of the message through the lazy two-block buffer, with key / salt / personal,
    equals RFC 7693 §3.3 (`Spec.Blake2b.hash`) for every allowed output and key length -/
theorem blake2b_chunks (outlen : Nat) (key salt personal : Bytes) (cs : List Bytes)
    (ho : 1 ≤ outlen ∧ outlen ≤ 64) (hk : key.length ≤ 64) :
    b2Final Spec.Blake2b.compress Spec.Blake2b.digest
        (cs.foldl (fun s c => b2Update Spec.Blake2b.compress (c.length + 1) s c)
          (b2Init Spec.Blake2b.compress Spec.Blake2b.paramInit outlen key salt personal)) outlen
      = .ok (Spec.Blake2b.hash outlen key salt personal cs.flatten) := by
  have _ := ho
  exact blake2b_chunks_aux outlen key salt personal cs hk

/-- one-shot generichash: error exactly for out-of-range lengths, otherwise the specification value -/
theorem generichash_spec (outlen : Nat) (msg key salt personal : Bytes) :
    generichash Spec.Blake2b.compress Spec.Blake2b.paramInit Spec.Blake2b.digest outlen msg key salt personal =
      if outlen = 0 ∨ outlen > 64 ∨ key.length > 64 then .err
      else .ok (Spec.Blake2b.hash outlen key salt personal msg) :=
  generichash_aux outlen msg key salt personal

/-- subkey derivation: salt = le64 id ‖ 0^8, personal = ctx ‖ 0^8, empty message; 16 ≤ len ≤ 64 -/
theorem kdf_blake2b_spec (n : Nat) (id : UInt64) (ctx key : Bytes) (hc : ctx.length = 8) (hk : key.length = 32) :
    kdfBlake2b Spec.Blake2b.compress Spec.Blake2b.paramInit Spec.Blake2b.digest n id ctx key =
      if n < 16 ∨ n > 64 then .err
      else .ok (Spec.Blake2b.hash n key (toLE 8 id.toNat ++ zeros 8) (ctx ++ zeros 8) []) :=
  kdf_blake2b_aux n id ctx key hc hk

/-! ### Poly1305 -/

/-- any chunking through the 16-byte leftover buffer equals RFC 8439 §2.5 over the naturals -/
theorem poly1305_chunks (key : Bytes) (cs : List Bytes) :
    polyFinish polyBlkNat polyFinNat (cs.foldl (polyUpdate polyBlkNat) (polyInitNat key))
      = Spec.Poly1305.mac key cs.flatten :=
  poly1305_chunks_aux key cs

/-! ### HMAC / HKDF over any hash whose streaming interface satisfies the chunk law -/

/-- the chunk law of a streaming hash: final after any updates = `Hf` of the concatenation -/
def ChunkLaw {σ : Type} (H : HashOps σ) (Hf : Bytes → Bytes) : Prop :=
  ∀ cs : List Bytes, H.final (cs.foldl H.update H.init) = Hf cs.flatten

/-- RFC 2104 -/
def hmacSpec (Hf : Bytes → Bytes) (W : Nat) (key msg : Bytes) : Bytes :=
  let k' := if key.length > W then Hf key else key
  Hf (xorPad 0x5c W k' ++ Hf (xorPad 0x36 W k' ++ msg))

theorem hmac_chunks {σ : Type} (H : HashOps σ) (Hf : Bytes → Bytes) (hH : ChunkLaw H Hf) (key : Bytes) (cs : List Bytes) :
    hmacFinal H (cs.foldl (hmacUpdate H) (hmacInit H key)) = hmacSpec Hf H.W key cs.flatten :=
  hmac_chunks_aux H Hf hH key cs

/-- RFC 5869 §2.3: T(0) = "", T(i) = HMAC(PRK, T(i-1) ‖ info ‖ i) -/
def hkdfT (Hf : Bytes → Bytes) (W : Nat) (prk info : Bytes) : Nat → Bytes
  | 0 => []
  | i + 1 => hmacSpec Hf W prk (hkdfT Hf W prk info i ++ info ++ [UInt8.ofNat (i + 1)])

def hkdfOkm (Hf : Bytes → Bytes) (W : Nat) (prk info : Bytes) (n : Nat) : Bytes :=
  (List.range n).flatMap fun i => hkdfT Hf W prk info (i + 1)

theorem hkdf_expand_eq_rfc {σ : Type} (H : HashOps σ) (Hf : Bytes → Bytes) (hH : ChunkLaw H Hf)
    (hout : ∀ m, (Hf m).length = H.outLen) (hpos : 0 < H.outLen) (L : Nat) (ctx prk : Bytes) :
    hkdfExpand H L ctx prk =
      if L > 255 * H.outLen then .err
      else .ok ((hkdfOkm Hf H.W prk ctx ((L + H.outLen - 1) / H.outLen)).take L) :=
  hkdfExpand_spec H prk ctx (hmacSpec Hf H.W prk) (hkdfT Hf H.W prk ctx)
    (fun prev c => hmac3_aux H Hf hH prk prev ctx [c]) rfl (fun _ => rfl) (fun _ => hout _) hpos L

/-! ### Instances: the hypotheses above are satisfiable by the real SHA-2 front-ends
    (so `hmac_chunks` / `hkdf_expand_eq_rfc` are not vacuous), and small non-vacuity checks -/

/-- the streaming SHA-256 / SHA-512 interfaces as used by crypto_auth_hmacsha* and crypto_kdf_hkdf_* -/
def H256 : HashOps Spec.Sha256.State :=
  { W := 64, outLen := 32, init := mdInit Spec.Sha256.iv, update := mdUpdate Spec.Sha256.compress 64 64,
    final := fun s => Spec.Sha256.digest (mdPadFinal Spec.Sha256.compress 64 64 s) }
def H512 : HashOps Spec.Sha512.State :=
  { W := 128, outLen := 64, init := mdInit Spec.Sha512.iv, update := mdUpdate Spec.Sha512.compress 128 128,
    final := fun s => Spec.Sha512.digest (mdPadFinal Spec.Sha512.compress 128 128 s) }

/-- the chunk law holds for SHA-256 with no length bound (counter and length field wrap alike) -/
theorem chunkLaw_sha256 : ChunkLaw H256 Spec.Sha256.hash := fun cs => sha256_chunks_all cs
theorem chunkLaw_sha512 : ChunkLaw H512 Spec.Sha512.hash := fun cs => sha512_chunks_all cs

/-- crypto_auth_hmacsha256 init / update* / final = RFC 2104 over FIPS 180-4 SHA-256 -/
theorem hmacsha256_chunks (key : Bytes) (cs : List Bytes) :
    hmacFinal H256 (cs.foldl (hmacUpdate H256) (hmacInit H256 key)) = hmacSpec Spec.Sha256.hash 64 key cs.flatten :=
  hmac_chunks H256 Spec.Sha256.hash chunkLaw_sha256 key cs

theorem hmacsha512_chunks (key : Bytes) (cs : List Bytes) :
    hmacFinal H512 (cs.foldl (hmacUpdate H512) (hmacInit H512 key)) = hmacSpec Spec.Sha512.hash 128 key cs.flatten :=
  hmac_chunks H512 Spec.Sha512.hash chunkLaw_sha512 key cs

/-- crypto_kdf_hkdf_sha256_expand = RFC 5869 §2.3 -/
theorem hkdf_sha256_expand (L : Nat) (ctx prk : Bytes) :
    hkdfExpand H256 L ctx prk =
      if L > 255 * 32 then .err
      else .ok ((hkdfOkm Spec.Sha256.hash 64 prk ctx ((L + 32 - 1) / 32)).take L) :=
  hkdf_expand_eq_rfc H256 Spec.Sha256.hash chunkLaw_sha256 (fun _ => sha256_digest_length _) (by decide) L ctx prk

theorem hkdf_sha512_expand (L : Nat) (ctx prk : Bytes) :
    hkdfExpand H512 L ctx prk =
      if L > 255 * 64 then .err
      else .ok ((hkdfOkm Spec.Sha512.hash 128 prk ctx ((L + 64 - 1) / 64)).take L) :=
  hkdf_expand_eq_rfc H512 Spec.Sha512.hash chunkLaw_sha512 (fun _ => sha512_digest_length _) (by decide) L ctx prk

-- the side conditions of `md_chunks` hold for the two real parameter sets and a concrete chunk list
example : (0 < 64 ∧ 64 % 8 = 0 ∧ 64 / 8 < 64) ∧ (0 < 128 ∧ 128 % 8 = 0 ∧ 128 / 8 < 128) := by decide
example : 8 * ([[1, 2], [], [3]] : List Bytes).flatten.length < 2 ^ 64 := by decide
-- the padding of `mdSpec` is the FIPS padding of the two specifications
example (n : Nat) : mdPad 64 8 n = Spec.Sha256.pad n := rfl
example (n : Nat) : mdPad 128 16 n = Spec.Sha512.pad n := rfl
-- `blake2b_chunks` / `kdf_blake2b_spec`: admissible parameters exist, and both branches of the
-- range checks are reachable
example : (1 ≤ 32 ∧ 32 ≤ 64) ∧ ([] : Bytes).length ≤ 64 ∧ (zeros 64).length ≤ 64 := by decide
example : (zeros 8).length = 8 ∧ (zeros 32).length = 32 := by decide
example (msg key salt personal : Bytes) :
    generichash Spec.Blake2b.compress Spec.Blake2b.paramInit Spec.Blake2b.digest 65 msg key salt personal = .err := by
  rw [generichash_spec]; rfl
example (msg : Bytes) :
    generichash Spec.Blake2b.compress Spec.Blake2b.paramInit Spec.Blake2b.digest 32 msg [] [] [] =
      .ok (Spec.Blake2b.hash 32 [] [] [] msg) := by
  rw [generichash_spec]; rfl
-- `hkdf_expand_eq_rfc`: both branches
example (ctx prk : Bytes) : hkdfExpand H256 8161 ctx prk = .err := by
  rw [hkdf_sha256_expand]; rfl
example (ctx prk : Bytes) : hkdfExpand H256 0 ctx prk = .ok [] := by
  rw [hkdf_sha256_expand]; rfl

end Sodium.C04
