import SodiumModel.Model.Alloc
import SodiumModel.Proofs.Alloc
/-
  C17 — guarded allocations trap overflows, detect underflows and honour protections.
  The layout arithmetic is proved for every request size and every power-of-two page size, in the
  64-bit arithmetic of the C code; the protection state machine for every history of requests.
  That the kernel really faults / that `raise` really terminates is the operating system's part and
  is observed by the fork/probe correspondence.

  NOTE (finding, fixed): with the former guard `size >= SIZE_MAX - page_size * 4U` the 14 sizes
  `2^64 − 4·pg − 15 ≤ size ≤ 2^64 − 4·pg − 2` were accepted although `total_size = 3·pg +
  unprotected_size` is exactly 2^64 and wraps to 0 (`old_guard_insufficient`). The guard is now
  `page_size * 5U`; every theorem below is stated for the new guard.
-/
open Sodium Sodium.Model.Alloc
namespace Sodium.C17

/-- page sizes: powers of two between 32 bytes and 1 GiB -/
def PgOk (pg : UInt64) : Prop := ∃ k, 5 ≤ k ∧ k ≤ 30 ∧ pg.toNat = 2 ^ k

/-- `_page_round` rounds up to a multiple of the page size (no wrap below 2^64 − pg) -/
theorem pageRound_spec (pg size : UInt64) (hpg : PgOk pg) (hs : size.toNat + pg.toNat ≤ 2 ^ 64) :
    (pageRound pg size).toNat = (size.toNat + pg.toNat - 1) / pg.toNat * pg.toNat := by
  obtain ⟨k, _, hk30, hk⟩ := hpg
  exact AllocP.pageRound_toNat pg size k hk30 hk hs

/-- Layout of every accepted request: the user region ends exactly where the unprotected region
    ends (so the byte after it lies in the trailing PROT_NONE page), the 16-byte canary sits
    immediately before it inside the read-write area, and no `size_t` expression wraps. -/
theorem layout_spec (pg size : UInt64) (hpg : PgOk pg) (h : size.toNat < 2 ^ 64 - 1 - 5 * pg.toNat) :
    let L := layout pg size
    L.userOff.toNat + size.toNat = L.unprotOff.toNat + L.unprotSize.toNat ∧
    L.canaryOff.toNat + 16 = L.userOff.toNat ∧
    L.unprotOff.toNat ≤ L.canaryOff.toNat ∧
    L.unprotOff.toNat = 2 * pg.toNat ∧
    L.total.toNat = 3 * pg.toNat + L.unprotSize.toNat ∧
    pg.toNat ∣ L.unprotSize.toNat ∧
    16 + size.toNat ≤ L.unprotSize.toNat ∧ L.unprotSize.toNat < 16 + size.toNat + pg.toNat := by
  obtain ⟨k, hk5, hk30, hk⟩ := hpg
  have hb := AllocP.pg_bounds pg k hk5 hk30 hk
  obtain ⟨h1, h2, h3, h4, -, h6, h7, h8⟩ := AllocP.layout_spec_mod pg size k hk5 hk30 hk (by omega)
  exact ⟨h1, h2, h3, h4, AllocP.layout_total_nowrap pg size k hk5 hk30 hk (by omega), h6, h7, h8⟩

/-- whatever `_sodium_malloc` accepts has a mapping size that did not wrap, and the user region
    ends exactly at the trailing guard page -/
theorem accepted_never_wraps (pg size : UInt64) (hpg : PgOk pg) (L : Layout) (calls : List Sys)
    (hm : sodium_malloc pg size = .ok L calls) :
    L.total.toNat = 3 * pg.toNat + L.unprotSize.toNat ∧
    L.userOff.toNat + size.toNat = L.unprotOff.toNat + L.unprotSize.toNat := by
  have hL := (AllocP.malloc_ok_inv pg size L calls hm).1
  have hb : size.toNat < 2 ^ 64 - 1 - 5 * pg.toNat := by
    obtain ⟨k, hk5, hk30, hk⟩ := hpg
    exact AllocP.malloc_ok_bound pg size k hk5 hk30 hk L calls hm
  obtain ⟨h1, -, -, -, h5, -⟩ := layout_spec pg size hpg hb
  rw [hL]; exact ⟨h5, h1⟩

/-- the former guard `size >= SIZE_MAX - page_size * 4U` was insufficient: this size passed it
    although its `total_size` wraps to 0 -/
theorem old_guard_insufficient :
    (layout 4096 0xFFFFFFFFFFFFBFFE).total = 0 ∧
    ¬ (0xFFFFFFFFFFFFBFFE : UInt64) ≥ 0xFFFFFFFFFFFFFFFF - 4096 * 4 := by decide

/-- the base of the mapping is recovered from the user pointer (the `assert` in `_sodium_malloc`
    always holds), for every page-aligned mapping address -/
theorem recover_base (pg size base : UInt64) (hpg : PgOk pg) (h : size.toNat < 2 ^ 64 - 1 - 5 * pg.toNat)
    (hbase : base.toNat % pg.toNat = 0) (hfit : base.toNat + (layout pg size).total.toNat < 2 ^ 64) :
    unprotectedFromUser pg (base + (layout pg size).userOff) = base + (layout pg size).unprotOff := by
  obtain ⟨k, hk5, hk30, hk⟩ := hpg
  have _ := hfit   -- not needed: the identity holds modulo 2^64 for every aligned base
  exact AllocP.recover_base pg size base k hk5 hk30 hk (by omega) hbase

/-- oversized requests fail with ENOMEM, exactly those -/
theorem malloc_enomem_iff (pg size : UInt64) (hpg : PgOk pg) :
    sodium_malloc pg size = .enomem ↔ 2 ^ 64 - 1 - 5 * pg.toNat ≤ size.toNat := by
  obtain ⟨k, hk5, hk30, hk⟩ := hpg
  exact AllocP.malloc_enomem_iff pg size k hk5 hk30 hk

/-- array allocation: overflow of count·size is refused, and an accepted product is exact -/
theorem allocarray_spec (pg count size : UInt64) :
    (2 ^ 64 ≤ count.toNat * size.toNat → sodium_allocarray pg count size = .enomem) ∧
    (sodium_allocarray pg count size ≠ .enomem →
       count.toNat * size.toNat < 2 ^ 64 ∧
       sodium_allocarray pg count size = sodium_malloc pg (UInt64.ofNat (count.toNat * size.toNat))) :=
  ⟨AllocP.allocarray_overflow pg count size, AllocP.allocarray_ok pg count size⟩

/-- Protection state machine, for every history of noaccess / readonly / readwrite requests:
    every page of the user region has the protection of the last request (read-write initially),
    the two guard pages stay inaccessible and the header page read-only. -/
theorem protections (pg size : UInt64) (hpg : PgOk pg) (h : size.toNat < 2 ^ 64 - 1 - 5 * pg.toNat)
    (hsmall : (layout pg size).total.toNat < 2 ^ 62) (L : Layout) (calls : List Sys)
    (hm : sodium_malloc pg size = .ok L calls) (ops : List Op) (i : Nat) (hi : i < L.total.toNat / pg.toNat) :
    (pagesAfter pg L calls ops)[i]? = some
      (if i = 0 then Prot.ro
       else if i = 1 ∨ i = L.total.toNat / pg.toNat - 1 then Prot.none
       else (ops.getLast?.map Op.prot).getD Prot.rw) := by
  obtain ⟨k, hk5, hk30, hk⟩ := hpg
  have _ := hsmall   -- not needed: nothing wraps for an accepted size
  exact AllocP.protections pg size k hk5 hk30 hk (by omega) L calls hm ops i hi

/-- freeing works from any protection state: its first call makes the whole mapping read-write
    (so the canary comparison and the header read cannot fault), then unlocks and unmaps exactly it -/
theorem free_calls (L : Layout) :
    sodium_free_calls L = [.mprotect 0 L.total .rw, .munlock L.unprotOff L.unprotSize, .munmap 0 L.total] :=
  rfl

/-! ### non-vacuity -/

example : PgOk 4096 := ⟨12, by decide, by decide, by decide⟩
example : PgOk 32 := ⟨5, by decide, by decide, by decide⟩

/-- a concrete layout: 100 bytes with 4 KiB pages → 4 pages, canary at 0x2f8c, user data 0x2f9c..0x3000 -/
example : sodium_malloc 4096 100 = .ok ⟨16384, 8192, 4096, 12172, 12188⟩
    [.mmap 16384, .mprotect 4096 4096 .none, .mprotect 12288 4096 .none, .mlock 8192 4096,
     .mprotect 0 4096 .ro] := by decide

/-- two data pages; history noaccess, readwrite, readonly → header ro, guards none, data ro -/
example : pagesAfter 4096 (layout 4096 5000)
    [.mmap 20480, .mprotect 4096 4096 .none, .mprotect 16384 4096 .none, .mlock 8192 8192, .mprotect 0 4096 .ro]
    [.noaccess, .readwrite, .readonly] = [.ro, .none, .ro, .ro, .none] := by decide

example : pagesAfter 4096 (layout 4096 5000)
    [.mmap 20480, .mprotect 4096 4096 .none, .mprotect 16384 4096 .none, .mlock 8192 8192, .mprotect 0 4096 .ro]
    [] = [.ro, .none, .rw, .rw, .none] := by decide

/-- the sizes of the former wrap-around window are now refused -/
example : sodium_malloc 4096 0xFFFFFFFFFFFFBFFE = .enomem := by decide

/-- array overflow is refused, a fitting product is passed on -/
example : sodium_allocarray 4096 0x100000000 0x100000000 = .enomem := by decide
example : sodium_allocarray 4096 10 10 = sodium_malloc 4096 100 := by decide

end Sodium.C17
