import SodiumModel.Proofs.EdSign3Final
/-
  C06 (end to end, part 3) — completeness of the verifier and the exact reading of its final test.
  Property theorems only; lemmas live in `Proofs/EdSign3{Check,Complete,Final}.lean` (namespace `EdSignP`).

  (a) COMPLETENESS.  Under `CurveGroup` + `Faithful` (see `C06Full2`), with B the element represented by the RFC base
      point and the hypothesis [L]B = 0 (a property of the curve; `Spec` does not prove it), every signature produced by
      `_crypto_sign_ed25519_detached` with the key pair of a seed verifies, PROVIDED the decoded −A and R pass
      `ge25519_has_small_order` = 0.  Those two side conditions cannot be dropped: R = [r]B with r = H(…) mod L ≡ 0 is the
      neutral element, which the verifier rejects (probability 2^−252; no concrete input known).
  (b) THE FINAL TEST `ge25519_has_small_order(expected_r − p2_to_p3(Q)) − 1`, Q = [h](−A) + [S]B in projective coordinates:
      * `final_test_exact`: it passes iff  Nx = 0 ∨ Ny = 0 ∨ a SPOILED denominator Z ± d·t1·X·Y vanishes ∨ one of two
        order-8 equations on the spoiled coordinates holds (Nx, Ny: the numerators of x and y of the difference);
        the denominators are spoiled because `ge25519_p2_to_p3` sets T := X·Y without dividing by Z
        (`true_difference`: the RFC subtraction has the same numerators over Z ± d·t1·T);
      * `final_test_group`: group-level reading of the numerators: with Δ a representative of R − (S·B − h·A),
        Nx = 0 ⟺ x(Δ) = 0 and Ny = 0 ⟺ y(Δ) = 0;
      * `accept_implies`: so ACCEPT ⟹ 4·(R − S·B + h·A) = 0 (hence 8·(…) = 0, the cofactored RFC equation) OR one of the
        three anomalies (spoiled denominator = 0, two spoiled order-8 equations), each an explicit disjunct; and
        Nx = 0 ∨ Ny = 0 ⟹ ACCEPT.  The test is therefore neither the cofactorless (Δ = 0) nor the cofactored (8Δ = 0)
        equation of RFC 8032 but "4Δ = 0 up to the anomalies" (cf. `C06.order8_difference_rejected`).
      The extra hypothesis `hid` of `accept_implies` (only the neutral element is represented by (0 : 1 : 1)) is the converse
      direction of `Faithful.inj` at the identity; it holds for the curve group.
-/
open Sodium Sodium.Spec Sodium.Model Sodium.Model.Ge25519 Sodium.Model.Ed25519Full Sodium.EdSignP
open Sodium.Ge25519P (CurveGroup toPoint K dK Sc2)
namespace Sodium.C06Full3

section
variable {G : Type} [AddCommGroup G] (C : CurveGroup G)

/-! ## (a) completeness -/

/-- sign then verify = 0, for every seed, message and both the pure and the prehashed (`ph`) form -/
theorem sign_then_verify (hF : Faithful C) {B : G} (hB : C.Rep Ed25519.basePoint B) (hL : (Ed25519.L : Int) • B = 0)
    (seed m : Bytes) (ph : Bool) (hs : seed.length = 32)
    (hA : ge25519_has_small_order specGe
      (ge25519_frombytes_negate_vartime specGe (Ed25519.publicKey Sha512.hash seed)).2 = 0)
    (hR : ge25519_has_small_order specGe (ge25519_frombytes specGe
      ((_crypto_sign_ed25519_detached m (seed ++ Ed25519.publicKey Sha512.hash seed) ph).take 32)).2 = 0) :
    _crypto_sign_ed25519_verify_detached
      (_crypto_sign_ed25519_detached m (seed ++ Ed25519.publicKey Sha512.hash seed) ph) m
      (Ed25519.publicKey Sha512.hash seed) ph = 0 :=
  complete C hF hB hL seed m ph hs hA hR

/-- the same through the public entry points: key pair from `crypto_sign_ed25519_seed_keypair`, signature from
    `crypto_sign_ed25519_detached`, verdict of `crypto_sign_ed25519_verify_detached` -/
theorem keypair_sign_verify (hF : Faithful C) {B : G} (hB : C.Rep Ed25519.basePoint B) (hL : (Ed25519.L : Int) • B = 0)
    (seed m : Bytes) (hs : seed.length = 32)
    (hA : ge25519_has_small_order specGe
      (ge25519_frombytes_negate_vartime specGe (crypto_sign_ed25519_seed_keypair seed).1).2 = 0)
    (hR : ge25519_has_small_order specGe (ge25519_frombytes specGe
      ((crypto_sign_ed25519_detached m (crypto_sign_ed25519_seed_keypair seed).2).take 32)).2 = 0) :
    crypto_sign_ed25519_verify_detached (crypto_sign_ed25519_detached m (crypto_sign_ed25519_seed_keypair seed).2) m
      (crypto_sign_ed25519_seed_keypair seed).1 = 0 := by
  rw [keypair_eq C hF hB seed hs] at hA hR ⊢
  exact complete C hF hB hL seed m false hs hA hR

/-- the final test passes whenever R = [r]B, A = [a]B and S = r + h·a mod L (the algebraic core of completeness) -/
theorem final_test_passes_on_honest (hF : Faithful C) {B : G} (hB : C.Rep Ed25519.basePoint B)
    (hL : (Ed25519.L : Int) • B = 0) {PA PR : Ed25519.Point} {a r : Nat} (hPA : C.Rep PA (a • B)) (hPR : C.Rep PR (r • B))
    (hb Sb : Bytes) (hh : hb.length = 32) (hkL : le hb < Ed25519.L) (hS : Sb.length = 32)
    (hSv : le Sb = (r + le hb * a) % Ed25519.L) :
    ge25519_has_small_order specGe
      (ge25519_p3_sub specGe (ofPoint (Ed25519.ofAffine (Ed25519.toAffine PR).1 (Ed25519.toAffine PR).2))
        (ge25519_p2_to_p3 specGe (ge25519_double_scalarmult_vartime specGe hb
          (ofPoint (Ed25519.neg (Ed25519.ofAffine (Ed25519.toAffine PA).1 (Ed25519.toAffine PA).2))) Sb))) = 1 :=
  final_pass C hF hB hL hPA hPR hb Sb hh hkL hS hSv

/-! ## (b) the final test -/

/-- the coordinates the code computes: check = (4·Nx·Dp, 4·Ny·Dm, 4·Dm·Dp) -/
theorem check_coordinates (x1 y1 t1 : Nat) (Q : P2 Nat) :
    (((ge25519_p3_sub specGe ⟨x1, y1, 1, t1⟩ (ge25519_p2_to_p3 specGe Q)).X : Nat) : K) =
      4 * ((x1 : K) * Q.Y - y1 * Q.X) * (Q.Z + dK * t1 * Q.X * Q.Y) ∧
    (((ge25519_p3_sub specGe ⟨x1, y1, 1, t1⟩ (ge25519_p2_to_p3 specGe Q)).Y : Nat) : K) =
      4 * ((y1 : K) * Q.Y - x1 * Q.X) * (Q.Z - dK * t1 * Q.X * Q.Y) ∧
    (((ge25519_p3_sub specGe ⟨x1, y1, 1, t1⟩ (ge25519_p2_to_p3 specGe Q)).Z : Nat) : K) =
      4 * ((Q.Z : K) - dK * t1 * Q.X * Q.Y) * (Q.Z + dK * t1 * Q.X * Q.Y) := check_coords x1 y1 t1 Q

/-- the RFC subtraction of a consistent extended point: same numerators, denominators Z ± d·t1·T -/
theorem true_difference (x1 y1 t1 : Nat) (Q : Ed25519.Point) :
    (((Ed25519.sub ⟨x1, y1, 1, t1⟩ Q).X : Nat) : K) = 4 * ((x1 : K) * Q.Y - y1 * Q.X) * (Q.Z + dK * t1 * Q.T) ∧
    (((Ed25519.sub ⟨x1, y1, 1, t1⟩ Q).Y : Nat) : K) = 4 * ((y1 : K) * Q.Y - x1 * Q.X) * (Q.Z - dK * t1 * Q.T) ∧
    (((Ed25519.sub ⟨x1, y1, 1, t1⟩ Q).Z : Nat) : K) = 4 * ((Q.Z : K) + dK * t1 * Q.T) * (Q.Z - dK * t1 * Q.T) :=
  true_difference_coords x1 y1 t1 Q

/-- `ge25519_has_small_order` in the field (0⁻¹ = 0; the last disjunct uses the projective X: the quirk of the C code) -/
theorem has_small_order_field (q : P3 Nat) :
    ge25519_has_small_order specGe q = 1 ↔
      ((q.X : K) * (q.Z : K)⁻¹ = 0 ∨ (q.Y : K) * (q.Z : K)⁻¹ = 0 ∨
       (q.Y : K) * (q.Z : K)⁻¹ * (F25519.sqrtM1 : K) = (q.X : K) * (q.Z : K)⁻¹ ∨
       (q.Y : K) * (q.Z : K)⁻¹ * (F25519.sqrtM1 : K) = -(q.X : K)) := hso_iff q

/-- the final test, exactly as computed, for EVERY expected_r = (x1, y1, 1, t1) and projective Q -/
theorem final_test_exact (x1 y1 t1 : Nat) (Q : P2 Nat) :
    ge25519_has_small_order specGe (ge25519_p3_sub specGe ⟨x1, y1, 1, t1⟩ (ge25519_p2_to_p3 specGe Q)) = 1 ↔
      (((Q.Z : K) - dK * t1 * Q.X * Q.Y) * (Q.Z + dK * t1 * Q.X * Q.Y) = 0 ∨
       (x1 : K) * Q.Y - y1 * Q.X = 0 ∨ (y1 : K) * Q.Y - x1 * Q.X = 0 ∨
       ((y1 : K) * Q.Y - x1 * Q.X) * (F25519.sqrtM1 : K) * (Q.Z - dK * t1 * Q.X * Q.Y) =
          ((x1 : K) * Q.Y - y1 * Q.X) * (Q.Z + dK * t1 * Q.X * Q.Y) ∨
       ((y1 : K) * Q.Y - x1 * Q.X) * (F25519.sqrtM1 : K) =
          -(4 * ((x1 : K) * Q.Y - y1 * Q.X) * (Q.Z + dK * t1 * Q.X * Q.Y)) * (Q.Z + dK * t1 * Q.X * Q.Y)) :=
  final_test_iff x1 y1 t1 Q

/-- group-level reading of the numerators -/
theorem final_test_group (hF : Faithful C) {gR gQ : G} {xr yr : Nat}
    (hR : C.Rep (Ed25519.ofAffine xr yr) gR) {P : Ed25519.Point} {l : K} (hl : IsUnit l) (hP : C.Rep P gQ)
    {Q : P2 Nat} (hsc : Sc2 l P Q) :
    C.Rep (Ed25519.sub (Ed25519.ofAffine xr yr) P) (gR - gQ) ∧
    ((xr : K) * Q.Y - yr * Q.X = 0 ↔ (((Ed25519.sub (Ed25519.ofAffine xr yr) P).X : Nat) : K) = 0) ∧
    ((yr : K) * Q.Y - xr * Q.X = 0 ↔ (((Ed25519.sub (Ed25519.ofAffine xr yr) P).Y : Nat) : K) = 0) :=
  numerators_group C hF hR hl hP hsc

/-- ACCEPT ⟹ 4·(R − Q) = 0 in the group, or one of the three anomalies; and a vanishing numerator ⟹ ACCEPT -/
theorem accept_implies (hF : Faithful C)
    (hid : ∀ {P : Ed25519.Point} {g : G}, C.Rep P g → Ed25519.pointEq P Ed25519.identity = true → g = 0)
    {gR gQ : G} {xr yr : Nat} (hx : xr < F25519.p) (hy : yr < F25519.p)
    (hR : C.Rep (Ed25519.ofAffine xr yr) gR) {P : Ed25519.Point} {l : K} (hl : IsUnit l) (hP : C.Rep P gQ)
    {Q : P2 Nat} (hsc : Sc2 l P Q) :
    (ge25519_has_small_order specGe
        (ge25519_p3_sub specGe (ofPoint (Ed25519.ofAffine xr yr)) (ge25519_p2_to_p3 specGe Q)) = 1 →
      ((gR - gQ) + (gR - gQ)) + ((gR - gQ) + (gR - gQ)) = 0 ∨
      ((Q.Z : K) - dK * (F25519.mul xr yr : Nat) * Q.X * Q.Y) * (Q.Z + dK * (F25519.mul xr yr : Nat) * Q.X * Q.Y) = 0 ∨
      ((yr : K) * Q.Y - xr * Q.X) * (F25519.sqrtM1 : K) * (Q.Z - dK * (F25519.mul xr yr : Nat) * Q.X * Q.Y) =
          ((xr : K) * Q.Y - yr * Q.X) * (Q.Z + dK * (F25519.mul xr yr : Nat) * Q.X * Q.Y) ∨
      ((yr : K) * Q.Y - xr * Q.X) * (F25519.sqrtM1 : K) =
          -(4 * ((xr : K) * Q.Y - yr * Q.X) * (Q.Z + dK * (F25519.mul xr yr : Nat) * Q.X * Q.Y)) *
            (Q.Z + dK * (F25519.mul xr yr : Nat) * Q.X * Q.Y)) ∧
    (((xr : K) * Q.Y - yr * Q.X = 0 ∨ (yr : K) * Q.Y - xr * Q.X = 0) →
      ge25519_has_small_order specGe
        (ge25519_p3_sub specGe (ofPoint (Ed25519.ofAffine xr yr)) (ge25519_p2_to_p3 specGe Q)) = 1) := by
  obtain ⟨hsub, nx, ny⟩ := numerators_group C hF hR hl hP hsc
  rw [ofPoint_ofAffine hx hy, final_test_iff]
  constructor
  · rintro (h | h | h | h | h)
    · right; left; exact h
    · left; exact torsion4 C hF hid hsub (Or.inl (nx.1 h))
    · left; exact torsion4 C hF hid hsub (Or.inr (ny.1 h))
    · right; right; left; exact h
    · right; right; right; exact h
  · rintro (h | h)
    · right; left; exact h
    · right; right; left; exact h

end

end Sodium.C06Full3
