import SodiumModel.Proofs.X86Scalar
/-
  C05 / C10 — the hand-written x86-64 assembly of the sandy2x X25519 backend, `fe51_pack.S`: theorems about the
  instruction lists that `tools_new/asm2lean.py` REGENERATES from the `.S` text (`Generated/Sandy2xAsm.lean`), executed by
  the interpreter of `Model/X86Scalar.lean`.  Proved by symbolic execution of the instruction list (not by evaluation on
  sample inputs), so a change of the `.S` text that alters the data flow makes them fail to re-check
  (`tools_new/c05_asm_tieb.py`).

  DONE here (every input state, every limb vector within the stated bound):
    * `pack_loop_exact`: the reduce loop of fe51_pack.S, entered as the prologue leaves it (rax = REDMASK51, r11 = 3),
      terminates after exactly three passes; the limb registers (rdx rcx r8 r9 rsi) then hold three applications of the
      carry pass `packRound` (0→1→2→3→4→19·carry→0), memory / rsp / rdi / rax / r10 / rbx rbp r13 r14 r15 / `ok` untouched;
    * `pack_loop_carried`: for limbs below 2^63 (the caller passes the output of fe51_mul: limbs < 2^52) the three passes
      wrap nowhere, leave every limb below 2^51 and change the value by a multiple of p = 2^255 - 19.
  NOT done (see the report): the prologue loads, the conditional subtraction of p, the 32 byte stores and the restore of
  r12 / rsp; fe51_mul; fe51_nsquare.  These are covered by Tie A only (driver cross-run on every X25519 operation).
-/
open Sodium Sodium.Model Sodium.Model.X86Scalar Sodium.Model.Fe51 Sodium.Fe51P Sodium.X86ScalarP Sodium.Spec
open Generated.Sandy2xAsm
namespace Sodium.C05Asm

/-- the generated `fe51_pack` is prologue, the do-while loop closed by `ja`, the rest -/
theorem pack_shape : fe51_pack = [.straight fe51_pack_b0, .doWhile fe51_pack_b1 .a, .straight fe51_pack_b2] := rfl

/-- **the reduce loop of fe51_pack.S is exactly three carry passes** (any fuel ≥ 3, any state with rax = REDMASK51 and
    r11 = 3): it terminates, the limb registers hold `packRound³`, and nothing else that matters is modified -/
theorem pack_loop_exact (n : Nat) (s : State) (h : s.rax = 0x7FFFFFFFFFFFF) (hk : s.r11 = 3) :
    ∃ s', runBlock (n + 3) (.doWhile fe51_pack_b1 .a) s = some s' ∧
      limbs s' = packRound (packRound (packRound (limbs s))) ∧ Same s s' ∧ s'.r11 = 0 :=
  pack_loop n s h hk

/-- **no wrap-around, full carry, value preserved mod p** for every limb vector below 2^63 -/
theorem pack_loop_carried (f : Fe) (hf : Bounded (2 ^ 63) f) :
    Bounded (2 ^ 51) (packRound (packRound (packRound f))) ∧
    val (packRound (packRound (packRound f))) % F25519.p = val f % F25519.p ∧
    val (packRound (packRound (packRound f))) < 2 ^ 255 := by
  obtain ⟨a0, a1, a2, a3, a4, c1, e1⟩ := round_first f hf
  obtain ⟨⟨b0, b1, b2, b3, b4⟩, c2, e2⟩ := round_next _ a0 a1 a2 a3 a4
  obtain ⟨hb, c3, e3⟩ := round_next _ (by omega) b1 b2 b3 b4
  refine ⟨hb, ?_, ?_⟩
  · rw [p_eq, ← e1, ← e2, ← e3, Nat.add_assoc, Nat.add_assoc, ← Nat.add_mul, ← Nat.add_mul, Nat.add_mul_mod_self_right]
  · obtain ⟨d0, d1, d2, d3, d4⟩ := hb
    simp only [val]; omega

/-- the two together, on the machine state -/
theorem pack_loop_spec (n : Nat) (s : State) (h : s.rax = 0x7FFFFFFFFFFFF) (hk : s.r11 = 3)
    (hf : Bounded (2 ^ 63) (limbs s)) :
    ∃ s', runBlock (n + 3) (.doWhile fe51_pack_b1 .a) s = some s' ∧ Bounded (2 ^ 51) (limbs s') ∧
      val (limbs s') % F25519.p = val (limbs s) % F25519.p ∧ val (limbs s') < 2 ^ 255 ∧ Same s s' ∧ s'.r11 = 0 := by
  obtain ⟨s', r, l, m, k⟩ := pack_loop_exact n s h hk
  obtain ⟨c1, c2, c3⟩ := pack_loop_carried _ hf
  exact ⟨s', r, by rw [l]; exact c1, by rw [l]; exact c2, by rw [l]; exact c3, m, k⟩

/-- the bound is satisfiable and the pass is not the identity: 2^51 in limb 0 carries into limb 1 -/
example : Bounded (2 ^ 63) ⟨0x8000000000000, 0, 0, 0, 0⟩ ∧ packRound ⟨0x8000000000000, 0, 0, 0, 0⟩ = ⟨0, 1, 0, 0, 0⟩ := by
  refine ⟨by unfold Bounded; decide, by decide⟩

/-- p itself (limbs 2^51-19, 2^51-1, …) is left alone by the passes: the conditional subtraction is needed -/
example : packRound ⟨0x7FFFFFFFFFFED, 0x7FFFFFFFFFFFF, 0x7FFFFFFFFFFFF, 0x7FFFFFFFFFFFF, 0x7FFFFFFFFFFFF⟩ =
    ⟨0x7FFFFFFFFFFED, 0x7FFFFFFFFFFFF, 0x7FFFFFFFFFFFF, 0x7FFFFFFFFFFFF, 0x7FFFFFFFFFFFF⟩ := by decide

end Sodium.C05Asm
