import SodiumModel.Proofs.Scalar
/-
  C07 — Edwards25519 / Ristretto255 scalars, validity predicates, scalarmult return codes and
  hash-to-group expansion: what the glue code of core_ed25519.c, core_h2c.c and
  scalarmult_ed25519_ref10.c (modelled in `Model/Scalar.lean`) computes, for ALL inputs.

  The limb arithmetic (`sc25519_reduce`, `sc25519_mul`, `sc25519_invert`), the group primitives
  (`ge25519_*`) and the hash functions are parameters; their specifications are explicit hypotheses
  (each one is satisfied by the executable specification, see the `example`s).
  Property theorems only; helper lemmas live in `Proofs/Scalar.lean`.

  DEVIATIONS of the C code from the public specification, stated as theorems below:
   * `scalar_add_deviation` / `scalar_sub_deviation`: for NON-reduced operands `scalar_add` is
     ((x + y) mod 2^256) mod L, not (x + y) mod L  (the 32-byte `sodium_add` drops the carry).
   * `xmd_oversize_deviation`: for contexts longer than 255 bytes b_1 … b_ell are computed with
     DST' = b_0 ‖ I2OSP(HASH_BYTES, 1)  (the buffer `u0` that `ctx` points to has been overwritten
     by b_0) instead of H("H2C-OVERSIZE-DST-" ‖ ctx) ‖ I2OSP(HASH_BYTES, 1) as RFC 9380 §5.3.3 requires.
-/
open Sodium Sodium.Model Sodium.Model.Scalar
open Sodium.Spec.Scalar (L)
namespace Sodium.C07

/-! ### scalar arithmetic modulo L -/

/-- `crypto_core_ed25519_scalar_reduce` : the 64-byte little-endian integer modulo L -/
theorem scalar_reduce_eq (reduce : Bytes → Bytes)
    (hReduce : ∀ b : Bytes, b.length = 64 → reduce b = toLE 32 (le b % L))
    (s : Bytes) (hs : s.length = 64) :
    scalar_reduce reduce s = toLE 32 (le s % L) :=
  ScalarP.scalar_reduce_eq hReduce s hs

/-- `crypto_core_ed25519_scalar_negate` : −s mod L for EVERY 32-byte string s (reduced or not) -/
theorem scalar_negate_eq (reduce : Bytes → Bytes)
    (hReduce : ∀ b : Bytes, b.length = 64 → reduce b = toLE 32 (le b % L))
    (s : Bytes) (hs : s.length = 32) :
    scalar_negate reduce s = toLE 32 ((L - le s % L) % L) :=
  ScalarP.scalar_negate_le hReduce s hs

/-- `crypto_core_ed25519_scalar_complement` : 1 − s mod L for EVERY 32-byte string s -/
theorem scalar_complement_eq (reduce : Bytes → Bytes)
    (hReduce : ∀ b : Bytes, b.length = 64 → reduce b = toLE 32 (le b % L))
    (s : Bytes) (hs : s.length = 32) :
    scalar_complement reduce s = toLE 32 ((1 + L - le s % L) % L) :=
  ScalarP.scalar_complement_le hReduce s hs

/-- `crypto_core_ed25519_scalar_add`, exact behaviour for ALL 32-byte operands: the operands are
    added as 256-bit integers (carry out of bit 255 dropped), then reduced -/
theorem scalar_add_general (reduce : Bytes → Bytes)
    (hReduce : ∀ b : Bytes, b.length = 64 → reduce b = toLE 32 (le b % L))
    (x y : Bytes) (hx : x.length = 32) (hy : y.length = 32) :
    scalar_add reduce x y = toLE 32 (((le x + le y) % 2 ^ 256) % L) :=
  ScalarP.scalar_add_le hReduce x y hx hy

/-- `crypto_core_ed25519_scalar_add` : x + y mod L for reduced operands -/
theorem scalar_add_eq (reduce : Bytes → Bytes)
    (hReduce : ∀ b : Bytes, b.length = 64 → reduce b = toLE 32 (le b % L))
    (x y : Bytes) (hx : x.length = 32) (hy : y.length = 32) (hxL : le x < L) (hyL : le y < L) :
    scalar_add reduce x y = toLE 32 ((le x + le y) % L) := by
  rw [scalar_add_general reduce hReduce x y hx hy, ScalarP.add_reduced _ _ hxL hyL]

/-- `crypto_core_ed25519_scalar_sub`, exact behaviour for ALL 32-byte operands:
    `scalar_add(x, scalar_negate(y))` -/
theorem scalar_sub_general (reduce : Bytes → Bytes)
    (hReduce : ∀ b : Bytes, b.length = 64 → reduce b = toLE 32 (le b % L))
    (x y : Bytes) (hx : x.length = 32) (hy : y.length = 32) :
    scalar_sub reduce x y = toLE 32 (((le x + (L - le y % L) % L) % 2 ^ 256) % L) :=
  ScalarP.scalar_sub_le hReduce x y hx hy

/-- `crypto_core_ed25519_scalar_sub` : x − y mod L for reduced operands
    (as a natural number: (x + (L − y)) mod L; as an integer: (x − y) mod L) -/
theorem scalar_sub_eq (reduce : Bytes → Bytes)
    (hReduce : ∀ b : Bytes, b.length = 64 → reduce b = toLE 32 (le b % L))
    (x y : Bytes) (hx : x.length = 32) (hy : y.length = 32) (hxL : le x < L) (hyL : le y < L) :
    scalar_sub reduce x y = toLE 32 ((le x + (L - le y)) % L) ∧
    (((le x + (L - le y)) % L : Nat) : Int) = ((le x : Int) - (le y : Int)) % (L : Int) := by
  refine ⟨?_, ScalarP.sub_reduced_int _ _ hyL⟩
  rw [scalar_sub_general reduce hReduce x y hx hy, ScalarP.sub_reduced _ _ hxL hyL]

/-- `crypto_core_ed25519_scalar_mul` is `sc25519_mul` (no reduction assumption on the operands) -/
theorem scalar_mul_eq (mul : Bytes → Bytes → Bytes)
    (hMul : ∀ x y : Bytes, x.length = 32 → y.length = 32 → mul x y = toLE 32 (le x * le y % L))
    (x y : Bytes) (hx : x.length = 32) (hy : y.length = 32) :
    scalar_mul mul x y = toLE 32 (le x * le y % L) := hMul x y hx hy

/-- `crypto_core_ed25519_scalar_invert` returns -1 iff the 32 input BYTES are all zero (in
    particular 0 is returned for the non-zero multiples of L, whose inverse does not exist);
    the output buffer is `sc25519_invert(s)` in every case -/
theorem scalar_invert_rc (invert : Bytes → Bytes) (s : Bytes) (hs : s.length = 32) :
    (scalar_invert invert s).1 = (if s = zeros 32 then -1 else 0) ∧
    (scalar_invert invert s).2 = invert s :=
  ⟨ScalarP.scalar_invert_rc_eq invert s hs, rfl⟩

/-- `sc25519_is_canonical` (= `crypto_core_ed25519_scalar_is_canonical`) returns 1 iff s < L, else 0 -/
theorem sc_is_canonical_iff (s : Bytes) (hs : s.length = 32) :
    sc25519_is_canonical s = if le s < L then 1 else 0 :=
  ScalarP.is_canonical_eq s hs

/-! #### deviation: non-reduced operands of add / sub -/

/-- x = y = 2^255 : the code returns 0, but (x + y) mod L = 2^256 mod L ≠ 0 -/
theorem scalar_add_deviation :
    ∃ x y : Bytes, x.length = 32 ∧ y.length = 32 ∧
      scalar_add Spec.Scalar.reduce64 x y = toLE 32 0 ∧
      toLE 32 ((le x + le y) % L) ≠ toLE 32 0 :=
  ⟨zeros 31 ++ [0x80], zeros 31 ++ [0x80], by decide +kernel⟩

/-- x = 2^256 − 1, y = 1 : x + (L − 1) wraps around 2^256, so the result is not (x − y) mod L -/
theorem scalar_sub_deviation :
    ∃ x y : Bytes, x.length = 32 ∧ y.length = 32 ∧
      scalar_sub Spec.Scalar.reduce64 x y ≠ toLE 32 ((le x + (L - le y % L)) % L) :=
  ⟨List.replicate 32 0xff, 1 :: zeros 31, by decide +kernel⟩

/-! #### the hypotheses are satisfiable: the executable specification satisfies them, and the
    instantiated model coincides with `Spec/Scalar25519.lean` -/

theorem reduce64_spec : ∀ b : Bytes, b.length = 64 → Spec.Scalar.reduce64 b = toLE 32 (le b % L) := by
  intro b hb
  simp [Spec.Scalar.reduce64, Spec.Scalar.encode, List.take_of_length_le, hb]

example : ∃ reduce : Bytes → Bytes, ∀ b : Bytes, b.length = 64 → reduce b = toLE 32 (le b % L) :=
  ⟨_, reduce64_spec⟩

example : ∃ mul : Bytes → Bytes → Bytes,
    ∀ x y : Bytes, x.length = 32 → y.length = 32 → mul x y = toLE 32 (le x * le y % L) :=
  ⟨Spec.Scalar.mul, fun x y hx hy => by
    simp [Spec.Scalar.mul, Spec.Scalar.encode, List.take_of_length_le, hx, hy]⟩

theorem negate_eq_spec (s : Bytes) (hs : s.length = 32) :
    scalar_negate Spec.Scalar.reduce64 s = Spec.Scalar.negate s := by
  rw [scalar_negate_eq _ reduce64_spec s hs]
  simp [Spec.Scalar.negate, Spec.Scalar.encode, List.take_of_length_le, hs]

theorem complement_eq_spec (s : Bytes) (hs : s.length = 32) :
    scalar_complement Spec.Scalar.reduce64 s = Spec.Scalar.complement s := by
  rw [scalar_complement_eq _ reduce64_spec s hs]
  have : s.take 32 = s := List.take_of_length_le (by omega)
  have hlt : le s % L < L := Nat.mod_lt _ (by rw [ScalarP.L_val]; omega)
  simp only [Spec.Scalar.complement, Spec.Scalar.encode, this]
  congr 2; omega

theorem add_eq_spec (x y : Bytes) (hx : x.length = 32) (hy : y.length = 32) :
    scalar_add Spec.Scalar.reduce64 x y = Spec.Scalar.addWrap x y := by
  rw [scalar_add_general _ reduce64_spec x y hx hy]
  simp [Spec.Scalar.addWrap, Spec.Scalar.encode, List.take_of_length_le, hx, hy]

theorem sub_eq_spec (x y : Bytes) (hx : x.length = 32) (hy : y.length = 32) :
    scalar_sub Spec.Scalar.reduce64 x y = Spec.Scalar.subWrap x y := by
  rw [Spec.Scalar.subWrap, ← negate_eq_spec y hy, ← add_eq_spec x _ hx]
  · rfl
  · rw [scalar_negate_eq _ reduce64_spec y hy]; exact toLE_length _ _

example : scalar_invert Spec.Scalar.invert (zeros 32) = (-1, zeros 32) := by decide +kernel

/-! ### validity predicate and scalar multiplication return codes -/

/-- `crypto_core_ed25519_is_valid_point` returns 1 exactly when all five tests pass
    (canonical encoding, decodes, on the curve, not of small order, in the main subgroup), else 0 -/
theorem valid_point_decision {P3 : Type} (G : GePrims P3) (p : Bytes) :
    is_valid_point G p =
      if G.is_canonical p ≠ 0 ∧ (G.frombytes p).1 = 0 ∧ G.is_on_curve (G.frombytes p).2 ≠ 0 ∧
         G.has_small_order (G.frombytes p).2 = 0 ∧ G.is_on_main_subgroup (G.frombytes p).2 ≠ 0
      then 1 else 0 :=
  ScalarP.is_valid_point_eq G p

/-- `_crypto_scalarmult_ed25519_is_inf` recognises exactly the encodings of the neutral element
    (y = 1, x = 0, either sign bit) -/
theorem is_inf_iff (q : Bytes) (hq : q.length = 32) :
    is_inf q = if le q % 2 ^ 255 = 1 then 1 else 0 :=
  ScalarP.is_inf_eq q hq

/-- the scalar handed to `ge25519_scalarmult*`: clamped (RFC 7748/8032 pruning) resp. only bit 255 cleared -/
theorem scalar_bytes_value (n : Bytes) (hn : n.length = 32) :
    le (scalar_bytes n 1) = Spec.Ed25519.clamp n ∧ le (scalar_bytes n 0) = le n % 2 ^ 255 :=
  ⟨ScalarP.scalar_bytes_clamp_le n hn, ScalarP.scalar_bytes_noclamp_le n hn⟩

/--
  `crypto_scalarmult_ed25519` / `_noclamp` (clamp flag `cl`): the point is rejected (-1, output
  untouched) unless it is canonical, decodes, is not of small order and lies in the main subgroup;
  otherwise q = tobytes([t]P) is written and the return code is 0 iff q is not the neutral element
  AND the scalar bytes n are not all zero; -1 otherwise ("identity results are errors").
-/
theorem scalarmult_rc_decision {P3 : Type} (G : GePrims P3) (q0 n p : Bytes) (cl : Int32)
    (hG : ∀ P, (G.p3_tobytes P).length = 32) (hn : n.length = 32) :
    scalarmult_generic G q0 n p cl =
      if ScalarP.PointOk G p then
        let q := G.p3_tobytes (G.scalarmult (scalar_bytes n cl) (G.frombytes p).2)
        (if le q % 2 ^ 255 ≠ 1 ∧ n ≠ zeros 32 then 0 else -1, q)
      else (-1, q0) :=
  ScalarP.scalarmult_generic_eq G q0 n p cl hG hn

/-- `crypto_scalarmult_ed25519_base` / `_base_noclamp` -/
theorem scalarmult_base_rc_decision {P3 : Type} (G : GePrims P3) (n : Bytes) (cl : Int32)
    (hG : ∀ P, (G.p3_tobytes P).length = 32) (hn : n.length = 32) :
    scalarmult_base_generic G n cl =
      let q := G.p3_tobytes (G.scalarmult_base (scalar_bytes n cl))
      (if le q % 2 ^ 255 ≠ 1 ∧ n ≠ zeros 32 then 0 else -1, q) :=
  ScalarP.scalarmult_base_generic_eq G n cl hG hn

/-! ### expand_message_xmd (core_h2c.c) -/

/--
  For contexts of at most 255 bytes `core_h2c_string_to_hash_*` IS expand_message_xmd of RFC 9380
  §5.3.1, for every message, every context, every output length ≤ 255 (the C code asserts this;
  the callers use 48, 64 and 96), every initial content `h0` of the output buffer, and every hash
  function `H` with digest size `HB > 0` and block size `HBLK`.
-/
theorem xmd_eq_rfc (H : Bytes → Bytes) (HB HBLK : Nat) (hH : ∀ x, (H x).length = HB) (hHB : 0 < HB)
    (h0 : Bytes) (hLen : Nat) (hh0 : h0.length = hLen) (hL : hLen ≤ 255)
    (ctx msg : Bytes) (hctx : ctx.length ≤ 255) :
    string_to_hash H HB HBLK h0 hLen ctx msg = Spec.H2c.expandMessageXmd H HB HBLK msg ctx hLen := by
  rw [ScalarP.string_to_hash_eq H HB HBLK hH hHB h0 hLen hh0 hL ctx msg,
    ScalarP.libsodium_eq_rfc_of_short H HB HBLK msg ctx hLen hctx]

/-- for EVERY context length the code computes `Spec.H2c.expandMessageXmdLibsodium` -/
theorem xmd_eq_libsodium (H : Bytes → Bytes) (HB HBLK : Nat) (hH : ∀ x, (H x).length = HB) (hHB : 0 < HB)
    (h0 : Bytes) (hLen : Nat) (hh0 : h0.length = hLen) (hL : hLen ≤ 255) (ctx msg : Bytes) :
    string_to_hash H HB HBLK h0 hLen ctx msg =
      Spec.H2c.expandMessageXmdLibsodium H HB HBLK msg ctx hLen :=
  ScalarP.string_to_hash_eq H HB HBLK hH hHB h0 hLen hh0 hL ctx msg

/-- a toy 2-byte hash (digest size 2, block size 4) used for the kernel-checked counterexample -/
def toyHash (x : Bytes) : Bytes :=
  toLE 2 (x.foldl (fun (a : Nat) b => (a * 31 + b.toNat + 7) % 65521) 1)

theorem toyHash_length (x : Bytes) : (toyHash x).length = 2 := toLE_length _ _

/--
  DEVIATION from RFC 9380 §5.3.3 for contexts longer than 255 bytes.
  (1) What the code computes: `expandMessageXmdLibsodium` — msg_prime / b_0 use the correct
      DST' = H("H2C-OVERSIZE-DST-" ‖ ctx) ‖ I2OSP(HB, 1), but `ctx` points into `u0`, which is then
      overwritten by b_0, so b_1 … b_ell are computed with DST' = b_0 ‖ I2OSP(HB, 1).
  (2) This is NOT expand_message_xmd: already for a 256-byte context there are a hash function,
      a message and an output length on which the two differ.
  (With the real SHA-256, ctx = 256 × 'a', msg = "", 32 output bytes: the code yields fac300a7…e560da,
   RFC 9380 yields 6b7a9e3c…5fc8d3 — evaluated with `#eval` and cross-checked with hashlib; the
   kernel needs ≈ 90 s for that instance, hence the toy hash here.)
-/
theorem xmd_oversize_deviation :
    (∀ (H : Bytes → Bytes) (HB HBLK : Nat), (∀ x, (H x).length = HB) → 0 < HB →
      ∀ (h0 : Bytes) (hLen : Nat), h0.length = hLen → hLen ≤ 255 →
      ∀ (ctx msg : Bytes), ctx.length > 255 →
        string_to_hash H HB HBLK h0 hLen ctx msg =
          Spec.H2c.expandMessageXmdLibsodium H HB HBLK msg ctx hLen) ∧
    (∃ (H : Bytes → Bytes) (HB HBLK : Nat) (ctx msg : Bytes) (hLen : Nat),
      (∀ x, (H x).length = HB) ∧ 0 < HB ∧ hLen ≤ 255 ∧ ctx.length = 256 ∧
      string_to_hash H HB HBLK (zeros hLen) hLen ctx msg ≠
        Spec.H2c.expandMessageXmd H HB HBLK msg ctx hLen) :=
  ⟨fun H HB HBLK hH hHB h0 hLen hh0 hL ctx msg _ =>
      ScalarP.string_to_hash_eq H HB HBLK hH hHB h0 hLen hh0 hL ctx msg,
   toyHash, 2, 4, List.replicate 256 0x61, [1, 2, 3], 5, toyHash_length,
   by decide +kernel⟩

/-- the same instance, spelled out: code output vs RFC output -/
example :
    string_to_hash toyHash 2 4 (zeros 5) 5 (List.replicate 256 0x61) [1, 2, 3] = [25, 222, 75, 223, 24] ∧
    Spec.H2c.expandMessageXmd toyHash 2 4 [1, 2, 3] (List.replicate 256 0x61) 5 = [59, 230, 144, 192, 250] := by
  decide +kernel

/-- … while for a 255-byte context they agree (instance of `xmd_eq_rfc`) -/
example :
    string_to_hash toyHash 2 4 (zeros 5) 5 (List.replicate 255 0x61) [1, 2, 3] =
    Spec.H2c.expandMessageXmd toyHash 2 4 [1, 2, 3] (List.replicate 255 0x61) 5 :=
  xmd_eq_rfc toyHash 2 4 toyHash_length (by decide) _ 5 (by decide +kernel) (by decide) _ _ (by decide +kernel)

/-! ### hash-to-group entry points: `_string_to_points` (core_ed25519.c), `_string_to_element` (core_ristretto255.c) -/

section H2G
open Sodium.Spec

/-- `crypto_core_ed25519_from_string` (NU): with `ge25519_from_hash` as specified, the glue code
    (XMD to 48 bytes, byte reversal into a zero-padded 64-byte little-endian buffer) is
    `Spec.H2c.fromStringSha512 / Sha256` for every context and message -/
theorem from_string_eq_spec (sha256 sha512 : Bytes → Bytes)
    (h256 : ∀ x, (sha256 x).length = 32) (h512 : ∀ x, (sha512 x).length = 64) (ctx msg : Bytes) :
    from_string sha256 sha512 H2c.fromHash64 ctx msg CORE_H2C_SHA512 = (0, H2c.fromStringSha512 sha512 ctx msg) ∧
    from_string sha256 sha512 H2c.fromHash64 ctx msg CORE_H2C_SHA256 = (0, H2c.fromStringSha256 sha256 ctx msg) := by
  constructor
  · simp only [from_string, string_to_points, ScalarP.dispatch512, bne_self_eq_false, Bool.false_eq_true, if_false]
    rw [ScalarP.points_one sha512 64 128 h512, ScalarP.from_string_with sha512 64 128 h512 (by omega)]; rfl
  · simp only [from_string, string_to_points, ScalarP.dispatch256, bne_self_eq_false, Bool.false_eq_true, if_false]
    rw [ScalarP.points_one sha256 32 64 h256, ScalarP.from_string_with sha256 32 64 h256 (by omega)]; rfl

/-- … hence, for contexts of at most 255 bytes, RFC 9380 `encode_to_curve`
    (edwards25519_XMD:SHA-512_ELL2_NU_ for SHA-512) -/
theorem from_string_eq_rfc (sha256 sha512 : Bytes → Bytes)
    (h256 : ∀ x, (sha256 x).length = 32) (h512 : ∀ x, (sha512 x).length = 64) (ctx msg : Bytes)
    (hctx : ctx.length ≤ 255) :
    from_string sha256 sha512 H2c.fromHash64 ctx msg CORE_H2C_SHA512 = (0, H2c.encodeToCurve sha512 64 128 msg ctx) ∧
    from_string sha256 sha512 H2c.fromHash64 ctx msg CORE_H2C_SHA256 = (0, H2c.encodeToCurve sha256 32 64 msg ctx) := by
  have h := from_string_eq_spec sha256 sha512 h256 h512 ctx msg
  rw [h.1, h.2]
  simp [H2c.fromStringSha512, H2c.fromStringSha256, H2c.encodeToCurve, H2c.encodeToCurveWith, H2c.hashToField,
    ScalarP.libsodium_eq_rfc_of_short _ _ _ _ _ _ hctx]

/-- an unknown `hash_alg` is rejected with -1 by every entry point -/
theorem from_string_bad_alg (sha256 sha512 from_hash : Bytes → Bytes) (core_add : Bytes → Bytes → Option Bytes)
    (ctx msg : Bytes) (alg : Int32) (h1 : alg ≠ CORE_H2C_SHA256) (h2 : alg ≠ CORE_H2C_SHA512) :
    (from_string sha256 sha512 from_hash ctx msg alg).1 = -1 ∧
    (from_string_ro sha256 sha512 from_hash core_add ctx msg alg).1 = -1 ∧
    (ristretto_from_string sha256 sha512 from_hash ctx msg alg).1 = -1 := by
  simp [from_string, from_string_ro, ristretto_from_string, string_to_points, ScalarP.dispatch_bad _ _ _ _ _ _ _ h1 h2]

/-- `crypto_core_ristretto255_from_string[_ro]` : 64 bytes of XMD output through `ristretto255_from_hash` -/
theorem ristretto_from_string_eq_spec (sha256 sha512 : Bytes → Bytes)
    (h256 : ∀ x, (sha256 x).length = 32) (h512 : ∀ x, (sha512 x).length = 64) (ctx msg : Bytes) :
    ristretto_from_string sha256 sha512 Ristretto.fromUniform ctx msg CORE_H2C_SHA512 =
      (0, H2c.ristrettoFromStringSha512 sha512 ctx msg) ∧
    ristretto_from_string sha256 sha512 Ristretto.fromUniform ctx msg CORE_H2C_SHA256 =
      (0, H2c.ristrettoFromStringSha256 sha256 ctx msg) := by
  constructor
  · simp only [ristretto_from_string, ScalarP.dispatch512, bne_self_eq_false, Bool.false_eq_true, if_false]
    rw [xmd_eq_libsodium sha512 64 128 h512 (by omega) _ 64 (ScalarP.zeros_length _) (by omega)]; rfl
  · simp only [ristretto_from_string, ScalarP.dispatch256, bne_self_eq_false, Bool.false_eq_true, if_false]
    rw [xmd_eq_libsodium sha256 32 64 h256 (by omega) _ 64 (ScalarP.zeros_length _) (by omega)]; rfl

/-- `crypto_core_ed25519_from_string_ro` (RO): the two field elements are
    u_i = OS2IP(uniform_bytes[48 i .. 48 i + 48)) mod p exactly as in RFC 9380 hash_to_field; each is mapped
    and cofactor-cleared SEPARATELY and the two encodings are added with `crypto_core_ed25519_add`
    (RFC 9380 adds first and clears the cofactor once; equality of the two orders is the
    homomorphism property of the group law, part of the arithmetic assumption of C07). -/
theorem from_string_ro_eq (sha256 sha512 : Bytes → Bytes)
    (h256 : ∀ x, (sha256 x).length = 32) (h512 : ∀ x, (sha512 x).length = 64) (ctx msg : Bytes) :
    let P := fun (X : Bytes) (i : Nat) =>
      Ed25519.encode (H2c.clearCofactor (H2c.mapToCurveElligator2Edwards25519
        (be ((X.drop (48 * i)).take 48) % F25519.p)))
    let R := fun (X : Bytes) => match Ed25519.coreAdd (P X 0) (P X 1) with
      | none => ((-1 : Int32), ([] : Bytes))
      | some q => (0, q)
    from_string_ro sha256 sha512 H2c.fromHash64 Ed25519.coreAdd ctx msg CORE_H2C_SHA512 =
      R (H2c.expandMessageXmdLibsodium sha512 64 128 msg ctx 96) ∧
    from_string_ro sha256 sha512 H2c.fromHash64 Ed25519.coreAdd ctx msg CORE_H2C_SHA256 =
      R (H2c.expandMessageXmdLibsodium sha256 32 64 msg ctx 96) := by
  intro P R
  have key : ∀ (H : Bytes → Bytes) (HB HBLK : Nat), (∀ x, (H x).length = HB) → 0 < HB →
      ∀ px, px = H2c.fromHash64 (ScalarP.chunkLE ((string_to_hash H HB HBLK (zeros 96) 96 ctx msg).take 48)) ++
            H2c.fromHash64 (ScalarP.chunkLE (((string_to_hash H HB HBLK (zeros 96) 96 ctx msg).drop 48).take 48)) →
      px.take 32 = P (H2c.expandMessageXmdLibsodium H HB HBLK msg ctx 96) 0 ∧
      (px.drop 32).take 32 = P (H2c.expandMessageXmdLibsodium H HB HBLK msg ctx 96) 1 := by
    intro H HB HBLK hH hHB px hpx
    have hl := (ScalarP.string_to_hash_frame H HB HBLK hH (zeros 96) [] 96 (ScalarP.zeros_length _) ctx msg).2
    rw [ScalarP.string_to_hash_eq H HB HBLK hH hHB _ 96 (ScalarP.zeros_length _) (by omega)] at hl hpx
    generalize H2c.expandMessageXmdLibsodium H HB HBLK msg ctx 96 = X at hl hpx ⊢
    rw [ScalarP.fromHash64_chunk _ (by simp; omega : (X.take 48).length = 48),
      ScalarP.fromHash64_chunk _ (by simp; omega : ((X.drop 48).take 48).length = 48)] at hpx
    have e0 : P X 0 = Ed25519.encode (H2c.clearCofactor (H2c.mapToCurveElligator2Edwards25519 (be (X.take 48) % F25519.p))) := by
      simp [P]
    have e1 : P X 1 = Ed25519.encode (H2c.clearCofactor (H2c.mapToCurveElligator2Edwards25519 (be ((X.drop 48).take 48) % F25519.p))) := by
      simp [P]
    rw [← e0, ← e1] at hpx
    have l0 : (P X 0).length = 32 := by simp only [P, Ed25519.encode]; exact toLE_length _ _
    have l1 : (P X 1).length = 32 := by simp only [P, Ed25519.encode]; exact toLE_length _ _
    subst hpx
    constructor
    · rw [List.take_append_of_le_length (by omega), List.take_of_length_le (by omega)]
    · rw [← l0, List.drop_left, l0, List.take_of_length_le (by omega)]
  constructor
  · simp only [from_string_ro, string_to_points, ScalarP.dispatch512, bne_self_eq_false, Bool.false_eq_true, if_false]
    rw [ScalarP.points_two sha512 64 128 h512]
    obtain ⟨k0, k1⟩ := key sha512 64 128 h512 (by omega) _ rfl
    rw [k0, k1]
    simp only [R]
    cases Ed25519.coreAdd (P (H2c.expandMessageXmdLibsodium sha512 64 128 msg ctx 96) 0)
      (P (H2c.expandMessageXmdLibsodium sha512 64 128 msg ctx 96) 1) <;> rfl
  · simp only [from_string_ro, string_to_points, ScalarP.dispatch256, bne_self_eq_false, Bool.false_eq_true, if_false]
    rw [ScalarP.points_two sha256 32 64 h256]
    obtain ⟨k0, k1⟩ := key sha256 32 64 h256 (by omega) _ rfl
    rw [k0, k1]
    simp only [R]
    cases Ed25519.coreAdd (P (H2c.expandMessageXmdLibsodium sha256 32 64 msg ctx 96) 0)
      (P (H2c.expandMessageXmdLibsodium sha256 32 64 msg ctx 96) 1) <;> rfl

end H2G

end Sodium.C07
