import SodiumModel.Model.Random
import SodiumModel.Spec.Chacha
import SodiumModel.Proofs.Random
/-
  C18 — random generation is unbiased, pluggable and fully covers generated secrets.
  The random source is a script; the theorems hold for every script.
-/
open Sodium Sodium.Model
namespace Sodium.C18

/-- `(1U + ~n) % n` is 2^32 mod n -/
theorem uniformMin_eq (n : UInt32) (hn : 2 ≤ n.toNat) : (uniformMin n).toNat = 2 ^ 32 % n.toNat :=
  RandP.uniformMin_toNat n (by omega)

/-- the result is always below the bound (0 for bounds below 2, consuming nothing) -/
theorem uniform_lt (n : UInt32) (ds : List UInt32) (v : UInt32) (k : Nat)
    (h : randombytes_uniform n ds = some (v, k)) :
    (n.toNat < 2 → v = 0 ∧ k = 0) ∧ (2 ≤ n.toNat → v.toNat < n.toNat) := by
  rw [randombytes_uniform] at h
  refine ⟨fun h2 => ?_, fun h2 => ?_⟩
  · rw [if_pos ((RandP.lt_two_iff n).mpr h2)] at h
    simp only [Option.some.injEq, Prod.mk.injEq] at h
    exact ⟨h.1.symm, h.2.symm⟩
  · rw [if_neg (fun c => by have := (RandP.lt_two_iff n).mp c; omega)] at h
    exact RandP.uniformLoop_lt n _ (by omega) ds v k h

/-- rejection sampling: the result is the first draw that is ≥ 2^32 mod n, reduced mod n; every
    earlier draw was below the threshold; exactly those draws are consumed -/
theorem uniform_first_accepted (n : UInt32) (hn : 2 ≤ n.toNat) (pre : List UInt32) (d : UInt32) (post : List UInt32)
    (hpre : ∀ x ∈ pre, x.toNat < 2 ^ 32 % n.toNat) (hd : 2 ^ 32 % n.toNat ≤ d.toNat) :
    randombytes_uniform n (pre ++ d :: post) = some (UInt32.ofNat (d.toNat % n.toNat), pre.length + 1) := by
  rw [randombytes_uniform, if_neg (fun c => by have := (RandP.lt_two_iff n).mp c; omega),
    ← RandP.mod_eq_ofNat d n (by omega)]
  apply RandP.uniformLoop_accept
  · rw [UInt32.lt_iff_toNat_lt, RandP.uniformMin_toNat n (by omega)]; omega
  · intro x hx
    rw [UInt32.lt_iff_toNat_lt, RandP.uniformMin_toNat n (by omega)]; exact hpre x hx

/-- a script with no acceptable draw never yields a value (the loop keeps drawing) -/
theorem uniform_all_rejected (n : UInt32) (hn : 2 ≤ n.toNat) (ds : List UInt32)
    (h : ∀ x ∈ ds, x.toNat < 2 ^ 32 % n.toNat) : randombytes_uniform n ds = none := by
  rw [randombytes_uniform, if_neg (fun c => by have := (RandP.lt_two_iff n).mp c; omega)]
  apply RandP.uniformLoop_reject
  intro x hx
  rw [UInt32.lt_iff_toNat_lt, RandP.uniformMin_toNat n (by omega)]; exact h x hx

/-- EXACT UNIFORMITY: among the 2^32 possible draws, the accepted ones (≥ 2^32 mod n) hit every
    residue v < n exactly (2^32 − 2^32 mod n) / n times — so the first accepted draw mod n is
    exactly uniform on [0, n) when draws are uniform on [0, 2^32). -/
theorem uniform_exact (n : Nat) (hn : 2 ≤ n) (hn32 : n < 2 ^ 32) (v : Nat) (hv : v < n) :
    ((List.range (2 ^ 32)).filter fun r => decide (2 ^ 32 % n ≤ r) && decide (r % n = v)).length
      = (2 ^ 32 - 2 ^ 32 % n) / n :=
  RandP.accepted_count (2 ^ 32) n v (by omega) hv

/-- the deterministic generator is the ChaCha20-IETF keystream from block 0 under the fixed nonce,
    for every size up to 2^38; larger sizes go to the misuse handler -/
theorem drg_eq (Bi : BlockFn) (hB : ∀ a b, (Bi a b).length = 64) (n0 : UInt32) (size : Nat) :
    randombytes_buf_deterministic Bi n0 size =
      if size > 2 ^ 38 then .misuse
      else .ok (Spec.Chacha.streamFrom (fun i => Bi (UInt32.ofNat i) n0) 0 size) := by
  have e : (0x4000000000 : Nat) = 2 ^ 38 := by decide
  rw [randombytes_buf_deterministic, e]
  by_cases h : size > 2 ^ 38
  · rw [if_pos h, if_pos h]
  · rw [if_neg h, if_neg h, RandP.drg_loop_eq Bi hB n0 size (by omega)]

/-- the fixed nonce is the ASCII string "LibsodiumDRG" -/
theorem drgNonce_ascii : drgNonce = "LibsodiumDRG".toUTF8.toList := by
  decide +kernel

/-- a random scalar is the first 32-byte block (top byte masked to 5 bits) that is canonical and
    non-zero; exactly the blocks up to it are consumed -/
theorem scalar_random_first (isCanon : Bytes → Bool) (pre : List Bytes) (b : Bytes) (post : List Bytes)
    (mask : Bytes → Bytes) (hmask : ∀ x, mask x = x.take 31 ++ [(x.getD 31 0) &&& 0x1f])
    (hpre : ∀ x ∈ pre, isCanon (mask x) = false ∨ (mask x).all (· == 0) = true)
    (hb : isCanon (mask b) = true ∧ (mask b).all (· == 0) = false) :
    scalarRandomLoop isCanon (pre ++ b :: post) = some (mask b, pre.length + 1) :=
  RandP.scalarRandomLoop_first isCanon mask hmask b post hb pre hpre

/-- key generation returns exactly the requested bytes: the whole secret is covered by the request,
    depends only on the consumed bytes, and is injective in them -/
theorem keygen_covers (n : Nat) (s t : Bytes) (hs : n ≤ s.length) (ht : n ≤ t.length) :
    (keygen n s).1 = [n] ∧ (keygen n s).2.length = n ∧
    ((keygen n s).2 = (keygen n t).2 ↔ s.take n = t.take n) ∧
    (keygen n (s.take n ++ t)).2 = (keygen n s).2 := by
  have _ := ht
  refine ⟨rfl, ?_, Iff.rfl, ?_⟩
  · simp only [keygen, List.length_take]; omega
  · have hl : (s.take n).length = n := by rw [List.length_take]; omega
    simp only [keygen]
    rw [List.take_append_of_le_length (by omega), List.take_take, Nat.min_self]

/-! #### non-vacuity: the models evaluate on small instances -/

/-- 2^32 mod 10 = 6: the draw 5 is rejected, 6 is accepted (two draws consumed) -/
example : randombytes_uniform 10 [5, 6, 7] = some (6, 2) := by decide
example : randombytes_uniform 10 [5, 3] = none := by decide
example : randombytes_uniform 1 [5, 3] = some (0, 0) := by decide
example : randombytes_uniform 0 [] = some (0, 0) := by decide
example : uniformMin 10 = 6 := by decide
/-- a bound above 2^31: threshold 2^32 − n, first accepted draw reduced mod n -/
example : randombytes_uniform 3000000000 [5, 1294967295, 4294967295, 7] = some (1294967295, 3) := by decide
/-- the counting statement at modulus 2^4, bound 5 (threshold 1): each residue is hit 3 times -/
example : ((List.range (2 ^ 4)).filter fun r => decide (2 ^ 4 % 5 ≤ r) && decide (r % 5 = 3)).length
    = (2 ^ 4 - 2 ^ 4 % 5) / 5 := by decide
/-- toy canonicity test (examples only): little-endian value below 1000 -/
example : scalarRandomLoop (fun b => decide (le b < 1000))
    [List.replicate 32 255, List.replicate 32 0, 5 :: List.replicate 30 0 ++ [0xe0], []] =
    some (5 :: List.replicate 31 0, 3) := by decide
example : randombytes_buf_deterministic C03.toyBlock 7 66 =
    .ok (List.replicate 64 21 ++ List.replicate 2 22) := by decide
example : randombytes_buf_deterministic C03.toyBlock 7 (2 ^ 38 + 1) = .misuse := by decide
example : keygen 3 [1, 2, 3, 4, 5] = ([3], [1, 2, 3]) := by decide

end Sodium.C18
