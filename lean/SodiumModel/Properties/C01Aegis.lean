import SodiumModel.Model.AegisRef
import SodiumModel.Proofs.AegisRef
import SodiumModel.Spec.Aegis
/-
  C01 / C02 for AEGIS — libsodium's portable AEGIS-128L / AEGIS-256 code and the software AES round,
  modelled to the structure of the C (`Model/AegisRef.lean`), equal the specification
  `Spec/Aegis.lean` / `Spec/Aes.lean` at every message and associated-data length.
  Property theorems only; the proofs live in `Proofs/AegisRef.lean`.

  `soft` is the SoftAesBlock backend (`*_soft.c` + softaes.c, the table-based round, default build:
  no FAVOR_PERFORMANCE, SOFTAES_STRIDE = 16); the theorems about the generic `*_common.h` code hold
  for every backend `B` whose block operations act on the 16-byte image as XOR / AND / load / store /
  one AES round (`BackendOk B`), and `soft_backend_ok` shows `soft` is one.
  Lengths: the C code forms `adlen << 3`, `mlen << 3` in `uint64_t`; the public wrappers refuse
  lengths above 2^61 - 1, and the theorems about the static functions carry `< 2^61` explicitly.
-/
open Sodium Sodium.Model.AegisRef Sodium.Spec.Aes Sodium.Spec.Aegis Sodium.AegisRefP
namespace Sodium.C01Aegis

/-! ### (1) softaes.c -/

/-- `softaes_block_encrypt(block, rk)` is one AES encryption round — SubBytes, ShiftRows, MixColumns,
    AddRoundKey (= AESENC) — for every block and round key -/
theorem softaes_block_encrypt_is_aes_round (block rk : SoftAesBlock) :
    softaes_block_store (softaes_block_encrypt block rk) =
      aesRound (softaes_block_store block) (softaes_block_store rk) :=
  softaes_block_encrypt_spec block rk

/-- …and on blocks loaded from memory -/
theorem softaes_block_encrypt_bytes (block rk : Bytes) (hb : block.length = 16) (hr : rk.length = 16) :
    softaes_block_store (softaes_block_encrypt (softaes_block_load block) (softaes_block_load rk)) =
      aesRound block rk := by
  rw [softaes_block_encrypt_spec, store_load _ (by omega), store_load _ (by omega),
    take16_of_len hb, take16_of_len hr]

/-- every entry of `_aes_lut` is the MixColumns column of the FIPS 197 S-box output:
    bytes ({02}·S[x], S[x], S[x], {03}·S[x]), little-endian -/
theorem aes_lut_from_sbox (x : UInt8) : LUT x.toNat = lutGen (subByte x) := lut_gen x

/-- the strided constant-time gather of `_encrypt` selects exactly `LUT[ix]` -/
theorem ct_lookup_exact (ix : UInt8) : tSel (tFill (ofOf ix)) ix = LUT ix.toNat := ct_lookup ix

/-- load / store / xor / and / load64x2 of softaes.h on the byte image -/
theorem soft_backend_ok : BackendOk soft := soft_ok

theorem softaes_load_store (p : Bytes) (h : p.length = 16) :
    softaes_block_store (softaes_block_load p) = p := by
  rw [store_load p (by omega), take16_of_len h]

/-- LOAD_64x2(a, b) puts `b` in the low half: bytes LE64(b) ‖ LE64(a) -/
theorem softaes_load64x2_order (a b : UInt64) :
    softaes_block_store (softaes_block_load64x2 a b) = le64 b.toNat ++ le64 a.toNat :=
  store_load64x2 a b

/-! ### (2) update -/

variable {β : Type} {B : Backend β}

theorem aegis128l_update_eq (ok : BackendOk B) (st : A128L.State β) (d1 d2 : β) :
    AegisRefP.A128L.abs B (A128L.aegis128l_update B st d1 d2) =
      Aegis128L.update (AegisRefP.A128L.abs B st) (B.STORE d1) (B.STORE d2) :=
  AegisRefP.A128L.update_spec ok st d1 d2

theorem aegis256_update_eq (ok : BackendOk B) (st : A256.State β) (d : β) :
    AegisRefP.A256.abs B (A256.aegis256_update B st d) = Aegis256.update (AegisRefP.A256.abs B st) (B.STORE d) :=
  AegisRefP.A256.update_spec ok st d

/-! ### (3) init, absorb, enc, dec, declast, mac -/

theorem aegis128l_init_eq (ok : BackendOk B) (key nonce : Bytes) (hk : key.length = 16) (hn : nonce.length = 16) :
    AegisRefP.A128L.abs B (A128L.aegis128l_init B key nonce) = Aegis128L.init key nonce :=
  AegisRefP.A128L.init_spec ok key nonce hk hn

theorem aegis128l_absorb_eq (ok : BackendOk B) (src : Bytes) (st : A128L.State β) (h : 32 ≤ src.length) :
    AegisRefP.A128L.abs B (A128L.aegis128l_absorb B src st) = Aegis128L.absorb (AegisRefP.A128L.abs B st) (src.take 32) :=
  AegisRefP.A128L.absorb_spec ok src st h

/-- returns the ciphertext block and steps the state as `Enc` does -/
theorem aegis128l_enc_eq (ok : BackendOk B) (src : Bytes) (st : A128L.State β) (h : 32 ≤ src.length) :
    (A128L.aegis128l_enc B src st).1 = (Aegis128L.enc (AegisRefP.A128L.abs B st) (src.take 32)).2 ∧
    AegisRefP.A128L.abs B (A128L.aegis128l_enc B src st).2 = (Aegis128L.enc (AegisRefP.A128L.abs B st) (src.take 32)).1 :=
  AegisRefP.A128L.enc_spec ok src st h

theorem aegis128l_dec_eq (ok : BackendOk B) (src : Bytes) (st : A128L.State β) (h : 32 ≤ src.length) :
    (A128L.aegis128l_dec B src st).1 = (Aegis128L.dec (AegisRefP.A128L.abs B st) (src.take 32)).2 ∧
    AegisRefP.A128L.abs B (A128L.aegis128l_dec B src st).2 = (Aegis128L.dec (AegisRefP.A128L.abs B st) (src.take 32)).1 :=
  AegisRefP.A128L.dec_spec ok src st h

/-- the partial last block: zero-padding, truncation, re-absorbing the zero-padded plaintext = `DecPartial` -/
theorem aegis128l_declast_eq (ok : BackendOk B) (src : Bytes) (len : Nat) (st : A128L.State β)
    (h0 : 0 < len) (h1 : len < 32) (hs : len ≤ src.length) :
    (A128L.aegis128l_declast B src len st).1 = (Aegis128L.decPartial (AegisRefP.A128L.abs B st) (src.take len)).2 ∧
    AegisRefP.A128L.abs B (A128L.aegis128l_declast B src len st).2 =
      (Aegis128L.decPartial (AegisRefP.A128L.abs B st) (src.take len)).1 :=
  AegisRefP.A128L.declast_spec ok src len st h0 h1 hs

/-- `aegis128l_mac`: 32-byte tag = `Finalize` of Spec/Aegis.lean; 16-byte tag = the draft's 128-bit
    Finalize (`S0 ^ … ^ S6`); any other length: -1 and a zeroed buffer -/
theorem aegis128l_mac_eq (ok : BackendOk B) (maclen adlen mlen : Nat) (st : A128L.State β)
    (ha : adlen < 2 ^ 61) (hm : mlen < 2 ^ 61) :
    A128L.aegis128l_mac B maclen (UInt64.ofNat adlen) (UInt64.ofNat mlen) st =
      if maclen = 16 then (0, finalize128L_16 (AegisRefP.A128L.abs B st) (8 * adlen) (8 * mlen))
      else if maclen = 32 then (0, Aegis128L.finalize (AegisRefP.A128L.abs B st) (8 * adlen) (8 * mlen))
      else (-1, zeros maclen) :=
  AegisRefP.A128L.mac_spec ok maclen adlen mlen st ha hm

theorem aegis256_init_eq (ok : BackendOk B) (key nonce : Bytes) (hk : key.length = 32) (hn : nonce.length = 32) :
    AegisRefP.A256.abs B (A256.aegis256_init B key nonce) = Aegis256.init key nonce :=
  AegisRefP.A256.init_spec ok key nonce hk hn

theorem aegis256_absorb_eq (ok : BackendOk B) (src : Bytes) (st : A256.State β) (h : 16 ≤ src.length) :
    AegisRefP.A256.abs B (A256.aegis256_absorb B src st) = Aegis256.absorb (AegisRefP.A256.abs B st) (src.take 16) :=
  AegisRefP.A256.absorb_spec ok src st h

theorem aegis256_enc_eq (ok : BackendOk B) (src : Bytes) (st : A256.State β) (h : 16 ≤ src.length) :
    (A256.aegis256_enc B src st).1 = (Aegis256.enc (AegisRefP.A256.abs B st) (src.take 16)).2 ∧
    AegisRefP.A256.abs B (A256.aegis256_enc B src st).2 = (Aegis256.enc (AegisRefP.A256.abs B st) (src.take 16)).1 :=
  AegisRefP.A256.enc_spec ok src st h

theorem aegis256_dec_eq (ok : BackendOk B) (src : Bytes) (st : A256.State β) (h : 16 ≤ src.length) :
    (A256.aegis256_dec B src st).1 = (Aegis256.dec (AegisRefP.A256.abs B st) (src.take 16)).2 ∧
    AegisRefP.A256.abs B (A256.aegis256_dec B src st).2 = (Aegis256.dec (AegisRefP.A256.abs B st) (src.take 16)).1 :=
  AegisRefP.A256.dec_spec ok src st h

theorem aegis256_declast_eq (ok : BackendOk B) (src : Bytes) (len : Nat) (st : A256.State β)
    (h0 : 0 < len) (h1 : len < 16) (hs : len ≤ src.length) :
    (A256.aegis256_declast B src len st).1 = (Aegis256.decPartial (AegisRefP.A256.abs B st) (src.take len)).2 ∧
    AegisRefP.A256.abs B (A256.aegis256_declast B src len st).2 =
      (Aegis256.decPartial (AegisRefP.A256.abs B st) (src.take len)).1 :=
  AegisRefP.A256.declast_spec ok src len st h0 h1 hs

theorem aegis256_mac_eq (ok : BackendOk B) (maclen adlen mlen : Nat) (st : A256.State β)
    (ha : adlen < 2 ^ 61) (hm : mlen < 2 ^ 61) :
    A256.aegis256_mac B maclen (UInt64.ofNat adlen) (UInt64.ofNat mlen) st =
      if maclen = 16 then (0, finalize256_16 (AegisRefP.A256.abs B st) (8 * adlen) (8 * mlen))
      else if maclen = 32 then (0, Aegis256.finalize (AegisRefP.A256.abs B st) (8 * adlen) (8 * mlen))
      else (-1, zeros maclen) :=
  AegisRefP.A256.mac_spec ok maclen adlen mlen st ha hm

/-! ### (4) encrypt_detached / decrypt_detached, every key, nonce, AD and message length -/

/-- AEGIS-128L `encrypt_detached` over the software-AES backend = `Spec.Aegis.aegis128l_encrypt`
    (32-byte tag) / the draft's 128-bit-tag Encrypt (16-byte tag); other tag lengths: -1, zeroed tag -/
theorem aegis128l_encrypt_detached_eq (maclen : Nat) (m ad npub k : Bytes) (hk : k.length = 16) (hn : npub.length = 16)
    (hm : m.length < 2 ^ 61) (ha : ad.length < 2 ^ 61) :
    encrypt_detached (A128L.variant soft) maclen m ad npub k =
      if maclen = 16 then (0, (aegis128l_encrypt_tag16 k npub ad m).1, (aegis128l_encrypt_tag16 k npub ad m).2)
      else if maclen = 32 then (0, (aegis128l_encrypt k npub ad m).1, (aegis128l_encrypt k npub ad m).2)
      else (-1, (aegis128l_encrypt k npub ad m).1, zeros maclen) :=
  encrypt_detached_128L soft_ok maclen m ad npub k hk hn hm ha

theorem aegis256_encrypt_detached_eq (maclen : Nat) (m ad npub k : Bytes) (hk : k.length = 32) (hn : npub.length = 32)
    (hm : m.length < 2 ^ 61) (ha : ad.length < 2 ^ 61) :
    encrypt_detached (A256.variant soft) maclen m ad npub k =
      if maclen = 16 then (0, (aegis256_encrypt_tag16 k npub ad m).1, (aegis256_encrypt_tag16 k npub ad m).2)
      else if maclen = 32 then (0, (aegis256_encrypt k npub ad m).1, (aegis256_encrypt k npub ad m).2)
      else (-1, (aegis256_encrypt k npub ad m).1, zeros maclen) :=
  encrypt_detached_256 soft_ok maclen m ad npub k hk hn hm ha

/-- the same for every conforming backend (the generic `aegis128l_common.h` code) -/
theorem aegis128l_encrypt_detached_generic (ok : BackendOk B) (m ad npub k : Bytes) (hk : k.length = 16)
    (hn : npub.length = 16) (hm : m.length < 2 ^ 61) (ha : ad.length < 2 ^ 61) :
    encrypt_detached (A128L.variant B) 32 m ad npub k =
      (0, (aegis128l_encrypt k npub ad m).1, (aegis128l_encrypt k npub ad m).2) := by
  rw [encrypt_detached_128L ok 32 m ad npub k hk hn hm ha]; rfl

theorem aegis256_encrypt_detached_generic (ok : BackendOk B) (m ad npub k : Bytes) (hk : k.length = 32)
    (hn : npub.length = 32) (hm : m.length < 2 ^ 61) (ha : ad.length < 2 ^ 61) :
    encrypt_detached (A256.variant B) 32 m ad npub k =
      (0, (aegis256_encrypt k npub ad m).1, (aegis256_encrypt k npub ad m).2) := by
  rw [encrypt_detached_256 ok 32 m ad npub k hk hn hm ha]; rfl

/-- AEGIS-128L `decrypt_detached`: returns 0 and the plaintext iff the specification's Decrypt accepts
    the tag; otherwise -1 and an all-zero output buffer (or nothing at all in the `m == NULL` form) -/
theorem aegis128l_decrypt_detached_eq (wantM : Bool) (maclen : Nat) (hml : maclen = 16 ∨ maclen = 32)
    (c mac ad npub k : Bytes) (hk : k.length = 16) (hn : npub.length = 16) (hmac : mac.length = maclen)
    (hc : c.length < 2 ^ 61) (ha : ad.length < 2 ^ 61) :
    decrypt_detached (A128L.variant soft) wantM c mac maclen ad npub k =
      match specDecrypt128L maclen k npub ad c mac with
      | some m => (0, if wantM then some m else none)
      | none => (-1, if wantM then some (zeros c.length) else none) := by
  rw [decrypt_detached_128L soft_ok wantM maclen hml c mac ad npub k hk hn hmac hc ha]
  cases specDecrypt128L maclen k npub ad c mac <;> rfl

theorem aegis256_decrypt_detached_eq (wantM : Bool) (maclen : Nat) (hml : maclen = 16 ∨ maclen = 32)
    (c mac ad npub k : Bytes) (hk : k.length = 32) (hn : npub.length = 32) (hmac : mac.length = maclen)
    (hc : c.length < 2 ^ 61) (ha : ad.length < 2 ^ 61) :
    decrypt_detached (A256.variant soft) wantM c mac maclen ad npub k =
      match specDecrypt256 maclen k npub ad c mac with
      | some m => (0, if wantM then some m else none)
      | none => (-1, if wantM then some (zeros c.length) else none) := by
  rw [decrypt_detached_256 soft_ok wantM maclen hml c mac ad npub k hk hn hmac hc ha]
  cases specDecrypt256 maclen k npub ad c mac <;> rfl

/-- with the 32-byte tag of the public API the verdict is `Spec.Aegis.aegis128l_decrypt` itself -/
theorem aegis128l_decrypt_detached_32 (wantM : Bool) (c mac ad npub k : Bytes) (hk : k.length = 16)
    (hn : npub.length = 16) (hmac : mac.length = 32) (hc : c.length < 2 ^ 61) (ha : ad.length < 2 ^ 61) :
    decrypt_detached (A128L.variant soft) wantM c mac 32 ad npub k =
      decOutcome wantM c.length (aegis128l_decrypt k npub ad c mac) :=
  decrypt_detached_128L soft_ok wantM 32 (Or.inr rfl) c mac ad npub k hk hn hmac hc ha

theorem aegis256_decrypt_detached_32 (wantM : Bool) (c mac ad npub k : Bytes) (hk : k.length = 32)
    (hn : npub.length = 32) (hmac : mac.length = 32) (hc : c.length < 2 ^ 61) (ha : ad.length < 2 ^ 61) :
    decrypt_detached (A256.variant soft) wantM c mac 32 ad npub k =
      decOutcome wantM c.length (aegis256_decrypt k npub ad c mac) :=
  decrypt_detached_256 soft_ok wantM 32 (Or.inr rfl) c mac ad npub k hk hn hmac hc ha

/-- C02 over the model, for EVERY input (any backend, any lengths, any `maclen`): whenever
    `decrypt_detached` does not return 0 the caller's buffer holds `mlen` zero bytes (`memset(m, 0, mlen)`)
    or was never written (`m == NULL`) — never the unauthenticated plaintext -/
theorem decrypt_detached_failure_output {τ : Type} (V : Variant τ) (wantM : Bool) (c mac : Bytes) (maclen : Nat)
    (ad npub k : Bytes) (h : (decrypt_detached V wantM c mac maclen ad npub k).1 ≠ 0) :
    (decrypt_detached V wantM c mac maclen ad npub k).2 = if wantM then some (zeros c.length) else none :=
  decrypt_detached_fail V wantM c mac maclen ad npub k h

/-- a tag length other than 16 or 32 is always refused -/
theorem decrypt_detached_bad_maclen {τ : Type} (V : Variant τ) (wantM : Bool) (maclen : Nat) (h16 : maclen ≠ 16)
    (h32 : maclen ≠ 32) (c mac ad npub k : Bytes) :
    decrypt_detached V wantM c mac maclen ad npub k = (-1, if wantM then some (zeros c.length) else none) :=
  decrypt_detached_other V wantM maclen h16 h32 c mac ad npub k

/-- the return code is 0 or -1, and 0 exactly when the supplied tag is the specification's tag -/
theorem aegis128l_decrypt_detached_rc (wantM : Bool) (c mac ad npub k : Bytes) (hk : k.length = 16)
    (hn : npub.length = 16) (hmac : mac.length = 32) (hc : c.length < 2 ^ 61) (ha : ad.length < 2 ^ 61) :
    ((decrypt_detached (A128L.variant soft) wantM c mac 32 ad npub k).1 = 0 ↔
      (aegis128l_decrypt k npub ad c mac).isSome) ∧
    ((decrypt_detached (A128L.variant soft) wantM c mac 32 ad npub k).1 = 0 ∨
      (decrypt_detached (A128L.variant soft) wantM c mac 32 ad npub k).1 = -1) := by
  rw [aegis128l_decrypt_detached_32 wantM c mac ad npub k hk hn hmac hc ha]
  cases aegis128l_decrypt k npub ad c mac <;> simp [decOutcome]

theorem aegis256_decrypt_detached_rc (wantM : Bool) (c mac ad npub k : Bytes) (hk : k.length = 32)
    (hn : npub.length = 32) (hmac : mac.length = 32) (hc : c.length < 2 ^ 61) (ha : ad.length < 2 ^ 61) :
    ((decrypt_detached (A256.variant soft) wantM c mac 32 ad npub k).1 = 0 ↔
      (aegis256_decrypt k npub ad c mac).isSome) ∧
    ((decrypt_detached (A256.variant soft) wantM c mac 32 ad npub k).1 = 0 ∨
      (decrypt_detached (A256.variant soft) wantM c mac 32 ad npub k).1 = -1) := by
  rw [aegis256_decrypt_detached_32 wantM c mac ad npub k hk hn hmac hc ha]
  cases aegis256_decrypt k npub ad c mac <;> simp [decOutcome]


/-! ### (5) round trip, every length -/

/-- specification level: Decrypt(Encrypt(m)) = m -/
theorem aegis128l_spec_roundtrip (k npub ad m : Bytes) (hk : k.length = 16) (hn : npub.length = 16) :
    aegis128l_decrypt k npub ad (aegis128l_encrypt k npub ad m).1 (aegis128l_encrypt k npub ad m).2 = some m :=
  spec_roundtrip_128L soft_ok k npub ad m hk hn

theorem aegis256_spec_roundtrip (k npub ad m : Bytes) (hk : k.length = 32) (hn : npub.length = 32) :
    aegis256_decrypt k npub ad (aegis256_encrypt k npub ad m).1 (aegis256_encrypt k npub ad m).2 = some m :=
  spec_roundtrip_256 soft_ok k npub ad m hk hn

/-- the ciphertext has the message's length and the tag 32 bytes -/
theorem aegis128l_output_lengths (k npub ad m : Bytes) (hk : k.length = 16) (hn : npub.length = 16)
    (hm : m.length < 2 ^ 61) (ha : ad.length < 2 ^ 61) :
    (aegis128l_encrypt k npub ad m).1.length = m.length ∧ (aegis128l_encrypt k npub ad m).2.length = 32 :=
  enc_lengths_128L soft_ok k npub ad m hk hn hm ha

theorem aegis256_output_lengths (k npub ad m : Bytes) (hk : k.length = 32) (hn : npub.length = 32)
    (hm : m.length < 2 ^ 61) (ha : ad.length < 2 ^ 61) :
    (aegis256_encrypt k npub ad m).1.length = m.length ∧ (aegis256_encrypt k npub ad m).2.length = 32 :=
  enc_lengths_256 soft_ok k npub ad m hk hn hm ha

/-- over the C-structured model with the software AES round: `decrypt_detached(encrypt_detached(m)) = (0, m)` -/
theorem aegis128l_roundtrip (m ad npub k : Bytes) (hk : k.length = 16) (hn : npub.length = 16)
    (hm : m.length < 2 ^ 61) (ha : ad.length < 2 ^ 61) :
    decrypt_detached (A128L.variant soft) true (encrypt_detached (A128L.variant soft) 32 m ad npub k).2.1
      (encrypt_detached (A128L.variant soft) 32 m ad npub k).2.2 32 ad npub k = (0, some m) :=
  model_roundtrip_128L soft_ok m ad npub k hk hn hm ha

theorem aegis256_roundtrip (m ad npub k : Bytes) (hk : k.length = 32) (hn : npub.length = 32)
    (hm : m.length < 2 ^ 61) (ha : ad.length < 2 ^ 61) :
    decrypt_detached (A256.variant soft) true (encrypt_detached (A256.variant soft) 32 m ad npub k).2.1
      (encrypt_detached (A256.variant soft) 32 m ad npub k).2.2 32 ad npub k = (0, some m) :=
  model_roundtrip_256 soft_ok m ad npub k hk hn hm ha

/-! ### (6) the public wrappers of aead_aegis128l.c / aead_aegis256.c -/

/-- `crypto_aead_aegis128l_MESSAGEBYTES_MAX` on a 64-bit `size_t` -/
theorem messagebytes_max : MESSAGEBYTES_MAX = 2 ^ 61 - 1 := msgmax

/-- `crypto_aead_aegis128l_encrypt_detached`: misuse iff a length exceeds MESSAGEBYTES_MAX, otherwise
    0, the specification's ciphertext and 32-byte tag, `*maclen_p = 32` -/
theorem crypto_aead_aegis128l_encrypt_detached_eq (m ad npub k : Bytes) (hk : k.length = 16) (hn : npub.length = 16) :
    crypto_aead_encrypt_detached (A128L.variant soft) m ad npub k =
      if m.length > 2 ^ 61 - 1 ∨ ad.length > 2 ^ 61 - 1 then .misuse
      else .done 0 (aegis128l_encrypt k npub ad m).1 (aegis128l_encrypt k npub ad m).2 32 :=
  wrap_encrypt_detached_128L soft_ok m ad npub k hk hn

theorem crypto_aead_aegis256_encrypt_detached_eq (m ad npub k : Bytes) (hk : k.length = 32) (hn : npub.length = 32) :
    crypto_aead_encrypt_detached (A256.variant soft) m ad npub k =
      if m.length > 2 ^ 61 - 1 ∨ ad.length > 2 ^ 61 - 1 then .misuse
      else .done 0 (aegis256_encrypt k npub ad m).1 (aegis256_encrypt k npub ad m).2 32 :=
  wrap_encrypt_detached_256 soft_ok m ad npub k hk hn

/-- combined mode = detached + concatenation (`mac` at `c + mlen`), `*clen_p = mlen + ABYTES` on success -/
theorem crypto_aead_encrypt_combined {τ : Type} (V : Variant τ) (m ad npub k : Bytes) :
    crypto_aead_encrypt V m ad npub k =
      match crypto_aead_encrypt_detached V m ad npub k with
      | .misuse => .misuse
      | .done ret c mac _ => .done ret (c ++ mac) (if ret = 0 then m.length + 32 else 0) := rfl

theorem crypto_aead_aegis128l_encrypt_eq (m ad npub k : Bytes) (hk : k.length = 16) (hn : npub.length = 16)
    (hm : m.length ≤ 2 ^ 61 - 1) (ha : ad.length ≤ 2 ^ 61 - 1) :
    crypto_aead_encrypt (A128L.variant soft) m ad npub k =
      .done 0 ((aegis128l_encrypt k npub ad m).1 ++ (aegis128l_encrypt k npub ad m).2) (m.length + 32) := by
  rw [crypto_aead_encrypt_combined, crypto_aead_aegis128l_encrypt_detached_eq m ad npub k hk hn, if_neg (by omega)]
  rfl

theorem crypto_aead_aegis256_encrypt_eq (m ad npub k : Bytes) (hk : k.length = 32) (hn : npub.length = 32)
    (hm : m.length ≤ 2 ^ 61 - 1) (ha : ad.length ≤ 2 ^ 61 - 1) :
    crypto_aead_encrypt (A256.variant soft) m ad npub k =
      .done 0 ((aegis256_encrypt k npub ad m).1 ++ (aegis256_encrypt k npub ad m).2) (m.length + 32) := by
  rw [crypto_aead_encrypt_combined, crypto_aead_aegis256_encrypt_detached_eq m ad npub k hk hn, if_neg (by omega)]
  rfl

/-- `crypto_aead_aegis128l_decrypt_detached`: over-long inputs → -1 with nothing written, otherwise the
    specification's verdict -/
theorem crypto_aead_aegis128l_decrypt_detached_eq (wantM : Bool) (c mac ad npub k : Bytes) (hk : k.length = 16)
    (hn : npub.length = 16) (hmac : mac.length = 32) :
    crypto_aead_decrypt_detached (A128L.variant soft) wantM c mac ad npub k =
      if c.length > 2 ^ 61 - 1 ∨ ad.length > 2 ^ 61 - 1 then (-1, none)
      else decOutcome wantM c.length (aegis128l_decrypt k npub ad c mac) :=
  wrap_decrypt_detached_128L soft_ok wantM c mac ad npub k hk hn hmac

theorem crypto_aead_aegis256_decrypt_detached_eq (wantM : Bool) (c mac ad npub k : Bytes) (hk : k.length = 32)
    (hn : npub.length = 32) (hmac : mac.length = 32) :
    crypto_aead_decrypt_detached (A256.variant soft) wantM c mac ad npub k =
      if c.length > 2 ^ 61 - 1 ∨ ad.length > 2 ^ 61 - 1 then (-1, none)
      else decOutcome wantM c.length (aegis256_decrypt k npub ad c mac) :=
  wrap_decrypt_detached_256 soft_ok wantM c mac ad npub k hk hn hmac

/-- combined decrypt: `clen < ABYTES` is rejected before anything is read or written, `*mlen_p = 0` -/
theorem crypto_aead_decrypt_short {τ : Type} (V : Variant τ) (wantM : Bool) (c ad npub k : Bytes) (h : c.length < 32) :
    crypto_aead_decrypt V wantM c ad npub k = ⟨-1, 0, none⟩ := by
  have : ¬ c.length ≥ ABYTES := by simp [ABYTES]; omega
  simp [crypto_aead_decrypt, this]

/-- combined decrypt = detached decrypt of `c[0 .. clen-32)` with the tag `c[clen-32 .. clen)`;
    `*mlen_p = clen - 32` on success and 0 otherwise -/
theorem crypto_aead_decrypt_combined {τ : Type} (V : Variant τ) (wantM : Bool) (c ad npub k : Bytes) (h : 32 ≤ c.length) :
    crypto_aead_decrypt V wantM c ad npub k =
      ⟨(crypto_aead_decrypt_detached V wantM (c.take (c.length - 32)) (c.drop (c.length - 32)) ad npub k).1,
       if (crypto_aead_decrypt_detached V wantM (c.take (c.length - 32)) (c.drop (c.length - 32)) ad npub k).1 = 0
         then c.length - 32 else 0,
       (crypto_aead_decrypt_detached V wantM (c.take (c.length - 32)) (c.drop (c.length - 32)) ad npub k).2⟩ := by
  simp [crypto_aead_decrypt, ABYTES, h]

theorem crypto_aead_aegis128l_decrypt_eq (wantM : Bool) (c ad npub k : Bytes) (hk : k.length = 16) (hn : npub.length = 16)
    (h : 32 ≤ c.length) (hc : c.length - 32 ≤ 2 ^ 61 - 1) (ha : ad.length ≤ 2 ^ 61 - 1) :
    crypto_aead_decrypt (A128L.variant soft) wantM c ad npub k =
      match aegis128l_decrypt k npub ad (c.take (c.length - 32)) (c.drop (c.length - 32)) with
      | some m => ⟨0, c.length - 32, if wantM then some m else none⟩
      | none => ⟨-1, 0, if wantM then some (zeros (c.length - 32)) else none⟩ := by
  have hl : (c.take (c.length - 32)).length = c.length - 32 := by simp
  rw [crypto_aead_decrypt_combined _ _ _ _ _ _ h,
    crypto_aead_aegis128l_decrypt_detached_eq wantM _ _ ad npub k hk hn (by simp; omega), if_neg (by omega), hl]
  cases aegis128l_decrypt k npub ad (c.take (c.length - 32)) (c.drop (c.length - 32)) <;> simp [decOutcome]

theorem crypto_aead_aegis256_decrypt_eq (wantM : Bool) (c ad npub k : Bytes) (hk : k.length = 32) (hn : npub.length = 32)
    (h : 32 ≤ c.length) (hc : c.length - 32 ≤ 2 ^ 61 - 1) (ha : ad.length ≤ 2 ^ 61 - 1) :
    crypto_aead_decrypt (A256.variant soft) wantM c ad npub k =
      match aegis256_decrypt k npub ad (c.take (c.length - 32)) (c.drop (c.length - 32)) with
      | some m => ⟨0, c.length - 32, if wantM then some m else none⟩
      | none => ⟨-1, 0, if wantM then some (zeros (c.length - 32)) else none⟩ := by
  have hl : (c.take (c.length - 32)).length = c.length - 32 := by simp
  rw [crypto_aead_decrypt_combined _ _ _ _ _ _ h,
    crypto_aead_aegis256_decrypt_detached_eq wantM _ _ ad npub k hk hn (by simp; omega), if_neg (by omega), hl]
  cases aegis256_decrypt k npub ad (c.take (c.length - 32)) (c.drop (c.length - 32)) <;> simp [decOutcome]

/-! ### non-vacuity -/

example : BackendOk soft := soft_ok
example : (List.replicate 16 (0 : UInt8)).length = 16 ∧ (List.replicate 100 (7 : UInt8)).length < 2 ^ 61 := by decide
/-- the table round on a concrete block agrees with the specification round (kernel evaluation) -/
example : softaes_block_store (softaes_block_encrypt ⟨0x03020100, 0x07060504, 0x0b0a0908, 0x0f0e0d0c⟩ ⟨1, 2, 3, 4⟩) =
    aesRound [0, 1, 2, 3, 4, 5, 6, 7, 8, 9, 10, 11, 12, 13, 14, 15] [1, 0, 0, 0, 2, 0, 0, 0, 3, 0, 0, 0, 4, 0, 0, 0] := by
  decide +kernel

end Sodium.C01Aegis
