import SodiumModel.Model.Aead
import SodiumModel.Proofs.Aead
/-
  C01 — authenticated encryption computes the standard constructions and round-trips.
  The stream cipher keystream, Poly1305 and the H-cores are parameters; what is proved is the
  composition: Poly1305 key from block 0, ciphertext from block 1, the MAC-data layout with the C
  padding arithmetic = RFC 8439, combined = detached ‖ tag, the `block0` staging of secretbox =
  "stream over 0^32 ‖ m", the NaCl zero-padded form, and decrypt ∘ encrypt = id for every length.
-/
open Sodium Sodium.Model Sodium.Model.Aead
namespace Sodium.C01

/-- what the constructions need from the primitives -/
structure PrimsOk (P : Prims) : Prop where
  ks_len : ∀ k n ic len, (P.ks k n ic len).length = len
  mac_len : ∀ k d, (P.mac k d).length = 16
  /-- keystream from block `ic` = keystream from block 0 with 64·ic bytes skipped (C03 offset law) -/
  ks_offset : ∀ k n ic len, P.ks k n ic len = (P.ks k n 0 (64 * ic + len)).drop (64 * ic)
  /-- a shorter request is a prefix of a longer one -/
  ks_prefix : ∀ k n a b, (P.ks k n 0 (a + b)).take a = P.ks k n 0 a

theorem PrimsOk.laws {P : Prims} (hP : PrimsOk P) : StreamLaws P :=
  ⟨hP.ks_len, hP.ks_offset, hP.ks_prefix⟩

/-- RFC 8439 §2.8 pad16 -/
def pad16 (x : Bytes) : Bytes := zeros ((16 - x.length % 16) % 16)

set_option linter.unusedVariables false in
/-- the IETF MAC data computed with `(0x10 - len) & 0xf` is exactly RFC 8439 §2.8
    (2^64 is a multiple of 16, so the identity in fact holds without the two length bounds) -/
theorem ietf_macData_eq_rfc (ad c : Bytes) (ha : ad.length < 2 ^ 64) (hc : c.length < 2 ^ 64) :
    macData .ietf ad c = ad ++ pad16 ad ++ c ++ pad16 c ++ toLE 8 ad.length ++ toLE 8 c.length := by
  simp only [macData, pad16, pad16len_eq]

/-- combined form = detached ciphertext ‖ tag, byte for byte, and 16 bytes longer than the message -/
theorem combined_eq_detached (P : Prims) (hP : PrimsOk P) (f : Flavor) (m ad n k : Bytes) :
    encrypt P f m ad n k = (encryptDetached P f m ad n k).1 ++ (encryptDetached P f m ad n k).2 ∧
    (encrypt P f m ad n k).length = m.length + 16 :=
  ⟨rfl, encrypt_length P hP.ks_len hP.mac_len f m ad n k⟩

/-- decrypting what was encrypted returns the message and its length (detached form) -/
theorem roundtrip_detached (P : Prims) (hP : PrimsOk P) (f : Flavor) (m ad n k : Bytes) :
    decryptDetached P f true (encryptDetached P f m ad n k).1 (encryptDetached P f m ad n k).2 ad n k
      = ⟨0, m.length, some m⟩ :=
  Sodium.roundtrip_detached P hP.ks_len hP.mac_len f m ad n k

/-- … and in combined form -/
theorem roundtrip_combined (P : Prims) (hP : PrimsOk P) (f : Flavor) (m ad n k : Bytes) :
    decrypt P f true (encrypt P f m ad n k) ad n k = ⟨0, m.length, some m⟩ := by
  have hl : (encryptDetached P f m ad n k).2.length = 16 := hP.mac_len _ _
  rw [encrypt, decrypt_combined P f true _ _ ad n k hl]
  exact roundtrip_detached P hP f m ad n k

/-- XChaCha20-Poly1305: the IETF construction under the HChaCha20 subkey and nonce 0^4 ‖ n[16..24]; round trip -/
theorem x_roundtrip (P : Prims) (hP : PrimsOk P) (m ad n k : Bytes) :
    xDecrypt P true (xEncrypt P m ad n k) ad n k = ⟨0, m.length, some m⟩ ∧
    xEncrypt P m ad n k = encrypt P .ietf m ad (zeros 4 ++ (n.drop 16).take 8) (P.hcore (n.take 16) k) :=
  ⟨roundtrip_combined P hP .ietf m ad (xNonce n) (xSubkey P n k), rfl⟩

/-- secretbox: the `block0` staging computes exactly "XOR with the keystream at byte offset 32,
    Poly1305 key = keystream bytes 0..32, tag over the ciphertext" -/
theorem secretbox_detached_eq_spec (P : Prims) (hP : PrimsOk P) (m n k : Bytes) :
    secretboxDetached P m n k =
      let ksAll := P.ks (sbSubkey P n k) (sbNonce n) 0 (32 + m.length)
      let c := xorBytes m (ksAll.drop 32)
      (c, P.mac (ksAll.take 32) c) :=
  secretboxDetached_spec hP.laws m n k

theorem secretbox_easy_eq (P : Prims) (m n k : Bytes) :
    secretboxEasy P m n k = (secretboxDetached P m n k).2 ++ (secretboxDetached P m n k).1 := rfl

theorem secretbox_roundtrip (P : Prims) (hP : PrimsOk P) (m n k : Bytes) :
    secretboxOpenEasy P true (secretboxEasy P m n k) n k = ⟨0, m.length, some m⟩ ∧
    secretboxOpenDetached P true (secretboxDetached P m n k).1 (secretboxDetached P m n k).2 n k = ⟨0, m.length, some m⟩ := by
  have h := secretbox_roundtrip_detached hP.laws hP.mac_len m n k
  refine ⟨?_, h⟩
  rw [secretboxEasy, secretboxOpenEasy_combined _ _ _ _ _ _ (secretboxDetached_snd_length hP.mac_len m n k)]
  exact h

/-- the NaCl zero-padded form agrees with the easy form: box(0^32 ‖ m) = 0^16 ‖ easy(m) -/
theorem nacl_box_eq_easy (P : Prims) (hP : PrimsOk P) (m n k : Bytes) :
    naclBox P (zeros 32 ++ m) n k = .ok (zeros 16 ++ secretboxEasy P m n k) :=
  naclBox_spec hP.laws m n k

/-- … and opens back to 0^32 ‖ m -/
theorem nacl_open_box (P : Prims) (hP : PrimsOk P) (m n k : Bytes) :
    naclOpen P (zeros 16 ++ secretboxEasy P m n k) n k = .ok (zeros 32 ++ m) :=
  naclOpen_spec hP.laws hP.mac_len m n k

/-! non-vacuity: a concrete `Prims` meeting `PrimsOk`, and evaluated instances -/

/-- the toy primitives of `Proofs/Aead.lean` (keystream byte = f(key, nonce, absolute position),
    16-byte checksum MAC) satisfy every hypothesis -/
theorem toyPrims_ok : PrimsOk toyPrims :=
  ⟨toyPrims_ks_len, toyPrims_mac_len, toyPrims_ks_offset, toyPrims_ks_prefix⟩

example : encrypt toyPrims .ietf [1,2,3] [9] [0,1] [5]
    = [199, 207, 215, 224, 92, 165, 105, 111, 48, 34, 200, 5, 243, 201, 178, 139, 244, 149, 220] := by decide
example : decrypt toyPrims .ietf true (encrypt toyPrims .ietf [1,2,3] [9] [0,1] [5]) [9] [0,1] [5]
    = ⟨0, 3, some [1,2,3]⟩ := by decide
example : decrypt toyPrims .orig true (encrypt toyPrims .orig [1,2,3] [9] [0,1] [5]) [9] [0,1] [5]
    = ⟨0, 3, some [1,2,3]⟩ := by decide
example : secretboxEasy toyPrims [1,2,3] [0,1,2,3,4,5,6,7,8,9,10,11,12,13,14,15,16,17,18,19,20,21,22,23] [5,6]
    = [153, 173, 108, 75, 82, 89, 96, 103, 110, 117, 124, 131, 138, 145, 152, 159, 23, 31, 39] := by decide
example : secretboxOpenEasy toyPrims true
    (secretboxEasy toyPrims [1,2,3] [0,1,2,3,4,5,6,7,8,9,10,11,12,13,14,15,16,17,18,19,20,21,22,23] [5,6])
    [0,1,2,3,4,5,6,7,8,9,10,11,12,13,14,15,16,17,18,19,20,21,22,23] [5,6] = ⟨0, 3, some [1,2,3]⟩ := by decide
example : naclBox toyPrims (zeros 32 ++ [1,2,3]) [0,1,2,3,4,5,6,7,8,9,10,11,12,13,14,15,16,17,18,19,20,21,22,23] [5,6]
    = .ok (zeros 16 ++ [153, 173, 108, 75, 82, 89, 96, 103, 110, 117, 124, 131, 138, 145, 152, 159, 23, 31, 39]) := by decide

end Sodium.C01
