import SodiumModel.Proofs.EdSignCodec
import SodiumModel.Proofs.EdSignSlide
import SodiumModel.Proofs.EdSignFull
import SodiumModel.Properties.C07Reduce
/-
  C06 (end to end, PARTIAL) — Ed25519 assembled from the C-structured models: `Model/Ed25519Full.lean`
  (`crypto_sign_ed25519_seed_keypair`, `_crypto_sign_ed25519_detached`, `_crypto_sign_ed25519_verify_detached` in
  statement order over SHA512_Transform, the sc25519 limb code and the ge25519 code over the specification field).
  Property theorems only; lemmas live in `Proofs/EdSign{Decode,Roots,Codec,Slide,Full}.lean` (namespace `EdSignP`).

  What is proved here:
   A. the square-root step of point decoding (RFC 8032 §5.1.3 steps 2–3), in the field GF(2^255−19):
      `ge25519_frombytes` uses the candidate u·(uv)^((p−5)/8), NOT the RFC's u·v³·(uv⁷)^((p−5)/8)
      (`ge25519_frombytes_negate_vartime` and `Spec.F25519.sqrtRatio8032` use the latter); for BOTH, "one of the two
      checks v·c² = ±u passes" ⟺ "x² = (y²−1)/(dy²+1) has a solution", the selected value is a root, and after the
      sign normalisation both formulas return the SAME x, for every y (`root_formulas_agree`);
      v = d·y²+1 never vanishes; the byte-level sign selections of the two C functions are the normalisation
      "parity = bit 255" resp. its negation.
   B. `slide_vartime` is EXACT for scalars below 2^253 (in particular for h, S < L in the verifier): no carry is lost.
   C. the statement-order verifier (streaming hash calls) is the `Model.Sign` verifier over the assembled primitives,
      hence returns 0 iff `C06.Accepts` holds for them (S < L, pk canonical, A and R decode and pass the small-order
      test, final test passes); the hash and scalar primitives of the assembly equal the specifications.
  NOT proved (out of time, see the report): the closed form of `ge25519_frombytes[_negate_vartime]` / `ge25519_p3_tobytes`
  against `Spec.Ed25519.decodeLax` / `encode`, keygen / sign = `Spec.Ed25519`, the group-level reading of the final test,
  completeness.

  THE CODE THAT EXISTS: the final test of open.c is `ge25519_has_small_order(R − p2_to_p3([h](−A) + [S]B)) − 1`, not the
  classical `crypto_verify_32 | sodium_memcmp` comparison of the re-encoded R; R's canonicity is NOT tested
  (only `ge25519_frombytes`, which reduces y mod p), see `Properties/C06.lean` for the order-8 deviation of that test.
-/
open Sodium Sodium.Spec Sodium.Model Sodium.Model.Ge25519 Sodium.Model.Ed25519Full Sodium.EdSignP
open Sodium.RistrettoRefP (F normX)
namespace Sodium.C06Full

/-! ## A. the square-root step -/

/-- v = d·y² + 1 ≠ 0 for every y of GF(p): d is a non-square and −1 is a square -/
theorem denominator_ne_zero (y : F) : ((Ed25519.d : Nat) : F) * (y * y) + 1 ≠ 0 := v_ne_zero y

/-- the candidate of `ge25519_frombytes`, c = u·(uv)^((p−5)/8): for EVERY y (u = y²−1, v = dy²+1, as canonical naturals)
    (1) whatever `pick` selects is a canonical root of v·x² = u; (2) it fails only if there is no root;
    (3) it succeeds iff one of the checks `v·c² == u`, `v·c² == −u` of the C code passes -/
theorem frombytes_candidate_correct (y : Nat) :
    (∀ x, pick (uOf y) (vOf y) (cand1 (uOf y) (vOf y)) = some x → x < F25519.p ∧ Root (uOf y) (vOf y) x) ∧
    (pick (uOf y) (vOf y) (cand1 (uOf y) (vOf y)) = none → ¬ ∃ r : F, ((vOf y : Nat) : F) * (r * r) = ((uOf y : Nat) : F)) ∧
    ((pick (uOf y) (vOf y) (cand1 (uOf y) (vOf y))).isSome =
      (F25519.mul (F25519.sqr (cand1 (uOf y) (vOf y))) (vOf y) == uOf y ||
       F25519.mul (F25519.sqr (cand1 (uOf y) (vOf y))) (vOf y) == F25519.neg (uOf y))) := by
  obtain ⟨a, b, c, -⟩ := pick_spec (c := cand1 (uOf y) (vOf y)) (uOf_lt y) (RistrettoRefP.mul_lt _ _)
    (cand1_hcw (uOf y) (vOf y)) (cand1_hw (vOf_ne y))
  exact ⟨a, b, c⟩

/-- the same for the RFC 8032 candidate c = u·v³·(uv⁷)^((p−5)/8) of `ge25519_frombytes_negate_vartime` -/
theorem rfc_candidate_correct (y : Nat) :
    (∀ x, pick (uOf y) (vOf y) (cand2 (uOf y) (vOf y)) = some x → x < F25519.p ∧ Root (uOf y) (vOf y) x) ∧
    (pick (uOf y) (vOf y) (cand2 (uOf y) (vOf y)) = none → ¬ ∃ r : F, ((vOf y : Nat) : F) * (r * r) = ((uOf y : Nat) : F)) := by
  obtain ⟨a, b, -⟩ := pick_spec (c := cand2 (uOf y) (vOf y)) (uOf_lt y) (RistrettoRefP.mul_lt _ _)
    (cand2_hcw (uOf y) (vOf y)) (cand2_hw (vOf_ne y))
  exact ⟨a, b⟩

/-- the multiplication order of `ge25519_frombytes_negate_vartime` gives the RFC candidate, and
    `Spec.F25519.sqrtRatio8032` is `pick` on it -/
theorem negate_candidate_is_rfc (u v : Nat) (hu : u < F25519.p) :
    cand2' u v = cand2 u v ∧ F25519.sqrtRatio8032 u v = pick u v (cand2 u v) :=
  ⟨cand2'_eq u v, sqrtRatio_eq_pick u v hu⟩

/-- although `ge25519_frombytes` uses a different root formula than RFC 8032, after the sign normalisation both give the
    same x (or both fail), for every y and sign bit -/
theorem root_formulas_agree (y : Nat) (sg : Bool) :
    (pick (uOf y) (vOf y) (cand1 (uOf y) (vOf y))).map (normX · sg) =
    (pick (uOf y) (vOf y) (cand2 (uOf y) (vOf y))).map (normX · sg) := pick_agree y sg

/-- the sign selection of `ge25519_frombytes` (a `cmov` on `isnegative(x) ^ (((s[31] >> 5) ^ optblocker) >> 2)`):
    x is negated iff its parity differs from bit 7 of s[31]; x = 0 stays 0 WHATEVER the sign bit (RFC 8032 rejects
    x = 0 with sign bit 1; the code accepts it as x = 0) -/
theorem frombytes_sign_selection (x : Nat) (z : UInt8) :
    specGe.cmov x (specGe.neg x)
      (specGe.isnegative x ^^^ (((Sign.u8i z >>> 5) ^^^ Sign.u8i optblocker_u8) >>> 2)).toUInt32
      = normX x (decide (128 ≤ z.toNat)) ∧ normX 0 true = 0 :=
  ⟨cmov_sign x z, by decide +kernel⟩

/-- the sign selection of `ge25519_frombytes_negate_vartime`: negated iff the parity EQUALS the sign bit, i.e. the
    result has the opposite sign (it is −x of the point `ge25519_frombytes` returns) -/
theorem frombytes_negate_sign_selection (x : Nat) (z : UInt8) :
    (if specGe.isnegative x = Sign.u8i z >>> 7 then specGe.neg x else x) = normX x (!decide (128 ≤ z.toNat)) :=
  neg_sign x z

/-- non-vacuity: y = 1 (u = 0): both formulas select x = 0; y = 2 has no x (2 is not a y-coordinate of the curve) -/
example : pick (uOf 1) (vOf 1) (cand1 (uOf 1) (vOf 1)) = some 0 ∧ pick (uOf 1) (vOf 1) (cand2 (uOf 1) (vOf 1)) = some 0 ∧
    pick (uOf 2) (vOf 2) (cand1 (uOf 2) (vOf 2)) = none := by decide +kernel

/-! ## B. slide_vartime below 2^253 -/

/-- `slide_vartime` loses no carry for scalars below 2^253: the digits represent the scalar exactly
    (closes the gap left by `C06Ge.slide_vartime_correct`, whose `t` is 0 here; `C06Ge.slide_vartime_loses_carry`
    shows the bound cannot be dropped) -/
theorem slide_vartime_exact (a : Bytes) (ha : a.length = 32) (h : le a < 2 ^ 253) :
    Ge25519P.slideVal (slide_vartime a) = (le a : Int) := slide_exact a ha h

/-- in particular for every canonical scalar (below L), e.g. h = sc25519_reduce(…) and a canonical S -/
theorem slide_vartime_exact_canonical (a : Bytes) (ha : a.length = 32) (h : le a < Ed25519.L) :
    Ge25519P.slideVal (slide_vartime a) = (le a : Int) :=
  slide_exact a ha (Nat.lt_trans h (by decide +kernel))

/-! ## C. the assembled verifier -/

/-- crypto_hash_sha512 init / update* / final over `SHA512_Transform` is FIPS 180-4 SHA-512 of the concatenation;
    `sc25519_reduce` / `sc25519_muladd` (the limb code) are exact mod L -/
theorem assembled_primitives_correct :
    (∀ cs : List Bytes, crypto_hash_sha512_final (cs.foldl crypto_hash_sha512_update crypto_hash_sha512_init)
      = Sha512.hash cs.flatten) ∧
    (∀ b, crypto_hash_sha512 b = Sha512.hash b) ∧
    (∀ s : Bytes, s.length = 64 → ScReduce.sc25519_reduce s = toLE 32 (le s % Ed25519.L)) ∧
    (∀ a b c : Bytes, a.length = 32 → b.length = 32 → c.length = 32 →
      ScReduce.sc25519_muladd a b c = toLE 32 ((le a * le b + le c) % Ed25519.L)) :=
  ⟨sha_chunks, sha_one, C07Reduce.sc25519_reduce_spec, C07Reduce.sc25519_muladd_spec⟩

/-- the hash calls of the verifier (`hinit`, three `update`s, `final`) hash dom2 ‖ R ‖ pk ‖ m, with the DOM2 prefix
    "SigEd25519 no Ed25519 collisions" ‖ 01 ‖ 00 iff `prehashed` -/
theorem verifier_hash (ph : Bool) (r pk m : Bytes) :
    crypto_hash_sha512_final (crypto_hash_sha512_update (crypto_hash_sha512_update (crypto_hash_sha512_update
      (_crypto_sign_ed25519_ref10_hinit ph) r) pk) m) = Sha512.hash (Sign.hinit ph ++ (r ++ (pk ++ m))) := by
  have := hinit_chunks ph [r, pk, m]
  rw [sha_one] at this
  simpa using this

/-- the statement-order model of `_crypto_sign_ed25519_verify_detached` is the `Model.Sign` verifier over the assembled
    primitives (SHA-512 over SHA512_Transform, the limb code, the ge25519 code over the specification field) -/
theorem verify_assembled (sig m pk : Bytes) (ph : Bool) :
    _crypto_sign_ed25519_verify_detached sig m pk ph = Sign.verify_detached fullOps sig m pk ph :=
  verify_full_eq sig m pk ph

/-- hence: it returns 0 iff S < L, the public key is canonical (y < p), decodes (`ge25519_frombytes_negate_vartime`
    returns 0) and is not of small order, R decodes (`ge25519_frombytes`: NO canonicity test on R) and is not of small
    order, and `ge25519_has_small_order` of `R − p2_to_p3([h](−A) + [S]B)` is 1 -/
theorem verify_returns_zero_iff (sig m pk : Bytes) (ph : Bool) (hs : sig.length = 64) (hp : pk.length = 32) :
    _crypto_sign_ed25519_verify_detached sig m pk ph = 0 ↔ C06.Accepts fullOps sig m pk ph := by
  rw [verify_full_eq]; exact (C06.verify_decision fullOps sig m pk ph hs hp).1

end Sodium.C06Full
