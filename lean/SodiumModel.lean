import SodiumModel.Basic
import SodiumModel.Model.Utils
import SodiumModel.Proofs.ByteDecide
import SodiumModel.Proofs.Utils
import SodiumModel.Properties.C14
