/* Demonstration for the C07 finding: crypto_core_ed25519_is_valid_point accepted P + T2 where P is in the
   prime-order subgroup and T2 = (0, -1) is the point of order 2 (element of order 2L, not prime order):
   ge25519_is_on_main_subgroup only tested X(L*P) == 0, which also holds when L*P = (0, -1).
   Exit 0 = rejected (property holds), 1 = accepted. */
#include <sodium.h>
#include <stdio.h>
#include <string.h>
int main(void) {
    unsigned char sk[32], p[32], t2[32], q[32], out[32]; int acc = 0, i;
    if (sodium_init() < 0) return 2;
    memset(t2, 0xff, 32); t2[0] = 0xec; t2[31] = 0x7f;        /* y = p - 1 = -1, x = 0 */
    for (i = 1; i <= 20; i++) {
        memset(sk, 0, 32); sk[0] = (unsigned char) i;
        crypto_scalarmult_ed25519_base_noclamp(p, sk);        /* P = i*B, prime order */
        if (crypto_core_ed25519_add(q, p, t2) != 0) { puts("add failed"); return 2; }
        if (crypto_core_ed25519_is_valid_point(q)) { acc++; printf("accepted order-2L point for i=%d\n", i); }
        memset(sk, 0, 32); sk[0] = 8;
        if (crypto_scalarmult_ed25519_noclamp(out, sk, q) == 0) { acc++; printf("scalarmult_ed25519_noclamp accepted it for i=%d\n", i); }
    }
    if (acc) { printf("NOT rejected: %d acceptances of points outside the prime-order subgroup\n", acc); return 1; }
    puts("all order-2L points rejected");
    return 0;
}
