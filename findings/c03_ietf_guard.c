/* Demonstration for the C03 finding "IETF guard blind spot": crypto_stream_chacha20_ietf_xor_ic with
   mlen > 64*2^32 must be refused through the misuse handler (the request runs past block 2^32).
   Before the fix the guard expression underflows and the call proceeds (here: until it faults on the
   small buffer); after the fix the misuse handler runs.  Exit status: 0 = refused (property holds),
   1 = not refused. */
#include <sodium.h>
#include <stdio.h>
#include <stdlib.h>
#include <sys/wait.h>
#include <unistd.h>
static void on_misuse(void) { _exit(77); }
int main(void) {
    pid_t pid; int st;
    if (sodium_init() < 0) return 2;
    pid = fork();
    if (pid == 0) {
        static unsigned char buf[4096], n[12], k[32];
        sodium_set_misuse_handler(on_misuse);
        crypto_stream_chacha20_ietf_xor_ic(buf, buf, (1ULL << 38) + 1ULL, n, 0U, k);
        _exit(0);
    }
    waitpid(pid, &st, 0);
    if (WIFEXITED(st) && WEXITSTATUS(st) == 77) { puts("refused through the misuse handler"); return 0; }
    if (WIFSIGNALED(st)) printf("NOT refused: the call ran past its buffer (signal %d)\n", WTERMSIG(st));
    else printf("NOT refused: returned normally (status %d)\n", WEXITSTATUS(st));
    return 1;
}
