#!/usr/bin/env python3
"""Tie B for C10: regenerate, from /repo's current source, the implementation-selection decision lists
(`*_pick_best_implementation`, aes256gcm_is_available, the scrypt ternary) and the ISA each selectable
implementation is compiled for (`#pragma GCC target` of the defining file), as Lean data with a kernel-checked
soundness obligation.  Also evaluates the obligation in Python to name the offending entry."""
import os, re, subprocess, sys
sys.path.insert(0, os.path.join(os.path.dirname(os.path.abspath(__file__)), "..", "harness"))
import build_sodium

SRC = build_sodium.SRC
FEATS = ["sse2", "sse3", "ssse3", "sse41", "avx", "avx2", "avx512f", "pclmul", "aesni", "rdrand"]
TARGET_MAP = {"sse2": "sse2", "sse3": "sse3", "ssse3": "ssse3", "sse4.1": "sse41", "avx": "avx", "avx2": "avx2", "avx512f": "avx512f",
              "aes": "aesni", "pclmul": "pclmul", "rdrnd": "rdrand"}
# implementations written in assembly have no target pragma: requirement stated by hand (trusted base);
# the amd64 Salsa20 assembly uses SSE2 only, which is part of the x86-64 baseline (no run-time requirement)
ASM_REQ = {"crypto_scalarmult_curve25519_sandy2x_implementation": ["avx"], "crypto_stream_salsa20_xmm6_implementation": []}
PICKERS = [
    ("chacha20", "crypto_stream/chacha20/stream_chacha20.c", "_crypto_stream_chacha20_pick_best_implementation"),
    ("salsa20", "crypto_stream/salsa20/stream_salsa20.c", "_crypto_stream_salsa20_pick_best_implementation"),
    ("poly1305", "crypto_onetimeauth/poly1305/onetimeauth_poly1305.c", "_crypto_onetimeauth_poly1305_pick_best_implementation"),
    ("curve25519", "crypto_scalarmult/curve25519/scalarmult_curve25519.c", "_crypto_scalarmult_curve25519_pick_best_implementation"),
    ("blake2b", "crypto_generichash/blake2b/ref/blake2b-ref.c", "blake2b_pick_best_implementation"),
    ("argon2", "crypto_pwhash/argon2/argon2-core.c", "argon2_pick_best_implementation"),
    ("aegis128l", "crypto_aead/aegis128l/aead_aegis128l.c", "_crypto_aead_aegis128l_pick_best_implementation"),
    ("aegis256", "crypto_aead/aegis256/aead_aegis256.c", "_crypto_aead_aegis256_pick_best_implementation"),
]


def preprocess(rel, variant):
    inc = ["-I" + os.path.join(SRC, "include"), "-I" + os.path.join(SRC, "include", "sodium")]
    cmd = ["gcc", "-E", "-P"] + build_sodium.defs_for(variant) + inc + build_sodium.mflags(rel) + [os.path.join(SRC, rel)]
    p = subprocess.run(cmd, capture_output=True, text=True)
    if p.returncode != 0:
        raise RuntimeError("preprocess failed: " + rel + p.stderr[-500:])
    return p.stdout


def func_body(txt, name):
    cands = list(re.finditer(r"\b%s\s*\(\s*void\s*\)\s*\{" % re.escape(name), txt))
    if not cands:   # the name may be renamed by a macro (blake2b.h): accept any *pick_best_implementation with feature tests
        cands = [m for m in re.finditer(r"\b\w*%s\s*\(\s*void\s*\)\s*\{" % re.escape(name.split("_", 1)[-1] if not name.startswith("_") else name.lstrip("_")), txt)]
    if not cands:
        raise RuntimeError("function %s not found" % name)
    m = cands[0]
    i = m.end()
    depth = 1
    j = i
    while depth and j < len(txt):
        if txt[j] == "{":
            depth += 1
        elif txt[j] == "}":
            depth -= 1
        j += 1
    return txt[i:j - 1]


def parse_cond(c):
    fs = re.findall(r"sodium_runtime_has_(\w+)\s*\(\s*\)", c)
    rest = re.sub(r"sodium_runtime_has_\w+\s*\(\s*\)", "", c)
    if re.sub(r"[\s&()]", "", rest):
        raise RuntimeError("unsupported condition: " + c)
    return fs


def parse_picker(body):
    """list of (cond_features, impl, returns)"""
    stmts = []
    pos = 0
    tok = re.compile(r"\s*(?:if\s*\((?P<cond>[^{}]*?)\)\s*\{(?P<blk>[^{}]*)\}|(?P<lhs>\w+)\s*=\s*&?\s*(?P<rhs>\w+)\s*;|return\s+0\s*;)", re.S)
    while pos < len(body):
        if not body[pos:].strip():
            break
        m = tok.match(body, pos)
        if not m:
            raise RuntimeError("unsupported statement near: " + body[pos:pos + 80].strip())
        if m.group("cond") is not None:
            blk = m.group("blk")
            a = re.search(r"\w+\s*=\s*&?\s*(\w+)\s*;", blk)
            if not a:
                raise RuntimeError("if-block without assignment: " + blk)
            stmts.append((parse_cond(m.group("cond")), a.group(1), bool(re.search(r"return\s+0\s*;", blk))))
        elif m.group("lhs") is not None:
            stmts.append(([], m.group("rhs"), False))
        else:
            stmts.append(None)   # return 0
            break
        pos = m.end()
    return [s for s in stmts if s is not None]


_defcache = {}


def requirement(impl):
    if impl in ASM_REQ:
        return ASM_REQ[impl], "asm (hand table)"
    if impl in _defcache:
        return _defcache[impl]
    tail_name = impl[len("_sodium_"):] if impl.startswith("_sodium_") else impl      # quirks.h renames (blake2b_* -> _sodium_blake2b_*)
    pat = re.compile(r"^[\w\s\*]*\b%s\b\s*(=\s*\{|\()" % re.escape(tail_name), re.M)
    for rel in build_sodium.sources():
        if not rel.endswith(".c"):
            continue
        txt = open(os.path.join(SRC, rel)).read()
        m = pat.search(txt)
        if m and not re.search(r"\bextern\b[^;]*\b%s\b" % re.escape(impl), txt[max(0, m.start() - 80):m.end()]):
            # is it a definition (followed by a body) rather than a call or declaration?
            tail = txt[m.end() - 1:m.end() + 400]
            if m.group(1).startswith("(") and not re.match(r"\([^;{]*\)\s*\{", tail, re.S):
                continue
            tg = re.search(r'#\s*pragma\s+GCC\s+target\s*\(\s*"([^"]*)"\s*\)', txt)
            req = []
            if tg:
                for t in tg.group(1).split(","):
                    t = t.strip()
                    if t not in TARGET_MAP:
                        raise RuntimeError("unknown target %s in %s" % (t, rel))
                    req.append(TARGET_MAP[t])
            _defcache[impl] = (req, rel)
            return _defcache[impl]
    raise RuntimeError("definition of %s not found" % impl)


def extract(variant="native"):
    out = []
    for (nm, rel, fn) in PICKERS:
        body = func_body(preprocess(rel, variant), fn)
        stmts = parse_picker(body)
        out.append((nm, [(c, impl, ret, requirement(impl)[0], requirement(impl)[1]) for (c, impl, ret) in stmts]))
    # aes256gcm availability: `return A & B & C;`
    try:
        body = func_body(preprocess("crypto_aead/aes256gcm/aesni/aead_aes256gcm_aesni.c", variant), "crypto_aead_aes256gcm_is_available")
        m = re.search(r"return\s+(.*?);", body, re.S)
        gcm = parse_cond(m.group(1)) if "sodium_runtime_has" in m.group(1) else None
    except RuntimeError:
        gcm = None      # build without the AES-NI intrinsics: the stub in aead_aes256gcm.c reports "not available"
    tg = re.search(r'#\s*pragma\s+GCC\s+target\s*\(\s*"([^"]*)"\s*\)', open(os.path.join(SRC, "crypto_aead/aes256gcm/aesni/aead_aes256gcm_aesni.c")).read())
    gcm_req = [TARGET_MAP[t.strip()] for t in tg.group(1).split(",")] if (tg and gcm is not None) else []
    # scrypt ternary
    txt = open(os.path.join(SRC, "crypto_pwhash/scryptsalsa208sha256/crypto_scrypt-common.c")).read()
    sc = re.findall(r"sodium_runtime_has_(\w+)\(\)\s*\?\s*(\w+)\s*:\s*(\w+)", txt)
    for (f, a, b) in sc:
        out.append(("scrypt", [([], b, False, requirement(b)[0], requirement(b)[1]), ([f], a, True, requirement(a)[0], requirement(a)[1])]))
        break
    return out, gcm, gcm_req


ARCH = [("avx512f", "avx2"), ("avx2", "avx"), ("avx", "sse41"), ("sse41", "ssse3"), ("ssse3", "sse3"), ("sse3", "sse2"), ("aesni", "sse2"), ("pclmul", "sse2")]


def closed(fs):
    return all((a not in fs) or (b in fs) for a, b in ARCH)


def select(stmts, fs):
    cur = None
    for (c, impl, ret, req, _) in stmts:
        if all(x in fs for x in c):
            cur = (impl, req)
            if ret:
                break
    return cur


def check(pickers, gcm, gcm_req):
    """python evaluation of the obligation; returns list of offending (picker, featureset, impl, missing)"""
    bad = []
    import itertools
    for mask in range(1 << len(FEATS)):
        fs = {FEATS[i] for i in range(len(FEATS)) if mask >> i & 1}
        if not closed(fs):
            continue
        for (nm, stmts) in pickers:
            s = select(stmts, fs)
            if s is None:
                bad.append((nm, sorted(fs), None, ["no implementation selected"]))
                continue
            miss = [r for r in s[1] if r not in fs]
            if miss:
                bad.append((nm, sorted(fs), s[0], miss))
        if gcm is not None and all(x in fs for x in gcm):
            miss = [r for r in gcm_req if r not in fs]
            if miss:
                bad.append(("aes256gcm", sorted(fs), "aesni", miss))
    return bad


def emit_lean(pickers, gcm, gcm_req, path):
    idx = {f: i for i, f in enumerate(FEATS)}
    L = ["/- GENERATED by tools/c2lean_pickers.py from /repo's current source on every run. Do not edit. -/",
         "namespace Sodium.Generated", "",
         "/-- (condition features, implementation, returns immediately, ISA the implementation is compiled for) -/",
         "abbrev Stmt := List Nat × String × Bool × List Nat", "",
         "def pickers : List (String × List Stmt) := ["]
    rows = []
    for (nm, stmts) in pickers:
        ss = ", ".join('([%s], "%s", %s, [%s])' % (", ".join(str(idx[x]) for x in c), impl, "true" if ret else "false", ", ".join(str(idx[x]) for x in req))
                       for (c, impl, ret, req, _) in stmts)
        rows.append('  ("%s", [%s])' % (nm, ss))
    L.append(",\n".join(rows))
    L.append("]")
    L.append("")
    L.append("def gcmAvailableCond : List Nat := [%s]" % ", ".join(str(idx[x]) for x in (gcm or [])))
    L.append("def gcmRequires : List Nat := [%s]" % ", ".join(str(idx[x]) for x in gcm_req))
    L.append("")
    L.append("end Sodium.Generated")
    open(path, "w").write("\n".join(L) + "\n")


if __name__ == "__main__":
    pk, gcm, gr = extract(sys.argv[1] if len(sys.argv) > 1 else "native")
    for nm, st in pk:
        print(nm)
        for s in st:
            print("   ", s)
    print("gcm", gcm, gr)
    print("offending:", check(pk, gcm, gr)[:5])
