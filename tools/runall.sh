#!/bin/bash
# usage: tools/runall.sh [tier]  — runs every registered check on the current tree and prints one line per property
tier=${1:-quick}
cd /verif
for p in $(python3 -c "import json; print(' '.join(c['property_id'] for c in json.load(open('MANIFEST.json'))['checks']))"); do
  out=$(timeout 7200 python3 tools/check.py $p --tier $tier 2>&1); rc=$?
  echo "$p exit=$rc $(echo "$out" | grep -c '^VIOLATION') violations, $(echo "$out" | grep -c '^KNOWN-FINDING') known; $(echo "$out" | tail -1)"
done
