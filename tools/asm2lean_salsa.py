#!/usr/bin/env python3
"""asm2lean_salsa.py — salsa20_xmm6-asm.S (AT&T syntax) -> Generated/SalsaXmm6Asm.lean

    python3 asm2lean_salsa.py [path/to/salsa20_xmm6-asm.S] [out.lean]

Every line of the .S file must be one of: a preprocessor line, a known assembler directive, a label, `_CET_ENDBR`,
or an instruction of the subset that `SodiumModel/Model/X86Sse.lean` gives a meaning to, with operands of the
expected kind. ANYTHING ELSE IS AN ERROR (TranslateError, exit status 2): an unknown mnemonic is never skipped.

Output: `prog : Array Instr` (one entry per instruction, in file order, with the source line as a comment),
`labels : List (String × Nat)` (label -> index of the next instruction), the two entry points, and one lemma
`fetch_<i> : prog[i]? = some …` per instruction (so that proofs fetch in constant time); jump targets are resolved
to indices here and re-checked in Lean (`jumps_resolved`, by `decide`, compares them with `labels`).
"""
import os, re, sys

DEFAULT_SRC = "/repo/src/libsodium/crypto_stream/salsa20/xmm6/salsa20_xmm6-asm.S"


class TranslateError(Exception):
    pass


R64 = ["rax", "rcx", "rdx", "rbx", "rsp", "rbp", "rsi", "rdi", "r8", "r9", "r10", "r11", "r12", "r13", "r14", "r15"]
R32 = {"eax": "rax", "ecx": "rcx", "edx": "rdx", "ebx": "rbx", "esp": "rsp", "ebp": "rbp", "esi": "rsi", "edi": "rdi"}
for _i in range(8, 16):
    R32["r%dd" % _i] = "r%d" % _i

DIRECTIVES = (".text", ".p2align", ".globl", ".type", ".section")
JCC = {"jb": "b", "jae": "ae", "jbe": "be", "ja": "a"}


def parse_int(s, where):
    s = s.strip()
    try:
        total = 0
        for part in s.split("+"):
            total += int(part.strip(), 0)
        return total
    except ValueError:
        raise TranslateError("%s: cannot evaluate the integer expression %r" % (where, s))


def parse_operand(o, where):
    """-> ('r64', name) | ('r32', name64) | ('x', n) | ('imm', v) | ('mem', disp, base)"""
    o = o.strip()
    if o.startswith("$"):
        return ("imm", parse_int(o[1:], where))
    if o.startswith("%"):
        n = o[1:]
        if n in R64:
            return ("r64", n)
        if n in R32:
            return ("r32", R32[n])
        m = re.fullmatch(r"xmm(\d+)", n)
        if m and int(m.group(1)) < 16:
            return ("x", int(m.group(1)))
        raise TranslateError("%s: unknown register %r" % (where, o))
    m = re.fullmatch(r"([0-9+ x]*)\(%([a-z0-9]+)\)", o)
    if m:
        if m.group(2) not in R64:
            raise TranslateError("%s: base register %r is not a 64-bit register" % (where, m.group(2)))
        disp = parse_int(m.group(1), where) if m.group(1).strip() else 0
        if not (0 <= disp < 2 ** 31):
            raise TranslateError("%s: displacement %d out of the supported range" % (where, disp))
        return ("mem", disp, m.group(2))
    raise TranslateError("%s: unsupported operand %r" % (where, o))


def R(n):
    return ".%s" % n


def M(op):
    return "⟨%d, .%s⟩" % (op[1], op[2])


def imm31(v, where):
    if not (0 <= v < 2 ** 31):
        raise TranslateError("%s: immediate %d is outside [0, 2^31) (sign extension not modelled)" % (where, v))
    return v


def translate_instr(mn, ops, where):
    """-> Lean term of type Instr, or ('jump', cond|None, label)"""
    k = tuple(o[0] for o in ops)
    if mn == "_CET_ENDBR" and not ops:
        return "Instr.nop"
    if mn == "ret" and not ops:
        return "Instr.ret"
    if mn == "mov":
        if k == ("r64", "r64"):
            return "Instr.movRR %s %s" % (R(ops[0][1]), R(ops[1][1]))
        if k == ("imm", "r64"):
            return "Instr.movIR %d %s" % (imm31(ops[0][1], where), R(ops[1][1]))
    if mn == "movq":
        if k == ("r64", "mem"):
            return "Instr.movqRM %s %s" % (R(ops[0][1]), M(ops[1]))
        if k == ("mem", "r64"):
            return "Instr.movqMR %s %s" % (M(ops[0]), R(ops[1][1]))
        if k == ("imm", "mem"):
            return "Instr.movqIM %d %s" % (imm31(ops[0][1], where), M(ops[1]))
    if mn == "movl":
        if k == ("mem", "r32"):
            return "Instr.movlMR %s %s" % (M(ops[0]), R(ops[1][1]))
        if k == ("r32", "mem"):
            return "Instr.movlRM %s %s" % (R(ops[0][1]), M(ops[1]))
    if mn == "leaq" and k == ("mem", "r64"):
        return "Instr.lea %s %s" % (M(ops[0]), R(ops[1][1]))
    if mn in ("and", "add", "sub", "cmp") and k == ("imm", "r64"):
        return "Instr.%sIR %d %s" % (mn, imm31(ops[0][1], where), R(ops[1][1]))
    if mn in ("add", "sub", "xor") and k == ("r64", "r64"):
        return "Instr.%sRR %s %s" % (mn, R(ops[0][1]), R(ops[1][1]))
    if mn == "shr" and k == ("imm", "r64"):
        if not (1 <= ops[0][1] <= 63):
            raise TranslateError("%s: shift count %d not in 1..63" % (where, ops[0][1]))
        return "Instr.shrIR %d %s" % (ops[0][1], R(ops[1][1]))
    if mn == "xorl" and k == ("mem", "r32"):
        return "Instr.xorlMR %s %s" % (M(ops[0]), R(ops[1][1]))
    if mn == "movdqa":
        if k == ("mem", "x"):
            return "Instr.movdqaMX %s %d" % (M(ops[0]), ops[1][1])
        if k == ("x", "mem"):
            return "Instr.movdqaXM %d %s" % (ops[0][1], M(ops[1]))
        if k == ("x", "x"):
            return "Instr.movdqaXX %d %d" % (ops[0][1], ops[1][1])
    if mn == "paddd":
        if k == ("x", "x"):
            return "Instr.padddXX %d %d" % (ops[0][1], ops[1][1])
        if k == ("mem", "x"):
            return "Instr.padddMX %s %d" % (M(ops[0]), ops[1][1])
    if mn == "pxor" and k == ("x", "x"):
        return "Instr.pxorXX %d %d" % (ops[0][1], ops[1][1])
    if mn in ("pslld", "psrld") and k == ("imm", "x"):
        if not (0 <= ops[0][1] <= 255):
            raise TranslateError("%s: shift count out of range" % where)
        return "Instr.%sIX %d %d" % (mn, ops[0][1], ops[1][1])
    if mn == "pshufd" and k == ("imm", "x", "x"):
        if not (0 <= ops[0][1] <= 255):
            raise TranslateError("%s: pshufd immediate out of range" % where)
        return "Instr.pshufd %d %d %d" % (ops[0][1], ops[1][1], ops[2][1])
    if mn == "movd" and k == ("x", "r64"):
        return "Instr.movdXR %d %s" % (ops[0][1], R(ops[1][1]))
    raise TranslateError("%s: unknown mnemonic or operand combination: %s %s" % (where, mn, ", ".join(str(o) for o in ops)))


def split_operands(s):
    out, depth, cur = [], 0, ""
    for ch in s:
        if ch == "(":
            depth += 1
        if ch == ")":
            depth -= 1
        if ch == "," and depth == 0:
            out.append(cur)
            cur = ""
        else:
            cur += ch
    if cur.strip():
        out.append(cur)
    return out


def translate(text, name="salsa20_xmm6-asm.S"):
    """-> (instrs: [(lean term, source line number, source text)], labels: [(name, index)])"""
    instrs, labels, pending = [], [], []
    for ln, raw in enumerate(text.split("\n"), 1):
        where = "%s:%d" % (name, ln)
        line = raw.strip()
        if not line:
            continue
        if line.startswith("#"):
            if not re.match(r"#\s*(if|ifdef|ifndef|endif|include|else|define)\b", line):
                raise TranslateError("%s: unknown preprocessor line %r" % (where, line))
            continue
        if line.startswith("ASM_HIDE_SYMBOL "):
            continue
        m = re.fullmatch(r"([A-Za-z_.][A-Za-z0-9_.]*):", line)
        if m:
            labels.append((m.group(1), len(instrs)))
            continue
        if line.startswith(".") and line.split()[0] in DIRECTIVES:
            continue
        if line.startswith("."):
            raise TranslateError("%s: unknown directive %r" % (where, line))
        parts = line.split(None, 1)
        mn = parts[0]
        rest = parts[1].strip() if len(parts) > 1 else ""
        if mn == "rep":
            if rest == "stosb":
                instrs.append(("Instr.repStosb", ln, line))
            elif rest == "movsb":
                instrs.append(("Instr.repMovsb", ln, line))
            else:
                raise TranslateError("%s: unknown mnemonic: rep %s" % (where, rest))
            continue
        if mn in JCC or mn == "jmp":
            if not re.fullmatch(r"[A-Za-z_.][A-Za-z0-9_.]*", rest):
                raise TranslateError("%s: jump target %r is not a label" % (where, rest))
            instrs.append((("jump", JCC.get(mn), rest), ln, line))
            continue
        ops = [parse_operand(o, where) for o in split_operands(rest)]
        instrs.append((translate_instr(mn, ops, where), ln, line))
    lab = {}
    for (n, i) in labels:
        if n in lab:
            raise TranslateError("%s: label %s defined twice" % (name, n))
        lab[n] = i
    out = []
    for (t, ln, src) in instrs:
        if isinstance(t, tuple):
            _, c, target = t
            if target not in lab:
                raise TranslateError("%s:%d: undefined label %s" % (name, ln, target))
            t = ("Instr.jcc .%s %d" % (c, lab[target])) if c else ("Instr.jmp %d" % lab[target])
            out.append((t, ln, src, target))
        else:
            out.append((t, ln, src, None))
    for need in ("stream_salsa20_xmm6", "stream_salsa20_xmm6_xor_ic"):
        if need not in lab:
            raise TranslateError("%s: entry point %s not found" % (name, need))
    return out, labels


def emit(text, name="salsa20_xmm6-asm.S"):
    instrs, labels = translate(text, name)
    L = []
    L.append("/- GENERATED by tools_new/asm2lean_salsa.py from the current text of crypto_stream/salsa20/xmm6/%s on every run. Do not edit. -/" % name)
    L.append("import SodiumModel.Model.X86Sse")
    L.append("namespace Generated.SalsaXmm6Asm")
    L.append("open Sodium.Model.X86Sse")
    L.append("")
    CH = 32
    nblk = (len(instrs) + CH - 1) // CH
    for b in range(nblk):
        L.append("def blk_%d : Array Instr := #[" % b)
        part = instrs[b * CH:(b + 1) * CH]
        for j, (t, ln, src, _) in enumerate(part):
            L.append("  /- %4d  l.%-4d %-28s -/ %s%s" % (b * CH + j, ln, re.sub(r"\s+", " ", src), t, "," if j + 1 < len(part) else ""))
        L.append("]")
    L.append("")
    L.append("/-- the instructions of the file, in order (%d), in blocks of %d (`Program.fetch`) -/" % (len(instrs), CH))
    L.append("def prog : Program := #[%s]" % ", ".join("blk_%d" % b for b in range(nblk)))
    L.append("")
    L.append("/-- label -> index of the instruction that follows it -/")
    L.append("def labels : List (String × Nat) := [")
    L.append(",\n".join('  ("%s", %d)' % (n, i) for (n, i) in labels))
    L.append("]")
    L.append("")
    L.append("/-- (index of a jump, the label it names) -/")
    L.append("def jumps : List (Nat × String) := [")
    L.append(",\n".join('  (%d, "%s")' % (i, tg) for i, (_, _, _, tg) in enumerate(instrs) if tg))
    L.append("]")
    L.append("")
    lab = dict(labels)
    L.append("def entry_stream : Nat := %d" % lab["stream_salsa20_xmm6"])
    L.append("def entry_xor_ic : Nat := %d" % lab["stream_salsa20_xmm6_xor_ic"])
    L.append("")
    L.append("def targetOf : Instr → Option Nat")
    L.append("  | .jcc _ t => some t")
    L.append("  | .jmp t => some t")
    L.append("  | _ => none")
    L.append("")
    L.append("/-- every jump goes to the index the label table gives for the label it names, and nothing else is a jump -/")
    L.append("theorem jumps_resolved :")
    L.append("    (jumps.all fun (i, l) => ((prog.fetch i).bind targetOf) == labels.lookup l && (labels.lookup l).isSome) = true ∧")
    L.append("    ((List.range %d).all fun i => ((prog.fetch i).bind targetOf).isSome == (jumps.lookup i).isSome) = true := by" % (len(instrs) + CH))
    L.append("  decide +kernel")
    L.append("")
    for i, (t, ln, src, _) in enumerate(instrs):
        L.append("@[simp] theorem fetch_%d : prog.fetch %d = some (%s) := rfl" % (i, i, t))
    L.append("")
    L.append("end Generated.SalsaXmm6Asm")
    return "\n".join(L) + "\n"


def main(argv):
    src = argv[1] if len(argv) > 1 else DEFAULT_SRC
    here = os.path.dirname(os.path.abspath(__file__))
    out = argv[2] if len(argv) > 2 else os.path.join(os.path.dirname(here), "Generated", "SalsaXmm6Asm.lean")
    try:
        text = emit(open(src).read(), os.path.basename(src))
    except TranslateError as e:
        sys.stderr.write("asm2lean_salsa: TRANSLATION REFUSED: %s\n" % e)
        return 2
    if os.path.exists(out) and open(out).read() == text:
        print("unchanged %s" % out)
        return 0
    with open(out, "w") as fh:
        fh.write(text)
    print("wrote %s" % out)
    return 0


if __name__ == "__main__":
    sys.exit(main(sys.argv))
