#!/usr/bin/env python3
"""C20 Tie B translator: C source -> allocation skeletons in AllocLang (lean/SodiumModel/Model/AllocLang.lean).

Runs clang-14 `-Xclang -ast-dump=json` over the files on the allocation paths of password hashing and guarded
allocation (FILES), and for every public entry point (ENTRIES) emits ONE closed AllocLang program in which all
calls of functions that (transitively) allocate, release or abort are INLINED (`Prog.call`), by-name for pointer /
address arguments (`f(&instance)` makes `instance->region` inside `f` the caller's `instance.region`).

What is kept:   malloc / calloc / mmap (request), free / munmap (release), assignments whose right-hand side is a
                constant, NULL, `&x`, a tracked variable or pointer arithmetic on one, tests `v == c` / `v != c` /
                `v` / `!v` of such variables, `return`, calls of noreturn functions (crash), `switch` with returning cases.
What is abstracted: every other condition atom becomes a NAMED BOOLEAN INPUT "<function>: <expression>"; the result of a
                call of a function outside the skeleton assigned to a variable is 0 / -1 (int) or non-NULL / NULL
                (pointer) according to a named input "<function>: <call> == 0" / "... != NULL".
Assumptions (trusted, also written into the generated file): munmap / free do not fail; loops contain no skeleton
                statements (REFUSED otherwise); `assert` is not modelled; indirect calls other than through a local
                function pointer assigned `c ? f : g` are outside the skeleton.
Anything else that touches a skeleton statement makes the translator REFUSE (exception naming function + construct).
"""
import json, os, re, subprocess, sys
from concurrent.futures import ThreadPoolExecutor

HERE = os.path.dirname(os.path.abspath(__file__))
for p in ("/verif/harness", os.path.join(HERE, "..", "..", "harness"), os.path.join(HERE, "..", "harness")):
    if os.path.isdir(p):
        sys.path.insert(0, p)
        break
import build_sodium as B  # noqa: E402

CLANG = os.environ.get("C2LEAN_CLANG", "clang-14")

FILES = [
    "crypto_pwhash/crypto_pwhash.c",
    "crypto_pwhash/argon2/argon2.c",
    "crypto_pwhash/argon2/argon2-core.c",
    "crypto_pwhash/argon2/pwhash_argon2i.c",
    "crypto_pwhash/argon2/pwhash_argon2id.c",
    "crypto_pwhash/scryptsalsa208sha256/scrypt_platform.c",
    "crypto_pwhash/scryptsalsa208sha256/crypto_scrypt-common.c",
    "crypto_pwhash/scryptsalsa208sha256/pwhash_scryptsalsa208sha256.c",
    "crypto_pwhash/scryptsalsa208sha256/nosse/pwhash_scryptsalsa208sha256_nosse.c",
    "crypto_pwhash/scryptsalsa208sha256/sse/pwhash_scryptsalsa208sha256_sse.c",
    "sodium/utils.c",
]

# (entry point, return kind)   api: int, error = -1;  code: ARGON2_* code, error != 0;  ptr: error = NULL, block returned
ENTRIES = [
    ("crypto_pwhash", "api"), ("crypto_pwhash_str", "api"), ("crypto_pwhash_str_alg", "api"),
    ("crypto_pwhash_str_verify", "api"), ("crypto_pwhash_str_needs_rehash", "api"),
    ("crypto_pwhash_argon2i", "api"), ("crypto_pwhash_argon2i_str", "api"),
    ("crypto_pwhash_argon2i_str_verify", "api"), ("crypto_pwhash_argon2i_str_needs_rehash", "api"),
    ("crypto_pwhash_argon2id", "api"), ("crypto_pwhash_argon2id_str", "api"),
    ("crypto_pwhash_argon2id_str_verify", "api"), ("crypto_pwhash_argon2id_str_needs_rehash", "api"),
    ("crypto_pwhash_scryptsalsa208sha256", "api"), ("crypto_pwhash_scryptsalsa208sha256_ll", "api"),
    ("crypto_pwhash_scryptsalsa208sha256_str", "api"), ("crypto_pwhash_scryptsalsa208sha256_str_verify", "api"),
    ("crypto_pwhash_scryptsalsa208sha256_str_needs_rehash", "api"),
    ("argon2_hash", "code"), ("argon2_verify", "code"),
    ("argon2i_hash_encoded", "code"), ("argon2i_hash_raw", "code"), ("argon2id_hash_encoded", "code"),
    ("argon2id_hash_raw", "code"), ("argon2i_verify", "code"), ("argon2id_verify", "code"),
    ("sodium_malloc", "ptr"), ("sodium_allocarray", "ptr"),
]

REQ = {"malloc": "malloc", "calloc": "calloc", "mmap": "mmap"}
REL = {"free": False, "munmap": True}
CRASH = {"sodium_misuse", "abort", "_out_of_bounds", "__assert_fail"}
REFUSED_PRIMS = {"posix_memalign", "realloc", "aligned_alloc", "VirtualAlloc", "mremap"}
NONNULL = -2


class Refuse(Exception):
    pass


def strip(e):
    while e.get("kind") in ("ParenExpr", "ImplicitCastExpr", "CStyleCastExpr", "ConstantExpr"):
        e = e["inner"][0]
    return e


def is_ptr(e):
    t = e.get("type", {})
    q = t.get("desugaredQualType") or t.get("qualType", "")
    return "*" in q or "[" in q


def pp(e):
    """source-like rendering of an expression (names of the inputs)"""
    k = e.get("kind")
    inner = e.get("inner", [])
    if k in ("ParenExpr",):
        return "(" + pp(inner[0]) + ")"
    if k in ("ImplicitCastExpr", "ConstantExpr"):
        return pp(inner[0])
    if k == "CStyleCastExpr":
        s = strip(e)
        if s.get("kind") == "IntegerLiteral" and s.get("value") == "0" and is_ptr(e):
            return "NULL"
        return pp(inner[0])
    if k == "DeclRefExpr":
        return e["referencedDecl"].get("name", "?")
    if k == "MemberExpr":
        return pp(inner[0]) + ("->" if e.get("isArrow") else ".") + e.get("name", "?")
    if k in ("IntegerLiteral", "CharacterLiteral"):
        return str(e.get("value"))
    if k == "StringLiteral":
        return e.get("value", '""')
    if k == "UnaryOperator":
        return (pp(inner[0]) + e["opcode"]) if e.get("isPostfix") else (e["opcode"] + pp(inner[0]))
    if k in ("BinaryOperator", "CompoundAssignOperator"):
        return pp(inner[0]) + " " + e["opcode"] + " " + pp(inner[1])
    if k == "CallExpr":
        return pp(inner[0]) + "(…)"
    if k == "UnaryExprOrTypeTraitExpr":
        return e.get("name", "sizeof") + "(…)"
    if k == "ConditionalOperator":
        return pp(inner[0]) + " ? " + pp(inner[1]) + " : " + pp(inner[2])
    if k == "ArraySubscriptExpr":
        return pp(inner[0]) + "[" + pp(inner[1]) + "]"
    return k or "?"


def walk(n):
    yield n
    for c in n.get("inner", []) or []:
        if isinstance(c, dict):
            yield from walk(c)


# ------------------------------------------------------------------------------------------------
# parsing

def clang_cmd(rel, outdir):
    inc = B.include_flags() + B.ensure_version_h(outdir)
    return [CLANG, "-fsyntax-only", "-w", "-Xclang", "-ast-dump=json"] + B.defs_for("native") + inc + \
        B.mflags(rel) + [os.path.join(B.SRC, rel)]


def parse_file(args):
    rel, outdir = args
    p = subprocess.run(clang_cmd(rel, outdir), capture_output=True)
    if p.returncode != 0:
        raise Refuse("clang failed on %s: %s" % (rel, p.stderr.decode()[-1500:]))
    root = json.loads(p.stdout)
    funs, enums = {}, {}
    for n in root.get("inner", []):
        if n.get("kind") == "FunctionDecl":
            body = [c for c in n.get("inner", []) if c.get("kind") == "CompoundStmt"]
            if body:
                params = [c for c in n.get("inner", []) if c.get("kind") == "ParmVarDecl"]
                funs[n["name"]] = {"name": n["name"], "file": rel, "body": body[0],
                                   "params": [(c.get("name", "_"), c["id"]) for c in params],
                                   "rettype": n["type"]["qualType"].split("(")[0].strip()}
        elif n.get("kind") in ("EnumDecl", "TypedefDecl"):
            for en in walk(n):
                if en.get("kind") == "EnumDecl":
                    cur = -1
                    for c in en.get("inner", []):
                        if c.get("kind") != "EnumConstantDecl":
                            continue
                        val = None
                        for x in walk(c):
                            if x.get("kind") == "ConstantExpr" and "value" in x:
                                val = int(x["value"])
                                break
                        cur = val if val is not None else cur + 1
                        enums[c["name"]] = cur
    return rel, funs, enums


def load(repo_src=None, outdir=os.path.join(os.environ.get("TMPDIR", "/var/tmp"), "verif-alloc-ast")):
    if repo_src:
        B.SRC = repo_src
        B.REPO = os.path.dirname(os.path.dirname(repo_src.rstrip("/")))
    os.makedirs(outdir, exist_ok=True)
    with ThreadPoolExecutor(max_workers=8) as ex:
        res = list(ex.map(parse_file, [(r, outdir) for r in FILES]))
    funs, enums, dups = {}, {}, {}
    for rel, f, en in res:
        for k, v in f.items():
            if k in funs:
                dups[k] = (funs[k]["file"], rel)      # header inline functions; refused below if they matter
            funs[k] = v
        enums.update(en)
    relevant = relevant_set(funs)
    for k, (a, b) in dups.items():
        if k in relevant or k in dict(ENTRIES) or k[8:] in dict(ENTRIES):
            raise Refuse("skeleton function %s defined in both %s and %s" % (k, a, b))
    return funs, enums


def relevant_set(funs):
    """functions whose body (transitively) requests / releases memory or aborts"""
    prim = set(REQ) | set(REL) | CRASH | REFUSED_PRIMS
    refs = {}
    for name, f in funs.items():
        s = set()
        for n in walk(f["body"]):
            if n.get("kind") == "DeclRefExpr" and n["referencedDecl"].get("kind") == "FunctionDecl":
                s.add(n["referencedDecl"]["name"])
        refs[name] = s
    rel = {n for n, s in refs.items() if s & prim}
    # functions that store a pointer through a pointer parameter (`region->base = NULL`) initialise tracked state
    for name, f in funs.items():
        for n in walk(f["body"]):
            if n.get("kind") == "BinaryOperator" and n.get("opcode") == "=" and is_ptr(n):
                l = strip(n["inner"][0])
                if l.get("kind") in ("MemberExpr", "UnaryOperator"):
                    roots = [x for x in walk(l) if x.get("kind") == "DeclRefExpr"]
                    if roots and all(x["referencedDecl"]["kind"] == "ParmVarDecl" for x in roots) and \
                            (l.get("isArrow") or l.get("kind") == "UnaryOperator"):
                        rel.add(name)
    changed = True
    while changed:
        changed = False
        for n, s in refs.items():
            if n not in rel and s & rel:
                rel.add(n)
                changed = True
    return rel


# ------------------------------------------------------------------------------------------------
# translation of one entry point

class Tr:
    def __init__(self, funs, enums, relevant, tainted):
        self.funs, self.enums, self.relevant = funs, enums, relevant
        self.tainted = tainted          # variables that receive a value the translator cannot follow
        self.new_tainted = set()
        self.input_names = {}           # name -> count (for #n suffixes)
        self.tmp = 0
        self.stack = []
        self.notes = []

    # --- helpers
    def fresh_input(self, fn, text):
        base = "%s: %s" % (fn, text)
        n = self.input_names.get(base, 0) + 1
        self.input_names[base] = n
        return base if n == 1 else "%s #%d" % (base, n)

    def fresh_tmp(self, fn, what):
        self.tmp += 1
        return "%s.$%s%d" % (fn, what, self.tmp)

    # --- values:  ('const', n) | ('var', path) | ('addr', path|None) | ('unk', text)
    def lv(self, e, cx):
        e0 = e
        while e.get("kind") in ("ParenExpr",):
            e = e["inner"][0]
        k = e.get("kind")
        if k == "ImplicitCastExpr" and e.get("castKind") in ("NoOp", "LValueToRValue"):
            return self.lv(e["inner"][0], cx)
        if k == "DeclRefExpr":
            rd = e["referencedDecl"]
            if rd["kind"] == "ParmVarDecl":
                v = cx["subst"].get(rd["id"])
                if v and v[0] == "var":
                    return v[1]
                return None
            if rd["kind"] == "VarDecl":
                if rd["id"] in cx["locals"]:
                    return "%s.%s" % (cx["fn"], rd["name"])
                return None
            return None
        if k == "MemberExpr":
            if e.get("isArrow"):
                b = self.val(e["inner"][0], cx)
                if b[0] == "addr" and b[1]:
                    return b[1] + "." + e["name"]
                if b[0] == "var":
                    return b[1] + "->" + e["name"]
                return None
            b = self.lv(e["inner"][0], cx)
            return None if b is None else b + "." + e["name"]
        if k == "UnaryOperator" and e.get("opcode") == "*":
            b = self.val(e["inner"][0], cx)
            if b[0] == "addr" and b[1]:
                return b[1]
            if b[0] == "var":
                return b[1] + "->*"
            return None
        return None

    def val(self, e, cx):
        k = e.get("kind")
        if k in ("ParenExpr", "ConstantExpr"):
            return self.val(e["inner"][0], cx)
        if k in ("ImplicitCastExpr", "CStyleCastExpr"):
            ck = e.get("castKind")
            if ck == "ArrayToPointerDecay":
                p = self.lv(e["inner"][0], cx)
                return ("addr", p)
            if ck == "FunctionToPointerDecay":
                return ("addr", None)
            if ck in ("IntegralToBoolean", "PointerToBoolean", "IntegralToFloating", "FloatingToIntegral"):
                return ("unk", pp(e))
            return self.val(e["inner"][0], cx)
        if k == "IntegerLiteral":
            return ("const", int(e["value"]))
        if k == "GNUNullExpr":
            return ("const", 0)
        if k == "DeclRefExpr":
            rd = e["referencedDecl"]
            if rd["kind"] == "EnumConstantDecl":
                if rd["name"] in self.enums:
                    return ("const", self.enums[rd["name"]])
                return ("unk", rd["name"])
            if rd["kind"] == "ParmVarDecl":
                v = cx["subst"].get(rd["id"])
                if v is None:
                    return ("unk", rd.get("name", "?"))
                if v[0] == "var" and v[1] in self.tainted:
                    return ("unk", pp(e))
                return v
            p = self.lv(e, cx)
            if p is None or p in self.tainted:
                return ("unk", pp(e))
            return ("var", p)
        if k in ("MemberExpr",) or (k == "UnaryOperator" and e.get("opcode") == "*"):
            p = self.lv(e, cx)
            if p is None or p in self.tainted:
                return ("unk", pp(e))
            return ("var", p)
        if k == "UnaryOperator":
            op = e.get("opcode")
            if op == "&":
                return ("addr", self.lv(e["inner"][0], cx))
            if op == "-":
                v = self.val(e["inner"][0], cx)
                if v[0] == "const":
                    return ("const", -v[1])
            return ("unk", pp(e))
        if k == "BinaryOperator" and e.get("opcode") in ("+", "-") and is_ptr(e):
            a, b = e["inner"]
            base = a if is_ptr(a) else b
            v = self.val(base, cx)
            if v[0] in ("var", "addr"):
                return v            # a pointer into the same block
            return ("unk", pp(e))
        return ("unk", pp(e))

    # --- statements: programs are nested python tuples
    #   ('skip',) ('req',kind,var) ('rel',unmap,var) ('set',var,rhs) ('blk',[..]) ('ite',cond,t,e) ('ret',rhs) ('crash',)
    #   ('call',fname,dst,body)     rhs: ('const',n) | ('var',v)      cond: ('tt',) ('ff',) ('input',name) ('eq',v,c) ('not',c) ('and',a,b) ('or',a,b)
    def callee_name(self, call):
        c = strip(call["inner"][0])
        if c.get("kind") == "DeclRefExpr":
            return c["referencedDecl"].get("kind"), c["referencedDecl"].get("name"), c
        return None, None, c

    def has_skeleton(self, n):
        for x in walk(n):
            if x.get("kind") == "ReturnStmt":
                return True
            if x.get("kind") == "CallExpr":
                kind, name, c = self.callee_name(x)
                if kind == "FunctionDecl" and (name in REQ or name in REL or name in CRASH or name in REFUSED_PRIMS or
                                               (name in self.relevant and name in self.funs)):
                    return True
                if kind == "VarDecl":
                    return True
        return False

    def taint_out_params(self, e, cx):
        """locals passed by address to a call that is abstracted away are out-parameters"""
        for x in walk(e):
            if x.get("kind") == "CallExpr":
                for a in x["inner"][1:]:
                    v = self.val(a, cx)
                    if v[0] == "addr" and v[1]:
                        self.new_tainted.add(v[1])

    def havoc(self, fn, dst, e, ptr):
        if ptr:
            name = self.fresh_input(fn, pp(e) + " != NULL")
            return ("ite", ("input", name), ("set", dst, ("const", NONNULL)), ("set", dst, ("const", 0)))
        name = self.fresh_input(fn, pp(e) + " == 0")
        return ("ite", ("input", name), ("set", dst, ("const", 0)), ("set", dst, ("const", -1)))

    def call(self, e, cx, dst):
        """statement list for a call expression whose value (if any) goes to variable `dst`"""
        fn = cx["fn"]
        kind, name, cexp = self.callee_name(e)
        args = e["inner"][1:]
        if kind == "VarDecl":
            p = self.lv(cexp, cx)
            fp = cx["fnptr"].get(p)
            if fp is None:
                raise Refuse("%s: call through `%s`, which is not a resolved local function pointer" % (fn, pp(cexp)))
            cnd, f1, f2 = fp
            if cnd is None:
                return self.inline(f1, args, cx, dst)
            pre, c = self.cond(cnd, cx)
            return pre + [("ite", c, ("blk", self.inline(f1, args, cx, dst)), ("blk", self.inline(f2, args, cx, dst)))]
        if kind != "FunctionDecl":
            self.notes.append("%s: indirect call `%s` treated as outside the skeleton" % (fn, pp(e)))
            return [self.havoc(fn, dst, e, is_ptr(e))] if dst else []
        if name in REFUSED_PRIMS:
            raise Refuse("%s: allocation primitive %s is not modelled" % (fn, name))
        if name in REQ:
            return [("req", REQ[name], dst or self.fresh_tmp(fn, "discarded"))]
        if name in REL:
            v = self.val(args[0], cx)
            if v[0] == "var":
                return [("rel", REL[name], v[1])]
            if v[0] == "const" and v[1] == 0:
                return []
            raise Refuse("%s: %s of `%s`, which is not a tracked variable" % (fn, name, pp(args[0])))
        if name in CRASH and name not in self.funs:
            return [("crash",)]
        if name in CRASH:
            return [("crash",)]
        if name in self.funs and name in self.relevant:
            return self.inline(name, args, cx, dst)
        # outside the skeleton: a scalar local passed by address is an out-parameter (its value is no longer followed);
        # TRUSTED: such a callee does not overwrite the pointer members of a struct passed by address
        for a in args:
            v = self.val(a, cx)
            if v[0] == "addr" and v[1]:
                self.new_tainted.add(v[1])
        if dst:
            return [self.havoc(fn, dst, e, is_ptr(e))]
        return []

    def inline(self, name, args, cx, dst):
        if name in self.stack:
            raise Refuse("recursion through %s" % name)
        if name not in self.funs:
            raise Refuse("%s: call of %s, whose body is not available" % (cx["fn"], name))
        f = self.funs[name]
        subst = {}
        pre = []
        for (pn, pid), a in zip(f["params"], args):
            v = self.val(a, cx)
            subst[pid] = v
        locals_ = set()
        for n in walk(f["body"]):
            if n.get("kind") == "VarDecl":
                locals_.add(n["id"])
        # a parameter that the callee assigns cannot be substituted by name
        for n in walk(f["body"]):
            if n.get("kind") in ("BinaryOperator", "CompoundAssignOperator") and (n.get("opcode") == "=" or n.get("kind") == "CompoundAssignOperator"):
                l = strip(n["inner"][0])
                if l.get("kind") == "DeclRefExpr" and l["referencedDecl"]["kind"] == "ParmVarDecl" and l["referencedDecl"]["id"] in subst:
                    if subst[l["referencedDecl"]["id"]][0] != "unk":
                        subst[l["referencedDecl"]["id"]] = ("unk", l["referencedDecl"]["name"])
        ncx = {"fn": name, "subst": subst, "locals": locals_, "fnptr": {}, "rettype": f["rettype"]}
        self.stack.append(name)
        body = self.stmt(f["body"], ncx)
        self.stack.pop()
        return pre + [("call", name, dst, ("blk", body))]

    def assign(self, lhs, rhs, cx):
        """lhs: expression node or ('path', p)"""
        fn = cx["fn"]
        path = lhs[1] if isinstance(lhs, tuple) else self.lv(lhs, cx)
        ptr = False if isinstance(lhs, tuple) else is_ptr(lhs)
        r = strip(rhs)
        if r.get("kind") == "CallExpr":
            kind, name, _ = self.callee_name(r)
            out = self.call(r, cx, path)
            if path is None and out and any(self.effect(s) for s in out) and kind == "FunctionDecl" and name in REQ:
                raise Refuse("%s: result of %s stored in `%s`, which is not a trackable variable" % (fn, name, pp(lhs)))
            return out
        if r.get("kind") == "BinaryOperator" and r.get("opcode") == "=":
            pre = self.assign(r["inner"][0], r["inner"][1], cx)
            ip = self.lv(r["inner"][0], cx)
            if path is None:
                return pre
            if ip is None or ip in self.tainted:
                self.new_tainted.add(path)
                return pre
            return pre + [("set", path, ("var", ip))]
        if r.get("kind") == "ConditionalOperator" and path is not None:
            a, b = strip(r["inner"][1]), strip(r["inner"][2])
            if all(x.get("kind") == "DeclRefExpr" and x["referencedDecl"]["kind"] == "FunctionDecl" for x in (a, b)):
                cx["fnptr"][path] = (r["inner"][0], a["referencedDecl"]["name"], b["referencedDecl"]["name"])
                return []
        if r.get("kind") == "DeclRefExpr" and r["referencedDecl"]["kind"] == "FunctionDecl" and path is not None:
            cx["fnptr"][path] = (None, r["referencedDecl"]["name"], None)
            return []
        if path is None:
            return []
        v = self.val(rhs, cx)
        if v[0] == "const":
            return [("set", path, ("const", v[1]))]
        if v[0] == "var":
            return [("set", path, ("var", v[1]))]
        if v[0] == "addr":
            return [("set", path, ("const", NONNULL))]
        self.new_tainted.add(path)
        return []

    def effect(self, s):
        return s[0] in ("req", "rel", "crash", "call", "ite", "ret", "blk")

    def valx(self, e, cx, pre):
        """value of a sub-expression of a condition, hoisting an embedded assignment / skeleton call into `pre`"""
        s = strip(e)
        if s.get("kind") == "BinaryOperator" and s.get("opcode") == "=":
            pre.extend(self.assign(s["inner"][0], s["inner"][1], cx))
            p = self.lv(s["inner"][0], cx)
            if p is None or p in self.tainted:
                return ("unk", pp(s["inner"][0]))
            return ("var", p)
        if s.get("kind") == "CallExpr":
            kind, name, _ = self.callee_name(s)
            if kind == "VarDecl" or (kind == "FunctionDecl" and (name in REQ or name in REL or name in CRASH or
                                                                  (name in self.funs and name in self.relevant))):
                if name in REL:
                    # `if (munmap(p, n))`: the release happens, and is assumed not to fail
                    pre.extend(self.call(s, cx, None))
                    return ("const", 0)
                t = self.fresh_tmp(cx["fn"], "r")
                pre.extend(self.call(s, cx, t))
                return ("var", t)
            return ("unk", pp(s))
        return self.val(e, cx)

    def cond(self, e, cx, allow_pre=True):
        pre = []
        c = self.cond_(e, cx, pre)
        if pre and not allow_pre:
            raise Refuse("%s: side effect in the right operand of && / || : %s" % (cx["fn"], pp(e)))
        return pre, c

    def cond_(self, e, cx, pre):
        fn = cx["fn"]
        s = e
        while s.get("kind") == "ParenExpr" or (s.get("kind") in ("ImplicitCastExpr",) and s.get("castKind") in
                                              ("IntegralToBoolean", "PointerToBoolean", "IntegralCast", "NoOp")):
            s = s["inner"][0]
        k = s.get("kind")
        if k == "UnaryOperator" and s.get("opcode") == "!":
            return ("not", self.cond_(s["inner"][0], cx, pre))
        if k == "BinaryOperator" and s.get("opcode") in ("&&", "||"):
            a = self.cond_(s["inner"][0], cx, pre)
            pre2 = []
            b = self.cond_(s["inner"][1], cx, pre2)
            if pre2:
                raise Refuse("%s: side effect in the right operand of %s : %s" % (fn, s["opcode"], pp(s)))
            return ("and" if s["opcode"] == "&&" else "or", a, b)
        if k == "BinaryOperator" and s.get("opcode") in ("==", "!="):
            a = self.valx(s["inner"][0], cx, pre)
            b = self.valx(s["inner"][1], cx, pre)
            if a[0] == "const" and b[0] != "const":
                a, b = b, a
            r = None
            if b[0] == "const":
                if a[0] == "const":
                    r = ("tt",) if a[1] == b[1] else ("ff",)
                elif a[0] == "var":
                    r = ("eq", a[1], b[1])
                elif a[0] == "addr" and b[1] in (0, -1):
                    r = ("ff",)
            if r is None:
                self.taint_out_params(s, cx)
                return ("input", self.fresh_input(fn, pp(s)))
            return r if s["opcode"] == "==" else ("not", r)
        v = self.valx(s, cx, pre)
        if v[0] == "const":
            return ("tt",) if v[1] != 0 else ("ff",)
        if v[0] == "var":
            return ("not", ("eq", v[1], 0))
        if v[0] == "addr":
            return ("tt",)
        self.taint_out_params(s, cx)
        return ("input", self.fresh_input(fn, pp(s) + (" != NULL" if is_ptr(s) else "")))

    def stmt(self, s, cx):
        fn = cx["fn"]
        k = s.get("kind")
        if k == "CompoundStmt":
            out = []
            items = s.get("inner", [])
            for i, c in enumerate(items):
                out.extend(self.stmt(c, cx))
            return out
        if k == "DeclStmt":
            out = []
            for d in s.get("inner", []):
                if d.get("kind") == "VarDecl" and d.get("inner"):
                    init = [x for x in d["inner"] if "Attr" not in x.get("kind", "")]
                    if init:
                        cx["locals"].add(d["id"])
                        out.extend(self.assign(("path", "%s.%s" % (fn, d["name"])), init[0], cx))
            return out
        if k == "NullStmt" or k is None:
            return []
        if k in ("ParenExpr",):
            return self.stmt(s["inner"][0], cx)
        if k == "CStyleCastExpr":
            return self.stmt(s["inner"][0], cx)
        if k == "ImplicitCastExpr":
            return self.stmt(s["inner"][0], cx)
        if k == "BinaryOperator" and s.get("opcode") == "=":
            return self.assign(s["inner"][0], s["inner"][1], cx)
        if k == "BinaryOperator" and s.get("opcode") == ",":
            return self.stmt(s["inner"][0], cx) + self.stmt(s["inner"][1], cx)
        if k == "CompoundAssignOperator" or (k == "UnaryOperator" and s.get("opcode") in ("++", "--")):
            p = self.lv(s["inner"][0], cx)
            if p is not None:
                self.new_tainted.add(p)
            return []
        if k == "CallExpr":
            return self.call(s, cx, None)
        if k == "IfStmt":
            inner = s["inner"]
            pre, c = self.cond(inner[0], cx)
            t = self.stmt(inner[1], cx)
            f = self.stmt(inner[2], cx) if len(inner) > 2 else []
            return pre + [("ite", c, ("blk", t), ("blk", f))]
        if k == "ReturnStmt":
            inner = s.get("inner", [])
            if not inner:
                return [("ret", ("const", 0))]
            e = inner[0]
            r = strip(e)
            if r.get("kind") == "CallExpr":
                t = self.fresh_tmp(fn, "ret")
                pre = self.call(r, cx, t)
                if not pre:
                    pre = [self.havoc(fn, t, r, is_ptr(r))]
                return pre + [("ret", ("var", t))]
            v = self.val(e, cx)
            if v[0] == "const":
                return [("ret", ("const", v[1]))]
            if v[0] == "var":
                return [("ret", ("var", v[1]))]
            if v[0] == "addr":
                return [("ret", ("const", NONNULL))]
            t = self.fresh_tmp(fn, "ret")
            return [self.havoc(fn, t, e, is_ptr(e)), ("ret", ("var", t))]
        if k in ("ForStmt", "WhileStmt", "DoStmt"):
            if self.has_skeleton(s):
                raise Refuse("%s: a loop contains allocation / return statements" % fn)
            for x in walk(s):
                if x.get("kind") in ("BinaryOperator", "CompoundAssignOperator", "UnaryOperator") and \
                        (x.get("opcode") in ("=", "++", "--") or x.get("kind") == "CompoundAssignOperator"):
                    p = self.lv(x["inner"][0], cx)
                    if p is not None:
                        self.new_tainted.add(p)
            return []
        if k == "SwitchStmt":
            return self.switch(s, cx)
        if k == "UnaryExprOrTypeTraitExpr":
            return []       # unevaluated operand
        if k in ("StmtExpr", "ConditionalOperator", "UnaryOperator") and any(
                x.get("kind") == "DeclRefExpr" and x["referencedDecl"].get("name") == "__assert_fail" for x in walk(s)):
            self.notes.append("%s: assert(...) is not modelled" % fn)
            return []
        if k in ("ConditionalOperator", "UnaryOperator", "DeclRefExpr", "UnaryExprOrTypeTraitExpr", "StmtExpr",
                 "IntegerLiteral", "MemberExpr", "ArraySubscriptExpr", "BinaryOperator"):
            if self.has_skeleton(s):
                raise Refuse("%s: skeleton call inside the expression statement `%s`" % (fn, pp(s)))
            return []
        if k in ("BreakStmt", "ContinueStmt", "GotoStmt", "LabelStmt"):
            raise Refuse("%s: %s" % (fn, k))
        if self.has_skeleton(s):
            raise Refuse("%s: unsupported statement kind %s with skeleton content" % (fn, k))
        return []

    def switch(self, s, cx):
        fn = cx["fn"]
        inner = [x for x in s["inner"]]
        scrut, body = inner[0], inner[-1]
        groups = []   # (label expr | None, [stmts])
        for c in body.get("inner", []):
            cur = c
            labels = []
            while cur.get("kind") in ("CaseStmt", "DefaultStmt"):
                if cur["kind"] == "CaseStmt":
                    labels.append(cur["inner"][0])
                    cur = cur["inner"][-1]
                else:
                    labels.append(None)
                    cur = cur["inner"][-1]
            if labels:
                groups.append((labels, [cur]))
            elif groups:
                groups[-1][1].append(c)
            elif self.has_skeleton(c):
                raise Refuse("%s: statement before the first case label" % fn)
        out = None
        default = []
        chain = []
        for labels, stmts in groups:
            body_p = []
            for st in stmts:
                body_p.extend(self.stmt(st, cx))
            if not stmts or stmts[-1].get("kind") != "ReturnStmt":
                raise Refuse("%s: switch case that does not end in return (fall-through / break)" % fn)
            if None in labels:
                default = body_p
            else:
                cs = [("input", self.fresh_input(fn, "%s == %s" % (pp(scrut), pp(l)))) for l in labels]
                c = cs[0]
                for x in cs[1:]:
                    c = ("or", c, x)
                chain.append((c, body_p))
        res = ("blk", default)
        for c, b in reversed(chain):
            res = ("ite", c, ("blk", b), res)
        return [res]


# ------------------------------------------------------------------------------------------------
# simplification

def flatten(p):
    """normalise: ('blk', [...]) with nested blocks flattened, skips removed"""
    k = p[0]
    if k == "skip":
        return ("blk", [])
    if k == "blk":
        out = []
        for s in p[1]:
            s = flatten(s)
            if s[0] == "blk":
                out.extend(s[1])
            elif s[0] != "skip":
                out.append(s)
        # statements after an unconditional ret / crash are dead
        for i, s in enumerate(out):
            if s[0] in ("ret", "crash"):
                out = out[:i + 1]
                break
        return ("blk", out)
    if k == "ite":
        c = simp_cond(p[1])
        t, e = flatten(p[2]), flatten(p[3])
        if c[0] == "tt":
            return t
        if c[0] == "ff":
            return e
        if t == ("blk", []) and e == ("blk", []):
            return ("blk", [])
        return ("ite", c, t, e)
    if k == "call":
        b = flatten(p[3])
        return ("call", p[1], p[2], b)
    return p


def simp_cond(c):
    k = c[0]
    if k == "not":
        a = simp_cond(c[1])
        if a[0] == "tt":
            return ("ff",)
        if a[0] == "ff":
            return ("tt",)
        if a[0] == "not":
            return a[1]
        return ("not", a)
    if k in ("and", "or"):
        a, b = simp_cond(c[1]), simp_cond(c[2])
        unit, zero = (("tt",), ("ff",)) if k == "and" else (("ff",), ("tt",))
        if a == unit:
            return b
        if b == unit:
            return a
        if a == zero:
            return zero
        return (k, a, b)
    return c


def cond_vars(c, acc):
    if c[0] == "eq":
        acc.add(c[1])
    elif c[0] == "not":
        cond_vars(c[1], acc)
    elif c[0] in ("and", "or"):
        cond_vars(c[1], acc)
        cond_vars(c[2], acc)


def read_vars(p, used, acc):
    k = p[0]
    if k == "blk":
        for s in p[1]:
            read_vars(s, used, acc)
    elif k == "ite":
        cond_vars(p[1], acc)
        read_vars(p[2], used, acc)
        read_vars(p[3], used, acc)
    elif k == "rel":
        acc.add(p[2])
    elif k == "ret":
        if p[1][0] == "var":
            acc.add(p[1][1])
    elif k == "set":
        if p[1] in used and p[2][0] == "var":
            acc.add(p[2][1])
    elif k == "call":
        read_vars(p[3], used, acc)


def has_effect(p):
    k = p[0]
    if k in ("req", "rel", "crash"):
        return True
    if k == "blk":
        return any(has_effect(s) for s in p[1])
    if k == "ite":
        return has_effect(p[2]) or has_effect(p[3])
    if k == "call":
        return has_effect(p[3])
    return False


def dce(p, used, top=True):
    k = p[0]
    if k == "blk":
        return ("blk", [dce(s, used, top) for s in p[1]])
    if k == "ite":
        return ("ite", p[1], dce(p[2], used, top), dce(p[3], used, top))
    if k == "set" and p[1] not in used:
        return ("skip",)
    if k == "call":
        dst = p[2] if p[2] in used else None
        body = dce(p[3], used, False)
        if dst is None and not has_effect(body):
            return ("skip",)
        if dst is None:
            body = strip_rets_values(body)
        return ("call", p[1], dst, body)
    return p


def strip_rets_values(p):
    return p


def simplify(p):
    p = flatten(p)
    for _ in range(20):
        used = set()
        while True:
            acc = set(used)
            read_vars(p, used, acc)
            if acc == used:
                break
            used = acc
        q = flatten(dce(p, used))
        if q == p:
            break
        p = q
    return p


def translate_entry(funs, enums, relevant, name):
    tainted = set()
    for _ in range(6):
        tr = Tr(funs, enums, relevant, tainted)
        f = funs[name]
        subst = {pid: ("unk", pn) for pn, pid in f["params"]}
        locals_ = {n["id"] for n in walk(f["body"]) if n.get("kind") == "VarDecl"}
        cx = {"fn": name, "subst": subst, "locals": locals_, "fnptr": {}, "rettype": f["rettype"]}
        tr.stack.append(name)
        body = tr.stmt(f["body"], cx)
        if tr.new_tainted <= tainted:
            return simplify(("blk", body)), tr
        tainted = tainted | tr.new_tainted
    raise Refuse("%s: taint analysis did not converge" % name)


# ------------------------------------------------------------------------------------------------
# emission

def lean_str(s):
    return '"' + s.replace("\\", "\\\\").replace('"', '\\"') + '"'


class Emit:
    def __init__(self):
        self.vars, self.inputs, self.fns = {}, {}, {}

    def v(self, name):
        return self.vars.setdefault(name, len(self.vars))

    def i(self, name):
        return self.inputs.setdefault(name, len(self.inputs))

    def f(self, name):
        return self.fns.setdefault(name, len(self.fns))

    def rhs(self, r):
        if r[0] == "const":
            return "(.const (%d))" % r[1]
        return "(.var %d)" % self.v(r[1])

    def cond(self, c):
        k = c[0]
        if k == "tt":
            return ".tt"
        if k == "ff":
            return ".ff"
        if k == "input":
            return "(.input %d)" % self.i(c[1])
        if k == "eq":
            return "(.eq %d (%d))" % (self.v(c[1]), c[2])
        if k == "not":
            return "(.not %s)" % self.cond(c[1])
        return "(.%s %s %s)" % (k, self.cond(c[1]), self.cond(c[2]))

    def prog(self, p, ind):
        pad = "  " * ind
        k = p[0]
        if k == "skip":
            return pad + ".skip"
        if k == "blk":
            if not p[1]:
                return pad + ".skip"
            if len(p[1]) == 1:
                return self.prog(p[1][0], ind)
            return pad + "blk [\n" + ",\n".join(self.prog(s, ind + 1) for s in p[1]) + "]"
        if k == "req":
            return pad + cm("%s = %s(…)" % (p[2], p[1])) + ".req .%s %d" % (p[1], self.v(p[2]))
        if k == "rel":
            return pad + cm("%s(%s)" % ("munmap" if p[1] else "free", p[2])) + ".rel %s %d" % ("true" if p[1] else "false", self.v(p[2]))
        if k == "set":
            return pad + cm("%s = %s" % (p[1], p[2][1])) + ".set %d %s" % (self.v(p[1]), self.rhs(p[2]))
        if k == "ret":
            return pad + cm("return %s" % p[1][1]) + ".ret %s" % self.rhs(p[1])
        if k == "crash":
            return pad + ".crash"
        if k == "ite":
            return pad + cm("if " + cond_txt(p[1])) + ".ite %s\n" % self.cond(p[1]) + pad + "  (\n" + self.prog(p[2], ind + 2) + ")\n" + \
                pad + "  (\n" + self.prog(p[3], ind + 2) + ")"
        if k == "call":
            dst = "none" if p[2] is None else "(some %d)" % self.v(p[2])
            return pad + cm("%s%s(…)" % ((p[2] + " = ") if p[2] else "", p[1])) + ".call %d %s (\n" % (self.f(p[1]), dst) + \
                self.prog(p[3], ind + 2) + ")"
        raise Refuse("emit: " + str(k))


def cm(t):
    return "/- " + t.replace("-/", "- /").replace("/-", "/ -") + " -/ "


def cond_txt(c):
    k = c[0]
    if k in ("tt", "ff"):
        return k
    if k == "input":
        return "⟨" + c[1] + "⟩"
    if k == "eq":
        return "%s == %d" % (c[1], c[2])
    if k == "not":
        return "!(" + cond_txt(c[1]) + ")"
    return "(" + cond_txt(c[1]) + (" && " if k == "and" else " || ") + cond_txt(c[2]) + ")"


def lean_name(n):
    return n if not n.startswith("_") else "u" + n


def generate(repo_src=None, outdir=os.path.join(os.environ.get("TMPDIR", "/var/tmp"), "verif-alloc-ast")):
    funs, enums = load(repo_src, outdir)
    relevant = relevant_set(funs)
    em = Emit()
    progs, notes = [], []
    for name, kind in ENTRIES:
        real = name if name in funs else "_sodium_" + name      # private/quirks.h renames the internal argon2 symbols
        if real not in funs:
            raise Refuse("entry point %s not found in the sources" % name)
        p, tr = translate_entry(funs, enums, relevant, real)
        progs.append((name, kind, p))
        notes.extend(tr.notes)
    L = []
    L.append("import SodiumModel.Model.AllocLang")
    L.append("/-! GENERATED by tools_new/c2lean_alloc.py from the clang-14 JSON AST of:")
    for f in FILES:
        L.append("     " + f)
    L.append("   Allocation skeleton of every entry point (all skeleton callees inlined as `.call`).")
    L.append("   Trusted normalisations: munmap / free do not fail; loops, `assert` and calls of functions that neither")
    L.append("   allocate, release nor abort are outside the skeleton; every other condition is a named boolean input. -/")
    L.append("namespace Generated.AllocProgs")
    L.append("open Sodium.Model.Fault Sodium.Model.AllocLang")
    L.append("")
    bodies = []
    for name, kind, p in progs:
        bodies.append("def %s : Prog :=\n%s\n" % (lean_name(name), em.prog(p, 1)))
    L.append("def varNames : List String := [\n  " + ",\n  ".join(lean_str(v) for v in em.vars) + "]\n")
    L.append("def inputNames : List String := [\n  " + ",\n  ".join(lean_str(v) for v in em.inputs) + "]\n")
    L.append("def fnNames : List String := [\n  " + ",\n  ".join(lean_str(v) for v in em.fns) + "]\n")
    L.extend(bodies)
    L.append("def entries : List Entry := [\n  " + ",\n  ".join("⟨%s, .%s, %s⟩" % (lean_str(n), k, lean_name(n)) for n, k, _ in progs) + "]\n")
    L.append("end Generated.AllocProgs")
    return "\n".join(L) + "\n", {"progs": progs, "inputs": list(em.inputs), "vars": list(em.vars), "notes": notes}


def main():
    import argparse
    ap = argparse.ArgumentParser()
    ap.add_argument("--src", default=None, help="…/src/libsodium (default: build_sodium's)")
    ap.add_argument("--out", default=os.path.join(HERE, "..", "Generated", "AllocProgs.lean"))
    ap.add_argument("--ast", default=os.path.join(os.environ.get("TMPDIR", "/var/tmp"), "verif-alloc-ast"))
    a = ap.parse_args()
    try:
        text, info = generate(a.src, a.ast)
    except Refuse as e:
        print("REFUSED: %s" % e, file=sys.stderr)
        sys.exit(2)
    open(a.out, "w").write(text)
    print("%s: %d entry points, %d variables, %d named inputs" % (a.out, len(info["progs"]), len(info["vars"]), len(info["inputs"])))
    for n in sorted(set(info["notes"])):
        print("note: " + n)


if __name__ == "__main__":
    main()
