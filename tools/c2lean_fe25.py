#!/usr/bin/env python3
"""
Tie B translator for the radix-2^25.5 field arithmetic (builds without HAVE_TI_MODE).

    python3 tools_c2lean_fe25.py [OUTDIR]          (default OUTDIR = /var/tmp/proofdev-fe25; VERIF_REPO overrides /repo)

re-transcribes, from the CURRENT source text,
    include/sodium/private/ed25519_ref10_fe_25_5.h   fe25519_mul  fe25519_sq  fe25519_sq2  fe25519_mul32
    crypto_core/ed25519/ref10/fe_25_5/fe.h           fe25519_frombytes
into
    OUTDIR/SodiumModel/Model/Fe25Gen.lean     the Int32/Int64 model, one Lean `let` per C statement
    OUTDIR/SodiumModel/Proofs/Fe25Gen.lean    the same statements over Int, interval bounds of every variable after every
                                              block, and the refinement lemmas (explicit applications of the `R*` lemmas
                                              of Proofs/Fe25Base.lean produced by symbolic execution; side conditions
                                              are closed numerals)
Every statement is matched by one regular expression per statement shape; anything unrecognised raises.
The output is a pure function of the source text (no timestamps, no hashing, ordered containers only).
"""
import re, sys, os

REPO = os.environ.get('VERIF_REPO', '/repo')
OUT = sys.argv[1] if len(sys.argv) > 1 else '/var/tmp/proofdev-fe25'
HDR_PATH = 'src/libsodium/include/sodium/private/ed25519_ref10_fe_25_5.h'
FEH_PATH = 'src/libsodium/crypto_core/ed25519/ref10/fe_25_5/fe.h'
HDR = open(os.path.join(REPO, HDR_PATH)).read()
FEH = open(os.path.join(REPO, FEH_PATH)).read()


def body(src, name):
    i = src.index('\n' + name + '(')
    j = src.index('{', i)
    k = src.index('\n}\n', j)
    return src[j + 1:k]


def strip_comments(t):
    return re.sub(r'/\*.*?\*/', '', t, flags=re.S)


def blocks(text):
    """blank-line separated blocks of statements (comments removed)"""
    t = strip_comments(text)
    out = []
    for b in re.split(r'\n[ \t]*\n', t):
        if b.strip():
            out.append(stmts(b))
    return out


def stmts(block):
    t = ' '.join(l.strip() for l in block.splitlines())
    t = re.sub(r'\s+', ' ', t)
    return [s.strip() for s in t.split(';') if s.strip()]


# ---------------------------------------------------------------- statement shapes
def parse(s):
    m = re.fullmatch(r'int32_t (\w+) = ([fg])\[(\d)\]', s)
    if m: return ('load', m[1], m[2], int(m[3]))
    m = re.fullmatch(r'int32_t (\w+) = (2|19|38) \* (\w+)', s)
    if m: return ('mulc', m[1], int(m[2]), m[3])
    m = re.fullmatch(r'int64_t (\w+) = (\w+) \* \(int64_t\) (\w+)', s)
    if m: return ('prod', m[1], m[2], m[3])
    m = re.fullmatch(r'int64_t sn = \(int64_t\) n', s)
    if m: return ('sn',)
    m = re.fullmatch(r'int64_t (h\d) = (f\d) \* sn', s)
    if m: return ('prodsn', m[1], m[2])
    m = re.fullmatch(r'int64_t (h\d) = (\w+(?: \+ \w+)+)', s)
    if m: return ('sum', m[1], m[2].split(' + '))
    m = re.fullmatch(r'int64_t carry\d(, carry\d)*', s)
    if m: return ('decl',)
    m = re.fullmatch(r'int64_t (h\d) = load_([34])\(s(?: \+ (\d+))?\)(?: << (\d+))?', s)
    if m: return ('ld', m[1], int(m[2]), int(m[3] or 0), int(m[4] or 0), False)
    m = re.fullmatch(r'int64_t (h\d) = \(load_3\(s \+ (\d+)\) & 8388607\) << (\d+)', s)
    if m: return ('ld', m[1], 3, int(m[2]), int(m[3]), True)
    m = re.fullmatch(r'(carry\d) = \((h\d) \+ \(int64_t\) ?\(1L << (\d+)\)\) >> (\d+)', s)
    if m:
        assert int(m[3]) + 1 == int(m[4]) and int(m[4]) in (25, 26), s
        return ('carryR', m[1], m[2], int(m[4]))
    m = re.fullmatch(r'(carry\d) = \((h\d) \+ \(\(int64_t\) 1 << (\d+)\)\) >> (\d+)', s)
    if m:
        assert int(m[3]) + 1 == int(m[4]) and int(m[4]) in (25, 26), s
        return ('carryR', m[1], m[2], int(m[4]))
    m = re.fullmatch(r'(h\d) \+= (carry\d)', s)
    if m: return ('addc', m[1], m[2])
    m = re.fullmatch(r'(h\d) -= (carry\d) \* \(\(uint64_t\) 1L << (\d+)\)', s)
    if m: return ('subcU', m[1], m[2], int(m[3]))
    m = re.fullmatch(r'(h\d) -= (carry\d) \* \(\(int64_t\) 1 << (\d+)\)', s)
    if m: return ('subcS', m[1], m[2], int(m[3]))
    m = re.fullmatch(r'(h\d) \+= (carry\d) \* 19', s)
    if m: return ('addc19', m[1], m[2])
    m = re.fullmatch(r'(h\d) \+= (h\d)', s)
    if m:
        assert m[1] == m[2], s
        return ('dbl', m[1])
    m = re.fullmatch(r'h\[(\d)\] = \(int32_t\) (h\d)', s)
    if m:
        assert 'h' + m[1] == m[2], s
        return ('store', int(m[1]), m[2])
    raise ValueError('unrecognised statement: ' + s)


H = ['h%d' % i for i in range(10)]
P25 = 1 << 25
P26 = 1 << 26
LOOSE_E = 110729625      # floor(1.65 * 2^26)
LOOSE_O = 55364812       # floor(1.65 * 2^25)
M32_NMAX = 1 << 19       # fe25519_mul32 is modelled for every uint32_t n but PROVED for n <= 2^19 (it is wrong for large n)


def split_function(src, name):
    """-> (head statements, carry blocks, store statements); the head ends before the first carry assignment"""
    bl = [[(s, parse(s)) for s in b] for b in blocks(body(src, name))]
    head, carry, store = [], [], []
    for b in bl:
        kinds = set(p[0] for (_, p) in b)
        if kinds <= {'store'}:
            store.append(b)
        elif kinds & {'carryR'}:
            carry.append(b)
        elif kinds <= {'dbl'}:
            carry.append(b)
        else:
            assert not carry and not store, (name, b)
            head.append(b)
    assert len(store) == 1 and [p[1] for (_, p) in store[0]] == list(range(10)), name
    return head, carry, store[0]


# ---------------------------------------------------------------- Lean emission: blocks on the ten accumulators
def emit_acc_stmt(p, ideal):
    k = p[0]
    if k == 'carryR':
        half = 1 << (p[3] - 1)
        if ideal: return 'let %s := (%s + %d) / %d' % (p[1], p[2], half, 1 << p[3])
        return 'let %s := (%s + ((1 : Int64) <<< %d)) >>> %d' % (p[1], p[2], p[3] - 1, p[3])
    if k == 'addc':
        return 'let %s := %s + %s' % (p[1], p[1], p[2])
    if k == 'subcU':
        if ideal: return 'let %s := %s - %s * %d' % (p[1], p[1], p[2], 1 << p[3])
        return 'let %s := (%s.toUInt64 - %s.toUInt64 * ((1 : UInt64) <<< %d)).toInt64' % (p[1], p[1], p[2], p[3])
    if k == 'subcS':
        if ideal: return 'let %s := %s - %s * %d' % (p[1], p[1], p[2], 1 << p[3])
        return 'let %s := %s - %s * ((1 : Int64) <<< %d)' % (p[1], p[1], p[2], p[3])
    if k == 'addc19':
        return 'let %s := %s + %s * 19' % (p[1], p[1], p[2])
    if k == 'dbl':
        return 'let %s := %s + %s' % (p[1], p[1], p[1])
    raise ValueError(k)


def acc_rw(p):
    """(read accumulators, written accumulators)"""
    k = p[0]
    if k == 'carryR': return [p[2]], []
    if k in ('addc', 'subcU', 'subcS', 'addc19', 'dbl'): return [p[1]], [p[1]]
    raise ValueError(k)


def emit_acc_block(name, block, ideal):
    T = 'AccI' if ideal else 'Acc'
    out = []
    if not ideal:
        out.append('/--\n```c\n' + '\n'.join(s + ';' for (s, _) in block) + '\n```\n-/')
    out.append('def %s%s (x : %s) : %s :=' % (name, 'I' if ideal else '', T, T))
    used, written = [], []
    for (_, p) in block:
        r, w = acc_rw(p)
        for v in r:
            if v not in used: used.append(v)
        for v in w:
            if v not in written: written.append(v)
    for v in sorted(set(used) | set(written)):
        out.append('  let %s := x.%s' % (v, v))
    for (s, p) in block:
        out.append('  ' + emit_acc_stmt(p, ideal) + ('' if ideal else '    -- ' + s + ';'))
    out.append('  { x with ' + ', '.join('%s := %s' % (v, v) for v in sorted(written)) + ' }')
    return '\n'.join(out)


def sym_acc_block(block, bounds):
    """symbolic execution: env var -> (proof term, bound).  Returns (new bounds, {acc: proof term})"""
    env = {h: ('h%s' % h[1:], bounds[h]) for h in H}
    origin = {}           # carry -> (accumulator proof term at the time, its bound, k)
    for (s, p) in block:
        k = p[0]
        if k == 'carryR':
            (t, b) = env[p[2]]
            half = 1 << (p[3] - 1)
            assert b + half < (1 << 63), ('int64 overflow possible', s, b)
            env[p[1]] = ('(R_carryR%d %s (by decide))' % (p[3], t), (b + half) // (1 << p[3]) + 1)
            origin[p[1]] = (t, b, p[3], p[2])
        elif k == 'addc':
            (t, b) = env[p[1]]; (tc, bc) = env[p[2]]
            assert b + bc < (1 << 63), ('int64 overflow possible', s)
            env[p[1]] = ('(R_add %s %s (by decide))' % (t, tc), b + bc)
        elif k in ('subcU', 'subcS'):
            (t0, b0, kk, hh) = origin[p[2]]
            assert hh == p[1] and kk == p[3] and env[p[1]][0] == t0, ('carry does not come from this accumulator', s)
            env[p[1]] = ('(R_carryR%d_lo%s %s (by decide))' % (kk, "'" if k == 'subcS' else '', t0), 1 << (kk - 1))
        elif k == 'addc19':
            (t, b) = env[p[1]]; (tc, bc) = env[p[2]]
            assert b + bc * 19 < (1 << 63), ('int64 overflow possible', s)
            env[p[1]] = ('(R_add %s (R_mulc19 %s (by decide)) (by decide))' % (t, tc), b + bc * 19)
        elif k == 'dbl':
            (t, b) = env[p[1]]
            assert 2 * b < (1 << 63), ('int64 overflow possible', s)
            env[p[1]] = ('(R_add %s %s (by decide))' % (t, t), 2 * b)
        else:
            raise ValueError(k)
    return {h: env[h][1] for h in H}, {h: env[h][0] for h in H}


DESTRUCT_ACC = ('  obtain ⟨a0, a1, a2, a3, a4, a5, a6, a7, a8, a9⟩ := x\n'
                '  obtain ⟨i0, i1, i2, i3, i4, i5, i6, i7, i8, i9⟩ := y\n'
                '  obtain ⟨h0, h1, h2, h3, h4, h5, h6, h7, h8, h9⟩ := h\n'
                '  dsimp only at h0 h1 h2 h3 h4 h5 h6 h7 h8 h9\n')


def accn(b):
    return '⟨' + ', '.join(str(b[h]) for h in H) + '⟩'


def emit_acc_ref(name, bname_in, bname_out, terms):
    out = ['theorem %s_ref {x : Acc} {y : AccI} (h : RA x y %s) : RA (%s x) (%sI y) %s := by' % (name, bname_in, name, name, bname_out)]
    out.append(DESTRUCT_ACC + '  refine ⟨?_, ?_, ?_, ?_, ?_, ?_, ?_, ?_, ?_, ?_⟩ <;> dsimp only [%s, %sI]' % (name, name))
    for h in H:
        out.append('  · exact R_weaken %s (by decide)' % terms[h])
    return '\n'.join(out)


def emit_chain(prefix, carry_blocks, in_bounds, in_bname, model, proofs, doc):
    """emit blocks prefix1.. ; returns (final bounds, final bound name, list of block names)"""
    names = []
    b, bn = in_bounds, in_bname
    for n, block in enumerate(carry_blocks, 1):
        name = '%s%d' % (prefix, n)
        names.append(name)
        model.append(emit_acc_block(name, block, False))
        proofs.append(emit_acc_block(name, block, True))
        nb, terms = sym_acc_block(block, b)
        nbn = 'B_%s' % name
        proofs.append('/-- bounds after `%s` -/\ndef %s : AccN := %s' % (name, nbn, accn(nb)))
        proofs.append(emit_acc_ref(name, bn, nbn, terms))
        b, bn = nb, nbn
    return b, bn, names


def compose(names, arg):
    t = arg
    for n in names:
        t = '%s (%s)' % (n, t)
    return t


# ---------------------------------------------------------------- products (fe25519_mul / fe25519_sq / fe25519_sq2)
def emit_products(fname, head, two, ideal):
    """head statements of mul (two = True: f and g) or sq (two = False)"""
    T = 'FeI' if ideal else 'Fe'
    A = 'AccI' if ideal else 'Acc'
    args = '(f g : %s)' % T if two else '(f : %s)' % T
    out = ['def %s%s %s : %s :=' % (fname, 'I' if ideal else '', args, A)]
    for b in head:
        for (s, p) in b:
            k = p[0]
            c = '' if ideal else '    -- ' + s + ';'
            if k == 'load':
                out.append('  let %s := %s.l%d' % (p[1], p[2], p[3]) + c)
            elif k == 'mulc':
                out.append('  let %s := %d * %s' % (p[1], p[2], p[3]) + c)
            elif k == 'prod':
                if ideal: out.append('  let %s := %s * %s' % (p[1], p[2], p[3]))
                else: out.append('  let %s := %s.toInt64 * %s.toInt64' % (p[1], p[2], p[3]) + c)
            elif k == 'sum':
                out.append('  let %s := %s' % (p[1], ' + '.join(p[2])) + c)
            elif k == 'decl':
                pass
            else:
                raise ValueError((fname, s))
    out.append('  ⟨h0, h1, h2, h3, h4, h5, h6, h7, h8, h9⟩')
    return '\n'.join(out)


def sym_products(fname, head, two):
    env = {}
    for b in head:
        for (s, p) in b:
            k = p[0]
            if k == 'load':
                env[p[1]] = ('h%s%d' % (p[2], p[3]), LOOSE_O if p[3] % 2 else LOOSE_E)
            elif k == 'mulc':
                (t, bb) = env[p[3]]
                assert p[2] * bb < (1 << 31), ('int32 overflow possible', s)
                env[p[1]] = ('(R32_mulc%d %s (by decide))' % (p[2], t), p[2] * bb)
            elif k == 'prod':
                (ta, ba) = env[p[2]]; (tb, bb) = env[p[3]]
                assert ba * bb < (1 << 63), s
                env[p[1]] = ('(R64_prod %s %s (by decide))' % (ta, tb), ba * bb)
            elif k == 'sum':
                (t, bb) = env[p[2][0]]
                for v in p[2][1:]:
                    (tv, bv) = env[v]
                    assert bb + bv < (1 << 63), ('int64 overflow possible', s)
                    t, bb = '(R_add %s %s (by decide))' % (t, tv), bb + bv
                env[p[1]] = (t, bb)
    return {h: env[h][1] for h in H}, {h: env[h][0] for h in H}


def emit_products_ref(fname, two, bname, terms):
    if two:
        out = ['theorem %s_ref {f g : Fe} {x y : FeI} (hf : RF f x BLoose) (hg : RF g y BLoose) :\n    RA (%s f g) (%sI x y) %s := by' % (fname, fname, fname, bname)]
    else:
        out = ['theorem %s_ref {f : Fe} {x : FeI} (hf : RF f x BLoose) :\n    RA (%s f) (%sI x) %s := by' % (fname, fname, fname, bname)]
    out.append('  obtain ⟨f0, f1, f2, f3, f4, f5, f6, f7, f8, f9⟩ := f')
    out.append('  obtain ⟨x0, x1, x2, x3, x4, x5, x6, x7, x8, x9⟩ := x')
    out.append('  obtain ⟨hf0, hf1, hf2, hf3, hf4, hf5, hf6, hf7, hf8, hf9⟩ := hf')
    out.append('  dsimp only [BLoose] at hf0 hf1 hf2 hf3 hf4 hf5 hf6 hf7 hf8 hf9')
    if two:
        out.append('  obtain ⟨g0, g1, g2, g3, g4, g5, g6, g7, g8, g9⟩ := g')
        out.append('  obtain ⟨y0, y1, y2, y3, y4, y5, y6, y7, y8, y9⟩ := y')
        out.append('  obtain ⟨hg0, hg1, hg2, hg3, hg4, hg5, hg6, hg7, hg8, hg9⟩ := hg')
        out.append('  dsimp only [BLoose] at hg0 hg1 hg2 hg3 hg4 hg5 hg6 hg7 hg8 hg9')
    out.append('  refine ⟨?_, ?_, ?_, ?_, ?_, ?_, ?_, ?_, ?_, ?_⟩ <;> dsimp only [%s, %sI]' % (fname, fname))
    for h in H:
        out.append('  · exact R_weaken %s (by decide)' % terms[h])
    return '\n'.join(out)


# ---------------------------------------------------------------- main
def main():
    model, proofs = [], []

    mul_head, mul_carry, mul_store = split_function(HDR, 'fe25519_mul')
    sq_head, sq_carry, sq_store = split_function(HDR, 'fe25519_sq')
    sq2_head, sq2_carry, sq2_store = split_function(HDR, 'fe25519_sq2')
    m32_head, m32_carry, m32_store = split_function(HDR, 'fe25519_mul32')
    fb_head, fb_carry, fb_store = split_function(FEH, 'fe25519_frombytes')

    txt = lambda bl: [[s for (s, _) in b] for b in bl]
    # fe25519_sq and fe25519_sq2 have the same products; fe25519_sq2 then doubles the accumulators; the carry chain of
    # fe25519_mul, fe25519_sq, fe25519_sq2 is the same text; all five functions end with the same ten stores
    assert txt(sq_head) == txt(sq2_head), 'fe25519_sq / fe25519_sq2 products differ'
    assert len(sq2_carry) == len(mul_carry) + 1 and set(p[0] for (_, p) in sq2_carry[0]) == {'dbl'}
    assert [p[1] for (_, p) in sq2_carry[0]] == H
    assert txt(mul_carry) == txt(sq_carry) == txt(sq2_carry[1:]), 'carry chains of mul / sq / sq2 differ'
    for st in (sq_store, sq2_store, m32_store, fb_store):
        assert txt([st]) == txt([mul_store])
    assert len(mul_carry) == 7

    # ---- model
    model.append(emit_products('mul_acc', mul_head, True, False))
    model.append(emit_products('sq_acc', sq_head, False, False))
    proofs.append(emit_products('mul_acc', mul_head, True, True))
    proofs.append(emit_products('sq_acc', sq_head, False, True))

    bm, tm = sym_products('mul_acc', mul_head, True)
    bs, ts = sym_products('sq_acc', sq_head, False)
    # one entry bound for the carry chain: it is used after mul_acc, after sq_acc and after the doubling
    bdbl, tdbl = sym_acc_block(sq2_carry[0], bs)
    bcc = {h: max(bm[h], bs[h], bdbl[h]) for h in H}
    proofs.append('/-- bounds of the accumulators of `fe25519_mul` on loose inputs -/\ndef B_mul : AccN := %s' % accn(bm))
    proofs.append(emit_products_ref('mul_acc', True, 'B_mul', tm))
    proofs.append('/-- bounds of the accumulators of `fe25519_sq` on loose inputs -/\ndef B_sq : AccN := %s' % accn(bs))
    proofs.append(emit_products_ref('sq_acc', False, 'B_sq', ts))

    model.append(emit_acc_block('sq2_dbl', sq2_carry[0], False))
    proofs.append(emit_acc_block('sq2_dbl', sq2_carry[0], True))
    proofs.append('/-- bounds after the doubling of `fe25519_sq2` -/\ndef B_sq2 : AccN := %s' % accn(bdbl))
    proofs.append(emit_acc_ref('sq2_dbl', 'B_sq', 'B_sq2', tdbl))

    proofs.append('/-- entry bounds of the carry chain: the maximum of `B_mul`, `B_sq`, `B_sq2` -/\ndef B_cc0 : AccN := %s' % accn(bcc))
    bfin, bfin_name, cc_names = emit_chain('cc', mul_carry, bcc, 'B_cc0', model, proofs, None)
    assert all(bfin[h] < (1 << 31) for h in H), 'carry chain output does not fit int32'

    model.append('/-- the carry chain shared (as identical text) by `fe25519_mul`, `fe25519_sq`, `fe25519_sq2` -/\n'
                 'def carry_chain (x : Acc) : Fe := acc_store (%s)' % compose(cc_names, 'x'))
    proofs.append('def carry_chainI (y : AccI) : FeI := acc_storeI (%s)' % compose([n + 'I' for n in cc_names], 'y'))
    proofs.append('/-- bounds of the limbs returned by the carry chain -/\ndef B_ccout : FeN := %s' % accn(bfin))
    t = 'h'
    for n in cc_names:
        t = '(%s_ref %s)' % (n, t)
    proofs.append('theorem carry_chain_ref {x : Acc} {y : AccI} (h : RA x y B_cc0) : RF (carry_chain x) (carry_chainI y) B_ccout :=\n'
                  '  acc_store_ref %s (by decide)' % t)

    model.append('/-- `fe25519_mul(h, f, g)` -/\ndef fe25519_mul (f g : Fe) : Fe := carry_chain (mul_acc f g)')
    model.append('/-- `fe25519_sq(h, f)` -/\ndef fe25519_sq (f : Fe) : Fe := carry_chain (sq_acc f)')
    model.append('/-- `fe25519_sq2(h, f)` -/\ndef fe25519_sq2 (f : Fe) : Fe := carry_chain (sq2_dbl (sq_acc f))')

    # ---- fe25519_mul32
    sts = [p for b in m32_head for (_, p) in b]
    kinds = [p[0] for p in sts]
    assert kinds == ['sn'] + ['load'] * 10 + ['prodsn'] * 10 + ['decl'], kinds
    assert [(p[2], p[3]) for p in sts[1:11]] == [('f', i) for i in range(10)] and [p[1] for p in sts[1:11]] == ['f%d' % i for i in range(10)]
    assert [(p[1], p[2]) for p in sts[11:21]] == [('h%d' % i, 'f%d' % i) for i in range(10)]
    out = ['/-- the ten products `h_i = f_i * sn` of `fe25519_mul32` (`sn = (int64_t) n`) -/', 'def m32_acc (f : Fe) (sn : Int64) : Acc :=']
    outI = ['def m32_accI (f : FeI) (sn : Int) : AccI :=']
    for i in range(10):
        out.append('  let f%d := f.l%d    -- int32_t f%d = f[%d];' % (i, i, i, i))
        outI.append('  let f%d := f.l%d' % (i, i))
    for i in range(10):
        out.append('  let h%d := f%d.toInt64 * sn    -- int64_t h%d = f%d * sn;' % (i, i, i, i))
        outI.append('  let h%d := f%d * sn' % (i, i))
    out.append('  ⟨h0, h1, h2, h3, h4, h5, h6, h7, h8, h9⟩')
    outI.append('  ⟨h0, h1, h2, h3, h4, h5, h6, h7, h8, h9⟩')
    model.append('\n'.join(out)); proofs.append('\n'.join(outI))
    NMAX = M32_NMAX
    b32 = {('h%d' % i): (LOOSE_O if i % 2 else LOOSE_E) * NMAX for i in range(10)}
    proofs.append('/-- bounds of the products of `fe25519_mul32` on a loose input and `n ≤ 2^19` -/\ndef B_m32 : AccN := %s' % accn(b32))
    th = ['theorem m32_acc_ref {f : Fe} {x : FeI} {sn : Int64} {n : Int} (hf : RF f x BLoose) (hn : R64 sn n %d) :\n    RA (m32_acc f sn) (m32_accI x n) B_m32 := by' % NMAX]
    th.append('  obtain ⟨f0, f1, f2, f3, f4, f5, f6, f7, f8, f9⟩ := f')
    th.append('  obtain ⟨x0, x1, x2, x3, x4, x5, x6, x7, x8, x9⟩ := x')
    th.append('  obtain ⟨hf0, hf1, hf2, hf3, hf4, hf5, hf6, hf7, hf8, hf9⟩ := hf')
    th.append('  dsimp only [BLoose] at hf0 hf1 hf2 hf3 hf4 hf5 hf6 hf7 hf8 hf9')
    th.append('  refine ⟨?_, ?_, ?_, ?_, ?_, ?_, ?_, ?_, ?_, ?_⟩ <;> dsimp only [m32_acc, m32_accI]')
    for i in range(10):
        th.append('  · exact R_weaken (R_mul (R64_of32 hf%d) hn (by decide)) (by decide)' % i)
    proofs.append('\n'.join(th))
    b32f, b32n, m32_names = emit_chain('m32c', m32_carry, b32, 'B_m32', model, proofs, None)
    assert all(b32f[h] < (1 << 31) for h in H)
    model.append('/-- `fe25519_mul32(h, f, n)` -/\ndef fe25519_mul32 (f : Fe) (n : UInt32) : Fe :=\n'
                 '  let sn : Int64 := n.toUInt64.toInt64    -- int64_t sn = (int64_t) n;\n'
                 '  acc_store (%s)' % compose(m32_names, 'm32_acc f sn'))
    proofs.append('def m32_chainI (y : AccI) : FeI := acc_storeI (%s)' % compose([n + 'I' for n in m32_names], 'y'))
    proofs.append('def B_m32out : FeN := %s' % accn(b32f))
    t = 'h'
    for n in m32_names:
        t = '(%s_ref %s)' % (n, t)
    proofs.append('theorem m32_chain_ref {x : Acc} {y : AccI} (h : RA x y B_m32) :\n    RF (acc_store (%s)) (m32_chainI y) B_m32out :=\n'
                  '  acc_store_ref %s (by decide)' % (compose(m32_names, 'x'), t))

    # ---- fe25519_frombytes
    sts = [(s, p) for b in fb_head for (s, p) in b]
    lds = [(s, p) for (s, p) in sts if p[0] == 'ld']
    assert [p[0] for (_, p) in sts] == ['ld'] * 10 + ['decl'] * (len(sts) - 10) and [p[1] for (_, p) in lds] == H
    out = ['/-- the ten loads of `fe25519_frombytes` -/', 'def fb_loads (s : Bytes) : Acc :=']
    spec = []
    for (s, p) in lds:
        (_, h, n, off, sh, msk) = p
        e = 'load_%d s %d' % (n, off)
        if msk: e = '(%s &&& 8388607)' % e
        if sh: e = '%s <<< %d' % (e, sh)
        out.append('  let %s := (%s).toInt64    -- %s;' % (h, e, s))
        spec.append((n, off, sh, msk))
    out.append('  ⟨h0, h1, h2, h3, h4, h5, h6, h7, h8, h9⟩')
    model.append('\n'.join(out))
    proofs.append('/-- the shape of the ten loads of `fe25519_frombytes`: (bytes read, offset, left shift, masked with 8388607) -/\n'
                  'def fb_load_shape : List (Nat × Nat × Nat × Bool) := [' +
                  ', '.join('(%d, %d, %d, %s)' % (n, off, sh, 'true' if msk else 'false') for (n, off, sh, msk) in spec) + ']')
    bfb = {}
    for i, (n, off, sh, msk) in enumerate(spec):
        top = (1 << 23) - 1 if msk else (1 << (8 * n)) - 1
        bfb['h%d' % i] = top << sh
    proofs.append('/-- bounds of the loaded values -/\ndef B_fb : AccN := %s' % accn(bfb))
    bfbf, bfbn, fb_names = emit_chain('fbc', fb_carry, bfb, 'B_fb', model, proofs, None)
    assert all(bfbf[h] < (1 << 31) for h in H)
    model.append('/-- `fe25519_frombytes(h, s)` -/\ndef fe25519_frombytes (s : Bytes) : Fe :=\n  acc_store (%s)' % compose(fb_names, 'fb_loads s'))
    proofs.append('def fb_chainI (y : AccI) : FeI := acc_storeI (%s)' % compose([n + 'I' for n in fb_names], 'y'))
    proofs.append('def B_fbout : FeN := %s' % accn(bfbf))
    t = 'h'
    for n in fb_names:
        t = '(%s_ref %s)' % (n, t)
    proofs.append('theorem fb_chain_ref {x : Acc} {y : AccI} (h : RA x y B_fb) :\n    RF (acc_store (%s)) (fb_chainI y) B_fbout :=\n'
                  '  acc_store_ref %s (by decide)' % (compose(fb_names, 'x'), t))

    # ---- files
    MODEL_HEAD = '''import SodiumModel.Basic
import SodiumModel.Model.ScReduce
/-
  GENERATED by tools_c2lean_fe25.py from
    %s   (fe25519_mul, fe25519_sq, fe25519_sq2, fe25519_mul32)
    %s           (fe25519_frombytes)
  DO NOT EDIT: re-run the translator.  One Lean `let` per C statement, C's types: `int32_t` = `Int32`,
  `int64_t` = `Int64` (both wrapping; that no signed overflow happens is a theorem, `Proofs/Fe25Gen.lean`),
  `uint64_t` = `UInt64`; every cast is explicit.  `>>` on signed values is the arithmetic shift.
  The ten `int64_t h0 … h9` are the structure `Acc`; each blank-line separated group of carry statements is one
  function `Acc → Acc`.  `load_3` / `load_4` are those of `Model/ScReduce.lean` (same static functions of
  ed25519_ref10.c).
-/
namespace Sodium.Model.Fe25
open Sodium Sodium.Model.ScReduce

/-- `typedef int32_t fe25519[10];` -/
structure Fe where
  l0 : Int32
  l1 : Int32
  l2 : Int32
  l3 : Int32
  l4 : Int32
  l5 : Int32
  l6 : Int32
  l7 : Int32
  l8 : Int32
  l9 : Int32
deriving DecidableEq, Repr

/-- the local variables `int64_t h0 … h9` -/
structure Acc where
  h0 : Int64
  h1 : Int64
  h2 : Int64
  h3 : Int64
  h4 : Int64
  h5 : Int64
  h6 : Int64
  h7 : Int64
  h8 : Int64
  h9 : Int64

/-- `h[0] = (int32_t) h0; … h[9] = (int32_t) h9;` -/
def acc_store (x : Acc) : Fe :=
  ⟨x.h0.toInt32, x.h1.toInt32, x.h2.toInt32, x.h3.toInt32, x.h4.toInt32,
   x.h5.toInt32, x.h6.toInt32, x.h7.toInt32, x.h8.toInt32, x.h9.toInt32⟩
''' % (HDR_PATH, FEH_PATH)
    PROOF_HEAD = '''import SodiumModel.Model.Fe25Gen
import SodiumModel.Proofs.Fe25Base
set_option linter.unusedVariables false
/-
  GENERATED by tools_c2lean_fe25.py — DO NOT EDIT.  The ideal (unbounded `Int`) counterparts of the functions of
  `Model/Fe25Gen.lean` (same statements; `>> k` is floor division by 2^k), symmetric interval bounds of the ten
  accumulators after every block, and the refinement lemmas
      `RA x y B → RA (block x) (blockI y) B'`
  (`RA x y B`: every accumulator of `x : Acc` is the `Int64` image of the corresponding integer of `y : AccI`, i.e. NO
  OVERFLOW HAS OCCURRED, and is bounded in absolute value by the entry of `B`).  Input bounds: `BLoose`
  (|f_i| ≤ 1.65·2^26 for even i, 1.65·2^25 for odd i — the precondition in the C comments).
-/
namespace Sodium.Fe25P
open Sodium Sodium.Model.Fe25 Sodium.ScReduceP

/-- ideal limbs -/
structure FeI where
  l0 : Int
  l1 : Int
  l2 : Int
  l3 : Int
  l4 : Int
  l5 : Int
  l6 : Int
  l7 : Int
  l8 : Int
  l9 : Int

/-- bounds of the limbs -/
structure FeN where
  l0 : Nat
  l1 : Nat
  l2 : Nat
  l3 : Nat
  l4 : Nat
  l5 : Nat
  l6 : Nat
  l7 : Nat
  l8 : Nat
  l9 : Nat

/-- ideal accumulators -/
structure AccI where
  h0 : Int
  h1 : Int
  h2 : Int
  h3 : Int
  h4 : Int
  h5 : Int
  h6 : Int
  h7 : Int
  h8 : Int
  h9 : Int

/-- bounds of the accumulators -/
structure AccN where
  h0 : Nat
  h1 : Nat
  h2 : Nat
  h3 : Nat
  h4 : Nat
  h5 : Nat
  h6 : Nat
  h7 : Nat
  h8 : Nat
  h9 : Nat

/-- limb-wise `R32` -/
structure RF (f : Fe) (x : FeI) (b : FeN) : Prop where
  l0 : R32 f.l0 x.l0 b.l0
  l1 : R32 f.l1 x.l1 b.l1
  l2 : R32 f.l2 x.l2 b.l2
  l3 : R32 f.l3 x.l3 b.l3
  l4 : R32 f.l4 x.l4 b.l4
  l5 : R32 f.l5 x.l5 b.l5
  l6 : R32 f.l6 x.l6 b.l6
  l7 : R32 f.l7 x.l7 b.l7
  l8 : R32 f.l8 x.l8 b.l8
  l9 : R32 f.l9 x.l9 b.l9

/-- accumulator-wise `R64` -/
structure RA (a : Acc) (x : AccI) (b : AccN) : Prop where
  h0 : R64 a.h0 x.h0 b.h0
  h1 : R64 a.h1 x.h1 b.h1
  h2 : R64 a.h2 x.h2 b.h2
  h3 : R64 a.h3 x.h3 b.h3
  h4 : R64 a.h4 x.h4 b.h4
  h5 : R64 a.h5 x.h5 b.h5
  h6 : R64 a.h6 x.h6 b.h6
  h7 : R64 a.h7 x.h7 b.h7
  h8 : R64 a.h8 x.h8 b.h8
  h9 : R64 a.h9 x.h9 b.h9

/-- the precondition of `fe25519_mul` / `fe25519_sq` / `fe25519_sq2` in the C comments:
    |f_i| ≤ 1.65·2^26 (i even), 1.65·2^25 (i odd) -/
def BLoose : FeN := ⟨%d, %d, %d, %d, %d, %d, %d, %d, %d, %d⟩

def acc_storeI (y : AccI) : FeI := ⟨y.h0, y.h1, y.h2, y.h3, y.h4, y.h5, y.h6, y.h7, y.h8, y.h9⟩

/-- the ten stores `h[i] = (int32_t) hi` do not truncate when every accumulator is below 2^31 in absolute value -/
theorem acc_store_ref {x : Acc} {y : AccI} {B : AccN} (h : RA x y B)
    (hb : B.h0 < 2^31 ∧ B.h1 < 2^31 ∧ B.h2 < 2^31 ∧ B.h3 < 2^31 ∧ B.h4 < 2^31 ∧ B.h5 < 2^31 ∧ B.h6 < 2^31 ∧
      B.h7 < 2^31 ∧ B.h8 < 2^31 ∧ B.h9 < 2^31) :
    RF (acc_store x) (acc_storeI y) ⟨B.h0, B.h1, B.h2, B.h3, B.h4, B.h5, B.h6, B.h7, B.h8, B.h9⟩ :=
  ⟨R32_of64 h.h0 hb.1, R32_of64 h.h1 hb.2.1, R32_of64 h.h2 hb.2.2.1, R32_of64 h.h3 hb.2.2.2.1,
   R32_of64 h.h4 hb.2.2.2.2.1, R32_of64 h.h5 hb.2.2.2.2.2.1, R32_of64 h.h6 hb.2.2.2.2.2.2.1,
   R32_of64 h.h7 hb.2.2.2.2.2.2.2.1, R32_of64 h.h8 hb.2.2.2.2.2.2.2.2.1, R32_of64 h.h9 hb.2.2.2.2.2.2.2.2.2⟩
''' % tuple((LOOSE_O if i % 2 else LOOSE_E) for i in range(10))
    os.makedirs(os.path.join(OUT, 'SodiumModel/Model'), exist_ok=True)
    os.makedirs(os.path.join(OUT, 'SodiumModel/Proofs'), exist_ok=True)
    with open(os.path.join(OUT, 'SodiumModel/Model/Fe25Gen.lean'), 'w') as fh:
        fh.write(MODEL_HEAD + '\n' + '\n\n'.join(model) + '\n\nend Sodium.Model.Fe25\n')
    with open(os.path.join(OUT, 'SodiumModel/Proofs/Fe25Gen.lean'), 'w') as fh:
        fh.write(PROOF_HEAD + '\n' + '\n\n'.join(proofs) + '\n\nend Sodium.Fe25P\n')
    print('wrote Model/Fe25Gen.lean (%d definitions), Proofs/Fe25Gen.lean' % len(model))


main()
