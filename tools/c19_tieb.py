#!/usr/bin/env python3
"""C19 Tie B: source -> Generated/Globals.lean -> `raceFreeAfterInit Generated.Globals.table = true`.

tie_b(lean_dir, repo_src) -> (ok, message, offending_entries)
  1. runs the translator (c2lean_globals.py) on the CURRENT sources under `repo_src`
     (…/src/libsodium) and (re)writes `lean_dir/Generated/Globals.lean` when it changed;
  2. cross-checks the translator's object list against `objdump -t` of a native build of the same
     sources (every symbol in a writable section must be a tracked object, and a thread-local object
     must be in .tdata/.tbss) — this also covers the hand-written assembly files, which have no AST;
  3. builds `SodiumModel.Properties.C19Globals` (the theorem `table_race_free` is `by decide +kernel`);
  4. on failure evaluates `offenders` / `culprits` of the model on the new table and names the offending
     object(s) and the functions with the unprotected / writing accesses (that is the replay).
"""
import os, re, subprocess, sys, tempfile, time

HERE = os.path.dirname(os.path.abspath(__file__))
sys.path.insert(0, HERE)
sys.path.insert(0, os.path.join(os.path.dirname(os.path.abspath(__file__)), "..", "harness"))
import c2lean_globals as G  # noqa: E402
import build_sodium as B    # noqa: E402

TARGET = "SodiumModel.Properties.C19Globals"

DIAG = r'''
import Generated.Globals
open Sodium.Model.Globals Generated.Globals
def idxOf (k : String) : Nat := ((table.objs.zipIdx.find? (·.1.key == k)).map (·.2)).getD 0
def main : IO Unit := do
  IO.println s!"CHECK {raceFreeAfterInit table}"
  IO.println s!"CLOSED {let ex := exemptFnMask policy table; let r := reachMask table ex; stepMask table ex r == r}"
  for k in offenders policy table do
    IO.println s!"OFFENDER {k}"
    for (f, what) in culprits policy table (idxOf k) do
      IO.println s!"  ACCESS {k} <- {f}: {what}"
  for k in offenders ⟨[], []⟩ table do
    IO.println s!"RAW {k}"
  for (n, _) in policy.allowObjs do
    if !(table.objs.any (·.key == n)) then IO.println s!"STALE-ALLOW {n}"
  for (n, _) in policy.exemptFns do
    if !(table.fns.any (·.key == n)) then IO.println s!"STALE-EXEMPT {n}"
#eval main
'''


def writable_symbols(lib):
    """[(object file, symbol, section)] for every object symbol of non-zero size in a writable section"""
    p = subprocess.run(["objdump", "-t", lib], capture_output=True, text=True)
    res, obj = [], None
    for ln in p.stdout.split("\n"):
        m = re.match(r"^(\S+\.o):\s+file format", ln)
        if m:
            obj = re.sub(r"^[0-9a-f]{10}_", "", m.group(1))
            continue
        m = re.match(r"^[0-9a-f]+\s+(\S+)\s+(\S*)\s*(\.t?bss\S*|\.t?data\S*)\s+([0-9a-f]+)\s+(?:\.hidden\s+|\.internal\s+|\.protected\s+)?(\S+)$", ln)
        if m and ("O" in (m.group(1) + m.group(2)) or m.group(3).startswith(".t")) and int(m.group(4), 16) > 0 \
                and not m.group(3).startswith((".data.rel.ro", ".rodata")):
            res.append((obj, re.sub(r"\.\d+$", "", m.group(5)), m.group(3)))
    return res


def objdump_crosscheck(res, outdir):
    """objects in writable sections of the built library that the translator did not find (and TLS mismatches)"""
    lib = B.build("native", os.path.join(outdir, "native-plain"), "plain")
    tracked = res["tracked"]
    by_file_name = {}
    for k, o in tracked.items():
        base = os.path.basename(o["file"]).rsplit(".", 1)[0] + ".o"
        by_file_name[(base, o["name"])] = o
    missing, tls_bad, seen = [], [], set()
    for (obj, sym, sec) in writable_symbols(lib):
        o = by_file_name.get((obj, sym))
        if o is None:
            missing.append({"object": "%s:%s" % (obj, sym), "section": sec,
                            "why": "in a writable section of the built library but not found by the translator"})
            continue
        seen.add((obj, sym))
        if o["tls"] != sec.startswith(".t"):
            tls_bad.append({"object": o["key"], "section": sec, "why": "thread-local flag of the translator disagrees with the section"})
    # the other direction is informational: non-const objects the compiler placed in .rodata / .data.rel.ro or removed
    absent = sorted(o["key"] for (k, o) in by_file_name.items() if k not in seen)
    return missing + tls_bad, absent


def tie_b(lean_dir, repo_src, crosscheck=True, outdir=None):
    t0 = time.time()
    outdir = outdir or os.path.join(lean_dir, "out", "tieb")
    os.makedirs(outdir, exist_ok=True)
    try:
        res = G.analyse(repo_src, outdir=outdir)
    except Exception as e:  # clang failure = the sources do not compile
        return False, "translator failed: %s" % e, []
    gen = os.path.join(lean_dir, "Generated", "Globals.lean")
    tmp = gen + ".new"
    info = G.emit(res, tmp)
    if not os.path.exists(gen) or open(gen).read() != open(tmp).read():
        os.replace(tmp, gen)
        regenerated = True
    else:
        os.unlink(tmp)
        regenerated = False
    offending = []
    notes = []
    unresolved = sorted({"%s: %s" % (f["key"], u) for k, f in res["functions"].items() if k in info["fidx"] for u in f["indirect_unresolved"]})
    if crosscheck:
        bad, absent = objdump_crosscheck(res, outdir)
        offending += bad
        if absent:
            notes.append("tracked but not in a writable section (constant-folded / relro / unused): " + ", ".join(absent))
    p = subprocess.run(["lake", "build", TARGET], cwd=lean_dir, capture_output=True, text=True)
    ok_build = p.returncode == 0
    if not ok_build:
        # which theorem(s)
        src = open(os.path.join(lean_dir, "SodiumModel", "Properties", "C19Globals.lean")).read().split("\n")
        failed = []
        for m in re.finditer(r"C19Globals\.lean:(\d+):\d+", p.stdout + p.stderr):
            ln = int(m.group(1))
            for i in range(ln - 1, -1, -1):
                mm = re.match(r"^(theorem|example)\s*(\S*)", src[i]) if i < len(src) else None
                if mm:
                    failed.append(mm.group(2) or "example@%d" % (i + 1))
                    break
        failed = sorted(set(failed))
        q = subprocess.run(["lake", "build", "Generated.Globals"], cwd=lean_dir, capture_output=True, text=True)
        if q.returncode != 0:
            return False, "Generated/Globals.lean does not compile:\n" + (q.stdout + q.stderr)[-3000:], offending
        with tempfile.NamedTemporaryFile("w", suffix=".lean", delete=False, dir=outdir) as fh:
            fh.write(DIAG)
            diag = fh.name
        d = subprocess.run(["lake", "env", "lean", diag], cwd=lean_dir, capture_output=True, text=True)
        cur = None
        for ln in d.stdout.split("\n"):
            if ln.startswith("OFFENDER "):
                cur = {"object": ln[9:], "accesses": [], "why": "written after initialisation and accessed without the lock; not thread-local, not in the allow-list"}
                offending.append(cur)
            elif ln.startswith("  ACCESS ") and cur is not None:
                cur["accesses"].append(ln.split("<- ", 1)[1])
            elif ln.startswith("CLOSED false"):
                offending.append({"object": "(call graph)", "why": "reachability did not reach a fixpoint in 64 rounds"})
            elif ln.startswith("STALE-"):
                offending.append({"object": ln.split(" ", 1)[1], "why": "named in the model's policy but no longer in the table (" + ln.split(" ")[0] + ")"})
        msg = "lake build %s FAILED (theorems: %s)\n" % (TARGET, ", ".join(failed) or "?")
        for o in offending:
            msg += "  offending object %s: %s\n" % (o["object"], o["why"])
            for a in o.get("accesses", []):
                msg += "      %s\n" % a
        if not offending:
            msg += (p.stdout + p.stderr)[-3000:]
        return False, msg, offending
    ok = not offending
    msg = "%s: %d objects, %d functions (%d pruned), %d API roots; Generated/Globals.lean %s; lake build %s ok; objdump cross-check %s; %.1fs" % (
        "OK" if ok else "FAILED", len(info["objects"]), len(info["functions"]), len(res["functions"]) - len(info["functions"]),
        sum(1 for k in info["functions"] if k in res["api"]),
        "regenerated" if regenerated else "unchanged", TARGET,
        ("clean" if not offending else "found %d object(s) the translator lacks" % len(offending)) if crosscheck else "skipped",
        time.time() - t0)
    for o in offending:
        msg += "\n  offending object %s (%s): %s" % (o["object"], o.get("section", ""), o["why"])
    for n in notes:
        msg += "\n  note: " + n
    if unresolved:
        msg += "\n  note: indirect calls with no target inside the library: " + "; ".join(unresolved)
    return ok, msg, offending


if __name__ == "__main__":
    lean_dir = sys.argv[1] if len(sys.argv) > 1 else os.path.dirname(HERE)
    repo_src = sys.argv[2] if len(sys.argv) > 2 else "/repo/src/libsodium"
    ok, msg, off = tie_b(lean_dir, repo_src)
    print(msg)
    if not ok:
        print("VIOLATION property=C19 tie=B replay=(python3 %s %s %s)" % (os.path.abspath(__file__), lean_dir, repo_src))
    sys.exit(0 if ok else 1)
