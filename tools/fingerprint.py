#!/usr/bin/env python3
"""Source fingerprints for hand-transcribed limb-arithmetic models.
The Lean models of the 51-bit field code (Model/Fe51.lean), of poly1305_donna64 (Model/Poly1305Donna.lean) and the limb packing of the
sandy2x wrapper were transcribed statement by statement from specific function bodies, and the theorems are about those transcriptions.
Defects in such code can have probability 2^-25 per input (a lost carry), which no sampling correspondence reaches. So the text the
transcription was made from is pinned here: comment-stripped, whitespace-normalised SHA-256 of each function body. If a body changes, the
proof no longer covers the code that exists; the check reports it (after the correspondence run has searched for a failing input).
`python3 tools/fingerprint.py --update` rewrites tools/fingerprints.json from the current /repo (to be done only together with re-proving)."""
import hashlib, json, os, re, sys

HERE = os.path.dirname(os.path.abspath(__file__))
PINS = os.path.join(HERE, "fingerprints.json")
FUNCS = {
    "include/sodium/private/ed25519_ref10_fe_51.h": ["fe25519_0", "fe25519_1", "fe25519_add", "fe25519_sub", "fe25519_neg", "fe25519_cmov", "fe25519_cswap", "fe25519_copy",
                                                     "fe25519_isnegative", "fe25519_iszero", "fe25519_mul", "fe25519_sq", "fe25519_sq2", "fe25519_mul32"],
    "crypto_core/ed25519/ref10/fe_51/fe.h": ["fe25519_frombytes", "fe25519_reduce", "fe25519_tobytes"],
    "include/sodium/private/ed25519_ref10_fe_25_5.h": ["fe25519_0", "fe25519_1", "fe25519_add", "fe25519_sub", "fe25519_neg", "fe25519_cmov", "fe25519_cswap", "fe25519_copy", "fe25519_isnegative", "fe25519_iszero"],
    "crypto_core/ed25519/ref10/fe_25_5/fe.h": ["fe25519_reduce", "fe25519_tobytes"],
    "crypto_core/ed25519/ref10/ed25519_ref10.c": ["fe25519_invert", "fe25519_pow22523",
        "ge25519_p1p1_to_p2", "ge25519_p1p1_to_p3", "ge25519_p2_to_p3", "ge25519_p3_to_p2", "ge25519_p3_to_cached", "ge25519_p3_to_precomp",
        "ge25519_p2_0", "ge25519_p3_0", "ge25519_cached_0", "ge25519_precomp_0", "ge25519_p2_dbl", "ge25519_p3_dbl", "ge25519_add_cached", "ge25519_sub_cached",
        "ge25519_add_precomp", "ge25519_sub_precomp", "ge25519_p3_add", "ge25519_p3_sub", "ge25519_cmov", "ge25519_cmov_cached", "ge25519_cmov8", "ge25519_cmov8_base",
        "ge25519_cmov8_cached", "ge25519_scalarmult", "ge25519_scalarmult_base", "slide_vartime", "ge25519_double_scalarmult_vartime", "ge25519_mul_l",
        "ge25519_is_on_curve", "ge25519_is_on_main_subgroup", "ge25519_has_small_order", "ge25519_tobytes", "ge25519_p3_tobytes", "ge25519_frombytes",
        "ge25519_frombytes_negate_vartime", "equal", "negative",
        "fe25519_sqmul", "fe25519_cneg", "fe25519_abs", "fe25519_unchecked_sqrt", "fe25519_sqrt", "fe25519_notsquare", "ge25519_mont_to_ed", "ge25519_xmont_to_ymont",
        "ge25519_clear_cofactor", "ge25519_elligator2", "ge25519_from_uniform", "fe25519_reduce64", "ge25519_from_hash", "ristretto255_sqrt_ratio_m1", "ristretto255_is_canonical",
        "ristretto255_frombytes", "ristretto255_p3_tobytes", "ristretto255_elligator", "ristretto255_from_hash"],
    "crypto_core/ed25519/core_ed25519.c": ["crypto_core_ed25519_add", "crypto_core_ed25519_sub", "crypto_core_ed25519_from_uniform", "crypto_core_ed25519_random"],
    "crypto_pwhash/argon2/argon2-core.c": ["load_block", "store_block", "argon2_finalize", "argon2_fill_memory_blocks", "argon2_fill_first_blocks", "argon2_initial_hash", "argon2_initialize"],
    "crypto_pwhash/argon2/argon2-core.h": ["init_block_value", "copy_block", "xor_block", "index_alpha"],
    "crypto_pwhash/argon2/argon2.c": ["argon2_ctx"],
    "crypto_pwhash/scryptsalsa208sha256/crypto_scrypt-common.c": ["crypto_pwhash_scryptsalsa208sha256_ll"],
    "crypto_onetimeauth/poly1305/donna/poly1305_donna64.h": ["poly1305_init", "poly1305_blocks", "poly1305_finish"],
    "crypto_onetimeauth/poly1305/donna/poly1305_donna32.h": ["poly1305_init", "poly1305_blocks", "poly1305_finish"],
    "include/sodium/private/common.h": ["load64_le", "store64_le", "load32_le", "store32_le", "load64_be", "store64_be", "load32_be", "store32_be"],
    "crypto_scalarmult/curve25519/sandy2x/curve25519_sandy2x.c": ["crypto_scalarmult_curve25519_sandy2x"],
    "crypto_sign/ed25519/ref10/keypair.c": ["crypto_sign_ed25519_seed_keypair"],
    "crypto_sign/ed25519/ref10/sign.c": ["_crypto_sign_ed25519_ref10_hinit", "_crypto_sign_ed25519_detached"],
    "crypto_sign/ed25519/ref10/open.c": ["_crypto_sign_ed25519_verify_detached"],
    "crypto_scalarmult/curve25519/ref10/x25519_ref10.c": ["crypto_scalarmult_curve25519_ref10", "has_small_order"],
}
# whole files (macro headers that are #included into a function body, generic code instantiated by several backends): name "*"
WHOLE = {
    "C04": ["crypto_onetimeauth/poly1305/sse2/poly1305_sse2.c"],
    "C07": ["crypto_core/ed25519/ref10/fe_51/constants.h", "crypto_core/ed25519/core_ristretto255.c", "crypto_scalarmult/ristretto255/ref10/scalarmult_ristretto255_ref10.c"],
    "C08": ["crypto_pwhash/argon2/blamka-round-avx2.h", "crypto_pwhash/argon2/argon2-fill-block-avx2.c", "crypto_pwhash/argon2/blamka-round-ssse3.h", "crypto_pwhash/argon2/argon2-fill-block-ssse3.c",
            "crypto_pwhash/argon2/blamka-round-avx512f.h", "crypto_pwhash/argon2/argon2-fill-block-avx512f.c", "crypto_pwhash/argon2/blamka-round-ref.h", "crypto_pwhash/argon2/argon2-fill-block-ref.c", "crypto_pwhash/argon2/blake2b-long.c",
            "crypto_pwhash/scryptsalsa208sha256/nosse/pwhash_scryptsalsa208sha256_nosse.c", "crypto_pwhash/scryptsalsa208sha256/pbkdf2-sha256.c",
            "crypto_pwhash/scryptsalsa208sha256/sse/pwhash_scryptsalsa208sha256_sse.c", "crypto_pwhash/scryptsalsa208sha256/crypto_scrypt-common.c", "crypto_pwhash/scryptsalsa208sha256/pwhash_scryptsalsa208sha256.c"],
    "C01": ["crypto_aead/aegis128l/aegis128l_common.h", "crypto_aead/aegis128l/aegis128l_soft.c", "crypto_aead/aegis256/aegis256_common.h", "crypto_aead/aegis256/aegis256_soft.c",
            "crypto_aead/aegis128l/aead_aegis128l.c", "crypto_aead/aegis256/aead_aegis256.c", "crypto_core/softaes/softaes.c", "include/sodium/private/softaes.h",
            "crypto_aead/aegis128l/aegis128l_aesni.c", "crypto_aead/aegis256/aegis256_aesni.c", "crypto_aead/aes256gcm/aesni/aead_aes256gcm_aesni.c"],
    "C03": ["crypto_stream/chacha20/dolbeau/u0.h", "crypto_stream/chacha20/dolbeau/u1.h", "crypto_stream/chacha20/dolbeau/u4.h", "crypto_stream/chacha20/dolbeau/u8.h",
            "crypto_stream/chacha20/dolbeau/chacha20_dolbeau-avx2.c", "crypto_stream/chacha20/dolbeau/chacha20_dolbeau-ssse3.c",
            "crypto_stream/salsa20/xmm6int/u0.h", "crypto_stream/salsa20/xmm6int/u1.h", "crypto_stream/salsa20/xmm6int/u4.h", "crypto_stream/salsa20/xmm6int/u8.h",
            "crypto_stream/salsa20/xmm6int/salsa20_xmm6int-sse2.c", "crypto_stream/salsa20/xmm6int/salsa20_xmm6int-avx2.c"],
}
OWNER = {"crypto_sign_ed25519": "C06", "_crypto_sign_ed25519": "C06", "fe25519_sqmul": "C07", "fe25519_cneg": "C07", "fe25519_abs": "C07", "fe25519_unchecked_sqrt": "C07", "fe25519_sqrt": "C07", "fe25519_notsquare": "C07", "fe25519_reduce64": "C07",
         "ge25519_mont_to_ed": "C07", "ge25519_xmont_to_ymont": "C07", "ge25519_clear_cofactor": "C07", "ge25519_elligator2": "C07", "ge25519_from_uniform": "C07", "ge25519_from_hash": "C07",
         "ristretto255": "C07", "crypto_core_ed25519_from_uniform": "C07", "crypto_core_ed25519_random": "C07", "load_block": "C08", "store_block": "C08", "argon2_": "C08", "init_block_value": "C08", "copy_block": "C08", "xor_block": "C08", "index_alpha": "C08",
         "crypto_pwhash_scryptsalsa208sha256_ll": "C08", "poly1305": "C04", "fe25519_pow22523": "C06", "fe25519": "C05", "crypto_scalarmult": "C05", "has_small_order": "C05", "ge25519": "C06", "slide_vartime": "C06",
         "equal": "C06", "negative": "C06", "crypto_core_ed25519": "C06"}


def strip(s):
    s = re.sub(r"/\*.*?\*/", " ", s, flags=re.S)
    s = re.sub(r"//[^\n]*", " ", s)
    return re.sub(r"\s+", " ", s).strip()


def body(txt, name):
    m = re.search(r"\b%s\s*\([^;{]*\)\s*\{" % re.escape(name), txt)
    if not m:
        return None
    i = m.end(); depth = 1; j = i
    while depth and j < len(txt):
        depth += (txt[j] == "{") - (txt[j] == "}")
        j += 1
    return txt[m.start():j]


def compute(repo):
    out = {}
    for rel, names in FUNCS.items():
        p = os.path.join(repo, "src", "libsodium", rel)
        txt = strip(open(p).read()) if os.path.exists(p) else ""
        for n in names:
            b = body(txt, n)
            out["%s:%s" % (rel, n)] = hashlib.sha256(b.encode()).hexdigest()[:24] if b else "MISSING"
    for owner, rels in WHOLE.items():
        for rel in rels:
            p = os.path.join(repo, "src", "libsodium", rel)
            out["%s:*%s" % (rel, owner)] = hashlib.sha256(strip(open(p).read()).encode()).hexdigest()[:24] if os.path.exists(p) else "MISSING"
    return out


def changed(repo, prop=None):
    """[(function key, pinned, current)] for the functions owned by `prop` (or all) whose body differs from the pinned text"""
    pins = json.load(open(PINS))
    cur = compute(repo)
    res = []
    for k, v in pins.items():
        fn = k.split(":")[1]
        owner = fn[1:] if fn.startswith("*") else ("C10" if ("fe_25_5" in k or "donna32" in k or "private/common.h" in k) else next((o for pre, o in OWNER.items() if fn.startswith(pre)), None))
        if prop and owner not in prop.split(","):
            continue
        if cur.get(k) != v:
            res.append((k, v, cur.get(k)))
    return res


if __name__ == "__main__":
    repo = os.environ.get("VERIF_REPO", "/repo")
    if "--update" in sys.argv:
        json.dump(compute(repo), open(PINS, "w"), indent=1, sort_keys=True)
        print("pinned", len(compute(repo)), "function bodies")
    else:
        print(changed(repo))
